import Arc.Model.C07
/-! Helper lemmas for C07: how each function of the LTS moves rows between memory (`liveRows`),
Parquet (`stored`) and the WAL files. Core only. -/
namespace Arc.C07

@[simp] theorem cnt_nil (i : Nat) : cnt [] i = 0 := rfl
@[simp] theorem cnt_append (a b : List Row) (i : Nat) : cnt (a ++ b) i = cnt a i + cnt b i := by
  simp [cnt]
theorem cnt_filter_le (p : Row → Bool) (a : List Row) (i : Nat) : cnt (a.filter p) i ≤ cnt a i := by
  unfold cnt; exact List.Sublist.countP_le List.filter_sublist

@[simp] theorem bufRows_nil : bufRows [] = [] := rfl
@[simp] theorem bufRows_cons (b : Buf) (bs : List Buf) : bufRows (b :: bs) = b.rows ++ bufRows bs := by
  simp [bufRows]
@[simp] theorem bufRows_append (a b : List Buf) : bufRows (a ++ b) = bufRows a ++ bufRows b := by
  simp [bufRows]
@[simp] theorem taskRows_nil : taskRows [] = [] := rfl
@[simp] theorem taskRows_cons (t : Task) (q : List Task) : taskRows (t :: q) = t.rows ++ taskRows q := by
  simp [taskRows]
@[simp] theorem taskRows_append (a b : List Task) : taskRows (a ++ b) = taskRows a ++ taskRows b := by
  simp [taskRows]
@[simp] theorem optRows_none : optRows none = [] := rfl
@[simp] theorem optRows_some (t : Task) : optRows (some t) = t.rows := rfl
@[simp] theorem filesRows_nil : filesRows [] = [] := rfl
@[simp] theorem filesRows_cons (f : WFile) (fs : List WFile) : filesRows (f :: fs) = fileRows f ++ filesRows fs := by
  simp [filesRows]
@[simp] theorem filesRows_append (a b : List WFile) : filesRows (a ++ b) = filesRows a ++ filesRows b := by
  simp [filesRows]

/-- memory + Parquet copies, spelled out -/
theorem cntLS_eq (s : St) (i : Nat) :
    cntLS s i = cnt (bufRows s.bufs) i + cnt (taskRows s.queue) i + cnt (optRows s.inflight) i + cnt s.stored i := by
  simp [cntLS, liveRows]; omega

/-- the part of the state the live/stored count and the WAL files depend on -/
structure SameMem (a b : St) : Prop where
  bufs : a.bufs = b.bufs
  queue : a.queue = b.queue
  inflight : a.inflight = b.inflight
  stored : a.stored = b.stored

theorem SameMem.cntLS {a b : St} (h : SameMem a b) (i : Nat) : cntLS a i = cntLS b i := by
  simp [cntLS_eq, h.bufs, h.queue, h.inflight, h.stored]

/-! ### flushRows and friends: rows given to a flush end up in `stored` at most once -/

theorem flushRows_frame (s : St) (rows : List Row) :
    (flushRows s rows).1.bufs = s.bufs ∧ (flushRows s rows).1.queue = s.queue ∧
    (flushRows s rows).1.inflight = s.inflight ∧ (flushRows s rows).1.files = s.files ∧
    (flushRows s rows).1.closing = s.closing ∧ (flushRows s rows).1.hold = s.hold := by
  unfold flushRows; split
  · simp
  · split <;> simp

theorem flushRows_stored (s : St) (rows : List Row) (i : Nat) :
    cnt (flushRows s rows).1.stored i ≤ cnt s.stored i + cnt rows i := by
  unfold flushRows; split
  · simp
  · split
    · simp
    · simp only [cnt_append]
      have := cnt_filter_le (fun r => (List.drop (s.obs.length - ‹Nat›) s.obs).contains r.hour) rows i
      omega

/-- a function that only moves rows out of memory into Parquet or drops them -/
def Shrinks (f : St → St) : Prop :=
  ∀ s i, cntLS (f s) i ≤ cntLS s i

theorem markFail_frame (b : Bool) (r : St × Bool) :
    (markFail b r).bufs = r.1.bufs ∧ (markFail b r).queue = r.1.queue ∧
    (markFail b r).inflight = r.1.inflight ∧ (markFail b r).files = r.1.files ∧
    (markFail b r).closing = r.1.closing ∧ (markFail b r).hold = r.1.hold ∧
    (markFail b r).stored = r.1.stored := by
  unfold markFail; split
  · simp
  · split <;> simp

theorem workerFlush_frame (c : Cfg) (s : St) (t : Task) :
    (workerFlush c s t).bufs = s.bufs ∧ (workerFlush c s t).queue = s.queue ∧
    (workerFlush c s t).inflight = s.inflight ∧ (workerFlush c s t).files = s.files ∧
    (workerFlush c s t).closing = s.closing ∧ (workerFlush c s t).hold = s.hold := by
  have h := flushRows_frame s t.rows
  have m := markFail_frame (workerSets c s) (flushRows s t.rows)
  unfold workerFlush
  exact ⟨m.1.trans h.1, m.2.1.trans h.2.1, m.2.2.1.trans h.2.2.1, m.2.2.2.1.trans h.2.2.2.1,
    m.2.2.2.2.1.trans h.2.2.2.2.1, m.2.2.2.2.2.1.trans h.2.2.2.2.2⟩

theorem workerFlush_stored (c : Cfg) (s : St) (t : Task) (i : Nat) :
    cnt (workerFlush c s t).stored i ≤ cnt s.stored i + cnt t.rows i := by
  have h := flushRows_stored s t.rows i
  have m := markFail_frame (workerSets c s) (flushRows s t.rows)
  unfold workerFlush; rw [m.2.2.2.2.2.2]; exact h

theorem syncFlush_frame (c : Cfg) (s : St) (rows : List Row) :
    (syncFlush c s rows).bufs = s.bufs ∧ (syncFlush c s rows).queue = s.queue ∧
    (syncFlush c s rows).inflight = s.inflight ∧ (syncFlush c s rows).files = s.files ∧
    (syncFlush c s rows).closing = s.closing ∧ (syncFlush c s rows).hold = s.hold := by
  have h := flushRows_frame s rows
  have m := markFail_frame (syncSets c s) (flushRows s rows)
  unfold syncFlush
  exact ⟨m.1.trans h.1, m.2.1.trans h.2.1, m.2.2.1.trans h.2.2.1, m.2.2.2.1.trans h.2.2.2.1,
    m.2.2.2.2.1.trans h.2.2.2.2.1, m.2.2.2.2.2.1.trans h.2.2.2.2.2⟩

theorem syncFlush_stored (c : Cfg) (s : St) (rows : List Row) (i : Nat) :
    cnt (syncFlush c s rows).stored i ≤ cnt s.stored i + cnt rows i := by
  have h := flushRows_stored s rows i
  have m := markFail_frame (syncSets c s) (flushRows s rows)
  unfold syncFlush; rw [m.2.2.2.2.2.2]; exact h

theorem workerFlush_cntLS (c : Cfg) (s : St) (t : Task) (i : Nat) :
    cntLS (workerFlush c s t) i ≤ cntLS s i + cnt t.rows i := by
  have f := workerFlush_frame c s t
  have h := workerFlush_stored c s t i
  simp only [cntLS_eq, f.1, f.2.1, f.2.2.1]; omega

theorem syncFlush_cntLS (c : Cfg) (s : St) (rows : List Row) (i : Nat) :
    cntLS (syncFlush c s rows) i ≤ cntLS s i + cnt rows i := by
  have f := syncFlush_frame c s rows
  have h := syncFlush_stored c s rows i
  simp only [cntLS_eq, f.1, f.2.1, f.2.2.1]; omega

/-- folding the worker over tasks that are no longer in the state -/
theorem foldl_workerFlush_cntLS (c : Cfg) (q : List Task) (s : St) (i : Nat) :
    cntLS (q.foldl (workerFlush c) s) i ≤ cntLS s i + cnt (taskRows q) i := by
  induction q generalizing s with
  | nil => simp
  | cons t q ih =>
    have h1 := ih (workerFlush c s t)
    have h2 := workerFlush_cntLS c s t i
    simp only [List.foldl_cons, taskRows_cons, cnt_append]; omega

theorem foldl_workerFlush_files (c : Cfg) (q : List Task) (s : St) :
    (q.foldl (workerFlush c) s).files = s.files := by
  induction q generalizing s with
  | nil => rfl
  | cons t q ih => simp [List.foldl_cons, ih, (workerFlush_frame c s t).2.2.2.1]


/-! ### worker, queue, buffers -/

theorem finishInflight_cntLS (c : Cfg) (s : St) (i : Nat) : cntLS (finishInflight c s) i ≤ cntLS s i := by
  unfold finishInflight; split
  · rename_i t h
    have := workerFlush_cntLS c { s with inflight := none } t i
    simp only [cntLS_eq] at this ⊢
    simp only [h, optRows_some, optRows_none, cnt_nil] at this ⊢
    omega
  · exact Nat.le_refl _

theorem finishInflight_frame (c : Cfg) (s : St) :
    (finishInflight c s).files = s.files ∧ (finishInflight c s).queue = s.queue ∧
    (finishInflight c s).bufs = s.bufs ∧ (finishInflight c s).closing = s.closing ∧
    (finishInflight c s).hold = s.hold := by
  unfold finishInflight; split
  · rename_i t h
    have f := workerFlush_frame c { s with inflight := none } t
    exact ⟨f.2.2.2.1, f.2.1, f.1, f.2.2.2.2.1, f.2.2.2.2.2⟩
  · simp

theorem drainQueue_cntLS (c : Cfg) (s : St) (i : Nat) : cntLS (drainQueue c s) i ≤ cntLS s i := by
  unfold drainQueue
  have := foldl_workerFlush_cntLS c s.queue { s with queue := [] } i
  simp only [cntLS_eq, taskRows_nil, cnt_nil] at this ⊢
  omega

theorem drainQueue_files (c : Cfg) (s : St) : (drainQueue c s).files = s.files := by
  unfold drainQueue; rw [foldl_workerFlush_files]

theorem runWorker_cntLS (c : Cfg) (s : St) (i : Nat) : cntLS (runWorker c s) i ≤ cntLS s i := by
  unfold runWorker
  exact Nat.le_trans (drainQueue_cntLS c _ i) (finishInflight_cntLS c s i)

theorem runWorker_files (c : Cfg) (s : St) : (runWorker c s).files = s.files := by
  unfold runWorker; rw [drainQueue_files, (finishInflight_frame c s).1]

theorem settle_cntLS (c : Cfg) (s : St) (i : Nat) : cntLS (settle c s) i ≤ cntLS s i := by
  unfold settle; split
  · split
    · rename_i t q h1 h2
      simp only [cntLS_eq, h1, h2, optRows_some, optRows_none, taskRows_cons, cnt_append, cnt_nil]
      omega
    · exact Nat.le_refl _
  · exact runWorker_cntLS c s i

theorem settle_files (c : Cfg) (s : St) : (settle c s).files = s.files := by
  unfold settle; split
  · split <;> rfl
  · exact runWorker_files c s

theorem enqueue_cntLS (c : Cfg) (s : St) (t : Task) (i : Nat) :
    cntLS (enqueue c s t) i ≤ cntLS s i + cnt t.rows i := by
  unfold enqueue; split
  · simp only [cntLS_eq]; omega
  · split
    · have := settle_cntLS c { s with queue := s.queue ++ [t] } i
      simp only [cntLS_eq, taskRows_append, taskRows_cons, taskRows_nil, cnt_append, List.append_nil] at this ⊢
      omega
    · split <;> (simp only [cntLS_eq]; omega)

theorem enqueue_files (c : Cfg) (s : St) (t : Task) : (enqueue c s t).files = s.files := by
  unfold enqueue; split
  · rfl
  · split
    · rw [settle_files]
    · split <;> rfl

theorem takeBuf_cnt (k : Nat) (bs : List Buf) (i : Nat) :
    cnt (bufRows bs) i = cnt (oldRows k bs) i + cnt (bufRows (takeBuf k bs).2) i := by
  induction bs with
  | nil => simp [oldRows, takeBuf]
  | cons b bs ih =>
    unfold oldRows at ih ⊢
    unfold takeBuf
    by_cases h : b.key = k
    · simp [h]
    · simp only [h, if_false, bufRows_cons, cnt_append]
      omega

theorem bufAppend_cntLS (c : Cfg) (s : St) (k : Nat) (rows : List Row) (i : Nat) :
    cntLS (bufAppend c s k rows) i ≤ cntLS s i + cnt rows i := by
  have hb := takeBuf_cnt k s.bufs i
  unfold bufAppend; split
  · have := enqueue_cntLS c { s with bufs := (takeBuf k s.bufs).2 } ⟨k, oldRows k s.bufs ++ rows⟩ i
    simp only [cntLS_eq, cnt_append] at this ⊢
    omega
  · simp only [cntLS_eq, bufRows_append, bufRows_cons, bufRows_nil, cnt_append, List.append_nil]
    omega

theorem bufAppend_files (c : Cfg) (s : St) (k : Nat) (rows : List Row) :
    (bufAppend c s k rows).files = s.files := by
  unfold bufAppend; split
  · rw [enqueue_files]
  · rfl


/-! ### WAL writer: memory untouched -/

theorem SameMem.refl (s : St) : SameMem s s := ⟨rfl, rfl, rfl, rfl⟩
theorem SameMem.trans {a b c : St} (h1 : SameMem a b) (h2 : SameMem b c) : SameMem a c :=
  ⟨h1.bufs.trans h2.bufs, h1.queue.trans h2.queue, h1.inflight.trans h2.inflight, h1.stored.trans h2.stored⟩

theorem persist_mem (c : Cfg) (s : St) (e : Entry) : SameMem (persist c s e) s := by
  unfold persist; split
  · exact SameMem.refl s
  · split
    · exact ⟨rfl, rfl, rfl, rfl⟩
    · exact ⟨rfl, rfl, rfl, rfl⟩

theorem foldl_persist_mem (c : Cfg) (es : List Entry) (s : St) : SameMem (es.foldl (persist c) s) s := by
  induction es generalizing s with
  | nil => exact SameMem.refl s
  | cons e es ih => exact (ih _).trans (persist_mem c s e)

theorem drainChan_mem (c : Cfg) (s : St) : SameMem (drainChan c s) s := by
  unfold drainChan
  exact (foldl_persist_mem c s.chan _).trans ⟨rfl, rfl, rfl, rfl⟩

theorem walAppend_mem (c : Cfg) (s : St) (e : Entry) : SameMem (walAppend c s e) s := by
  unfold walAppend; split
  · split
    · exact ⟨rfl, rfl, rfl, rfl⟩
    · exact (drainChan_mem c _).trans ⟨rfl, rfl, rfl, rfl⟩
  · exact ⟨rfl, rfl, rfl, rfl⟩

theorem walStage_mem (c : Cfg) (s : St) (p k : Nat) (rows : List Row) : SameMem (walStage c s p k rows) s := by
  unfold walStage; split
  · exact (walAppend_mem c _ _).trans ⟨rfl, rfl, rfl, rfl⟩
  · exact ⟨rfl, rfl, rfl, rfl⟩

theorem closeActive_mem (s : St) : SameMem (closeActive s) s := by
  unfold closeActive; split <;> exact ⟨rfl, rfl, rfl, rfl⟩

theorem walClose_mem (c : Cfg) (s : St) : SameMem (walClose c s) s := by
  unfold walClose
  exact (closeActive_mem _).trans ((drainChan_mem c _).trans ⟨rfl, rfl, rfl, rfl⟩)

theorem purgeAll_mem (s : St) : SameMem (purgeAll s) s := ⟨rfl, rfl, rfl, rfl⟩

/-! ### WAL files: partition, sort, replay -/

def entriesRows (es : List Entry) : List Row := es.flatMap (·.rows)

@[simp] theorem entriesRows_nil : entriesRows [] = [] := rfl
@[simp] theorem entriesRows_cons (e : Entry) (es : List Entry) : entriesRows (e :: es) = e.rows ++ entriesRows es := by
  simp [entriesRows]
@[simp] theorem entriesRows_append (a b : List Entry) : entriesRows (a ++ b) = entriesRows a ++ entriesRows b := by
  simp [entriesRows]

theorem entriesRows_flatMap (fs : List WFile) : entriesRows (fs.flatMap (·.entries)) = filesRows fs := by
  induction fs with
  | nil => rfl
  | cons f fs ih =>
    rw [List.flatMap_cons, entriesRows_append, ih, filesRows_cons]; rfl

theorem filesRows_filter_partition (p : WFile → Bool) (fs : List WFile) (i : Nat) :
    cnt (filesRows fs) i = cnt (filesRows (fs.filter p)) i + cnt (filesRows (fs.filter (fun f => !p f))) i := by
  induction fs with
  | nil => simp
  | cons f fs ih =>
    by_cases h : p f
    · simp [h]; omega
    · simp [h]; omega

theorem filesRows_filter_le (p : WFile → Bool) (fs : List WFile) (i : Nat) :
    cnt (filesRows (fs.filter p)) i ≤ cnt (filesRows fs) i := by
  have := filesRows_filter_partition p fs i; omega

theorem insertByMtime_cnt (f : WFile) (l : List WFile) (i : Nat) :
    cnt (filesRows (insertByMtime f l)) i = cnt (fileRows f) i + cnt (filesRows l) i := by
  induction l with
  | nil => simp [insertByMtime]
  | cons g gs ih =>
    unfold insertByMtime
    by_cases h : f.mtime < g.mtime
    · simp [h]
    · simp [h, ih]; omega

theorem foldl_insert_cnt (fs acc : List WFile) (i : Nat) :
    cnt (filesRows (fs.foldl (fun acc f => insertByMtime f acc) acc)) i = cnt (filesRows acc) i + cnt (filesRows fs) i := by
  induction fs generalizing acc with
  | nil => simp
  | cons f fs ih => simp [List.foldl_cons, ih, insertByMtime_cnt]; omega

theorem sortByMtime_cnt (fs : List WFile) (i : Nat) : cnt (filesRows (sortByMtime fs)) i = cnt (filesRows fs) i := by
  unfold sortByMtime; rw [foldl_insert_cnt]; simp

theorem replayRows_cntLS (c : Cfg) (k : Nat) (rows : List Row) (s : St) (i : Nat) :
    cntLS (replayRows c k s rows) i ≤ cntLS s i + cnt rows i := by
  unfold replayRows
  induction rows generalizing s with
  | nil => simp
  | cons r rows ih =>
    have h1 := ih (bufAppend c s k [r])
    have h2 := bufAppend_cntLS c s k [r] i
    have h3 : cnt (r :: rows) i = cnt [r] i + cnt rows i := by
      rw [show r :: rows = [r] ++ rows from rfl, cnt_append]
    simp only [List.foldl_cons]; omega

theorem replayRows_files (c : Cfg) (k : Nat) (rows : List Row) (s : St) : (replayRows c k s rows).files = s.files := by
  unfold replayRows
  induction rows generalizing s with
  | nil => rfl
  | cons r rows ih => simp [List.foldl_cons, ih, bufAppend_files]

theorem replayEntry_cntLS (c : Cfg) (s : St) (e : Entry) (i : Nat) :
    cntLS (replayEntry c s e) i ≤ cntLS s i + cnt e.rows i := by
  unfold replayEntry; split
  · exact replayRows_cntLS c e.key e.rows s i
  · exact bufAppend_cntLS c s e.key e.rows i

theorem replayEntry_files (c : Cfg) (s : St) (e : Entry) : (replayEntry c s e).files = s.files := by
  unfold replayEntry; split
  · exact replayRows_files c e.key e.rows s
  · exact bufAppend_files c s e.key e.rows

theorem replayEntries_cntLS (c : Cfg) (es : List Entry) (s : St) (i : Nat) :
    cntLS (replayEntries c s es) i ≤ cntLS s i + cnt (entriesRows es) i := by
  unfold replayEntries
  induction es generalizing s with
  | nil => simp
  | cons e es ih =>
    have h1 := ih (replayEntry c s e)
    have h2 := replayEntry_cntLS c s e i
    simp only [List.foldl_cons, entriesRows_cons, cnt_append]; omega

theorem replayEntries_files (c : Cfg) (es : List Entry) (s : St) : (replayEntries c s es).files = s.files := by
  unfold replayEntries
  induction es generalizing s with
  | nil => rfl
  | cons e es ih => simp [List.foldl_cons, ih, replayEntry_files]

/-- potential: copies in memory/Parquet plus copies in non-active WAL files -/
def phi (s : St) (i : Nat) : Nat := cntLS s i + cnt (filesRows s.files) i

theorem replayFiles_phi (c : Cfg) (m : Nat) (s : St) (i : Nat) : phi (replayFiles c m s) i ≤ phi s i := by
  unfold phi replayFiles
  rw [replayEntries_files]
  have h1 := replayEntries_cntLS c ((sortByMtime (s.files.filter (oldEnough m s.now))).flatMap (·.entries))
    { s with files := s.files.filter (fun f => !oldEnough m s.now f) } i
  rw [entriesRows_flatMap, sortByMtime_cnt] at h1
  have h2 := filesRows_filter_partition (oldEnough m s.now) s.files i
  have h3 : cntLS { s with files := s.files.filter (fun f => !oldEnough m s.now f) } i = cntLS s i :=
    SameMem.cntLS ⟨rfl, rfl, rfl, rfl⟩ i
  simp only at h1 ⊢
  omega

theorem purgeOld_phi (c : Cfg) (s : St) (i : Nat) : phi (purgeOld c s) i ≤ phi s i := by
  unfold phi purgeOld
  have h := filesRows_filter_le (fun f => !(decide (c.safeAge ≤ s.now - f.mtime))) s.files i
  have h3 : cntLS { s with files := s.files.filter (fun f => !(decide (c.safeAge ≤ s.now - f.mtime))) } i = cntLS s i :=
    SameMem.cntLS ⟨rfl, rfl, rfl, rfl⟩ i
  simp only at h ⊢
  omega

theorem tickAct_phi (c : Cfg) (s : St) (a : TickAct) (i : Nat) : phi (tickAct c s a) i ≤ phi s i := by
  cases a with
  | purge => exact purgeOld_phi c s i
  | replay => exact replayFiles_phi c c.minFileAge s i
  | reset =>
    unfold tickAct phi
    have h3 : cntLS { s with flag := false } i = cntLS s i := SameMem.cntLS ⟨rfl, rfl, rfl, rfl⟩ i
    simp only at ⊢; omega

theorem foldl_tickAct_phi (c : Cfg) (as : List TickAct) (s : St) (i : Nat) :
    phi (as.foldl (tickAct c) s) i ≤ phi s i := by
  induction as generalizing s with
  | nil => exact Nat.le_refl _
  | cons a as ih => exact Nat.le_trans (ih _) (tickAct_phi c s a i)

theorem tick_phi (c : Cfg) (s : St) (i : Nat) : phi (tick c s) i ≤ phi s i := by
  unfold tick; split
  · exact foldl_tickAct_phi c _ s i
  · exact Nat.le_refl _


/-! ### sync flushes, shutdown, crash, restart, write, step -/

theorem flushBufs_cntLS (c : Cfg) (bs : List Buf) (s : St) (i : Nat) :
    cntLS (flushBufs c s bs) i ≤ cntLS s i + cnt (bufRows bs) i := by
  unfold flushBufs
  induction bs generalizing s with
  | nil => simp
  | cons b bs ih =>
    have h1 := ih (syncFlush c s b.rows)
    have h2 := syncFlush_cntLS c s b.rows i
    simp only [List.foldl_cons, bufRows_cons, cnt_append]; omega

theorem bufRows_filter_partition (p : Buf → Bool) (bs : List Buf) (i : Nat) :
    cnt (bufRows bs) i = cnt (bufRows (bs.filter p)) i + cnt (bufRows (bs.filter (fun b => !p b))) i := by
  induction bs with
  | nil => simp
  | cons b bs ih =>
    by_cases h : p b
    · simp [h]; omega
    · simp [h]; omega

theorem ageFlush_cntLS (c : Cfg) (s : St) (i : Nat) : cntLS (ageFlush c s) i ≤ cntLS s i := by
  unfold ageFlush
  have h1 := flushBufs_cntLS c (s.bufs.filter (aged c s.now)) { s with bufs := s.bufs.filter (fun b => !aged c s.now b) } i
  have h2 := bufRows_filter_partition (aged c s.now) s.bufs i
  simp only [cntLS_eq] at h1 ⊢
  omega

theorem taskRows_take_le (q : List Task) (d : Nat) (i : Nat) : cnt (taskRows (q.take d)) i ≤ cnt (taskRows q) i := by
  have h : cnt (taskRows (q.take d ++ q.drop d)) i = cnt (taskRows q) i := by rw [List.take_append_drop]
  rw [taskRows_append, cnt_append] at h; omega

theorem dropQueueTail_cntLS (c : Cfg) (d : Nat) (s : St) (i : Nat) : cntLS (dropQueueTail c d s) i ≤ cntLS s i := by
  unfold dropQueueTail
  have h1 := foldl_workerFlush_cntLS c (s.queue.take d) { s with queue := [] } i
  have h2 := taskRows_take_le s.queue d i
  have h3 : ∀ (b : Bool) (t : St), cntLS (flagIf b t) i = cntLS t i := by
    intro b t; unfold flagIf; split
    · exact SameMem.cntLS ⟨rfl, rfl, rfl, rfl⟩ i
    · rfl
  rw [h3]
  simp only [cntLS_eq, taskRows_nil, cnt_nil] at h1 ⊢
  omega

theorem flushAllBufs_cntLS (c : Cfg) (s : St) (i : Nat) : cntLS (flushAllBufs c s) i ≤ cntLS s i := by
  unfold flushAllBufs
  have h1 := flushBufs_cntLS c s.bufs { s with bufs := [] } i
  simp only [cntLS_eq, bufRows_nil, cnt_nil] at h1 ⊢
  omega

theorem bufClose_cntLS (c : Cfg) (s : St) (d : Nat) (i : Nat) : cntLS (bufClose c s d) i ≤ cntLS s i := by
  unfold bufClose
  have h0 : cntLS { s with closing := true, hold := false } i = cntLS s i := SameMem.cntLS ⟨rfl, rfl, rfl, rfl⟩ i
  have h1 := finishInflight_cntLS c { s with closing := true, hold := false } i
  have h2 := dropQueueTail_cntLS c d (finishInflight c { s with closing := true, hold := false }) i
  have h3 := flushAllBufs_cntLS c (dropQueueTail c d (finishInflight c { s with closing := true, hold := false })) i
  omega

theorem shutAct_cntLS (c : Cfg) (d : Nat) (s : St) (a : ShutAct) (i : Nat) : cntLS (shutAct c d s a) i ≤ cntLS s i := by
  cases a with
  | purgeAll =>
    show cntLS (if c.walOn && !(c.facts.purgeGuardedByFlag && s.flag) then purgeAll s else s) i ≤ cntLS s i
    split
    · exact Nat.le_of_eq ((purgeAll_mem s).cntLS i)
    · exact Nat.le_refl _
  | bufClose => exact bufClose_cntLS c s d i
  | walClose =>
    show cntLS (if c.walOn then walClose c s else s) i ≤ cntLS s i
    split
    · exact Nat.le_of_eq ((walClose_mem c s).cntLS i)
    · exact Nat.le_refl _

theorem foldl_shutAct_cntLS (c : Cfg) (d : Nat) (as : List ShutAct) (s : St) (i : Nat) :
    cntLS (as.foldl (shutAct c d) s) i ≤ cntLS s i := by
  induction as generalizing s with
  | nil => exact Nat.le_refl _
  | cons a as ih => exact Nat.le_trans (ih _) (shutAct_cntLS c d s a i)

theorem shutdown_cntLS (c : Cfg) (s : St) (d : Nat) (i : Nat) : cntLS (shutdown c s d) i ≤ cntLS s i := by
  unfold shutdown
  have h := foldl_shutAct_cntLS c d c.facts.shutdown s i
  have h0 : cntLS { (c.facts.shutdown.foldl (shutAct c d) s) with up := false } i
      = cntLS (c.facts.shutdown.foldl (shutAct c d) s) i := SameMem.cntLS ⟨rfl, rfl, rfl, rfl⟩ i
  omega

theorem crash_cntLS (s : St) (i : Nat) : cntLS (crash s) i ≤ cntLS s i := by
  have h := (closeActive_mem s).stored
  unfold crash
  simp only [cntLS_eq, bufRows_nil, taskRows_nil, optRows_none, cnt_nil, h]
  omega

theorem restart_cntLS (c : Cfg) (s : St) (i : Nat) : cntLS (restart c s) i ≤ phi s i := by
  have hf : cntLS (freshProc s) i ≤ cntLS s i := by
    unfold freshProc; simp only [cntLS_eq, bufRows_nil, taskRows_nil, optRows_none, cnt_nil]; omega
  unfold restart; split
  · have h1 := replayFiles_phi c 0 (openWal (freshProc s)) i
    have h2 : phi (openWal (freshProc s)) i = cntLS (freshProc s) i + cnt (filesRows s.files) i := by
      unfold phi
      have : cntLS (openWal (freshProc s)) i = cntLS (freshProc s) i := SameMem.cntLS ⟨rfl, rfl, rfl, rfl⟩ i
      rw [this]; rfl
    unfold phi at h1 ⊢
    unfold phi at h2
    omega
  · unfold phi; omega

theorem writeP_cntLS (c : Cfg) (s : St) (p k : Nat) (rows : List Row) (i : Nat) :
    cntLS (writeP c s p k rows) i ≤ cntLS s i + cnt rows i := by
  unfold writeP
  have h0 : cntLS (finishWrite c p (bufAppend c (walStage c s p k rows) k rows) rows) i
      = cntLS (bufAppend c (walStage c s p k rows) k rows) i := SameMem.cntLS ⟨rfl, rfl, rfl, rfl⟩ i
  have h1 := bufAppend_cntLS c (walStage c s p k rows) k rows i
  have h2 := (walStage_mem c s p k rows).cntLS i
  omega

theorem write_cntLS (c : Cfg) (s : St) (k : Nat) (rows : List Row) (i : Nat) :
    cntLS (write c s k rows) i ≤ cntLS s i + cnt rows i := writeP_cntLS c s 0 k rows i

theorem step1_cntLS (c : Cfg) (s : St) (i : Nat) : cntLS (step1 c s) i ≤ cntLS s i := by
  unfold step1; split
  · exact Nat.le_trans (settle_cntLS c _ i) (finishInflight_cntLS c s i)
  · exact Nat.le_refl _

theorem begin_mem (s : St) (obs : List Nat) (d : Nat) : SameMem (begin s obs d) s := ⟨rfl, rfl, rfl, rfl⟩
theorem begin_files (s : St) (obs : List Nat) (d : Nat) : (begin s obs d).files = s.files := rfl

/-- rows an event may add to memory: the rows of a write; whatever sits in non-active WAL files for the
two events that replay (maintenance tick, restart) -/
def added (s : St) (e : Ev) (i : Nat) : Nat :=
  match e with
  | .write _ rows => cnt rows i
  | .writeT _ _ rows => cnt rows i
  | .tick => cnt (filesRows s.files) i
  | .restart => cnt (filesRows s.files) i
  | _ => 0

theorem stepUp_cntLS (c : Cfg) (s : St) (e : Ev) (i : Nat) (hne : e.injects = false) :
    cntLS (stepUp c s e) i ≤ cntLS s i + added s e i := by
  cases e with
  | tickF n => simp [Ev.injects] at hne
  | restartF n => exact Nat.le_add_right _ _
  | write k rows => exact write_cntLS c s k rows i
  | writeT d k rows => exact writeP_cntLS c s _ k rows i
  | stall => exact Nat.le_refl _
  | tick =>
    have := tick_phi c s i
    unfold phi at this
    show cntLS (tick c s) i ≤ cntLS s i + cnt (filesRows s.files) i
    omega
  | wpause => exact Nat.le_of_eq (SameMem.cntLS ⟨rfl, rfl, rfl, rfl⟩ i)
  | wresume =>
    show cntLS (drainChan c { s with paused := false }) i ≤ cntLS s i + 0
    have := (drainChan_mem c { s with paused := false }).cntLS i
    have h0 : cntLS { s with paused := false } i = cntLS s i := SameMem.cntLS ⟨rfl, rfl, rfl, rfl⟩ i
    omega
  | hold => exact Nat.le_of_eq (SameMem.cntLS ⟨rfl, rfl, rfl, rfl⟩ i)
  | unhold =>
    show cntLS (runWorker c { s with hold := false }) i ≤ cntLS s i + 0
    have := runWorker_cntLS c { s with hold := false } i
    have h0 : cntLS { s with hold := false } i = cntLS s i := SameMem.cntLS ⟨rfl, rfl, rfl, rfl⟩ i
    omega
  | step1 => exact step1_cntLS c s i
  | ageFlush => exact ageFlush_cntLS c s i
  | shutdown d => exact shutdown_cntLS c s d i
  | crash => exact crash_cntLS s i
  | adv d => exact Nat.le_refl _
  | mode m => exact Nat.le_refl _
  | restart => exact Nat.le_add_right _ _

theorem step_cntLS (c : Cfg) (s : St) (e : Ev) (obs : List Nat) (i : Nat) (hne : e.injects = false) :
    cntLS (step c s e obs) i ≤ cntLS s i + added s e i := by
  have hb : ∀ d, cntLS (begin s obs d) i = cntLS s i := fun d => (begin_mem s obs d).cntLS i
  have up : ∀ e', e'.injects = false → cntLS (if s.up then stepUp c (begin s obs 1) e' else begin s obs 0) i ≤ cntLS s i + added s e' i := by
    intro e' he'
    split
    · have := stepUp_cntLS c (begin s obs 1) e' i he'
      have h1 := hb 1
      have h2 : added (begin s obs 1) e' i = added s e' i := by cases e' <;> rfl
      omega
    · have := hb 0; omega
  cases e with
  | tickF n => simp [Ev.injects] at hne
  | restartF n => simp [Ev.injects] at hne
  | adv d => exact Nat.le_of_eq (hb d)
  | mode m =>
    show cntLS { begin s obs 1 with failAfter := m, stalled := false } i ≤ cntLS s i + 0
    have h0 : cntLS { begin s obs 1 with failAfter := m, stalled := false } i = cntLS (begin s obs 1) i := SameMem.cntLS ⟨rfl, rfl, rfl, rfl⟩ i
    have := hb 1; omega
  | stall =>
    show cntLS { begin s obs 1 with failAfter := some 0, stalled := true } i ≤ cntLS s i + 0
    have h0 : cntLS { begin s obs 1 with failAfter := some 0, stalled := true } i = cntLS (begin s obs 1) i := SameMem.cntLS ⟨rfl, rfl, rfl, rfl⟩ i
    have := hb 1; omega
  | restart =>
    show cntLS (if s.up then begin s obs 0 else restart c (begin s obs 1)) i ≤ cntLS s i + cnt (filesRows s.files) i
    split
    · have := hb 0; omega
    · have := restart_cntLS c (begin s obs 1) i
      have h1 := hb 1
      unfold phi at this
      rw [begin_files] at this
      omega
  | write k rows => exact up _ rfl
  | writeT d k rows => exact up _ rfl
  | wpause => exact up _ rfl
  | wresume => exact up _ rfl
  | hold => exact up _ rfl
  | unhold => exact up _ rfl
  | step1 => exact up _ rfl
  | ageFlush => exact up _ rfl
  | tick => exact up _ rfl
  | shutdown d => exact up _ rfl
  | crash => exact up _ rfl

end Arc.C07
