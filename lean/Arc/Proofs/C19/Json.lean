import Arc.Model.C19
/-! C19 — JSON string writer vs the RFC 8259 string decoder; integer cells; row loops. -/
namespace Arc.C19
open Arc.Generated.C19

/-! ### the scan loop equals per-byte escaping -/

theorem wjsLoop_eq (s seg out : Bytes) : wjsLoop s seg out = out ++ seg ++ escAll s := by
  induction s generalizing seg out with
  | nil => simp [wjsLoop, escAll]
  | cons c rest ih =>
    unfold wjsLoop
    by_cases h : needsEsc c = true
    · simp [h, ih, escAll, escOne]
    · simp [h, ih, escAll, escOne]

theorem writeJSONString_eq (s : Bytes) : writeJSONString s = 34 :: (escAll s ++ [34]) := by
  simp [writeJSONString, wjsLoop_eq]

theorem escAll_cons (a : Nat) (s : Bytes) : escAll (a :: s) = escOne a ++ escAll s := by
  simp [escAll]

/-! ### one escaped byte decodes to itself -/

theorem hexVal_hexDigit (x : Nat) (h : x < 16) : hexVal (hexDigit x) = some x := by
  have : ∀ y : Fin 16, hexVal (hexDigit y.val) = some y.val := by decide
  exact this ⟨x, h⟩

/-- what the writer emits for a byte below 0x80, as (first byte, remaining bytes), is never a bare quote
and the decoder reads it back as that byte, leaving the rest untouched -/
theorem decChar_escOne_ascii (strict : Bool) (a : Nat) (ha : a < 128) (rest : Bytes) :
    ∃ c r, escOne a ++ rest = c :: r ∧ c ≠ 34 ∧ decChar strict c r = some ([a], rest) := by
  by_cases h34 : a = 34
  · subst h34; exact ⟨92, 34 :: rest, by simp [escOne, needsEsc, escSeq, escTable, escAlways, List.lookup], by decide,
      by simp [decChar, decEscape]⟩
  by_cases h92 : a = 92
  · subst h92; exact ⟨92, 92 :: rest, by simp [escOne, needsEsc, escSeq, escTable, escAlways, List.lookup], by decide,
      by simp [decChar, decEscape]⟩
  by_cases hlt : a < 32
  · by_cases h10 : a = 10
    · subst h10; exact ⟨92, 110 :: rest, by simp [escOne, needsEsc, escSeq, escTable, escAlways, escBelow, List.lookup],
        by decide, by simp [decChar, decEscape]⟩
    by_cases h13 : a = 13
    · subst h13; exact ⟨92, 114 :: rest, by simp [escOne, needsEsc, escSeq, escTable, escAlways, escBelow, List.lookup],
        by decide, by simp [decChar, decEscape]⟩
    by_cases h9 : a = 9
    · subst h9; exact ⟨92, 116 :: rest, by simp [escOne, needsEsc, escSeq, escTable, escAlways, escBelow, List.lookup],
        by decide, by simp [decChar, decEscape]⟩
    by_cases h8 : a = 8
    · subst h8; exact ⟨92, 98 :: rest, by simp [escOne, needsEsc, escSeq, escTable, escAlways, escBelow, List.lookup],
        by decide, by simp [decChar, decEscape]⟩
    by_cases h12 : a = 12
    · subst h12; exact ⟨92, 102 :: rest, by simp [escOne, needsEsc, escSeq, escTable, escAlways, escBelow, List.lookup],
        by decide, by simp [decChar, decEscape]⟩
    -- generic control character: \u00XY
    have hne : needsEsc a = true := by simp [needsEsc, escBelow, hlt]
    have hlk : escTable.lookup a = none := by
      have b1 : (a == 34) = false := by simp [h34]
      have b2 : (a == 92) = false := by simp [h92]
      have b3 : (a == 10) = false := by simp [h10]
      have b4 : (a == 13) = false := by simp [h13]
      have b5 : (a == 9) = false := by simp [h9]
      have b6 : (a == 8) = false := by simp [h8]
      have b7 : (a == 12) = false := by simp [h12]
      simp [escTable, List.lookup, b1, b2, b3, b4, b5, b6, b7]
    refine ⟨92, 117 :: 48 :: 48 :: hexDigit (a / 16) :: hexDigit (a % 16) :: rest, ?_, by decide, ?_⟩
    · simp [escOne, hne, escSeq, hlk, escDefaultPrefix]
    · have e1 := hexVal_hexDigit (a / 16) (by omega)
      have e2 := hexVal_hexDigit (a % 16) (by omega)
      have e0 : hexVal 48 = some 0 := by decide
      have hcp : ((0 * 16 + 0) * 16 + a / 16) * 16 + a % 16 = a := by omega
      have hcp' : a / 16 * 16 + a % 16 = a := by omega
      have hlt2 : a < 55296 := by omega
      have n1 : ¬ (55296 ≤ a ∧ a < 56320) := by omega
      have n2 : ¬ (56320 ≤ a ∧ a < 57344) := by omega
      simp [decChar, decEscape, decU, hex4, e0, e1, e2, hcp', utf8Enc, ha, n1, n2]
  · have hne : needsEsc a = false := by
      simp [needsEsc, escAlways, escBelow, h34, h92, hlt]
    refine ⟨a, rest, by simp [escOne, hne], h34, ?_⟩
    have : ¬ (a < 32 ∨ a = 34) := by omega
    simp [decChar, h92, this, ha]

/-- bytes ≥ 0x80 are never escaped -/
theorem escOne_high (a : Nat) (h : 128 ≤ a) : escOne a = [a] := by
  have h1 : a ≠ 34 := by omega
  have h2 : a ≠ 92 := by omega
  have h3 : ¬ a < 32 := by omega
  simp [escOne, needsEsc, escAlways, escBelow, h1, h2, h3]

/-! ### the body loop -/

theorem decBodyF_close (strict : Bool) (f : Nat) (tail : Bytes) :
    decBodyF strict (f + 1) (34 :: tail) = some ([], tail) := by
  simp [decBodyF]

theorem decBodyF_step (strict : Bool) (f c : Nat) (r d rest' : Bytes) (hc : c ≠ 34)
    (h : decChar strict c r = some (d, rest')) :
    decBodyF strict (f + 1) (c :: r) = (decBodyF strict f rest').map (fun p => (d ++ p.1, p.2)) := by
  simp only [decBodyF, hc, if_false, h]
  cases decBodyF strict f rest' with
  | none => rfl
  | some p => cases p; rfl

theorem escOne_length_pos (a : Nat) (ha : a < 128) : 1 ≤ (escOne a).length := by
  obtain ⟨c, r, h, _, _⟩ := decChar_escOne_ascii true a ha []
  have : (escOne a ++ []).length = (c :: r).length := by rw [h]
  simp at this; omega

/-- byte-transparent reading: every byte string comes back -/
theorem decBodyF_raw (s : Bytes) (hs : AllBytes s) (tail : Bytes) (f : Nat)
    (hf : (escAll s).length + 1 ≤ f) :
    decBodyF false f (escAll s ++ 34 :: tail) = some (s, tail) := by
  induction s generalizing f with
  | nil =>
    cases f with
    | zero => omega
    | succ f => simp [escAll, decBodyF]
  | cons a s ih =>
    have ha : a < 256 := hs a (by simp)
    have hs' : AllBytes s := fun b hb => hs b (by simp [hb])
    rw [escAll_cons] at hf ⊢
    cases f with
    | zero => omega
    | succ f =>
      by_cases hlow : a < 128
      · obtain ⟨c, r, he, hc, hd⟩ := decChar_escOne_ascii false a hlow (escAll s ++ 34 :: tail)
        have hl := escOne_length_pos a hlow
        rw [List.append_assoc, he, decBodyF_step false f c r [a] _ hc hd]
        rw [ih hs' f (by simp at hf; omega)]
        simp
      · have hh := escOne_high a (by omega)
        rw [hh] at hf ⊢
        have h1 : a ≠ 92 := by omega
        have h2 : ¬ (a < 32 ∨ a = 34) := by omega
        have hd : decChar false a (escAll s ++ 34 :: tail) = some ([a], escAll s ++ 34 :: tail) := by
          simp [decChar, h1, h2, hlow, ha]
        have hc : a ≠ 34 := by omega
        simp only [List.cons_append, List.nil_append]
        rw [decBodyF_step false f a _ [a] _ hc hd, ih hs' f (by simp at hf; omega)]
        simp

theorem ok2_high {a b : Nat} (h : ok2 a b = true) : 128 ≤ a ∧ 128 ≤ b := by
  simp [ok2, isCont] at h; omega
theorem ok3_high {a b c : Nat} (h : ok3 a b c = true) : 128 ≤ a ∧ 128 ≤ b ∧ 128 ≤ c := by
  simp [ok3, isCont] at h
  by_cases e1 : a = 224 <;> by_cases e2 : a = 237 <;> simp [e1, e2] at h <;> omega
theorem ok4_high {a b c d : Nat} (h : ok4 a b c d = true) : 128 ≤ a ∧ 128 ≤ b ∧ 128 ≤ c ∧ 128 ≤ d := by
  simp [ok4, isCont] at h
  by_cases e1 : a = 240 <;> by_cases e2 : a = 244 <;> simp [e1, e2] at h <;> omega

theorem ok3_not_ok2 {a b c : Nat} (h : ok3 a b c = true) : ok2 a b = false := by
  simp [ok3] at h
  simp [ok2]; omega
theorem ok4_not_ok2 {a b c d : Nat} (h : ok4 a b c d = true) : ok2 a b = false := by
  simp [ok4] at h
  simp [ok2]; omega
theorem ok4_not_ok3 {a b c d : Nat} (h : ok4 a b c d = true) : ok3 a b c = false := by
  simp [ok4] at h
  simp [ok3]; omega

/-- strict (RFC 8259 + RFC 3629) reading: valid UTF-8 comes back -/
theorem decBodyF_strict (s : Bytes) (hv : ValidUTF8 s) (tail : Bytes) :
    ∀ f, (escAll s).length + 1 ≤ f → decBodyF true f (escAll s ++ 34 :: tail) = some (s, tail) := by
  induction hv with
  | nil =>
    intro f hf
    cases f with
    | zero => omega
    | succ f => simp [escAll, decBodyF]
  | one a rest ha _ ih =>
    intro f hf
    rw [escAll_cons] at hf ⊢
    cases f with
    | zero => omega
    | succ f =>
      obtain ⟨c, r, he, hc, hd⟩ := decChar_escOne_ascii true a ha (escAll rest ++ 34 :: tail)
      have hl := escOne_length_pos a ha
      rw [List.append_assoc, he, decBodyF_step true f c r [a] _ hc hd]
      rw [ih f (by simp at hf; omega)]
      simp
  | two a b rest hok _ ih =>
    intro f hf
    obtain ⟨h1, h2⟩ := ok2_high hok
    rw [escAll_cons, escAll_cons, escOne_high a h1, escOne_high b h2] at hf ⊢
    cases f with
    | zero => omega
    | succ f =>
      have n1 : a ≠ 92 := by omega
      have n2 : ¬ (a < 32 ∨ a = 34) := by omega
      have n3 : ¬ a < 128 := by omega
      have hd : decChar true a (b :: (escAll rest ++ 34 :: tail)) = some ([a, b], escAll rest ++ 34 :: tail) := by
        simp [decChar, n1, n2, n3, decUtf8, hok]
      have hc : a ≠ 34 := by omega
      simp only [List.cons_append, List.nil_append]
      rw [decBodyF_step true f a _ [a, b] _ hc hd]
      have hmono : (escAll rest).length + 1 ≤ f := by simp at hf; omega
      rw [ih f hmono]
      simp
  | three a b c rest hok _ ih =>
    intro f hf
    obtain ⟨h1, h2, h3⟩ := ok3_high hok
    rw [escAll_cons, escAll_cons, escAll_cons, escOne_high a h1, escOne_high b h2, escOne_high c h3] at hf ⊢
    cases f with
    | zero => omega
    | succ f =>
      have n1 : a ≠ 92 := by omega
      have n2 : ¬ (a < 32 ∨ a = 34) := by omega
      have n3 : ¬ a < 128 := by omega
      have hd : decChar true a (b :: c :: (escAll rest ++ 34 :: tail)) = some ([a, b, c], escAll rest ++ 34 :: tail) := by
        simp [decChar, n1, n2, n3, decUtf8, ok3_not_ok2 hok, hok]
      have hc : a ≠ 34 := by omega
      simp only [List.cons_append, List.nil_append]
      rw [decBodyF_step true f a _ [a, b, c] _ hc hd]
      have hmono : (escAll rest).length + 1 ≤ f := by simp at hf; omega
      rw [ih f hmono]
      simp
  | four a b c d rest hok _ ih =>
    intro f hf
    obtain ⟨h1, h2, h3, h4⟩ := ok4_high hok
    rw [escAll_cons, escAll_cons, escAll_cons, escAll_cons, escOne_high a h1, escOne_high b h2, escOne_high c h3,
      escOne_high d h4] at hf ⊢
    cases f with
    | zero => omega
    | succ f =>
      have n1 : a ≠ 92 := by omega
      have n2 : ¬ (a < 32 ∨ a = 34) := by omega
      have n3 : ¬ a < 128 := by omega
      have hd : decChar true a (b :: c :: d :: (escAll rest ++ 34 :: tail)) =
          some ([a, b, c, d], escAll rest ++ 34 :: tail) := by
        simp [decChar, n1, n2, n3, decUtf8, ok4_not_ok2 hok, ok4_not_ok3 hok, hok]
      have hc : a ≠ 34 := by omega
      simp only [List.cons_append, List.nil_append]
      rw [decBodyF_step true f a _ [a, b, c, d] _ hc hd]
      have hmono : (escAll rest).length + 1 ≤ f := by simp at hf; omega
      rw [ih f hmono]
      simp

/-- `decStr` on the writer's output followed by anything -/
theorem decStr_write_strict (s : Bytes) (hv : ValidUTF8 s) (tail : Bytes) :
    decStr true (writeJSONString s ++ tail) = some (s, tail) := by
  rw [writeJSONString_eq]
  simp only [decStr, List.cons_append, List.append_assoc, List.nil_append, if_true]
  exact decBodyF_strict s hv tail _ (by simp)

theorem decStr_write_raw (s : Bytes) (hs : AllBytes s) (tail : Bytes) :
    decStr false (writeJSONString s ++ tail) = some (s, tail) := by
  rw [writeJSONString_eq]
  simp only [decStr, List.cons_append, List.append_assoc, List.nil_append, if_true]
  exact decBodyF_raw s hs tail _ (by simp)

end Arc.C19
