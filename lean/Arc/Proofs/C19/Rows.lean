import Arc.Model.C19
/-! C19 — governance row limit: both row loops emit exactly a prefix of the result, cells untouched. -/
namespace Arc.C19

theorem jsonInner_zero {α : Type} (b out : List α) : jsonInner 0 b out = (false, out ++ b) := by
  induction b generalizing out with
  | nil => simp [jsonInner]
  | cons r rest ih => simp [jsonInner, ih]

theorem jsonOuter_zero {α : Type} (bs : List (List α)) (out : List α) :
    jsonOuter 0 bs out = out ++ bs.flatten := by
  induction bs generalizing out with
  | nil => simp [jsonOuter]
  | cons b bs ih => simp [jsonOuter, jsonInner_zero, ih]

theorem jsonInner_pos {α : Type} (m : Nat) (hm : 0 < m) (b out : List α) (ho : out.length ≤ m) :
    (jsonInner m b out = (false, out ++ b) ∧ (out ++ b).length ≤ m) ∨
    (jsonInner m b out = (true, (out ++ b).take m) ∧ m ≤ (out ++ b).length) := by
  induction b generalizing out with
  | nil => left; simp [jsonInner, ho]
  | cons r rest ih =>
    unfold jsonInner
    by_cases h : m > 0 ∧ out.length ≥ m
    · right
      have hl : out.length = m := by omega
      rw [if_pos h]
      refine ⟨?_, by simp; omega⟩
      rw [List.take_append_of_le_length (by omega), ← hl, List.take_length]
    · rw [if_neg h]
      have := ih (out ++ [r]) (by simp; omega)
      simpa using this

theorem jsonOuter_pos {α : Type} (m : Nat) (hm : 0 < m) (bs : List (List α)) (out : List α) (ho : out.length ≤ m) :
    jsonOuter m bs out = (out ++ bs.flatten).take m := by
  induction bs generalizing out with
  | nil => simp [jsonOuter, List.take_of_length_le ho]
  | cons b bs ih =>
    unfold jsonOuter
    rcases jsonInner_pos m hm b out ho with ⟨h, hl⟩ | ⟨h, hl⟩
    · rw [h]; simp only
      rw [ih (out ++ b) hl]; simp
    · rw [h]; simp only
      rw [List.flatten_cons, ← List.append_assoc, List.take_append_of_le_length hl]

theorem drainLoop_zero {α : Type} (bs acc : List (List α)) (rc : Nat) :
    drainLoop 0 bs acc rc = (acc ++ bs, rc + bs.flatten.length) := by
  induction bs generalizing acc rc with
  | nil => simp [drainLoop]
  | cons b bs ih => simp [drainLoop, ih]; omega

theorem drainLoop_pos {α : Type} (cap : Nat) (hc : 0 < cap) (bs acc : List (List α)) (rc : Nat)
    (hrc : rc = acc.flatten.length) (hle : rc ≤ cap) :
    ((drainLoop cap bs acc rc).1).flatten = (acc.flatten ++ bs.flatten).take cap ∧
    (drainLoop cap bs acc rc).2 = ((acc.flatten ++ bs.flatten).take cap).length := by
  induction bs generalizing acc rc with
  | nil =>
    have hl : acc.flatten.length ≤ cap := by omega
    simp only [drainLoop, List.flatten_nil, List.append_nil, List.take_of_length_le hl]
    exact ⟨trivial, hrc⟩
  | cons b bs ih =>
    unfold drainLoop
    rw [if_pos hc]
    by_cases h1 : rc ≥ cap
    · rw [if_pos h1]
      have : acc.flatten.length = cap := by omega
      simp only
      rw [List.take_append_of_le_length (by omega), ← this, List.take_length]
      exact ⟨rfl, hrc⟩
    · rw [if_neg h1]
      by_cases h2 : rc + b.length > cap
      · rw [if_pos h2]
        simp only [List.flatten_append, List.flatten_cons, List.flatten_nil, List.append_nil]
        have e : (acc.flatten ++ (b ++ bs.flatten)).take cap = acc.flatten ++ b.take (cap - rc) := by
          rw [List.take_append, List.take_of_length_le (by omega), ← hrc]
          congr 1
          rw [List.take_append_of_le_length (by omega)]
        rw [e]
        refine ⟨rfl, ?_⟩
        rw [List.length_append, List.length_take]; omega
      · rw [if_neg h2]
        have := ih (acc ++ [b]) (rc + b.length) (by simp [hrc]) (by omega)
        simpa using this

end Arc.C19
