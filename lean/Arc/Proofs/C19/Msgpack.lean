import Arc.Model.C19
/-! C19 — MessagePack: every encoder of the fork, read back by the spec decoder `decTok`. -/
namespace Arc.C19
open Arc.Generated.C19

theorem be_length (k v : Nat) : (be k v).length = k := by
  induction k with
  | zero => simp [be]
  | succ k ih => simp [be, ih]

theorem readBE_be (k v : Nat) (rest : Bytes) :
    readBE k (be k v ++ rest) = some (v % 256 ^ k, rest) := by
  induction k with
  | zero => simp [be, readBE, Nat.mod_one]
  | succ k ih =>
    simp only [be, List.cons_append, readBE, ih]
    have : v / 256 ^ k % 256 * 256 ^ k + v % 256 ^ k = v % 256 ^ (k + 1) := by
      rw [Nat.mod_pow_succ, Nat.mul_comm, Nat.add_comm]
    rw [this]

theorem readN_append (s rest : Bytes) : readN s.length (s ++ rest) = some (s, rest) := by
  induction s with
  | nil => simp [readN]
  | cons x s ih => simp [readN, ih]

theorem readBE_be_lt (k v : Nat) (rest : Bytes) (h : v < 256 ^ k) :
    readBE k (be k v ++ rest) = some (v, rest) := by
  rw [readBE_be, Nat.mod_eq_of_lt h]

attribute [local simp] cNil cFalse cTrue cFloat cDouble cUint8 cUint16 cUint32 cUint64 cInt8 cInt16 cInt32 cInt64
  cFixedStrLow cStr8 cStr16 cStr32 cBin8 cBin16 cBin32 cFixedArrayLow cArray16 cArray32 cFixedMapLow cMap16 cMap32
  cFixExt1 cFixExt2 cFixExt4 cFixExt8 cFixExt16 cExt8 cExt16 cExt32 cNegFixedNumLow
  uintFixLe uint8Le uint16Le uint32Le intFixGe int8Ge int16Ge int32Ge strFixLt str8Lt str16Le bin8Lt bin16Le
  arrFixLt arr16Le mapFixLt map16Le ext8Le ext16Le timeExtId timeSecShift

/-! ### unsigned integers -/

theorem decTok_encUint64 (n : Nat) (rest : Bytes) (h : n < 2 ^ 64) :
    decTok (encUint64 n ++ rest) = some (.int n, rest) := by
  simp [encUint64, decTok, readNum, readBE_be_lt 8 n rest (by simpa using h)]

theorem decTok_encUint (n : Nat) (rest : Bytes) (h : n < 2 ^ 64) :
    decTok (encUint n ++ rest) = some (.int n, rest) := by
  unfold encUint
  by_cases c1 : n ≤ uintFixLe
  · rw [if_pos c1]; simp only [uintFixLe] at c1; simp [decTok, c1]
  rw [if_neg c1]; simp only [uintFixLe] at c1
  by_cases c2 : n ≤ uint8Le
  · rw [if_pos c2]; simp only [uint8Le] at c2; simp [decTok, readNum, readBE_be_lt 1 n rest (by omega)]
  rw [if_neg c2]; simp only [uint8Le] at c2
  by_cases c3 : n ≤ uint16Le
  · rw [if_pos c3]; simp only [uint16Le] at c3; simp [decTok, readNum, readBE_be_lt 2 n rest (by omega)]
  rw [if_neg c3]; simp only [uint16Le] at c3
  by_cases c4 : n ≤ uint32Le
  · rw [if_pos c4]; simp only [uint32Le] at c4; simp [decTok, readNum, readBE_be_lt 4 n rest (by omega)]
  · rw [if_neg c4]; exact decTok_encUint64 n rest h

/-! ### signed integers -/

theorem u64_nonneg (v : Int) (h0 : 0 ≤ v) (h : v < 2 ^ 63) : u64 v = v.toNat := by
  unfold u64 two64; omega

theorem u64_neg (v : Int) (h0 : v < 0) (h : -(2 ^ 63) ≤ v) : u64 v = (v + 2 ^ 64).toNat := by
  unfold u64 two64; omega

theorem toSigned64_u64 (v : Int) (h1 : -(2 ^ 63) ≤ v) (h2 : v < 2 ^ 63) : toSigned 64 (u64 v) = v := by
  unfold toSigned u64 two64
  split <;> omega

theorem decTok_encInt64 (v : Int) (rest : Bytes) (h1 : -(2 ^ 63) ≤ v) (h2 : v < 2 ^ 63) :
    decTok (encInt64 v ++ rest) = some (.int v, rest) := by
  have hu : u64 v < 256 ^ 8 := by unfold u64 two64; omega
  simp [encInt64, decTok, readNum, readBE_be_lt 8 _ rest hu, toSigned64_u64 v h1 h2]

theorem decTok_encInt (v : Int) (rest : Bytes) (h1 : -(2 ^ 63) ≤ v) (h2 : v < 2 ^ 63) :
    decTok (encInt v ++ rest) = some (.int v, rest) := by
  unfold encInt
  by_cases h0 : v ≥ 0
  · rw [if_pos h0]
    have := decTok_encUint v.toNat rest (by omega)
    rw [this]; congr; omega
  rw [if_neg h0]
  by_cases c1 : v ≥ intFixGe
  · -- negative fixint
    rw [if_pos c1]; simp only [intFixGe] at c1
    have hb : u64 v % 256 = (v + 256).toNat := by unfold u64 two64; omega
    rw [hb]
    have h3 : ¬ ((v + 256).toNat ≤ 127) := by omega
    have h4 : 224 ≤ (v + 256).toNat := by omega
    have h5 : (v + 256).toNat < 256 := by omega
    simp [decTok, h3, h4, h5]
    omega
  rw [if_neg c1]; simp only [intFixGe] at c1
  by_cases c2 : v ≥ int8Ge
  · rw [if_pos c2]; simp only [int8Ge] at c2
    have hb : u64 v % 256 ^ 1 = (v + 256).toNat := by unfold u64 two64; omega
    simp [decTok, readNum, readBE_be, hb, toSigned]
    omega
  rw [if_neg c2]; simp only [int8Ge] at c2
  by_cases c3 : v ≥ int16Ge
  · rw [if_pos c3]; simp only [int16Ge] at c3
    have hb : u64 v % 256 ^ 2 = (v + 65536).toNat := by unfold u64 two64; omega
    simp [decTok, readNum, readBE_be, hb, toSigned]
    omega
  rw [if_neg c3]; simp only [int16Ge] at c3
  by_cases c4 : v ≥ int32Ge
  · rw [if_pos c4]; simp only [int32Ge] at c4
    have hb : u64 v % 256 ^ 4 = (v + 4294967296).toNat := by unfold u64 two64; omega
    simp [decTok, readNum, readBE_be, hb, toSigned]
    omega
  · rw [if_neg c4]; exact decTok_encInt64 v rest h1 h2

/-! ### floats, nil, bool -/

theorem decTok_encF32 (b : Nat) (rest : Bytes) (h : b < 2 ^ 32) :
    decTok (encF32 b ++ rest) = some (.f32 b, rest) := by
  simp [encF32, decTok, readNum, readBE_be_lt 4 b rest (by simpa using h)]

theorem decTok_encF64 (b : Nat) (rest : Bytes) (h : b < 2 ^ 64) :
    decTok (encF64 b ++ rest) = some (.f64 b, rest) := by
  simp [encF64, decTok, readNum, readBE_be_lt 8 b rest (by simpa using h)]

theorem decTok_encNil (rest : Bytes) : decTok (encNil ++ rest) = some (.nil, rest) := by
  simp [encNil, decTok]

theorem decTok_encBool (b : Bool) (rest : Bytes) : decTok (encBool b ++ rest) = some (.bool b, rest) := by
  cases b <;> simp [encBool, decTok]

/-! ### str / bin / array / map headers: every size class -/

theorem readLen_be (k : Nat) (mk : Bytes → Tok) (s rest : Bytes) (h : s.length < 256 ^ k) :
    readLen k mk (be k s.length ++ (s ++ rest)) = some (mk s, rest) := by
  simp only [readLen, readBE_be_lt k s.length _ h, readN_append]

theorem decTok_encStr (s rest : Bytes) (h : s.length < 2 ^ 32) :
    decTok (encStr s ++ rest) = some (.str s, rest) := by
  unfold encStr encStrLen
  by_cases hl : s.length < strFixLt
  · rw [if_pos hl]; simp only [strFixLt] at hl
    have h1 : ¬ (cFixedStrLow + s.length ≤ 127) := by simp; omega
    have h2 : ¬ (224 ≤ cFixedStrLow + s.length) := by simp; omega
    have h3 : ¬ (cFixedStrLow + s.length ≤ 143) := by simp; omega
    have h4 : ¬ (cFixedStrLow + s.length ≤ 159) := by simp; omega
    have h5 : cFixedStrLow + s.length ≤ 191 := by simp; omega
    have h6 : cFixedStrLow + s.length - 160 = s.length := by simp
    simp only [decTok, List.cons_append, List.nil_append, h1, h2, h3, h4, h5, h6, if_true, if_false,
      readN_append]
  rw [if_neg hl]; simp only [strFixLt] at hl
  by_cases c2 : s.length < str8Lt
  · rw [if_pos c2]; simp only [str8Lt] at c2
    have h' : s.length < 256 ^ 1 := by omega
    simp [decTok, readLen_be 1 _ s rest h']
  rw [if_neg c2]; simp only [str8Lt] at c2
  by_cases c3 : s.length ≤ str16Le
  · rw [if_pos c3]; simp only [str16Le] at c3
    have h' : s.length < 256 ^ 2 := by omega
    simp [decTok, readLen_be 2 _ s rest h']
  · rw [if_neg c3]
    have h' : s.length < 256 ^ 4 := by omega
    simp [decTok, readLen_be 4 _ s rest h']

theorem decTok_encBin (s rest : Bytes) (h : s.length < 2 ^ 32) :
    decTok (encBin s ++ rest) = some (.bin s, rest) := by
  unfold encBin encBinLen
  by_cases c2 : s.length < bin8Lt
  · rw [if_pos c2]; simp only [bin8Lt] at c2
    have h' : s.length < 256 ^ 1 := by omega
    simp [decTok, readLen_be 1 _ s rest h']
  rw [if_neg c2]; simp only [bin8Lt] at c2
  by_cases c3 : s.length ≤ bin16Le
  · rw [if_pos c3]; simp only [bin16Le] at c3
    have h' : s.length < 256 ^ 2 := by omega
    simp [decTok, readLen_be 2 _ s rest h']
  · rw [if_neg c3]
    have h' : s.length < 256 ^ 4 := by omega
    simp [decTok, readLen_be 4 _ s rest h']

theorem decTok_encArrLen (l : Nat) (rest : Bytes) (h : l < 2 ^ 32) :
    decTok (encArrLen l ++ rest) = some (.arr l, rest) := by
  unfold encArrLen
  by_cases hl : l < arrFixLt
  · rw [if_pos hl]; simp only [arrFixLt] at hl
    have h1 : ¬ (cFixedArrayLow + l ≤ 127) := by simp; omega
    have h2 : ¬ (224 ≤ cFixedArrayLow + l) := by simp; omega
    have h3 : ¬ (cFixedArrayLow + l ≤ 143) := by simp; omega
    have h4 : cFixedArrayLow + l ≤ 159 := by simp; omega
    have h6 : cFixedArrayLow + l - 144 = l := by simp
    simp only [decTok, List.cons_append, List.nil_append, h1, h2, h3, h4, h6, if_true, if_false]
  rw [if_neg hl]; simp only [arrFixLt] at hl
  by_cases c3 : l ≤ arr16Le
  · rw [if_pos c3]; simp only [arr16Le] at c3; simp [decTok, readNum, readBE_be_lt 2 l _ (by omega)]
  · rw [if_neg c3]; simp [decTok, readNum, readBE_be_lt 4 l _ (by simpa using h)]

theorem decTok_encMapLen (l : Nat) (rest : Bytes) (h : l < 2 ^ 32) :
    decTok (encMapLen l ++ rest) = some (.map l, rest) := by
  unfold encMapLen
  by_cases hl : l < mapFixLt
  · rw [if_pos hl]; simp only [mapFixLt] at hl
    have h1 : ¬ (cFixedMapLow + l ≤ 127) := by simp; omega
    have h2 : ¬ (224 ≤ cFixedMapLow + l) := by simp; omega
    have h3 : cFixedMapLow + l ≤ 143 := by simp; omega
    have h6 : cFixedMapLow + l - 128 = l := by simp
    simp only [decTok, List.cons_append, List.nil_append, h1, h2, h3, h6, if_true, if_false]
  rw [if_neg hl]; simp only [mapFixLt] at hl
  by_cases c3 : l ≤ map16Le
  · rw [if_pos c3]; simp only [map16Le] at c3; simp [decTok, readNum, readBE_be_lt 2 l _ (by omega)]
  · rw [if_neg c3]; simp [decTok, readNum, readBE_be_lt 4 l _ (by simpa using h)]

/-! ### timestamp extension (ext -1): 32 / 64 / 96-bit classes -/

theorem readExtN_append (t : Nat) (d rest : Bytes) :
    readExtN d.length (t :: (d ++ rest)) = some (.ext t d, rest) := by
  simp [readExtN, readN_append]

theorem timeData_length (sec : Int) (nsec : Nat) :
    (timeData sec nsec).length = 4 ∨ (timeData sec nsec).length = 8 ∨ (timeData sec nsec).length = 12 := by
  unfold timeData
  simp only
  split
  · split <;> simp [be_length]
  · simp [be_length]

theorem decTok_encTime (sec : Int) (nsec : Nat) (rest : Bytes) :
    decTok (encTime sec nsec ++ rest) = some (.ext 255 (timeData sec nsec), rest) := by
  unfold encTime
  simp only
  rcases timeData_length sec nsec with h | h | h
  · have := readExtN_append 255 (timeData sec nsec) rest
    rw [h] at this
    simp [h, encExtLen, extFixLens, List.lookup, decTok, this]
  · have := readExtN_append 255 (timeData sec nsec) rest
    rw [h] at this
    simp [h, encExtLen, extFixLens, List.lookup, decTok, this]
  · have := readExtN_append 255 (timeData sec nsec) rest
    rw [h] at this
    have hb : readBE 1 (be 1 12 ++ (255 :: (timeData sec nsec ++ rest))) = some (12, 255 :: (timeData sec nsec ++ rest)) :=
      readBE_be_lt 1 12 _ (by omega)
    simp [h, encExtLen, extFixLens, List.lookup, decTok, readExt, hb, this]

theorem readBE_be_nil (k v : Nat) (h : v < 256 ^ k) : readBE k (be k v) = some (v, []) := by
  have := readBE_be_lt k v [] h
  simpa using this

theorem decTime_timeData (sec : Int) (nsec : Nat) (h1 : -(2 ^ 63) ≤ sec) (h2 : sec < 2 ^ 63)
    (hn : nsec < 1000000000) : decTime (timeData sec nsec) = some (sec, nsec) := by
  unfold timeData
  simp only
  have hu : u64 sec < 2 ^ 64 := by unfold u64 two64; omega
  by_cases c1 : u64 sec / 2 ^ timeSecShift = 0
  · rw [if_pos c1]
    by_cases c2 : (nsec * 2 ^ timeSecShift + u64 sec) / 2 ^ 32 % 2 ^ 32 = 0
    · rw [if_pos c2]
      simp only [timeSecShift] at c1 c2 ⊢
      have hs : u64 sec < 2 ^ 34 := by omega
      have hsec : (u64 sec : Int) = sec := by unfold u64 two64 at *; omega
      have hd : nsec * 2 ^ 34 + u64 sec < 256 ^ 4 := by omega
      have hz : nsec = 0 := by omega
      simp [decTime, be_length, readBE_be_nil 4 _ hd]
      omega
    · rw [if_neg c2]
      simp only [timeSecShift] at c1 c2 ⊢
      have hs : u64 sec < 2 ^ 34 := by omega
      have hsec : (u64 sec : Int) = sec := by unfold u64 two64 at *; omega
      have hd : nsec * 2 ^ 34 + u64 sec < 256 ^ 8 := by omega
      simp [decTime, be_length, readBE_be_nil 8 _ hd]
      omega
  · rw [if_neg c1]
    have hn' : nsec < 256 ^ 4 := by omega
    have hu' : u64 sec < 256 ^ 8 := by omega
    simp [decTime, be_length, readBE_be_lt 4 nsec _ hn', readBE_be_nil 8 _ hu', toSigned64_u64 sec h1 h2]

end Arc.C19
