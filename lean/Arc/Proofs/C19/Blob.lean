import Arc.Model.C19
/-! C19 — BLOB cells: `blobText` output is ASCII (hence valid UTF-8) and DuckDB's text form reads back the bytes. -/
namespace Arc.C19
open Arc.Generated.C19

theorem validUTF8_of_ascii (s : Bytes) (h : ∀ b ∈ s, b < 128) : ValidUTF8 s := by
  induction s with
  | nil => exact .nil
  | cons a s ih =>
    exact .one a s (h a (by simp)) (ih (fun b hb => h b (by simp [hb])))

theorem blobHex_lt (i : Nat) (h : i < 16) : blobHexDigits.getD i 0 < 128 := by
  have : ∀ j : Fin 16, blobHexDigits.getD j.val 0 < 128 := by decide
  exact this ⟨i, h⟩

theorem blobHex_val (i : Nat) (h : i < 16) : hexVal (blobHexDigits.getD i 0) = some i := by
  have : ∀ j : Fin 16, hexVal (blobHexDigits.getD j.val 0) = some j.val := by decide
  exact this ⟨i, h⟩

theorem blobPlain_range {c : Nat} (h : blobPlain c = true) : 32 ≤ c ∧ c ≤ 126 ∧ c ≠ 92 := by
  by_cases h1 : 32 ≤ c <;> by_cases h2 : c ≤ 126 <;> by_cases h3 : c = 92 <;>
    simp [blobPlain, blobPrintLo, blobPrintHi, blobExcluded, h1, h2, h3] at h ⊢ <;> omega

theorem blobOne_ascii (c : Nat) (hc : c < 256) : ∀ b ∈ blobOne c, b < 128 := by
  intro b hb
  unfold blobOne at hb
  by_cases hp : blobPlain c = true
  · rw [if_pos hp] at hb
    have := blobPlain_range hp
    simp at hb; omega
  · rw [if_neg hp] at hb
    simp [blobEscPrefix] at hb
    rcases hb with rfl | rfl | rfl | rfl
    · omega
    · omega
    · exact blobHex_lt _ (by omega)
    · exact blobHex_lt _ (by omega)

theorem blobText_ascii (s : Bytes) (hs : AllBytes s) : ∀ b ∈ blobText s, b < 128 := by
  intro b hb
  simp only [blobText, List.mem_flatMap] at hb
  obtain ⟨c, hc, hb⟩ := hb
  exact blobOne_ascii c (hs c hc) b hb

theorem blobDecode_blobText (s : Bytes) (hs : AllBytes s) : blobDecode (blobText s) = some s := by
  induction s with
  | nil => simp [blobText, blobDecode]
  | cons c s ih =>
    have hc : c < 256 := hs c (by simp)
    have ih' := ih (fun b hb => hs b (by simp [hb]))
    have e : blobText (c :: s) = blobOne c ++ blobText s := by simp [blobText]
    rw [e]
    unfold blobOne
    by_cases hp : blobPlain c = true
    · rw [if_pos hp]
      obtain ⟨h1, h2, h3⟩ := blobPlain_range hp
      have hr : 32 ≤ c ∧ c ≤ 126 := ⟨h1, h2⟩
      simp only [List.cons_append, List.nil_append]
      conv => lhs; unfold blobDecode
      simp [h3, hr, ih']
    · rw [if_neg hp]
      have e1 := blobHex_val (c / 16) (by omega)
      have e2 := blobHex_val (c % 16) (by omega)
      have e3 : c / 16 * 16 + c % 16 = c := by omega
      simp only [List.getD_eq_getElem?_getD] at e1 e2
      simp only [blobEscPrefix, List.cons_append, List.nil_append, List.getD_eq_getElem?_getD]
      conv => lhs; unfold blobDecode
      simp [e1, e2, e3, ih']

end Arc.C19
