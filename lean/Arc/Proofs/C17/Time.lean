import Arc.Model.C17
/-! Helper lemmas for C17, part A (integer arithmetic of the epoch rewrites). Core Lean only. -/
namespace Arc.C17

theorem ediv_of_decomp (a s q r : Int) (hs : 0 < s) (h : a = s * q + r) (h0 : 0 ≤ r) (h1 : r < s) :
    a / s = q ∧ a % s = r := by
  have := (Int.ediv_emod_unique (a := a) (b := s) (q := q) (r := r) hs).mpr ⟨by omega, h0, h1⟩
  exact this

/-- when truncating division of the (possibly rounded-up) second count equals flooring division of
the exact second count. -/
def Exact (n up s : Int) : Prop :=
  (0 ≤ n + up ∧ (up = 0 ∨ (n + up) % s ≠ 0)) ∨ (n + up < 0 ∧ up = 0 ∧ n % s = 0)

instance (n up s : Int) : Decidable (Exact n up s) := by unfold Exact; exact inferInstance

theorem tdiv_floor_iff (n up s : Int) (hs : 0 < s) (hup : up = 0 ∨ up = 1) :
    Int.tdiv (n + up) s = n / s ↔ Exact n up s := by
  unfold Exact
  have hd : n = s * (n / s) + n % s := (Int.mul_ediv_add_emod n s).symm
  have hr0 : 0 ≤ n % s := Int.emod_nonneg n (by omega)
  have hr1 : n % s < s := Int.emod_lt_of_pos n hs
  generalize hq : n / s = q at *
  generalize hr : n % s = r at *
  have hmul1 : s * (q + 1) = s * q + s := by rw [Int.mul_add, Int.mul_one]
  have hmulm : s * (-q - 1) = -(s * q) - s := by
    rw [Int.mul_sub, Int.mul_neg, Int.mul_one]
  have hmuln : s * (-q) = -(s * q) := by rw [Int.mul_neg]
  by_cases hnn : 0 ≤ n + up
  · rw [Int.tdiv_eq_ediv_of_nonneg hnn]
    rcases hup with h | h
    · subst h
      have := ediv_of_decomp (n + 0) s q r hs (by omega) hr0 hr1
      constructor
      · intro _; left; exact ⟨hnn, Or.inl rfl⟩
      · intro _; exact this.1
    · subst h
      by_cases hlast : r + 1 < s
      · have := ediv_of_decomp (n + 1) s q (r + 1) hs (by omega) (by omega) hlast
        constructor
        · intro _; left; refine ⟨hnn, Or.inr ?_⟩; rw [this.2]; omega
        · intro _; exact this.1
      · have := ediv_of_decomp (n + 1) s (q + 1) 0 hs (by omega) (by omega) hs
        constructor
        · intro h; rw [this.1] at h; omega
        · intro h
          rcases h with ⟨_, h | h⟩ | ⟨h, _⟩
          · omega
          · rw [this.2] at h; exact absurd rfl h
          · omega
  · have hneg : n + up < 0 := by omega
    have htd : Int.tdiv (n + up) s = -((-(n + up)) / s) := by
      have h1 : Int.tdiv (-(-(n + up))) s = -(Int.tdiv (-(n + up)) s) := Int.neg_tdiv ..
      rw [Int.neg_neg] at h1
      rw [h1, Int.tdiv_eq_ediv_of_nonneg (by omega)]
    rw [htd]
    rcases hup with h | h
    · subst h
      by_cases hz : r = 0
      · have := ediv_of_decomp (-(n + 0)) s (-q) 0 hs (by omega) (by omega) hs
        constructor
        · intro _; right; exact ⟨hneg, rfl, hz⟩
        · intro _; rw [this.1]; omega
      · have := ediv_of_decomp (-(n + 0)) s (-q - 1) (s - r) hs (by omega) (by omega) (by omega)
        constructor
        · intro h; rw [this.1] at h; omega
        · intro h
          rcases h with ⟨h, _⟩ | ⟨_, _, h⟩
          · omega
          · exact absurd h hz
    · subst h
      have := ediv_of_decomp (-(n + 1)) s (-q - 1) (s - r - 1) hs (by omega) (by omega) (by omega)
      constructor
      · intro h; rw [this.1] at h; omega
      · intro h
        rcases h with ⟨h, _⟩ | ⟨_, h, _⟩
        · omega
        · omega

/-- `up` of a timestamp as an integer. -/
def upOf (t : Int) : Int := if roundsUp t then 1 else 0

theorem upOf_cases (t : Int) : upOf t = 0 ∨ upOf t = 1 := by
  unfold upOf; split <;> simp

theorem epochBigintX_eq (t : Int) : epochBigintX t = secOf t + upOf t := rfl

theorem upOf_zero_of_frac_lt (t : Int) (h : fracOf t < 500000) : upOf t = 0 := by
  unfold upOf roundsUp
  have h1 : ¬ (fracOf t > 500000) := by omega
  have h2 : ¬ (fracOf t = 500000) := by omega
  simp [h1, h2]

/-- flooring by a width of `s` whole seconds only looks at the whole seconds. -/
theorem floor_us (t s : Int) : t / (s * usPerSec) = secOf t / s := by
  unfold secOf
  rw [Int.mul_comm s usPerSec]
  exact Int.ediv_mul_of_nonneg (by unfold usPerSec; omega)

theorem secOf_sub (t o : Int) : secOf (t - o * usPerSec) = secOf t - o := by
  unfold secOf
  have : t - o * usPerSec = t + (-o) * usPerSec := by rw [Int.neg_mul]; omega
  rw [this, Int.add_mul_ediv_right _ _ (by unfold usPerSec; omega)]
  omega

theorem mul_us_cancel (a b : Int) : a * usPerSec = b * usPerSec ↔ a = b := by
  unfold usPerSec
  constructor
  · intro h; omega
  · intro h; rw [h]

/-- value of the 3-argument template under the exact semantics. -/
theorem rewrite3_tmpl3 (o s t : Int) :
    rewrite3 semX tmpl3 o s t = (o + Int.tdiv (secOf t - o + upOf t) s * s) * usPerSec := by
  simp only [rewrite3, tmpl3, evalR, semX, toTimestampX, epochBigintX_eq]
  have : secOf t + upOf t - o = secOf t - o + upOf t := by omega
  rw [this]

theorem rewrite2_tmpl2 (s t : Int) :
    rewrite2 semX tmpl2 s t = (Int.tdiv (secOf t + upOf t) s * s) * usPerSec := by
  simp only [rewrite2, tmpl2, evalR, semX, toTimestampX, epochBigintX_eq]

theorem timeBucket_whole (o s t : Int) :
    timeBucket (s * usPerSec) (o * usPerSec) t = (o + (secOf t - o) / s * s) * usPerSec := by
  unfold timeBucket
  rw [floor_us, secOf_sub, Int.add_mul, Int.mul_assoc]

theorem tb3_iff (o s t : Int) (hs : 0 < s) :
    rewrite3 semX tmpl3 o s t = timeBucket (s * usPerSec) (o * usPerSec) t ↔
      Exact (secOf t - o) (upOf t) s := by
  rw [rewrite3_tmpl3, timeBucket_whole, mul_us_cancel, ← tdiv_floor_iff _ _ _ hs (upOf_cases t)]
  constructor
  · intro h
    have h' : Int.tdiv (secOf t - o + upOf t) s * s = (secOf t - o) / s * s := by omega
    exact Int.eq_of_mul_eq_mul_right (by omega) h'
  · intro h; rw [h]

end Arc.C17
