import Arc.Model.C17
/-! Helper lemmas for C17, part B (Kleene logic, the LIKE optimizer's reorderings). Core Lean only. -/
namespace Arc.C17

theorem and3_comm (a b : B3) : and3 a b = and3 b a := by
  rcases a with _ | (_ | _) <;> rcases b with _ | (_ | _) <;> rfl

theorem and3_assoc (a b c : B3) : and3 (and3 a b) c = and3 a (and3 b c) := by
  rcases a with _ | (_ | _) <;> rcases b with _ | (_ | _) <;> rcases c with _ | (_ | _) <;> rfl

theorem and3_left_comm (a b c : B3) : and3 a (and3 b c) = and3 b (and3 a c) := by
  rw [← and3_assoc, and3_comm a b, and3_assoc]

theorem or3_comm (a b : B3) : or3 a b = or3 b a := by
  rcases a with _ | (_ | _) <;> rcases b with _ | (_ | _) <;> rfl

theorem evalConj_cons (v : Atom → B3) (e : Expr) (c : List Expr) :
    evalConj v (e :: c) = and3 (evalE v e) (evalConj v c) := rfl

theorem evalW_cons (v : Atom → B3) (c : List Expr) (w : Where) :
    evalW v (c :: w) = or3 (evalConj v c) (evalW v w) := rfl

theorem evalConj_append_single (v : Atom → B3) (c : List Expr) (e : Expr) :
    evalConj v (c ++ [e]) = and3 (evalE v e) (evalConj v c) := by
  induction c with
  | nil => rfl
  | cons x c ih =>
    rw [List.cons_append, evalConj_cons, ih, evalConj_cons, and3_left_comm]

theorem splitLast_eq {α : Type} (l : List α) (i : List α) (x : α) (h : splitLast l = some (i, x)) :
    l = i ++ [x] := by
  induction l generalizing i with
  | nil => simp [splitLast] at h
  | cons a l ih =>
    cases l with
    | nil =>
      simp [splitLast] at h
      obtain ⟨h1, h2⟩ := h
      subst h1; subst h2; rfl
    | cons b l =>
      simp only [splitLast] at h
      split at h
      · rename_i i' l' heq
        simp at h
        obtain ⟨h1, h2⟩ := h
        subst h1; subst h2
        rw [ih i' heq]; rfl
      · simp at h

theorem reorder1_length (w : Where) : (reorder1 w).length = w.length := by
  unfold reorder1
  split
  · split <;> rfl
  · rfl

theorem reorder1_eval (v : Atom → B3) (w : Where) : evalW v (reorder1 w) = evalW v w := by
  unfold reorder1
  split
  · split
    · simp only [evalW_cons, evalConj_cons]
      rw [and3_left_comm]
    · rfl
  · rfl

theorem reorder2_eval (v : Atom → B3) (w : Where) : evalW v (reorder2 w) = evalW v w := by
  unfold reorder2
  split
  · rfl
  · rename_i ds cl hw
    have hw' := splitLast_eq w ds cl hw
    split
    · rfl
    · rename_i c f heq
      have hcl := splitLast_eq cl c f heq
      split
      · rename_i hcond
        have hds : ds = [] := by
          simp [middleHasOr] at hcond
          exact hcond.1.2.1
        subst hds
        simp only [List.nil_append] at hw' ⊢
        subst hw'
        subst hcl
        simp only [evalW_cons, evalConj_cons, evalConj_append_single]
      · rfl

theorem optimize_eval (endOk : Bool) (v : Atom → B3) (w : Where) :
    evalW v (optimize endOk w) = evalW v w := by
  unfold optimize
  split
  · rfl
  · simp only
    split
    · rw [reorder2_eval, reorder1_eval]
    · exact reorder1_eval v w

end Arc.C17
