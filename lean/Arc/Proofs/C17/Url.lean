import Arc.Model.C17
/-! Helper lemmas for C17, part C (URL-domain regex vs CASE on byte strings). Core Lean only. -/
namespace Arc.C17

theorem isPrefixOf_append (p q s : Bytes) :
    (p ++ q).isPrefixOf s = (p.isPrefixOf s && q.isPrefixOf (s.drop p.length)) := by
  induction p generalizing s with
  | nil => simp
  | cons a p ih =>
    cases s with
    | nil => simp
    | cons b s =>
      simp only [List.cons_append, List.length_cons, List.drop_succ_cons, List.isPrefixOf, ih, Bool.and_assoc]

theorem prefix_split (p s : Bytes) (h : p.isPrefixOf s = true) : s = p ++ s.drop p.length := by
  have := List.isPrefixOf_iff_prefix.mp h
  obtain ⟨t, ht⟩ := this
  subst ht
  simp

theorem https_not_http (s : Bytes) (h : bHttps.isPrefixOf s = true) : bHttp.isPrefixOf s = false := by
  rw [prefix_split _ _ h]
  simp [bHttp, bHttps, List.isPrefixOf]

theorem upToSlash_length_le (s : Bytes) : (upToSlash s).length ≤ s.length := by
  unfold upToSlash
  exact (List.takeWhile_prefix _).length_le

theorem stripScheme_length (s r : Bytes) (h : stripScheme s = some r) : r.length + 7 ≤ s.length := by
  unfold stripScheme at h
  split at h
  · rename_i hp
    have := congrArg List.length (prefix_split _ _ hp)
    simp at h; subst h
    simp [bHttps] at this ⊢
    omega
  · split at h
    · rename_i hp
      have := congrArg List.length (prefix_split _ _ hp)
      simp at h; subst h
      simp [bHttp] at this ⊢
      omega
    · simp at h

/-- the `www.`-stripped remainder used by the CASE arms. -/
def host (r : Bytes) : Bytes := if bWww.isPrefixOf r then r.drop 4 else r

theorem caseExpr_scheme (s r : Bytes) (h : stripScheme s = some r) : caseExpr s = upToSlash (host r) := by
  unfold stripScheme at h
  unfold caseExpr host
  split at h
  · rename_i hp
    simp at h; subst h
    have h1 : (bHttps ++ bWww).isPrefixOf s = bWww.isPrefixOf (s.drop 8) := by
      rw [isPrefixOf_append, hp]; simp [bHttps]
    have h2 : (bHttp ++ bWww).isPrefixOf s = false := by
      rw [isPrefixOf_append, https_not_http s hp]; simp
    rw [h1, h2, hp]
    have hd : List.drop 12 s = List.drop 4 (List.drop 8 s) := by rw [List.drop_drop]
    cases hw : bWww.isPrefixOf (s.drop 8) <;>
      simp only [hd, Bool.false_eq_true, ↓reduceIte]
  · rename_i hnp
    split at h
    · rename_i hp
      simp at h; subst h
      have h1 : (bHttps ++ bWww).isPrefixOf s = false := by
        rw [isPrefixOf_append, (Bool.not_eq_true _).mp hnp]; rfl
      have h2 : (bHttp ++ bWww).isPrefixOf s = bWww.isPrefixOf (s.drop 7) := by
        rw [isPrefixOf_append, hp]; simp [bHttp]
      have hnp' : bHttps.isPrefixOf s = false := (Bool.not_eq_true _).mp hnp
      rw [h1, h2, hnp', hp]
      have hd : List.drop 11 s = List.drop 4 (List.drop 7 s) := by rw [List.drop_drop]
      cases hw : bWww.isPrefixOf (s.drop 7) <;>
        simp only [hd, Bool.false_eq_true, ↓reduceIte]
    · simp at h

theorem caseExpr_noscheme (s : Bytes) (h : stripScheme s = none) : caseExpr s = upToSlash s := by
  unfold stripScheme at h
  split at h
  · simp at h
  · rename_i h1
    split at h
    · simp at h
    · rename_i h2
      unfold caseExpr
      have h1' : bHttps.isPrefixOf s = false := (Bool.not_eq_true _).mp h1
      have h2' : bHttp.isPrefixOf s = false := (Bool.not_eq_true _).mp h2
      simp only [isPrefixOf_append, h1', h2', Bool.false_and, Bool.false_eq_true, ↓reduceIte]

theorem upToSlash_www (r : Bytes) (h : bWww.isPrefixOf r = true) :
    upToSlash r = bWww ++ upToSlash (r.drop 4) := by
  have := prefix_split _ _ h
  have hl : bWww.length = 4 := rfl
  rw [hl] at this
  generalize r.drop 4 = t at *
  subst this
  simp [upToSlash, bWww, slash, List.takeWhile]

theorem upToSlash_www_ne (r : Bytes) (h : bWww.isPrefixOf r = true) :
    upToSlash (r.drop 4) ≠ upToSlash r := by
  intro he
  have := congrArg List.length (upToSlash_www r h)
  rw [← he] at this
  simp [bWww] at this
  omega

theorem upToSlash_www_ne_nil (r : Bytes) (h : bWww.isPrefixOf r = true) : upToSlash r ≠ [] := by
  rw [upToSlash_www r h]; simp [bWww]

/-- exact agreement condition for `REGEXP_EXTRACT(s, '^https?://(?:www\.)?([^/]+)', 1)`. -/
def ExtractOk (s : Bytes) : Prop :=
  match stripScheme s with
  | none => upToSlash s = []
  | some r => ¬ (bWww.isPrefixOf r = true ∧ upToSlash (r.drop 4) = [])

/-- exact agreement condition for `REGEXP_REPLACE(s, '^https?://(?:www\.)?([^/]+)/.*$', '\1')`. -/
def ReplaceOk (s : Bytes) : Prop :=
  match stripScheme s with
  | none => upToSlash s = s
  | some r => tailOk (host r) = true

instance (s : Bytes) : Decidable (ExtractOk s) := by
  unfold ExtractOk; cases stripScheme s <;> exact inferInstance
instance (s : Bytes) : Decidable (ReplaceOk s) := by
  unfold ReplaceOk; cases stripScheme s <;> exact inferInstance

theorem extract_exact (s : Bytes) : caseExpr s = regexExtract s ↔ ExtractOk s := by
  unfold ExtractOk regexExtract
  cases hs : stripScheme s with
  | none =>
    simp only [caseExpr_noscheme s hs]
  | some r =>
    simp only [caseExpr_scheme s r hs, host]
    by_cases hw : bWww.isPrefixOf r = true
    · simp only [hw, if_true]
      by_cases hd : upToSlash (r.drop 4) = []
      · simp only [hd, List.isEmpty_nil, Bool.not_true]
        constructor
        · intro h; exact absurd h.symm (upToSlash_www_ne_nil r hw)
        · intro h; exact absurd ⟨trivial, trivial⟩ h
      · have : (upToSlash (r.drop 4)).isEmpty = false := by
          cases hx : upToSlash (r.drop 4) with
          | nil => exact absurd hx hd
          | cons _ _ => rfl
        simp [this, hd]
    · have hw' : bWww.isPrefixOf r = false := (Bool.not_eq_true _).mp hw
      simp only [hw', Bool.false_eq_true, ↓reduceIte, false_and, not_false_eq_true]

theorem case_ne_self (s r : Bytes) (hs : stripScheme s = some r) : upToSlash (host r) ≠ s := by
  intro he
  have h1 := stripScheme_length s r hs
  have h2 := upToSlash_length_le (host r)
  have h3 : (host r).length ≤ r.length := by
    unfold host; split
    · simp
    · exact Nat.le_refl _
  rw [he] at h2
  omega

theorem replace_exact (s : Bytes) : caseExpr s = regexReplace s ↔ ReplaceOk s := by
  unfold ReplaceOk regexReplace
  cases hs : stripScheme s with
  | none =>
    simp only [caseExpr_noscheme s hs]
  | some r =>
    simp only [caseExpr_scheme s r hs]
    have hne := case_ne_self s r hs
    by_cases hw : bWww.isPrefixOf r = true
    · have hh : host r = r.drop 4 := by unfold host; simp only [hw, ↓reduceIte]
      rw [hh] at hne ⊢
      simp only [hw, if_true]
      by_cases ht : tailOk (r.drop 4) = true
      · simp [ht]
      · have ht' : tailOk (r.drop 4) = false := by simpa using ht
        simp only [ht', Bool.false_eq_true, if_false, iff_false]
        split
        · exact upToSlash_www_ne r hw
        · exact hne
    · have hw' : bWww.isPrefixOf r = false := (Bool.not_eq_true _).mp hw
      have hh : host r = r := by unfold host; simp only [hw', Bool.false_eq_true, ↓reduceIte]
      rw [hh] at hne ⊢
      simp only [hw', Bool.false_eq_true, if_false]
      by_cases ht : tailOk r = true
      · simp [ht]
      · have ht' : tailOk r = false := by simpa using ht
        simp only [ht', Bool.false_eq_true, if_false, iff_false]
        exact hne

theorem caseArms_expected (s : Bytes) : caseArms expectedArms s = caseExpr s := by
  simp [caseArms, expectedArms, caseExpr]

end Arc.C17
