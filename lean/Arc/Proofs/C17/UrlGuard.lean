import Arc.Model.C17
import Arc.Proofs.C17.Url
/-! Helper lemmas for C17: the guarded CASE of `buildURLDomainCASEExact` equals the regex call on every
byte string (canonical patterns). Core Lean only. -/
namespace Arc.C17

def hostOk (x : Bytes) : Bool := !x.isEmpty && x.head? != some slash

theorem hostOk_iff (x : Bytes) : hostOk x = !(upToSlash x).isEmpty := by
  cases x with
  | nil => rfl
  | cons a tl =>
    by_cases h : a = slash
    · subst h; simp [hostOk, upToSlash]
    · have h' : (a != slash) = true := by simpa using h
      simp [hostOk, upToSlash, List.takeWhile, h', h]

theorem fromSlash_isEmpty (l : Bytes) : (fromSlash l).isEmpty = !l.contains slash := by
  induction l with
  | nil => rfl
  | cons a tl ih =>
    by_cases h : a = slash
    · subst h; simp [fromSlash, List.dropWhile]
    · have h' : (a != slash) = true := by simpa using h
      have h2 : (slash == a) = false := by simpa using fun e => h e.symm
      unfold fromSlash at ih ⊢
      simp only [List.dropWhile, h', List.contains_cons, h2, Bool.false_or]
      exact ih

theorem armOk_true_eq (x s : Bytes) :
    armOk true x s = (hostOk x && ((x.drop 1).contains slash && !s.contains nl)) := by
  simp [armOk, hostOk]

theorem armOk_false_eq (x s : Bytes) : armOk false x s = hostOk x := by
  simp [armOk, hostOk]

/-- structure of a string whose host part is fine: `a :: tl` with `a ≠ '/'`. -/
theorem hostOk_cons (x : Bytes) (h : hostOk x = true) : ∃ a tl, x = a :: tl ∧ a ≠ slash := by
  cases x with
  | nil => simp [hostOk] at h
  | cons a tl =>
    refine ⟨a, tl, rfl, ?_⟩
    intro e; subst e; simp [hostOk] at h

theorem tailOk_of_armOk (x s : Bytes) (h : armOk true x s = true) (hsub : ∀ b, b ∈ x → b ∈ s) :
    tailOk x = true := by
  rw [armOk_true_eq] at h
  simp only [Bool.and_eq_true, Bool.not_eq_true'] at h
  obtain ⟨hh, hsl, hnl⟩ := h
  obtain ⟨a, tl, rfl, ha⟩ := hostOk_cons x hh
  have h1 : (upToSlash (a :: tl)).isEmpty = false := by
    have := hostOk_iff (a :: tl); rw [hh] at this; simpa using this.symm
  have hsl' : (a :: tl).contains slash = true := by
    simp only [List.drop_succ_cons, List.drop_zero] at hsl
    rw [List.contains_cons, hsl, Bool.or_true]
  have h2 : (fromSlash (a :: tl)).isEmpty = false := by rw [fromSlash_isEmpty, hsl']; rfl
  have h3 : ((fromSlash (a :: tl)).drop 1).contains nl = false := by
    cases hc : ((fromSlash (a :: tl)).drop 1).contains nl with
    | false => rfl
    | true =>
      have hm : nl ∈ (fromSlash (a :: tl)).drop 1 := by simpa using hc
      have hm2 : nl ∈ a :: tl :=
        (List.dropWhile_sublist _).subset ((List.drop_sublist _ _).subset hm)
      have : s.contains nl = true := by simpa using hsub nl hm2
      rw [this] at hnl; exact absurd hnl (by decide)
  unfold tailOk
  rw [h1, h2, h3]; rfl

theorem armOk_of_tailOk (x s : Bytes) (h : tailOk x = true) (hnl : s.contains nl = false) :
    armOk true x s = true := by
  simp only [tailOk, Bool.and_eq_true, Bool.not_eq_true'] at h
  obtain ⟨⟨h1, h2⟩, _⟩ := h
  have hh : hostOk x = true := by rw [hostOk_iff, h1]; rfl
  obtain ⟨a, tl, rfl, ha⟩ := hostOk_cons x hh
  rw [fromSlash_isEmpty] at h2
  have hc : (a :: tl).contains slash = true := by
    rw [Bool.not_eq_false'] at h2; exact h2
  have h2' : (slash == a) = false := by simpa using fun e => ha e.symm
  have : tl.contains slash = true := by
    rw [List.contains_cons, h2', Bool.false_or] at hc; exact hc
  rw [armOk_true_eq, hh, hnl]
  show (true && (tl.contains slash && !false)) = true
  rw [this]; rfl

theorem caseGuarded_scheme (ns : Bool) (orig : Bytes → Bytes) (s r : Bytes) (h : stripScheme s = some r) :
    caseGuarded ns orig expectedArms s =
      if (bWww.isPrefixOf r && armOk ns (r.drop 4) s) = true then upToSlash (r.drop 4)
      else if armOk ns r s = true then upToSlash r else orig s := by
  unfold stripScheme at h
  simp only [caseGuarded, expectedArms, Nat.add_one_sub_one, Nat.reduceSub]
  split at h
  · rename_i hp
    simp at h; subst h
    have h1 : (bHttps ++ bWww).isPrefixOf s = bWww.isPrefixOf (s.drop 8) := by
      rw [isPrefixOf_append, hp]; simp [bHttps]
    have h2 : (bHttp ++ bWww).isPrefixOf s = false := by
      rw [isPrefixOf_append, https_not_http s hp]; simp
    have hd : List.drop 12 s = List.drop 4 (List.drop 8 s) := by rw [List.drop_drop]
    rw [h1, h2, hp, https_not_http s hp, hd]
    simp only [Bool.false_and, Bool.true_and, Bool.false_eq_true, ↓reduceIte]
  · rename_i hnp
    split at h
    · rename_i hp
      simp at h; subst h
      have hnp' : bHttps.isPrefixOf s = false := (Bool.not_eq_true _).mp hnp
      have h1 : (bHttps ++ bWww).isPrefixOf s = false := by
        rw [isPrefixOf_append, hnp']; rfl
      have h2 : (bHttp ++ bWww).isPrefixOf s = bWww.isPrefixOf (s.drop 7) := by
        rw [isPrefixOf_append, hp]; simp [bHttp]
      have hd : List.drop 11 s = List.drop 4 (List.drop 7 s) := by rw [List.drop_drop]
      rw [h1, h2, hnp', hp, hd]
      simp only [Bool.false_and, Bool.true_and, Bool.false_eq_true, ↓reduceIte]
    · simp at h

theorem caseGuarded_noscheme (ns : Bool) (orig : Bytes → Bytes) (s : Bytes) (h : stripScheme s = none) :
    caseGuarded ns orig expectedArms s = orig s := by
  unfold stripScheme at h
  split at h
  · simp at h
  · rename_i h1
    split at h
    · simp at h
    · rename_i h2
      have h1' : bHttps.isPrefixOf s = false := (Bool.not_eq_true _).mp h1
      have h2' : bHttp.isPrefixOf s = false := (Bool.not_eq_true _).mp h2
      simp only [caseGuarded, expectedArms, isPrefixOf_append, h1', h2', Bool.false_and,
        Bool.false_eq_true, ↓reduceIte]

theorem stripScheme_mem (s r : Bytes) (h : stripScheme s = some r) : ∀ b, b ∈ r → b ∈ s := by
  unfold stripScheme at h
  split at h
  · simp at h; subst h; exact fun b hb => (List.drop_sublist _ _).subset hb
  · split at h
    · simp at h; subst h; exact fun b hb => (List.drop_sublist _ _).subset hb
    · simp at h

theorem replace_guarded (s : Bytes) : caseGuarded true regexReplace expectedArms s = regexReplace s := by
  cases hs : stripScheme s with
  | none => exact caseGuarded_noscheme _ _ s hs
  | some r =>
    rw [caseGuarded_scheme _ _ s r hs]
    have hmem := stripScheme_mem s r hs
    have hR : regexReplace s =
        if bWww.isPrefixOf r then
          if tailOk (r.drop 4) then upToSlash (r.drop 4) else if tailOk r then upToSlash r else s
        else if tailOk r then upToSlash r else s := by
      simp only [regexReplace, hs]
    split
    · rename_i h1
      simp only [Bool.and_eq_true] at h1
      have ht := tailOk_of_armOk (r.drop 4) s h1.2
        (fun b hb => hmem b ((List.drop_sublist _ _).subset hb))
      rw [hR]; simp [h1.1, ht]
    · rename_i h1
      split
      · rename_i h2
        have htr := tailOk_of_armOk r s h2 hmem
        have hnl : s.contains nl = false := by
          rw [armOk_true_eq] at h2
          simp only [Bool.and_eq_true, Bool.not_eq_true'] at h2
          exact h2.2.2
        rw [hR]
        by_cases hw : bWww.isPrefixOf r = true
        · have ht4 : tailOk (r.drop 4) = false := by
            cases ht : tailOk (r.drop 4) with
            | false => rfl
            | true =>
              exact absurd (by simp [hw, armOk_of_tailOk _ s ht hnl]) h1
          simp [hw, ht4, htr]
        · have hw' : bWww.isPrefixOf r = false := (Bool.not_eq_true _).mp hw
          simp [hw', htr]
      · rfl

theorem extract_guarded (s : Bytes) : caseGuarded false regexExtract expectedArms s = regexExtract s := by
  cases hs : stripScheme s with
  | none => exact caseGuarded_noscheme _ _ s hs
  | some r =>
    rw [caseGuarded_scheme _ _ s r hs]
    have hR : regexExtract s =
        if bWww.isPrefixOf r then
          if !(upToSlash (r.drop 4)).isEmpty then upToSlash (r.drop 4) else upToSlash r
        else upToSlash r := by
      simp only [regexExtract, hs]
    simp only [armOk_false_eq, hostOk_iff]
    split
    · rename_i h1
      simp only [Bool.and_eq_true] at h1
      rw [hR]; simp [h1.1, h1.2]
    · rename_i h1
      have hval : regexExtract s = upToSlash r := by
        rw [hR]
        by_cases hw : bWww.isPrefixOf r = true
        · have : (!(upToSlash (r.drop 4)).isEmpty) = false := by
            cases hx : (!(upToSlash (r.drop 4)).isEmpty) with
            | false => rfl
            | true => exact absurd (by simp [hw, hx]) h1
          simp [hw, this]
        · have hw' : bWww.isPrefixOf r = false := (Bool.not_eq_true _).mp hw
          simp [hw']
      split
      · exact hval.symm
      · rfl

end Arc.C17
