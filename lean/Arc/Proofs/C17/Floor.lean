import Arc.Model.C17
import Arc.Proofs.C17.Time
/-! Helper lemmas for C17: the integer-µs floor template of the 3-argument `time_bucket` rewrite. -/
namespace Arc.C17

/-- `tmod a W` is `a % W` minus 0 or W. -/
theorem tmod_cases (a W : Int) (hW : 0 < W) : Int.tmod a W = a % W ∨ Int.tmod a W = a % W - W := by
  rw [Int.tmod_eq_emod]
  split
  · left; simp
  · right
    have : ((W.natAbs : Nat) : Int) = W := by omega
    rw [this]

/-- `((y % W) + W) % W` with DuckDB's truncating `%` is the flooring remainder. -/
theorem tmod_floormod (y W : Int) (hW : 0 < W) : Int.tmod (Int.tmod y W + W) W = y % W := by
  have hr0 : 0 ≤ y % W := Int.emod_nonneg y (by omega)
  have hr1 : y % W < W := Int.emod_lt_of_pos y hW
  have hself : (y % W) % W = y % W := Int.emod_eq_of_lt hr0 hr1
  rcases tmod_cases y W hW with h | h
  · rw [h, Int.tmod_eq_emod_of_nonneg (by omega), Int.add_emod_right, hself]
  · rw [h, Int.tmod_eq_emod_of_nonneg (by omega)]
    have : y % W - W + W = y % W := by omega
    rw [this, hself]

/-- bucketing with an origin reduced modulo the width (either remainder convention) is the same. -/
theorem timeBucket_origin_tmod (W O t : Int) (hW : 0 < W) :
    timeBucket W (Int.tmod O W) t = timeBucket W O t := by
  unfold timeBucket
  have hO : O = W * (O / W) + O % W := (Int.mul_ediv_add_emod O W).symm
  rcases tmod_cases O W hW with h | h
  · rw [h]
    have e : t - O % W = (t - O) + W * (O / W) := by omega
    rw [e, Int.add_mul_ediv_left _ _ (by omega), Int.add_mul, Int.mul_comm (O / W) W]
    omega
  · rw [h]
    have hm : W * (O / W + 1) = W * (O / W) + W := by rw [Int.mul_add, Int.mul_one]
    have e : t - (O % W - W) = (t - O) + W * (O / W + 1) := by omega
    rw [e, Int.add_mul_ediv_left _ _ (by omega), Int.add_mul, Int.mul_comm (O / W + 1) W]
    omega

theorem timeBucket_floormod (W O t : Int) (hW : 0 < W) :
    t - (t - O) % W = timeBucket W O t := by
  unfold timeBucket
  have := Int.mul_ediv_add_emod (t - O) W
  rw [Int.mul_comm] at this
  omega

/-- value of the floor template under the exact semantics: DuckDB's `time_bucket`, for every row. -/
theorem rewrite3_floor (o s t : Int) (hs : 0 < s) :
    rewrite3 semX tmpl3Floor o s t = timeBucket (s * usPerSec) (o * usPerSec) t := by
  have hW : 0 < s * usPerSec := Int.mul_pos hs (by decide)
  simp only [rewrite3, tmpl3Floor, evalR, semX, toTimestampX]
  have hu : (1000000 : Int) = usPerSec := rfl
  rw [hu, tmod_floormod _ _ hW, timeBucket_floormod _ _ _ hW, timeBucket_origin_tmod _ _ _ hW,
    timeBucket_whole, Int.mul_tdiv_cancel _ (by decide)]

end Arc.C17
