import Arc.Proofs.C15.Basic
/-! C15: the mask → unmask round trip with placeholders treated as ATOMS (token level).

`renderT` is `render` with placeholders kept symbolic; `unmaskT` replaces the first (`__STR_n__`) or
every (`__IDENT_n__`) occurrence of the placeholder *token*. At this level the round trip holds for
every input, quoted identifiers and their exact-match de-duplication included; what can go wrong at
the byte level is only a collision between placeholder text and user text. -/
namespace Arc.C15

inductive Tok where
  | b (c : UInt8)
  | p (isId : Bool) (n : Nat)
deriving DecidableEq, Repr

def Tok.flat : Tok → Bytes
  | .b c => [c]
  | .p false n => phStr n
  | .p true n => phIdent n

def flatT (l : List Tok) : Bytes := l.flatMap Tok.flat
def bytesT (o : Bytes) : List Tok := o.map Tok.b

/-- identifier table: token text ↦ `some n` (placeholder `__IDENT_n__` pending) or `none` (already restored) -/
abbrev IM := List (Bytes × Option Nat)

def renderT : Nat → IM → List Seg → List Tok × List (Bool × Nat × Bytes)
  | _, _, [] => ([], [])
  | n, im, .raw b :: r => (.b b :: (renderT n im r).1, (renderT n im r).2)
  | n, im, .str o :: r => (.p false n :: (renderT (n + 1) im r).1, (false, n, o) :: (renderT (n + 1) im r).2)
  | n, im, .ident o :: r =>
    match im.lookup o with
    | some (some k) => (.p true k :: (renderT n im r).1, (renderT n im r).2)
    | some none => (bytesT o ++ (renderT n im r).1, (renderT n im r).2)
    | none => (.p true n :: (renderT (n + 1) ((o, some n) :: im) r).1,
               (true, n, o) :: (renderT (n + 1) ((o, some n) :: im) r).2)
  | n, im, .lcom o :: r => (bytesT o ++ (renderT n im r).1, (renderT n im r).2)
  | n, im, .bcom o :: r => (bytesT o ++ (renderT n im r).1, (renderT n im r).2)

def substFirst (n : Nat) (o : Bytes) : List Tok → List Tok
  | [] => []
  | .p false k :: t => if k = n then bytesT o ++ t else .p false k :: substFirst n o t
  | x :: t => x :: substFirst n o t

def substOne (n : Nat) (o : Bytes) : Tok → List Tok
  | .p true k => if k = n then bytesT o else [.p true k]
  | x => [x]

def substAll (n : Nat) (o : Bytes) (l : List Tok) : List Tok := l.flatMap (substOne n o)

def unmaskStepT (t : List Tok) (m : Bool × Nat × Bytes) : List Tok :=
  if m.1 then substAll m.2.1 m.2.2 t else substFirst m.2.1 m.2.2 t

def unmaskT (t : List Tok) (masks : List (Bool × Nat × Bytes)) : List Tok := masks.foldl unmaskStepT t

/-! ### substitution on byte tokens -/
theorem substFirst_bytes (n : Nat) (o P : Bytes) (t : List Tok) :
    substFirst n o (bytesT P ++ t) = bytesT P ++ substFirst n o t := by
  induction P with
  | nil => simp [bytesT]
  | cons c P ih => simp only [bytesT, List.map_cons, List.cons_append, substFirst] at ih ⊢; rw [ih]

theorem substAll_bytes (n : Nat) (o P : Bytes) : substAll n o (bytesT P) = bytesT P := by
  induction P with
  | nil => simp [bytesT, substAll]
  | cons c P ih =>
    simp only [bytesT, substAll, List.map_cons, List.flatMap_cons, substOne] at ih ⊢
    rw [ih]; rfl

theorem substAll_append (n : Nat) (o : Bytes) (a b : List Tok) :
    substAll n o (a ++ b) = substAll n o a ++ substAll n o b := by simp [substAll]

theorem bytesT_append (a b : Bytes) : bytesT (a ++ b) = bytesT a ++ bytesT b := by simp [bytesT]

/-! ### restoring one identifier in the rest of the text -/

def keysNe (o : Bytes) (pre : IM) : Prop := ∀ e ∈ pre, e.1 ≠ o
def valsGt (n : Nat) (pre : IM) : Prop := ∀ e ∈ pre, ∀ k, e.2 = some k → n < k

theorem lookup_pre (pre : IM) (o o2 : Bytes) (v : Option Nat) (im : IM) (hne : o2 ≠ o) :
    (pre ++ (o, v) :: im).lookup o2 = (pre ++ im).lookup o2 := by
  induction pre with
  | nil =>
    have : (o2 == o) = false := by simpa using hne
    simp [List.lookup, this]
  | cons e pre ih =>
    obtain ⟨a, w⟩ := e
    by_cases h : o2 = a
    · subst h; simp [List.lookup]
    · have : (o2 == a) = false := by simpa using h
      simp [List.lookup, this, ih]

theorem lookup_mem (l : IM) (t : Bytes) (v : Option Nat) (h : l.lookup t = some v) : (t, v) ∈ l := by
  induction l with
  | nil => simp [List.lookup] at h
  | cons e l ih =>
    obtain ⟨a, w⟩ := e
    by_cases ha : t = a
    · subst ha; simp [List.lookup] at h; simp [h]
    · have : (t == a) = false := by simpa using ha
      simp only [List.lookup, this] at h
      exact List.mem_cons_of_mem _ (ih h)

theorem lookup_self (pre : IM) (o : Bytes) (v : Option Nat) (im : IM) (hk : keysNe o pre) :
    (pre ++ (o, v) :: im).lookup o = some v := by
  induction pre with
  | nil => simp [List.lookup]
  | cons e pre ih =>
    obtain ⟨a, w⟩ := e
    have hne : o ≠ a := fun h => hk (a, w) (by simp) h.symm
    have : (o == a) = false := by simpa using hne
    simp only [List.cons_append, List.lookup, this]
    exact ih (fun e he => hk e (by simp [he]))

/-- Replacing every `__IDENT_n__` token in the rest of the text = rendering the rest with the
identifier `o` marked as restored. -/
theorem substAll_renderT (r : List Seg) : ∀ (n' n : Nat) (o : Bytes) (pre im : IM),
    n < n' → keysNe o pre → valsGt n pre → (∀ e ∈ im, e.2 = none) →
    substAll n o (renderT n' (pre ++ (o, some n) :: im) r).1 = (renderT n' (pre ++ (o, none) :: im) r).1 ∧
    (renderT n' (pre ++ (o, some n) :: im) r).2 = (renderT n' (pre ++ (o, none) :: im) r).2 := by
  induction r with
  | nil => intros; simp [renderT, substAll]
  | cons sg r ih =>
    intro n' n o pre im hn hk hv hres
    cases sg with
    | raw b =>
      have := ih n' n o pre im hn hk hv hres
      simp only [renderT, substAll, List.flatMap_cons, substOne] at this ⊢
      exact ⟨by rw [this.1]; rfl, this.2⟩
    | str t =>
      have := ih (n' + 1) n o pre im (by omega) hk hv hres
      simp only [renderT, substAll, List.flatMap_cons, substOne] at this ⊢
      exact ⟨by rw [this.1]; rfl, by rw [this.2]⟩
    | lcom t =>
      have := ih n' n o pre im hn hk hv hres
      simp only [renderT, substAll_append, substAll_bytes]
      exact ⟨by rw [this.1], this.2⟩
    | bcom t =>
      have := ih n' n o pre im hn hk hv hres
      simp only [renderT, substAll_append, substAll_bytes]
      exact ⟨by rw [this.1], this.2⟩
    | ident t =>
      by_cases ht : t = o
      · subst ht
        have := ih n' n t pre im hn hk hv hres
        simp only [renderT, lookup_self pre t _ im hk]
        refine ⟨?_, this.2⟩
        have h1 : substAll n t (Tok.p true n :: (renderT n' (pre ++ (t, some n) :: im) r).1)
            = bytesT t ++ substAll n t (renderT n' (pre ++ (t, some n) :: im) r).1 := by
          simp [substAll, substOne]
        rw [h1, this.1]
      · simp only [renderT, lookup_pre pre o t _ im ht]
        cases hl : (pre ++ im).lookup t with
        | none =>
          have := ih (n' + 1) n o ((t, some n') :: pre) im (by omega)
            (by intro e he; simp at he; rcases he with rfl | he; exact ht; exact hk e he)
            (by intro e he k hek; simp at he; rcases he with rfl | he
                · simp at hek; omega
                · exact hv e he k hek) hres
          simp only [List.cons_append] at this
          refine ⟨?_, by rw [this.2]⟩
          have hne : ¬ n' = n := by omega
          simp only [substAll, List.flatMap_cons, substOne, hne, if_false] at this ⊢
          rw [this.1]; rfl
        | some v =>
          cases v with
          | none =>
            have := ih n' n o pre im hn hk hv hres
            simp only [substAll_append, substAll_bytes]
            exact ⟨by rw [this.1], this.2⟩
          | some k =>
            have := ih n' n o pre im hn hk hv hres
            -- the entry is in `pre` (entries of `im` are all restored), so k > n
            have hmem : (t, some k) ∈ pre ++ im := lookup_mem _ _ _ hl
            have hpre : (t, some k) ∈ pre := by
              rcases List.mem_append.mp hmem with h | h
              · exact h
              · have := hres _ h; simp at this
            have hgt := hv _ hpre k rfl
            have hne : ¬ k = n := by omega
            refine ⟨?_, this.2⟩
            simp only [substAll, List.flatMap_cons, substOne, hne, if_false] at this ⊢
            rw [this.1]; rfl

theorem roundtripT_gen (segs : List Seg) : ∀ (n : Nat) (im : IM) (P : Bytes),
    (∀ e ∈ im, e.2 = none) →
    unmaskT (bytesT P ++ (renderT n im segs).1) (renderT n im segs).2 = bytesT (P ++ segBytes segs) := by
  induction segs with
  | nil => intro n im P _; simp [renderT, unmaskT, segBytes]
  | cons sg segs ih =>
    intro n im P hres
    cases sg with
    | raw b =>
      have := ih n im (P ++ [b]) hres
      simpa [renderT, segBytes, Seg.bytes, bytesT] using this
    | str o =>
      have := ih (n + 1) im (P ++ o) hres
      simp only [renderT, unmaskT, List.foldl_cons, unmaskStepT, Bool.false_eq_true, if_false]
      rw [substFirst_bytes]
      simp only [substFirst, if_true]
      simpa [unmaskT, segBytes, Seg.bytes, bytesT_append] using this
    | lcom o =>
      have := ih n im (P ++ o) hres
      simpa [renderT, segBytes, Seg.bytes, bytesT_append] using this
    | bcom o =>
      have := ih n im (P ++ o) hres
      simpa [renderT, segBytes, Seg.bytes, bytesT_append] using this
    | ident o =>
      simp only [renderT]
      cases hl : im.lookup o with
      | some v =>
        cases v with
        | some k => have := hres _ (lookup_mem _ _ _ hl); simp at this
        | none =>
          have := ih n im (P ++ o) hres
          simpa [segBytes, Seg.bytes, bytesT_append] using this
      | none =>
        have hs := substAll_renderT segs (n + 1) n o [] im (by omega)
          (by intro e he; simp at he) (by intro e he; simp at he) hres
        simp only [List.nil_append] at hs
        have := ih (n + 1) ((o, none) :: im) (P ++ o)
          (by intro e he; simp at he; rcases he with rfl | he; rfl; exact hres e he)
        simp only [unmaskT, List.foldl_cons, unmaskStepT, if_true]
        have h1 : substAll n o (bytesT P ++ Tok.p true n :: (renderT (n + 1) ((o, some n) :: im) segs).1)
            = bytesT P ++ bytesT o ++ (renderT (n + 1) ((o, none) :: im) segs).1 := by
          rw [substAll_append, substAll_bytes]
          have : substAll n o (Tok.p true n :: (renderT (n + 1) ((o, some n) :: im) segs).1)
              = bytesT o ++ substAll n o (renderT (n + 1) ((o, some n) :: im) segs).1 := by
            simp [substAll, substOne]
          rw [this, hs.1, List.append_assoc]
        rw [h1, hs.2]
        simpa [unmaskT, segBytes, Seg.bytes, bytesT_append] using this

/-! ### link to the byte-level `render` -/

def imBytes (im : List (Bytes × Nat)) : List (Bytes × Bytes) := im.map (fun e => (e.1, phIdent e.2))
def imTok (im : List (Bytes × Nat)) : IM := im.map (fun e => (e.1, some e.2))
def maskOfT (m : Bool × Nat × Bytes) : Mask :=
  ⟨if m.1 then phIdent m.2.1 else phStr m.2.1, m.2.2, m.1⟩

theorem lookup_imBytes (im : List (Bytes × Nat)) (o : Bytes) :
    (imBytes im).lookup o = (im.lookup o).map phIdent := by
  induction im with
  | nil => simp [imBytes, List.lookup]
  | cons e im ih =>
    obtain ⟨a, k⟩ := e
    by_cases h : o = a
    · subst h; simp [imBytes, List.lookup]
    · have : (o == a) = false := by simpa using h
      simp only [imBytes, List.map_cons, List.lookup, this] at ih ⊢; exact ih

theorem lookup_imTok (im : List (Bytes × Nat)) (o : Bytes) :
    (imTok im).lookup o = (im.lookup o).map some := by
  induction im with
  | nil => simp [imTok, List.lookup]
  | cons e im ih =>
    obtain ⟨a, k⟩ := e
    by_cases h : o = a
    · subst h; simp [imTok, List.lookup]
    · have : (o == a) = false := by simpa using h
      simp only [imTok, List.map_cons, List.lookup, this] at ih ⊢; exact ih

theorem flatT_bytesT (o : Bytes) : flatT (bytesT o) = o := by
  induction o with
  | nil => rfl
  | cons c o ih => simp only [flatT, bytesT, List.map_cons, List.flatMap_cons, Tok.flat] at ih ⊢; rw [ih]; rfl

theorem flatT_append (a b : List Tok) : flatT (a ++ b) = flatT a ++ flatT b := by simp [flatT]

/-- `render` is `renderT` with every placeholder token spelled out. -/
theorem render_eq_renderT (segs : List Seg) : ∀ (n : Nat) (im : List (Bytes × Nat)),
    (render n (imBytes im) segs).1 = flatT (renderT n (imTok im) segs).1 ∧
    (render n (imBytes im) segs).2 = (renderT n (imTok im) segs).2.map maskOfT := by
  induction segs with
  | nil => intro n im; simp [render, renderT, flatT]
  | cons sg segs ih =>
    intro n im
    cases sg with
    | raw b =>
      have := ih n im
      simp only [render, renderT, flatT, List.flatMap_cons, Tok.flat] at this ⊢
      exact ⟨by rw [this.1]; rfl, this.2⟩
    | str o =>
      have := ih (n + 1) im
      simp only [render, renderT, flatT, List.flatMap_cons, Tok.flat, List.map_cons] at this ⊢
      exact ⟨by rw [this.1], by rw [this.2]; simp [maskOfT]⟩
    | lcom o =>
      have := ih n im
      simp only [render, renderT] at this ⊢
      refine ⟨?_, this.2⟩
      rw [this.1, flatT_append, flatT_bytesT]
    | bcom o =>
      have := ih n im
      simp only [render, renderT] at this ⊢
      refine ⟨?_, this.2⟩
      rw [this.1, flatT_append, flatT_bytesT]
    | ident o =>
      simp only [render, renderT, lookup_imBytes, lookup_imTok]
      cases hl : im.lookup o with
      | some k =>
        have := ih n im
        simp only [Option.map_some, flatT, List.flatMap_cons, Tok.flat] at this ⊢
        exact ⟨by rw [this.1], this.2⟩
      | none =>
        have := ih (n + 1) ((o, n) :: im)
        simp only [imBytes, imTok, List.map_cons] at this
        simp only [Option.map_none, flatT, List.flatMap_cons, Tok.flat, List.map_cons, imBytes, imTok] at this ⊢
        exact ⟨by rw [this.1], by rw [this.2]; simp [maskOfT]⟩

end Arc.C15
