import Arc.Proofs.C15.Basic
/-! C15 helper lemmas: `stripSQLComments` segments = SqlLex segments on the class `kClassS = 0`. -/
namespace Arc.C15

theorem hasPair_tail (a b x : UInt8) (l : Bytes) (h : hasPair a b (x :: l) = false) : hasPair a b l = false := by
  cases l with
  | nil => simp [hasPair]
  | cons y l => simp [hasPair] at h; exact h.2

theorem spanP_nl_cr (l : Bytes)
    (h : (spanP (fun b => b != NL && b != CR) l).2.head? ≠ some CR) :
    spanP (fun b => b != NL) l = spanP (fun b => b != NL && b != CR) l := by
  induction l with
  | nil => simp [spanP]
  | cons c t ih =>
    by_cases h1 : c = NL
    · subst h1; simp [spanP, NL, CR]
    · by_cases h2 : c = CR
      · simp [spanP, h1, h2] at h
      · have e1 : (c != NL) = true := by simpa using h1
        have e2 : (c != CR) = true := by simpa using h2
        simp only [spanP, e1, e2, Bool.and_self, if_true] at h ⊢
        rw [ih h]

theorem sBlock_eq_lBlock (u : Bytes) (hn : hasPair SLASH STAR (lBlock 1 u).1 = false) :
    sBlock u = lBlock 1 u := by
  fun_induction sBlock u
  · simp [lBlock]
  · simp [lBlock]
  · rename_i c c2 t2 hc
    obtain ⟨h1, h2⟩ := hc
    subst h1 h2
    simp [lBlock]
  · rename_i c c2 t2 hc r ih
    have hc' : ¬(c = STAR ∧ c2 = SLASH) := hc
    by_cases hs : c = SLASH ∧ c2 = STAR
    · obtain ⟨h1, h2⟩ := hs
      subst h1 h2
      simp [lBlock, hasPair, SLASH, STAR] at hn
    · simp only [lBlock, hc', hs, if_false] at hn ⊢
      have hn' := hasPair_tail _ _ _ _ hn
      have := ih hn'
      simp only [r, this]

theorem idCont_not_dash_slash (c : UInt8) (h : isIdCont c = true) : c ≠ DASH ∧ c ≠ SLASH := by
  constructor <;> (intro hc; subst hc; revert h; decide)

/-! case equations of `lTok` -/
section
variable (inId : Bool) (c : UInt8) (t : Bytes)
theorem lTok_id (h0 : (inId && isIdCont c) = true) : lTok inId c t = (.raw c, t, true) := by
  unfold lTok; rw [if_pos h0]
theorem lTok_q (h0 : ¬(inId && isIdCont c) = true) (h1 : c = QUOTE) :
    lTok inId c t = (.str (c :: (lBody QUOTE t).1), (lBody QUOTE t).2, false) := by
  unfold lTok; rw [if_neg h0, if_pos h1]
theorem lTok_dq (h0 : ¬(inId && isIdCont c) = true) (h1 : ¬c = QUOTE) (h2 : c = DQUOTE) :
    lTok inId c t = (.ident (c :: (lBody DQUOTE t).1), (lBody DQUOTE t).2, false) := by
  unfold lTok; rw [if_neg h0, if_neg h1, if_pos h2]
theorem lTok_e (h0 : ¬(inId && isIdCont c) = true) (h1 : ¬c = QUOTE) (h2 : ¬c = DQUOTE)
    (h3 : (isE c && decide (t.head? = some QUOTE)) = true) :
    lTok inId c t = (.str (c :: QUOTE :: (lEBody t.tail).1), (lEBody t.tail).2, false) := by
  unfold lTok; rw [if_neg h0, if_neg h1, if_neg h2, if_pos h3]
theorem lTok_dollar (h0 : ¬(inId && isIdCont c) = true) (h1 : ¬c = QUOTE) (h2 : ¬c = DQUOTE)
    (h3 : ¬(isE c && decide (t.head? = some QUOTE)) = true) (h4 : c = DOLLAR) :
    lTok inId c t = (match dollarTok lTagStart lTagCont t with
      | some (tok, rest) => (.str tok, rest, false)
      | none => (.raw c, t, false)) := by
  unfold lTok; rw [if_neg h0, if_neg h1, if_neg h2, if_neg h3, if_pos h4]
  rfl
theorem lTok_line (h0 : ¬(inId && isIdCont c) = true) (h1 : ¬c = QUOTE) (h2 : ¬c = DQUOTE)
    (h3 : ¬(isE c && decide (t.head? = some QUOTE)) = true) (h4 : ¬c = DOLLAR)
    (h5 : c = DASH ∧ t.head? = some DASH) :
    lTok inId c t = (.lcom (spanP (fun b => b != NL && b != CR) (c :: t)).1,
      (spanP (fun b => b != NL && b != CR) (c :: t)).2, false) := by
  unfold lTok; rw [if_neg h0, if_neg h1, if_neg h2, if_neg h3, if_neg h4, if_pos h5]
theorem lTok_block (h0 : ¬(inId && isIdCont c) = true) (h1 : ¬c = QUOTE) (h2 : ¬c = DQUOTE)
    (h3 : ¬(isE c && decide (t.head? = some QUOTE)) = true) (h4 : ¬c = DOLLAR)
    (h5 : ¬(c = DASH ∧ t.head? = some DASH)) (h6 : c = SLASH ∧ t.head? = some STAR) :
    lTok inId c t = (.bcom (c :: STAR :: (lBlock 1 t.tail).1), (lBlock 1 t.tail).2, false) := by
  unfold lTok; rw [if_neg h0, if_neg h1, if_neg h2, if_neg h3, if_neg h4, if_neg h5, if_pos h6]
theorem lTok_other (h0 : ¬(inId && isIdCont c) = true) (h1 : ¬c = QUOTE) (h2 : ¬c = DQUOTE)
    (h3 : ¬(isE c && decide (t.head? = some QUOTE)) = true) (h4 : ¬c = DOLLAR)
    (h5 : ¬(c = DASH ∧ t.head? = some DASH)) (h6 : ¬(c = SLASH ∧ t.head? = some STAR)) :
    lTok inId c t = (.raw c, t, isIdStart c) := by
  unfold lTok; rw [if_neg h0, if_neg h1, if_neg h2, if_neg h3, if_neg h4, if_neg h5, if_neg h6]
end

theorem sTok_eq_lTok (inId : Bool) (c : UInt8) (t : Bytes) (hk : kTokS inId c t = 0) :
    sTok c t = ((lTok inId c t).1, (lTok inId c t).2.1) := by
  unfold kTokS at hk
  by_cases h0 : (inId && isIdCont c) = true
  · have h0' := h0
    simp at h0'
    have := idCont_not_dash_slash c h0'.2
    rw [lTok_id _ _ _ h0]
    simp [sTok, this.1, this.2]
  by_cases h1 : c = QUOTE
  · rw [lTok_q _ _ _ h0 h1] at hk; simp [kLiteralLeft] at hk
  by_cases h2 : c = DQUOTE
  · rw [lTok_dq _ _ _ h0 h1 h2] at hk; simp [kLiteralLeft] at hk
  by_cases h3 : (isE c && decide (t.head? = some QUOTE)) = true
  · rw [lTok_e _ _ _ h0 h1 h2 h3] at hk; simp [kLiteralLeft] at hk
  by_cases h4 : c = DOLLAR
  · have hd : c ≠ DASH := by rw [h4]; decide
    have hs : c ≠ SLASH := by rw [h4]; decide
    rw [lTok_dollar _ _ _ h0 h1 h2 h3 h4] at hk ⊢
    cases hdt : dollarTok lTagStart lTagCont t with
    | some r => simp [hdt, kLiteralLeft] at hk
    | none => simp [sTok, hd, hs]
  by_cases h5 : c = DASH ∧ t.head? = some DASH
  · rw [lTok_line _ _ _ h0 h1 h2 h3 h4 h5] at hk ⊢
    have hcr : (spanP (fun b => b != NL && b != CR) (c :: t)).2.head? ≠ some CR := by
      intro hh; simp [hh, kCrEndsLine] at hk
    have := spanP_nl_cr _ hcr
    simp only [sTok, h5, and_self, if_true]
    rw [← h5.1, this]
  by_cases h6 : c = SLASH ∧ t.head? = some STAR
  · rw [lTok_block _ _ _ h0 h1 h2 h3 h4 h5 h6] at hk ⊢
    simp at hk
    by_cases hn : hasPair SLASH STAR (lBlock 1 t.tail).1 = true
    · simp [hn, kNested] at hk
    · simp at hn
      simp only [sTok, if_neg h5, if_pos h6, sBlock_eq_lBlock _ hn]
  · rw [lTok_other _ _ _ h0 h1 h2 h3 h4 h5 h6]
    simp [sTok, h5, h6]

theorem sSegsF_eq_lSegsF (f : Nat) : ∀ (inId : Bool) (t : Bytes), t.length ≤ f →
    kSegsSF f inId t = 0 → sSegsF f t = lSegsF f inId t := by
  induction f with
  | zero => intro inId t h _; cases t <;> simp [sSegsF, lSegsF]
  | succ f ih =>
    intro inId t h hk
    cases t with
    | nil => simp [sSegsF, lSegsF]
    | cons c t =>
      simp only [kSegsSF] at hk
      by_cases hk0 : kTokS inId c t = 0
      · simp only [hk0, ne_eq, not_true_eq_false, if_false] at hk
        have he := sTok_eq_lTok inId c t hk0
        have hl := lTok_rest_le inId c t
        simp only [sSegsF, lSegsF, he]
        rw [ih (lTok inId c t).2.2 (lTok inId c t).2.1 (by simp at h; omega) hk]
      · simp [hk0] at hk

end Arc.C15
