import Arc.Model.C15
/-! Helper lemmas for C15: scanners return a split of their input. -/
namespace Arc.C15

theorem lBody_split (q : UInt8) (t : Bytes) : (lBody q t).1 ++ (lBody q t).2 = t := by
  fun_induction lBody q t <;> simp_all +zetaDelta

theorem lEBody_split (t : Bytes) : (lEBody t).1 ++ (lEBody t).2 = t := by
  fun_induction lEBody t <;> simp_all +zetaDelta

theorem sBlock_split (t : Bytes) : (sBlock t).1 ++ (sBlock t).2 = t := by
  fun_induction sBlock t <;> simp_all +zetaDelta

theorem lBlock_split (d : Nat) (t : Bytes) : (lBlock d t).1 ++ (lBlock d t).2 = t := by
  fun_induction lBlock d t <;> simp_all +zetaDelta

theorem tagScan_split (st ct : UInt8 → Bool) (first : Bool) (t tag body : Bytes)
    (h : tagScan st ct first t = some (tag, body)) : tag ++ DOLLAR :: body = t := by
  fun_induction tagScan st ct first t generalizing tag body
  · simp at h
  · simp at h; obtain ⟨h1, h2⟩ := h; subst h1 h2; simp_all
  · rename_i hs ih
    simp at h
    obtain ⟨h1, h2⟩ := h; subst h1 h2
    simp [ih _ _ hs]
  · simp_all
  · simp at h

theorem isPrefixOf_drop (p l : Bytes) (h : p.isPrefixOf l = true) : p ++ l.drop p.length = l := by
  induction p generalizing l with
  | nil => simp
  | cons a p ih =>
    cases l with
    | nil => simp at h
    | cons b l =>
      simp only [List.isPrefixOf, Bool.and_eq_true, beq_iff_eq] at h
      simp [h.1, ih l h.2]

theorem splitSub_split (pat t a b : Bytes) (h : splitSub pat t = some (a, b)) : a ++ b = t := by
  fun_induction splitSub pat t generalizing a b
  · simp at h
  · rename_i hp
    simp at h; obtain ⟨h1, h2⟩ := h; subst h1 h2
    exact isPrefixOf_drop _ _ hp
  · rename_i hs ih
    simp at h; obtain ⟨h1, h2⟩ := h; subst h1 h2
    simp [ih _ _ hs]
  · simp at h

theorem dollarTok_split (st ct : UInt8 → Bool) (t tok rest : Bytes)
    (h : dollarTok st ct t = some (tok, rest)) : tok ++ rest = DOLLAR :: t := by
  unfold dollarTok at h
  split at h
  · simp at h
  · rename_i tag body htag
    have h1 := tagScan_split _ _ _ _ _ _ htag
    split at h
    · rename_i b r hs
      have h2 := splitSub_split _ _ _ _ hs
      simp at h; obtain ⟨h3, h4⟩ := h; subst h3 h4
      simp [← h1, ← h2]
    · simp at h; obtain ⟨h3, h4⟩ := h; subst h3 h4; simp

theorem span_split (p : UInt8 → Bool) (l : Bytes) : (spanP p l).1 ++ (spanP p l).2 = l := by
  fun_induction spanP p l <;> simp_all +zetaDelta

theorem head?_tail (t : Bytes) (x : UInt8) (h : t.head? = some x) : x :: t.tail = t := by
  cases t with
  | nil => simp at h
  | cons a t => simp at h; simp [h]

theorem mTok_split (prev c : UInt8) (t : Bytes) : (mTok prev c t).1.bytes ++ (mTok prev c t).2 = c :: t := by
  unfold mTok
  split
  · split
    · simp [Seg.bytes]
    · split
      · rename_i hc0 hc _ tok rest hd
        have := dollarTok_split _ _ _ _ _ hd
        simp [Seg.bytes, this, hc0]
      · simp [Seg.bytes]
  split
  · rename_i h
    simp at h
    have := head?_tail t QUOTE h.1.2
    have h2 := lEBody_split t.tail
    simp [Seg.bytes, h2, this]
  split
  · simp only [Seg.bytes]; exact span_split _ _
  split
  · rename_i h
    have := head?_tail t STAR h.2
    have h2 := lBlock_split 1 t.tail
    simp [Seg.bytes, h2, this]
  split
  · simp [Seg.bytes, lBody_split]
  split
  · simp [Seg.bytes, lBody_split]
  · simp [Seg.bytes]

theorem sTok_split (c : UInt8) (t : Bytes) : (sTok c t).1.bytes ++ (sTok c t).2 = c :: t := by
  unfold sTok
  split
  · simp only [Seg.bytes]; exact span_split _ _
  · split
    · rename_i h
      have := head?_tail t STAR h.2
      have h2 := sBlock_split t.tail
      simp [Seg.bytes, h2, this]
    · simp [Seg.bytes]

theorem lTok_split (inId : Bool) (c : UInt8) (t : Bytes) :
    (lTok inId c t).1.bytes ++ (lTok inId c t).2.1 = c :: t := by
  unfold lTok
  split
  · simp [Seg.bytes]
  split
  · simp [Seg.bytes, lBody_split]
  split
  · simp [Seg.bytes, lBody_split]
  split
  · rename_i h
    simp at h
    have := head?_tail t QUOTE h.2
    have h2 := lEBody_split t.tail
    simp [Seg.bytes, h2, this]
  split
  · split
    · rename_i hc0 _ tok rest hd
      have := dollarTok_split _ _ _ _ _ hd
      simp [Seg.bytes, this, hc0]
    · simp [Seg.bytes]
  split
  · simp only [Seg.bytes]; exact span_split _ _
  split
  · rename_i h
    have := head?_tail t STAR h.2
    have h2 := lBlock_split 1 t.tail
    simp [Seg.bytes, h2, this]
  · simp [Seg.bytes]

theorem dollarTok_pos (st ct : UInt8 → Bool) (t tok rest : Bytes)
    (h : dollarTok st ct t = some (tok, rest)) : 1 ≤ tok.length := by
  unfold dollarTok at h
  split at h
  · simp at h
  · split at h <;> (simp at h; obtain ⟨h3, _⟩ := h; subst h3; simp)

theorem mTok_pos (prev c : UInt8) (t : Bytes) : 1 ≤ (mTok prev c t).1.bytes.length := by
  unfold mTok
  split
  · split
    · simp [Seg.bytes]
    · split
      · rename_i hd; simpa [Seg.bytes] using dollarTok_pos _ _ _ _ _ hd
      · simp [Seg.bytes]
  split
  · simp [Seg.bytes]
  split
  · rename_i h
    have : (fun b => b != NL && b != CR) c = true := by simp [h.1, DASH, NL, CR]
    simp [Seg.bytes, spanP, this]
  split
  · simp [Seg.bytes]
  split
  · simp [Seg.bytes]
  split <;> simp [Seg.bytes]

theorem sTok_pos (c : UInt8) (t : Bytes) : 1 ≤ (sTok c t).1.bytes.length := by
  unfold sTok
  split
  · rename_i h
    have : (fun b => b != NL) c = true := by simp [h.1, DASH, NL]
    simp [Seg.bytes, spanP, this]
  · split <;> simp [Seg.bytes]

theorem lTok_pos (inId : Bool) (c : UInt8) (t : Bytes) : 1 ≤ (lTok inId c t).1.bytes.length := by
  unfold lTok
  split
  · simp [Seg.bytes]
  split
  · simp [Seg.bytes]
  split
  · simp [Seg.bytes]
  split
  · simp [Seg.bytes]
  split
  · split
    · rename_i hd; simpa [Seg.bytes] using dollarTok_pos _ _ _ _ _ hd
    · simp [Seg.bytes]
  split
  · rename_i h
    have : (fun b => b != NL && b != CR) c = true := by simp [h.1, DASH, NL, CR]
    simp [Seg.bytes, spanP, this]
  split <;> simp [Seg.bytes]

theorem rest_le {a b : Bytes} {c : UInt8} {t : Bytes} (h : a ++ b = c :: t) (hp : 1 ≤ a.length) :
    b.length ≤ t.length := by
  have := congrArg List.length h
  simp at this; omega

theorem mTok_rest_le (prev c : UInt8) (t : Bytes) : (mTok prev c t).2.length ≤ t.length :=
  rest_le (mTok_split prev c t) (mTok_pos prev c t)
theorem sTok_rest_le (c : UInt8) (t : Bytes) : (sTok c t).2.length ≤ t.length :=
  rest_le (sTok_split c t) (sTok_pos c t)
theorem lTok_rest_le (inId : Bool) (c : UInt8) (t : Bytes) : (lTok inId c t).2.1.length ≤ t.length :=
  rest_le (lTok_split inId c t) (lTok_pos inId c t)

theorem mSegsF_bytes (f : Nat) : ∀ (prev : UInt8) (s : Bytes), s.length ≤ f → segBytes (mSegsF f prev s) = s := by
  induction f with
  | zero => intro prev s h; cases s <;> simp_all [mSegsF, segBytes]
  | succ f ih =>
    intro prev s h
    cases s with
    | nil => simp [mSegsF, segBytes]
    | cons c t =>
      have hl := mTok_rest_le prev c t
      simp only [mSegsF, segBytes, List.flatMap_cons]
      have := ih (lastOr c (mTok prev c t).1.bytes) (mTok prev c t).2 (by simp at h; omega)
      simp only [segBytes] at this
      rw [this]; exact mTok_split prev c t

theorem sSegsF_bytes (f : Nat) : ∀ (s : Bytes), s.length ≤ f → segBytes (sSegsF f s) = s := by
  induction f with
  | zero => intro s h; cases s <;> simp_all [sSegsF, segBytes]
  | succ f ih =>
    intro s h
    cases s with
    | nil => simp [sSegsF, segBytes]
    | cons c t =>
      have hl := sTok_rest_le c t
      simp only [sSegsF, segBytes, List.flatMap_cons]
      have := ih (sTok c t).2 (by simp at h; omega)
      simp only [segBytes] at this
      rw [this]; exact sTok_split c t

theorem lSegsF_bytes (f : Nat) : ∀ (inId : Bool) (s : Bytes), s.length ≤ f → segBytes (lSegsF f inId s) = s := by
  induction f with
  | zero => intro inId s h; cases s <;> simp_all [lSegsF, segBytes]
  | succ f ih =>
    intro inId s h
    cases s with
    | nil => simp [lSegsF, segBytes]
    | cons c t =>
      have hl := lTok_rest_le inId c t
      simp only [lSegsF, segBytes, List.flatMap_cons]
      have := ih (lTok inId c t).2.2 (lTok inId c t).2.1 (by simp at h; omega)
      simp only [segBytes] at this
      rw [this]; exact lTok_split inId c t

end Arc.C15
