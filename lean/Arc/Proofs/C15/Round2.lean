import Arc.Proofs.C15.Round
/-! C15: mask → unmask round trip, part 2: the single pass over the masked text. -/
namespace Arc.C15

/-- bytes of the leading un-masked segments (raw bytes and comments) -/
def fwd : List Seg → Bytes
  | [] => []
  | .str _ :: _ => []
  | .ident _ :: _ => []
  | sg :: r => sg.bytes ++ fwd r

theorem isPrefixOf_self_append' (p t : Bytes) : p.isPrefixOf (p ++ t) = true := by
  induction p with
  | nil => simp
  | cons a p ih => simp [List.isPrefixOf, ih]

theorem hasSub_append_right (pat x y : Bytes) (h : hasSub pat (x ++ y) = false) : hasSub pat y = false := by
  induction x with
  | nil => simpa using h
  | cons c x ih =>
    simp only [List.cons_append, hasSub, Bool.or_eq_false_iff] at h
    exact ih h.2

theorem isPrefixOf_append_mono (pat x y : Bytes) (h : pat.isPrefixOf x = true) :
    pat.isPrefixOf (x ++ y) = true := by
  induction pat generalizing x with
  | nil => simp
  | cons a pat ih =>
    cases x with
    | nil => simp at h
    | cons b x =>
      simp only [List.cons_append, List.isPrefixOf, Bool.and_eq_true] at h ⊢
      exact ⟨h.1, ih x h.2⟩

theorem hasSub_append_left (pat x y : Bytes) (hne : pat ≠ []) (h : hasSub pat (x ++ y) = false) :
    hasSub pat x = false := by
  induction x with
  | nil =>
    cases pat with
    | nil => exact absurd rfl hne
    | cons a p => simp [hasSub]
  | cons c x ih =>
    simp only [List.cons_append, hasSub, Bool.or_eq_false_iff] at h ⊢
    refine ⟨?_, ih h.2⟩
    cases hp : pat.isPrefixOf (c :: x) with
    | false => rfl
    | true =>
      have := isPrefixOf_append_mono pat (c :: x) y hp
      simp only [List.cons_append] at this
      rw [this] at h; simp at h

theorem runClean_append_right (x y : Bytes) (h : runClean (x ++ y) = true) : runClean y = true := by
  simp only [runClean, Bool.and_eq_true, Bool.not_eq_eq_eq_not, Bool.not_true] at h ⊢
  exact ⟨hasSub_append_right _ _ _ h.1, hasSub_append_right _ _ _ h.2⟩

theorem runClean_append_left (x y : Bytes) (h : runClean (x ++ y) = true) : runClean x = true := by
  simp only [runClean, Bool.and_eq_true, Bool.not_eq_eq_eq_not, Bool.not_true] at h ⊢
  exact ⟨hasSub_append_left _ _ _ (by decide) h.1, hasSub_append_left _ _ _ (by decide) h.2⟩

/-- `runsClean cur segs`: the current stretch (with what precedes it, `cur`) is clean and so is
everything after the next masked token. -/
theorem runsClean_fwd (segs : List Seg) : ∀ (cur : Bytes), runsClean cur segs = true →
    runClean (cur ++ fwd segs) = true := by
  induction segs with
  | nil => intro cur h; simpa [runsClean, fwd] using h
  | cons sg segs ih =>
    intro cur h
    cases sg with
    | str o => simp only [runsClean, Bool.and_eq_true] at h; simpa [fwd] using h.1
    | ident o => simp only [runsClean, Bool.and_eq_true] at h; simpa [fwd] using h.1
    | raw b => have := ih _ h; simpa [fwd, Seg.bytes] using this
    | lcom o => have := ih _ h; simpa [fwd, Seg.bytes] using this
    | bcom o => have := ih _ h; simpa [fwd, Seg.bytes] using this

theorem runsClean_mono (segs : List Seg) : ∀ (x cur : Bytes), runsClean (x ++ cur) segs = true →
    runsClean cur segs = true := by
  induction segs with
  | nil => intro x cur h; simp only [runsClean] at h ⊢; exact runClean_append_right _ _ h
  | cons sg segs ih =>
    intro x cur h
    cases sg with
    | str o => simp only [runsClean, Bool.and_eq_true] at h ⊢; exact ⟨runClean_append_right _ _ h.1, h.2⟩
    | ident o => simp only [runsClean, Bool.and_eq_true] at h ⊢; exact ⟨runClean_append_right _ _ h.1, h.2⟩
    | raw b => simp only [runsClean, List.append_assoc] at h ⊢; exact ih _ _ h
    | lcom o => simp only [runsClean, List.append_assoc] at h ⊢; exact ih _ _ h
    | bcom o => simp only [runsClean, List.append_assoc] at h ⊢; exact ih _ _ h

theorem runsClean_drop (segs : List Seg) (cur : Bytes) (h : runsClean cur segs = true) :
    runsClean [] segs = true := by
  have := runsClean_mono segs cur [] (by simpa using h)
  exact this

/-! ### the table of pending identifier placeholders -/

theorem lookup_mem_bb (l : List (Bytes × Bytes)) (t v : Bytes) (h : l.lookup t = some v) : (t, v) ∈ l := by
  induction l with
  | nil => simp [List.lookup] at h
  | cons e l ih =>
    obtain ⟨a, w⟩ := e
    by_cases ha : t = a
    · subst ha; simp [List.lookup] at h; simp [h]
    · have : (t == a) = false := by simpa using ha
      simp only [List.lookup, this] at h
      exact List.mem_cons_of_mem _ (ih h)

def ImOK (Mall : List Mask) (im : List (Bytes × Bytes)) : Prop :=
  ∀ e ∈ im, IsPh e.2 ∧ (⟨e.2, e.1, true⟩ : Mask) ∈ Mall

theorem isPh_tailOK (p rest : Bytes) (h : IsPh p) : TailOK (p ++ rest) := by
  obtain ⟨k, rfl | rfl⟩ := h
  · rw [phStr_eq]; exact Or.inr ⟨_, _, rfl⟩
  · rw [phIdent_eq]; exact Or.inr ⟨_, _, rfl⟩

theorem isPh_ne_nil (p : Bytes) (h : IsPh p) : p ≠ [] := by
  obtain ⟨k, rfl | rfl⟩ := h
  · rw [phStr_eq]; simp
  · rw [phIdent_eq]; simp

/-- masked text = leading un-masked bytes, then nothing or a placeholder -/
theorem render_shape (segs : List Seg) : ∀ (n : Nat) (im : List (Bytes × Bytes)),
    (∀ e ∈ im, IsPh e.2) → ∃ tail, (render n im segs).1 = fwd segs ++ tail ∧ TailOK tail := by
  induction segs with
  | nil => intro n im _; exact ⟨[], by simp [render, fwd], Or.inl rfl⟩
  | cons sg segs ih =>
    intro n im him
    cases sg with
    | raw b =>
      obtain ⟨tail, h1, h2⟩ := ih n im him
      exact ⟨tail, by simp [render, fwd, Seg.bytes, h1], h2⟩
    | lcom o =>
      obtain ⟨tail, h1, h2⟩ := ih n im him
      exact ⟨tail, by simp [render, fwd, Seg.bytes, h1], h2⟩
    | bcom o =>
      obtain ⟨tail, h1, h2⟩ := ih n im him
      exact ⟨tail, by simp [render, fwd, Seg.bytes, h1], h2⟩
    | str o => exact ⟨phStr n ++ (render (n + 1) im segs).1, by simp [render, fwd], isPh_tailOK _ _ ⟨n, Or.inl rfl⟩⟩
    | ident o =>
      simp only [render, fwd, List.nil_append]
      cases hl : im.lookup o with
      | some p => exact ⟨_, rfl, isPh_tailOK _ _ (him _ (lookup_mem_bb _ _ _ hl))⟩
      | none => exact ⟨_, rfl, isPh_tailOK _ _ ⟨n, Or.inr rfl⟩⟩

/-! ### one step of the single pass -/

theorem findMask_none (Mall : List Mask) (X : Bytes) (hsh : ∀ m ∈ Mall, IsPh m.ph)
    (hno : ∀ p, IsPh p → p.isPrefixOf X = false) : findMask X Mall = none := by
  induction Mall with
  | nil => rfl
  | cons m Mall ih =>
    have := hno m.ph (hsh m (by simp))
    simp only [findMask, this, Bool.and_false, Bool.false_eq_true, if_false]
    exact ih (fun m' hm' => hsh m' (by simp [hm']))

theorem findMask_hit (Mall : List Mask) (ph o rest : Bytes) (hph : IsPh ph)
    (hsh : ∀ m ∈ Mall, IsPh m.ph) (huniq : ∀ m ∈ Mall, m.ph = ph → m.orig = o)
    (hmem : ∃ m ∈ Mall, m.ph = ph) :
    ∃ m, findMask (ph ++ rest) Mall = some m ∧ m.ph = ph ∧ m.orig = o := by
  induction Mall with
  | nil => obtain ⟨m, hm, _⟩ := hmem; simp at hm
  | cons m0 Mall ih =>
    by_cases hp : m0.ph.isPrefixOf (ph ++ rest) = true
    · have heq := ph_prefix_free m0.ph ph rest (hsh m0 (by simp)) hph hp
      have hne : m0.ph.isEmpty = false := by
        have := isPh_ne_nil _ (hsh m0 (by simp)); cases h : m0.ph <;> simp_all
      exact ⟨m0, by simp [findMask, hp, hne], heq, huniq m0 (by simp) heq⟩
    · have hp' : m0.ph.isPrefixOf (ph ++ rest) = false := by
        cases h : m0.ph.isPrefixOf (ph ++ rest) with
        | false => rfl
        | true => exact absurd h hp
      simp only [findMask, hp', Bool.and_false, Bool.false_eq_true, if_false]
      apply ih (fun m' hm' => hsh m' (by simp [hm'])) (fun m' hm' => huniq m' (by simp [hm']))
      obtain ⟨m, hm, hmp⟩ := hmem
      simp at hm
      rcases hm with rfl | hm
      · rw [hmp, isPrefixOf_self_append'] at hp'; simp at hp'
      · exact ⟨m, hm, hmp⟩

/-- the pass copies a clean stretch of un-masked text byte by byte -/
theorem walk_clean (Mall : List Mask) (hsh : ∀ m ∈ Mall, IsPh m.ph) (P : Bytes) :
    ∀ (w0 tail : Bytes) (g : Nat), runClean (P ++ w0) = true → TailOK tail →
    unmaskF Mall (P.length + g) (P ++ (w0 ++ tail)) = P ++ unmaskF Mall g (w0 ++ tail) := by
  induction P with
  | nil => intro w0 tail g _ _; simp
  | cons x P ih =>
    intro w0 tail g hc ht
    have hnone : findMask (x :: (P ++ (w0 ++ tail))) Mall = none := by
      apply findMask_none Mall _ hsh
      intro p hp
      have := no_ph_in_clean p (x :: P ++ w0) tail hp (by simpa using hc) (by simp) ht
      simpa using this
    have hlen : (x :: P).length + g = (P.length + g) + 1 := by simp; omega
    rw [hlen]
    simp only [List.cons_append, unmaskF, hnone]
    rw [ih w0 tail g (runClean_append_right [x] _ (by simpa using hc)) ht]

theorem unmaskF_hit (Mall : List Mask) (m : Mask) (ph rest : Bytes) (g : Nat) (hne : ph ≠ [])
    (hf : findMask (ph ++ rest) Mall = some m) (hm : m.ph = ph) :
    unmaskF Mall (g + 1) (ph ++ rest) = m.orig ++ unmaskF Mall g rest := by
  cases ph with
  | nil => exact absurd rfl hne
  | cons c t =>
    simp only [List.cons_append] at hf ⊢
    simp only [unmaskF, hf, hm]
    have : (c :: (t ++ rest)).drop (c :: t).length = rest := by simp
    rw [this]

/-- the masks `render` emits carry placeholder numbers ≥ the current counter -/
theorem render_masks_idx (segs : List Seg) : ∀ (n : Nat) (im : List (Bytes × Bytes)),
    ∀ m ∈ (render n im segs).2, ∃ k, n ≤ k ∧ (m.ph = phStr k ∨ m.ph = phIdent k) := by
  induction segs with
  | nil => intro n im m h; simp [render] at h
  | cons sg segs ih =>
    intro n im m h
    cases sg with
    | raw b => exact ih n im m (by simpa [render] using h)
    | lcom o => exact ih n im m (by simpa [render] using h)
    | bcom o => exact ih n im m (by simpa [render] using h)
    | str o =>
      simp only [render, List.mem_cons] at h
      rcases h with rfl | h
      · exact ⟨n, Nat.le_refl _, Or.inl rfl⟩
      · obtain ⟨k, hk, hp⟩ := ih (n + 1) im m h; exact ⟨k, by omega, hp⟩
    | ident o =>
      simp only [render] at h
      cases hl : im.lookup o with
      | some p => rw [hl] at h; exact ih n im m h
      | none =>
        rw [hl] at h
        simp only [List.mem_cons] at h
        rcases h with rfl | h
        · exact ⟨n, Nat.le_refl _, Or.inr rfl⟩
        · obtain ⟨k, hk, hp⟩ := ih (n + 1) _ m h; exact ⟨k, by omega, hp⟩

theorem ph_idx_eq (a b : Nat) (p : Bytes) (ha : p = phStr a ∨ p = phIdent a) (hb : p = phStr b ∨ p = phIdent b) :
    a = b := by
  rcases ha with ha | ha <;> rcases hb with hb | hb
  · exact phStr_inj a b (ha.symm.trans hb)
  · exact absurd (ha.symm.trans hb) (phStr_ne_phIdent a b)
  · exact absurd (hb.symm.trans ha) (phStr_ne_phIdent b a)
  · exact phIdent_inj a b (ha.symm.trans hb)

/-- distinct masks have distinct placeholders -/
theorem render_masks_uniq (segs : List Seg) : ∀ (n : Nat) (im : List (Bytes × Bytes)),
    ∀ m ∈ (render n im segs).2, ∀ m' ∈ (render n im segs).2, m.ph = m'.ph → m.orig = m'.orig := by
  induction segs with
  | nil => intro n im m h; simp [render] at h
  | cons sg segs ih =>
    intro n im m h m' h' e
    have key : ∀ (m0 : Mask) (M : List Mask) (k0 : Nat), (m0.ph = phStr k0 ∨ m0.ph = phIdent k0) →
        (∀ x ∈ M, ∃ k, k0 + 1 ≤ k ∧ (x.ph = phStr k ∨ x.ph = phIdent k)) →
        (∀ x ∈ M, ∀ y ∈ M, x.ph = y.ph → x.orig = y.orig) →
        ∀ x ∈ m0 :: M, ∀ y ∈ m0 :: M, x.ph = y.ph → x.orig = y.orig := by
      intro m0 M k0 h0 hM hU x hx y hy exy
      simp only [List.mem_cons] at hx hy
      rcases hx with rfl | hx <;> rcases hy with rfl | hy
      · rfl
      · obtain ⟨k, hk, hp⟩ := hM y hy
        have := ph_idx_eq k0 k x.ph h0 (by rw [exy]; exact hp); omega
      · obtain ⟨k, hk, hp⟩ := hM x hx
        have := ph_idx_eq k0 k y.ph h0 (by rw [← exy]; exact hp); omega
      · exact hU x hx y hy exy
    cases sg with
    | raw b => exact ih n im m (by simpa [render] using h) m' (by simpa [render] using h') e
    | lcom o => exact ih n im m (by simpa [render] using h) m' (by simpa [render] using h') e
    | bcom o => exact ih n im m (by simpa [render] using h) m' (by simpa [render] using h') e
    | str o =>
      simp only [render] at h h'
      exact key _ _ n (Or.inl rfl) (render_masks_idx segs (n + 1) im) (ih (n + 1) im) m h m' h' e
    | ident o =>
      simp only [render] at h h'
      cases hl : im.lookup o with
      | some p => rw [hl] at h h'; exact ih n im m h m' h' e
      | none =>
        rw [hl] at h h'
        exact key _ _ n (Or.inr rfl) (render_masks_idx segs (n + 1) _) (ih (n + 1) _) m h m' h' e

/-- a placeholder token in the masked text is replaced by its original and skipped -/
theorem step_ph (Mall : List Mask) (hsh : ∀ m ∈ Mall, IsPh m.ph)
    (huniq : ∀ m ∈ Mall, ∀ m' ∈ Mall, m.ph = m'.ph → m.orig = m'.orig)
    (ph o rest : Bytes) (isId : Bool) (g : Nat) (hph : IsPh ph) (hmem : (⟨ph, o, isId⟩ : Mask) ∈ Mall) :
    unmaskF Mall (g + 1) (ph ++ rest) = o ++ unmaskF Mall g rest := by
  obtain ⟨m, hf, hm, ho⟩ := findMask_hit Mall ph o rest hph hsh
    (fun m hm hp => huniq m hm _ hmem hp) ⟨_, hmem, rfl⟩
  rw [unmaskF_hit Mall m ph rest g (isPh_ne_nil _ hph) hf hm, ho]

theorem copy_run (Mall : List Mask) (hsh : ∀ m ∈ Mall, IsPh m.ph) (P : Bytes) (segs : List Seg)
    (n : Nat) (im : List (Bytes × Bytes)) (him : ∀ e ∈ im, IsPh e.2) (g : Nat)
    (hc : runClean (P ++ fwd segs) = true) (hg : P.length ≤ g) :
    unmaskF Mall g (P ++ (render n im segs).1) = P ++ unmaskF Mall (g - P.length) (render n im segs).1 := by
  obtain ⟨tail, h1, h2⟩ := render_shape segs n im him
  have := walk_clean Mall hsh P (fwd segs) tail (g - P.length) hc h2
  rw [h1]
  have e : P.length + (g - P.length) = g := by omega
  rw [e] at this
  exact this

theorem roundtrip_gen (Mall : List Mask) (hsh : ∀ m ∈ Mall, IsPh m.ph)
    (huniq : ∀ m ∈ Mall, ∀ m' ∈ Mall, m.ph = m'.ph → m.orig = m'.orig) (segs : List Seg) :
    ∀ (n : Nat) (im : List (Bytes × Bytes)) (g : Nat), ImOK Mall im →
    (∀ m ∈ (render n im segs).2, m ∈ Mall) → runsClean [] segs = true →
    (render n im segs).1.length < g → unmaskF Mall g (render n im segs).1 = segBytes segs := by
  induction segs with
  | nil =>
    intro n im g _ _ _ hg
    cases g with
    | zero => simp at hg
    | succ g => simp [render, unmaskF, segBytes]
  | cons sg segs ih =>
    intro n im g him hM hc hg
    have him' : ∀ e ∈ im, IsPh e.2 := fun e he => (him e he).1
    have run : ∀ (o : Bytes), sg.bytes = o → (render n im (sg :: segs)) = (o ++ (render n im segs).1, (render n im segs).2) →
        fwd (sg :: segs) = o ++ fwd segs → runsClean o segs = true →
        unmaskF Mall g (render n im (sg :: segs)).1 = segBytes (sg :: segs) := by
      intro o hb hr hf hcl
      have hfw := runsClean_fwd (sg :: segs) [] hc
      rw [hf] at hfw
      rw [hr] at hg hM ⊢
      simp only [List.length_append] at hg
      rw [copy_run Mall hsh o segs n im him' g (by simpa using hfw) (by omega)]
      rw [ih n im (g - o.length) him hM (runsClean_drop segs o hcl) (by omega)]
      simp [segBytes, hb]
    cases sg with
    | raw b => exact run [b] rfl (by simp [render]) (by simp [fwd, Seg.bytes]) (by simpa [runsClean, Seg.bytes] using hc)
    | lcom o => exact run o rfl (by simp [render]) (by simp [fwd, Seg.bytes]) (by simpa [runsClean, Seg.bytes] using hc)
    | bcom o => exact run o rfl (by simp [render]) (by simp [fwd, Seg.bytes]) (by simpa [runsClean, Seg.bytes] using hc)
    | str o =>
      simp only [render] at hg hM ⊢
      simp only [runsClean, Bool.and_eq_true] at hc
      cases g with
      | zero => simp at hg
      | succ g =>
        have hpos : 1 ≤ (phStr n).length := by rw [phStr_eq]; simp
        rw [step_ph Mall hsh huniq (phStr n) o _ false g ⟨n, Or.inl rfl⟩ (hM _ (by simp))]
        rw [ih (n + 1) im g him (fun m hm => hM m (by simp [hm])) hc.2 (by simp at hg; omega)]
        simp [segBytes, Seg.bytes]
    | ident o =>
      simp only [render] at hg hM ⊢
      simp only [runsClean, Bool.and_eq_true] at hc
      cases g with
      | zero => simp at hg
      | succ g =>
        cases hl : im.lookup o with
        | some p =>
          simp only [hl] at hg hM ⊢
          have hmem := lookup_mem_bb _ _ _ hl
          have hpos : 1 ≤ p.length := by
            have := isPh_ne_nil p (him _ hmem).1
            cases p with
            | nil => exact absurd rfl this
            | cons a t => simp
          rw [step_ph Mall hsh huniq p o _ true g (him _ hmem).1 (him _ hmem).2]
          rw [ih n im g him hM hc.2 (by simp at hg; omega)]
          simp [segBytes, Seg.bytes]
        | none =>
          simp only [hl] at hg hM ⊢
          have hpos : 1 ≤ (phIdent n).length := by rw [phIdent_eq]; simp
          have hhead : (⟨phIdent n, o, true⟩ : Mask) ∈ Mall := hM _ (by simp)
          rw [step_ph Mall hsh huniq (phIdent n) o _ true g ⟨n, Or.inr rfl⟩ hhead]
          rw [ih (n + 1) _ g
            (by intro e he; simp at he; rcases he with rfl | he
                · exact ⟨⟨n, Or.inr rfl⟩, hhead⟩
                · exact him e he)
            (fun m hm => hM m (by simp [hm])) hc.2 (by simp at hg; omega)]
          simp [segBytes, Seg.bytes]

/-- **round trip**: if no placeholder look-alike fragment occurs outside the masked tokens, unmasking
the masked text returns the input. -/
theorem roundtrip_segs (segs : List Seg) (hc : runsClean [] segs = true) :
    unmask (render 0 [] segs).1 (render 0 [] segs).2 = segBytes segs := by
  unfold unmask
  apply roundtrip_gen (render 0 [] segs).2
  · intro m hm
    obtain ⟨k, _, hp⟩ := render_masks_idx segs 0 [] m hm
    exact ⟨k, hp⟩
  · exact render_masks_uniq segs 0 []
  · intro e he; simp at he
  · intro m hm; exact hm
  · exact hc
  · omega

end Arc.C15
