import Arc.Proofs.C15.Strip
/-! C15 helper lemmas: masker segments = SqlLex segments on `kClassM = 0` (tree at 64dff5c: the
masker's quote bodies, E-string bodies, dollar tags and block comments ARE SqlLex's; what is left is
the previous-byte test for `$` / `e'`; tree at 73763cd). -/
namespace Arc.C15

theorem isIdCont_not_quote (c : UInt8) (h : isIdCont c = true) : c ≠ QUOTE ∧ c ≠ DQUOTE := by
  constructor <;> (intro hc; subst hc; revert h; decide)

theorem isE_not_special (c : UInt8) (h : isE c = true) :
    c ≠ DOLLAR ∧ c ≠ QUOTE ∧ c ≠ DQUOTE ∧ c ≠ DASH ∧ c ≠ SLASH := by
  refine ⟨?_, ?_, ?_, ?_, ?_⟩ <;> (intro hc; subst hc; revert h; decide)

theorem dollarTok_l_none (t : Bytes) :
    dollarTok lTagStart lTagCont t = none ↔ tagScan lTagStart lTagCont true t = none := by
  unfold dollarTok
  constructor
  · intro h
    split at h
    · assumption
    · split at h <;> simp at h
  · intro h; simp [h]

theorem mTok_eq_lTok (inId : Bool) (prev c : UInt8) (t : Bytes) (hk0 : kTokM inId prev c t = 0) :
    mTok prev c t = ((lTok inId c t).1, (lTok inId c t).2.1) := by
  unfold kTokM at hk0
  by_cases h0 : (inId && isIdCont c) = true
  · rw [if_pos h0] at hk0
    have h0' := h0
    simp at h0'
    have hq := isIdCont_not_quote c h0'.2
    have hds := idCont_not_dash_slash c h0'.2
    have hd5 : ¬(c = DASH ∧ t.head? = some DASH) := fun h => hds.1 h.1
    have hd6 : ¬(c = SLASH ∧ t.head? = some STAR) := fun h => hds.2 h.1
    rw [lTok_id _ _ _ h0]
    unfold mTok
    by_cases hd : c = DOLLAR
    · rw [if_pos hd] at hk0 ⊢
      by_cases hp : isIdentByte prev = true
      · rw [if_pos hp]
      · rw [if_neg hp] at hk0; simp [kDollarInIdent] at hk0
    · rw [if_neg hd] at hk0 ⊢
      have he : ¬((isE c && decide (t.head? = some QUOTE) && !isIdentByte prev) = true) := by
        by_cases he : (isE c && decide (t.head? = some QUOTE)) = true
        · rw [if_pos he] at hk0
          by_cases hp : isIdentByte prev = true
          · simp [hp]
          · rw [if_neg hp] at hk0; simp [kEInIdent] at hk0
        · intro hh; apply he; simp at hh ⊢; exact hh.1
      rw [if_neg he, if_neg hd5, if_neg hd6, if_neg hq.1, if_neg hq.2]
  rw [if_neg h0] at hk0
  by_cases h1 : c = QUOTE
  · rw [lTok_q _ _ _ h0 h1]
    have hd : ¬c = DOLLAR := by rw [h1]; decide
    have he : ¬((isE c && decide (t.head? = some QUOTE) && !isIdentByte prev) = true) := by
      rw [h1]; simp [isE, QUOTE]
    have h5 : ¬(c = DASH ∧ t.head? = some DASH) := by rw [h1]; intro h; exact absurd h.1 (by decide)
    have h6 : ¬(c = SLASH ∧ t.head? = some STAR) := by rw [h1]; intro h; exact absurd h.1 (by decide)
    unfold mTok
    rw [if_neg hd, if_neg he, if_neg h5, if_neg h6, if_pos h1]
  rw [if_neg h1] at hk0
  by_cases h2 : c = DQUOTE
  · rw [lTok_dq _ _ _ h0 h1 h2]
    have hd : ¬c = DOLLAR := by rw [h2]; decide
    have he : ¬((isE c && decide (t.head? = some QUOTE) && !isIdentByte prev) = true) := by
      rw [h2]; simp [isE, DQUOTE]
    have h5 : ¬(c = DASH ∧ t.head? = some DASH) := by rw [h2]; intro h; exact absurd h.1 (by decide)
    have h6 : ¬(c = SLASH ∧ t.head? = some STAR) := by rw [h2]; intro h; exact absurd h.1 (by decide)
    unfold mTok
    rw [if_neg hd, if_neg he, if_neg h5, if_neg h6, if_neg h1, if_pos h2]
  rw [if_neg h2] at hk0
  by_cases h3 : (isE c && decide (t.head? = some QUOTE)) = true
  · rw [if_pos h3] at hk0
    have hp : ¬isIdentByte prev = true := by
      intro hp; rw [if_pos hp] at hk0; simp [kEAfterDigit] at hk0
    rw [lTok_e _ _ _ h0 h1 h2 h3]
    have h3' := h3
    simp at h3'
    have hd : ¬c = DOLLAR := (isE_not_special c h3'.1).1
    have he : (isE c && decide (t.head? = some QUOTE) && !isIdentByte prev) = true := by
      simp [h3'.1, h3'.2, hp]
    unfold mTok
    rw [if_neg hd, if_pos he]
  rw [if_neg h3] at hk0
  have he : ¬((isE c && decide (t.head? = some QUOTE) && !isIdentByte prev) = true) := by
    intro hh; apply h3; simp at hh ⊢; exact hh.1
  by_cases h4 : c = DOLLAR
  · rw [if_pos h4] at hk0
    rw [lTok_dollar _ _ _ h0 h1 h2 h3 h4]
    unfold mTok
    rw [if_pos h4]
    cases hts : tagScan lTagStart lTagCont true t with
    | none =>
      have hdn := (dollarTok_l_none t).2 hts
      rw [hdn]
      by_cases hp : isIdentByte prev = true
      · rw [if_pos hp]
      · rw [if_neg hp]
    | some r =>
      rw [hts] at hk0
      simp only at hk0
      have hp : ¬isIdentByte prev = true := by
        intro hp; rw [if_pos hp] at hk0; simp [kDollarAfterDigit] at hk0
      rw [if_neg hp]
      cases dollarTok lTagStart lTagCont t with
      | none => rfl
      | some x => rfl
  rw [if_neg h4] at hk0
  by_cases h5 : c = DASH ∧ t.head? = some DASH
  · rw [lTok_line _ _ _ h0 h1 h2 h3 h4 h5]
    unfold mTok
    rw [if_neg h4, if_neg he, if_pos h5]
  by_cases h6 : c = SLASH ∧ t.head? = some STAR
  · rw [lTok_block _ _ _ h0 h1 h2 h3 h4 h5 h6]
    unfold mTok
    rw [if_neg h4, if_neg he, if_neg h5, if_pos h6]
  · rw [lTok_other _ _ _ h0 h1 h2 h3 h4 h5 h6]
    unfold mTok
    rw [if_neg h4, if_neg he, if_neg h5, if_neg h6, if_neg h1, if_neg h2]

theorem mSegsF_eq_lSegsF (f : Nat) : ∀ (inId : Bool) (prev : UInt8) (s : Bytes), s.length ≤ f →
    kSegsMF f inId prev s = 0 → mSegsF f prev s = lSegsF f inId s := by
  induction f with
  | zero => intro inId prev s h _; cases s <;> simp [mSegsF, lSegsF]
  | succ f ih =>
    intro inId prev s h hk
    cases s with
    | nil => simp [mSegsF, lSegsF]
    | cons c t =>
      simp only [kSegsMF] at hk
      have hk0 : kTokM inId prev c t = 0 := by
        by_cases hk0 : kTokM inId prev c t = 0
        · exact hk0
        · simp [hk0] at hk
      simp only [hk0, ne_eq, not_true_eq_false, if_false] at hk
      have he := mTok_eq_lTok inId prev c t hk0
      have hl := lTok_rest_le inId c t
      simp only [mSegsF, lSegsF, he]
      rw [ih _ _ _ (by simp at h; omega) hk]

end Arc.C15
