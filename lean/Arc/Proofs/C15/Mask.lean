import Arc.Proofs.C15.Strip
/-! C15 helper lemmas: masker segments = SqlLex segments (comments forgotten) on `kClassM = 0`. -/
namespace Arc.C15

theorem lBody_head (q x : UInt8) (r : Bytes) : ∃ l, (lBody q (x :: r)).1 = x :: l := by
  cases r with
  | nil => exact ⟨[], by simp [lBody]⟩
  | cons y r =>
    unfold lBody
    split
    · split
      · exact ⟨_, rfl⟩
      · exact ⟨_, rfl⟩
    · exact ⟨_, rfl⟩

theorem lEBody_head (x : UInt8) (r : Bytes) : ∃ l, (lEBody (x :: r)).1 = x :: l := by
  cases r with
  | nil => exact ⟨[], by simp [lEBody]⟩
  | cons y r =>
    unfold lEBody
    split
    · exact ⟨_, rfl⟩
    · split
      · split
        · exact ⟨_, rfl⟩
        · exact ⟨_, rfl⟩
      · exact ⟨_, rfl⟩

theorem hasPair_head (a b x y : UInt8) (l : Bytes) (h : hasPair a b (x :: y :: l) = false) :
    ¬(x = a ∧ y = b) := by
  simp [hasPair] at h
  intro hh; exact absurd hh.2 (h.1 hh.1)

theorem mBody_eq_lBody (q : UInt8) (t : Bytes) : ∀ (pb : Bool), (pb = true → t.head? ≠ some q) →
    noBsQ q (lBody q t).1 = true → mBody q pb t = lBody q t := by
  fun_induction lBody q t
  · intro pb _ _; simp [mBody]
  · intro pb _ _; simp [mBody]
  · rename_i t2 r ih
    intro pb hpb hn
    simp only [noBsQ, Bool.not_eq_true', Bool.not_eq_eq_eq_not, Bool.not_true] at hn ih
    have hn2 := hasPair_tail _ _ _ _ (hasPair_tail _ _ _ _ hn)
    have := ih false (by simp) hn2
    simp only [mBody, if_true, this, r]
  · rename_i c2 t2 hc2
    intro pb hpb hn
    have : pb = false := by
      cases pb with
      | false => rfl
      | true => simp at hpb
    simp [mBody, hc2, this]
  · rename_i c c2 t2 hc r ih
    intro pb hpb hn
    simp only [noBsQ, Bool.not_eq_true', Bool.not_eq_eq_eq_not, Bool.not_true] at hn ih
    obtain ⟨l, hl⟩ := lBody_head q c2 t2
    have hn' := hasPair_tail _ _ _ _ hn
    have hpair : ¬(c = BSLASH ∧ c2 = q) := by
      simp only [r, hl] at hn; exact hasPair_head _ _ _ _ _ hn
    have := ih (decide (c = BSLASH)) (by
      intro hb; simp at hb; simp; intro h2; exact hpair ⟨hb, h2⟩) hn'
    simp only [mBody, hc, if_false, this, r]

theorem mBody_eq_lEBody (t : Bytes) : ∀ (pb : Bool), (pb = true → t.head? ≠ some QUOTE) →
    noBsQ QUOTE (lEBody t).1 = true → mBody QUOTE pb t = lEBody t := by
  fun_induction lEBody t
  · intro pb _ _; simp [mBody]
  · intro pb _ _; simp [mBody]
  · -- backslash: the lexer skips two bytes
    rename_i c2 t2 r ih
    intro pb hpb hn
    simp only [noBsQ, Bool.not_eq_eq_eq_not, Bool.not_true] at hn ih
    have hc2 : c2 ≠ QUOTE := by
      intro h; exact hasPair_head _ _ _ _ _ hn ⟨rfl, h⟩
    have hn2 := hasPair_tail _ _ _ _ (hasPair_tail _ _ _ _ hn)
    have hbq : ¬(BSLASH = QUOTE) := by decide
    cases t2 with
    | nil => simp [mBody, hbq, hc2, r, lEBody]
    | cons c3 t3 =>
      obtain ⟨l, hl⟩ := lEBody_head c3 t3
      have hpair : ¬(c2 = BSLASH ∧ c3 = QUOTE) := by
        have h1 := hasPair_tail _ _ _ _ hn
        simp only [r, hl] at h1; exact hasPair_head _ _ _ _ _ h1
      have := ih (decide (c2 = BSLASH)) (by
        intro hb; simp at hb; simp; intro h2; exact hpair ⟨hb, h2⟩) hn2
      simp only [mBody, hbq, hc2, if_false, this, r]
  · rename_i t2 r hbs ih
    intro pb hpb hn
    simp only [noBsQ, Bool.not_eq_eq_eq_not, Bool.not_true] at hn ih
    have hn2 := hasPair_tail _ _ _ _ (hasPair_tail _ _ _ _ hn)
    have := ih false (by simp) hn2
    simp only [mBody, if_true, this, r]
  · rename_i c2 t2 hc2 hbs
    intro pb hpb hn
    have : pb = false := by
      cases pb with
      | false => rfl
      | true => simp at hpb
    simp [mBody, hc2, this]
  · rename_i c c2 t2 hb hc r ih
    intro pb hpb hn
    simp only [noBsQ, Bool.not_eq_eq_eq_not, Bool.not_true] at hn ih
    have hn' := hasPair_tail _ _ _ _ hn
    have := ih (decide (c = BSLASH)) (by intro h; simp [hb] at h) hn'
    simp only [mBody, hc, if_false, this, r]

theorem mTag_of_lTag (first : Bool) (c : UInt8) (hh : isHigh c = false)
    (h : (if first = true then lTagStart c else lTagCont c) = true) :
    (if first = true then mTagStart c else mTagCont c) = true := by
  cases first <;> simp_all [lTagStart, lTagCont, mTagStart, mTagCont]

theorem lTag_of_mTag (first : Bool) (c : UInt8)
    (h : (if first = true then mTagStart c else mTagCont c) = true) :
    (if first = true then lTagStart c else lTagCont c) = true := by
  cases first <;> simp_all [lTagStart, lTagCont, mTagStart, mTagCont] <;> grind

theorem tagScan_m_of_l (first : Bool) (t : Bytes) : ∀ (tag body : Bytes),
    tagScan lTagStart lTagCont first t = some (tag, body) →
    tag.all (fun b => !isHigh b) = true →
    tagScan mTagStart mTagCont first t = some (tag, body) := by
  fun_induction tagScan lTagStart lTagCont first t
  · intro tag body h; simp at h
  · intro tag body h _; simpa [tagScan] using h
  · rename_i first c t hc hcond r hs ih
    intro tag body h ha
    simp at h
    obtain ⟨h1, h2⟩ := h
    subst h1 h2
    simp at ha
    have hm := mTag_of_lTag first c (by simpa using ha.1) hcond
    have := ih r.1 r.2 (by simpa using hs) (by simpa using ha.2)
    simp [tagScan, hc, hm, this]
  · intro tag body h; simp at h
  · intro tag body h; simp at h

theorem tagScan_m_none (first : Bool) (t : Bytes)
    (h : tagScan lTagStart lTagCont first t = none) : tagScan mTagStart mTagCont first t = none := by
  fun_induction tagScan mTagStart mTagCont first t
  · rfl
  · simp [tagScan] at h
  · rename_i first c t hc hcond r hs ih
    have hl := lTag_of_mTag first c hcond
    simp only [tagScan, hc, hl, if_false, if_true] at h
    cases hr : tagScan lTagStart lTagCont false t with
    | none => simp [ih hr] at hs
    | some x => simp [hr] at h
  · rfl
  · rfl

theorem dollarTok_l_none (t : Bytes) :
    dollarTok lTagStart lTagCont t = none ↔ tagScan lTagStart lTagCont true t = none := by
  unfold dollarTok
  constructor
  · intro h
    split at h
    · assumption
    · split at h <;> simp at h
  · intro h; simp [h]

theorem dollarTok_m_eq_l (t tag body : Bytes)
    (h : tagScan lTagStart lTagCont true t = some (tag, body))
    (ha : tag.all (fun b => !isHigh b) = true) :
    dollarTok mTagStart mTagCont t = dollarTok lTagStart lTagCont t := by
  have := tagScan_m_of_l true t tag body h ha
  simp only [dollarTok, h, this]

theorem dollarTok_m_none (t : Bytes) (h : tagScan lTagStart lTagCont true t = none) :
    dollarTok mTagStart mTagCont t = none := by
  simp [dollarTok, tagScan_m_none true t h]

theorem mSegsF_fuel (f : Nat) : ∀ (f' : Nat) (prev : UInt8) (s : Bytes), s.length ≤ f → s.length ≤ f' →
    mSegsF f prev s = mSegsF f' prev s := by
  induction f with
  | zero => intro f' prev s h _; cases s <;> simp_all [mSegsF]; cases f' <;> simp [mSegsF]
  | succ f ih =>
    intro f' prev s h h'
    cases s with
    | nil => cases f' <;> simp [mSegsF]
    | cons c t =>
      cases f' with
      | zero => simp at h'
      | succ f' =>
        have hl := mTok_rest_le prev c t
        simp only [mSegsF]
        rw [ih f' _ _ (by simp at h; omega) (by simp at h'; omega)]

theorem lastOr_cons_ne (a b x : UInt8) (o : Bytes) : lastOr a (x :: o) = lastOr b (x :: o) := by
  induction o generalizing x with
  | nil => simp [lastOr]
  | cons y o ih => simp [lastOr, ih y]

theorem lastOr_append (a : UInt8) (o : Bytes) (x : UInt8) : lastOr a (o ++ [x]) = x := by
  induction o with
  | nil => simp [lastOr]
  | cons y o ih =>
    cases o with
    | nil => simp [lastOr]
    | cons z o => simp only [List.cons_append, lastOr] at ih ⊢; exact ih

theorem mTok_raw_clean (prev c : UInt8) (t : Bytes)
    (hc : ((c != 39) = true ∧ (c != 34) = true) ∧ (c != 36) = true)
    (he : ¬(isE c = true ∧ t.head? = some QUOTE)) : mTok prev c t = (.raw c, t) := by
  simp at hc
  have h1 : ¬c = DOLLAR := hc.2
  have h2 : ¬c = QUOTE := hc.1.1
  have h3 : ¬c = DQUOTE := hc.1.2
  have h4 : ¬((isE c && decide (t.head? = some QUOTE) && !isIdentByte prev) = true) := by
    intro h; simp at h; exact he ⟨h.1.1, h.1.2⟩
  unfold mTok
  rw [if_neg h1, if_neg h4, if_neg h2, if_neg h3]

/-- The masker walks through the bytes of a comment that contains no quote/dollar one at a time. -/
theorem mSegsF_raw_run (o : Bytes) : ∀ (rest : Bytes) (prev : UInt8) (f : Nat),
    commentClean o = true → o.length + rest.length ≤ f →
    ¬(isE (lastOr 0 o) = true ∧ rest.head? = some QUOTE) →
    mSegsF f prev (o ++ rest) = o.map Seg.raw ++ mSegsF f (lastOr prev o) rest := by
  induction o with
  | nil => intro rest prev f _ _ _; simp [lastOr]
  | cons c o ih =>
    intro rest prev f hcl hf he
    simp only [commentClean, List.all_cons, Bool.and_eq_true] at hcl
    cases f with
    | zero => simp at hf
    | succ f =>
      have hraw : mTok prev c (o ++ rest) = (.raw c, o ++ rest) := by
        apply mTok_raw_clean _ _ _ hcl.1
        intro hh
        cases o with
        | nil => simp [lastOr] at he; simp at hh; exact he hh.1 hh.2
        | cons y o =>
          simp at hh
          simp only [List.all_cons, Bool.and_eq_true] at hcl
          have := hcl.2.1
          simp [hh.2, QUOTE] at this
      simp only [List.cons_append, mSegsF, hraw, Seg.bytes, lastOr, List.map_cons]
      cases o with
      | nil =>
        simp only [List.nil_append, List.map_nil, lastOr]
        rw [mSegsF_fuel f (f + 1) c rest (by simp at hf; omega) (by simp at hf; omega)]
      | cons y o =>
        have := ih rest c f (by simpa [commentClean] using hcl.2) (by simp at hf ⊢; omega)
          (by simpa [lastOr] using he)
        rw [this]
        simp only [List.map_cons, lastOr, List.cons_append]
        rw [mSegsF_fuel f (f + 1) _ rest (by simp at hf; omega) (by simp at hf; omega)]
        rw [lastOr_cons_ne c prev y o]

theorem spanP_rest_head (p : UInt8 → Bool) (l : Bytes) (x : UInt8)
    (h : (spanP p l).2.head? = some x) : p x = false := by
  fun_induction spanP p l
  · simp at h
  · rename_i c t hp r ih; exact ih h
  · rename_i c t hp; simp at h; subst h; simpa using hp

theorem lBlock_end (d : Nat) (u : Bytes) (h : (lBlock d u).2 ≠ []) :
    ∃ pre, (lBlock d u).1 = pre ++ [SLASH] := by
  fun_induction lBlock d u
  · simp at h
  · simp at h
  · rename_i d c c2 t2 hc hd
    exact ⟨[c], by simp [hc.2]⟩
  · rename_i d c c2 t2 hc hd r ih
    obtain ⟨pre, hp⟩ := ih h
    exact ⟨c :: c2 :: pre, by simp [r, hp]⟩
  · rename_i d c c2 t2 hc hs r ih
    obtain ⟨pre, hp⟩ := ih h
    exact ⟨c :: c2 :: pre, by simp [r, hp]⟩
  · rename_i d c c2 t2 hc hs r ih
    obtain ⟨pre, hp⟩ := ih h
    exact ⟨c :: pre, by simp [r, hp]⟩

theorem isIdCont_not_quote (c : UInt8) (h : isIdCont c = true) : c ≠ QUOTE ∧ c ≠ DQUOTE := by
  constructor <;> (intro hc; subst hc; revert h; decide)

theorem isE_not_special (c : UInt8) (h : isE c = true) : c ≠ DOLLAR ∧ c ≠ QUOTE ∧ c ≠ DQUOTE := by
  refine ⟨?_, ?_, ?_⟩ <;> (intro hc; subst hc; revert h; decide)

/-- the induction step when the lexer token is not a comment and the masker produces the same token -/
theorem step_same (f : Nat) (inId : Bool) (prev c : UInt8) (t : Bytes)
    (ih : ∀ (inId : Bool) (prev : UInt8) (s : Bytes), s.length ≤ f → kSegsMF f inId prev s = 0 →
      mSegsF f prev s = (lSegsF f inId s).flatMap demote)
    (hlen : t.length ≤ f)
    (he : mTok prev c t = ((lTok inId c t).1, (lTok inId c t).2.1))
    (hd : demote (lTok inId c t).1 = [(lTok inId c t).1])
    (hk : kSegsMF f (lTok inId c t).2.2 (lastOr c (lTok inId c t).1.bytes) (lTok inId c t).2.1 = 0) :
    mSegsF (f + 1) prev (c :: t) = (lSegsF (f + 1) inId (c :: t)).flatMap demote := by
  have hl := lTok_rest_le inId c t
  simp only [mSegsF, lSegsF, he, List.flatMap_cons, hd]
  rw [ih _ _ _ (by omega) hk]
  rfl

/-- the induction step when the lexer token is a comment `o` without quote/dollar bytes -/
theorem step_comment (f : Nat) (inId : Bool) (prev c : UInt8) (t o : Bytes) (sg : Seg)
    (ih : ∀ (inId : Bool) (prev : UInt8) (s : Bytes), s.length ≤ f → kSegsMF f inId prev s = 0 →
      mSegsF f prev s = (lSegsF f inId s).flatMap demote)
    (hlen : t.length ≤ f)
    (hsg : (lTok inId c t).1 = sg) (hb : sg.bytes = o) (hd : demote sg = o.map Seg.raw)
    (hcl : commentClean o = true)
    (he : ¬(isE (lastOr 0 o) = true ∧ (lTok inId c t).2.1.head? = some QUOTE))
    (hk : kSegsMF f (lTok inId c t).2.2 (lastOr c (lTok inId c t).1.bytes) (lTok inId c t).2.1 = 0) :
    mSegsF (f + 1) prev (c :: t) = (lSegsF (f + 1) inId (c :: t)).flatMap demote := by
  have hl := lTok_rest_le inId c t
  have hsp := lTok_split inId c t
  have hpos := lTok_pos inId c t
  rw [hsg, hb] at hsp hpos
  rw [hsg, hb] at hk
  have hlen2 : o.length + (lTok inId c t).2.1.length ≤ f + 1 := by
    have := congrArg List.length hsp; simp at this; omega
  have hL : mSegsF (f + 1) prev (c :: t) =
      o.map Seg.raw ++ mSegsF (f + 1) (lastOr prev o) (lTok inId c t).2.1 := by
    rw [← hsp]; exact mSegsF_raw_run o _ prev (f + 1) hcl hlen2 he
  rw [hL]
  simp only [lSegsF, List.flatMap_cons, hsg, hd]
  congr 1
  cases o with
  | nil => simp at hpos
  | cons x o =>
    rw [lastOr_cons_ne prev c x o, mSegsF_fuel (f + 1) f _ _ (by omega) (by omega)]
    exact ih _ _ _ (by omega) hk

theorem mSegsF_eq_lSegsF (f : Nat) : ∀ (inId : Bool) (prev : UInt8) (s : Bytes), s.length ≤ f →
    kSegsMF f inId prev s = 0 → mSegsF f prev s = (lSegsF f inId s).flatMap demote := by
  induction f with
  | zero => intro inId prev s h _; cases s <;> simp [mSegsF, lSegsF]
  | succ f ih =>
    intro inId prev s h hk
    cases s with
    | nil => simp [mSegsF, lSegsF]
    | cons c t =>
      have hlen : t.length ≤ f := by simp at h; omega
      simp only [kSegsMF] at hk
      have hk0 : kTokM inId prev c t = 0 := by
        by_cases hk0 : kTokM inId prev c t = 0
        · exact hk0
        · simp [hk0] at hk
      simp only [hk0, ne_eq, not_true_eq_false, if_false] at hk
      unfold kTokM at hk0
      by_cases h0 : (inId && isIdCont c) = true
      · -- identifier byte
        rw [if_pos h0] at hk0
        have h0' := h0
        simp at h0'
        have hq := isIdCont_not_quote c h0'.2
        apply step_same f inId prev c t ih hlen _ _ hk
        · rw [lTok_id _ _ _ h0]
          unfold mTok
          by_cases hd : c = DOLLAR
          · rw [if_pos hd] at hk0 ⊢
            by_cases hp : isIdentByte prev = true
            · rw [if_pos hp]
            · rw [if_neg hp] at hk0; simp [kDollarInIdent] at hk0
          · rw [if_neg hd] at hk0 ⊢
            by_cases he : (isE c && decide (t.head? = some QUOTE)) = true
            · rw [if_pos he] at hk0
              by_cases hp : isIdentByte prev = true
              · have : ¬((isE c && decide (t.head? = some QUOTE) && !isIdentByte prev) = true) := by simp [hp]
                rw [if_neg this, if_neg hq.1, if_neg hq.2]
              · rw [if_neg hp] at hk0; simp [kEInIdent] at hk0
            · have : ¬((isE c && decide (t.head? = some QUOTE) && !isIdentByte prev) = true) := by
                intro hh; apply he; simp at hh ⊢; exact hh.1
              rw [if_neg this, if_neg hq.1, if_neg hq.2]
        · rw [lTok_id _ _ _ h0]; rfl
      rw [if_neg h0] at hk0
      by_cases h1 : c = QUOTE
      · rw [if_pos h1] at hk0
        have hn : noBsQ QUOTE (lBody QUOTE t).1 = true := by
          by_cases hh : noBsQ QUOTE (lBody QUOTE t).1 = true
          · exact hh
          · rw [if_neg hh] at hk0; simp [kPlainBs] at hk0
        apply step_same f inId prev c t ih hlen _ _ hk
        · rw [lTok_q _ _ _ h0 h1]
          have hd : ¬c = DOLLAR := by rw [h1]; decide
          have he : ¬((isE c && decide (t.head? = some QUOTE) && !isIdentByte prev) = true) := by
            rw [h1]; simp [isE, QUOTE]
          unfold mTok
          rw [if_neg hd, if_neg he, if_pos h1, mBody_eq_lBody QUOTE t false (by simp) hn]
        · rw [lTok_q _ _ _ h0 h1]; rfl
      rw [if_neg h1] at hk0
      by_cases h2 : c = DQUOTE
      · rw [if_pos h2] at hk0
        have hn : noBsQ DQUOTE (lBody DQUOTE t).1 = true := by
          by_cases hh : noBsQ DQUOTE (lBody DQUOTE t).1 = true
          · exact hh
          · rw [if_neg hh] at hk0; simp [kIdentBs] at hk0
        apply step_same f inId prev c t ih hlen _ _ hk
        · rw [lTok_dq _ _ _ h0 h1 h2]
          have hd : ¬c = DOLLAR := by rw [h2]; decide
          have he : ¬((isE c && decide (t.head? = some QUOTE) && !isIdentByte prev) = true) := by
            rw [h2]; simp [isE, DQUOTE]
          unfold mTok
          rw [if_neg hd, if_neg he, if_neg h1, if_pos h2, mBody_eq_lBody DQUOTE t false (by simp) hn]
        · rw [lTok_dq _ _ _ h0 h1 h2]; rfl
      rw [if_neg h2] at hk0
      by_cases h3 : (isE c && decide (t.head? = some QUOTE)) = true
      · rw [if_pos h3] at hk0
        by_cases hp : isIdentByte prev = true
        · rw [if_pos hp] at hk0; simp [kEAfterDigit] at hk0
        rw [if_neg hp] at hk0
        have hn : noBsQ QUOTE (lEBody t.tail).1 = true := by
          by_cases hh : noBsQ QUOTE (lEBody t.tail).1 = true
          · exact hh
          · rw [if_neg hh] at hk0; simp [kEBs] at hk0
        apply step_same f inId prev c t ih hlen _ _ hk
        · rw [lTok_e _ _ _ h0 h1 h2 h3]
          have h3' := h3
          simp at h3'
          have hd : ¬c = DOLLAR := (isE_not_special c h3'.1).1
          have he : (isE c && decide (t.head? = some QUOTE) && !isIdentByte prev) = true := by
            simp [h3'.1, h3'.2, hp]
          unfold mTok
          rw [if_neg hd, if_pos he, mBody_eq_lEBody t.tail false (by simp) hn]
        · rw [lTok_e _ _ _ h0 h1 h2 h3]; rfl
      rw [if_neg h3] at hk0
      have he : ¬((isE c && decide (t.head? = some QUOTE) && !isIdentByte prev) = true) := by
        intro hh; apply h3; simp at hh ⊢; exact hh.1
      by_cases h4 : c = DOLLAR
      · rw [if_pos h4] at hk0
        cases hts : tagScan lTagStart lTagCont true t with
        | none =>
          have hdn := (dollarTok_l_none t).2 hts
          apply step_same f inId prev c t ih hlen _ _ hk
          · rw [lTok_dollar _ _ _ h0 h1 h2 h3 h4, hdn]
            unfold mTok
            rw [if_pos h4]
            by_cases hp : isIdentByte prev = true
            · rw [if_pos hp]
            · rw [if_neg hp, dollarTok_m_none t hts]
          · rw [lTok_dollar _ _ _ h0 h1 h2 h3 h4, hdn]; rfl
        | some r =>
          obtain ⟨tag, body⟩ := r
          rw [hts] at hk0
          simp only at hk0
          by_cases hp : isIdentByte prev = true
          · rw [if_pos hp] at hk0; simp [kDollarAfterDigit] at hk0
          rw [if_neg hp] at hk0
          have ha : tag.all (fun b => !isHigh b) = true := by
            by_cases hh : tag.all (fun b => !isHigh b) = true
            · exact hh
            · rw [if_neg hh] at hk0; simp [kDollarTagHigh] at hk0
          have hme := dollarTok_m_eq_l t tag body hts ha
          apply step_same f inId prev c t ih hlen _ _ hk
          · rw [lTok_dollar _ _ _ h0 h1 h2 h3 h4]
            unfold mTok
            rw [if_pos h4, if_neg hp, hme]
            cases dollarTok lTagStart lTagCont t with
            | none => rfl
            | some x => rfl
          · rw [lTok_dollar _ _ _ h0 h1 h2 h3 h4]
            cases dollarTok lTagStart lTagCont t with
            | none => rfl
            | some x => rfl
      rw [if_neg h4] at hk0
      by_cases h5 : c = DASH ∧ t.head? = some DASH
      · rw [if_pos h5] at hk0
        have hcl : commentClean (spanP (fun b => b != NL && b != CR) (c :: t)).1 = true := by
          by_cases hh : commentClean (spanP (fun b => b != NL && b != CR) (c :: t)).1 = true
          · exact hh
          · rw [if_neg hh] at hk0; simp [kQuoteInLine] at hk0
        have hlt := lTok_line _ _ _ h0 h1 h2 h3 h4 h5
        apply step_comment f inId prev c t (spanP (fun b => b != NL && b != CR) (c :: t)).1
          (.lcom (spanP (fun b => b != NL && b != CR) (c :: t)).1) ih hlen (by rw [hlt]) rfl rfl hcl _ hk
        rw [hlt]
        intro hh
        have := spanP_rest_head _ _ _ hh.2
        simp [QUOTE, NL, CR] at this
      rw [if_neg h5] at hk0
      by_cases h6 : c = SLASH ∧ t.head? = some STAR
      · rw [if_pos h6] at hk0
        have hcl : commentClean (lBlock 1 t.tail).1 = true := by
          by_cases hh : commentClean (lBlock 1 t.tail).1 = true
          · exact hh
          · rw [if_neg hh] at hk0; simp [kQuoteInBlock] at hk0
        have hlt := lTok_block _ _ _ h0 h1 h2 h3 h4 h5 h6
        have hcl2 : commentClean (c :: STAR :: (lBlock 1 t.tail).1) = true := by
          simp only [commentClean, List.all_cons, Bool.and_eq_true] at hcl ⊢
          refine ⟨?_, ?_, hcl⟩
          · rw [h6.1]; decide
          · decide
        apply step_comment f inId prev c t (c :: STAR :: (lBlock 1 t.tail).1)
          (.bcom (c :: STAR :: (lBlock 1 t.tail).1)) ih hlen (by rw [hlt]) rfl rfl hcl2 _ hk
        rw [hlt]
        intro hh
        have hne : (lBlock 1 t.tail).2 ≠ [] := by
          intro h'; simp [h'] at hh
        obtain ⟨pre, hpre⟩ := lBlock_end 1 t.tail hne
        have : lastOr 0 (c :: STAR :: (lBlock 1 t.tail).1) = SLASH := by
          simp only [hpre]
          have := lastOr_append 0 (c :: STAR :: pre) SLASH
          simpa using this
        rw [this] at hh
        simp [isE, SLASH] at hh
      · apply step_same f inId prev c t ih hlen _ _ hk
        · rw [lTok_other _ _ _ h0 h1 h2 h3 h4 h5 h6]
          unfold mTok
          rw [if_neg h4, if_neg he, if_neg h1, if_neg h2]
        · rw [lTok_other _ _ _ h0 h1 h2 h3 h4 h5 h6]; rfl

end Arc.C15
