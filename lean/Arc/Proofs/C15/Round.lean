import Arc.Proofs.C15.Strip
/-! C15 helper lemmas: mask → unmask round trip for the single-pass `UnmaskStringLiterals`
(strings.NewReplacer). Part 1: decimal digits and placeholder shapes. -/
namespace Arc.C15

/-! ### digits -/
theorem digit_byte (c : Char) (h : c.isDigit = true) :
    48 ≤ c.toNat ∧ c.toNat ≤ 57 := by
  simp [Char.isDigit] at h
  have h1 : (48 : UInt32) ≤ c.val := h.1
  have h2 : c.val ≤ (57 : UInt32) := h.2
  simp only [Char.toNat]
  constructor
  · exact UInt32.le_iff_toNat_le.mp h1
  · exact UInt32.le_iff_toNat_le.mp h2

theorem dec_mem (n : Nat) (x : UInt8) (h : x ∈ dec n) : 48 ≤ x.toNat ∧ x.toNat ≤ 57 := by
  simp only [dec, List.mem_map] at h
  obtain ⟨c, hc, rfl⟩ := h
  have := digit_byte c (Nat.isDigit_of_mem_toDigits (by decide) (by decide) hc)
  have hlt : c.toNat < 256 := by omega
  simp [Nat.toUInt8, UInt8.toNat_ofNat', Nat.mod_eq_of_lt hlt]
  exact this

theorem dec_ne95 (n : Nat) (x : UInt8) (h : x ∈ dec n) : x ≠ 95 := by
  intro hx; subst hx
  have := dec_mem n 95 h
  simp at this

theorem dec_ne_nil (n : Nat) : dec n ≠ [] := by
  simp [dec, Nat.toDigits_ne_nil]

theorem digit_char_inj (c c' : Char) (h : c.isDigit = true) (h' : c'.isDigit = true)
    (e : c.toNat.toUInt8 = c'.toNat.toUInt8) : c = c' := by
  have d := digit_byte c h
  have d' := digit_byte c' h'
  have e2 := congrArg UInt8.toNat e
  simp [Nat.toUInt8, UInt8.toNat_ofNat', Nat.mod_eq_of_lt (show c.toNat < 256 by omega),
    Nat.mod_eq_of_lt (show c'.toNat < 256 by omega)] at e2
  apply Char.ext
  simp only [Char.toNat] at e2
  exact UInt32.toNat_inj.mp e2

theorem map_digit_inj : ∀ (l l' : List Char), (∀ c ∈ l, c.isDigit = true) → (∀ c ∈ l', c.isDigit = true) →
    l.map (fun c => c.toNat.toUInt8) = l'.map (fun c => c.toNat.toUInt8) → l = l'
  | [], [], _, _, _ => rfl
  | [], _ :: _, _, _, e => by simp at e
  | _ :: _, [], _, _, e => by simp at e
  | a :: l, b :: l', h, h', e => by
    simp only [List.map_cons, List.cons.injEq] at e
    have := digit_char_inj a b (h a (by simp)) (h' b (by simp)) e.1
    rw [this, map_digit_inj l l' (fun c hc => h c (by simp [hc])) (fun c hc => h' c (by simp [hc])) e.2]

theorem dec_inj (k n : Nat) (h : dec k = dec n) : k = n := by
  have hk : ∀ c ∈ Nat.toDigits 10 k, c.isDigit = true :=
    fun c hc => Nat.isDigit_of_mem_toDigits (by decide) (by decide) hc
  have hn : ∀ c ∈ Nat.toDigits 10 n, c.isDigit = true :=
    fun c hc => Nat.isDigit_of_mem_toDigits (by decide) (by decide) hc
  have := map_digit_inj _ _ hk hn h
  have e := congrArg (fun l => Nat.ofDigitChars 10 l 0) this
  simpa [Nat.ofDigitChars_ten_toDigits] using e

/-! ### placeholder shapes -/

/-- `p` is the text of some placeholder. -/
def IsPh (p : Bytes) : Prop := ∃ k, p = phStr k ∨ p = phIdent k

/-- digit strings followed by `__` are prefix-free -/
theorem digits_prefix_free : ∀ (a b rest : Bytes), (∀ x ∈ a, x ≠ 95) → (∀ x ∈ b, x ≠ 95) →
    (a ++ [95, 95]).isPrefixOf (b ++ [95, 95] ++ rest) = true → a = b
  | [], [], _, _, _, _ => rfl
  | [], x :: b, rest, _, hb, h => by
    simp [List.isPrefixOf] at h
    exact absurd h.1.symm (hb x (by simp))
  | x :: a, [], rest, ha, _, h => by
    simp [List.isPrefixOf] at h
    exact absurd h.1 (ha x (by simp))
  | x :: a, y :: b, rest, ha, hb, h => by
    simp only [List.cons_append, List.isPrefixOf, Bool.and_eq_true, beq_iff_eq] at h
    rw [h.1, digits_prefix_free a b rest (fun z hz => ha z (by simp [hz])) (fun z hz => hb z (by simp [hz])) h.2]

theorem phStr_eq (n : Nat) : phStr n = 95 :: 95 :: 83 :: 84 :: 82 :: 95 :: (dec n ++ [95, 95]) := by
  simp [phStr, pfxStr]
theorem phIdent_eq (n : Nat) :
    phIdent n = 95 :: 95 :: 73 :: 68 :: 69 :: 78 :: 84 :: 95 :: (dec n ++ [95, 95]) := by
  simp [phIdent, pfxIdent]

/-- no placeholder is a proper prefix of another one followed by anything -/
theorem ph_prefix_free (p q rest : Bytes) (hp : IsPh p) (hq : IsPh q)
    (h : p.isPrefixOf (q ++ rest) = true) : p = q := by
  obtain ⟨k, hk⟩ := hp
  obtain ⟨n, hn⟩ := hq
  rcases hk with rfl | rfl <;> rcases hn with rfl | rfl
  · rw [phStr_eq, phStr_eq] at h ⊢
    simp only [List.cons_append, List.isPrefixOf, beq_self_eq_true, Bool.true_and] at h
    have := digits_prefix_free (dec k) (dec n) rest (dec_ne95 k) (dec_ne95 n) (by simpa using h)
    rw [this]
  · rw [phStr_eq, phIdent_eq] at h
    simp [List.isPrefixOf] at h
  · rw [phIdent_eq, phStr_eq] at h
    simp [List.isPrefixOf] at h
  · rw [phIdent_eq, phIdent_eq] at h ⊢
    simp only [List.cons_append, List.isPrefixOf, beq_self_eq_true, Bool.true_and] at h
    have := digits_prefix_free (dec k) (dec n) rest (dec_ne95 k) (dec_ne95 n) (by simpa using h)
    rw [this]

theorem phStr_inj (k n : Nat) (h : phStr k = phStr n) : k = n := by
  rw [phStr_eq, phStr_eq] at h
  simp at h
  exact dec_inj k n h
theorem phIdent_inj (k n : Nat) (h : phIdent k = phIdent n) : k = n := by
  rw [phIdent_eq, phIdent_eq] at h
  simp at h
  exact dec_inj k n h
theorem phStr_ne_phIdent (k n : Nat) : phStr k ≠ phIdent n := by
  rw [phStr_eq, phIdent_eq]; simp

/-! ### no placeholder starts inside clean text -/

/-- what follows a stretch of un-masked text in the masked query: nothing, or a placeholder -/
def TailOK (tail : Bytes) : Prop := tail = [] ∨ ∃ x r, tail = 95 :: 95 :: x :: r

theorem no_str (w tail more : Bytes) (d : UInt8) (hd : d ≠ 95) (hc : hasSub mkSTR w = false)
    (hw : w ≠ []) (ht : TailOK tail) :
    (95 :: 95 :: 83 :: 84 :: 82 :: 95 :: d :: more).isPrefixOf (w ++ tail) = false := by
  rcases ht with rfl | ⟨x, r, rfl⟩ <;>
  rcases w with _ | ⟨a1, _ | ⟨a2, _ | ⟨a3, _ | ⟨a4, _ | ⟨a5, _ | ⟨a6, _ | ⟨a7, w⟩⟩⟩⟩⟩⟩⟩ <;>
  simp_all [List.isPrefixOf, hasSub, mkSTR] <;> (intros; subst_vars; simp_all)

theorem no_ident (w tail more : Bytes) (d : UInt8) (hd : d ≠ 95) (hc : hasSub mkIDENT w = false)
    (hw : w ≠ []) (ht : TailOK tail) :
    (95 :: 95 :: 73 :: 68 :: 69 :: 78 :: 84 :: 95 :: d :: more).isPrefixOf (w ++ tail) = false := by
  rcases ht with rfl | ⟨x, r, rfl⟩ <;>
  rcases w with _ | ⟨a1, _ | ⟨a2, _ | ⟨a3, _ | ⟨a4, _ | ⟨a5, _ | ⟨a6, _ | ⟨a7, _ | ⟨a8, _ | ⟨a9, w⟩⟩⟩⟩⟩⟩⟩⟩⟩ <;>
  simp_all [List.isPrefixOf, hasSub, mkIDENT] <;> (intros; subst_vars; simp_all)

theorem dec_head (n : Nat) : ∃ d more, dec n = d :: more ∧ d ≠ 95 := by
  cases h : dec n with
  | nil => exact absurd h (dec_ne_nil n)
  | cons d more => exact ⟨d, more, rfl, dec_ne95 n d (by simp [h])⟩

/-- No placeholder text starts at a byte of a clean stretch `w` of un-masked text. -/
theorem no_ph_in_clean (p w tail : Bytes) (hp : IsPh p) (hc : runClean w = true) (hw : w ≠ [])
    (ht : TailOK tail) : p.isPrefixOf (w ++ tail) = false := by
  simp only [runClean, Bool.and_eq_true, Bool.not_eq_eq_eq_not, Bool.not_true] at hc
  obtain ⟨k, rfl | rfl⟩ := hp
  · obtain ⟨d, more, hd, hne⟩ := dec_head k
    rw [phStr_eq, hd]
    exact no_str w tail _ d hne hc.1 hw ht
  · obtain ⟨d, more, hd, hne⟩ := dec_head k
    rw [phIdent_eq, hd]
    exact no_ident w tail _ d hne hc.2 hw ht

end Arc.C15
