import Arc.Proofs.C15.Strip
/-! C15 helper lemmas: mask → unmask round trip when no quoted identifier is masked and the text has
no two consecutive underscores. -/
namespace Arc.C15

theorem isPrefixOf_self_append (p t : Bytes) : p.isPrefixOf (p ++ t) = true := by
  induction p with
  | nil => simp
  | cons a p ih => simp [List.isPrefixOf, ih]

theorem drop_self_append (p t : Bytes) : (p ++ t).drop p.length = t := by simp

theorem hasPair_append_left (a b : UInt8) (x y : Bytes) (h : hasPair a b (x ++ y) = false) :
    hasPair a b x = false := by
  induction x with
  | nil => simp [hasPair]
  | cons c x ih =>
    cases x with
    | nil => simp [hasPair]
    | cons d x =>
      simp only [List.cons_append, hasPair, Bool.or_eq_false_iff] at h ⊢
      exact ⟨h.1, ih h.2⟩

theorem phStr_shape (n : Nat) : ∃ r, phStr n = 95 :: 95 :: 83 :: r := by
  simp [phStr, pfxStr]

/-- `strings.Replace(P ++ ph ++ T, ph, o, 1)` hits the placeholder when `P` has no `__`. -/
theorem replaceFirst_hit (r o P T : Bytes) (hP : hasPair 95 95 P = false) :
    replaceFirst (95 :: 95 :: 83 :: r) o (P ++ (95 :: 95 :: 83 :: r) ++ T) = P ++ o ++ T := by
  induction P with
  | nil =>
    have h1 := isPrefixOf_self_append (95 :: 95 :: 83 :: r) T
    simp only [List.nil_append, List.cons_append] at h1 ⊢
    rw [replaceFirst, if_pos h1]
    simp
  | cons x P ih =>
    have hne : (95 :: 95 :: 83 :: r).isPrefixOf (x :: P ++ (95 :: 95 :: 83 :: r) ++ T) = false := by
      cases P with
      | nil =>
        simp [List.isPrefixOf]
      | cons y P =>
        simp only [hasPair, Bool.or_eq_false_iff, Bool.and_eq_false_imp, beq_iff_eq] at hP
        simp only [List.cons_append, List.isPrefixOf, Bool.and_eq_false_imp, beq_iff_eq]
        intro hx hy
        have := hP.1 hx.symm
        simp [hy] at this
    have hP' := hasPair_tail _ _ _ _ hP
    simp only [List.cons_append] at hne ⊢
    rw [replaceFirst, hne]
    simp only [Bool.false_eq_true, if_false]
    have := ih hP'
    simp only [List.cons_append, List.append_assoc] at this ⊢
    rw [this]

def noIdentSeg : Seg → Bool
  | .ident _ => false
  | _ => true

theorem roundtrip_gen (segs : List Seg) : ∀ (n : Nat) (im : List (Bytes × Bytes)) (P : Bytes),
    segs.all noIdentSeg = true → hasPair 95 95 (P ++ segBytes segs) = false →
    unmask (P ++ (render n im segs).1) (render n im segs).2 = P ++ segBytes segs := by
  induction segs with
  | nil => intro n im P _ _; simp [render, unmask, segBytes]
  | cons sg segs ih =>
    intro n im P hni hp
    simp only [List.all_cons, Bool.and_eq_true] at hni
    cases sg with
    | raw b =>
      have := ih n im (P ++ [b]) hni.2 (by simpa [segBytes, Seg.bytes] using hp)
      simpa [render, segBytes, Seg.bytes] using this
    | str o =>
      obtain ⟨r, hr⟩ := phStr_shape n
      have hP : hasPair 95 95 P = false := hasPair_append_left _ _ _ _ hp
      have h1 : replaceFirst (phStr n) o (P ++ phStr n ++ (render (n + 1) im segs).1)
          = P ++ o ++ (render (n + 1) im segs).1 := by
        rw [hr]; exact replaceFirst_hit r o P _ hP
      have := ih (n + 1) im (P ++ o) hni.2 (by simpa [segBytes, Seg.bytes] using hp)
      simp only [render, unmask, List.foldl_cons, unmaskStep, segBytes, List.flatMap_cons, Seg.bytes] at this ⊢
      simp only [Bool.false_eq_true, if_false]
      rw [← List.append_assoc, h1]
      simpa using this
    | ident o => simp [noIdentSeg] at hni
    | lcom o =>
      have := ih n im (P ++ o) hni.2 (by simpa [segBytes, Seg.bytes] using hp)
      simpa [render, segBytes, Seg.bytes] using this
    | bcom o =>
      have := ih n im (P ++ o) hni.2 (by simpa [segBytes, Seg.bytes] using hp)
      simpa [render, segBytes, Seg.bytes] using this

end Arc.C15
