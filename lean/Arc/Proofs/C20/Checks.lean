import Arc.Proofs.C20.Effects
/-! C20: permission checks (single and batched, hit and miss) return the policy's decision and
preserve the invariant; every step of the system preserves it, given the per-mutation obligation. -/
namespace Arc.C20

theorem policy_live (tb : Tables) (k : Key) (perms : List Str) (h : tokenInfo tb k.tid = some perms) :
    policy tb k = evalData perms (loadData tb k.tid) k := by
  unfold policy; rw [h]

theorem policy_dead (tb : Tables) (k : Key) (h : tokenInfo tb k.tid = none) :
    policy tb k = ⟨false, .unauth⟩ := by
  unfold policy; rw [h]

theorem permLookup_sound (s : State) (hI : SInv s) (k : Key) (perms : List Str) (d : Dec)
    (hp : tokenInfo s.tb k.tid = some perms) (h : permLookup s k = some d) : d = policy s.tb k := by
  unfold permLookup at h
  cases hl : s.permCache.lookup k with
  | none => rw [hl] at h; simp at h
  | some v =>
    obtain ⟨d', e⟩ := v
    rw [hl] at h
    have hmem := lookup_mem _ _ _ hl
    have := (hI.2.1 _ hmem).2 perms hp
    simp only at h
    split at h
    · injection h with h; subst h; rw [policy_live _ _ _ hp]; exact this
    · cases h

theorem evictPerm_props (s : State) :
    (∀ e ∈ (evictPerm s).permCache, e ∈ s.permCache) ∧ (evictPerm s).tokCache = s.tokCache ∧
    (evictPerm s).tb = s.tb ∧ (evictPerm s).mode = s.mode ∧ (evictPerm s).now = s.now ∧ (evictPerm s).ttl = s.ttl := by
  unfold evictPerm
  split
  · exact ⟨fun _ h => h, rfl, rfl, rfl, rfl, rfl⟩
  · split
    · exact ⟨fun e he => (List.mem_filter.1 he).1, rfl, rfl, rfl, rfl, rfl⟩
    · exact ⟨fun _ h => h, rfl, rfl, rfl, rfl, rfl⟩

theorem evictTok_props (s : State) :
    (∀ e ∈ (evictTok s).tokCache, e ∈ s.tokCache) ∧ (evictTok s).permCache = s.permCache ∧
    (evictTok s).tb = s.tb ∧ (evictTok s).mode = s.mode ∧ (evictTok s).now = s.now ∧ (evictTok s).ttl = s.ttl := by
  unfold evictTok
  split
  · exact ⟨fun _ h => h, rfl, rfl, rfl, rfl, rfl⟩
  · split
    · exact ⟨fun e he => (List.mem_filter.1 he).1, rfl, rfl, rfl, rfl, rfl⟩
    · exact ⟨fun _ h => h, rfl, rfl, rfl, rfl, rfl⟩

theorem loadTok_spec (s : State) (hI : SInv s) (tid : Nat) (perms : List Str)
    (hp : tokenInfo s.tb tid = some perms) :
    (loadTok s tid).2 = loadData s.tb tid ∧ SInv (loadTok s tid).1 ∧ (loadTok s tid).1.tb = s.tb ∧
    (loadTok s tid).1.mode = s.mode := by
  have hlt := tokenInfo_some_lt s.tb hI.1 tid perms hp
  obtain ⟨hsub, hpc, htb, hmode, _, _⟩ := evictTok_props s
  refine ⟨rfl, ?_, htb, hmode⟩
  unfold loadTok SInv
  simp only
  rw [htb, hpc]
  refine ⟨hI.1, hI.2.1, fun e he => ?_⟩
  cases he with
  | head => exact ⟨hlt, fun _ _ => rfl⟩
  | tail _ he => exact hI.2.2 e (hsub e (List.mem_filter.1 he).1)

theorem getData_spec (s : State) (hI : SInv s) (tid : Nat) (perms : List Str)
    (hp : tokenInfo s.tb tid = some perms) :
    (getData s tid).2 = loadData s.tb tid ∧ SInv (getData s tid).1 ∧ (getData s tid).1.tb = s.tb ∧
    (getData s tid).1.mode = s.mode := by
  unfold getData
  cases hl : s.tokCache.lookup tid with
  | none => exact loadTok_spec s hI tid perms hp
  | some v =>
    obtain ⟨d, at_⟩ := v
    simp only
    split
    · have hmem := lookup_mem _ _ _ hl
      exact ⟨(hI.2.2 _ hmem).2 perms hp, hI, rfl, rfl⟩
    · exact loadTok_spec s hI tid perms hp

theorem storePerm_inv (s : State) (hI : SInv s) (k : Key) (perms : List Str)
    (hp : tokenInfo s.tb k.tid = some perms) :
    SInv (storePerm s k (evalData perms (loadData s.tb k.tid) k)) ∧
    (storePerm s k (evalData perms (loadData s.tb k.tid) k)).tb = s.tb ∧
    (storePerm s k (evalData perms (loadData s.tb k.tid) k)).mode = s.mode := by
  obtain ⟨hsub, htc, htb, hmode, _, _⟩ := evictPerm_props s
  refine ⟨?_, htb, hmode⟩
  unfold storePerm SInv
  simp only
  rw [htb, htc]
  refine ⟨hI.1, fun e he => ?_, hI.2.2⟩
  cases he with
  | head =>
    refine ⟨tokenInfo_some_lt s.tb hI.1 _ perms hp, fun perms' hp' => ?_⟩
    change tokenInfo s.tb k.tid = some perms' at hp'
    rw [hp] at hp'; injection hp' with hp'; subst hp'; rfl
  | tail _ he => exact hI.2.1 e (hsub e (List.mem_filter.1 he).1)

/-- single check, token authenticates -/
theorem checkLive_spec (s : State) (hI : SInv s) (k : Key) (perms : List Str)
    (hp : tokenInfo s.tb k.tid = some perms) :
    (checkLive s perms k).2.1 = policy s.tb k ∧ SInv (checkLive s perms k).1 ∧
    (checkLive s perms k).1.tb = s.tb ∧ (checkLive s perms k).1.mode = s.mode := by
  unfold checkLive
  cases hl : permLookup s k with
  | some d => exact ⟨permLookup_sound s hI k perms d hp hl, hI, rfl, rfl⟩
  | none =>
    obtain ⟨hd, hI', htb, hmode⟩ := getData_spec s hI k.tid perms hp
    simp only
    rw [hd]
    have := storePerm_inv (getData s k.tid).1 hI' k perms (by rw [htb]; exact hp)
    rw [htb] at this
    exact ⟨(policy_live _ _ _ hp).symm, this.1, this.2.1, by rw [this.2.2, hmode]⟩

/-- **single check** (request path `VerifyToken` → `CheckPermission`), cache hit or miss -/
theorem checkSingle_spec (s : State) (hI : SInv s) (k : Key) :
    (checkSingle s k).2.1 = policy s.tb k ∧ SInv (checkSingle s k).1 ∧
    (checkSingle s k).1.tb = s.tb ∧ (checkSingle s k).1.mode = s.mode := by
  unfold checkSingle
  cases hp : tokenInfo s.tb k.tid with
  | none => exact ⟨(policy_dead _ _ hp).symm, hI, rfl, rfl⟩
  | some perms => exact checkLive_spec s hI k perms hp

theorem batchLive_spec (s : State) (hI : SInv s) (k : Key) (perms : List Str)
    (hp : tokenInfo s.tb k.tid = some perms) :
    (batchLive s perms k).2.1 = policy s.tb k ∧ SInv (batchLive s perms k).1 ∧
    (batchLive s perms k).1.tb = s.tb ∧ (batchLive s perms k).1.mode = s.mode := by
  obtain ⟨hd, hI', htb, hmode⟩ := getData_spec s hI k.tid perms hp
  have hp' : tokenInfo (getData s k.tid).1.tb k.tid = some perms := by rw [htb]; exact hp
  unfold batchLive
  simp only
  cases hl : permLookup (getData s k.tid).1 k with
  | some d =>
    have := permLookup_sound _ hI' k perms d hp' hl
    rw [htb] at this
    exact ⟨this, hI', htb, hmode⟩
  | none =>
    simp only
    rw [hd]
    have := storePerm_inv (getData s k.tid).1 hI' k perms hp'
    rw [htb] at this
    exact ⟨(policy_live _ _ _ hp).symm, this.1, this.2.1, by rw [this.2.2, hmode]⟩

theorem batchOne_spec (s : State) (hI : SInv s) (k : Key) :
    (batchOne s k).2.1 = policy s.tb k ∧ SInv (batchOne s k).1 ∧
    (batchOne s k).1.tb = s.tb ∧ (batchOne s k).1.mode = s.mode := by
  unfold batchOne
  cases hp : tokenInfo s.tb k.tid with
  | none => exact ⟨(policy_dead _ _ hp).symm, hI, rfl, rfl⟩
  | some perms => exact batchLive_spec s hI k perms hp

/-- **batched check** -/
theorem checkBatch_spec (ks : List Key) : ∀ (s : State), SInv s →
    (checkBatch s ks).2.map (·.1) = ks.map (policy s.tb) ∧ SInv (checkBatch s ks).1 ∧
    (checkBatch s ks).1.tb = s.tb ∧ (checkBatch s ks).1.mode = s.mode := by
  induction ks with
  | nil => intro s hI; exact ⟨rfl, hI, rfl, rfl⟩
  | cons k ks ih =>
    intro s hI
    obtain ⟨h1, h2, h3, h4⟩ := batchOne_spec s hI k
    obtain ⟨r1, r2, r3, r4⟩ := ih (batchOne s k).1 h2
    simp only [checkBatch, List.map_cons]
    refine ⟨?_, r2, by rw [r3, h3], by rw [r4, h4]⟩
    rw [r1, h1, h3]

theorem init_inv (mode : Mode) (ttl now : Int) (cap : Nat) : SInv (init mode ttl now cap) :=
  ⟨⟨fun _ h => by simp [init] at h, fun _ h => by simp [init] at h⟩,
   fun _ h => by simp [init] at h, fun _ h => by simp [init] at h⟩

/-- the eviction oracle is not part of the invariant -/
theorem withOracle_inv (s : State) (orc : List Victim) (h : SInv s) : SInv (withOracle s orc) := h

/-- a mutation followed by its generated invalidation preserves the invariant when that invalidation
is sufficient for the mutation's class -/
theorem stepMut_inv (s : State) (hI : SInv s) (op : Op) (m : Method) (hm : methodAt s.tb op = some m)
    (hsuf : ∀ r tb', exec s.mode s.tb op = (r, some tb') → sufficient s.mode m = true) :
    SInv (stepMut s op m).1 ∧ (stepMut s op m).1.mode = s.mode := by
  unfold stepMut
  cases he : exec s.mode s.tb op with
  | mk r o =>
    cases o with
    | none => exact ⟨hI, rfl⟩
    | some tb' =>
      obtain ⟨hT', heff⟩ := exec_effect s.mode s.tb tb' op m r hI.1 hm he
      have hs := hsuf r tb' he
      have hs' : needsNone (classOf m) = true ∨ (covers (classOf m) (invOf s.mode m) = true ∧ strong (invOf s.mode m) = true) := by
        unfold sufficient at hs
        simpa [Bool.or_eq_true, Bool.and_eq_true] using hs
      have hc := CInv_mutation (classOf m) (invOf s.mode m) op.tokArg s tb' hs' heff hI.2
      have hp := invalidate_props (invOf s.mode m) op.tokArg { s with tb := tb' }
      show SInv (invalidate (invOf s.mode m) op.tokArg { s with tb := tb' }) ∧
        (invalidate (invOf s.mode m) op.tokArg { s with tb := tb' }).mode = s.mode
      unfold SInv
      rw [hp.2.2.1]
      exact ⟨⟨hT', hc⟩, hp.2.2.2⟩

theorem cleanup_inv (s : State) (hI : SInv s) : SInv (cleanup s) :=
  SInv_of_sub s (cleanup s) rfl (fun _ he => (List.mem_filter.1 he).1) (fun _ he => (List.mem_filter.1 he).1) hI

theorem toCluster_inv (s : State) (hI : SInv s) :
    SInv { s with mode := .cluster, tb := { s.tb with fsmTokFrom := s.tb.tokBound } } := by
  have hti : ∀ tid, tokenInfo { s.tb with fsmTokFrom := s.tb.tokBound } tid = tokenInfo s.tb tid := fun _ => rfl
  have hld : ∀ tid, loadData { s.tb with fsmTokFrom := s.tb.tokBound } tid = loadData s.tb tid := fun _ => rfl
  refine ⟨⟨hI.1.tokLt, hI.1.memTeam⟩, fun e he => ?_, fun e he => ?_⟩
  · have := hI.2.1 e he
    exact ⟨this.1, fun perms hp => by rw [hld]; exact this.2 perms (by rw [← hti]; exact hp)⟩
  · have := hI.2.2 e he
    exact ⟨this.1, fun perms hp => by rw [hld]; exact this.2 perms (by rw [← hti]; exact hp)⟩

/-- one step preserves the invariant, provided the op — if it is a mutation — is one whose generated
invalidation is sufficient; the mode follows `nextMode` -/
theorem step_inv (s : State) (hI : SInv s) (op : Op) (hok : opOk s.mode op = true) :
    SInv (step s op).1 ∧ (step s op).1.mode = nextMode s.mode op := by
  have mutCase : ∀ m, op.method? = some m → methodAt s.tb op = some m → opOk s.mode op = sufficient s.mode m →
      SInv (stepMut s op m).1 ∧ (stepMut s op m).1.mode = s.mode := by
    intro m _ hma hk
    exact stepMut_inv s hI op m hma (fun _ _ _ => by rw [← hk]; exact hok)
  cases op with
  | advance dt => exact ⟨⟨hI.1, hI.2⟩, rfl⟩
  | cleanup => exact ⟨cleanup_inv s hI, rfl⟩
  | toCluster =>
    show SInv (match s.mode with
        | .cluster => s
        | .direct => { s with mode := .cluster, tb := { s.tb with fsmTokFrom := s.tb.tokBound } }) ∧
      (match s.mode with
        | .cluster => s
        | .direct => { s with mode := .cluster, tb := { s.tb with fsmTokFrom := s.tb.tokBound } }).mode = Mode.cluster
    cases hmode : s.mode with
    | cluster => exact ⟨hI, hmode⟩
    | direct => exact ⟨toCluster_inv s hI, rfl⟩
  | check k orc =>
    have := checkSingle_spec (withOracle s orc) (withOracle_inv s orc hI) k
    exact ⟨this.2.1, this.2.2.2⟩
  | batch ks orc =>
    have := checkBatch_spec ks (withOracle s orc) (withOracle_inv s orc hI)
    exact ⟨this.2.1, this.2.2.2⟩
  | applyCreateOrg name newId =>
    show SInv (match methodAt s.tb (.applyCreateOrg name newId) with
        | none => (s, Out.res .error)
        | some m => stepMut s (.applyCreateOrg name newId) m).1 ∧
      (match methodAt s.tb (.applyCreateOrg name newId) with
        | none => (s, Out.res .error)
        | some m => stepMut s (.applyCreateOrg name newId) m).1.mode = s.mode
    cases hma : methodAt s.tb (.applyCreateOrg name newId) with
    | none => exact ⟨hI, rfl⟩
    | some m =>
      refine stepMut_inv s hI _ m hma (fun r tb' he => ?_)
      -- which of the three paths `m` is; all three are required sufficient in cluster mode
      cases hmode : s.mode with
      | direct => rw [hmode] at he; simp [exec] at he
      | cluster =>
        rw [hmode] at hok
        simp only [opOk, Bool.and_eq_true] at hok
        simp only [methodAt] at hma
        split at hma
        · injection hma with hma; subst hma; exact hok.1.2
        · split at hma
          · injection hma with hma; subst hma; exact hok.2
          · injection hma with hma; subst hma; exact hok.1.1
  | createOrg a b => exact mutCase _ rfl rfl rfl
  | updateOrg a b c => exact mutCase _ rfl rfl rfl
  | deleteOrg a => exact mutCase _ rfl rfl rfl
  | createTeam a b c => exact mutCase _ rfl rfl rfl
  | updateTeam a b c => exact mutCase _ rfl rfl rfl
  | deleteTeam a => exact mutCase _ rfl rfl rfl
  | createRole a b c d => exact mutCase _ rfl rfl rfl
  | updateRole a b c => exact mutCase _ rfl rfl rfl
  | deleteRole a => exact mutCase _ rfl rfl rfl
  | createMP a b c d => exact mutCase _ rfl rfl rfl
  | deleteMP a => exact mutCase _ rfl rfl rfl
  | addMem a b c => exact mutCase _ rfl rfl rfl
  | removeMem a b => exact mutCase _ rfl rfl rfl
  | createToken a b c => exact mutCase _ rfl rfl rfl
  | updateToken a b => exact mutCase _ rfl rfl rfl
  | revokeToken a => exact mutCase _ rfl rfl rfl
  | deleteToken a => exact mutCase _ rfl rfl rfl
  | rotateToken a => exact mutCase _ rfl rfl rfl

theorem run_inv (ops : List Op) : ∀ (s : State), SInv s → okRun s.mode ops = true → SInv (run s ops) := by
  induction ops with
  | nil => intro s hI _; exact hI
  | cons op ops ih =>
    intro s hI hok
    simp only [okRun, Bool.and_eq_true] at hok
    obtain ⟨h1, h2⟩ := step_inv s hI op hok.1
    exact ih _ h1 (by rw [h2]; exact hok.2)

end Arc.C20
