import Arc.Proofs.C20.Effects
/-! C20: permission checks (single and batched, hit and miss) return the policy's decision and
preserve the invariant; every step of the system preserves it, given the per-mutation obligation. -/
namespace Arc.C20

theorem policy_live (tb : Tables) (k : Key) (perms : List Str) (h : tokenInfo tb k.tid = some perms) :
    policy tb k = evalData perms (loadData tb k.tid) k := by
  unfold policy; rw [h]

theorem policy_dead (tb : Tables) (k : Key) (h : tokenInfo tb k.tid = none) :
    policy tb k = ⟨false, .unauth⟩ := by
  unfold policy; rw [h]

theorem permLookup_sound (s : State) (hI : SInv s) (k : Key) (perms : List Str) (d : Dec)
    (hp : tokenInfo s.tb k.tid = some perms) (h : permLookup s k = some d) : d = policy s.tb k := by
  unfold permLookup at h
  cases hl : s.permCache.lookup k with
  | none => rw [hl] at h; simp at h
  | some v =>
    obtain ⟨d', e⟩ := v
    rw [hl] at h
    have hmem := lookup_mem _ _ _ hl
    have := (hI.2.1 _ hmem).2 perms hp
    simp only at h
    split at h
    · injection h with h; subst h; rw [policy_live _ _ _ hp]; exact this
    · cases h

theorem getData_spec (s : State) (hI : SInv s) (tid : Nat) (perms : List Str)
    (hp : tokenInfo s.tb tid = some perms) :
    (getData s tid).2 = loadData s.tb tid ∧ SInv (getData s tid).1 ∧ (getData s tid).1.tb = s.tb ∧
    (getData s tid).1.permCache = s.permCache ∧ (getData s tid).1.now = s.now ∧
    (getData s tid).1.ttl = s.ttl ∧ (getData s tid).1.mode = s.mode := by
  have hlt := tokenInfo_some_lt s.tb hI.1 tid perms hp
  have hload : SInv { s with tokCache := (tid, loadData s.tb tid, s.now) :: s.tokCache } := by
    refine ⟨hI.1, hI.2.1, fun e he => ?_⟩
    cases he with
    | head => exact ⟨hlt, fun _ _ => rfl⟩
    | tail _ he => exact hI.2.2 e he
  unfold getData
  cases hl : s.tokCache.lookup tid with
  | none => exact ⟨rfl, hload, rfl, rfl, rfl, rfl, rfl⟩
  | some v =>
    obtain ⟨d, at_⟩ := v
    simp only
    split
    · have hmem := lookup_mem _ _ _ hl
      exact ⟨(hI.2.2 _ hmem).2 perms hp, hI, rfl, rfl, rfl, rfl, rfl⟩
    · exact ⟨rfl, hload, rfl, rfl, rfl, rfl, rfl⟩

theorem storePerm_inv (s : State) (hI : SInv s) (k : Key) (perms : List Str)
    (hp : tokenInfo s.tb k.tid = some perms) :
    SInv (storePerm s k (evalData perms (loadData s.tb k.tid) k)) := by
  refine ⟨hI.1, fun e he => ?_, hI.2.2⟩
  cases he with
  | head =>
    refine ⟨tokenInfo_some_lt s.tb hI.1 _ perms hp, fun perms' hp' => ?_⟩
    change tokenInfo s.tb k.tid = some perms' at hp'
    rw [hp] at hp'; injection hp' with hp'; subst hp'; rfl
  | tail _ he => exact hI.2.1 e he

/-- single check, token authenticates -/
theorem checkLive_spec (s : State) (hI : SInv s) (k : Key) (perms : List Str)
    (hp : tokenInfo s.tb k.tid = some perms) :
    (checkLive s perms k).2.1 = policy s.tb k ∧ SInv (checkLive s perms k).1 ∧
    (checkLive s perms k).1.tb = s.tb ∧ (checkLive s perms k).1.mode = s.mode := by
  unfold checkLive
  cases hl : permLookup s k with
  | some d => exact ⟨permLookup_sound s hI k perms d hp hl, hI, rfl, rfl⟩
  | none =>
    obtain ⟨hd, hI', htb, _, _, _, hmode⟩ := getData_spec s hI k.tid perms hp
    simp only
    rw [hd]
    refine ⟨(policy_live _ _ _ hp).symm, ?_, htb, hmode⟩
    have := storePerm_inv (getData s k.tid).1 hI' k perms (by rw [htb]; exact hp)
    rw [htb] at this; exact this

/-- **single check** (request path `VerifyToken` → `CheckPermission`), cache hit or miss -/
theorem checkSingle_spec (s : State) (hI : SInv s) (k : Key) :
    (checkSingle s k).2.1 = policy s.tb k ∧ SInv (checkSingle s k).1 ∧
    (checkSingle s k).1.tb = s.tb ∧ (checkSingle s k).1.mode = s.mode := by
  unfold checkSingle
  cases hp : tokenInfo s.tb k.tid with
  | none => exact ⟨(policy_dead _ _ hp).symm, hI, rfl, rfl⟩
  | some perms => exact checkLive_spec s hI k perms hp

theorem batchLive_spec (s : State) (hI : SInv s) (k : Key) (perms : List Str)
    (hp : tokenInfo s.tb k.tid = some perms) :
    (batchLive s perms k).2.1 = policy s.tb k ∧ SInv (batchLive s perms k).1 ∧
    (batchLive s perms k).1.tb = s.tb ∧ (batchLive s perms k).1.mode = s.mode := by
  obtain ⟨hd, hI', htb, _, _, _, hmode⟩ := getData_spec s hI k.tid perms hp
  have hp' : tokenInfo (getData s k.tid).1.tb k.tid = some perms := by rw [htb]; exact hp
  unfold batchLive
  simp only
  cases hl : permLookup (getData s k.tid).1 k with
  | some d =>
    have := permLookup_sound _ hI' k perms d hp' hl
    rw [htb] at this
    exact ⟨this, hI', htb, hmode⟩
  | none =>
    simp only
    rw [hd]
    refine ⟨(policy_live _ _ _ hp).symm, ?_, htb, hmode⟩
    have := storePerm_inv (getData s k.tid).1 hI' k perms hp'
    rw [htb] at this; exact this

theorem batchOne_spec (s : State) (hI : SInv s) (k : Key) :
    (batchOne s k).2.1 = policy s.tb k ∧ SInv (batchOne s k).1 ∧
    (batchOne s k).1.tb = s.tb ∧ (batchOne s k).1.mode = s.mode := by
  unfold batchOne
  cases hp : tokenInfo s.tb k.tid with
  | none => exact ⟨(policy_dead _ _ hp).symm, hI, rfl, rfl⟩
  | some perms => exact batchLive_spec s hI k perms hp

/-- **batched check** -/
theorem checkBatch_spec (ks : List Key) : ∀ (s : State), SInv s →
    (checkBatch s ks).2.map (·.1) = ks.map (policy s.tb) ∧ SInv (checkBatch s ks).1 ∧
    (checkBatch s ks).1.tb = s.tb ∧ (checkBatch s ks).1.mode = s.mode := by
  induction ks with
  | nil => intro s hI; exact ⟨rfl, hI, rfl, rfl⟩
  | cons k ks ih =>
    intro s hI
    obtain ⟨h1, h2, h3, h4⟩ := batchOne_spec s hI k
    obtain ⟨r1, r2, r3, r4⟩ := ih (batchOne s k).1 h2
    simp only [checkBatch, List.map_cons]
    refine ⟨?_, r2, by rw [r3, h3], by rw [r4, h4]⟩
    rw [r1, h1, h3]

theorem init_inv (mode : Mode) (ttl now : Int) : SInv (init mode ttl now) :=
  ⟨⟨fun _ h => by simp [init] at h, fun _ h => by simp [init] at h⟩,
   fun _ h => by simp [init] at h, fun _ h => by simp [init] at h⟩

theorem invalidate_mode (i : Inv) (t : Nat) (s : State) : (invalidate i t s).mode = s.mode := by
  cases i <;> rfl
theorem invalidate_tb (i : Inv) (t : Nat) (s : State) : (invalidate i t s).tb = s.tb := by
  cases i <;> rfl

/-- a mutation followed by its generated invalidation preserves the invariant when that invalidation
is sufficient for the mutation's class -/
theorem stepMut_inv (s : State) (hI : SInv s) (op : Op) (m : Method) (hm : op.method? = some m)
    (hsuf : sufficient s.mode m = true) :
    SInv (stepMut s op m).1 ∧ (stepMut s op m).1.mode = s.mode := by
  unfold stepMut
  cases he : exec s.mode s.tb op with
  | mk r o =>
    cases o with
    | none => exact ⟨hI, rfl⟩
    | some tb' =>
      obtain ⟨hT', heff⟩ := exec_effect s.mode s.tb tb' op m r hI.1 hm he
      have hc := CInv_mutation (classOf m) (invOf s.mode m) op.tokArg s tb' hsuf heff hI.2
      show SInv (invalidate (invOf s.mode m) op.tokArg { s with tb := tb' }) ∧
        (invalidate (invOf s.mode m) op.tokArg { s with tb := tb' }).mode = s.mode
      have htb := invalidate_tb (invOf s.mode m) op.tokArg { s with tb := tb' }
      unfold SInv
      rw [htb]
      exact ⟨⟨hT', hc⟩, invalidate_mode _ _ _⟩

/-- one step preserves the invariant, provided the op — if it is a mutation — is one whose generated
invalidation is sufficient -/
theorem step_inv (s : State) (hI : SInv s) (op : Op) (hok : opOk s.mode op = true) :
    SInv (step s op).1 ∧ (step s op).1.mode = s.mode := by
  cases op with
  | advance dt => exact ⟨⟨hI.1, hI.2⟩, rfl⟩
  | check k => have := checkSingle_spec s hI k; exact ⟨this.2.1, this.2.2.2⟩
  | batch ks => have := checkBatch_spec ks s hI; exact ⟨this.2.1, this.2.2.2⟩
  | createOrg a b => exact stepMut_inv s hI _ _ rfl hok
  | updateOrg a b c => exact stepMut_inv s hI _ _ rfl hok
  | deleteOrg a => exact stepMut_inv s hI _ _ rfl hok
  | createTeam a b c => exact stepMut_inv s hI _ _ rfl hok
  | updateTeam a b c => exact stepMut_inv s hI _ _ rfl hok
  | deleteTeam a => exact stepMut_inv s hI _ _ rfl hok
  | createRole a b c d => exact stepMut_inv s hI _ _ rfl hok
  | updateRole a b c => exact stepMut_inv s hI _ _ rfl hok
  | deleteRole a => exact stepMut_inv s hI _ _ rfl hok
  | createMP a b c d => exact stepMut_inv s hI _ _ rfl hok
  | deleteMP a => exact stepMut_inv s hI _ _ rfl hok
  | addMem a b c => exact stepMut_inv s hI _ _ rfl hok
  | removeMem a b => exact stepMut_inv s hI _ _ rfl hok
  | createToken a b c => exact stepMut_inv s hI _ _ rfl hok
  | updateToken a b => exact stepMut_inv s hI _ _ rfl hok
  | revokeToken a => exact stepMut_inv s hI _ _ rfl hok
  | deleteToken a => exact stepMut_inv s hI _ _ rfl hok
  | rotateToken a => exact stepMut_inv s hI _ _ rfl hok

theorem run_inv (ops : List Op) : ∀ (s : State), SInv s → (∀ op ∈ ops, opOk s.mode op = true) →
    SInv (run s ops) := by
  induction ops with
  | nil => intro s hI _; exact hI
  | cons op ops ih =>
    intro s hI hok
    obtain ⟨h1, h2⟩ := step_inv s hI op (hok op (by simp))
    exact ih _ h1 (fun o ho => by rw [h2]; exact hok o (by simp [ho]))

end Arc.C20
