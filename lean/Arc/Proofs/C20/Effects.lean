import Arc.Proofs.C20.Basic
/-! C20: for every mutating op, the effect of its success path on the tables stays within the class
`classOf` assigns to it, and the table invariants are preserved. -/
namespace Arc.C20

theorem memberTeams_congr (tb tb' : Tables) (tid : Nat) (hteams : tb'.teams = tb.teams)
    (h : ∀ t : Team, (tb'.mems.any fun m => m.tok == tid && m.team == t.id)
                   = (tb.mems.any fun m => m.tok == tid && m.team == t.id)) :
    memberTeams tb' tid = memberTeams tb tid := by
  unfold memberTeams; rw [hteams]; congr 1; funext t; exact h t

theorem loadData_of_memberTeams (tb tb' : Tables) (tid : Nat)
    (hm : memberTeams tb' tid = memberTeams tb tid) (hr : tb'.roles = tb.roles) (hp : tb'.mps = tb.mps) :
    loadData tb' tid = loadData tb tid := by
  unfold loadData; rw [hm, hr, hp]

theorem find_map_ne (l : List Token) (f : Token → Token) (id tid : Nat) (hid : ∀ t, (f t).id = t.id)
    (hne : ∀ t, t.id ≠ id → f t = t) (h : tid ≠ id) :
    (l.map f).find? (fun t => t.id == tid) = l.find? (fun t => t.id == tid) := by
  induction l with
  | nil => rfl
  | cons a l ih =>
    simp only [List.map_cons, List.find?_cons, hid]
    by_cases ha : a.id = tid
    · have : f a = a := hne a (by omega)
      simp [ha, this]
    · have : (a.id == tid) = false := by simpa using ha
      simp [this, ih]

theorem tokenInfo_map_ne (tb : Tables) (f : Token → Token) (id tid : Nat) (hid : ∀ t, (f t).id = t.id)
    (hne : ∀ t, t.id ≠ id → f t = t) (h : tid ≠ id) :
    tokenInfo { tb with tokens := tb.tokens.map f } tid = tokenInfo tb tid := by
  unfold tokenInfo
  simp only [find_map_ne tb.tokens f id tid hid hne h]

theorem find_map_revoked (l : List Token) (id : Nat) (t : Token)
    (h : (l.map fun t => if t.id == id then { t with enabled := false } else t).find? (fun t => t.id == id) = some t) :
    t.enabled = false := by
  induction l with
  | nil => simp at h
  | cons a l ih =>
    rw [List.map_cons, List.find?_cons] at h
    by_cases ha : a.id = id
    · have h1 : (a.id == id) = true := by simpa using ha
      have hfa : (if a.id == id then { a with enabled := false } else a) = { a with enabled := false } := by simp [h1]
      rw [hfa] at h
      simp only [h1] at h
      injection h with h; rw [← h]
    · have h1 : (a.id == id) = false := by simpa using ha
      have hfa : (if a.id == id then { a with enabled := false } else a) = a := by simp [h1]
      rw [hfa] at h
      simp only [h1] at h
      exact ih h

theorem tokenInfo_revoked (tb : Tables) (id : Nat) :
    tokenInfo { tb with tokens := tb.tokens.map fun t => if t.id == id then { t with enabled := false } else t } id = none := by
  unfold tokenInfo
  cases hf : ({ tb with tokens := tb.tokens.map fun t => if t.id == id then { t with enabled := false } else t } : Tables).tokens.find? (fun t => t.id == id) with
  | none => rfl
  | some t => simp [find_map_revoked tb.tokens id t hf]

theorem mem_map_id (l : List Token) (f : Token → Token) (hid : ∀ t, (f t).id = t.id) (B : Nat)
    (h : ∀ t ∈ l, t.id < B) : ∀ t ∈ l.map f, t.id < B := by
  intro t ht
  obtain ⟨a, ha, rfl⟩ := List.mem_map.1 ht
  rw [hid]; exact h a ha

/-- extracting the success branch of `exec` -/
macro "exec_success" h:ident : tactic =>
  `(tactic| (simp only [exec] at $h:ident; repeat' split at $h:ident; all_goals first | (cases $h:ident; done) | skip))

/-! ### neutral ops -/

theorem eff_createOrg (mode : Mode) (tb tb' : Tables) (name : Str) (newId : Nat) (r : Res)
    (hT : TInv tb) (h : exec mode tb (.createOrg name newId) = (r, some tb')) :
    TInv tb' ∧ EffectOK .neutral 0 tb tb' := by
  exec_success h
  all_goals cases h
  all_goals exact ⟨⟨hT.tokLt, hT.memTeam⟩, Nat.le_refl _, fun tid _ => ⟨rfl, rfl⟩⟩

theorem eff_updateOrg (mode : Mode) (tb tb' : Tables) (id : Nat) (name : Option Str) (en : Option Bool) (r : Res)
    (hT : TInv tb) (h : exec mode tb (.updateOrg id name en) = (r, some tb')) :
    TInv tb' ∧ EffectOK .neutral 0 tb tb' := by
  exec_success h
  all_goals cases h
  all_goals exact ⟨⟨hT.tokLt, hT.memTeam⟩, Nat.le_refl _, fun tid _ => ⟨rfl, rfl⟩⟩

theorem eff_createTeam (mode : Mode) (tb tb' : Tables) (org : Nat) (name : Str) (newId : Nat) (r : Res)
    (hT : TInv tb) (h : exec mode tb (.createTeam org name newId) = (r, some tb')) :
    TInv tb' ∧ EffectOK .neutral 0 tb tb' := by
  exec_success h
  cases h
  have hfresh := ‹¬hasTeam tb newId = true›
  refine ⟨⟨hT.tokLt, fun m hm => ?_⟩, Nat.le_refl _, fun tid _ => ⟨rfl, ?_⟩⟩
  · obtain ⟨t, ht, e⟩ := hT.memTeam m hm
    exact ⟨t, List.mem_cons_of_mem _ ht, e⟩
  · refine loadData_of_memberTeams tb _ tid ?_ rfl rfl
    unfold memberTeams
    simp only [List.filter]
    have : (tb.mems.any fun m => m.tok == tid && m.team == newId) = false := by
      rw [List.any_eq_false]
      intro m hm hc
      obtain ⟨t, ht, e⟩ := hT.memTeam m hm
      simp at hc
      have : hasTeam tb newId = true := by
        unfold hasTeam; rw [List.any_eq_true]; exact ⟨t, ht, by simp [e, hc.2]⟩
      exact hfresh this
    simp [this]

theorem eff_createToken (mode : Mode) (tb tb' : Tables) (name : Str) (perms : List Str) (newId : Nat) (r : Res)
    (hT : TInv tb) (h : exec mode tb (.createToken name perms newId) = (r, some tb')) :
    TInv tb' ∧ EffectOK .neutral newId tb tb' := by
  exec_success h
  cases h
  have hge : tb.tokBound ≤ newId := by have := ‹¬newId < tb.tokBound›; omega
  refine ⟨⟨fun t ht => ?_, hT.memTeam⟩, by show tb.tokBound ≤ newId + 1; omega, fun tid hlt => ⟨?_, rfl⟩⟩
  · cases ht with
    | head => show newId < newId + 1; omega
    | tail _ ht => have := hT.tokLt t ht; show t.id < newId + 1; omega
  · unfold tokenInfo
    have : (newId == tid) = false := by simp; omega
    simp [this]

theorem eff_rotateToken (mode : Mode) (tb tb' : Tables) (id : Nat) (r : Res)
    (hT : TInv tb) (h : exec mode tb (.rotateToken id) = (r, some tb')) :
    TInv tb' ∧ EffectOK .neutral id tb tb' := by
  exec_success h
  all_goals cases h
  exact ⟨hT, Nat.le_refl _, fun tid _ => ⟨rfl, rfl⟩⟩

/-! ### token-local ops -/

theorem eff_addMem (mode : Mode) (tb tb' : Tables) (tok team newId : Nat) (r : Res)
    (hT : TInv tb) (h : exec mode tb (.addMem tok team newId) = (r, some tb')) :
    TInv tb' ∧ EffectOK .tokenLocal tok tb tb' := by
  have key : ¬(!hasTeam tb team) = true → ∀ tb', tb' = { tb with mems := ⟨newId, tok, team⟩ :: tb.mems } →
      TInv tb' ∧ EffectOK .tokenLocal tok tb tb' := by
    intro hteam tb' htb
    subst htb
    have hteam : hasTeam tb team = true := by simpa using hteam
    refine ⟨⟨hT.tokLt, fun m hm => ?_⟩, Nat.le_refl _, fun tid _ hne => ⟨rfl, ?_⟩⟩
    · cases hm with
      | head =>
        unfold hasTeam at hteam; rw [List.any_eq_true] at hteam
        obtain ⟨t, ht, e⟩ := hteam
        exact ⟨t, ht, by simpa using e⟩
      | tail _ hm => exact hT.memTeam m hm
    · refine loadData_of_memberTeams tb _ tid (memberTeams_congr tb _ tid rfl fun t => ?_) rfl rfl
      have : (tok == tid) = false := by simp; omega
      simp [List.any_cons, this]
  exec_success h
  all_goals cases h
  all_goals exact key ‹_› _ rfl

theorem eff_removeMem (mode : Mode) (tb tb' : Tables) (tok team : Nat) (r : Res)
    (hT : TInv tb) (h : exec mode tb (.removeMem tok team) = (r, some tb')) :
    TInv tb' ∧ EffectOK .tokenLocal tok tb tb' := by
  exec_success h
  all_goals cases h
  refine ⟨⟨hT.tokLt, fun m hm => hT.memTeam m (List.mem_filter.1 hm).1⟩, Nat.le_refl _, fun tid _ hne => ⟨rfl, ?_⟩⟩
  refine loadData_of_memberTeams tb _ tid (memberTeams_congr tb _ tid rfl fun t => ?_) rfl rfl
  apply any_filter_of_imp
  intro m hq
  simp at hq
  have : m.tok ≠ tok := by omega
  simp [this]

theorem eff_updateToken (mode : Mode) (tb tb' : Tables) (id : Nat) (perms : List Str) (r : Res)
    (hT : TInv tb) (h : exec mode tb (.updateToken id perms) = (r, some tb')) :
    TInv tb' ∧ EffectOK .tokenLocal id tb tb' := by
  exec_success h
  all_goals cases h
  have hid : ∀ t : Token, (if t.id == id then { t with perms := perms } else t).id = t.id := by
    intro t; split <;> rfl
  have hne : ∀ t : Token, t.id ≠ id → (if t.id == id then { t with perms := perms } else t) = t := by
    intro t ht; have : (t.id == id) = false := by simpa using ht
    simp [this]
  refine ⟨⟨mem_map_id _ _ hid _ hT.tokLt, hT.memTeam⟩, Nat.le_refl _, fun tid _ hne' => ⟨?_, rfl⟩⟩
  exact tokenInfo_map_ne tb _ id tid hid hne hne'

/-! ### token-gone ops -/

theorem eff_revokeToken (mode : Mode) (tb tb' : Tables) (id : Nat) (r : Res)
    (hT : TInv tb) (h : exec mode tb (.revokeToken id) = (r, some tb')) :
    TInv tb' ∧ EffectOK .tokenGone id tb tb' := by
  exec_success h
  all_goals cases h
  have hid : ∀ t : Token, (if t.id == id then { t with enabled := false } else t).id = t.id := by
    intro t; split <;> rfl
  have hne : ∀ t : Token, t.id ≠ id → (if t.id == id then { t with enabled := false } else t) = t := by
    intro t ht; have : (t.id == id) = false := by simpa using ht
    simp [this]
  refine ⟨⟨mem_map_id _ _ hid _ hT.tokLt, hT.memTeam⟩, Nat.le_refl _, ?_, fun tid _ hne' => ⟨?_, rfl⟩⟩
  · exact tokenInfo_revoked tb id
  · exact tokenInfo_map_ne tb _ id tid hid hne hne'

theorem eff_deleteToken (mode : Mode) (tb tb' : Tables) (id : Nat) (r : Res)
    (hT : TInv tb) (h : exec mode tb (.deleteToken id) = (r, some tb')) :
    TInv tb' ∧ EffectOK .tokenGone id tb tb' := by
  exec_success h
  all_goals cases h
  refine ⟨⟨fun t ht => hT.tokLt t (List.mem_filter.1 ht).1, fun m hm => hT.memTeam m (List.mem_filter.1 hm).1⟩,
    Nat.le_refl _, ?_, fun tid _ hne' => ⟨?_, ?_⟩⟩
  · unfold tokenInfo
    have : (tb.tokens.filter fun t => !(t.id == id)).find? (fun t => t.id == id) = none := by
      apply find_filter_none; intro a ha; simp at ha; simp [ha]
    simp [this]
  · unfold tokenInfo
    have : (tb.tokens.filter fun t => !(t.id == id)).find? (fun t => t.id == tid) = tb.tokens.find? (fun t => t.id == tid) := by
      apply find_filter_of_imp; intro a ha; simp at ha; simp; omega
    simp [this]
  · refine loadData_of_memberTeams tb _ tid (memberTeams_congr tb _ tid rfl fun t => ?_) rfl rfl
    apply any_filter_of_imp
    intro m hq
    simp at hq
    simp; omega

/-! ### global ops: only the table invariants matter (their invalidation must be `all`) -/

theorem cascade_memTeam (tb : Tables) : ∀ m ∈ (cascade tb).mems, ∃ t ∈ (cascade tb).teams, t.id = m.team := by
  intro m hm
  simp only [cascade, List.mem_filter] at hm
  obtain ⟨t, ht, e⟩ := List.any_eq_true.1 hm.2
  exact ⟨t, ht, by simpa using e⟩

theorem eff_deleteOrg (mode : Mode) (tb tb' : Tables) (id : Nat) (r : Res)
    (hT : TInv tb) (h : exec mode tb (.deleteOrg id) = (r, some tb')) :
    TInv tb' ∧ EffectOK .global 0 tb tb' := by
  exec_success h
  all_goals cases h
  exact ⟨⟨hT.tokLt, cascade_memTeam _⟩, Nat.le_refl _, trivial⟩

theorem eff_deleteTeam (mode : Mode) (tb tb' : Tables) (id : Nat) (r : Res)
    (hT : TInv tb) (h : exec mode tb (.deleteTeam id) = (r, some tb')) :
    TInv tb' ∧ EffectOK .global 0 tb tb' := by
  exec_success h
  all_goals cases h
  exact ⟨⟨hT.tokLt, cascade_memTeam _⟩, Nat.le_refl _, trivial⟩

theorem eff_updateTeam (mode : Mode) (tb tb' : Tables) (id : Nat) (name : Option Str) (en : Option Bool) (r : Res)
    (hT : TInv tb) (h : exec mode tb (.updateTeam id name en) = (r, some tb')) :
    TInv tb' ∧ EffectOK .global 0 tb tb' := by
  exec_success h
  all_goals cases h
  all_goals
    refine ⟨⟨hT.tokLt, fun m hm => ?_⟩, Nat.le_refl _, trivial⟩
    obtain ⟨t, ht, e⟩ := hT.memTeam m hm
    refine ⟨_, List.mem_map.2 ⟨t, ht, rfl⟩, ?_⟩
    split <;> simpa [setTeam] using e

theorem eff_rolesMps (tb tb' : Tables) (hT : TInv tb) (h1 : tb'.tokens = tb.tokens) (h2 : tb'.teams = tb.teams)
    (h3 : tb'.mems = tb.mems) (h4 : tb'.tokBound = tb.tokBound) : TInv tb' ∧ EffectOK .global 0 tb tb' := by
  refine ⟨⟨?_, ?_⟩, by rw [h4]; exact Nat.le_refl _, trivial⟩
  · rw [h1, h4]; exact hT.tokLt
  · rw [h2, h3]; exact hT.memTeam

theorem eff_createRole (mode : Mode) (tb tb' : Tables) (team : Nat) (p : Str) (ps : List Str) (newId : Nat) (r : Res)
    (hT : TInv tb) (h : exec mode tb (.createRole team p ps newId) = (r, some tb')) :
    TInv tb' ∧ EffectOK .global 0 tb tb' := by
  exec_success h
  all_goals cases h
  all_goals exact eff_rolesMps tb _ hT rfl rfl rfl rfl

theorem eff_updateRole (mode : Mode) (tb tb' : Tables) (id : Nat) (p : Option Str) (ps : List Str) (r : Res)
    (hT : TInv tb) (h : exec mode tb (.updateRole id p ps) = (r, some tb')) :
    TInv tb' ∧ EffectOK .global 0 tb tb' := by
  exec_success h
  all_goals cases h
  all_goals exact eff_rolesMps tb _ hT rfl rfl rfl rfl

theorem eff_deleteRole (mode : Mode) (tb tb' : Tables) (id : Nat) (r : Res)
    (hT : TInv tb) (h : exec mode tb (.deleteRole id) = (r, some tb')) :
    TInv tb' ∧ EffectOK .global 0 tb tb' := by
  exec_success h
  all_goals cases h
  all_goals exact eff_rolesMps tb _ hT rfl rfl rfl rfl

theorem eff_createMP (mode : Mode) (tb tb' : Tables) (role : Nat) (p : Str) (ps : List Str) (newId : Nat) (r : Res)
    (hT : TInv tb) (h : exec mode tb (.createMP role p ps newId) = (r, some tb')) :
    TInv tb' ∧ EffectOK .global 0 tb tb' := by
  exec_success h
  all_goals cases h
  all_goals exact eff_rolesMps tb _ hT rfl rfl rfl rfl

theorem eff_deleteMP (mode : Mode) (tb tb' : Tables) (id : Nat) (r : Res)
    (hT : TInv tb) (h : exec mode tb (.deleteMP id) = (r, some tb')) :
    TInv tb' ∧ EffectOK .global 0 tb tb' := by
  exec_success h
  all_goals cases h
  all_goals exact eff_rolesMps tb _ hT rfl rfl rfl rfl

/-- `ApplyCreateOrganization`: the three success paths and the class of the method `methodAt` names -/
theorem eff_applyCreateOrg (mode : Mode) (tb tb' : Tables) (name : Str) (newId : Nat) (r : Res) (m : Method)
    (hT : TInv tb) (hm : methodAt tb (.applyCreateOrg name newId) = some m)
    (h : exec mode tb (.applyCreateOrg name newId) = (r, some tb')) :
    TInv tb' ∧ EffectOK (classOf m) 0 tb tb' := by
  simp only [methodAt] at hm
  exec_success h
  all_goals cases h
  · -- log replay: tables untouched
    rename_i hid _
    simp only [hid, if_true, Option.some.injEq] at hm
    subst hm
    exact ⟨hT, Nat.le_refl _, fun tid _ => ⟨rfl, rfl⟩⟩
  · -- re-align: delete + cascade + insert
    rename_i hid hname
    simp only [hid, hname, if_true, if_false, Bool.false_eq_true, Option.some.injEq] at hm
    subst hm
    exact ⟨⟨hT.tokLt, cascade_memTeam _⟩, Nat.le_refl _, trivial⟩
  · -- plain insert
    rename_i hid hname
    simp only [hid, hname, if_false, Bool.false_eq_true, Option.some.injEq] at hm
    subst hm
    exact ⟨⟨hT.tokLt, hT.memTeam⟩, Nat.le_refl _, fun tid _ => ⟨rfl, rfl⟩⟩

/-- **Per-mutation obligation, table side**: whatever `exec` does on a success path lies within the
class `classOf` declares for the method (= success path) `methodAt` names. -/
theorem exec_effect (mode : Mode) (tb tb' : Tables) (op : Op) (m : Method) (r : Res) (hT : TInv tb)
    (hm : methodAt tb op = some m) (h : exec mode tb op = (r, some tb')) :
    TInv tb' ∧ EffectOK (classOf m) op.tokArg tb tb' := by
  cases op
  case applyCreateOrg name newId => exact eff_applyCreateOrg mode tb tb' name newId r m hT hm h
  all_goals simp only [methodAt, Op.method?, Option.some.injEq, reduceCtorEq] at hm
  all_goals subst hm
  case createOrg => exact eff_createOrg mode tb tb' _ _ r hT h
  case updateOrg => exact eff_updateOrg mode tb tb' _ _ _ r hT h
  case deleteOrg => exact eff_deleteOrg mode tb tb' _ r hT h
  case createTeam => exact eff_createTeam mode tb tb' _ _ _ r hT h
  case updateTeam => exact eff_updateTeam mode tb tb' _ _ _ r hT h
  case deleteTeam => exact eff_deleteTeam mode tb tb' _ r hT h
  case createRole => exact eff_createRole mode tb tb' _ _ _ _ r hT h
  case updateRole => exact eff_updateRole mode tb tb' _ _ _ r hT h
  case deleteRole => exact eff_deleteRole mode tb tb' _ r hT h
  case createMP => exact eff_createMP mode tb tb' _ _ _ _ r hT h
  case deleteMP => exact eff_deleteMP mode tb tb' _ r hT h
  case addMem => exact eff_addMem mode tb tb' _ _ _ r hT h
  case removeMem => exact eff_removeMem mode tb tb' _ _ r hT h
  case createToken => exact eff_createToken mode tb tb' _ _ _ r hT h
  case updateToken => exact eff_updateToken mode tb tb' _ _ r hT h
  case revokeToken => exact eff_revokeToken mode tb tb' _ r hT h
  case deleteToken => exact eff_deleteToken mode tb tb' _ r hT h
  case rotateToken => exact eff_rotateToken mode tb tb' _ r hT h

end Arc.C20
