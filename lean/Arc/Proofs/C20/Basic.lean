import Arc.Model.C20
/-! C20 helper lemmas: list facts, the invariants, and what each class of mutation preserves. -/
namespace Arc.C20

/-! ## list facts -/

theorem any_filter_of_imp {α : Type} (l : List α) (p q : α → Bool)
    (h : ∀ a, q a = true → p a = true) : (l.filter p).any q = l.any q := by
  induction l with
  | nil => rfl
  | cons a l ih =>
    cases hp : p a with
    | true => simp [List.filter, hp, List.any_cons, ih]
    | false =>
      have hq : q a = false := by
        cases hq : q a with
        | false => rfl
        | true => rw [h a hq] at hp; cases hp
      simp [List.filter, hp, List.any_cons, ih, hq]

theorem find_filter_of_imp {α : Type} (l : List α) (p q : α → Bool)
    (h : ∀ a, q a = true → p a = true) : (l.filter p).find? q = l.find? q := by
  induction l with
  | nil => rfl
  | cons a l ih =>
    cases hp : p a with
    | true =>
      simp only [List.filter, hp, List.find?]
      cases q a <;> simp [ih]
    | false =>
      have hq : q a = false := by
        cases hq : q a with
        | false => rfl
        | true => rw [h a hq] at hp; cases hp
      simp [List.filter, hp, hq, ih]

theorem find_filter_none {α : Type} (l : List α) (p q : α → Bool)
    (h : ∀ a, q a = true → p a = false) : (l.filter p).find? q = none := by
  induction l with
  | nil => rfl
  | cons a l ih =>
    cases hp : p a with
    | false => simp [List.filter, hp, ih]
    | true =>
      have hq : q a = false := by
        cases hq : q a with
        | false => rfl
        | true => rw [h a hq] at hp; cases hp
      simp [List.filter, hp, hq, ih]

theorem lookup_mem {α β : Type} [BEq α] [LawfulBEq α] (l : List (α × β)) (k : α) (v : β)
    (h : l.lookup k = some v) : (k, v) ∈ l := by
  induction l with
  | nil => simp [List.lookup] at h
  | cons a l ih =>
    obtain ⟨a1, a2⟩ := a
    simp only [List.lookup] at h
    cases hk : (k == a1) with
    | true =>
      rw [hk] at h
      have : k = a1 := eq_of_beq hk
      simp at h
      subst this; subst h
      exact List.mem_cons_self
    | false =>
      rw [hk] at h
      exact List.mem_cons_of_mem _ (ih h)

/-! ## token lookup -/

theorem tokenInfo_congr (tb tb' : Tables) (h : tb'.tokens = tb.tokens) (tid : Nat) :
    tokenInfo tb' tid = tokenInfo tb tid := by
  unfold tokenInfo; rw [h]

theorem loadData_congr (tb tb' : Tables) (h1 : tb'.teams = tb.teams) (h2 : tb'.roles = tb.roles)
    (h3 : tb'.mps = tb.mps) (h4 : tb'.mems = tb.mems) (tid : Nat) :
    loadData tb' tid = loadData tb tid := by
  unfold loadData memberTeams; rw [h1, h2, h3, h4]

theorem find_some_mem {α : Type} (l : List α) (p : α → Bool) (a : α) (h : l.find? p = some a) :
    a ∈ l ∧ p a = true := by
  induction l with
  | nil => simp at h
  | cons b l ih =>
    simp only [List.find?] at h
    cases hb : p b with
    | true => rw [hb] at h; simp at h; subst h; exact ⟨List.mem_cons_self, hb⟩
    | false => rw [hb] at h; exact ⟨List.mem_cons_of_mem _ (ih h).1, (ih h).2⟩

/-- table-level invariants: issued token ids stay below the bound; memberships reference teams. -/
structure TInv (tb : Tables) : Prop where
  tokLt : ∀ t ∈ tb.tokens, t.id < tb.tokBound
  memTeam : ∀ m ∈ tb.mems, ∃ t ∈ tb.teams, t.id = m.team

theorem tokenInfo_some_lt (tb : Tables) (hT : TInv tb) (tid : Nat) (perms : List Str)
    (h : tokenInfo tb tid = some perms) : tid < tb.tokBound := by
  unfold tokenInfo at h
  cases hf : tb.tokens.find? (fun t => t.id == tid) with
  | none => rw [hf] at h; simp at h
  | some t =>
    have := find_some_mem _ _ _ hf
    have hid : t.id = tid := by simpa using this.2
    rw [← hid]; exact hT.tokLt t this.1

/-- everything a decision for `tid` reads is the same in `tb'` as in `tb` -/
def SameFor (tb tb' : Tables) (tid : Nat) : Prop :=
  tokenInfo tb' tid = tokenInfo tb tid ∧ loadData tb' tid = loadData tb tid

/-- **the cache invariant**: every entry of either cache (expired or not) that belongs to a token
which currently authenticates equals what the policy / the loader computes from the current tables;
and no entry mentions a token id that has not been issued yet. -/
def CInv (tb : Tables) (pc : List (Key × Dec × Int)) (tc : List (Nat × TokData × Int)) : Prop :=
  (∀ e ∈ pc, e.1.tid < tb.tokBound ∧
      ∀ perms, tokenInfo tb e.1.tid = some perms → e.2.1 = evalData perms (loadData tb e.1.tid) e.1) ∧
  (∀ e ∈ tc, e.1 < tb.tokBound ∧
      ∀ perms, tokenInfo tb e.1 = some perms → e.2.1 = loadData tb e.1)

def SInv (s : State) : Prop := TInv s.tb ∧ CInv s.tb s.permCache s.tokCache

/-- what a successful mutation of class `c` about token `t` guarantees -/
def EffectOK (c : Class) (t : Nat) (tb tb' : Tables) : Prop :=
  tb.tokBound ≤ tb'.tokBound ∧
  match c with
  | .neutral => ∀ tid, tid < tb.tokBound → SameFor tb tb' tid
  | .tokenLocal => ∀ tid, tid < tb.tokBound → tid ≠ t → SameFor tb tb' tid
  | .tokenGone => tokenInfo tb' t = none ∧ ∀ tid, tid < tb.tokBound → tid ≠ t → SameFor tb tb' tid
  | .global => True

/-- removing entries never breaks the invariant (covers eviction, TTL cleanup, partial invalidation) -/
theorem CInv_sublist (tb : Tables) (pc pc' : List (Key × Dec × Int)) (tc tc' : List (Nat × TokData × Int))
    (h1 : ∀ e ∈ pc', e ∈ pc) (h2 : ∀ e ∈ tc', e ∈ tc) (h : CInv tb pc tc) : CInv tb pc' tc' :=
  ⟨fun e he => h.1 e (h1 e he), fun e he => h.2 e (h2 e he)⟩

theorem SInv_of_sub (s s' : State) (htb : s'.tb = s.tb) (hp : ∀ e ∈ s'.permCache, e ∈ s.permCache)
    (ht : ∀ e ∈ s'.tokCache, e ∈ s.tokCache) (h : SInv s) : SInv s' := by
  unfold SInv; rw [htb]
  exact ⟨h.1, CInv_sublist s.tb s.permCache s'.permCache s.tokCache s'.tokCache hp ht h.2⟩

theorem invalidateTokenWith_props (drops : Bool) (scan : Scan) (t : Nat) (s : State) :
    (∀ e ∈ (invalidateTokenWith drops scan t s).permCache, e ∈ s.permCache) ∧
    (∀ e ∈ (invalidateTokenWith drops scan t s).tokCache, e ∈ s.tokCache) ∧
    (invalidateTokenWith drops scan t s).tb = s.tb ∧ (invalidateTokenWith drops scan t s).mode = s.mode := by
  cases drops <;> cases scan <;> simp only [invalidateTokenWith, dropTokData, dropTokPerm]
  all_goals first
    | exact ⟨fun e he => (List.mem_filter.1 he).1, fun e he => (List.mem_filter.1 he).1, rfl, rfl⟩
    | exact ⟨fun e he => (List.mem_filter.1 he).1, fun e he => he, rfl, rfl⟩
    | exact ⟨fun e he => he, fun e he => (List.mem_filter.1 he).1, rfl, rfl⟩
    | exact ⟨fun e he => he, fun e he => he, rfl, rfl⟩
    | (split
       · first
         | exact ⟨fun e he => (List.mem_filter.1 he).1, fun e he => (List.mem_filter.1 he).1, rfl, rfl⟩
         | exact ⟨fun e he => (List.mem_filter.1 he).1, fun e he => he, rfl, rfl⟩
       · first
         | exact ⟨fun e he => he, fun e he => (List.mem_filter.1 he).1, rfl, rfl⟩
         | exact ⟨fun e he => he, fun e he => he, rfl, rfl⟩)

theorem invalidate_props (i : Inv) (t : Nat) (s : State) :
    (∀ e ∈ (invalidate i t s).permCache, e ∈ s.permCache) ∧
    (∀ e ∈ (invalidate i t s).tokCache, e ∈ s.tokCache) ∧
    (invalidate i t s).tb = s.tb ∧ (invalidate i t s).mode = s.mode := by
  cases i with
  | none => exact ⟨fun _ h => h, fun _ h => h, rfl, rfl⟩
  | token => exact invalidateTokenWith_props _ _ t s
  | all =>
    refine ⟨fun e he => ?_, fun e he => ?_, rfl, rfl⟩
    all_goals simp only [invalidate, invalidateAllWith] at he
    · split at he
      · simp at he
      · exact he
    · split at he
      · simp at he
      · exact he

theorem invalidate_token_strong (t : Nat) (s : State) (h : strong .token = true) :
    (invalidate .token t s).permCache = s.permCache.filter (fun e => !(e.1.tid == t)) ∧
    (invalidate .token t s).tokCache = s.tokCache.filter (fun e => !(e.1 == t)) := by
  simp only [strong, Bool.and_eq_true, beq_iff_eq] at h
  refine ⟨?_, ?_⟩ <;> simp only [invalidate, invalidateTokenWith, h.1, h.2, dropTokData, dropTokPerm, if_true]

theorem invalidate_all_strong (t : Nat) (s : State) (h : strong .all = true) :
    (invalidate .all t s).permCache = [] ∧ (invalidate .all t s).tokCache = [] := by
  simp only [strong, Bool.and_eq_true] at h
  simp [invalidate, invalidateAllWith, h.1, h.2]

/-- **The lifting lemma.** If the mutation needs no invalidation, or the invalidation `i` covers its
class (a finite check on the generated table) AND the invalidator really clears both caches
unconditionally (generated structure facts), and the mutation's effect on the tables is within its
class, then the cache invariant survives the mutation followed by that invalidation. -/
theorem CInv_mutation (c : Class) (i : Inv) (t : Nat) (s : State) (tb' : Tables)
    (hsuf : needsNone c = true ∨ (covers c i = true ∧ strong i = true))
    (heff : EffectOK c t s.tb tb') (h : CInv s.tb s.permCache s.tokCache) :
    CInv tb' (invalidate i t { s with tb := tb' }).permCache (invalidate i t { s with tb := tb' }).tokCache := by
  obtain ⟨hb, heff⟩ := heff
  -- entries whose token is unaffected carry over
  have carry : ∀ (P : Nat → Prop), (∀ tid, tid < s.tb.tokBound → P tid → SameFor s.tb tb' tid) →
      (∀ e ∈ s.permCache, P e.1.tid → e.1.tid < tb'.tokBound ∧
        ∀ perms, tokenInfo tb' e.1.tid = some perms → e.2.1 = evalData perms (loadData tb' e.1.tid) e.1) ∧
      (∀ e ∈ s.tokCache, P e.1 → e.1 < tb'.tokBound ∧
        ∀ perms, tokenInfo tb' e.1 = some perms → e.2.1 = loadData tb' e.1) := by
    intro P hP
    refine ⟨fun e he hPe => ?_, fun e he hPe => ?_⟩
    · have := h.1 e he
      have hs := hP _ this.1 hPe
      refine ⟨Nat.lt_of_lt_of_le this.1 hb, fun perms hp => ?_⟩
      rw [hs.1] at hp; rw [hs.2]; exact this.2 perms hp
    · have := h.2 e he
      have hs := hP _ this.1 hPe
      refine ⟨Nat.lt_of_lt_of_le this.1 hb, fun perms hp => ?_⟩
      rw [hs.1] at hp; rw [hs.2]; exact this.2 perms hp
  have hsub := invalidate_props i t { s with tb := tb' }
  -- mutations that need no invalidation: every surviving entry is still right
  have noneCase : needsNone c = true →
      CInv tb' (invalidate i t { s with tb := tb' }).permCache (invalidate i t { s with tb := tb' }).tokCache := by
    intro hn
    cases c with
    | neutral =>
      have := carry (fun _ => True) (fun tid hlt _ => heff tid hlt)
      exact ⟨fun e he => this.1 e (hsub.1 e he) trivial, fun e he => this.2 e (hsub.2.1 e he) trivial⟩
    | tokenGone =>
      have hc := carry (fun tid => tid ≠ t) (fun tid hlt hne => heff.2 tid hlt hne)
      refine ⟨fun e he => ?_, fun e he => ?_⟩
      · have he' := hsub.1 e he
        by_cases hte : e.1.tid = t
        · refine ⟨Nat.lt_of_lt_of_le (h.1 e he').1 hb, fun perms hp => ?_⟩
          rw [hte, heff.1] at hp; cases hp
        · exact hc.1 e he' hte
      · have he' := hsub.2.1 e he
        by_cases hte : e.1 = t
        · refine ⟨Nat.lt_of_lt_of_le (h.2 e he').1 hb, fun perms hp => ?_⟩
          rw [hte, heff.1] at hp; cases hp
        · exact hc.2 e he' hte
    | tokenLocal => simp [needsNone] at hn
    | global => simp [needsNone] at hn
  rcases hsuf with hn | ⟨hcov, hstrong⟩
  · exact noneCase hn
  cases i with
  | all =>
    have := invalidate_all_strong t { s with tb := tb' } hstrong
    rw [this.1, this.2]
    exact ⟨fun e he => by simp at he, fun e he => by simp at he⟩
  | none =>
    cases c with
    | neutral => exact noneCase rfl
    | tokenGone => exact noneCase rfl
    | tokenLocal => simp [covers] at hcov
    | global => simp [covers] at hcov
  | token =>
    have hst := invalidate_token_strong t { s with tb := tb' } hstrong
    rw [hst.1, hst.2]
    have hsame : ∀ tid, tid < s.tb.tokBound → tid ≠ t → SameFor s.tb tb' tid := by
      cases c with
      | neutral => exact fun tid hlt _ => heff tid hlt
      | tokenLocal => exact heff
      | tokenGone => exact heff.2
      | global => simp [covers] at hcov
    have hc := carry (fun tid => tid ≠ t) hsame
    refine ⟨fun e he => ?_, fun e he => ?_⟩
    · have := List.mem_filter.1 he
      exact hc.1 e this.1 (by simpa using this.2)
    · have := List.mem_filter.1 he
      exact hc.2 e this.1 (by simpa using this.2)

end Arc.C20
