import Arc.Proofs.C21.Inv
/-!
C21 — helper lemmas for `C21_full` / `C21_partial`: the single pooled connection (`ConnOK`), the
post-mutation database (`PostOK`) and what a verification started afterwards can do (`Late`).
-/
namespace Arc.C21

/-- with one pooled connection: whoever has read a row and not yet returned owns the connection -/
def ConnOK (s : State) : Prop :=
  ∀ (i : Nat) (v : VThread), s.vs[i]? = some v → (v.pc = .row ∨ v.pc = .preins ∨ v.pc = .ins) →
    s.sh.conn = some i

theorem mstep_conn {cfg : Cfg} {sh sh' : Shared} {m m' : MThread} (h : mstep cfg sh m = some (sh', m')) :
    sh'.conn = sh.conn ∧ m'.kind = m.kind ∧ m'.inval = m.inval := by
  rcases mstep_spec h with ⟨_, _, h2⟩ | ⟨_, hm', h2⟩
  · rcases h2 with ⟨r0, _, h1, h2⟩ | ⟨_, h1, h2⟩ <;> subst h1 <;> subst h2 <;> simp
  · subst hm'
    rcases h2 with ⟨_, _, h1⟩ | ⟨_, h1⟩ <;> subst h1 <;> simp

theorem connOK_step {cfg : Cfg} {s s' : State} {ev : Ev} (hser : cfg.serialDB = true) (hC : ConnOK s)
    (hs : step cfg s ev = some s') : ConnOK s' := by
  cases ev with
  | v i =>
    obtain ⟨v, sh', v', hv, hvs, hs'⟩ := step_v_spec hs
    subst hs'
    intro j vj hj hhold
    simp only at hj ⊢
    rcases getElem?_set_cases hj with ⟨hji, hb⟩ | ⟨hji, hj'⟩
    · subst hb; subst hji
      rcases vstep_spec hvs with ⟨_, _, h2⟩ | ⟨_, _, h2⟩ | ⟨hpc, r, _, h2⟩ | ⟨hpc, r, _, h1, h2⟩ | ⟨_, _, h2⟩ | ⟨_, _, h2⟩ | ⟨_, e, _, h2, _⟩
      rotate_right
      · subst h2; simp at hhold
      · rcases h2 with ⟨e, _, _, h2⟩ | h2 <;> subst h2 <;> simp at hhold
      · rcases h2 with ⟨r, _, h1, h2⟩ | ⟨_, _, h2⟩
        · subst h1; simp [hser]
        · subst h2; simp at hhold
      · rcases h2 with ⟨_, _, _, h2⟩ | ⟨_, _, h1, h2⟩ | ⟨_, _, h2⟩
        · subst h2; simp at hhold
        · subst h1; exact hC j v hv (Or.inl hpc)
        · subst h2; simp at hhold
      · have := hC j v hv (Or.inr (Or.inl hpc))
        rcases h2 with ⟨_, _, h2⟩ | ⟨_, h2⟩ <;> subst h2 <;> simpa using this
      · subst h2; simp at hhold
      · subst h2; simp at hhold
    · have hcj := hC j vj hj' hhold
      rcases vstep_spec hvs with ⟨_, h1, _⟩ | ⟨_, hcf, h2⟩ | ⟨hpc, _⟩ | ⟨hpc, _⟩ | ⟨hpc, _⟩ | ⟨_, h1, _⟩ | ⟨_, e, _, _, h2⟩
      rotate_right
      · rcases h2 with ⟨_, h1⟩ | h1 <;> subst h1 <;> exact hcj
      · subst h1; exact hcj
      · rcases h2 with ⟨r, _, _, _⟩ | ⟨_, h1, _⟩
        · unfold connFree at hcf
          rw [hser, hcj] at hcf
          simp at hcf
        · subst h1; exact hcj
      · have := hC i v hv (Or.inl hpc)
        rw [hcj] at this
        simp only [Option.some.injEq] at this
        exact absurd this hji
      · have := hC i v hv (Or.inr (Or.inl hpc))
        rw [hcj] at this
        simp only [Option.some.injEq] at this
        exact absurd this hji
      · have := hC i v hv (Or.inr (Or.inr hpc))
        rw [hcj] at this
        simp only [Option.some.injEq] at this
        exact absurd this hji
      · subst h1; exact hcj
  | m =>
    obtain ⟨sh', m', hms, hs'⟩ := step_m_spec hs
    subst hs'
    intro j vj hj hhold
    simp only at hj ⊢
    rw [(mstep_conn hms).1]
    exact hC j vj hj hhold
  | tick d =>
    simp only [step, Option.some.injEq] at hs
    subst hs
    exact hC
  | janitor =>
    simp only [step, Option.some.injEq] at hs
    subst hs
    exact hC

/-- with one pooled connection the mutator's SQL statement can only run when nobody holds a row. -/
theorem noReaders_of_conn {cfg : Cfg} {s s' : State} (hser : cfg.serialDB = true) (hC : ConnOK s)
    (hs : step cfg s .m = some s') (hpc : s.m.pc = .start) : NoReaders s := by
  obtain ⟨sh', m', hms, _⟩ := step_m_spec hs
  have hcf : connFree cfg s.sh = true := by
    rcases mstep_spec hms with ⟨_, hcf, _⟩ | ⟨hpc', _⟩
    · exact hcf
    · rw [hpc] at hpc'; simp at hpc'
  unfold connFree at hcf
  rw [hser] at hcf
  simp at hcf
  intro j vj hj
  constructor
  · intro hp
    have := hC j vj hj (Or.inl hp)
    rw [hcf] at this; simp at this
  · intro hp
    have := hC j vj hj (Or.inr (Or.inl hp))
    rw [hcf] at this; simp at this

/-- invariant + connection discipline are preserved together when the source has either protection. -/
theorem inv_conn_step {cfg : Cfg} {s s' : State} {ev : Ev}
    (hcfg : cfg.serialDB = true ∨ cfg.genGuard = true) (hnt : cfg.hitTouch = false)
    (hI : Inv cfg s) (hC : cfg.serialDB = true → ConnOK s) (hs : step cfg s ev = some s') :
    Inv cfg s' ∧ (cfg.serialDB = true → ConnOK s') := by
  refine ⟨?_, fun hser => connOK_step hser (hC hser) hs⟩
  apply inv_step hnt hI hs
  cases hg : cfg.genGuard with
  | true => exact Or.inl rfl
  | false =>
    right
    have hser : cfg.serialDB = true := by
      rcases hcfg with h | h
      · exact h
      · rw [hg] at h; simp at h
    by_cases hm : ev = .m ∧ s.m.pc = .start
    · right
      obtain ⟨he, hpc⟩ := hm
      subst he
      exact noReaders_of_conn hser (hC hser) hs hpc
    · exact Or.inl hm

theorem inv_conn_run {cfg : Cfg} (hcfg : cfg.serialDB = true ∨ cfg.genGuard = true)
    (hnt : cfg.hitTouch = false) :
    ∀ (evs : List Ev) (s s' : State), Inv cfg s → (cfg.serialDB = true → ConnOK s) →
      run cfg s evs = some s' → Inv cfg s' ∧ (cfg.serialDB = true → ConnOK s') := by
  intro evs
  induction evs with
  | nil =>
    intro s s' hI hC hr
    simp only [run, Option.some.injEq] at hr
    subst hr
    exact ⟨hI, hC⟩
  | cons e es ih =>
    intro s s' hI hC hr
    simp only [run] at hr
    split at hr
    · simp at hr
    · rename_i s1 hs1
      have := inv_conn_step hcfg hnt hI hC hs1
      exact ih s1 s' this.1 this.2 hr

/-! ### the database after the mutation -/

/-- `k` is a value the mutation kills: any value for revoke/delete, any value but the new one for rotate;
and once the SQL statement has run the database holds no enabled row for `k`. -/
def PostOK (s : State) (k : Nat) : Prop :=
  ((∀ nv, s.m.kind = .rotate nv → k ≠ nv) ∧ (∀ e, s.m.kind ≠ .setexp e)) ∧
    (s.m.pc ≠ .start → ∀ r, s.sh.db = some r → r.enabled = true → r.hashOf ≠ k)

theorem postOK_step {cfg : Cfg} {s s' : State} {ev : Ev} {k : Nat} (hP : PostOK s k)
    (hs : step cfg s ev = some s') : PostOK s' k := by
  cases ev with
  | v i =>
    obtain ⟨v, sh', v', _, hvs, hs'⟩ := step_v_spec hs
    subst hs'
    have hf := vstep_frame hvs
    refine ⟨hP.1, ?_⟩
    simp only
    rw [hf.1]
    exact hP.2
  | m =>
    obtain ⟨sh', m', hms, hs'⟩ := step_m_spec hs
    subst hs'
    have hk := (mstep_conn hms).2.1
    refine ⟨by simp only; rw [hk]; exact hP.1, ?_⟩
    simp only
    rcases mstep_spec hms with ⟨_, _, h2⟩ | ⟨hpc, hm', h2⟩
    · rcases h2 with ⟨r0, _, h1, _⟩ | ⟨hdb, h1, _⟩
      · subst h1
        intro _ r hr hen
        simp only at hr
        cases hkind : s.m.kind with
        | revoke =>
          rw [hkind] at hr
          simp only [applyKind, Option.some.injEq] at hr
          subst hr
          simp at hen
        | delete =>
          rw [hkind] at hr
          simp [applyKind] at hr
        | rotate nv =>
          rw [hkind] at hr
          simp only [applyKind, Option.some.injEq] at hr
          subst hr
          simp only
          exact fun h => hP.1.1 nv hkind h.symm
        | setexp e => exact absurd hkind (hP.1.2 e)
      · subst h1
        intro _ r hr
        rw [hdb] at hr
        simp at hr
    · have hne : s.m.pc ≠ .start := by rw [hpc]; simp
      rcases h2 with ⟨_, _, h1⟩ | ⟨_, h1⟩ <;> subst h1 <;> intro _ <;> exact hP.2 hne
  | tick d =>
    simp only [step, Option.some.injEq] at hs
    subst hs
    exact hP
  | janitor =>
    simp only [step, Option.some.injEq] at hs
    subst hs
    exact hP

theorem postOK_run {cfg : Cfg} {k : Nat} :
    ∀ (evs : List Ev) (s s' : State), PostOK s k → run cfg s evs = some s' → PostOK s' k := by
  intro evs
  induction evs with
  | nil =>
    intro s s' hP hr
    simp only [run, Option.some.injEq] at hr
    subst hr
    exact hP
  | cons e es ih =>
    intro s s' hP hr
    simp only [run] at hr
    split at hr
    · simp at hr
    · rename_i s1 hs1
      exact ih s1 s' (postOK_step hP hs1) hr

/-! ### a verification that starts after the mutator returned -/

def Late (k : Nat) (v : VThread) : Prop :=
  v.val = k ∧ v.res ≠ some true ∧
    (v.pc = .start ∨ v.pc = .miss ∨ v.pc = .norow ∨ v.pc = .done ∨
      (v.pc = .row ∧ ∃ r, v.rd = some r ∧ r.hashOf ≠ k))

theorem late_step {cfg : Cfg} {s s' : State} {ev : Ev} {k i : Nat} {v : VThread}
    (hI : Inv cfg s) (hdone : s.m.pc = .done) (hP : PostOK s k)
    (hv : s.vs[i]? = some v) (hL : Late k v) (hs : step cfg s ev = some s') :
    s'.m.pc = .done ∧ ∃ v', s'.vs[i]? = some v' ∧ Late k v' := by
  have hdead : ∀ r, s.sh.db = some r → r.enabled = true → r.hashOf ≠ k :=
    hP.2 (by rw [hdone]; simp)
  cases ev with
  | v j =>
    obtain ⟨vj, sh', vj', hvj, hvs, hs'⟩ := step_v_spec hs
    subst hs'
    refine ⟨hdone, ?_⟩
    simp only
    by_cases hji : j = i
    · subst hji
      rw [hv] at hvj
      simp only [Option.some.injEq] at hvj
      subst hvj
      refine ⟨vj', by simp [List.getElem?_set_self', hv], ?_⟩
      obtain ⟨hval, hres, hpcs⟩ := hL
      rcases vstep_spec hvs with ⟨_, _, h2⟩ | ⟨_, _, h2⟩ | ⟨hpc, r, hrd, h2⟩ | ⟨hpc, _⟩ | ⟨hpc, _⟩ | ⟨_, _, h2⟩ | ⟨hpc, _⟩
      rotate_right
      · exfalso
        rcases hpcs with h | h | h | h | ⟨h, _⟩ <;> rw [hpc] at h <;> simp at h
      · rcases h2 with ⟨e, he, _, _⟩ | h2
        · exfalso
          rcases hI.cache v.val e (lookup_mem he) with ⟨hc, hh⟩ | hfl
          · exact hdead e.info hc.1 hc.2 (by rw [hh, hval])
          · rw [hfl.1] at hdone; simp at hdone
        · subst h2; exact ⟨hval, hres, Or.inr (Or.inl rfl)⟩
      · rcases h2 with ⟨r, hc, _, h2⟩ | ⟨_, _, h2⟩
        · subst h2
          have hcs := candidate_spec hc
          exact ⟨hval, hres, Or.inr (Or.inr (Or.inr (Or.inr ⟨rfl, r, rfl, hdead r hcs.1 hcs.2.1⟩)))⟩
        · subst h2; exact ⟨hval, hres, Or.inr (Or.inr (Or.inl rfl))⟩
      · have hne : r.hashOf ≠ k := by
          rcases hpcs with h | h | h | h | ⟨_, r', hr', hne⟩
          · rw [hpc] at h; simp at h
          · rw [hpc] at h; simp at h
          · rw [hpc] at h; simp at h
          · rw [hpc] at h; simp at h
          · rw [hrd] at hr'
            simp only [Option.some.injEq] at hr'
            subst hr'
            exact hne
        rcases h2 with ⟨hh, _⟩ | ⟨hh, _⟩ | ⟨_, _, h2⟩
        · exact absurd (hh.trans hval) hne
        · exact absurd (hh.trans hval) hne
        · subst h2; exact ⟨hval, hres, Or.inr (Or.inr (Or.inl rfl))⟩
      · exfalso
        rcases hpcs with h | h | h | h | ⟨h, _⟩ <;> rw [hpc] at h <;> simp at h
      · exfalso
        rcases hpcs with h | h | h | h | ⟨h, _⟩ <;> rw [hpc] at h <;> simp at h
      · subst h2; exact ⟨hval, by simp, Or.inr (Or.inr (Or.inr (Or.inl rfl)))⟩
    · exact ⟨v, by rw [List.getElem?_set_ne hji]; exact hv, hL⟩
  | m =>
    obtain ⟨sh', m', hms, _⟩ := step_m_spec hs
    rcases mstep_spec hms with ⟨hpc, _⟩ | ⟨hpc, _⟩ <;> rw [hdone] at hpc <;> simp at hpc
  | tick d =>
    simp only [step, Option.some.injEq] at hs
    subst hs
    exact ⟨hdone, v, hv, hL⟩
  | janitor =>
    simp only [step, Option.some.injEq] at hs
    subst hs
    exact ⟨hdone, v, hv, hL⟩

end Arc.C21
