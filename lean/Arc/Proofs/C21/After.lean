import Arc.Proofs.C21.Inv
/-!
C21 — helper lemmas for `C21_authn_after_return`: once the mutator has returned (any kind, including an
`expires_at` update) a verification that starts afterwards is justified by the row the database holds NOW.
-/
namespace Arc.C21

/-- the row justifies authenticating `val` at clock reading `now` -/
def Good (db : Option Row) (r : Row) (val now : Nat) : Prop :=
  db = some r ∧ r.enabled = true ∧ r.hashOf = val ∧ expired r.expiry now = false

def LateAuth (db : Option Row) (v : VThread) : Prop :=
  (v.pc = .start ∧ v.res = none) ∨
  (v.pc = .hit ∧ ∃ e, v.he = some e ∧ Good db e.info v.val v.now) ∨
  (v.pc = .miss ∧ v.res = none) ∨
  (v.pc = .row ∧ v.res = none ∧ ∃ r, v.rd = some r ∧ db = some r ∧ r.enabled = true) ∨
  ((v.pc = .preins ∨ v.pc = .ins) ∧ ∃ r, v.rd = some r ∧ Good db r v.val v.now) ∨
  (v.pc = .norow ∧ v.res = none) ∨
  (v.pc = .done ∧ (v.res = some true → ∃ r, Good db r v.val v.now))

theorem lateauth_vstep {cfg : Cfg} {sh sh' : Shared} {i : Nat} {v v' : VThread} {m : MThread}
    (hx : cfg.hitChecksExpiry = true) (hcache : CacheOK sh.db m sh.cache) (hnf : ¬ InFlight m)
    (hL : LateAuth sh.db v) (h : vstep cfg sh i v = some (sh', v')) : LateAuth sh.db v' := by
  rcases vstep_spec h with ⟨hpc, _, h2⟩ | ⟨hpc, _, h2⟩ | ⟨hpc, r, hrd, h2⟩ | ⟨hpc, r, hrd, h1, _⟩ | ⟨hpc, _, h2⟩ | ⟨hpc, _, h2⟩ | ⟨hpc, e, he, h2, _⟩
  · -- start
    have hres : v.res = none := by
      rcases hL with ⟨_, h⟩ | ⟨h, _⟩ | ⟨h, _⟩ | ⟨h, _⟩ | ⟨h, _⟩ | ⟨h, _⟩ | ⟨h, _⟩
      · exact h
      all_goals (first | (rw [hpc] at h; simp at h) | (rcases h with h | h <;> rw [hpc] at h <;> simp at h))
    rcases h2 with ⟨e, hlk, hhit, h2⟩ | h2
    · subst h2
      right; left
      refine ⟨rfl, e, rfl, ?_⟩
      rcases hcache v.val e (lookup_mem hlk) with ⟨hc, hh⟩ | hfl
      · unfold hitOk at hhit
        simp only [Bool.and_eq_true, decide_eq_true_eq, Bool.or_eq_true, Bool.not_eq_eq_eq_not,
          Bool.not_true] at hhit
        refine ⟨hc.1, hc.2, hh, ?_⟩
        rcases hhit.2 with h | h
        · rw [hx] at h; simp at h
        · exact h
      · exact absurd hfl hnf
    · subst h2
      right; right; left
      exact ⟨rfl, hres⟩
  · -- miss
    have hres : v.res = none := by
      rcases hL with ⟨h, _⟩ | ⟨h, _⟩ | ⟨_, h⟩ | ⟨h, _⟩ | ⟨h, _⟩ | ⟨h, _⟩ | ⟨h, _⟩
      · rw [hpc] at h; simp at h
      · rw [hpc] at h; simp at h
      · exact h
      all_goals (first | (rw [hpc] at h; simp at h) | (rcases h with h | h <;> rw [hpc] at h <;> simp at h))
    rcases h2 with ⟨r, hc, _, h2⟩ | ⟨_, _, h2⟩
    · subst h2
      have hcs := candidate_spec hc
      right; right; right; left
      exact ⟨rfl, hres, r, rfl, hcs.1, hcs.2.1⟩
    · subst h2
      right; right; right; right; right; left
      exact ⟨rfl, hres⟩
  · -- row
    have hrow : v.res = none ∧ sh.db = some r ∧ r.enabled = true := by
      rcases hL with ⟨h, _⟩ | ⟨h, _⟩ | ⟨h, _⟩ | ⟨_, hres, r', hr', hdb, hen⟩ | ⟨h, _⟩ | ⟨h, _⟩ | ⟨h, _⟩
      · rw [hpc] at h; simp at h
      · rw [hpc] at h; simp at h
      · rw [hpc] at h; simp at h
      · rw [hrd] at hr'
        simp only [Option.some.injEq] at hr'
        subst hr'
        exact ⟨hres, hdb, hen⟩
      · rcases h with h | h <;> rw [hpc] at h <;> simp at h
      · rw [hpc] at h; simp at h
      · rw [hpc] at h; simp at h
    rcases h2 with ⟨_, _, _, h2⟩ | ⟨hh, hexp, _, h2⟩ | ⟨_, _, h2⟩
    · subst h2
      right; right; right; right; right; right
      exact ⟨rfl, fun hh => by simp at hh⟩
    · subst h2
      right; right; right; right; left
      exact ⟨Or.inl rfl, r, hrd, hrow.2.1, hrow.2.2, hh, hexp⟩
    · subst h2
      right; right; right; right; right; left
      exact ⟨rfl, hrow.1⟩
  · -- preins
    subst h1
    right; right; right; right; left
    rcases hL with ⟨h, _⟩ | ⟨h, _⟩ | ⟨h, _⟩ | ⟨h, _⟩ | ⟨_, hg⟩ | ⟨h, _⟩ | ⟨h, _⟩
    · rw [hpc] at h; simp at h
    · rw [hpc] at h; simp at h
    · rw [hpc] at h; simp at h
    · rw [hpc] at h; simp at h
    · exact ⟨Or.inr rfl, hg⟩
    · rw [hpc] at h; simp at h
    · rw [hpc] at h; simp at h
  · -- ins
    subst h2
    right; right; right; right; right; right
    rcases hL with ⟨h, _⟩ | ⟨h, _⟩ | ⟨h, _⟩ | ⟨h, _⟩ | ⟨_, r, _, hg⟩ | ⟨h, _⟩ | ⟨h, _⟩
    · rw [hpc] at h; simp at h
    · rw [hpc] at h; simp at h
    · rw [hpc] at h; simp at h
    · rw [hpc] at h; simp at h
    · exact ⟨rfl, fun _ => ⟨r, hg⟩⟩
    · rw [hpc] at h; simp at h
    · rw [hpc] at h; simp at h
  · -- norow
    subst h2
    right; right; right; right; right; right
    exact ⟨rfl, fun hh => by simp at hh⟩
  · -- hit
    subst h2
    right; right; right; right; right; right
    rcases hL with ⟨h, _⟩ | ⟨_, e', he', hg⟩ | ⟨h, _⟩ | ⟨h, _⟩ | ⟨h, _⟩ | ⟨h, _⟩ | ⟨h, _⟩
    · rw [hpc] at h; simp at h
    · exact ⟨rfl, fun _ => ⟨e'.info, hg⟩⟩
    · rw [hpc] at h; simp at h
    · rw [hpc] at h; simp at h
    · rcases h with h | h <;> rw [hpc] at h <;> simp at h
    · rw [hpc] at h; simp at h
    · rw [hpc] at h; simp at h

/-- one step of the whole system after the mutator returned. -/
theorem lateauth_step {cfg : Cfg} {s s' : State} {ev : Ev} {i : Nat} {v : VThread}
    (hx : cfg.hitChecksExpiry = true) (hI : Inv cfg s) (hdone : s.m.pc = .done)
    (hv : s.vs[i]? = some v) (hL : LateAuth s.sh.db v) (hs : step cfg s ev = some s') :
    s'.m.pc = .done ∧ s'.sh.db = s.sh.db ∧ ∃ v', s'.vs[i]? = some v' ∧ LateAuth s'.sh.db v' := by
  have hnf : ¬ InFlight s.m := fun h => by have h1 := h.1; rw [hdone] at h1; simp at h1
  cases ev with
  | v j =>
    obtain ⟨vj, sh', vj', hvj, hvs, hs'⟩ := step_v_spec hs
    subst hs'
    have hf := vstep_frame hvs
    refine ⟨hdone, hf.1, ?_⟩
    simp only
    rw [hf.1]
    by_cases hji : j = i
    · subst hji
      rw [hv] at hvj
      simp only [Option.some.injEq] at hvj
      subst hvj
      exact ⟨vj', by simp [List.getElem?_set_self', hv], lateauth_vstep hx hI.cache hnf hL hvs⟩
    · exact ⟨v, by rw [List.getElem?_set_ne hji]; exact hv, hL⟩
  | m =>
    obtain ⟨sh', m', hms, _⟩ := step_m_spec hs
    rcases mstep_spec hms with ⟨hpc, _⟩ | ⟨hpc, _⟩ <;> rw [hdone] at hpc <;> simp at hpc
  | tick d =>
    simp only [step, Option.some.injEq] at hs
    subst hs
    exact ⟨hdone, rfl, v, hv, hL⟩
  | janitor =>
    simp only [step, Option.some.injEq] at hs
    subst hs
    exact ⟨hdone, rfl, v, hv, hL⟩

end Arc.C21
