import Arc.Proofs.C21.Steps
/-!
C21 — the safety invariant of the LTS and its preservation (helper lemmas).
-/
namespace Arc.C21

theorem step_v_spec {cfg : Cfg} {s s' : State} {i : Nat} (h : step cfg s (.v i) = some s') :
    ∃ v sh' v', s.vs[i]? = some v ∧ vstep cfg s.sh i v = some (sh', v') ∧
      s' = { s with sh := sh', vs := s.vs.set i v' } := by
  simp only [step] at h
  split at h
  · simp at h
  · rename_i v hv
    split at h
    · simp at h
    · rename_i r hr
      simp only [Option.some.injEq] at h
      exact ⟨v, r.1, r.2, hv, by simpa using hr, h.symm⟩

theorem step_m_spec {cfg : Cfg} {s s' : State} (h : step cfg s .m = some s') :
    ∃ sh' m', mstep cfg s.sh s.m = some (sh', m') ∧ s' = { s with sh := sh', m := m' } := by
  simp only [step] at h
  split at h
  · simp at h
  · rename_i r hr
    simp only [Option.some.injEq] at h
    exact ⟨r.1, r.2, by simpa using hr, h.symm⟩

/-- the row is what the database holds now, and it is enabled -/
def Current (db : Option Row) (r : Row) : Prop := db = some r ∧ r.enabled = true

/-- the mutator has changed a row and has not invalidated the cache yet -/
def InFlight (m : MThread) : Prop := m.pc = .upd ∧ m.found = true

def CacheOK (db : Option Row) (m : MThread) (c : List (Nat × Entry)) : Prop :=
  ∀ k e, (k, e) ∈ c → (Current db e.info ∧ e.info.hashOf = k) ∨ InFlight m

def ReadOK (cfg : Cfg) (db : Option Row) (gen : Nat) (m : MThread) (v : VThread) : Prop :=
  (v.pc = .row ∨ v.pc = .preins) →
    ∃ r, v.rd = some r ∧ (v.pc = .preins → r.hashOf = v.val) ∧
      ((cfg.genGuard = true ∧ (v.gen = gen → Current db r ∨ InFlight m)) ∨
        (cfg.genGuard = false ∧ Current db r))

structure Inv (cfg : Cfg) (s : State) : Prop where
  cache : CacheOK s.sh.db s.m s.sh.cache
  reads : ∀ (i : Nat) (v : VThread), s.vs[i]? = some v → ReadOK cfg s.sh.db s.sh.gen s.m v
  gens : ∀ (i : Nat) (v : VThread), s.vs[i]? = some v → v.pc ≠ .start → v.gen ≤ s.sh.gen
  inval : s.m.inval = true

/-- no verifier is between its database read and its cache insert -/
def NoReaders (s : State) : Prop := ∀ (i : Nat) (v : VThread), s.vs[i]? = some v → v.pc ≠ .row ∧ v.pc ≠ .preins

theorem vstep_frame {cfg : Cfg} {sh sh' : Shared} {i : Nat} {v v' : VThread}
    (h : vstep cfg sh i v = some (sh', v')) :
    sh'.db = sh.db ∧ sh'.gen = sh.gen ∧ sh'.now = sh.now ∧ v'.val = v.val := by
  rcases vstep_spec h with ⟨_, h1, h2⟩ | ⟨_, _, h2⟩ | ⟨_, r, _, h2⟩ | ⟨_, r, _, h1, h2⟩ | ⟨_, h1, h2⟩ | ⟨_, h1, h2⟩ | ⟨_, e, _, h1, h2⟩
  rotate_left
  · rcases h2 with ⟨r, _, h1, h2⟩ | ⟨_, h1, h2⟩ <;> subst h1 <;> subst h2 <;> simp
  · rcases h2 with ⟨_, _, h1, h2⟩ | ⟨_, _, h1, h2⟩ | ⟨_, h1, h2⟩ <;> subst h1 <;> subst h2 <;> simp
  · subst h1
    rcases h2 with ⟨_, _, h2⟩ | ⟨_, h2⟩ <;> subst h2 <;> simp
  · subst h1; subst h2; simp
  · subst h1; subst h2; simp
  · subst h1
    rcases h2 with ⟨_, h2⟩ | h2 <;> subst h2 <;> simp
  · subst h1
    rcases h2 with ⟨e, _, _, h2⟩ | h2 <;> subst h2 <;> simp

theorem vstep_cache {cfg : Cfg} {sh sh' : Shared} {i : Nat} {v v' : VThread}
    (hnt : cfg.hitTouch = false)
    (h : vstep cfg sh i v = some (sh', v')) (p : Nat × Entry) (hp : p ∈ sh'.cache) :
    p ∈ sh.cache ∨ (v.pc = .preins ∧ ∃ r, v.rd = some r ∧
      p = (v.val, { info := r, cexp := v.now + cfg.ttl }) ∧ (cfg.genGuard = true → v.gen = sh.gen)) := by
  rcases vstep_spec h with ⟨_, h1, _⟩ | ⟨_, _, h2⟩ | ⟨_, r, _, h2⟩ | ⟨hpc, r, hr, _, h2⟩ | ⟨_, h1, _⟩ | ⟨_, h1, _⟩ | ⟨_, e, _, _, h2⟩
  rotate_right
  · rcases h2 with ⟨ht, _⟩ | h2
    · rw [hnt] at ht; simp at ht
    · subst h2; exact Or.inl hp
  · subst h1; exact Or.inl hp
  · rcases h2 with ⟨r, _, h1, _⟩ | ⟨_, h1, _⟩ <;> subst h1 <;> exact Or.inl hp
  · rcases h2 with ⟨_, _, h1, _⟩ | ⟨_, _, h1, _⟩ | ⟨_, h1, _⟩ <;> subst h1 <;> exact Or.inl hp
  · rcases h2 with ⟨_, _, h2⟩ | ⟨hg, h2⟩
    · subst h2; exact Or.inl hp
    · subst h2
      simp only at hp
      rcases mem_insertCache hp with hp | hp
      · exact Or.inr ⟨hpc, r, hr, hp, hg⟩
      · exact Or.inl hp
  · subst h1; exact Or.inl hp
  · subst h1; exact Or.inl hp

/-- the stepping verifier's own read stays justified. -/
theorem vstep_read {cfg : Cfg} {sh sh' : Shared} {i : Nat} {v v' : VThread} {m : MThread}
    (h : vstep cfg sh i v = some (sh', v')) (hr : ReadOK cfg sh.db sh.gen m v) :
    ReadOK cfg sh'.db sh'.gen m v' := by
  have hf := vstep_frame h
  rw [hf.1, hf.2.1]
  rcases vstep_spec h with ⟨_, _, h2⟩ | ⟨_, _, h2⟩ | ⟨hpc, r, hrd, h2⟩ | ⟨_, r, _, h1, _⟩ | ⟨_, _, h2⟩ | ⟨_, _, h2⟩ | ⟨_, e, _, h2, _⟩
  rotate_right
  · subst h2; intro hpc; simp at hpc
  · rcases h2 with ⟨e, _, _, h2⟩ | h2 <;> subst h2 <;> intro hpc <;> simp at hpc
  · rcases h2 with ⟨r, hc, _, h2⟩ | ⟨_, _, h2⟩
    · subst h2
      intro _
      have hcs := candidate_spec hc
      refine ⟨r, rfl, by simp, ?_⟩
      cases hg : cfg.genGuard with
      | true => exact Or.inl ⟨rfl, fun _ => Or.inl ⟨hcs.1, hcs.2.1⟩⟩
      | false => exact Or.inr ⟨rfl, ⟨hcs.1, hcs.2.1⟩⟩
    · subst h2; intro hpc; simp at hpc
  · rcases h2 with ⟨_, _, _, h2⟩ | ⟨hh, _, _, h2⟩ | ⟨_, _, h2⟩
    · subst h2; intro hpc; simp at hpc
    · subst h2
      intro _
      obtain ⟨r', hr', _, h3⟩ := hr (Or.inl hpc)
      rw [hrd] at hr'
      simp only [Option.some.injEq] at hr'
      subst hr'
      exact ⟨r, hrd, fun _ => hh, h3⟩
    · subst h2; intro hpc; simp at hpc
  · subst h1; intro hpc; simp at hpc
  · subst h2; intro hpc; simp at hpc
  · subst h2; intro hpc; simp at hpc

theorem vstep_gen {cfg : Cfg} {sh sh' : Shared} {i : Nat} {v v' : VThread}
    (h : vstep cfg sh i v = some (sh', v')) :
    (v.pc = .start → v'.gen = sh.gen) ∧ (v.pc ≠ .start → v'.gen = v.gen) := by
  rcases vstep_spec h with ⟨hpc, _, h2⟩ | ⟨hpc, _, h2⟩ | ⟨hpc, r, _, h2⟩ | ⟨hpc, r, _, h1, _⟩ | ⟨hpc, _, h2⟩ | ⟨hpc, _, h2⟩ | ⟨hpc, e, _, h2, _⟩
  rotate_right
  · subst h2; simp [hpc]
  · rcases h2 with ⟨e, _, _, h2⟩ | h2 <;> subst h2 <;> simp [hpc]
  · rcases h2 with ⟨r, _, _, h2⟩ | ⟨_, _, h2⟩ <;> subst h2 <;> simp [hpc]
  · rcases h2 with ⟨_, _, _, h2⟩ | ⟨_, _, _, h2⟩ | ⟨_, _, h2⟩ <;> subst h2 <;> simp [hpc]
  · subst h1; simp [hpc]
  · subst h2; simp [hpc]
  · subst h2; simp [hpc]

/-- **Preservation.** Every step keeps the invariant, except a mutator SQL statement executed while
some verifier sits between its database read and its cache insert in a configuration without the
generation guard — the side condition `hsafe` excludes exactly that — and provided the cache-hit path
does not write the cache (`hnt`). -/
theorem inv_step {cfg : Cfg} {s s' : State} {ev : Ev} (hnt : cfg.hitTouch = false) (hI : Inv cfg s)
    (hs : step cfg s ev = some s')
    (hsafe : cfg.genGuard = true ∨ ¬ (ev = .m ∧ s.m.pc = .start) ∨ NoReaders s) : Inv cfg s' := by
  cases ev with
  | v i =>
    obtain ⟨v, sh', v', hv, hvs, hs'⟩ := step_v_spec hs
    subst hs'
    have hf := vstep_frame hvs
    refine ⟨?_, ?_, ?_, hI.inval⟩
    · -- cache
      intro k e hke
      simp only at hke ⊢
      rw [hf.1]
      rcases vstep_cache hnt hvs (k, e) hke with hold | ⟨hpc, r, hrd, hp, hg⟩
      · exact hI.cache k e hold
      · simp only [Prod.mk.injEq] at hp
        obtain ⟨hk, he⟩ := hp
        subst he
        simp only
        obtain ⟨r', hr', hh, h3⟩ := hI.reads i v hv (Or.inr hpc)
        rw [hrd] at hr'
        simp only [Option.some.injEq] at hr'
        subst hr'
        rcases h3 with ⟨hgg, h3⟩ | ⟨_, h3⟩
        · rcases h3 (hg hgg) with hc | hfl
          · exact Or.inl ⟨hc, by rw [hk]; exact hh hpc⟩
          · exact Or.inr hfl
        · exact Or.inl ⟨h3, by rw [hk]; exact hh hpc⟩
    · -- reads
      intro j vj hj
      simp only at hj ⊢
      rcases getElem?_set_cases hj with ⟨_, hb⟩ | ⟨_, hj'⟩
      · subst hb
        exact vstep_read hvs (hI.reads i v hv)
      · rw [hf.1, hf.2.1]
        exact hI.reads j vj hj'
    · -- gens
      intro j vj hj hpc
      simp only at hj ⊢
      rw [hf.2.1]
      rcases getElem?_set_cases hj with ⟨_, hb⟩ | ⟨_, hj'⟩
      · subst hb
        have hg := vstep_gen hvs
        by_cases hst : v.pc = .start
        · rw [hg.1 hst]; exact Nat.le_refl _
        · rw [hg.2 hst]; exact hI.gens i v hv hst
      · exact hI.gens j vj hj' hpc
  | m =>
    obtain ⟨sh', m', hms, hs'⟩ := step_m_spec hs
    subst hs'
    rcases mstep_spec hms with ⟨hpc, _, h2⟩ | ⟨hpc, hm', h2⟩
    · rcases h2 with ⟨r0, hdb, h1, h2⟩ | ⟨hdb, h1, h2⟩
      · -- the SQL statement changed the row: everything older is covered by InFlight
        subst h1; subst h2
        have hfl : InFlight { s.m with pc := MPc.upd, found := true } := ⟨rfl, rfl⟩
        refine ⟨?_, ?_, ?_, hI.inval⟩
        · intro k e _; exact Or.inr hfl
        · intro j vj hj hp
          simp only at hj ⊢
          cases hg : cfg.genGuard with
          | true =>
            obtain ⟨r, hr, hh, _⟩ := hI.reads j vj hj hp
            exact ⟨r, hr, hh, Or.inl ⟨rfl, fun _ => Or.inr hfl⟩⟩
          | false =>
            rcases hsafe with hsafe | hsafe | hsafe
            · rw [hg] at hsafe; simp at hsafe
            · exact absurd ⟨rfl, hpc⟩ hsafe
            · have := hsafe j vj hj
              rcases hp with hp | hp
              · exact absurd hp this.1
              · exact absurd hp this.2
        · intro j vj hj hp; exact hI.gens j vj hj hp
      · -- no row: nothing changed
        subst h1; subst h2
        have hnf : ¬ InFlight s.m := fun h => by have h1 := h.1; rw [hpc] at h1; simp at h1
        refine ⟨?_, ?_, ?_, hI.inval⟩
        · intro k e hke
          rcases hI.cache k e hke with h | h
          · exact Or.inl h
          · exact absurd h hnf
        · intro j vj hj hp
          simp only at hj ⊢
          obtain ⟨r, hr, hh, h3⟩ := hI.reads j vj hj hp
          refine ⟨r, hr, hh, ?_⟩
          rcases h3 with ⟨hg, h3⟩ | h3
          · refine Or.inl ⟨hg, fun hgen => ?_⟩
            rcases h3 hgen with h | h
            · exact Or.inl h
            · exact absurd h hnf
          · exact Or.inr h3
        · intro j vj hj hp; exact hI.gens j vj hj hp
    · subst hm'
      rcases h2 with ⟨_, _, h1⟩ | ⟨hni, h1⟩
      · -- InvalidateCache: empty cache, next generation
        subst h1
        refine ⟨?_, ?_, ?_, hI.inval⟩
        · intro k e hke; simp at hke
        · intro j vj hj hp
          simp only at hj ⊢
          obtain ⟨r, hr, hh, h3⟩ := hI.reads j vj hj hp
          refine ⟨r, hr, hh, ?_⟩
          rcases h3 with ⟨hg, _⟩ | h3
          · refine Or.inl ⟨hg, fun hgen => ?_⟩
            have hle := hI.gens j vj hj (by rcases hp with hp | hp <;> simp [hp])
            omega
          · exact Or.inr h3
        · intro j vj hj hp
          have := hI.gens j vj hj hp
          simp only
          omega
      · -- nothing was changed and nothing is invalidated
        subst h1
        have hnf : ¬ InFlight s.m := by
          intro h
          rcases hni with hni | hni
          · rw [hI.inval] at hni; simp at hni
          · rw [h.2] at hni; simp at hni
        have hnf' : ¬ InFlight { s.m with pc := MPc.done } := fun h => by simp [InFlight] at h
        refine ⟨?_, ?_, ?_, hI.inval⟩
        · intro k e hke
          rcases hI.cache k e hke with h | h
          · exact Or.inl h
          · exact absurd h hnf
        · intro j vj hj hp
          simp only at hj ⊢
          obtain ⟨r, hr, hh, h3⟩ := hI.reads j vj hj hp
          refine ⟨r, hr, hh, ?_⟩
          rcases h3 with ⟨hg, h3⟩ | h3
          · refine Or.inl ⟨hg, fun hgen => ?_⟩
            rcases h3 hgen with h | h
            · exact Or.inl h
            · exact absurd h hnf
          · exact Or.inr h3
        · intro j vj hj hp; exact hI.gens j vj hj hp
  | tick d =>
    simp only [step, Option.some.injEq] at hs
    subst hs
    exact ⟨hI.cache, hI.reads, hI.gens, hI.inval⟩
  | janitor =>
    simp only [step, Option.some.injEq] at hs
    subst hs
    refine ⟨?_, hI.reads, hI.gens, hI.inval⟩
    intro k e hke
    exact hI.cache k e (List.mem_filter.mp hke).1

end Arc.C21
