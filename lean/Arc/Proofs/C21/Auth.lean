import Arc.Proofs.C21.Inv
/-!
C21 — helper lemmas for `C21_authn_iff`: every successful verification is justified by a row that
the database held (initially or after the mutation), enabled, whose hash verifies the presented
value, and whose expiry was checked against the verification's own clock reading.
-/
namespace Arc.C21

/-- `r` is a row the database held: before the mutation (`db0`) or now. -/
def Seen (db0 db : Option Row) (r : Row) : Prop := db0 = some r ∨ db = some r

/-- what is known about the token's expiry when a verification that read the clock at `now` succeeds:
not expired — or, only if the cache-hit path does not re-check it, less than one cache TTL past it. -/
def Unexp (cfg : Cfg) (r : Row) (now : Nat) : Prop :=
  ∀ t, r.expiry = some t → now ≤ t ∨ (cfg.hitChecksExpiry = false ∧ now < t + cfg.ttl)

structure Auth (cfg : Cfg) (db0 : Option Row) (s : State) : Prop where
  dbfix : s.m.pc = .start → s.sh.db = db0
  cache : ∀ k e, (k, e) ∈ s.sh.cache →
    Seen db0 s.sh.db e.info ∧ e.info.enabled = true ∧ e.info.hashOf = k ∧
      (∀ t, e.info.expiry = some t → e.cexp ≤ t + cfg.ttl)
  rd : ∀ (i : Nat) (v : VThread), s.vs[i]? = some v → (v.pc = .row ∨ v.pc = .preins ∨ v.pc = .ins) →
    ∃ r, v.rd = some r ∧ Seen db0 s.sh.db r ∧ r.enabled = true ∧
      ((v.pc = .preins ∨ v.pc = .ins) → r.hashOf = v.val ∧ expired r.expiry v.now = false)
  res : ∀ (i : Nat) (v : VThread), s.vs[i]? = some v → v.res = some true →
    ∃ r, Seen db0 s.sh.db r ∧ r.enabled = true ∧ r.hashOf = v.val ∧ Unexp cfg r v.now
  fresh : ∀ (i : Nat) (v : VThread), s.vs[i]? = some v → v.pc = .start → v.res = none
  hit : ∀ (i : Nat) (v : VThread), s.vs[i]? = some v → v.pc = .hit →
    ∃ e, v.he = some e ∧ Seen db0 s.sh.db e.info ∧ e.info.enabled = true ∧ e.info.hashOf = v.val ∧
      Unexp cfg e.info v.now

theorem vstep_pc {cfg : Cfg} {sh sh' : Shared} {i : Nat} {v v' : VThread}
    (h : vstep cfg sh i v = some (sh', v')) : v'.pc ≠ .start := by
  rcases vstep_spec h with ⟨_, _, h2⟩ | ⟨_, _, h2⟩ | ⟨_, r, _, h2⟩ | ⟨_, r, _, h1, _⟩ | ⟨_, _, h2⟩ | ⟨_, _, h2⟩ | ⟨_, e, _, h2, _⟩
  rotate_right
  · subst h2; simp
  · rcases h2 with ⟨e, _, _, h2⟩ | h2 <;> subst h2 <;> simp
  · rcases h2 with ⟨r, _, _, h2⟩ | ⟨_, _, h2⟩ <;> subst h2 <;> simp
  · rcases h2 with ⟨_, _, _, h2⟩ | ⟨_, _, _, h2⟩ | ⟨_, _, h2⟩ <;> subst h2 <;> simp
  · subst h1; simp
  · subst h2; simp
  · subst h2; simp

theorem expired_false {e : Option Nat} {now t : Nat} (h : expired e now = false) (he : e = some t) :
    now ≤ t := by
  subst he
  simp [expired] at h
  exact h

theorem vstep_now {cfg : Cfg} {sh sh' : Shared} {i : Nat} {v v' : VThread}
    (h : vstep cfg sh i v = some (sh', v')) : v.pc ≠ .start → v'.now = v.now := by
  intro hne
  rcases vstep_spec h with ⟨hpc, _⟩ | ⟨_, _, h2⟩ | ⟨_, r, _, h2⟩ | ⟨_, r, _, h1, _⟩ | ⟨_, _, h2⟩ | ⟨_, _, h2⟩ | ⟨_, e, _, h2, _⟩
  rotate_right
  · subst h2; rfl
  · exact absurd hpc hne
  · rcases h2 with ⟨r, _, _, h2⟩ | ⟨_, _, h2⟩ <;> subst h2 <;> rfl
  · rcases h2 with ⟨_, _, _, h2⟩ | ⟨_, _, _, h2⟩ | ⟨_, _, h2⟩ <;> subst h2 <;> rfl
  · subst h1; rfl
  · subst h2; rfl
  · subst h2; rfl

theorem auth_step {cfg : Cfg} {db0 : Option Row} {s s' : State} {ev : Ev} (hnt : cfg.hitTouch = false)
    (hA : Auth cfg db0 s)
    (hs : step cfg s ev = some s') : Auth cfg db0 s' := by
  cases ev with
  | v i =>
    obtain ⟨v, sh', v', hv, hvs, hs'⟩ := step_v_spec hs
    subst hs'
    have hf := vstep_frame hvs
    refine ⟨?_, ?_, ?_, ?_, ?_, ?_⟩
    · simp only; rw [hf.1]; exact hA.dbfix
    · intro k e hke
      simp only at hke ⊢
      rw [hf.1]
      rcases vstep_cache hnt hvs (k, e) hke with hold | ⟨hpc, r, hrd, hp, _⟩
      · exact hA.cache k e hold
      · simp only [Prod.mk.injEq] at hp
        obtain ⟨hk, he⟩ := hp
        subst he
        obtain ⟨r', hr', hseen, hen, hh⟩ := hA.rd i v hv (Or.inr (Or.inl hpc))
        rw [hrd] at hr'
        simp only [Option.some.injEq] at hr'
        subst hr'
        have h2 := hh (Or.inl hpc)
        refine ⟨hseen, hen, by rw [hk]; exact h2.1, ?_⟩
        intro t ht
        simp only at ht ⊢
        have := expired_false h2.2 ht
        omega
    · intro j vj hj hhold
      simp only at hj ⊢
      rw [hf.1]
      rcases getElem?_set_cases hj with ⟨_, hb⟩ | ⟨_, hj'⟩
      · subst hb
        rcases vstep_spec hvs with ⟨_, _, h2⟩ | ⟨_, _, h2⟩ | ⟨hpc, r, hrd, h2⟩ | ⟨hpc, r, hrd, h1, _⟩ | ⟨_, _, h2⟩ | ⟨_, _, h2⟩ | ⟨_, e, _, h2, _⟩
        rotate_right
        · subst h2; simp at hhold
        · rcases h2 with ⟨e, _, _, h2⟩ | h2 <;> subst h2 <;> simp at hhold
        · rcases h2 with ⟨r, hc, _, h2⟩ | ⟨_, _, h2⟩
          · subst h2
            have hcs := candidate_spec hc
            exact ⟨r, rfl, Or.inr hcs.1, hcs.2.1, by simp⟩
          · subst h2; simp at hhold
        · rcases h2 with ⟨_, _, _, h2⟩ | ⟨hh, hx, _, h2⟩ | ⟨_, _, h2⟩
          · subst h2; simp at hhold
          · subst h2
            obtain ⟨r', hr', hseen, hen, _⟩ := hA.rd i v hv (Or.inl hpc)
            rw [hrd] at hr'
            simp only [Option.some.injEq] at hr'
            subst hr'
            exact ⟨r, hrd, hseen, hen, fun _ => ⟨hh, hx⟩⟩
          · subst h2; simp at hhold
        · subst h1
          obtain ⟨r', hr', hseen, hen, hh⟩ := hA.rd i v hv (Or.inr (Or.inl hpc))
          exact ⟨r', hr', hseen, hen, fun _ => hh (Or.inl hpc)⟩
        · subst h2; simp at hhold
        · subst h2; simp at hhold
      · exact hA.rd j vj hj' hhold
    · intro j vj hj hres
      simp only at hj ⊢
      rw [hf.1]
      rcases getElem?_set_cases hj with ⟨_, hb⟩ | ⟨_, hj'⟩
      · subst hb
        rcases vstep_spec hvs with ⟨hpc0, _, h2⟩ | ⟨_, _, h2⟩ | ⟨_, r, _, h2⟩ | ⟨_, r, _, h1, _⟩ | ⟨hpc, _, h2⟩ | ⟨_, _, h2⟩ | ⟨hpch, e, he, h2, _⟩
        rotate_right
        · subst h2
          obtain ⟨e', he', hseen, hen, hh, hu⟩ := hA.hit i v hv hpch
          rw [he] at he'
          simp only [Option.some.injEq] at he'
          subst he'
          exact ⟨e.info, hseen, hen, hh, hu⟩
        · have hn := hA.fresh i v hv hpc0
          rcases h2 with ⟨e, _, _, h2⟩ | h2 <;> subst h2 <;> simp only at hres <;> rw [hn] at hres <;> simp at hres
        · rcases h2 with ⟨r, _, _, h2⟩ | ⟨_, _, h2⟩ <;> subst h2 <;> exact hA.res i v hv hres
        · rcases h2 with ⟨_, _, _, h2⟩ | ⟨_, _, _, h2⟩ | ⟨_, _, h2⟩
          · subst h2; simp at hres
          · subst h2; exact hA.res i v hv hres
          · subst h2; exact hA.res i v hv hres
        · subst h1; exact hA.res i v hv hres
        · subst h2
          obtain ⟨r, _, hseen, hen, hh⟩ := hA.rd i v hv (Or.inr (Or.inr hpc))
          have h3 := hh (Or.inr hpc)
          exact ⟨r, hseen, hen, h3.1, fun t ht => Or.inl (expired_false h3.2 ht)⟩
        · subst h2; simp at hres
      · exact hA.res j vj hj' hres
    · intro j vj hj hpc
      simp only at hj
      rcases getElem?_set_cases hj with ⟨_, hb⟩ | ⟨_, hj'⟩
      · subst hb
        exact absurd hpc (vstep_pc hvs)
      · exact hA.fresh j vj hj' hpc
    · intro j vj hj hpc
      simp only at hj ⊢
      rw [hf.1]
      rcases getElem?_set_cases hj with ⟨_, hb⟩ | ⟨_, hj'⟩
      · subst hb
        rcases vstep_spec hvs with ⟨_, _, h2⟩ | ⟨_, _, h2⟩ | ⟨_, r, _, h2⟩ | ⟨_, r, _, h1, _⟩ | ⟨_, _, h2⟩ | ⟨_, _, h2⟩ | ⟨_, e, _, h2, _⟩
        · rcases h2 with ⟨e, he, hhit, h2⟩ | h2
          · subst h2
            obtain ⟨hseen, hen, hh, hce⟩ := hA.cache v.val e (lookup_mem he)
            refine ⟨e, rfl, hseen, hen, hh, ?_⟩
            intro t ht
            simp only
            unfold hitOk at hhit
            simp only [Bool.and_eq_true, decide_eq_true_eq, Bool.or_eq_true, Bool.not_eq_eq_eq_not,
              Bool.not_true] at hhit
            cases hx : cfg.hitChecksExpiry with
            | true =>
              left
              rcases hhit.2 with h | h
              · rw [hx] at h; simp at h
              · exact expired_false h ht
            | false =>
              right
              exact ⟨rfl, Nat.lt_of_lt_of_le hhit.1 (hce t ht)⟩
          · subst h2; simp at hpc
        · rcases h2 with ⟨r, _, _, h2⟩ | ⟨_, _, h2⟩ <;> subst h2 <;> simp at hpc
        · rcases h2 with ⟨_, _, _, h2⟩ | ⟨_, _, _, h2⟩ | ⟨_, _, h2⟩ <;> subst h2 <;> simp at hpc
        · subst h1; simp at hpc
        · subst h2; simp at hpc
        · subst h2; simp at hpc
        · subst h2; simp at hpc
      · exact hA.hit j vj hj' hpc
  | m =>
    obtain ⟨sh', m', hms, hs'⟩ := step_m_spec hs
    subst hs'
    rcases mstep_spec hms with ⟨hpc, _, h2⟩ | ⟨hpc, hm', h2⟩
    · have hdb := hA.dbfix hpc
      have hseen : ∀ (db' : Option Row) (r : Row), Seen db0 s.sh.db r → Seen db0 db' r := by
        intro db' r h
        rcases h with h | h
        · exact Or.inl h
        · rw [hdb] at h; exact Or.inl h
      rcases h2 with ⟨r0, _, h1, h2⟩ | ⟨_, h1, h2⟩
      · subst h1; subst h2
        refine ⟨by simp, ?_, ?_, ?_, hA.fresh, ?_⟩
        · intro k e hke
          obtain ⟨h1, h2⟩ := hA.cache k e hke
          exact ⟨hseen _ _ h1, h2⟩
        · intro j vj hj hh
          obtain ⟨r, hr, h1, h2⟩ := hA.rd j vj hj hh
          exact ⟨r, hr, hseen _ _ h1, h2⟩
        · intro j vj hj hh
          obtain ⟨r, h1, h2⟩ := hA.res j vj hj hh
          exact ⟨r, hseen _ _ h1, h2⟩
        · intro j vj hj hh
          obtain ⟨e, he, h1, h2⟩ := hA.hit j vj hj hh
          exact ⟨e, he, hseen _ _ h1, h2⟩
      · subst h1; subst h2
        exact ⟨by simp, hA.cache, hA.rd, hA.res, hA.fresh, hA.hit⟩
    · subst hm'
      have hne : ¬ (MPc.done = MPc.start) := by simp
      rcases h2 with ⟨_, _, h1⟩ | ⟨_, h1⟩
      · subst h1
        refine ⟨fun h => absurd h hne, ?_, hA.rd, hA.res, hA.fresh, hA.hit⟩
        intro k e hke
        simp at hke
      · subst h1
        exact ⟨fun h => absurd h hne, hA.cache, hA.rd, hA.res, hA.fresh, hA.hit⟩
  | tick d =>
    simp only [step, Option.some.injEq] at hs
    subst hs
    exact ⟨hA.dbfix, hA.cache, hA.rd, hA.res, hA.fresh, hA.hit⟩
  | janitor =>
    simp only [step, Option.some.injEq] at hs
    subst hs
    refine ⟨hA.dbfix, ?_, hA.rd, hA.res, hA.fresh, hA.hit⟩
    intro k e hke
    exact hA.cache k e (List.mem_filter.mp hke).1

theorem auth_run {cfg : Cfg} {db0 : Option Row} (hnt : cfg.hitTouch = false) :
    ∀ (evs : List Ev) (s s' : State), Auth cfg db0 s → run cfg s evs = some s' → Auth cfg db0 s' := by
  intro evs
  induction evs with
  | nil =>
    intro s s' hA hr
    simp only [run, Option.some.injEq] at hr
    subst hr
    exact hA
  | cons e es ih =>
    intro s s' hA hr
    simp only [run] at hr
    split at hr
    · simp at hr
    · rename_i s1 hs1
      exact ih s1 s' (auth_step hnt hA hs1) hr

/-- the mutator has not run its SQL statement along `evs` ⇒ it is still at `start`. -/
theorem run_no_m {cfg : Cfg} :
    ∀ (evs : List Ev) (s s' : State), (∀ e ∈ evs, e ≠ Ev.m) → run cfg s evs = some s' → s'.m = s.m := by
  intro evs
  induction evs with
  | nil =>
    intro s s' _ hr
    simp only [run, Option.some.injEq] at hr
    subst hr; rfl
  | cons e es ih =>
    intro s s' hne hr
    simp only [run] at hr
    split at hr
    · simp at hr
    · rename_i s1 hs1
      have h1 : s1.m = s.m := by
        cases e with
        | v i =>
          obtain ⟨_, _, _, _, _, hs'⟩ := step_v_spec hs1
          subst hs'; rfl
        | m => exact absurd rfl (hne Ev.m (by simp))
        | tick d =>
          simp only [step, Option.some.injEq] at hs1
          subst hs1; rfl
        | janitor =>
          simp only [step, Option.some.injEq] at hs1
          subst hs1; rfl
      rw [← h1]
      exact ih s1 s' (fun e he => hne e (by simp [he])) hr

/-- a cold start (empty cache, every verification not yet started) satisfies the bundle. -/
theorem auth_cold {cfg : Cfg} {s : State} (hc : s.sh.cache = [])
    (hv : ∀ (i : Nat) (v : VThread), s.vs[i]? = some v → v.pc = .start ∧ v.res = none) :
    Auth cfg s.sh.db s := by
  refine ⟨fun _ => rfl, ?_, ?_, ?_, fun i v hi _ => (hv i v hi).2, ?_⟩
  rotate_right
  · intro i v hi hp
    have := (hv i v hi).1
    rw [this] at hp; simp at hp
  · intro k e hke; rw [hc] at hke; simp at hke
  · intro i v hi hh
    have := (hv i v hi).1
    rcases hh with h | h | h <;> rw [this] at h <;> simp at h
  · intro i v hi hr
    have := (hv i v hi).2
    rw [this] at hr; simp at hr

end Arc.C21
