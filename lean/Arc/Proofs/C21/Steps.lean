import Arc.Model.C21
/-!
C21 — inversion lemmas for the LTS steps (helper lemmas; no property theorems here).
-/
namespace Arc.C21

theorem mem_evictOldest {c : List (Nat × Entry)} {p : Nat × Entry} (h : p ∈ evictOldest c) : p ∈ c := by
  unfold evictOldest at h
  split at h
  · exact h
  · exact (List.mem_filter.mp h).1

theorem mem_insertCache {cfg : Cfg} {c : List (Nat × Entry)} {k : Nat} {e : Entry} {p : Nat × Entry}
    (h : p ∈ insertCache cfg c k e) : p = (k, e) ∨ p ∈ c := by
  unfold insertCache setKey at h
  rcases List.mem_cons.mp h with h | h
  · exact Or.inl h
  · right
    have h2 := (List.mem_filter.mp h).1
    split at h2
    · exact mem_evictOldest h2
    · exact h2

theorem lookup_mem {c : List (Nat × Entry)} {k : Nat} {e : Entry} (h : c.lookup k = some e) : (k, e) ∈ c := by
  induction c with
  | nil => simp [List.lookup] at h
  | cons a rest ih =>
    obtain ⟨a1, a2⟩ := a
    by_cases hk : k = a1
    · subst hk
      simp [List.lookup] at h
      subst h
      simp
    · have hb : (k == a1) = false := by simpa using hk
      simp [List.lookup, hb] at h
      exact List.mem_cons_of_mem _ (ih h)

theorem getElem?_set_cases {α : Type} {l : List α} {i j : Nat} {a b : α}
    (h : (l.set i a)[j]? = some b) : (j = i ∧ b = a) ∨ (j ≠ i ∧ l[j]? = some b) := by
  by_cases hji : i = j
  · subst hji
    left
    rw [List.getElem?_set_self'] at h
    cases hl : l[i]? with
    | none => simp [hl] at h
    | some x => simp [hl] at h; exact ⟨rfl, h.symm⟩
  · right
    rw [List.getElem?_set_ne hji] at h
    exact ⟨fun e => hji e.symm, h⟩

theorem candidate_spec {db : Option Row} {val : Nat} {r : Row} (h : candidate db val = some r) :
    db = some r ∧ r.enabled = true ∧ (r.legacy = true ∨ r.hashOf = val) := by
  unfold candidate at h
  cases db with
  | none => simp at h
  | some r0 =>
    simp only at h
    split at h
    · rename_i hc
      simp at h
      subst h
      simp at hc
      exact ⟨rfl, hc.1, hc.2⟩
    · simp at h

/-- every way a verifier step can go. -/
theorem vstep_spec {cfg : Cfg} {sh sh' : Shared} {i : Nat} {v v' : VThread}
    (h : vstep cfg sh i v = some (sh', v')) :
    (v.pc = .start ∧ sh' = sh ∧
      ((∃ e, sh.cache.lookup v.val = some e ∧ hitOk cfg e sh.now = true ∧
          v' = { v with now := sh.now, gen := sh.gen, pc := .hit, he := some e }) ∨
        v' = { v with now := sh.now, gen := sh.gen, pc := .miss })) ∨
    (v.pc = .miss ∧ connFree cfg sh = true ∧
      ((∃ r, candidate sh.db v.val = some r ∧
          sh' = { sh with conn := if cfg.serialDB then some i else none } ∧
          v' = { v with rd := some r, pc := .row }) ∨
        (candidate sh.db v.val = none ∧ sh' = sh ∧ v' = { v with pc := .norow }))) ∨
    (v.pc = .row ∧ ∃ r, v.rd = some r ∧
      ((r.hashOf = v.val ∧ expired r.expiry v.now = true ∧ sh' = { sh with conn := none } ∧
          v' = { v with pc := .done, res := some false }) ∨
        (r.hashOf = v.val ∧ expired r.expiry v.now = false ∧ sh' = sh ∧ v' = { v with pc := .preins }) ∨
        (r.hashOf ≠ v.val ∧ sh' = { sh with conn := none } ∧ v' = { v with pc := .norow }))) ∨
    (v.pc = .preins ∧ ∃ r, v.rd = some r ∧ v' = { v with pc := .ins } ∧
      ((cfg.genGuard = true ∧ v.gen ≠ sh.gen ∧ sh' = sh) ∨
        ((cfg.genGuard = true → v.gen = sh.gen) ∧
          sh' = { sh with cache := insertCache cfg sh.cache v.val { info := r, cexp := v.now + cfg.ttl } }))) ∨
    (v.pc = .ins ∧ sh' = { sh with conn := none } ∧ v' = { v with pc := .done, res := some true }) ∨
    (v.pc = .norow ∧ sh' = sh ∧ v' = { v with pc := .done, res := some false }) ∨
    (v.pc = .hit ∧ ∃ e, v.he = some e ∧ v' = { v with pc := .done, res := some true } ∧
      ((cfg.hitTouch = true ∧
          sh' = { sh with cache := setKey sh.cache v.val { e with cexp := v.now + cfg.ttl } }) ∨
        sh' = sh)) := by
  unfold vstep at h
  split at h
  · -- start
    rename_i hpc
    left
    refine ⟨hpc, ?_⟩
    simp only [Option.some.injEq] at h
    unfold vStart at h
    split at h
    · rename_i e he
      split at h
      · rename_i hh
        have h1 := congrArg Prod.fst h
        have h2 := congrArg Prod.snd h
        simp only at h1 h2
        exact ⟨h1.symm, Or.inl ⟨e, he, hh, h2.symm⟩⟩
      · have h1 := congrArg Prod.fst h
        have h2 := congrArg Prod.snd h
        simp only at h1 h2
        exact ⟨h1.symm, Or.inr h2.symm⟩
    · have h1 := congrArg Prod.fst h
      have h2 := congrArg Prod.snd h
      simp only at h1 h2
      exact ⟨h1.symm, Or.inr h2.symm⟩
  · -- hit
    rename_i hpc
    right; right; right; right; right; right
    split at h
    · rename_i e he
      simp only [Option.some.injEq] at h
      unfold vHit at h
      split at h
      · rename_i hc
        have h1 := congrArg Prod.fst h
        have h2 := congrArg Prod.snd h
        simp only at h1 h2
        simp at hc
        exact ⟨hpc, e, he, h2.symm, Or.inl ⟨hc.1, h1.symm⟩⟩
      · have h1 := congrArg Prod.fst h
        have h2 := congrArg Prod.snd h
        simp only at h1 h2
        exact ⟨hpc, e, he, h2.symm, Or.inr h1.symm⟩
    · simp at h
  · -- miss
    rename_i hpc
    right; left
    split at h
    · rename_i hcf
      refine ⟨hpc, hcf, ?_⟩
      simp only [Option.some.injEq] at h
      unfold vMiss at h
      split at h
      · rename_i r hr
        have h1 := congrArg Prod.fst h
        have h2 := congrArg Prod.snd h
        simp only at h1 h2
        exact Or.inl ⟨r, hr, h1.symm, h2.symm⟩
      · rename_i hr
        have h1 := congrArg Prod.fst h
        have h2 := congrArg Prod.snd h
        simp only at h1 h2
        exact Or.inr ⟨hr, h1.symm, h2.symm⟩
    · simp at h
  · -- row
    rename_i hpc
    right; right; left
    split at h
    · rename_i r hr
      refine ⟨hpc, r, hr, ?_⟩
      simp only [Option.some.injEq] at h
      unfold vRow at h
      split at h
      · rename_i hh
        have hh' : r.hashOf = v.val := by simpa using hh
        split at h
        · rename_i hx
          have h1 := congrArg Prod.fst h
          have h2 := congrArg Prod.snd h
          simp only at h1 h2
          exact Or.inl ⟨hh', hx, h1.symm, h2.symm⟩
        · rename_i hx
          have h1 := congrArg Prod.fst h
          have h2 := congrArg Prod.snd h
          simp only at h1 h2
          exact Or.inr (Or.inl ⟨hh', by simpa using hx, h1.symm, h2.symm⟩)
      · rename_i hh
        have hh' : r.hashOf ≠ v.val := by simpa using hh
        have h1 := congrArg Prod.fst h
        have h2 := congrArg Prod.snd h
        simp only at h1 h2
        exact Or.inr (Or.inr ⟨hh', h1.symm, h2.symm⟩)
    · simp at h
  · -- preins
    rename_i hpc
    right; right; right; left
    split at h
    · rename_i r hr
      simp only [Option.some.injEq] at h
      unfold vPreins at h
      split at h
      · rename_i hg
        have h1 := congrArg Prod.fst h
        have h2 := congrArg Prod.snd h
        simp only at h1 h2
        simp at hg
        exact ⟨hpc, r, hr, h2.symm, Or.inl ⟨hg.1, hg.2, h1.symm⟩⟩
      · rename_i hg
        have h1 := congrArg Prod.fst h
        have h2 := congrArg Prod.snd h
        simp only at h1 h2
        simp at hg
        exact ⟨hpc, r, hr, h2.symm, Or.inr ⟨hg, h1.symm⟩⟩
    · simp at h
  · -- ins
    rename_i hpc
    right; right; right; right; left
    simp only [Option.some.injEq] at h
    have h1 := congrArg Prod.fst h
    have h2 := congrArg Prod.snd h
    simp only at h1 h2
    exact ⟨hpc, h1.symm, h2.symm⟩
  · -- norow
    rename_i hpc
    right; right; right; right; right; left
    simp only [Option.some.injEq] at h
    have h1 := congrArg Prod.fst h
    have h2 := congrArg Prod.snd h
    simp only at h1 h2
    exact ⟨hpc, h1.symm, h2.symm⟩
  · simp at h

/-- every way a mutator step can go. -/
theorem mstep_spec {cfg : Cfg} {sh sh' : Shared} {m m' : MThread}
    (h : mstep cfg sh m = some (sh', m')) :
    (m.pc = .start ∧ connFree cfg sh = true ∧
      ((∃ r, sh.db = some r ∧ sh' = { sh with db := applyKind m.kind r } ∧
          m' = { m with pc := .upd, found := true }) ∨
        (sh.db = none ∧ sh' = sh ∧ m' = { m with pc := .upd, found := false }))) ∨
    (m.pc = .upd ∧ m' = { m with pc := .done } ∧
      ((m.inval = true ∧ (m.found = true ∨ m.cluster = true) ∧
          sh' = { sh with cache := [], gen := sh.gen + 1 }) ∨
        ((m.inval = false ∨ (m.found = false ∧ m.cluster = false)) ∧ sh' = sh))) := by
  unfold mstep at h
  split at h
  · rename_i hpc
    left
    split at h
    · rename_i hcf
      refine ⟨hpc, hcf, ?_⟩
      split at h
      · rename_i r hr
        simp only [Option.some.injEq] at h
        have h1 := congrArg Prod.fst h
        have h2 := congrArg Prod.snd h
        simp only at h1 h2
        exact Or.inl ⟨r, hr, h1.symm, h2.symm⟩
      · rename_i hr
        simp only [Option.some.injEq] at h
        have h1 := congrArg Prod.fst h
        have h2 := congrArg Prod.snd h
        simp only at h1 h2
        exact Or.inr ⟨hr, h1.symm, h2.symm⟩
    · simp at h
  · rename_i hpc
    right
    split at h
    · rename_i hc
      simp only [Option.some.injEq] at h
      have h1 := congrArg Prod.fst h
      have h2 := congrArg Prod.snd h
      simp only at h1 h2
      simp at hc
      exact ⟨hpc, h2.symm, Or.inl ⟨hc.1, hc.2, h1.symm⟩⟩
    · rename_i hc
      simp only [Option.some.injEq] at h
      have h1 := congrArg Prod.fst h
      have h2 := congrArg Prod.snd h
      simp only at h1 h2
      refine ⟨hpc, h2.symm, Or.inr ⟨?_, h1.symm⟩⟩
      simp at hc
      cases hi : m.inval with
      | false => exact Or.inl rfl
      | true =>
        right
        have := hc hi
        exact this
  · simp at h

end Arc.C21
