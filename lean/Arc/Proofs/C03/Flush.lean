import Arc.Proofs.C03.Sort
import Arc.Proofs.C03.Group
import Arc.Proofs.C03.Hour
set_option linter.unnecessarySimpa false
set_option linter.unusedSimpArgs false
/-! C03 helper lemmas: `flushFiles` — the files of one flush partition the rows by hour, each file
time-sorted. -/
namespace Arc.C03

theorem hour_mono (a b : Int) (h : a ≤ b) : hourBucketID a ≤ hourBucketID b := by
  rw [hourBucketID_floor, hourBucketID_floor]; omega

theorem listMin_spec (m : Int) (l : List Int) :
    listMin m l ≤ m ∧ (∀ x ∈ l, listMin m l ≤ x) := by
  induction l generalizing m with
  | nil => simp [listMin]
  | cons t ts ih =>
    by_cases hc : t < m
    · simp only [listMin, hc, if_true]
      obtain ⟨h1, h2⟩ := ih t
      refine ⟨by omega, ?_⟩
      intro x hx
      rcases List.mem_cons.mp hx with e | e
      · subst e; exact h1
      · exact h2 x e
    · simp only [listMin, hc, if_false]
      obtain ⟨h1, h2⟩ := ih m
      refine ⟨h1, ?_⟩
      intro x hx
      rcases List.mem_cons.mp hx with e | e
      · subst e; omega
      · exact h2 x e

theorem listMax_spec (m : Int) (l : List Int) :
    m ≤ listMax m l ∧ (∀ x ∈ l, x ≤ listMax m l) := by
  induction l generalizing m with
  | nil => simp [listMax]
  | cons t ts ih =>
    by_cases hc : t > m
    · simp only [listMax, hc, if_true]
      obtain ⟨h1, h2⟩ := ih t
      refine ⟨by omega, ?_⟩
      intro x hx
      rcases List.mem_cons.mp hx with e | e
      · subst e; exact h1
      · exact h2 x e
    · simp only [listMax, hc, if_false]
      obtain ⟨h1, h2⟩ := ih m
      refine ⟨h1, ?_⟩
      intro x hx
      rcases List.mem_cons.mp hx with e | e
      · subst e; omega
      · exact h2 x e

theorem perm_flatMap_congr {α β : Type} (l : List α) (f g : α → List β)
    (h : ∀ a ∈ l, (f a).Perm (g a)) : (l.flatMap f).Perm (l.flatMap g) := by
  induction l with
  | nil => simp
  | cons a rest ih =>
    simp only [List.flatMap_cons]
    exact (h a (by simp)).append (ih (fun x hx => h x (by simp [hx])))

theorem tAt_inI64 (times : List Int) (hr : ∀ t ∈ times, inI64 t) (i : Nat) : inI64 (tAt times i) := by
  unfold tAt
  by_cases h : i < times.length
  · rw [getD_lt _ _ _ h]; exact hr _ (List.getElem_mem _)
  · rw [getD_ge _ _ _ h]; unfold inI64; omega

theorem tAt_of_getElem? (times : List Int) (j : Nat) (t : Int) (h : times[j]? = some t) :
    tAt times j = t := by
  unfold tAt; simp [List.getD, h]

theorem hasTime_gather (b : Batch) (ix : List Nat) (ht : HasTime b) : HasTime (b.gather ix) := by
  obtain ⟨c, hc, hty⟩ := ht
  exact ⟨c.gather ix, by rw [gather_col, hc]; rfl, hty⟩

/-- what is established for one written file -/
structure FileOK (f : OutFile) : Prop where
  inHour : ∀ r ∈ f.batch.rows, hourBucketID r.time = f.hour
  sorted : (f.batch.rows.map (·.time)).Pairwise (· ≤ ·)

/-- rows of a sorted batch: a permutation of the input rows, in non-decreasing time order -/
theorem sortBatch_spec (b : Batch) (ht : HasTime b) (hr : ∀ t ∈ b.times, inI64 t) :
    (sortBatch b).rows.Perm b.rows ∧ ((sortBatch b).rows.map (·.time)).Pairwise (· ≤ ·) := by
  obtain ⟨h1, h2⟩ := effPerm_sorted b.times hr
  rw [sortBatch_rows b ht]
  constructor
  · exact h2.map b.rowAt
  · rw [List.map_map]
    exact h1

theorem flushFiles_spec (m : Batch) (ht : HasTime m) (hr : ∀ t ∈ m.times, inI64 t)
    (files : List OutFile) (hf : flushFiles m = .ok files) :
    (files.flatMap (fun f => f.batch.rows)).Perm m.rows ∧
    (∀ f ∈ files, FileOK f) ∧
    (files.map (·.hour)).Nodup := by
  unfold flushFiles at hf
  split at hf
  · simp at hf
  · rename_i t0 ts htimes
    simp only at hf
    split at hf
    · -- single hour
      rename_i hsame
      simp only [Except.ok.injEq] at hf
      subst hf
      obtain ⟨hp, hs⟩ := sortBatch_spec m ht hr
      refine ⟨by simpa using hp, ?_, by simp⟩
      intro f hfm
      simp only [List.mem_singleton] at hfm
      subst hfm
      refine ⟨?_, hs⟩
      intro r hrm
      have hrm' := hp.subset hrm
      unfold Batch.rows at hrm'
      obtain ⟨i, hi, rfl⟩ := List.mem_map.mp hrm'
      have hi' : i < m.times.length := List.mem_range.mp hi
      rw [rowAt_time]
      have hmem : tAt m.times i ∈ t0 :: ts := by
        rw [← htimes]; unfold tAt; rw [getD_lt _ _ _ hi']; exact List.getElem_mem _
      obtain ⟨mn1, mn2⟩ := listMin_spec t0 ts
      obtain ⟨mx1, mx2⟩ := listMax_spec t0 ts
      have hlo : listMin t0 ts ≤ tAt m.times i := by
        rcases List.mem_cons.mp hmem with e | e
        · rw [e]; exact mn1
        · exact mn2 _ e
      have hhi : tAt m.times i ≤ listMax t0 ts := by
        rcases List.mem_cons.mp hmem with e | e
        · rw [e]; exact mx1
        · exact mx2 _ e
      have a1 := hour_mono _ _ hlo
      have a2 := hour_mono _ _ hhi
      show hourBucketID (tAt m.times i) = hourBucketID (listMin t0 ts)
      omega
    · -- multi hour
      simp only [Except.ok.injEq] at hf
      subst hf
      have inv := groupByHour_inv m.times
      have hfile : ∀ p ∈ groupByHour m.times,
          (sortBatch (m.gather p.2)).rows.Perm (p.2.map m.rowAt) ∧
          ((sortBatch (m.gather p.2)).rows.map (·.time)).Pairwise (· ≤ ·) := by
        intro p _
        have ht' := hasTime_gather m p.2 ht
        have hr' : ∀ t ∈ (m.gather p.2).times, inI64 t := by
          rw [gather_times m p.2 ht]
          intro t htm
          obtain ⟨i, _, rfl⟩ := List.mem_map.mp htm
          exact tAt_inI64 _ hr i
        obtain ⟨h1, h2⟩ := sortBatch_spec (m.gather p.2) ht' hr'
        rw [gather_rows m p.2 ht] at h1
        exact ⟨h1, h2⟩
      refine ⟨?_, ?_, ?_⟩
      · rw [List.flatMap_map]
        refine (perm_flatMap_congr _ _ (fun p => p.2.map m.rowAt) (fun p hp => (hfile p hp).1)).trans ?_
        have : (groupByHour m.times).flatMap (fun p => p.2.map m.rowAt) =
            ((groupByHour m.times).flatMap (·.2)).map m.rowAt := by
          rw [List.map_flatMap]
        rw [this]
        exact inv.perm.map m.rowAt
      · intro f hfm
        obtain ⟨p, hp, rfl⟩ := List.mem_map.mp hfm
        refine ⟨?_, (hfile p hp).2⟩
        intro r hrm
        have := (hfile p hp).1.subset hrm
        obtain ⟨j, hj, rfl⟩ := List.mem_map.mp this
        obtain ⟨t, htj, hh⟩ := inv.hour p hp j hj
        rw [rowAt_time, tAt_of_getElem? _ _ _ htj]
        exact hh
      · rw [List.map_map]
        exact inv.keys

theorem flushFiles_ok (m : Batch) (hn : m.n ≠ 0) : ∃ files, flushFiles m = .ok files := by
  unfold flushFiles
  split
  · rename_i h; unfold Batch.n at hn; simp [h] at hn
  · simp only
    split <;> exact ⟨_, rfl⟩

end Arc.C03
