import Arc.Proofs.C03.Radix
set_option linter.unnecessarySimpa false
set_option linter.unusedSimpArgs false
/-! C03 helper lemmas: every path of `permuteByTime` yields a sorted permutation; the radix path is
stable; `gather` (applyPermutation / slice) moves whole rows, validity included. -/
namespace Arc.C03

def tAt (times : List Int) (i : Nat) : Int := times.getD i 0

theorem getD_lt {α : Type} (l : List α) (i : Nat) (d : α) (h : i < l.length) : l.getD i d = l[i] := by
  simp [List.getD, h]

theorem getD_ge {α : Type} (l : List α) (i : Nat) (d : α) (h : ¬ i < l.length) : l.getD i d = d := by
  have : l.length ≤ i := by omega
  simp [List.getD, this]

theorem getD_map_lt {α β : Type} (f : α → β) (l : List α) (j : Nat) (d : β) (h : j < l.length) :
    (l.map f).getD j d = f l[j] := by
  rw [getD_lt _ _ _ (by simpa using h)]; simp

theorem keyAt_eq (times : List Int) (i : Nat) (h : i < times.length) :
    keyAt (times.map bias).toArray i = bias (tAt times i) := by
  unfold keyAt tAt
  simp [Array.getD, List.getD, h]

theorem keyAt_lt (times : List Int) (i : Nat) : keyAt (times.map bias).toArray i < 2 ^ 64 := by
  unfold keyAt
  by_cases h : i < times.length
  · have : (times.map bias).toArray.getD i 0 = bias times[i] := by
      simp [Array.getD, h]
    rw [this]; exact bias_lt_pow _
  · have : (times.map bias).toArray.getD i 0 = 0 := by
      simp [Array.getD, h]
    rw [this]; decide

theorem timeAt_eq (times : List Int) (i : Nat) : timeAt times.toArray i = tAt times i := by
  unfold timeAt tAt
  simp only [Array.getD, List.getD]
  split
  · rename_i h
    have h' : i < times.length := by simpa using h
    simp [h']
  · rename_i h
    have h' : ¬ i < times.length := by simpa using h
    simp [h']

/-- strict (time, arrival position) order: sorted **and** stable -/
def StableSorted (times : List Int) (ix : List Nat) : Prop :=
  ix.Pairwise (fun i j => tAt times i < tAt times j ∨ (tAt times i = tAt times j ∧ i < j))

def TimeSorted (times : List Int) (ix : List Nat) : Prop :=
  (ix.map (tAt times)).Pairwise (· ≤ ·)

theorem StableSorted.timeSorted {times : List Int} {ix : List Nat} (h : StableSorted times ix) :
    TimeSorted times ix := by
  unfold TimeSorted
  rw [List.pairwise_map]
  exact h.imp (fun hab => by omega)

theorem radix_stable (times : List Int) (hr : ∀ t ∈ times, inI64 t) :
    StableSorted times (radixPermuteByTime times) ∧
    (radixPermuteByTime times).Perm (List.range times.length) := by
  unfold radixPermuteByTime
  obtain ⟨h1, h2⟩ := radixWith_sorted_stable (keyAt (times.map bias).toArray) times.length (keyAt_lt times)
  refine ⟨?_, h2⟩
  unfold StableSorted
  refine h1.imp_of_mem ?_
  intro a b ha hb hab
  have ha' : a < times.length := List.mem_range.mp (h2.subset ha)
  have hb' : b < times.length := List.mem_range.mp (h2.subset hb)
  rw [keyAt_eq times a ha', keyAt_eq times b hb'] at hab
  have ra : inI64 (tAt times a) := by
    unfold tAt; rw [getD_lt _ _ _ ha']; exact hr _ (List.getElem_mem _)
  have rb : inI64 (tAt times b) := by
    unfold tAt; rw [getD_lt _ _ _ hb']; exact hr _ (List.getElem_mem _)
  rw [bias_lt_iff _ _ ra rb, bias_eq_iff _ _ ra rb] at hab
  exact hab

theorem cmp_sorted (times : List Int) :
    TimeSorted times (cmpPermuteByTime times) ∧
    (cmpPermuteByTime times).Perm (List.range times.length) := by
  unfold cmpPermuteByTime
  constructor
  · unfold TimeSorted
    rw [List.pairwise_map]
    have := List.pairwise_mergeSort
      (le := fun i j => decide (timeAt times.toArray i ≤ timeAt times.toArray j))
      (by intro a b c h1 h2; simp only [decide_eq_true_eq] at *; omega)
      (by intro a b; simp only [Bool.or_eq_true, decide_eq_true_eq]; omega)
      (List.range times.length)
    refine this.imp ?_
    intro a b hab
    simp only [decide_eq_true_eq, timeAt_eq] at hab
    exact hab
  · exact List.mergeSort_perm _ _

theorem sortedScan_cons (a : Int) (l : List Int) (h : sortedScan (a :: l) = true) :
    (∀ x ∈ l, a ≤ x) ∧ sortedScan l = true := by
  induction l generalizing a with
  | nil => simp [sortedScan]
  | cons b rest ih =>
    unfold sortedScan at h
    split at h
    · simp at h
    · rename_i hba
      obtain ⟨h1, h2⟩ := ih b h
      refine ⟨?_, h⟩
      intro x hx
      rcases List.mem_cons.mp hx with e | e
      · subst e; omega
      · have := h1 x e; omega

theorem sortedScan_pairwise (l : List Int) (h : sortedScan l = true) : l.Pairwise (· ≤ ·) := by
  induction l with
  | nil => simp
  | cons a rest ih =>
    obtain ⟨h1, h2⟩ := sortedScan_cons a rest h
    exact List.pairwise_cons.mpr ⟨h1, ih h2⟩

theorem map_tAt_range (times : List Int) : (List.range times.length).map (tAt times) = times := by
  apply List.ext_getElem
  · simp
  · intro i h1 h2
    simp only [List.getElem_map, List.getElem_range, tAt]
    exact getD_lt _ _ _ h2

/-- the permutation a batch is rearranged by: identity when `permuteByTime` returns nil -/
def effPerm (times : List Int) : List Nat :=
  match permuteByTime times with
  | none => List.range times.length
  | some ix => ix

theorem effPerm_sorted (times : List Int) (hr : ∀ t ∈ times, inI64 t) :
    TimeSorted times (effPerm times) ∧ (effPerm times).Perm (List.range times.length) := by
  unfold effPerm permuteByTime
  cases hp : sortPath times with
  | empty =>
    simp only
    unfold sortPath at hp
    split at hp
    · rename_i h0
      simp [TimeSorted, h0]
    · split at hp <;> (try split at hp) <;> simp at hp
  | sorted =>
    simp only
    unfold sortPath at hp
    split at hp
    · simp at hp
    · split at hp
      · rename_i hs
        refine ⟨?_, List.Perm.refl _⟩
        unfold TimeSorted
        rw [map_tAt_range]
        exact sortedScan_pairwise _ hs
      · split at hp <;> simp at hp
  | cmp => simp only; exact cmp_sorted times
  | radix =>
    simp only
    obtain ⟨h1, h2⟩ := radix_stable times hr
    exact ⟨h1.timeSorted, h2⟩

/-! ### gather moves rows -/

theorem gather_cellAt (c : Col) (ix : List Nat) (j : Nat) (h : j < ix.length) :
    (c.gather ix).cellAt j = c.cellAt ix[j] := by
  unfold Col.gather Col.cellAt
  cases hv : c.valid with
  | none => simp only [Option.map_none]; rw [getD_map_lt _ _ _ _ h]
  | some v => simp only [Option.map_some]; rw [getD_map_lt _ _ _ _ h, getD_map_lt _ _ _ _ h]

theorem lookup_map_snd {β γ : Type} (l : List (String × β)) (f : β → γ) (nm : String) :
    (l.map (fun p => (p.1, f p.2))).lookup nm = (l.lookup nm).map f := by
  induction l with
  | nil => rfl
  | cons p rest ih =>
    obtain ⟨a, b⟩ := p
    simp only [List.map_cons, List.lookup_cons]
    split <;> simp [ih]

theorem gather_col (b : Batch) (ix : List Nat) (nm : String) :
    (b.gather ix).col nm = (b.col nm).map (fun c => c.gather ix) := by
  unfold Batch.gather Batch.col
  exact lookup_map_snd b.cols (fun c => c.gather ix) nm

/-- the batch has a `time` column of Go type `[]int64` -/
def HasTime (b : Batch) : Prop := ∃ c, b.col "time" = some c ∧ c.ty = .i64

theorem gather_times (b : Batch) (ix : List Nat) (ht : HasTime b) :
    (b.gather ix).times = ix.map (tAt b.times) := by
  obtain ⟨c, hc, hty⟩ := ht
  unfold Batch.times
  rw [gather_col, hc]
  simp only [Option.map_some, Col.gather, hty, if_true, List.map_map]
  apply List.map_congr_left
  intro i _
  simp only [Function.comp, tAt]
  by_cases hi : i < c.vals.length
  · rw [getD_lt _ _ _ hi, getD_map_lt _ _ _ _ hi]
  · rw [getD_ge _ _ _ hi, getD_ge _ _ _ (by simpa using hi)]; rfl

theorem gather_n (b : Batch) (ix : List Nat) (ht : HasTime b) : (b.gather ix).n = ix.length := by
  unfold Batch.n; rw [gather_times b ix ht]; simp

theorem gather_rowAt (b : Batch) (ix : List Nat) (ht : HasTime b) (j : Nat) (h : j < ix.length) :
    (b.gather ix).rowAt j = b.rowAt ix[j] := by
  unfold Batch.rowAt
  congr 1
  · rw [gather_times b ix ht, getD_map_lt _ _ _ _ h]; rfl
  · funext nm
    rw [gather_col]
    cases b.col nm with
    | none => rfl
    | some c => simp [gather_cellAt c ix j h]

theorem gather_rows (b : Batch) (ix : List Nat) (ht : HasTime b) :
    (b.gather ix).rows = ix.map b.rowAt := by
  unfold Batch.rows
  rw [gather_n b ix ht]
  apply List.ext_getElem
  · simp
  · intro j h1 h2
    have hj : j < ix.length := by simpa using h1
    simp [gather_rowAt b ix ht j hj]

theorem rows_eq_map_range (b : Batch) : b.rows = (List.range b.times.length).map b.rowAt := rfl

/-- `sortBatch` = gather by the effective permutation, at the level of rows -/
theorem sortBatch_rows (b : Batch) (ht : HasTime b) :
    (sortBatch b).rows = (effPerm b.times).map b.rowAt := by
  unfold sortBatch effPerm
  cases permuteByTime b.times with
  | none => rfl
  | some ix => exact gather_rows b ix ht

theorem rowAt_time (b : Batch) (i : Nat) : (b.rowAt i).time = tAt b.times i := rfl

end Arc.C03
