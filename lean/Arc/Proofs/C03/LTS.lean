import Arc.Proofs.C03.Task
set_option linter.unnecessarySimpa false
set_option linter.unusedSimpArgs false
/-! C03 helper lemmas: the conservation invariant of the ArrowBuffer LTS. -/
namespace Arc.C03

/-- a row tagged with its buffer key `database/measurement` -/
abbrev KRow := String × Row

def krows (k : String) (b : Batch) : List KRow := b.rows.map (fun r => (k, r))
def groupRows (k : String) (l : List TBatch) : List KRow := l.flatMap (fun tb => krows k tb.b)
def taskRows (t : Task) : List KRow := groupRows t.key t.batches
def pfileRows (f : PFile) : List KRow := krows f.key f.batch

def bufRows (s : St) : List KRow := s.bufs.flatMap (fun p => groupRows p.1 p.2)
def heldRows (s : St) : List KRow := s.held.flatMap taskRows
def queueRows (s : St) : List KRow := s.queue.flatMap taskRows
def inflightRows (s : St) : List KRow := s.inflight.flatMap pfileRows
def storedRows (s : St) : List KRow := s.files.flatMap (fun q => pfileRows q.2)
def droppedRows (s : St) : List KRow := s.dropped.flatMap taskRows
def failedRows (s : St) : List KRow := s.failed.flatMap taskRows
def acceptedRows (s : St) : List KRow := s.accepted.flatMap (fun p => krows p.1 p.2)

/-- everything the buffer still holds or has stored (or has given up on: `dropped`, C07's domain) -/
def allRows (s : St) : List KRow :=
  bufRows s ++ heldRows s ++ queueRows s ++ inflightRows s ++ storedRows s ++ droppedRows s ++ failedRows s

structure PFileOK (f : PFile) : Prop where
  inHour : ∀ r ∈ f.batch.rows, hourBucketID r.time = f.hour
  sorted : (f.batch.rows.map (·.time)).Pairwise (· ≤ ·)

structure Inv (s : St) : Prop where
  cons     : (acceptedRows s).Perm (allRows s)
  keys     : (s.bufs.map (·.1)).Nodup
  bufWF    : ∀ p ∈ s.bufs, GoodGroup p.2
  heldWF   : ∀ t ∈ s.held, GoodGroup t.batches
  queueWF  : ∀ t ∈ s.queue, GoodGroup t.batches
  inflOK   : ∀ f ∈ s.inflight, PFileOK f
  filesOK  : ∀ q ∈ s.files, PFileOK q.2 ∧ q.1.key = q.2.key ∧ q.1.hour = q.2.hour
  failedE  : failedRows s = []

/-! ### list surgery -/

theorem flatMap_eraseIdx {α β : Type} (l : List α) (f : α → List β) (i : Nat) (t : α)
    (h : l[i]? = some t) : (l.flatMap f).Perm (f t ++ (l.eraseIdx i).flatMap f) := by
  induction l generalizing i with
  | nil => simp at h
  | cons a rest ih =>
    cases i with
    | zero => simp at h; subst h; simp
    | succ i =>
      simp only [List.getElem?_cons_succ] at h
      simp only [List.flatMap_cons, List.eraseIdx_cons_succ]
      have := (ih i h).append_left (f a)
      refine this.trans ?_
      rw [← List.append_assoc, ← List.append_assoc]
      exact List.perm_append_comm.append_right _

theorem mem_of_getElem? {α : Type} (l : List α) (i : Nat) (t : α) (h : l[i]? = some t) : t ∈ l :=
  List.mem_of_getElem? h

theorem mem_eraseIdx {α : Type} (l : List α) (i : Nat) (x : α) (h : x ∈ l.eraseIdx i) : x ∈ l :=
  (List.eraseIdx_sublist l i).subset h

theorem eraseKey_keys (k : String) (m : List (String × List TBatch)) :
    (eraseKey k m).map (·.1) = (m.map (·.1)).filter (fun x => x != k) := by
  unfold eraseKey
  induction m with
  | nil => rfl
  | cons p rest ih =>
    simp only [List.filter_cons, List.map_cons]
    split <;> simp [ih]

theorem eraseKey_nodup (k : String) (m : List (String × List TBatch)) (h : (m.map (·.1)).Nodup) :
    ((eraseKey k m).map (·.1)).Nodup := by
  rw [eraseKey_keys]; exact h.sublist List.filter_sublist

theorem not_mem_eraseKey (k : String) (m : List (String × List TBatch)) :
    k ∉ (eraseKey k m).map (·.1) := by
  rw [eraseKey_keys]; simp

theorem setKey_nodup (k : String) (v : List TBatch) (m : List (String × List TBatch))
    (h : (m.map (·.1)).Nodup) : ((setKey k v m).map (·.1)).Nodup := by
  unfold setKey
  simp only [List.map_cons]
  exact List.nodup_cons.mpr ⟨not_mem_eraseKey k m, eraseKey_nodup k m h⟩

theorem eraseKey_of_lookup_none (k : String) (m : List (String × List TBatch))
    (h : m.lookup k = none) : eraseKey k m = m := by
  unfold eraseKey
  apply List.filter_eq_self.mpr
  intro p hp
  have := (lookup_none_iff m k).mp h
  have hne : p.1 ≠ k := fun e => this (e ▸ List.mem_map.mpr ⟨p, hp, rfl⟩)
  simpa using hne

theorem flatMap_eraseKey {β : Type} (k : String) (m : List (String × List TBatch)) (l : List TBatch)
    (g : String × List TBatch → List β) (hn : (m.map (·.1)).Nodup) (h : m.lookup k = some l) :
    (m.flatMap g).Perm (g (k, l) ++ (eraseKey k m).flatMap g) := by
  induction m with
  | nil => simp at h
  | cons p rest ih =>
    obtain ⟨a, v⟩ := p
    simp only [List.map_cons, List.nodup_cons] at hn
    simp only [List.lookup_cons] at h
    by_cases he : k = a
    · subst he
      simp only [BEq.rfl] at h
      have hv : v = l := by simpa using h
      subst hv
      have hrest : eraseKey k rest = rest := by
        apply eraseKey_of_lookup_none
        exact (lookup_none_iff _ _).mpr hn.1
      unfold eraseKey at hrest ⊢
      simp [List.filter_cons, hrest]
    · have hb : (k == a) = false := by simpa using he
      simp only [hb] at h
      have hne : (a != k) = true := by simpa using (fun e : a = k => he e.symm)
      unfold eraseKey
      simp only [List.filter_cons, hne, if_true, List.flatMap_cons]
      have := (ih hn.2 h).append_left (g (a, v))
      refine this.trans ?_
      unfold eraseKey
      rw [← List.append_assoc, ← List.append_assoc]
      exact List.perm_append_comm.append_right _

theorem mem_eraseKey (k : String) (m : List (String × List TBatch)) (p : String × List TBatch)
    (h : p ∈ eraseKey k m) : p ∈ m := (List.mem_filter.mp h).1

theorem lookup_mem' (m : List (String × List TBatch)) (k : String) (l : List TBatch)
    (h : m.lookup k = some l) : (k, l) ∈ m := lookup_mem m k l h

/-! ### counting (classical decidable equality on rows — proofs only) -/

open Classical in
noncomputable def cnt (a : KRow) (l : List KRow) : Nat := List.count a l

open Classical in
theorem perm_of_cnt {l₁ l₂ : List KRow} (h : ∀ a, cnt a l₁ = cnt a l₂) : l₁.Perm l₂ :=
  List.perm_iff_count.mpr h

open Classical in
theorem cnt_perm {l₁ l₂ : List KRow} (h : l₁.Perm l₂) (a : KRow) : cnt a l₁ = cnt a l₂ :=
  h.count_eq a

open Classical in
theorem cnt_append (a : KRow) (l₁ l₂ : List KRow) : cnt a (l₁ ++ l₂) = cnt a l₁ + cnt a l₂ :=
  List.count_append

open Classical in
theorem cnt_nil (a : KRow) : cnt a [] = 0 := rfl

theorem cnt_all (a : KRow) (s : St) :
    cnt a (allRows s) = cnt a (bufRows s) + cnt a (heldRows s) + cnt a (queueRows s) +
      cnt a (inflightRows s) + cnt a (storedRows s) + cnt a (droppedRows s) + cnt a (failedRows s) := by
  unfold allRows; simp only [cnt_append]

theorem flatMap_snoc {α β : Type} (l : List α) (x : α) (f : α → List β) :
    (l ++ [x]).flatMap f = l.flatMap f ++ f x := by simp

end Arc.C03
