import Arc.Model.C03.Pure
/-! C03 helper lemmas: hour arithmetic (floor division, int64 wrap-freedom, BitVec 64 statement). -/
namespace Arc.C03

theorem hourBucketID_floor (t : Int) : hourBucketID t = t / 3600000000 := by
  unfold hourBucketID microPerHour
  simp only [Int.tdiv_eq_ediv, Int.tmod_eq_emod]
  by_cases h0 : 0 ≤ t
  · have : ¬ (t < 0) := by omega
    simp [h0, this]
  · by_cases hd : (3600000000 : Int) ∣ t
    · have hm : t % 3600000000 = 0 := Int.emod_eq_zero_of_dvd hd
      simp [hd, hm]
    · have hm : t % 3600000000 ≠ 0 := fun h => hd (Int.dvd_of_emod_eq_zero h)
      have hs : (3600000000 : Int).sign = 1 := by decide
      have hn : ((3600000000 : Int).natAbs : Int) = 3600000000 := by decide
      simp only [h0, hd, or_self, if_false, hs, hn]
      have : t < 0 := by omega
      have h2 : t % 3600000000 - 3600000000 ≠ 0 := by omega
      simp [this, h2]

theorem wrap64_id (x : Int) (h : inI64 x) : wrap64 x = x := by
  unfold wrap64 inI64 at *
  rw [Int.bmod_def]
  have : ((2 ^ 64 : Nat) : Int) = 18446744073709551616 := by decide
  simp only [this]
  omega

theorem tdiv_bounds (t : Int) (h : inI64 t) :
    inI64 (Int.tdiv t 3600000000) ∧ inI64 (Int.tmod t 3600000000) ∧
    inI64 (Int.tdiv t 3600000000 - 1) := by
  unfold inI64 at *
  rw [Int.tdiv_eq_ediv, Int.tmod_eq_emod]
  have hs : (3600000000 : Int).sign = 1 := by decide
  have hn : ((3600000000 : Int).natAbs : Int) = 3600000000 := by decide
  rw [hs]
  by_cases hc : 0 ≤ t ∨ (3600000000 : Int) ∣ t
  · simp only [hc, if_true]; omega
  · simp only [hc, if_false, hn]; omega

/-- On int64 inputs no intermediate result of `HourBucketID` leaves the int64 range: the machine
computation equals the mathematical one. -/
theorem hourBucketID64_eq (t : Int) (h : inI64 t) : hourBucketID64 t = hourBucketID t := by
  obtain ⟨h1, h2, h3⟩ := tdiv_bounds t h
  unfold hourBucketID64 hourBucketID microPerHour
  simp only [wrap64_id _ h1, wrap64_id _ h2, wrap64_id _ h3]

theorem hourBucketID_inI64 (t : Int) (h : inI64 t) : inI64 (hourBucketID t) := by
  rw [hourBucketID_floor]; unfold inI64 at *; omega

/-- the hour start computed by `hourIDToTime` does not overflow unless `t` lies in the (partial)
lowest hour of the int64 range -/
theorem hourStart_no_wrap (t : Int) (h : inI64 t) (hlo : -(2 ^ 63) + 3600000000 ≤ t) :
    hourStartMicro64 (hourBucketID t) = hourBucketID t * 3600000000 ∧
    hourBucketID t * 3600000000 ≤ t ∧ t < hourBucketID t * 3600000000 + 3600000000 := by
  rw [hourBucketID_floor]
  unfold hourStartMicro64 microPerHour
  unfold inI64 at h
  have : inI64 (t / 3600000000 * 3600000000) := by unfold inI64; omega
  rw [wrap64_id _ this]
  omega

def mphBV : BitVec 64 := 3600000000#64

/-- `HourBucketID` on machine words: `sdiv`/`srem` are Go's int64 `/` and `%`. -/
def hourBucketBV (t : BitVec 64) : BitVec 64 :=
  let h := t.sdiv mphBV
  if t.slt 0#64 ∧ t.srem mphBV ≠ 0#64 then h - 1#64 else h

theorem mphBV_toInt : mphBV.toInt = 3600000000 := by decide

theorem toInt_inI64 (t : BitVec 64) : inI64 t.toInt := by
  have h1 := BitVec.le_toInt t
  have h2 := @BitVec.toInt_lt 64 t
  unfold inI64
  simp at h1 h2
  omega

theorem hourBucketBV_floor (t : BitVec 64) : (hourBucketBV t).toInt = t.toInt / 3600000000 := by
  have hx := toInt_inI64 t
  obtain ⟨b1, b2, b3⟩ := tdiv_bounds t.toInt hx
  have hz : (0#64).toInt = 0 := by decide
  have h1 : (1#64).toInt = 1 := by decide
  have hdiv : (t.sdiv mphBV).toInt = Int.tdiv t.toInt 3600000000 := by
    rw [BitVec.toInt_sdiv, mphBV_toInt]; exact wrap64_id _ b1
  have hs : t.slt 0#64 = true ↔ t.toInt < 0 := by
    rw [BitVec.slt_eq_decide]; simp [hz]
  have hr : t.srem mphBV ≠ 0#64 ↔ Int.tmod t.toInt 3600000000 ≠ 0 := by
    rw [Ne, ← BitVec.toInt_inj, BitVec.toInt_srem, mphBV_toInt, hz]
  rw [← hourBucketID_floor]
  unfold hourBucketBV hourBucketID microPerHour
  simp only [hs, hr]
  split
  · rw [BitVec.toInt_sub, hdiv, h1]; exact wrap64_id _ b3
  · exact hdiv

end Arc.C03
