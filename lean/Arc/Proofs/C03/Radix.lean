import Arc.Model.C03.Pure
set_option linter.unnecessarySimpa false
set_option linter.unusedSimpArgs false
/-! C03 helper lemmas: the 8-pass LSD radix sort is a stable sort (induction on passes). -/
namespace Arc.C03

/-- the low `k` bytes of a key -/
def low (k : Nat) (key : Nat) : Nat := key % 256 ^ k

theorem low_succ (k x : Nat) : low (k + 1) x = digit k x * 256 ^ k + low k x := by
  unfold low digit
  rw [Nat.pow_succ, Nat.mod_mul]
  rw [Nat.mul_comm (x / 256 ^ k % 256), Nat.add_comm]

theorem low_lt (k x : Nat) : low k x < 256 ^ k := Nat.mod_lt _ (Nat.pow_pos (by decide))

theorem digit_lt (k x : Nat) : digit k x < 256 := Nat.mod_lt _ (by decide)

/-- strict order "by the low k bytes, ties by original position" -/
def R (keyOf : Nat → Nat) (k : Nat) (i j : Nat) : Prop :=
  low k (keyOf i) < low k (keyOf j) ∨ (low k (keyOf i) = low k (keyOf j) ∧ i < j)

section partition
variable {α : Type} (f : α → Nat)

theorem filter_split (l : List α) (m : Nat) :
    (l.filter (fun x => decide (f x < m)) ++ l.filter (fun x => f x == m)).Perm
      (l.filter (fun x => decide (f x < m + 1))) := by
  induction l with
  | nil => simp
  | cons a l ih =>
    by_cases h1 : f a < m
    · have h2 : ¬ (f a = m) := by omega
      have h3 : f a < m + 1 := by omega
      simp only [List.filter_cons, h1, h3, decide_true, if_true, beq_iff_eq, h2, if_false,
        List.cons_append]
      exact ih.cons a
    · by_cases h2 : f a = m
      · have h3 : f a < m + 1 := by omega
        simp only [List.filter_cons, h1, h3, decide_true, decide_false, if_true, beq_iff_eq, h2,
          if_false]
        refine List.perm_middle.trans ?_
        have := ih.cons a
        simpa [h2] using this
      · have h3 : ¬ f a < m + 1 := by omega
        simp only [List.filter_cons, h1, h3, decide_false, beq_iff_eq, h2, if_false]
        simpa using ih

theorem buckets_perm_lt (l : List α) (m : Nat) :
    ((List.range m).flatMap (fun d => l.filter (fun x => f x == d))).Perm
      (l.filter (fun x => decide (f x < m))) := by
  induction m with
  | zero => simp
  | succ m ih =>
    rw [List.range_succ, List.flatMap_append]
    simp only [List.flatMap_cons, List.flatMap_nil, List.append_nil]
    exact (ih.append_right _).trans (filter_split f l m)

theorem buckets_perm (l : List α) (m : Nat) (h : ∀ x ∈ l, f x < m) :
    ((List.range m).flatMap (fun d => l.filter (fun x => f x == d))).Perm l := by
  have := buckets_perm_lt f l m
  have hall : l.filter (fun x => decide (f x < m)) = l := by
    apply List.filter_eq_self.mpr
    intro a ha; simpa using h a ha
  rwa [hall] at this

end partition

theorem countingPass_perm (keyOf : Nat → Nat) (k : Nat) (src : List Nat) :
    (countingPass keyOf k src).Perm src := by
  unfold countingPass
  exact buckets_perm (fun ix => digit k (keyOf ix)) src 256 (fun x _ => digit_lt _ _)

theorem R_succ_of_digit_eq {keyOf : Nat → Nat} {k i j : Nat}
    (hd : digit k (keyOf i) = digit k (keyOf j)) (h : R keyOf k i j) : R keyOf (k + 1) i j := by
  unfold R at *
  rw [low_succ, low_succ, hd]
  rcases h with h | ⟨h, hij⟩
  · left; omega
  · right; exact ⟨by omega, hij⟩

theorem R_succ_of_digit_lt {keyOf : Nat → Nat} {k i j : Nat}
    (hd : digit k (keyOf i) < digit k (keyOf j)) : R keyOf (k + 1) i j := by
  unfold R
  left
  rw [low_succ, low_succ]
  have h1 := low_lt k (keyOf i)
  have h2 : (digit k (keyOf i) + 1) * 256 ^ k ≤ digit k (keyOf j) * 256 ^ k :=
    Nat.mul_le_mul_right _ hd
  rw [Nat.add_mul] at h2
  omega

theorem countingPass_pairwise (keyOf : Nat → Nat) (k : Nat) (src : List Nat)
    (h : src.Pairwise (R keyOf k)) : (countingPass keyOf k src).Pairwise (R keyOf (k + 1)) := by
  unfold countingPass
  rw [List.pairwise_flatMap]
  constructor
  · intro d _
    have hs : (src.filter (fun ix => digit k (keyOf ix) == d)).Pairwise (R keyOf k) :=
      h.sublist List.filter_sublist
    refine hs.imp_of_mem ?_
    intro a b ha hb hab
    have ha' := (List.mem_filter.mp ha).2
    have hb' := (List.mem_filter.mp hb).2
    simp only [beq_iff_eq] at ha' hb'
    exact R_succ_of_digit_eq (by omega) hab
  · refine (List.pairwise_lt_range (n := 256)).imp ?_
    intro d1 d2 hlt x hx y hy
    have hx' := (List.mem_filter.mp hx).2
    have hy' := (List.mem_filter.mp hy).2
    simp only [beq_iff_eq] at hx' hy'
    exact R_succ_of_digit_lt (by omega)

theorem radixPass_perm (keyOf : Nat → Nat) (src : List Nat) (k : Nat) :
    (radixPass keyOf src k).Perm src := by
  unfold radixPass
  split
  · exact List.Perm.refl _
  · split
    · exact List.Perm.refl _
    · exact countingPass_perm _ _ _

theorem radixPass_pairwise (keyOf : Nat → Nat) (src : List Nat) (k : Nat)
    (h : src.Pairwise (R keyOf k)) : (radixPass keyOf src k).Pairwise (R keyOf (k + 1)) := by
  unfold radixPass
  split
  · simp
  · rename_i i0 rest
    split
    · rename_i hall
      -- skipped pass: every key has the byte of src[0]
      refine h.imp_of_mem ?_
      intro a b ha hb hab
      have ha' := List.all_eq_true.mp hall a ha
      have hb' := List.all_eq_true.mp hall b hb
      simp only [beq_iff_eq] at ha' hb'
      exact R_succ_of_digit_eq (by omega) hab
    · exact countingPass_pairwise _ _ _ h

theorem radixFold (keyOf : Nat → Nat) (m : Nat) :
    ∀ (src : List Nat), src.Pairwise (R keyOf 0) →
      ((List.range m).foldl (radixPass keyOf) src).Pairwise (R keyOf m) ∧
      ((List.range m).foldl (radixPass keyOf) src).Perm src := by
  induction m with
  | zero => intro src h; exact ⟨by simpa using h, by simp⟩
  | succ m ih =>
    intro src h
    rw [List.range_succ, List.foldl_append]
    simp only [List.foldl_cons, List.foldl_nil]
    obtain ⟨h1, h2⟩ := ih src h
    exact ⟨radixPass_pairwise _ _ _ h1, (radixPass_perm _ _ _).trans h2⟩

theorem range_R0 (keyOf : Nat → Nat) (n : Nat) : (List.range n).Pairwise (R keyOf 0) := by
  refine (List.pairwise_lt_range (n := n)).imp ?_
  intro a b hab
  right
  exact ⟨by simp [low, Nat.mod_one], hab⟩

/-- `radixWith` returns a permutation of `0..n-1`, strictly sorted by (key, original position):
sorted and stable. Holds for every key function with 64-bit keys and every `n`. -/
theorem radixWith_sorted_stable (keyOf : Nat → Nat) (n : Nat) (hk : ∀ i, keyOf i < 2 ^ 64) :
    (radixWith keyOf n).Pairwise (fun i j => keyOf i < keyOf j ∨ (keyOf i = keyOf j ∧ i < j)) ∧
    (radixWith keyOf n).Perm (List.range n) := by
  obtain ⟨h1, h2⟩ := radixFold keyOf 8 (List.range n) (range_R0 keyOf n)
  refine ⟨?_, h2⟩
  refine h1.imp ?_
  intro a b hab
  unfold R low at hab
  have e : (256 : Nat) ^ 8 = 2 ^ 64 := by decide
  rw [e, Nat.mod_eq_of_lt (hk a), Nat.mod_eq_of_lt (hk b)] at hab
  exact hab

/-! ### the sign-bit bias is an order isomorphism int64 → uint64 -/

theorem bias_eq (t : Int) (h : inI64 t) : (bias t : Int) = t + 2 ^ 63 := by
  unfold bias inI64 at *
  have : (t + 2 ^ 63) % 2 ^ 64 = t + 2 ^ 63 := Int.emod_eq_of_lt (by omega) (by omega)
  rw [this]
  omega

theorem bias_lt_pow (t : Int) : bias t < 2 ^ 64 := by
  unfold bias
  have h1 : (0 : Int) ≤ (t + 2 ^ 63) % 2 ^ 64 := Int.emod_nonneg _ (by decide)
  have h2 : (t + 2 ^ 63) % 2 ^ 64 < 2 ^ 64 := Int.emod_lt_of_pos _ (by decide)
  omega

theorem bias_lt_iff (a b : Int) (ha : inI64 a) (hb : inI64 b) : bias a < bias b ↔ a < b := by
  have h1 := bias_eq a ha
  have h2 := bias_eq b hb
  omega

theorem bias_eq_iff (a b : Int) (ha : inI64 a) (hb : inI64 b) : bias a = bias b ↔ a = b := by
  have h1 := bias_eq a ha
  have h2 := bias_eq b hb
  omega

end Arc.C03
