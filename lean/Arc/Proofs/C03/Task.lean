import Arc.Proofs.C03.Merge
import Arc.Proofs.C03.Flush
set_option linter.unnecessarySimpa false
set_option linter.unusedSimpArgs false
/-! C03 helper lemmas: the flush of one task (a group of well-formed batches with one column
signature) stores exactly the task's rows, partitioned by hour, each file time-sorted. -/
namespace Arc.C03

/-! ### signature ⇒ no type conflict -/

theorem insertSorted_perm (p : String × Ty) (l : List (String × Ty)) :
    (insertSorted p l).Perm (p :: l) := by
  induction l with
  | nil => simp [insertSorted]
  | cons q rest ih =>
    unfold insertSorted
    split
    · exact List.Perm.refl _
    · exact (ih.cons q).trans (List.Perm.swap p q rest)

theorem signature_perm (b : Batch) :
    (signature b).Perm ((b.cols.filter (fun p => !internalName p.1)).map (fun p => (p.1, p.2.ty))) := by
  unfold signature
  induction (b.cols.filter (fun p => !internalName p.1)) with
  | nil => simp
  | cons p rest ih =>
    simp only [List.foldr_cons, List.map_cons]
    exact (insertSorted_perm _ _).trans (ih.cons _)

theorem mem_signature (b : Batch) (nm : String) (ty : Ty) :
    (nm, ty) ∈ signature b ↔ ∃ c, (nm, c) ∈ b.cols ∧ internalName nm = false ∧ c.ty = ty := by
  rw [(signature_perm b).mem_iff]
  simp only [List.mem_map, List.mem_filter, Prod.mk.injEq]
  constructor
  · rintro ⟨⟨a, c⟩, ⟨h1, h2⟩, h3, h4⟩
    simp only at h3 h4 h2
    subst h3
    exact ⟨c, h1, by simpa using h2, h4⟩
  · rintro ⟨c, h1, h2, h3⟩
    exact ⟨(nm, c), ⟨h1, by simp [h2]⟩, rfl, h3⟩

theorem nodup_fst_unique {β : Type} (l : List (String × β)) (h : (l.map Prod.fst).Nodup)
    (a : String) (x y : β) (hx : (a, x) ∈ l) (hy : (a, y) ∈ l) : x = y := by
  induction l with
  | nil => simp at hx
  | cons p rest ih =>
    simp only [List.map_cons, List.nodup_cons] at h
    rcases List.mem_cons.mp hx with e1 | e1 <;> rcases List.mem_cons.mp hy with e2 | e2
    · rw [← e1] at e2; exact (Prod.mk.inj e2).2.symm ▸ rfl
    · exfalso; apply h.1; rw [← e1]; exact List.mem_map.mpr ⟨(a, y), e2, rfl⟩
    · exfalso; apply h.1; rw [← e2]; exact List.mem_map.mpr ⟨(a, x), e1, rfl⟩
    · exact ih h.2 e1 e2

/-- the Bool check `wfBatch` gives the Prop-level facts -/
structure WF (b : Batch) : Prop where
  wfb      : WFB b
  clean    : ∀ nm ∈ b.names, internalName nm = false
  inRange  : ∀ t ∈ b.times, inI64 t

theorem allDistinct_nodup (l : List String) (h : allDistinct l = true) : l.Nodup := by
  induction l with
  | nil => simp
  | cons a rest ih =>
    simp only [allDistinct, Bool.and_eq_true, Bool.not_eq_true', List.contains_eq_mem,
      decide_eq_false_iff_not] at h
    exact List.nodup_cons.mpr ⟨h.1, ih h.2⟩

theorem wf_of_wfBatch (b : Batch) (h : wfBatch b = true) : WF b := by
  unfold wfBatch at h
  simp only [Bool.and_eq_true] at h
  obtain ⟨⟨⟨⟨h1, h2⟩, h3⟩, h4⟩, h5⟩ := h
  have hcols : ∀ p ∈ b.cols, p.2.vals.length = b.n := by
    intro p hp
    have := List.all_eq_true.mp h5 p hp
    unfold colWF at this
    simp only [Bool.and_eq_true, beq_iff_eq] at this
    exact this.1
  refine ⟨⟨allDistinct_nodup _ h1, ?_, ?_⟩, ?_, ?_⟩
  · unfold timeColWF at h3
    cases hc : b.col "time" with
    | none => simp [hc] at h3
    | some c =>
      simp only [hc, Bool.and_eq_true, decide_eq_true_eq, Option.isNone_iff_eq_none] at h3
      exact ⟨c, rfl, h3.1, h3.2⟩
  · intro nm c hc
    exact hcols (nm, c) (lookup_mem _ _ _ hc)
  · intro nm hnm
    have := List.all_eq_true.mp h2 nm hnm
    simpa using this
  · intro t ht
    have := List.all_eq_true.mp h4 t ht
    simpa using this

/-- a group of batches as it sits in one buffer / one task -/
structure GoodGroup (l : List TBatch) : Prop where
  wf  : ∀ tb ∈ l, wfBatch tb.b = true
  sig : ∀ tb ∈ l, ∀ tb' ∈ l, signature tb.b = signature tb'.b

theorem firstTy_mem (bs : List Batch) (nm : String) (c : Col) (b : Batch) (hb : b ∈ bs)
    (hc : b.col nm = some c) : ∃ b' ∈ bs, ∃ c', b'.col nm = some c' ∧ firstTy bs nm = c'.ty := by
  unfold firstTy
  cases hf : bs.findSome? (fun b => b.col nm) with
  | none =>
    have := List.findSome?_eq_none_iff.mp hf b hb
    simp [hc] at this
  | some c' =>
    obtain ⟨b', hb', hc'⟩ := List.exists_of_findSome?_eq_some hf
    exact ⟨b', hb', c', hc', rfl⟩

theorem goodGroup_noConflict (l : List TBatch) (h : GoodGroup l) :
    typeConflict (l.map TBatch.b) = false := by
  unfold typeConflict
  rw [List.any_eq_false]
  intro b hb
  obtain ⟨tb, htb, rfl⟩ := List.mem_map.mp hb
  simp only [Bool.not_eq_true]
  rw [List.any_eq_false]
  intro p hp
  obtain ⟨nm, c⟩ := p
  simp only [Bool.not_eq_true, decide_eq_false_iff_not, Decidable.not_not]
  have hwf := wf_of_wfBatch _ (h.wf tb htb)
  have hcol : tb.b.col nm = some c := by
    cases hl : tb.b.col nm with
    | none =>
      exact absurd (List.mem_map.mpr ⟨(nm, c), hp, rfl⟩) ((lookup_none_iff _ _).mp hl)
    | some c0 =>
      have := nodup_fst_unique _ hwf.wfb.names nm c0 c (lookup_mem _ _ _ hl) hp
      rw [this]
  obtain ⟨b', hb', c', hc', hft⟩ := firstTy_mem (l.map TBatch.b) nm c tb.b hb hcol
  obtain ⟨tb', htb', rfl⟩ := List.mem_map.mp hb'
  rw [hft]
  have hclean : internalName nm = false := hwf.clean nm (mem_names_of_col _ _ _ hcol)
  have h1 : (nm, c.ty) ∈ signature tb.b := (mem_signature _ _ _).mpr ⟨c, hp, hclean, rfl⟩
  rw [h.sig tb htb tb' htb'] at h1
  obtain ⟨c2, hc2, _, hty2⟩ := (mem_signature _ _ _).mp h1
  have hwf' := wf_of_wfBatch _ (h.wf tb' htb')
  have := nodup_fst_unique _ hwf'.wfb.names nm c2 c' hc2 (lookup_mem _ _ _ hc')
  rw [← this, hty2]

/-- what one flush produces -/
theorem flushTask_spec (l : List TBatch) (h : GoodGroup l) :
    (∀ fs, flushTask (l.map TBatch.b) = .ok fs →
        (fs.flatMap (fun f => f.batch.rows)).Perm ((l.map TBatch.b).flatMap Batch.rows) ∧
        (∀ f ∈ fs, FileOK f) ∧ (fs.map (·.hour)).Nodup) ∧
    (∀ e, flushTask (l.map TBatch.b) = .error e → (l.map TBatch.b).flatMap Batch.rows = []) := by
  have hnc := goodGroup_noConflict l h
  have hwfb : ∀ b ∈ l.map TBatch.b, WFB b := by
    intro b hb
    obtain ⟨tb, htb, rfl⟩ := List.mem_map.mp hb
    exact (wf_of_wfBatch _ (h.wf tb htb)).wfb
  have hrange : ∀ t ∈ allTimes (l.map TBatch.b), inI64 t := by
    intro t ht
    unfold allTimes at ht
    obtain ⟨b, hb, htb⟩ := List.mem_flatMap.mp ht
    obtain ⟨tb, htb', rfl⟩ := List.mem_map.mp hb
    exact (wf_of_wfBatch _ (h.wf tb htb')).inRange t htb
  unfold flushTask
  cases hm : mergeBatches (l.map TBatch.b) with
  | error e =>
    simp only
    refine ⟨by intro fs hfs; simp at hfs, ?_⟩
    intro _ _
    -- merge only fails on the empty list (no conflict here)
    unfold mergeBatches at hm
    split at hm
    · rename_i he; simp [he]
    · simp at hm
    · simp [hnc] at hm
  | ok m =>
    simp only
    obtain ⟨hrows, htime, htimes⟩ := merge_rows _ hwfb hnc m hm
    constructor
    · intro fs hfs
      obtain ⟨h1, h2, h3⟩ := flushFiles_spec m htime (by rw [htimes]; exact hrange) fs hfs
      exact ⟨by rw [← hrows]; exact h1, h2, h3⟩
    · intro e he
      rw [← hrows]
      by_cases hn : m.n = 0
      · unfold Batch.rows; simp [hn]
      · obtain ⟨fs, hfs⟩ := flushFiles_ok m hn
        rw [hfs] at he; simp at he

end Arc.C03
