import Arc.Model.C03.Pure
set_option linter.unnecessarySimpa false
/-! C03 helper lemmas: `groupByHour` partitions the row indices by hour. -/
namespace Arc.C03

theorem insertIdx_perm (bs : List (Int × List Nat)) (h : Int) (i : Nat) :
    ((insertIdx bs h i).flatMap (·.2)).Perm (i :: bs.flatMap (·.2)) := by
  induction bs with
  | nil => simp [insertIdx]
  | cons p rest ih =>
    obtain ⟨h', is⟩ := p
    unfold insertIdx
    split
    · simp only [List.flatMap_cons]
      have : (is ++ [i] ++ rest.flatMap (·.2)).Perm (i :: (is ++ rest.flatMap (·.2))) := by
        have h1 : (is ++ [i]).Perm (i :: is) := by
          simpa using (List.perm_append_comm (l₁ := is) (l₂ := [i]))
        simpa using h1.append_right (rest.flatMap (·.2))
      simpa using this
    · simp only [List.flatMap_cons]
      have h1 := ih.append_left is
      refine h1.trans ?_
      simpa using (List.perm_middle (a := i) (l₁ := is) (l₂ := rest.flatMap (·.2)))

theorem insertIdx_mem (bs : List (Int × List Nat)) (h : Int) (i : Nat) (p : Int × List Nat)
    (hp : p ∈ insertIdx bs h i) :
    (p ∈ bs) ∨ (p.1 = h ∧ ∃ is, p.2 = is ++ [i] ∧ (is = [] ∨ (h, is) ∈ bs)) := by
  induction bs with
  | nil => simp [insertIdx] at hp; subst hp; exact Or.inr ⟨rfl, [], rfl, Or.inl rfl⟩
  | cons q rest ih =>
    obtain ⟨h', is⟩ := q
    unfold insertIdx at hp
    split at hp
    · rename_i heq
      rcases List.mem_cons.mp hp with h1 | h1
      · subst h1; subst heq; exact Or.inr ⟨rfl, is, rfl, Or.inr (by simp)⟩
      · exact Or.inl (by simp [h1])
    · rcases List.mem_cons.mp hp with h1 | h1
      · exact Or.inl (by simp [h1])
      · rcases ih h1 with h2 | ⟨h2, is', h3, h4⟩
        · exact Or.inl (by simp [h2])
        · refine Or.inr ⟨h2, is', h3, ?_⟩
          rcases h4 with h4 | h4
          · exact Or.inl h4
          · exact Or.inr (by simp [h4])

theorem insertIdx_keys (bs : List (Int × List Nat)) (h : Int) (i : Nat) :
    (insertIdx bs h i).map (·.1) = if h ∈ bs.map (·.1) then bs.map (·.1) else bs.map (·.1) ++ [h] := by
  induction bs with
  | nil => simp [insertIdx]
  | cons q rest ih =>
    obtain ⟨h', is⟩ := q
    unfold insertIdx
    by_cases heq : h' = h
    · subst heq; simp
    · simp only [heq, if_false, List.map_cons, ih]
      have : h ≠ h' := fun e => heq e.symm
      by_cases hm : h ∈ rest.map (·.1)
      · simp [hm]
      · simp [hm, this]

/-- invariant of the grouping loop after the first `i` timestamps -/
structure GInv (times : List Int) (i : Nat) (acc : List (Int × List Nat)) : Prop where
  perm : (acc.flatMap (·.2)).Perm (List.range i)
  hour : ∀ p ∈ acc, ∀ j ∈ p.2, ∃ t, times[j]? = some t ∧ hourBucketID t = p.1
  keys : (acc.map (·.1)).Nodup
  asc  : ∀ p ∈ acc, p.2.Pairwise (· < ·)
  lt   : ∀ p ∈ acc, ∀ j ∈ p.2, j < i

theorem GInv.step {times : List Int} {i : Nat} {acc : List (Int × List Nat)} (t : Int)
    (ht : times[i]? = some t) (inv : GInv times i acc) :
    GInv times (i + 1) (insertIdx acc (hourBucketID t) i) := by
  refine ⟨?_, ?_, ?_, ?_, ?_⟩
  · refine (insertIdx_perm acc _ i).trans ?_
    rw [List.range_succ]
    have := (List.Perm.cons i inv.perm)
    exact this.trans (by simpa using (List.perm_append_comm (l₁ := [i]) (l₂ := List.range i)))
  · intro p hp j hj
    rcases insertIdx_mem acc _ i p hp with h1 | ⟨h1, is, h2, h3⟩
    · exact inv.hour p h1 j hj
    · rw [h2] at hj
      rcases List.mem_append.mp hj with h4 | h4
      · rcases h3 with h3 | h3
        · subst h3; simp at h4
        · have := inv.hour _ h3 j h4
          simpa [h1] using this
      · simp at h4; subst h4; exact ⟨t, ht, h1.symm⟩
  · rw [insertIdx_keys]
    split
    · exact inv.keys
    · rename_i hn
      exact List.nodup_append.mpr ⟨inv.keys, by simp, by
        intro a ha b hb; simp at hb; subst hb; intro e; subst e; exact hn ha⟩
  · intro p hp
    rcases insertIdx_mem acc _ i p hp with h1 | ⟨_, is, h2, h3⟩
    · exact inv.asc p h1
    · rw [h2]
      rcases h3 with h3 | h3
      · subst h3; simp
      · refine List.pairwise_append.mpr ⟨inv.asc _ h3, by simp, ?_⟩
        intro a ha b hb; simp at hb; subst hb; exact inv.lt _ h3 a ha
  · intro p hp j hj
    rcases insertIdx_mem acc _ i p hp with h1 | ⟨_, is, h2, h3⟩
    · have := inv.lt p h1 j hj; omega
    · rw [h2] at hj
      rcases List.mem_append.mp hj with h4 | h4
      · rcases h3 with h3 | h3
        · subst h3; simp at h4
        · have := inv.lt _ h3 j h4; omega
      · simp at h4; omega

theorem groupFrom_inv (times : List Int) :
    ∀ (ts : List Int) (i : Nat) (acc : List (Int × List Nat)),
      times.drop i = ts → GInv times i acc → GInv times times.length (groupFrom ts i acc) := by
  intro ts
  induction ts with
  | nil =>
    intro i acc hd inv
    have : times.length ≤ i := by
      have := congrArg List.length hd; simp at this; omega
    simp only [groupFrom]
    -- i ≥ length and all indices < length... but inv talks about range i; show i = length
    have hi : i = times.length ∨ times.length < i := by omega
    rcases hi with hi | hi
    · subst hi; exact inv
    · -- impossible: index times.length would be in some bucket with a timestamp
      exfalso
      have hmem : times.length ∈ acc.flatMap (·.2) :=
        inv.perm.symm.subset (List.mem_range.mpr hi)
      obtain ⟨p, hp, hj⟩ := List.mem_flatMap.mp hmem
      obtain ⟨t, ht, _⟩ := inv.hour p hp _ hj
      simp at ht
  | cons t ts ih =>
    intro i acc hd inv
    have ht : times[i]? = some t := by
      have := congrArg (·[0]?) hd
      simpa using this
    have hd' : times.drop (i + 1) = ts := by
      have := congrArg List.tail hd
      simpa using this
    simp only [groupFrom]
    exact ih (i + 1) _ hd' (inv.step t ht)

theorem groupByHour_inv (times : List Int) : GInv times times.length (groupByHour times) := by
  unfold groupByHour
  exact groupFrom_inv times times 0 [] (by simp) ⟨by simp, by simp, by simp, by simp, by simp⟩

end Arc.C03
