import Arc.Model.C03
import Arc.Proofs.C03.Sort
set_option linter.unnecessarySimpa false
set_option linter.unusedSimpArgs false
/-! C03 helper lemmas: `mergeBatches` concatenates rows — every value and every NULL (explicit or a
column absent from a batch) is preserved, in arrival order. -/
namespace Arc.C03

theorem lookup_mem {β : Type} (l : List (String × β)) (nm : String) (c : β)
    (h : l.lookup nm = some c) : (nm, c) ∈ l := by
  induction l with
  | nil => simp at h
  | cons p rest ih =>
    obtain ⟨a, b⟩ := p
    simp only [List.lookup_cons] at h
    split at h
    · rename_i he
      have : nm = a := by simpa using he
      simp at h; subst h; subst this; simp
    · exact List.mem_cons_of_mem _ (ih h)

theorem lookup_none_iff {β : Type} (l : List (String × β)) (nm : String) :
    l.lookup nm = none ↔ nm ∉ l.map Prod.fst := by
  induction l with
  | nil => simp
  | cons p rest ih =>
    obtain ⟨a, b⟩ := p
    simp only [List.lookup_cons, List.map_cons, List.mem_cons, not_or]
    by_cases he : nm = a
    · subst he; simp
    · have : (nm == a) = false := by simpa using he
      simp [this, ih, he]

theorem lookup_map_self {β : Type} (names : List String) (f : String → β) (nm : String) :
    (names.map (fun x => (x, f x))).lookup nm = if nm ∈ names then some (f nm) else none := by
  induction names with
  | nil => simp
  | cons a rest ih =>
    simp only [List.map_cons, List.lookup_cons, List.mem_cons]
    by_cases he : nm = a
    · subst he; simp
    · have : (nm == a) = false := by simpa using he
      simp [this, ih, he]

/-! ### global-index view of a list of batches -/

def totalN (bs : List Batch) : Nat := (bs.map Batch.n).sum

def cellG : List Batch → String → Nat → Option Val
  | [], _, _ => none
  | b :: rest, nm, g => if g < b.n then (b.col nm).bind (fun c => c.cellAt g) else cellG rest nm (g - b.n)

def allTimes (bs : List Batch) : List Int := bs.flatMap Batch.times

theorem allTimes_length (bs : List Batch) : (allTimes bs).length = totalN bs := by
  induction bs with
  | nil => rfl
  | cons b rest ih => simp [allTimes, totalN, Batch.n] at *; omega

theorem range_add (a b : Nat) : List.range (a + b) = List.range a ++ (List.range b).map (a + ·) := by
  induction b with
  | zero => simp
  | succ b ih => rw [← Nat.add_assoc, List.range_succ, ih, List.range_succ]; simp

theorem getD_append_left {α : Type} (l r : List α) (i : Nat) (d : α) (h : i < l.length) :
    (l ++ r).getD i d = l.getD i d := by
  simp [List.getD, List.getElem?_append_left h]

theorem getD_append_right {α : Type} (l r : List α) (j : Nat) (d : α) :
    (l ++ r).getD (l.length + j) d = r.getD j d := by
  simp [List.getD, List.getElem?_append_right]

theorem flatMap_rows_eq (bs : List Batch) :
    bs.flatMap Batch.rows =
      (List.range (totalN bs)).map (fun g => (⟨tAt (allTimes bs) g, fun nm => cellG bs nm g⟩ : Row)) := by
  induction bs with
  | nil => rfl
  | cons b rest ih =>
    simp only [List.flatMap_cons, ih]
    have hN : totalN (b :: rest) = b.n + totalN rest := by simp [totalN]
    rw [hN, range_add, List.map_append, List.map_map]
    congr 1
    · unfold Batch.rows
      apply List.map_congr_left
      intro g hg
      have hg' : g < b.n := List.mem_range.mp hg
      unfold Batch.rowAt
      congr 1
      · unfold tAt allTimes
        simp only [List.flatMap_cons]
        rw [getD_append_left _ _ _ _ (by simpa [Batch.n] using hg')]
      · funext nm; simp [cellG, hg']
    · apply List.map_congr_left
      intro j _
      simp only [Function.comp]
      congr 1
      · unfold tAt allTimes
        simp only [List.flatMap_cons]
        exact (getD_append_right b.times _ j 0).symm
      · funext nm
        have : ¬ (b.n + j < b.n) := by omega
        simp [cellG, this]

/-! ### the merged column, cell by cell -/

def rawVals (bs : List Batch) (nm : String) (ty : Ty) : List Val := bs.flatMap (fun b => segVals b nm ty)
def rawValid (bs : List Batch) (nm : String) : List Bool := bs.flatMap (fun b => segValid b nm)

theorem segVals_length (b : Batch) (nm : String) (ty : Ty) : (segVals b nm ty).length = b.n := by
  unfold segVals; split <;> simp

theorem segValid_length (b : Batch) (nm : String) : (segValid b nm).length = b.n := by
  unfold segValid; split
  · split <;> simp
  · simp

theorem rawValid_length (bs : List Batch) (nm : String) : (rawValid bs nm).length = totalN bs := by
  induction bs with
  | nil => rfl
  | cons b rest ih => simp [rawValid, totalN, segValid_length] at *

theorem getD_range_map {α : Type} (f : Nat → α) (n g : Nat) (d : α) (h : g < n) :
    ((List.range n).map f).getD g d = f g := by
  rw [getD_map_lt _ _ _ _ (by simpa using h)]
  simp

theorem getD_replicate {α : Type} (n g : Nat) (a d : α) (h : g < n) :
    (List.replicate n a).getD g d = a := by
  simp [List.getD, h]

/-- under "no type conflict for `nm`", the merged payload + validity encode exactly `cellG` -/
theorem cellG_eq (bs : List Batch) (nm : String) (ty : Ty)
    (hty : ∀ b ∈ bs, ∀ c, b.col nm = some c → c.ty = ty) (g : Nat) (hg : g < totalN bs) :
    cellG bs nm g =
      if (rawValid bs nm).getD g false then some ((rawVals bs nm ty).getD g ty.zero) else none := by
  induction bs generalizing g with
  | nil => simp [totalN] at hg
  | cons b rest ih =>
    simp only [cellG, rawValid, rawVals, List.flatMap_cons]
    by_cases hlt : g < b.n
    · simp only [hlt, if_true]
      rw [getD_append_left _ _ _ _ (by rw [segValid_length]; exact hlt),
          getD_append_left _ _ _ _ (by rw [segVals_length]; exact hlt)]
      unfold segValid segVals
      cases hc : b.col nm with
      | none => simp only [getD_replicate _ _ _ _ hlt, Option.bind_none]; rfl
      | some c =>
        have hct := hty b (by simp) c hc
        simp only [Option.bind_some]
        unfold Col.cellAt
        cases hv : c.valid with
        | none =>
          simp only [getD_replicate _ _ _ _ hlt, if_true, getD_range_map _ _ _ _ hlt, hct]
        | some v =>
          simp only [getD_range_map _ _ _ _ hlt, hct]
    · simp only [hlt, if_false]
      have hN : totalN (b :: rest) = b.n + totalN rest := by simp [totalN]
      have hg' : g - b.n < totalN rest := by omega
      have hsplit : g = b.n + (g - b.n) := by omega
      rw [ih (fun b' hb' => hty b' (List.mem_cons_of_mem _ hb')) (g - b.n) hg']
      have e1 : (segValid b nm ++ rawValid rest nm).getD g false = (rawValid rest nm).getD (g - b.n) false := by
        have := getD_append_right (segValid b nm) (rawValid rest nm) (g - b.n) false
        rw [segValid_length] at this
        rw [← this, ← hsplit]
      have e2 : (segVals b nm ty ++ rawVals rest nm ty).getD g ty.zero = (rawVals rest nm ty).getD (g - b.n) ty.zero := by
        have := getD_append_right (segVals b nm ty) (rawVals rest nm ty) (g - b.n) ty.zero
        rw [segVals_length] at this
        rw [← this, ← hsplit]
      unfold rawValid at e1
      unfold rawVals at e2
      unfold rawValid rawVals
      rw [e1, e2]

theorem cellG_none (bs : List Batch) (nm : String) (h : ∀ b ∈ bs, b.col nm = none) (g : Nat) :
    cellG bs nm g = none := by
  induction bs generalizing g with
  | nil => rfl
  | cons b rest ih =>
    simp only [cellG]
    split
    · simp [h b (by simp)]
    · exact ih (fun b' hb' => h b' (List.mem_cons_of_mem _ hb')) _

/-! ### well-formed batches -/

/-- what the merge needs from an accepted batch: names unique, an int64 `time` column without
validity whose length is the row count, every column as long -/
structure WFB (b : Batch) : Prop where
  names : b.names.Nodup
  time  : ∃ c, b.col "time" = some c ∧ c.ty = .i64 ∧ c.valid = none
  lens  : ∀ nm c, b.col nm = some c → c.vals.length = b.n

theorem WFB.hasTime {b : Batch} (h : WFB b) : HasTime b := by
  obtain ⟨c, h1, h2, _⟩ := h.time; exact ⟨c, h1, h2⟩

def NoConflict (bs : List Batch) : Prop :=
  ∀ b ∈ bs, ∀ nm c, b.col nm = some c → c.ty = firstTy bs nm

theorem noConflict_of (bs : List Batch) (h : typeConflict bs = false) : NoConflict bs := by
  intro b hb nm c hc
  unfold typeConflict at h
  have h1 : ∀ x c, (x, c) ∈ b.cols → c.ty = firstTy bs x := by
    simpa using List.any_eq_false.mp h b hb
  exact h1 nm c (lookup_mem _ _ _ hc)

theorem mem_unionNames (bs : List Batch) (nm : String) :
    nm ∈ unionNames bs ↔ ∃ b ∈ bs, nm ∈ b.names := by
  unfold unionNames
  rw [List.mem_eraseDups, List.mem_flatMap]

theorem col_none_of_not_mem (b : Batch) (nm : String) (h : nm ∉ b.names) : b.col nm = none :=
  (lookup_none_iff _ _).mpr h

theorem mem_names_of_col (b : Batch) (nm : String) (c : Col) (h : b.col nm = some c) : nm ∈ b.names := by
  have := lookup_mem _ _ _ h
  exact List.mem_map.mpr ⟨(nm, c), this, rfl⟩

theorem segVals_time (b : Batch) (hb : WFB b) :
    (segVals b "time" .i64).map Val.toInt = b.times := by
  obtain ⟨c, hc, hty, _⟩ := hb.time
  have hl := hb.lens "time" c hc
  unfold segVals Batch.times
  rw [hc]
  simp only [hty, if_true]
  rw [← hl]
  congr 1
  apply List.ext_getElem
  · simp
  · intro i h1 h2
    simp only [List.getElem_map, List.getElem_range]
    exact getD_lt _ _ _ h2

/-- pigeonhole: a batch that lacks a union column has fewer columns than the union -/
theorem sparse_of_missing (bs : List Batch) (b : Batch) (hb : b ∈ bs) (hn : b.names.Nodup)
    (nm : String) (hu : nm ∈ unionNames bs) (hm : nm ∉ b.names) :
    b.cols.length < (unionNames bs).length := by
  have hsub : b.names ⊆ (unionNames bs).erase nm := by
    intro x hx
    have hxu : x ∈ unionNames bs := (mem_unionNames bs x).mpr ⟨b, hb, hx⟩
    have hne : x ≠ nm := fun e => hm (e ▸ hx)
    exact (List.mem_erase_of_ne hne).mpr hxu
  have h1 := hn.length_le_of_subset hsub
  have h2 := List.length_erase_of_mem hu
  have h3 : b.names.length = b.cols.length := by simp [Batch.names]
  have h4 : 0 < (unionNames bs).length := List.length_pos_of_mem hu
  omega

theorem all_getD_true (W : List Bool) (h : W.all id = true) (g : Nat) (hg : g < W.length) :
    W.getD g false = true := by
  rw [getD_lt _ _ _ hg]
  have := List.all_eq_true.mp h W[g] (List.getElem_mem _)
  simpa using this

/-- the cell of the merged column at global row `g` -/
theorem mergedCol_cellAt (bs : List Batch) (hwf : ∀ b ∈ bs, WFB b) (hnc : NoConflict bs)
    (nm : String) (hu : nm ∈ unionNames bs) (g : Nat) (hg : g < totalN bs) :
    (mergedCol bs nm).cellAt g = cellG bs nm g := by
  rw [cellG_eq bs nm (firstTy bs nm) (fun b hb c hc => hnc b hb nm c hc) g hg]
  have hWlen := rawValid_length bs nm
  have hW : bs.flatMap (fun b => segValid b nm) = rawValid bs nm := rfl
  have hV : bs.flatMap (fun b => segVals b nm (firstTy bs nm)) = rawVals bs nm (firstTy bs nm) := rfl
  unfold mergedCol Col.cellAt
  simp only [hW, hV]
  by_cases hnv : needsValidity bs = true
  · simp only [hnv, if_true]
    by_cases hall : (rawValid bs nm).all id = true
    · have := all_getD_true (rawValid bs nm) hall g (by rw [hWlen]; exact hg)
      simp only [stripValid, hall, if_true, this]
    · simp only [stripValid, hall, Bool.false_eq_true, if_false]
  · -- no validity anywhere and no sparse column: every segment is all-true
    have hnv' : needsValidity bs = false := by simpa using hnv
    simp only [hnv', Bool.false_eq_true, if_false]
    unfold needsValidity at hnv'
    simp only [Bool.or_eq_false_iff] at hnv'
    obtain ⟨hA, hB⟩ := hnv'
    have hall : (rawValid bs nm).all id = true := by
      rw [List.all_eq_true]
      intro x hx
      unfold rawValid at hx
      obtain ⟨b, hb, hxb⟩ := List.mem_flatMap.mp hx
      have hBb := List.any_eq_false.mp hB b hb
      have hnotsparse : ¬ b.cols.length < (unionNames bs).length := by simpa using hBb
      have hmem : nm ∈ b.names := by
        by_cases hm : nm ∈ b.names
        · exact hm
        · exact absurd (sparse_of_missing bs b hb (hwf b hb).names nm hu hm) hnotsparse
      have hAb : ∀ x c, (x, c) ∈ b.cols → c.valid = none := by
        simpa using List.any_eq_false.mp hA b hb
      unfold segValid at hxb
      cases hc : b.col nm with
      | none => exact absurd hmem ((lookup_none_iff _ _).mp hc)
      | some c =>
        have hcv' : c.valid = none := hAb nm c (lookup_mem _ _ _ hc)
        rw [hc] at hxb
        simp only [hcv'] at hxb
        have := List.eq_of_mem_replicate hxb
        simp [this]
    have := all_getD_true (rawValid bs nm) hall g (by rw [hWlen]; exact hg)
    simp only [this, if_true]

theorem firstTy_time (b : Batch) (rest : List Batch) (hb : WFB b) : firstTy (b :: rest) "time" = .i64 := by
  obtain ⟨c, hc, hty, _⟩ := hb.time
  unfold firstTy
  simp [List.findSome?_cons, hc, hty]

theorem merged_times (bs : List Batch) (hwf : ∀ b ∈ bs, WFB b) (hne : bs ≠ []) :
    (mergedCol bs "time").ty = .i64 ∧ (mergedCol bs "time").vals.map Val.toInt = allTimes bs := by
  obtain ⟨b0, rest, rfl⟩ := List.exists_cons_of_ne_nil hne
  have hft := firstTy_time b0 rest (hwf b0 (by simp))
  refine ⟨by simp [mergedCol, hft], ?_⟩
  simp only [mergedCol, hft]
  generalize b0 :: rest = bs at hwf
  induction bs with
  | nil => rfl
  | cons b rest' ih =>
    simp only [List.flatMap_cons, List.map_append, allTimes]
    rw [segVals_time b (hwf b (by simp))]
    congr 1
    exact ih (fun b' hb' => hwf b' (List.mem_cons_of_mem _ hb'))

/-- **merge preserves rows**: for well-formed batches without a type conflict, the merged batch's
rows are the concatenation of the batches' rows (absent column = NULL). -/
theorem merge_rows (bs : List Batch) (hwf : ∀ b ∈ bs, WFB b) (hnc : typeConflict bs = false)
    (m : Batch) (hm : mergeBatches bs = .ok m) :
    m.rows = bs.flatMap Batch.rows ∧ HasTime m ∧ m.times = allTimes bs := by
  unfold mergeBatches at hm
  split at hm
  · simp at hm
  · rename_i b
    simp only [Except.ok.injEq] at hm
    subst hm
    exact ⟨by simp, (hwf b (by simp)).hasTime, by simp [allTimes]⟩
  · rename_i hne1 hne2
    simp only [hnc, Bool.false_eq_true, if_false, Except.ok.injEq] at hm
    have hne : bs ≠ [] := fun e => hne1 e
    obtain ⟨hty, htimes⟩ := merged_times bs hwf hne
    have hnoc := noConflict_of bs hnc
    have htimeU : "time" ∈ unionNames bs := by
      obtain ⟨b0, rest, rfl⟩ := List.exists_cons_of_ne_nil hne
      obtain ⟨c, hc, _⟩ := (hwf b0 (by simp)).time
      exact (mem_unionNames _ _).mpr ⟨b0, by simp, mem_names_of_col _ _ _ hc⟩
    have hcol : ∀ nm, m.col nm = if nm ∈ unionNames bs then some (mergedCol bs nm) else none := by
      intro nm; subst hm; unfold Batch.col; exact lookup_map_self _ _ _
    have hmt : m.times = allTimes bs := by
      unfold Batch.times
      rw [hcol "time"]
      simp [htimeU, hty, htimes]
    have hmn : m.n = totalN bs := by
      unfold Batch.n; rw [hmt, allTimes_length]
    refine ⟨?_, ⟨mergedCol bs "time", by rw [hcol "time"]; simp [htimeU], hty⟩, hmt⟩
    rw [flatMap_rows_eq]
    unfold Batch.rows
    rw [hmn]
    apply List.map_congr_left
    intro g hg
    have hg' : g < totalN bs := List.mem_range.mp hg
    unfold Batch.rowAt
    congr 1
    · rw [hmt]; rfl
    · funext nm
      rw [hcol nm]
      by_cases hu : nm ∈ unionNames bs
      · simp only [hu, if_true, Option.bind_some]
        exact mergedCol_cellAt bs hwf hnoc nm hu g hg'
      · simp only [hu, if_false, Option.bind_none]
        symm
        apply cellG_none
        intro b hb
        apply col_none_of_not_mem
        intro hmem
        exact hu ((mem_unionNames _ _).mpr ⟨b, hb, hmem⟩)

end Arc.C03
