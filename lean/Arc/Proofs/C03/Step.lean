import Arc.Proofs.C03.LTS
set_option linter.unnecessarySimpa false
set_option linter.unusedSimpArgs false
set_option linter.unusedVariables false
/-! C03 helper lemmas: every LTS step preserves the invariant. -/
namespace Arc.C03

open Lean.Parser.Tactic in
macro "comps" loc:(location)? : tactic => `(tactic| simp only [bufRows, heldRows, queueRows, inflightRows, storedRows,
  droppedRows, failedRows, List.flatMap_append, List.flatMap_cons, List.flatMap_nil, List.append_nil,
  cnt_append, cnt_nil, setKey, putFile, groupRows, taskRows] $[$loc]?)

theorem allRows_perm (s s' : St) (A : List KRow)
    (h : ∀ a, cnt a (bufRows s') + cnt a (heldRows s') + cnt a (queueRows s') +
          cnt a (inflightRows s') + cnt a (storedRows s') + cnt a (droppedRows s') + cnt a (failedRows s') =
        cnt a (bufRows s) + cnt a (heldRows s) + cnt a (queueRows s) +
          cnt a (inflightRows s) + cnt a (storedRows s) + cnt a (droppedRows s) + cnt a (failedRows s) +
          cnt a A) : (allRows s').Perm (allRows s ++ A) := by
  apply perm_of_cnt
  intro a
  rw [cnt_append, cnt_all, cnt_all]
  exact h a

theorem cons_step (s s' : St) (A : List KRow) (hI : (acceptedRows s).Perm (allRows s))
    (hacc : acceptedRows s' = acceptedRows s ++ A) (hall : (allRows s').Perm (allRows s ++ A)) :
    (acceptedRows s').Perm (allRows s') := by
  rw [hacc]
  exact (hI.append_right A).trans hall.symm

theorem goodGroup_snoc (l : List TBatch) (tb : TBatch) (h : GoodGroup l) (hw : wfBatch tb.b = true)
    (hs : sigOK l tb.b = true) : GoodGroup (l ++ [tb]) := by
  constructor
  · intro x hx
    rcases List.mem_append.mp hx with h1 | h1
    · exact h.wf x h1
    · simp at h1; subst h1; exact hw
  · have key : ∀ x ∈ l, signature x.b = signature tb.b := by
      intro x hx
      cases l with
      | nil => simp at hx
      | cons y rest =>
        simp only [sigOK, decide_eq_true_eq] at hs
        rw [h.sig x hx y (by simp), hs]
    intro x hx y hy
    rcases List.mem_append.mp hx with h1 | h1 <;> rcases List.mem_append.mp hy with h2 | h2
    · exact h.sig x h1 y h2
    · simp at h2; subst h2; exact key x h1
    · simp at h1; subst h1; exact (key y h2).symm
    · simp at h1 h2; subst h1; subst h2; rfl

theorem goodGroup_single (tb : TBatch) (hw : wfBatch tb.b = true) : GoodGroup [tb] := by
  constructor
  · intro x hx; simp at hx; subst hx; exact hw
  · intro x hx y hy; simp at hx hy; subst hx; subst hy; rfl

/-- effect of `startFlush` on the invariant-relevant components -/
theorem startFlush_spec (s : St) (t : Task) (hg : GoodGroup t.batches)
    (hin : ∀ f ∈ s.inflight, PFileOK f) (hfe : failedRows s = []) :
    let s' := startFlush s t
    (∀ a, cnt a (inflightRows s') + cnt a (failedRows s') =
          cnt a (inflightRows s) + cnt a (failedRows s) + cnt a (taskRows t)) ∧
    (∀ f ∈ s'.inflight, PFileOK f) ∧ failedRows s' = [] ∧
    s'.bufs = s.bufs ∧ s'.held = s.held ∧ s'.queue = s.queue ∧ s'.files = s.files ∧
    s'.dropped = s.dropped ∧ s'.accepted = s.accepted := by
  obtain ⟨hok, herr⟩ := flushTask_spec t.batches hg
  have hrows : taskRows t = ((t.batches.map TBatch.b).flatMap Batch.rows).map (fun r => (t.key, r)) := by
    unfold taskRows groupRows krows
    rw [List.flatMap_map, List.map_flatMap]
  simp only
  unfold startFlush
  cases hf : flushTask (t.batches.map TBatch.b) with
  | ok fs =>
    simp only
    obtain ⟨h1, h2, _⟩ := hok fs hf
    refine ⟨?_, ?_, hfe, (by first | trivial | rfl), (by first | trivial | rfl), (by first | trivial | rfl), (by first | trivial | rfl), (by first | trivial | rfl), (by first | trivial | rfl)⟩
    · intro a
      have e1 : inflightRows { s with inflight := s.inflight ++ fs.map (fun f => (⟨t.key, f.hour, f.batch⟩ : PFile)) } =
          inflightRows s ++ (fs.flatMap (fun f => f.batch.rows)).map (fun r => (t.key, r)) := by
        unfold inflightRows pfileRows krows
        simp only [List.flatMap_append, List.flatMap_map, List.map_flatMap]
      have e2 : failedRows { s with inflight := s.inflight ++ fs.map (fun f => (⟨t.key, f.hour, f.batch⟩ : PFile)) } = failedRows s := rfl
      rw [e1, e2, cnt_append, hrows]
      have := cnt_perm (h1.map (fun r => (t.key, r))) a
      omega
    · intro f hfm
      rcases List.mem_append.mp hfm with h3 | h3
      · exact hin f h3
      · obtain ⟨o, ho, rfl⟩ := List.mem_map.mp h3
        exact ⟨(h2 o ho).inHour, (h2 o ho).sorted⟩
  | error e =>
    simp only
    have hz := herr e hf
    have htz : taskRows t = [] := by rw [hrows, hz]; rfl
    refine ⟨?_, hin, ?_, (by first | trivial | rfl), (by first | trivial | rfl), (by first | trivial | rfl), (by first | trivial | rfl), (by first | trivial | rfl), (by first | trivial | rfl)⟩
    · intro a
      have e2 : failedRows { s with failed := s.failed ++ [t] } = failedRows s ++ taskRows t := by
        unfold failedRows; simp
      have e1 : inflightRows { s with failed := s.failed ++ [t] } = inflightRows s := rfl
      rw [e1, e2, cnt_append]; omega
    · unfold failedRows at hfe ⊢
      simp [hfe, htz]

theorem step_inv (maxBuf : Nat) (s s' : St) (e : Ev) (hI : Inv s)
    (hs : step maxBuf s e = some s') (hfresh : freshAt s e = true) : Inv s' := by
  cases e with
  | write k tb =>
    simp only [step] at hs
    split at hs
    · simp at hs
    · rename_i hw
      have hw' : wfBatch tb.b = true := by simpa using hw
      split at hs
      · -- new buffer
        rename_i hnone
        simp only [Option.some.injEq] at hs
        subst hs
        have hek : eraseKey k s.bufs = s.bufs := eraseKey_of_lookup_none k s.bufs hnone
        refine ⟨?_, setKey_nodup k _ _ hI.keys, ?_, hI.heldWF, hI.queueWF, hI.inflOK, hI.filesOK, hI.failedE⟩
        · refine cons_step s _ (krows k tb.b) hI.cons (by unfold acceptedRows; simp) ?_
          apply allRows_perm
          intro a
          comps
          rw [hek]
          omega
        · intro p hp
          rcases List.mem_cons.mp hp with h1 | h1
          · subst h1; exact goodGroup_single tb hw'
          · exact hI.bufWF p (mem_eraseKey _ _ _ h1)
      · rename_i l hsome
        split at hs
        · rename_i hsig
          simp only [Option.some.injEq] at hs
          subst hs
          have hperm := flatMap_eraseKey k s.bufs l (fun p => groupRows p.1 p.2) hI.keys hsome
          refine ⟨?_, setKey_nodup k _ _ hI.keys, ?_, hI.heldWF, hI.queueWF, hI.inflOK, hI.filesOK, hI.failedE⟩
          · refine cons_step s _ (krows k tb.b) hI.cons (by unfold acceptedRows; simp) ?_
            apply allRows_perm
            intro a
            have e2 := cnt_perm hperm a
            comps at e2 ⊢
            omega
          · intro p hp
            rcases List.mem_cons.mp hp with h1 | h1
            · subst h1
              exact goodGroup_snoc l tb (hI.bufWF (k, l) (lookup_mem' _ _ _ hsome)) hw' hsig
            · exact hI.bufWF p (mem_eraseKey _ _ _ h1)
        · simp at hs
  | extract k =>
    simp only [step] at hs
    split at hs
    · simp at hs
    · rename_i l hsome
      split at hs
      · simp only [Option.some.injEq] at hs
        subst hs
        have hperm := flatMap_eraseKey k s.bufs l (fun p => groupRows p.1 p.2) hI.keys hsome
        refine ⟨?_, eraseKey_nodup k _ hI.keys, fun p hp => hI.bufWF p (mem_eraseKey _ _ _ hp), ?_,
          hI.queueWF, hI.inflOK, hI.filesOK, hI.failedE⟩
        · refine cons_step s _ [] hI.cons (by simp [acceptedRows]) ?_
          apply allRows_perm
          intro a
          have e2 := cnt_perm hperm a
          comps at e2 ⊢
          omega
        · intro t ht
          rcases List.mem_append.mp ht with h1 | h1
          · exact hI.heldWF t h1
          · simp at h1; subst h1; exact hI.bufWF (k, l) (lookup_mem' _ _ _ hsome)
      · simp at hs
  | enqueue i =>
    simp only [step] at hs
    split at hs
    · simp at hs
    · rename_i t hsome
      simp only [Option.some.injEq] at hs
      subst hs
      have hperm := flatMap_eraseIdx s.held taskRows i t hsome
      refine ⟨?_, hI.keys, hI.bufWF, fun x hx => hI.heldWF x (mem_eraseIdx _ _ _ hx), ?_,
        hI.inflOK, hI.filesOK, hI.failedE⟩
      · refine cons_step s _ [] hI.cons (by simp [acceptedRows]) ?_
        apply allRows_perm
        intro a
        have e2 := cnt_perm hperm a
        comps at e2 ⊢
        omega
      · intro x hx
        rcases List.mem_append.mp hx with h1 | h1
        · exact hI.queueWF x h1
        · simp at h1; subst h1; exact hI.heldWF _ (mem_of_getElem? _ _ _ hsome)
  | enqFail i =>
    simp only [step] at hs
    split at hs
    · simp at hs
    · rename_i t hsome
      simp only [Option.some.injEq] at hs
      subst hs
      have hperm := flatMap_eraseIdx s.held taskRows i t hsome
      refine ⟨?_, hI.keys, hI.bufWF, fun x hx => hI.heldWF x (mem_eraseIdx _ _ _ hx), hI.queueWF,
        hI.inflOK, hI.filesOK, hI.failedE⟩
      refine cons_step s _ [] hI.cons (by simp [acceptedRows]) ?_
      apply allRows_perm
      intro a
      have e2 := cnt_perm hperm a
      comps at e2 ⊢
      omega
  | take i =>
    simp only [step] at hs
    split at hs
    · simp at hs
    · rename_i t hsome
      simp only [Option.some.injEq] at hs
      have hperm := flatMap_eraseIdx s.queue taskRows i t hsome
      have hg := hI.queueWF t (mem_of_getElem? _ _ _ hsome)
      obtain ⟨h1, h2, h3, b1, b2, b3, b4, b5, b6⟩ :=
        startFlush_spec { s with queue := s.queue.eraseIdx i } t hg hI.inflOK hI.failedE
      simp only at h1 h2 h3 b1 b2 b3 b4 b5 b6
      rw [hs] at h1 h2 h3 b1 b2 b3 b4 b5 b6
      refine ⟨?_, by rw [b1]; exact hI.keys, by rw [b1]; exact hI.bufWF, by rw [b2]; exact hI.heldWF,
        by rw [b3]; exact fun x hx => hI.queueWF x (mem_eraseIdx _ _ _ hx), h2, by rw [b4]; exact hI.filesOK, h3⟩
      refine cons_step s _ [] hI.cons (by unfold acceptedRows; rw [b6]; simp) ?_
      apply allRows_perm
      intro a
      have e2 := cnt_perm hperm a
      rw [cnt_append] at e2
      have := h1 a
      rw [cnt_nil]
      have c1 : bufRows s' = bufRows s := by unfold bufRows; rw [b1]
      have c2 : heldRows s' = heldRows s := by unfold heldRows; rw [b2]
      have c3 : queueRows s' = (s.queue.eraseIdx i).flatMap taskRows := by unfold queueRows; rw [b3]
      have c4 : storedRows s' = storedRows s := by unfold storedRows; rw [b4]
      have c5 : droppedRows s' = droppedRows s := by unfold droppedRows; rw [b5]
      rw [c1, c2, c3, c4, c5]
      have d1 : inflightRows { s with queue := s.queue.eraseIdx i } = inflightRows s := rfl
      have d2 : failedRows { s with queue := s.queue.eraseIdx i } = failedRows s := rfl
      rw [d1, d2] at this
      unfold queueRows
      omega
  | syncFlush w k =>
    simp only [step] at hs
    split at hs
    · simp at hs
    · rename_i l hsome
      simp only [Option.some.injEq] at hs
      have hperm := flatMap_eraseKey k s.bufs l (fun p => groupRows p.1 p.2) hI.keys hsome
      have hg := hI.bufWF (k, l) (lookup_mem' _ _ _ hsome)
      obtain ⟨h1, h2, h3, b1, b2, b3, b4, b5, b6⟩ :=
        startFlush_spec { s with bufs := eraseKey k s.bufs } ⟨k, l⟩ hg hI.inflOK hI.failedE
      simp only at h1 h2 h3 b1 b2 b3 b4 b5 b6
      rw [hs] at h1 h2 h3 b1 b2 b3 b4 b5 b6
      refine ⟨?_, by rw [b1]; exact eraseKey_nodup k _ hI.keys,
        by rw [b1]; exact fun p hp => hI.bufWF p (mem_eraseKey _ _ _ hp), by rw [b2]; exact hI.heldWF,
        by rw [b3]; exact hI.queueWF, h2, by rw [b4]; exact hI.filesOK, h3⟩
      refine cons_step s _ [] hI.cons (by unfold acceptedRows; rw [b6]; simp) ?_
      apply allRows_perm
      intro a
      have e2 := cnt_perm hperm a
      rw [cnt_append] at e2
      have := h1 a
      rw [cnt_nil]
      have c1 : bufRows s' = (eraseKey k s.bufs).flatMap (fun p => groupRows p.1 p.2) := by unfold bufRows; rw [b1]
      have c2 : heldRows s' = heldRows s := by unfold heldRows; rw [b2]
      have c3 : queueRows s' = queueRows s := by unfold queueRows; rw [b3]
      have c4 : storedRows s' = storedRows s := by unfold storedRows; rw [b4]
      have c5 : droppedRows s' = droppedRows s := by unfold droppedRows; rw [b5]
      rw [c1, c2, c3, c4, c5]
      have d1 : inflightRows { s with bufs := eraseKey k s.bufs } = inflightRows s := rfl
      have d2 : failedRows { s with bufs := eraseKey k s.bufs } = failedRows s := rfl
      rw [d1, d2] at this
      have d3 : taskRows ⟨k, l⟩ = groupRows k l := rfl
      rw [d3] at this
      unfold bufRows
      dsimp only at e2
      omega
  | store j name =>
    simp only [step] at hs
    split at hs
    · simp at hs
    · rename_i f hsome
      simp only [Option.some.injEq] at hs
      subst hs
      have hperm := flatMap_eraseIdx s.inflight pfileRows j f hsome
      have hfr : s.files.filter (fun q => decide (q.1 ≠ (⟨f.key, f.hour, name⟩ : Path))) = s.files := by
        apply List.filter_eq_self.mpr
        intro q hq
        simp only [freshAt, hsome, Bool.not_eq_true'] at hfresh
        have := List.any_eq_false.mp hfresh q hq
        simpa using this
      have hfok := hI.inflOK f (mem_of_getElem? _ _ _ hsome)
      refine ⟨?_, hI.keys, hI.bufWF, hI.heldWF, hI.queueWF,
        fun x hx => hI.inflOK x (mem_eraseIdx _ _ _ hx), ?_, hI.failedE⟩
      · refine cons_step s _ [] hI.cons (by simp [acceptedRows]) ?_
        apply allRows_perm
        intro a
        have e2 := cnt_perm hperm a
        comps at e2 ⊢
        rw [hfr]
        omega
      · intro q hq
        unfold putFile at hq
        rcases List.mem_cons.mp hq with h1 | h1
        · subst h1; exact ⟨hfok, rfl, rfl⟩
        · exact hI.filesOK q (List.mem_filter.mp h1).1
  | close =>
    simp only [step, Option.some.injEq] at hs
    subst hs
    exact ⟨hI.cons, hI.keys, hI.bufWF, hI.heldWF, hI.queueWF, hI.inflOK, hI.filesOK, hI.failedE⟩
  | dropQueued i =>
    simp only [step] at hs
    split at hs
    · simp at hs
    · split at hs
      · simp at hs
      · rename_i t hsome
        simp only [Option.some.injEq] at hs
        subst hs
        have hperm := flatMap_eraseIdx s.queue taskRows i t hsome
        refine ⟨?_, hI.keys, hI.bufWF, hI.heldWF, fun x hx => hI.queueWF x (mem_eraseIdx _ _ _ hx),
          hI.inflOK, hI.filesOK, hI.failedE⟩
        refine cons_step s _ [] hI.cons (by simp [acceptedRows]) ?_
        apply allRows_perm
        intro a
        have e2 := cnt_perm hperm a
        comps at e2 ⊢
        omega

end Arc.C03
