import Arc.Proofs.C06.Scan
/-! C06: one entry with one overwritten byte, in front of an arbitrary rest. Core Lean only. -/
namespace Arc.C06
open List

set_option linter.unusedSimpArgs false

theorem framedPayload_hdr (l t c B : Bytes) (hl : l.length = 4) (ht : t.length = 8) (hc : c.length = 4) :
    framedPayload (l ++ (t ++ (c ++ B))) = B.take (rdBE l) := by
  have h4 : (l ++ (t ++ (c ++ B))).take 4 = l := by
    rw [List.take_append_of_le_length (by omega)]; exact List.take_of_length_le (by omega)
  have h16 : (l ++ (t ++ (c ++ B))).drop 16 = B := by
    have a : List.drop 16 l = [] := List.drop_of_length_le (by omega)
    have b : List.drop 12 t = [] := List.drop_of_length_le (by omega)
    simp [List.drop_append, hl, ht, hc, a, b]
  unfold framedPayload; rw [h4, h16]

/-- the frame a header `l' t' c'` cuts out of `p ++ R` is CRC-valid and equals `p` -/
theorem readEntry_good (l t c p R : Bytes) (hl : l.length = 4) (ht : t.length = 8) (hc : c.length = 4)
    (hn : rdBE l = p.length) (hmax : p.length ≤ maxPayload) (hcrc : rdBE c = crc32 p) :
    readEntry (l ++ (t ++ (c ++ (p ++ R)))) = .frame (rdBE t) p R := by
  rw [readEntry_frame _ _ _ _ hl ht hc, hn]
  have h1 : ¬ p.length > maxPayload := by omega
  have h2 : ¬ (p ++ R).length < p.length := by simp
  have h3 : (p ++ R).take p.length = p := by simp
  have h4 : (p ++ R).drop p.length = R := by simp
  rw [if_neg h1, if_neg h2, h3, h4, hcrc]
  simp

theorem readEntry_bad (l t c p R : Bytes) (hl : l.length = 4) (ht : t.length = 8) (hc : c.length = 4)
    (hn : rdBE l = p.length) (hmax : p.length ≤ maxPayload) (hcrc : rdBE c ≠ crc32 p) :
    readEntry (l ++ (t ++ (c ++ (p ++ R)))) = .badCrc R := by
  rw [readEntry_frame _ _ _ _ hl ht hc, hn]
  have h1 : ¬ p.length > maxPayload := by omega
  have h2 : ¬ (p ++ R).length < p.length := by simp
  have h3 : (p ++ R).take p.length = p := by simp
  have h4 : (p ++ R).drop p.length = R := by simp
  rw [if_neg h1, if_neg h2, h3, h4, if_pos (fun h => hcrc h.symm)]

theorem ypd_damaged (cfg : Cfg) (e : Entry) (hwf : e.WF) (j : Nat) (hj : j < encLen e) (v : UInt8) (R : Bytes)
    (hpol : cfg.onFrameErr = .stop ∨ 4 ≤ j)
    (hcrc : framedPayload ((encodeEntry e).set j v ++ R) ≠ e.payload →
            crc32 (framedPayload ((encodeEntry e).set j v ++ R)) ≠ crc32 e.payload) :
    ypd (scanA cfg ((encodeEntry e).set j v ++ R)) <+ (viewpd cfg e.payload).toList ++ ypd (scanA cfg R) := by
  have hL : rdBE (be32 e.payload.length) = e.payload.length :=
    rdBE_be32 _ (Nat.lt_of_le_of_lt hwf.1 maxPayload_lt)
  have hC : rdBE (be32 (crc32 e.payload)) = crc32 e.payload := rdBE_be32 _ (crc32_lt _)
  have hmax := hwf.1
  unfold encLen at hj
  by_cases hA : j < 4
  · -- length field
    have hX : (encodeEntry e).set j v ++ R =
        (be32 e.payload.length).set j v ++ (be64 e.ts ++ (be32 (crc32 e.payload) ++ (e.payload ++ R))) := by
      unfold encodeEntry
      rw [List.set_append_left _ _ (by rw [be32_length]; exact hA)]
      simp only [List.append_assoc]
    rw [hX] at hcrc ⊢
    have hl' : ((be32 e.payload.length).set j v).length = 4 := by rw [List.length_set, be32_length]
    rw [framedPayload_hdr _ _ _ _ hl' (be64_length _) (be32_length _)] at hcrc
    by_cases hn : rdBE ((be32 e.payload.length).set j v) = e.payload.length
    · exact ypd_frame cfg _ _ _ _ (readEntry_good _ _ _ _ R hl' (be64_length _) (be32_length _) hn hmax hC)
    · have hstop : cfg.onFrameErr = .stop := by rcases hpol with h | h; exact h; omega
      have herr : ypd (scanA cfg ((be32 e.payload.length).set j v ++
          (be64 e.ts ++ (be32 (crc32 e.payload) ++ (e.payload ++ R))))) = [] := by
        apply ypd_frameErr_stop cfg hstop
        rw [readEntry_frame _ _ _ _ hl' (be64_length _) (be32_length _)]
        by_cases h1 : rdBE ((be32 e.payload.length).set j v) > maxPayload
        · rw [if_pos h1]; exact Or.inl ⟨_, rfl⟩
        · rw [if_neg h1]
          by_cases h2 : (e.payload ++ R).length < rdBE ((be32 e.payload.length).set j v)
          · rw [if_pos h2]; exact Or.inr (Or.inl rfl)
          · rw [if_neg h2]
            have hne : (e.payload ++ R).take (rdBE ((be32 e.payload.length).set j v)) ≠ e.payload := by
              intro heq
              have := congrArg List.length heq
              rw [List.length_take] at this
              omega
            rw [if_pos (by rw [hC]; exact hcrc hne)]
            exact Or.inr (Or.inr ⟨_, rfl⟩)
      rw [herr]; exact nil_sublist _
  · by_cases hB : j < 12
    · -- timestamp field
      have hX : (encodeEntry e).set j v ++ R =
          be32 e.payload.length ++ ((be64 e.ts).set (j - 4) v ++ (be32 (crc32 e.payload) ++ (e.payload ++ R))) := by
        unfold encodeEntry
        rw [List.set_append_right _ _ (by rw [be32_length]; omega), be32_length,
          List.set_append_left _ _ (by rw [be64_length]; omega)]
        simp only [List.append_assoc]
      rw [hX]
      have ht' : ((be64 e.ts).set (j - 4) v).length = 8 := by rw [List.length_set, be64_length]
      exact ypd_frame cfg _ _ _ _ (readEntry_good _ _ _ _ R (be32_length _) ht' (be32_length _) hL hmax hC)
    · by_cases hCc : j < 16
      · -- checksum field
        have hX : (encodeEntry e).set j v ++ R =
            be32 e.payload.length ++ (be64 e.ts ++ ((be32 (crc32 e.payload)).set (j - 12) v ++ (e.payload ++ R))) := by
          unfold encodeEntry
          rw [List.set_append_right _ _ (by rw [be32_length]; omega), be32_length,
            List.set_append_right _ _ (by rw [be64_length]; omega), be64_length,
            List.set_append_left _ _ (by rw [be32_length]; omega)]
          simp only [List.append_assoc]
          congr 4
        rw [hX]
        have hc' : ((be32 (crc32 e.payload)).set (j - 12) v).length = 4 := by rw [List.length_set, be32_length]
        by_cases hk : rdBE ((be32 (crc32 e.payload)).set (j - 12) v) = crc32 e.payload
        · exact ypd_frame cfg _ _ _ _ (readEntry_good _ _ _ _ R (be32_length _) (be64_length _) hc' hL hmax hk)
        · exact ypd_badCrc cfg _ _ _ (readEntry_bad _ _ _ _ R (be32_length _) (be64_length _) hc' hL hmax hk)
      · -- payload
        have hX : (encodeEntry e).set j v ++ R =
            be32 e.payload.length ++ (be64 e.ts ++ (be32 (crc32 e.payload) ++ (e.payload.set (j - 16) v ++ R))) := by
          unfold encodeEntry
          rw [List.set_append_right _ _ (by rw [be32_length]; omega), be32_length,
            List.set_append_right _ _ (by rw [be64_length]; omega), be64_length,
            List.set_append_right _ _ (by rw [be32_length]; omega), be32_length]
          simp only [List.append_assoc]
          congr 5
        rw [hX] at hcrc ⊢
        have hq : (e.payload.set (j - 16) v).length = e.payload.length := List.length_set
        rw [framedPayload_hdr _ _ _ _ (be32_length _) (be64_length _) (be32_length _), hL, ← hq,
          List.take_left' rfl] at hcrc
        by_cases hk : crc32 (e.payload.set (j - 16) v) = crc32 e.payload
        · have hqp : e.payload.set (j - 16) v = e.payload := by
            by_cases h : e.payload.set (j - 16) v = e.payload
            · exact h
            · exact absurd hk (hcrc h)
          rw [hqp]
          exact ypd_frame cfg _ _ _ _ (readEntry_good _ _ _ _ R (be32_length _) (be64_length _) (be32_length _) hL hmax hC)
        · exact ypd_badCrc cfg _ _ _ (readEntry_bad _ _ _ _ R (be32_length _) (be64_length _) (be32_length _)
            (by rw [hL, hq]) (by rw [hq]; exact hmax) (by rw [hC]; exact fun h => hk h.symm))

end Arc.C06
