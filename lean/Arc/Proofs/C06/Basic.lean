import Arc.Model.C06
/-! Helper lemmas for C06 (core Lean only): big-endian fields, `readEntry` on a 16-byte header
followed by a body, fuel-independence of `scan`, and the fuel-free unfolding `scanA`. -/
namespace Arc.C06

set_option linter.unusedSimpArgs false

/-! ## big-endian fields -/

theorem rdBE_be32 (n : Nat) (h : n < 4294967296) : rdBE (be32 n) = n := by
  simp [rdBE, be32]
  omega

theorem rdBE_be16 (n : Nat) (h : n < 65536) : rdBE (be16 n) = n := by
  simp [rdBE, be16]
  omega

theorem rdBE_be64 (n : Nat) (h : n < 18446744073709551616) : rdBE (be64 n) = n := by
  simp [rdBE, be64]
  omega

theorem be32_length (n : Nat) : (be32 n).length = 4 := rfl
theorem be64_length (n : Nat) : (be64 n).length = 8 := rfl
theorem be16_length (n : Nat) : (be16 n).length = 2 := rfl

theorem crc32_lt (bs : Bytes) : crc32 bs < 4294967296 := by
  unfold crc32; omega

/-- `rdBE` is injective on 4-byte fields. -/
theorem rdBE4_inj (a b : Bytes) (ha : a.length = 4) (hb : b.length = 4) (h : rdBE a = rdBE b) : a = b := by
  match a, b, ha, hb with
  | [a0,a1,a2,a3], [b0,b1,b2,b3], _, _ =>
    simp [rdBE] at h
    have h0 := a0.toNat_lt; have h1 := a1.toNat_lt; have h2 := a2.toNat_lt; have h3 := a3.toNat_lt
    have g0 := b0.toNat_lt; have g1 := b1.toNat_lt; have g2 := b2.toNat_lt; have g3 := b3.toNat_lt
    have e0 : a0.toNat = b0.toNat := by omega
    have e1 : a1.toNat = b1.toNat := by omega
    have e2 : a2.toNat = b2.toNat := by omega
    have e3 : a3.toNat = b3.toNat := by omega
    simp [UInt8.toNat_inj.mp e0, UInt8.toNat_inj.mp e1, UInt8.toNat_inj.mp e2, UInt8.toNat_inj.mp e3]

/-! ## `readEntry` on header ++ body -/

theorem readEntry_frame (l t c B : Bytes) (hl : l.length = 4) (ht : t.length = 8) (hc : c.length = 4) :
    readEntry (l ++ (t ++ (c ++ B))) =
      if rdBE l > maxPayload then .tooLarge B
      else if B.length < rdBE l then .shortPayload
      else if crc32 (B.take (rdBE l)) ≠ rdBE c then .badCrc (B.drop (rdBE l))
      else .frame (rdBE t) (B.take (rdBE l)) (B.drop (rdBE l)) := by
  have h4 : (l ++ (t ++ (c ++ B))).take 4 = l := by
    rw [List.take_append_of_le_length (by omega)]; exact List.take_of_length_le (by omega)
  have h16 : (l ++ (t ++ (c ++ B))).drop 16 = B := by
    have a : List.drop 16 l = [] := List.drop_of_length_le (by omega)
    have b : List.drop 12 t = [] := List.drop_of_length_le (by omega)
    simp [List.drop_append, hl, ht, hc, a, b]
  have h12 : ((l ++ (t ++ (c ++ B))).drop 12).take 4 = c := by
    simp [List.drop_append, List.take_append, hl, ht, hc]
  have h48 : ((l ++ (t ++ (c ++ B))).drop 4).take 8 = t := by
    simp [List.drop_append, List.take_append, hl, ht, hc]
  have hlen : ¬ (l ++ (t ++ (c ++ B))).length < 16 := by simp [hl, ht, hc]; omega
  unfold readEntry
  rw [if_neg hlen, h4, h16, h12, h48]

theorem readEntry_short (rest : Bytes) (h : rest.length < 16) : readEntry rest = .eof := by
  unfold readEntry; rw [if_pos h]

theorem maxPayload_lt : maxPayload < 4294967296 := by decide

theorem readEntry_encode (e : Entry) (R : Bytes) (h : e.WF) :
    readEntry (encodeEntry e ++ R) = .frame e.ts e.payload R := by
  have hlen : rdBE (be32 e.payload.length) = e.payload.length :=
    rdBE_be32 _ (Nat.lt_of_le_of_lt h.1 maxPayload_lt)
  unfold encodeEntry
  simp only [List.append_assoc]
  rw [readEntry_frame _ _ _ _ (be32_length _) (be64_length _) (be32_length _)]
  rw [hlen, rdBE_be64 _ h.2, rdBE_be32 _ (crc32_lt _)]
  have h1 : ¬ e.payload.length > maxPayload := by have := h.1; omega
  have h2 : ¬ (e.payload ++ R).length < e.payload.length := by simp
  have h3 : (e.payload ++ R).take e.payload.length = e.payload := by simp
  have h4 : (e.payload ++ R).drop e.payload.length = R := by simp
  rw [if_neg h1, if_neg h2, h3, h4]
  simp

/-- every non-`eof` outcome consumed at least the 16 header bytes -/
theorem readEntry_next_lt (rest : Bytes) :
    match readEntry rest with
    | .eof => True
    | .shortPayload => True
    | .tooLarge next => next.length < rest.length
    | .badCrc next => next.length < rest.length
    | .frame _ _ next => next.length < rest.length := by
  unfold readEntry
  by_cases h1 : rest.length < 16
  · rw [if_pos h1]; trivial
  · rw [if_neg h1]
    by_cases h2 : rdBE (rest.take 4) > maxPayload
    · rw [if_pos h2]; show (rest.drop 16).length < rest.length
      simp only [List.length_drop]; omega
    · rw [if_neg h2]
      by_cases h3 : (rest.drop 16).length < rdBE (rest.take 4)
      · rw [if_pos h3]; trivial
      · rw [if_neg h3]
        by_cases h4 : crc32 ((rest.drop 16).take (rdBE (rest.take 4))) ≠ rdBE ((rest.drop 12).take 4)
        · rw [if_pos h4]; show ((rest.drop 16).drop _).length < rest.length
          simp only [List.length_drop]; omega
        · rw [if_neg h4]; show ((rest.drop 16).drop _).length < rest.length
          simp only [List.length_drop]; omega

/-! ## fuel -/

theorem scan_fuel (cfg : Cfg) : ∀ (f f' : Nat) (rest : Bytes), rest.length < f → rest.length < f' →
    scan cfg f rest = scan cfg f' rest := by
  intro f
  induction f with
  | zero => intro f' rest h; omega
  | succ f ih =>
    intro f' rest h h'
    cases f' with
    | zero => omega
    | succ f' =>
      have hn := readEntry_next_lt rest
      unfold scan
      split
      · rfl
      · rename_i next heq
        rw [heq] at hn
        rw [ih f' next (by omega) (by omega)]
      · rfl
      · rename_i next heq
        rw [heq] at hn
        rw [ih f' next (by omega) (by omega)]
      · rename_i ts p next heq
        rw [heq] at hn
        rw [ih f' next (by omega) (by omega)]

/-- fuel-free view of the reader loop -/
def scanA (cfg : Cfg) (rest : Bytes) : List Ev := scan cfg (rest.length + 1) rest

theorem scan_eq_scanA (cfg : Cfg) (f : Nat) (rest : Bytes) (h : rest.length < f) :
    scan cfg f rest = scanA cfg rest := scan_fuel cfg f _ rest h (by omega)

def contIf (p : Policy) (k : List Ev) : List Ev := if p = .cont then k else []

theorem scanA_unfold (cfg : Cfg) (rest : Bytes) :
    scanA cfg rest =
      match readEntry rest with
      | .eof => []
      | .tooLarge next => .skip :: contIf cfg.onFrameErr (scanA cfg next)
      | .shortPayload => [.skip]
      | .badCrc next => .skip :: contIf cfg.onFrameErr (scanA cfg next)
      | .frame ts p next =>
        match classify cfg ts p with
        | .panic => [.panic]
        | .skip => .skip :: contIf cfg.onDecodeErr (scanA cfg next)
        | .out o => .out o :: scanA cfg next := by
  have hn := readEntry_next_lt rest
  unfold scanA
  rw [scan]
  revert hn
  cases readEntry rest with
  | eof => intro _; rfl
  | shortPayload => intro _; rfl
  | tooLarge next =>
    intro hn
    show Ev.skip :: (if cfg.onFrameErr = .cont then scan cfg rest.length next else []) = _
    rw [scan_fuel cfg rest.length (next.length + 1) next hn (by omega)]; rfl
  | badCrc next =>
    intro hn
    show Ev.skip :: (if cfg.onFrameErr = .cont then scan cfg rest.length next else []) = _
    rw [scan_fuel cfg rest.length (next.length + 1) next hn (by omega)]; rfl
  | frame ts p next =>
    intro hn
    have hf := scan_fuel cfg rest.length (next.length + 1) next hn (by omega)
    simp only [hf]
    cases classify cfg ts p <;> rfl

end Arc.C06
