import Arc.Proofs.C06.Damage
/-! C06: from a byte position of the file to "one damaged entry between intact ones", and the
assembled subsequence bound for one overwritten byte. Core Lean only. -/
namespace Arc.C06
open List

set_option linter.unusedSimpArgs false
set_option linter.unusedVariables false

theorem encodeAll_append (a b : List Entry) : encodeAll (a ++ b) = encodeAll a ++ encodeAll b := by
  induction a with
  | nil => rfl
  | cons x xs ih => simp [encodeAll, ih]

theorem locate_spec (v : UInt8) : ∀ (es : List Entry) (i : Nat), i < (encodeAll es).length →
    ∃ pre e post j, locate es i = some (pre, e, post, j) ∧ es = pre ++ e :: post ∧ j < encLen e ∧
      (encodeAll es).set i v = encodeAll pre ++ ((encodeEntry e).set j v ++ encodeAll post) := by
  intro es
  induction es with
  | nil => intro i h; simp [encodeAll] at h
  | cons e es ih =>
    intro i h
    by_cases hi : i < encLen e
    · refine ⟨[], e, es, i, by simp [locate, hi], rfl, hi, ?_⟩
      simp only [encodeAll, List.nil_append]
      rw [List.set_append_left _ _ (by rw [encodeEntry_length]; exact hi)]
    · have h' : i - encLen e < (encodeAll es).length := by
        simp only [encodeAll, List.length_append, encodeEntry_length] at h; omega
      obtain ⟨pre, x, post, j, h1, h2, h3, h4⟩ := ih (i - encLen e) h'
      refine ⟨e :: pre, x, post, j, by simp [locate, hi, h1], by simp [h2], h3, ?_⟩
      simp only [encodeAll]
      rw [List.set_append_right _ _ (by rw [encodeEntry_length]; omega), encodeEntry_length, h4]
      simp only [List.append_assoc]

theorem pdsOf_split (cfg : Cfg) (pre : List Entry) (e : Entry) (post : List Entry) :
    pdsOf cfg (pre ++ e :: post) = pdsOf cfg pre ++ ((viewpd cfg e.payload).toList ++ pdsOf cfg post) := by
  unfold pdsOf
  rw [List.filterMap_append, toList_append_filterMap (fun e => viewpd cfg e.payload) e post]

/-- whatever the 7 header bytes are, recovery gets at most what the loop yields on the rest -/
theorem recovered_sub (cfg : Cfg) (H B : Bytes) (hH : H.length = 7) :
    (recovered cfg (H ++ B)).map Out.pd <+ ypd (scanA cfg B) := by
  have h1 : ¬ (H ++ B).length < 7 := by simp [hH]
  have h3 : (H ++ B).drop 7 = B := by
    rw [List.drop_append]; simp [hH, List.drop_of_length_le (Nat.le_of_eq hH)]
  have h4 : scan cfg (H ++ B).length B = scanA cfg B := scan_eq_scanA cfg _ B (by simp [hH])
  unfold recovered readAll
  rw [if_neg h1, h3, h4]
  by_cases hm : (H ++ B).take 4 ≠ magic
  · rw [if_pos hm]; exact nil_sublist _
  · rw [if_neg hm]
    by_cases hp : panics (scanA cfg B) = true
    · rw [if_pos hp]; exact nil_sublist _
    · rw [if_neg hp]; exact Sublist.refl _

theorem ypd_all (cfg : Cfg) (es : List Entry) (hwf : ∀ e ∈ es, e.WF) :
    ypd (scanA cfg (encodeAll es)) <+ pdsOf cfg es := by
  have := ypd_encodeAll cfg es [] hwf
  rwa [List.append_nil, scanA_nil, ypd_nil, List.append_nil] at this

/-- **core of the corruption theorems**: one overwritten byte anywhere in the file. -/
theorem subseq_core (cfg : Cfg) (es : List Entry) (hwf : ∀ e ∈ es, e.WF) (k : Nat) (v : UInt8)
    (hk : k < (fileOf es).length) (hcrc : CrcDetectsAt es k v)
    (hpol : cfg.onFrameErr = .stop ∨ inLenField es k = false) :
    (recovered cfg ((fileOf es).set k v)).map Out.pd <+ pdsOf cfg es := by
  have hHlen : fileHeader.length = 7 := by simp [fileHeader_eq]
  unfold fileOf at hk ⊢
  by_cases hk7 : k < 7
  · rw [List.set_append_left _ _ (by rw [hHlen]; exact hk7)]
    exact (recovered_sub cfg _ _ (by rw [List.length_set, hHlen])).trans (ypd_all cfg es hwf)
  · rw [List.set_append_right _ _ (by rw [hHlen]; omega), hHlen]
    have hi : k - 7 < (encodeAll es).length := by
      rw [List.length_append, hHlen] at hk; omega
    obtain ⟨pre, e, post, j, h1, h2, h3, h4⟩ := locate_spec v es (k - 7) hi
    rw [h4]
    refine (recovered_sub cfg _ _ hHlen).trans ?_
    have hwfpre : ∀ x ∈ pre, x.WF := fun x hx => hwf x (by rw [h2]; simp [hx])
    have hwfpost : ∀ x ∈ post, x.WF := fun x hx => hwf x (by rw [h2]; simp [hx])
    have hwfe : e.WF := hwf e (by rw [h2]; simp)
    refine (ypd_encodeAll cfg pre _ hwfpre).trans ?_
    rw [h2, pdsOf_split]
    refine Sublist.append (Sublist.refl _) ?_
    have hcrc' : framedPayload ((encodeEntry e).set j v ++ encodeAll post) ≠ e.payload →
        crc32 (framedPayload ((encodeEntry e).set j v ++ encodeAll post)) ≠ crc32 e.payload := by
      unfold CrcDetectsAt damagedFrame at hcrc
      rw [h1] at hcrc
      exact hcrc
    have hpol' : cfg.onFrameErr = .stop ∨ 4 ≤ j := by
      rcases hpol with h | h
      · exact Or.inl h
      · right
        unfold inLenField at h
        rw [h1] at h
        simp at h
        omega
    refine (ypd_damaged cfg e hwfe j h3 v _ hpol' hcrc').trans ?_
    exact Sublist.append (Sublist.refl _) (ypd_all cfg post hwfpost)

end Arc.C06
