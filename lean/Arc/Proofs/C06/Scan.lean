import Arc.Proofs.C06.Basic
/-! C06 helper lemmas about the reader loop: exact behaviour on well-formed entries, truncation,
the sublist ("only appended entries, in order") bound, and one damaged entry. Core Lean only. -/
namespace Arc.C06
open List

set_option linter.unusedSimpArgs false

/-- (format, database, payload) of the entries a run of the loop returned -/
def ypd (evs : List Ev) : List (Bool × Bytes × Bytes) := (yielded evs).map Out.pd

theorem ypd_nil : ypd [] = [] := rfl
theorem ypd_skip (evs : List Ev) : ypd (.skip :: evs) = ypd evs := rfl
theorem ypd_out (o : Out) (evs : List Ev) : ypd (.out o :: evs) = o.pd :: ypd evs := rfl
theorem ypd_panic (evs : List Ev) : ypd (.panic :: evs) = ypd evs := rfl

theorem classify_cases (cfg : Cfg) (ts : Nat) (p : Bytes) :
    (classify cfg ts p = .panic ∧ viewpd cfg p = none) ∨
    (classify cfg ts p = .skip ∧ viewpd cfg p = none) ∨
    (∃ o, classify cfg ts p = .out o ∧ viewpd cfg p = some o.pd) := by
  unfold viewpd classify
  cases hp : parseEnvelope p with
  | none => simp
  | some r =>
    obtain ⟨db, inner⟩ := r
    cases hd : cfg.dec inner with
    | none => simp [hd]
    | some d => obtain ⟨rows, val⟩ := d; simp [hd, Out.pd]

theorem toList_append_filterMap {α β : Type} (f : α → Option β) (a : α) (l : List α) :
    (f a).toList ++ l.filterMap f = (a :: l).filterMap f := by
  rw [List.filterMap_cons]; cases f a <;> simp

theorem ypd_contIf (p : Policy) (evs : List Ev) : ypd (contIf p evs) <+ ypd evs := by
  unfold contIf; split
  · exact Sublist.refl _
  · exact nil_sublist _

/-- a CRC-valid frame contributes at most its own view, then the loop goes on behind it -/
theorem ypd_frame (cfg : Cfg) (X : Bytes) (ts : Nat) (p next : Bytes) (h : readEntry X = .frame ts p next) :
    ypd (scanA cfg X) <+ (viewpd cfg p).toList ++ ypd (scanA cfg next) := by
  rw [scanA_unfold, h]
  rcases classify_cases cfg ts p with ⟨h1, h2⟩ | ⟨h1, h2⟩ | ⟨o, h1, h2⟩
  · simp only [h1, h2]; exact nil_sublist _
  · simp only [h1, h2, ypd_skip]; exact sublist_append_of_sublist_right (ypd_contIf _ _)
  · simp only [h1, h2, ypd_out]; exact Sublist.refl _

theorem ypd_badCrc (cfg : Cfg) (X next : Bytes) (L : List (Bool × Bytes × Bytes)) (h : readEntry X = .badCrc next) :
    ypd (scanA cfg X) <+ L ++ ypd (scanA cfg next) := by
  rw [scanA_unfold, h]; simp only [ypd_skip]
  exact sublist_append_of_sublist_right (ypd_contIf _ _)

theorem ypd_frameErr_stop (cfg : Cfg) (hstop : cfg.onFrameErr = .stop) (X : Bytes)
    (h : (∃ n, readEntry X = .tooLarge n) ∨ readEntry X = .shortPayload ∨ (∃ n, readEntry X = .badCrc n)) :
    ypd (scanA cfg X) = [] := by
  rw [scanA_unfold]
  rcases h with ⟨n, h⟩ | h | ⟨n, h⟩ <;> simp [h, contIf, hstop, ypd_skip, ypd_nil]

/-! ## exact behaviour on well-formed, cleanly classified entries -/

theorem parseEnvelope_isSome (p : Bytes) : ∃ r, parseEnvelope p = some r := by
  unfold parseEnvelope
  split
  · simp only []; split <;> exact ⟨_, rfl⟩
  · exact ⟨_, rfl⟩

/-- the envelope parser of the current source never panics -/
theorem classify_ne_panic (cfg : Cfg) (ts : Nat) (p : Bytes) : classify cfg ts p ≠ .panic := by
  unfold classify
  obtain ⟨r, hr⟩ := parseEnvelope_isSome p
  rw [hr]
  obtain ⟨db, inner⟩ := r
  simp only []
  cases cfg.dec inner with
  | none => simp
  | some d => obtain ⟨rows, val⟩ := d; simp

/-- an undecodable payload does not stop the loop (always true for the current source, whose
`onDecodeErr` is `cont`) -/
def Entry.Clean (cfg : Cfg) (e : Entry) : Prop :=
  cfg.onDecodeErr = .cont ∨ classify cfg e.ts e.payload ≠ .skip

theorem scanA_encode (cfg : Cfg) (e : Entry) (R : Bytes) (hwf : e.WF) (hc : e.Clean cfg) :
    scanA cfg (encodeEntry e ++ R) = classify cfg e.ts e.payload :: scanA cfg R := by
  rw [scanA_unfold, readEntry_encode e R hwf]
  have h1 := classify_ne_panic cfg e.ts e.payload
  have h2 := hc
  simp only []
  cases hcl : classify cfg e.ts e.payload with
  | panic => exact absurd hcl h1
  | out o => simp
  | skip =>
    rcases h2 with h2 | h2
    · simp [contIf, h2]
    · exact absurd hcl h2

def evsOf (cfg : Cfg) (es : List Entry) : List Ev := es.map fun e => classify cfg e.ts e.payload

theorem scanA_encodeAll (cfg : Cfg) (es : List Entry) (R : Bytes) (hwf : ∀ e ∈ es, e.WF) (hc : ∀ e ∈ es, e.Clean cfg) :
    scanA cfg (encodeAll es ++ R) = evsOf cfg es ++ scanA cfg R := by
  induction es with
  | nil => rfl
  | cons e es ih =>
    simp only [encodeAll, List.append_assoc]
    rw [scanA_encode cfg e _ (hwf e (by simp)) (hc e (by simp)),
      ih (fun x hx => hwf x (by simp [hx])) (fun x hx => hc x (by simp [hx]))]
    rfl

theorem scanA_nil (cfg : Cfg) : scanA cfg [] = [] := by
  rw [scanA_unfold, readEntry_short [] (by simp)]

theorem yielded_append (a b : List Ev) : yielded (a ++ b) = yielded a ++ yielded b := by
  induction a with
  | nil => rfl
  | cons x xs ih => cases x <;> simp [yielded, ih]

theorem panics_append (a b : List Ev) (h : panics a = false) : panics (a ++ b) = panics b := by
  induction a with
  | nil => rfl
  | cons x xs ih => cases x <;> simp_all [panics]

theorem skips_append (a b : List Ev) : skips (a ++ b) = skips a + skips b := by
  induction a with
  | nil => simp [skips]
  | cons x xs ih => cases x <;> simp [skips, ih] <;> omega

theorem yielded_evsOf (cfg : Cfg) (es : List Entry) : yielded (evsOf cfg es) = es.filterMap (view? cfg) := by
  induction es with
  | nil => rfl
  | cons e es ih =>
    simp only [evsOf, List.map_cons, List.filterMap_cons, view?] at ih ⊢
    cases classify cfg e.ts e.payload <;> simp [yielded, ih]

theorem panics_evsOf (cfg : Cfg) (es : List Entry) (hc : ∀ e ∈ es, e.Clean cfg) : panics (evsOf cfg es) = false := by
  induction es with
  | nil => rfl
  | cons e es ih =>
    have h1 := classify_ne_panic cfg e.ts e.payload
    have ih' := ih (fun x hx => hc x (by simp [hx]))
    simp only [evsOf, List.map_cons] at ih' ⊢
    cases hcl : classify cfg e.ts e.payload with
    | panic => exact absurd hcl h1
    | out o => simpa [panics] using ih'
    | skip => simpa [panics] using ih'

/-! ## the file header -/

theorem fileHeader_eq : fileHeader = [65, 82, 67, 87, 0, 1, 1] := by decide

theorem readAll_header (cfg : Cfg) (B : Bytes) :
    readAll cfg (fileHeader ++ B) =
      if panics (scanA cfg B) then .panic else .ok (yielded (scanA cfg B)) (skips (scanA cfg B)) := by
  have h1 : ¬ (fileHeader ++ B).length < 7 := by simp [fileHeader_eq]
  have h2 : (fileHeader ++ B).take 4 = magic := by simp [fileHeader_eq, magic]
  have h3 : (fileHeader ++ B).drop 7 = B := by simp [fileHeader_eq]
  have h4 : scan cfg (fileHeader ++ B).length B = scanA cfg B :=
    scan_eq_scanA cfg _ B (by simp [fileHeader_eq]; omega)
  unfold readAll
  rw [if_neg h1, h2, h3, h4]
  simp

/-! ## truncation -/

theorem encodeEntry_length (e : Entry) : (encodeEntry e).length = encLen e := by
  simp [encodeEntry, encLen, be32_length, be64_length]; omega

theorem scanA_truncate (cfg : Cfg) (es : List Entry) (hwf : ∀ e ∈ es, e.WF) (hc : ∀ e ∈ es, e.Clean cfg) :
    ∀ m, yielded (scanA cfg ((encodeAll es).take m)) = (es.take (complete es m)).filterMap (view? cfg) ∧
         panics (scanA cfg ((encodeAll es).take m)) = false := by
  induction es with
  | nil => intro m; simp [encodeAll, scanA_nil, complete, yielded, panics]
  | cons e es ih =>
    intro m
    have hwe := hwf e (by simp)
    have hce := hc e (by simp)
    have ih' := ih (fun x hx => hwf x (by simp [hx])) (fun x hx => hc x (by simp [hx]))
    by_cases hm : encLen e ≤ m
    · have ht : (encodeAll (e :: es)).take m = encodeEntry e ++ (encodeAll es).take (m - encLen e) := by
        simp only [encodeAll, List.take_append, encodeEntry_length]
        rw [List.take_of_length_le (by rw [encodeEntry_length]; exact hm)]
      rw [ht, scanA_encode cfg e _ hwe hce]
      obtain ⟨i1, i2⟩ := ih' (m - encLen e)
      have hcomp : complete (e :: es) m = complete es (m - encLen e) + 1 := by simp [complete, hm]
      rw [hcomp, List.take_succ_cons, List.filterMap_cons]
      constructor
      · simp only [view?]
        cases hcl : classify cfg e.ts e.payload <;> simp [yielded, i1]
      · cases hcl : classify cfg e.ts e.payload with
        | panic => exact absurd hcl (classify_ne_panic cfg e.ts e.payload)
        | out o => simpa [panics] using i2
        | skip => simpa [panics] using i2
    · have hcomp : complete (e :: es) m = 0 := by simp [complete, hm]
      have ht : (encodeAll (e :: es)).take m = (encodeEntry e).take m := by
        simp only [encodeAll, List.take_append, encodeEntry_length]
        have : m - encLen e = 0 := by omega
        simp [this]
      rw [ht, hcomp]
      simp only [List.take_zero, List.filterMap_nil]
      by_cases h16 : m < 16
      · rw [scanA_unfold, readEntry_short _ (by simp; omega)]; simp [yielded, panics]
      · have hsplit : (encodeEntry e).take m =
            be32 e.payload.length ++ (be64 e.ts ++ (be32 (crc32 e.payload) ++ e.payload.take (m - 16))) := by
          unfold encodeEntry
          simp only [List.take_append, be32_length, be64_length]
          rw [List.take_of_length_le (by rw [be32_length]; omega),
            List.take_of_length_le (by rw [be64_length]; omega),
            List.take_of_length_le (by rw [be32_length]; omega)]
          congr 3
        have hlen : rdBE (be32 e.payload.length) = e.payload.length :=
          rdBE_be32 _ (Nat.lt_of_le_of_lt hwe.1 maxPayload_lt)
        rw [scanA_unfold, hsplit, readEntry_frame _ _ _ _ (be32_length _) (be64_length _) (be32_length _), hlen]
        have h1 : ¬ e.payload.length > maxPayload := by have := hwe.1; omega
        have h2 : (e.payload.take (m - 16)).length < e.payload.length := by
          simp only [List.length_take]; unfold encLen at hm; omega
        rw [if_neg h1, if_pos h2]
        simp [yielded, panics]

/-! ## "only appended entries, in order": the sublist bound -/

def pdsOf (cfg : Cfg) (es : List Entry) : List (Bool × Bytes × Bytes) := es.filterMap fun e => viewpd cfg e.payload

theorem ypd_encodeAll (cfg : Cfg) (es : List Entry) (R : Bytes) (hwf : ∀ e ∈ es, e.WF) :
    ypd (scanA cfg (encodeAll es ++ R)) <+ pdsOf cfg es ++ ypd (scanA cfg R) := by
  induction es with
  | nil => exact Sublist.refl _
  | cons e es ih =>
    simp only [encodeAll, List.append_assoc]
    have h1 := ypd_frame cfg _ _ _ _ (readEntry_encode e (encodeAll es ++ R) (hwf e (by simp)))
    have h2 := ih (fun x hx => hwf x (by simp [hx]))
    refine h1.trans ?_
    have := Sublist.append (Sublist.refl (viewpd cfg e.payload).toList) h2
    rw [← List.append_assoc] at this
    unfold pdsOf at this ⊢
    rwa [toList_append_filterMap (fun e => viewpd cfg e.payload) e es] at this

end Arc.C06
