import Arc.Model.C02.Msgpack
/-
C02 — decoder/encoder round trip, leaf level: for every non-container value at EVERY encoding width
(nil, bool, positive/negative fixint, int8–64, uint8–64, float32/64, fixstr/str8–32, bin8–32,
fixext1–16/ext8–32) that is well-formed for its width, `decode (encode v ++ rest) = some (v, rest)`.
(Containers: the decoder's array/map arms are exercised against the real library by the harness;
their inductive round trip is not proved here.)
-/
namespace Arc.C02

theorem readN_append : ∀ (s r : Bytes), readN s.length (s ++ r) = some (s, r)
  | [], r => by simp [readN]
  | x :: s, r => by simp [readN, readN_append s r]

theorem beNat_snoc (xs : Bytes) (y : UInt8) : beNat (xs ++ [y]) = beNat xs * 256 + y.toNat := by
  simp [beNat, List.foldl_append]

theorem be_length : ∀ (k v : Nat), (be k v).length = k
  | 0, _ => rfl
  | k + 1, v => by simp [be, be_length k]

theorem beNat_be : ∀ (k v : Nat), v < 256 ^ k → beNat (be k v) = v
  | 0, v, h => by simp at h; subst h; rfl
  | k + 1, v, h => by
    have h' : v / 256 < 256 ^ k := by
      rw [Nat.pow_succ] at h; exact Nat.div_lt_of_lt_mul (by omega)
    simp only [be, beNat_snoc, beNat_be k (v / 256) h', UInt8.toNat_ofNat']
    omega

theorem readBE_be (k v : Nat) (r : Bytes) (h : v < 256 ^ k) : readBE k (be k v ++ r) = some (v, r) := by
  have := readN_append (be k v) r
  rw [be_length] at this
  simp [readBE, this, beNat_be k v h]

theorem readLenBytes_enc (k : Nat) (s r : Bytes) (h : s.length < 256 ^ k) :
    readLenBytes k (be k s.length ++ (s ++ r)) = some (s, r) := by
  simp [readLenBytes, readBE_be k s.length (s ++ r) h, readN_append]

/-- well-formedness of a leaf for its width -/
def wfLeaf : MV → Prop
  | .nil | .bool _ => True
  | .int .fix v => -32 ≤ v ∧ v ≤ 127
  | .int .i8 v => -128 ≤ v ∧ v ≤ 127
  | .int .i16 v => -32768 ≤ v ∧ v ≤ 32767
  | .int .i32 v => -2147483648 ≤ v ∧ v ≤ 2147483647
  | .int .i64 v => -9223372036854775808 ≤ v ∧ v ≤ 9223372036854775807
  | .uint .u8 v => v < 256
  | .uint .u16 v => v < 65536
  | .uint .u32 v => v < 4294967296
  | .uint .u64 v => v < 18446744073709551616
  | .f32 b => b < 4294967296
  | .f64 b => b < 18446744073709551616
  | .str .fix s => s.length ≤ 31
  | .str .l8 s => s.length < 256
  | .str .l16 s => s.length < 65536
  | .str .l32 s => s.length < 4294967296
  | .bin .l8 s => s.length < 256
  | .bin .l16 s => s.length < 65536
  | .bin .l32 s => s.length < 4294967296
  | .ext .f1 _ d => d.length = 1
  | .ext .f2 _ d => d.length = 2
  | .ext .f4 _ d => d.length = 4
  | .ext .f8 _ d => d.length = 8
  | .ext .f16 _ d => d.length = 16
  | .ext .e8 _ d => d.length < 256
  | .ext .e16 _ d => d.length < 65536
  | .ext .e32 _ d => d.length < 4294967296
  | .arr _ _ | .map _ _ => False

theorem toSigned_fromSigned8 (v : Int) (h : -128 ≤ v ∧ v ≤ 127) : toSigned 8 (fromSigned 8 v) = v := by
  simp only [toSigned, fromSigned, Nat.reducePow, Nat.reduceSub]
  by_cases hc : (v % ((256 : Nat) : Int)).toNat < 128 <;> simp only [hc, if_true, if_false] <;> omega
theorem toSigned_fromSigned16 (v : Int) (h : -32768 ≤ v ∧ v ≤ 32767) : toSigned 16 (fromSigned 16 v) = v := by
  simp only [toSigned, fromSigned, Nat.reducePow, Nat.reduceSub]
  by_cases hc : (v % ((65536 : Nat) : Int)).toNat < 32768 <;> simp only [hc, if_true, if_false] <;> omega
theorem toSigned_fromSigned32 (v : Int) (h : -2147483648 ≤ v ∧ v ≤ 2147483647) :
    toSigned 32 (fromSigned 32 v) = v := by
  simp only [toSigned, fromSigned, Nat.reducePow, Nat.reduceSub]
  by_cases hc : (v % ((4294967296 : Nat) : Int)).toNat < 2147483648 <;> simp only [hc, if_true, if_false] <;> omega
theorem toSigned_fromSigned64 (v : Int) (h : -9223372036854775808 ≤ v ∧ v ≤ 9223372036854775807) :
    toSigned 64 (fromSigned 64 v) = v := by
  simp only [toSigned, fromSigned, Nat.reducePow, Nat.reduceSub]
  by_cases hc : (v % ((18446744073709551616 : Nat) : Int)).toNat < 9223372036854775808 <;> simp only [hc, if_true, if_false] <;> omega

theorem fromSigned_lt8 (v : Int) : fromSigned 8 v < 256 ^ 1 := by
  simp only [fromSigned, Nat.reducePow]; omega
theorem fromSigned_lt16 (v : Int) : fromSigned 16 v < 256 ^ 2 := by
  simp only [fromSigned, Nat.reducePow]; omega
theorem fromSigned_lt32 (v : Int) : fromSigned 32 v < 256 ^ 4 := by
  simp only [fromSigned, Nat.reducePow]; omega
theorem fromSigned_lt64 (v : Int) : fromSigned 64 v < 256 ^ 8 := by
  simp only [fromSigned, Nat.reducePow]; omega

/-- one decoding step on a non-empty input (fuel is never the issue for a leaf) -/
theorem decode_cons (c : UInt8) (r : Bytes) : decode (c :: r) = decodeF (2 * r.length + 2 + 1) (c :: r) := by
  simp [decode]; rfl

theorem readFixExt_enc (n : Nat) (t : UInt8) (d r : Bytes) (h : d.length = n) :
    readFixExt n (t :: (d ++ r)) = some (t, d, r) := by
  have := readN_append d r
  rw [h] at this
  simp [readFixExt, this]

theorem readExt_enc (k : Nat) (t : UInt8) (d r : Bytes) (h : d.length < 256 ^ k) :
    readExt k (be k d.length ++ t :: (d ++ r)) = some (t, d, r) := by
  simp [readExt, readBE_be k d.length _ h, readN_append]

theorem fixint_byte (v : Int) (h : -32 ≤ v ∧ v ≤ 127) :
    (0 ≤ v ∧ fromSigned 8 v % 256 = v.toNat ∧ v.toNat ≤ 127) ∨
    (v < 0 ∧ fromSigned 8 v % 256 = (256 + v).toNat ∧ 224 ≤ (256 + v).toNat ∧ (256 + v).toNat ≤ 255) := by
  simp only [fromSigned, Nat.reducePow]
  by_cases hv : 0 ≤ v
  · left; omega
  · right; omega

/-- **Round trip, every leaf at every width.** -/
theorem decode_encode_leaf (v : MV) (h : wfLeaf v) (rest : Bytes) :
    decode (encode v ++ rest) = some (v, rest) := by
  cases v with
  | nil => simp [encode, decode_cons, decodeF]
  | bool b => cases b <;> simp [encode, decode_cons, decodeF]
  | int w n =>
    cases w with
    | fix =>
      simp only [encode, List.cons_append, List.nil_append, decode_cons, decodeF, UInt8.toNat_ofNat']
      rcases fixint_byte n h with ⟨h0, he, hle⟩ | ⟨h0, he, hge, hle⟩
      · have : ((n.toNat : Nat) : Int) = n := by omega
        simp [he, hle, this]
      · have h1 : ¬ (256 + n).toNat ≤ 127 := by omega
        have h2 : ¬ (256 + n).toNat ≤ 143 := by omega
        have h3 : ¬ (256 + n).toNat ≤ 159 := by omega
        have h4 : ¬ (256 + n).toNat ≤ 191 := by omega
        simp [he, h1, h2, h3, h4, hge]
        omega
    | i8 =>
      simp only [encode, List.cons_append, decode_cons, decodeF]
      simp [readBE_be 1 _ rest (fromSigned_lt8 n), toSigned_fromSigned8 n h]
    | i16 =>
      simp only [encode, List.cons_append, decode_cons, decodeF]
      simp [readBE_be 2 _ rest (fromSigned_lt16 n), toSigned_fromSigned16 n h]
    | i32 =>
      simp only [encode, List.cons_append, decode_cons, decodeF]
      simp [readBE_be 4 _ rest (fromSigned_lt32 n), toSigned_fromSigned32 n h]
    | i64 =>
      simp only [encode, List.cons_append, decode_cons, decodeF]
      simp [readBE_be 8 _ rest (fromSigned_lt64 n), toSigned_fromSigned64 n h]
  | uint w n =>
    cases w <;> simp only [encode, List.cons_append, decode_cons, decodeF]
    · simp [readBE_be 1 n rest (by simpa [wfLeaf] using h)]
    · simp [readBE_be 2 n rest (by simpa [wfLeaf] using h)]
    · simp [readBE_be 4 n rest (by simpa [wfLeaf] using h)]
    · simp [readBE_be 8 n rest (by simpa [wfLeaf] using h)]
  | f32 b =>
    simp only [encode, List.cons_append, decode_cons, decodeF]
    simp [readBE_be 4 b rest (by simpa [wfLeaf] using h)]
  | f64 b =>
    simp only [encode, List.cons_append, decode_cons, decodeF]
    simp [readBE_be 8 b rest (by simpa [wfLeaf] using h)]
  | str w s =>
    cases w with
    | fix =>
      have hl : s.length ≤ 31 := h
      simp only [encode, List.cons_append, decode_cons, decodeF, UInt8.toNat_ofNat']
      have e : (160 + s.length) % 256 = 160 + s.length := by omega
      have h1 : ¬ 160 + s.length ≤ 127 := by omega
      have h2 : ¬ 160 + s.length ≤ 143 := by omega
      have h3 : ¬ 160 + s.length ≤ 159 := by omega
      have h4 : 160 + s.length ≤ 191 := by omega
      have h5 : 160 + s.length - 160 = s.length := by omega
      simp [e, h1, h2, h3, h4, h5, readN_append]
    | l8 =>
      simp only [encode, List.cons_append, decode_cons, decodeF]
      simp [readLenBytes_enc 1 s rest (by simpa [wfLeaf] using h)]
    | l16 =>
      simp only [encode, List.cons_append, decode_cons, decodeF]
      simp [readLenBytes_enc 2 s rest (by simpa [wfLeaf] using h)]
    | l32 =>
      simp only [encode, List.cons_append, decode_cons, decodeF]
      simp [readLenBytes_enc 4 s rest (by simpa [wfLeaf] using h)]
  | bin w s =>
    cases w <;> simp only [encode, List.cons_append, decode_cons, decodeF]
    · simp [readLenBytes_enc 1 s rest (by simpa [wfLeaf] using h)]
    · simp [readLenBytes_enc 2 s rest (by simpa [wfLeaf] using h)]
    · simp [readLenBytes_enc 4 s rest (by simpa [wfLeaf] using h)]
  | ext w t d =>
    cases w <;> simp only [encode, List.cons_append, decode_cons, decodeF]
    · simp [readFixExt_enc 1 t d rest (by simpa [wfLeaf] using h)]
    · simp [readFixExt_enc 2 t d rest (by simpa [wfLeaf] using h)]
    · simp [readFixExt_enc 4 t d rest (by simpa [wfLeaf] using h)]
    · simp [readFixExt_enc 8 t d rest (by simpa [wfLeaf] using h)]
    · simp [readFixExt_enc 16 t d rest (by simpa [wfLeaf] using h)]
    · simp [readExt_enc 1 t d rest (by simpa [wfLeaf] using h)]
    · simp [readExt_enc 2 t d rest (by simpa [wfLeaf] using h)]
    · simp [readExt_enc 4 t d rest (by simpa [wfLeaf] using h)]
  | arr w xs => exact absurd h (by simp [wfLeaf])
  | map w xs => exact absurd h (by simp [wfLeaf])

end Arc.C02
