import Arc.Proofs.C02.Elem
/-
C02 — column-level agreement: `decodeValueColumnTyped` vs `convertColumnsToTyped` on the boxed,
sanitised elements; `decodeTimeColumnTyped` vs `normalizeTimestampColumns` + the time chokepoint.
-/
namespace Arc.C02

variable (F : FloatSem) (san : Bytes → Bytes)

/-- boxed + sanitised element, as `convertColumnsToTyped` sees it -/
def bx (x : MV) : GoVal := sanVal san (boxS x)

theorem gIsNil_bx {x : MV} (h : scalar x = true) : gIsNil (bx san x) = isNil x := by
  cases x <;> simp_all [scalar, bx, boxS, sanVal, gIsNil, isNil]

theorem isNil_scalar {x : MV} (h : isNil x = true) : scalar x = true := by
  cases x <;> simp_all [isNil, scalar]

theorem convElems_agrees {α : Type} (conv : MV → Option α) (gconv : GoVal → Option α) (zero : α)
    (hel : ∀ x v, conv x = some v → scalar x = true ∧ gconv (bx san x) = some v) :
    ∀ (xs : List MV) (vs : List α), convElems conv zero xs = some vs →
      (∀ x ∈ xs, scalar x = true) ∧ gConv gconv zero (xs.map (bx san)) = some vs
  | [], vs, h => by
    simp [convElems] at h; subst h; simp [gConv]
  | x :: xs, vs, h => by
    unfold convElems at h
    split at h
    · rename_i a as ha has
      have ih := convElems_agrees conv gconv zero hel xs as has
      simp only [Option.some.injEq] at h
      subst h
      by_cases hn : isNil x = true
      · have hs := isNil_scalar hn
        simp only [hn, if_true, Option.some.injEq] at ha
        subst ha
        refine ⟨?_, ?_⟩
        · intro y hy; simp at hy; rcases hy with rfl | hy
          · exact hs
          · exact ih.1 y hy
        · simp [gConv, gIsNil_bx san hs, hn, ih.2]
      · simp only [hn] at ha
        have he := hel x a (by simpa using ha)
        refine ⟨?_, ?_⟩
        · intro y hy; simp at hy; rcases hy with rfl | hy
          · exact he.1
          · exact ih.1 y hy
        · simp [gConv, gIsNil_bx san he.1, hn, he.2, ih.2]
    · simp at h

theorem any_nil_agrees : ∀ (xs : List MV), (∀ x ∈ xs, scalar x = true) →
    (xs.map (bx san)).any gIsNil = xs.any isNil
  | [], _ => rfl
  | x :: xs, h => by
    simp only [List.map_cons, List.any_cons]
    rw [gIsNil_bx san (h x (by simp)), any_nil_agrees xs (fun y hy => h y (by simp [hy]))]

theorem map_nil_agrees : ∀ (xs : List MV), (∀ x ∈ xs, scalar x = true) →
    (xs.map (bx san)).map (fun x => !gIsNil x) = xs.map (fun x => !isNil x)
  | [], _ => rfl
  | x :: xs, h => by
    simp only [List.map_cons]
    rw [gIsNil_bx san (h x (by simp)), map_nil_agrees xs (fun y hy => h y (by simp [hy]))]

theorem validity_agrees (xs : List MV) (h : ∀ x ∈ xs, scalar x = true) :
    gValidity (xs.map (bx san)) = validityOf xs := by
  simp only [gValidity, validityOf, any_nil_agrees san xs h, map_nil_agrees san xs h]

theorem firstNonNil_agrees : ∀ (xs : List MV), (∀ x ∈ xs, scalar x = true) →
    firstNonNilG (xs.map (bx san)) = (firstNonNilMV xs).map (bx san)
  | [], _ => rfl
  | x :: xs, h => by
    simp only [List.map_cons, firstNonNilG, firstNonNilMV, gIsNil_bx san (h x (by simp))]
    by_cases hn : isNil x = true
    · simp [hn, firstNonNil_agrees xs (fun y hy => h y (by simp [hy]))]
    · simp [hn]

theorem firstNonNil_none : ∀ (xs : List MV), firstNonNilMV xs = none → ∀ x ∈ xs, scalar x = true
  | [], _ => by simp
  | x :: xs, h => by
    simp only [firstNonNilMV] at h
    by_cases hn : isNil x = true
    · simp only [hn, if_true] at h
      intro y hy; simp at hy; rcases hy with rfl | hy
      · exact isNil_scalar hn
      · exact firstNonNil_none xs h y hy
    · simp [hn] at h

theorem firstNonNil_notNil : ∀ (xs : List MV) (x0 : MV), firstNonNilMV xs = some x0 → isNil x0 = false
  | [], _, h => by simp [firstNonNilMV] at h
  | x :: xs, x0, h => by
    simp only [firstNonNilMV] at h
    by_cases hn : isNil x = true
    · simp only [hn, if_true] at h; exact firstNonNil_notNil xs x0 h
    · simp only [hn] at h
      simp at h; subst h; simpa using hn

/-- **value columns**: whenever `decodeValueColumnTyped` succeeds on the wire elements, every element
boxes as a scalar and `convertColumnsToTyped` produces the same type, values and null positions. -/
theorem valueCol_agrees (hF : FloatLaws F) (name : Bytes) (hname : (name == timeName) = false)
    (xs : List MV) (d : Col) (vl : Option (List Bool))
    (h : typedValueCol F san xs = some (d, vl)) :
    (∀ x ∈ xs, scalar x = true) ∧ convertCol F name (xs.map (bx san)) = some ⟨name, d, vl⟩ := by
  unfold typedValueCol at h
  split at h
  · -- every element nil
    rename_i hnone
    have hs := firstNonNil_none xs hnone
    simp only [Option.some.injEq, Prod.mk.injEq] at h
    obtain ⟨rfl, rfl⟩ := h
    refine ⟨hs, ?_⟩
    simp [convertCol, firstNonNil_agrees san xs hs, hnone, hname, List.map_map, Function.comp_def]
  · rename_i x0 hx0
    have hnn := firstNonNil_notNil xs x0 hx0
    split at h
    · simp at h
    · -- int class
      rename_i hc
      simp only [Option.map_eq_some_iff] at h
      obtain ⟨vs, hvs, hd⟩ := h
      simp only [Prod.mk.injEq] at hd
      obtain ⟨rfl, rfl⟩ := hd
      have hc' := convElems_agrees san (typedIntElem F) (toInt64 F) 0
        (fun x v hx => intElem_agrees F san hF hx) xs vs hvs
      refine ⟨hc'.1, ?_⟩
      have hfn := firstNonNil_agrees san xs hc'.1
      cases x0 <;> simp_all [clsOfElem, convertCol, bx, boxS, sanVal, validity_agrees san xs hc'.1]
    · -- float class
      rename_i hc
      simp only [Option.map_eq_some_iff] at h
      obtain ⟨vs, hvs, hd⟩ := h
      simp only [Prod.mk.injEq] at hd
      obtain ⟨rfl, rfl⟩ := hd
      have hc' := convElems_agrees san (typedFloatElem F) (toFloat64 F) 0
        (fun x v hx => floatElem_agrees F san hx) xs vs hvs
      refine ⟨hc'.1, ?_⟩
      have hfn := firstNonNil_agrees san xs hc'.1
      cases x0 <;> simp_all [clsOfElem, convertCol, bx, boxS, sanVal, validity_agrees san xs hc'.1]
    · -- string class
      rename_i hc
      simp only [Option.map_eq_some_iff] at h
      obtain ⟨vs, hvs, hd⟩ := h
      simp only [Prod.mk.injEq] at hd
      obtain ⟨rfl, rfl⟩ := hd
      have hc' := convElems_agrees san (typedStrElem san) gStr []
        (fun x v hx => strElem_agrees san hx) xs vs hvs
      refine ⟨hc'.1, ?_⟩
      have hfn := firstNonNil_agrees san xs hc'.1
      cases x0 <;> simp_all [clsOfElem, convertCol, bx, boxS, sanVal, validity_agrees san xs hc'.1]
    · -- bool class
      rename_i hc
      simp only [Option.map_eq_some_iff] at h
      obtain ⟨vs, hvs, hd⟩ := h
      simp only [Prod.mk.injEq] at hd
      obtain ⟨rfl, rfl⟩ := hd
      have hc' := convElems_agrees san typedBoolElem gBool false
        (fun x v hx => boolElem_agrees san hx) xs vs hvs
      refine ⟨hc'.1, ?_⟩
      have hfn := firstNonNil_agrees san xs hc'.1
      cases x0 <;> simp_all [clsOfElem, convertCol, bx, boxS, sanVal, validity_agrees san xs hc'.1]

end Arc.C02

namespace Arc.C02
open Arc.Generated.C02
variable (F : FloatSem) (san : Bytes → Bytes)

theorem tsAll_agrees (hF : FloatLaws F) : ∀ (xs : List MV) (tl : List Int),
    typedTsAll F xs = some tl →
    (∀ x ∈ xs, scalar x = true) ∧
      ∀ m, normAll F m (xs.map boxS) = some (tl.map fun t => GoVal.int IK.i64 (applyMult m t))
  | [], tl, h => by
    simp [typedTsAll] at h; subst h; simp [normAll]
  | x :: xs, tl, h => by
    unfold typedTsAll at h
    split at h
    · simp at h
    · rename_i t ht
      split at h
      · simp at h
      · rename_i ts hts
        simp only [Option.some.injEq] at h; subst h
        have he := timeElem_agrees F hF ht
        have ih := tsAll_agrees hF xs ts hts
        refine ⟨?_, ?_⟩
        · intro y hy; simp at hy; rcases hy with rfl | hy
          · exact he.1
          · exact ih.1 y hy
        · intro m; simp [normAll, he.2, ih.2 m]

/-- both files detect the unit with the same thresholds and multipliers (tables regenerated from
msgpack.go and msgpack_typed.go on every run; a one-sided edit breaks this `decide`). -/
theorem units_same : typedUnits = normUnits ∧ typedUnitDefault = normUnitDefault := by decide

theorem tsMult_same (ts : Int) : tsMultG ts = tsMultT ts := by
  unfold tsMultG tsMultT; rw [units_same.1, units_same.2]

/-- ints produced by normalisation pass the time chokepoint of convertColumnsToTyped unchanged -/
theorem gTimeAll_ints (f : Int → Int) : ∀ (ts : List Int),
    gTimeAll F ((ts.map fun t => GoVal.int IK.i64 (f t)).map (sanVal san)) = some (ts.map f)
  | [] => rfl
  | t :: ts => by
    have ih := gTimeAll_ints f ts
    simp only [List.map_cons, gTimeAll, sanVal, gIsNil, toInt64, Bool.false_eq_true, if_false]
    rw [ih]

/-- **time column**: unit detection from element 0 and per-element scaling agree; the normalised
column passes the typing chokepoint as int64 without validity. -/
theorem timeCol_agrees (hF : FloatLaws F) (xs : List MV) (ts : List Int) (hne : xs ≠ [])
    (h : typedTime F xs = some ts) :
    (∀ x ∈ xs, scalar x = true) ∧
    ∃ gts : List GoVal, normalizeTime F (xs.map boxS) = some gts ∧
      convertCol F timeName (gts.map (sanVal san)) = some ⟨timeName, .i64 ts, none⟩ := by
  unfold typedTime at h
  split at h
  · simp at h
  · rename_i hall
    cases xs with
    | nil => exact absurd rfl hne
    | cons x xs => simp [typedTsAll] at hall; split at hall <;> (try split at hall) <;> simp at hall
  · rename_i t0 tl hall
    simp only [Option.some.injEq] at h; subst h
    have hA := tsAll_agrees F hF xs (t0 :: tl) hall
    refine ⟨hA.1, ?_⟩
    cases xs with
    | nil => exact absurd rfl hne
    | cons x xs =>
      -- element 0 gives the unit on both sides
      have hx : typedTs F x = some t0 := by
        unfold typedTsAll at hall
        split at hall
        · simp at hall
        · rename_i t ht
          split at hall
          · simp at hall
          · simp at hall; rw [ht, hall.1]
      have he := timeElem_agrees F hF hx
      refine ⟨(t0 :: tl).map (fun t => GoVal.int IK.i64 (applyMult (tsMultT t0) t)), ?_, ?_⟩
      · simp only [List.map_cons, normalizeTime, he.2, tsMult_same]
        have := hA.2 (tsMultT t0)
        simpa using this
      · have hg := gTimeAll_ints F san (applyMult (tsMultT t0)) (t0 :: tl)
        simp only [List.map_cons, sanVal] at hg
        simp only [convertCol, List.map_cons, firstNonNilG, sanVal, gIsNil, Bool.false_eq_true, if_false]
        rw [hg]
        simp [timeName]

end Arc.C02
