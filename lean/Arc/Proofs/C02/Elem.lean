import Arc.Model.C02
/-
C02 — per-element and per-column agreement lemmas between the typed fast path (on wire values) and
the generic path (library boxing `goBox`, then toInt64 / toFloat64 / toInt64Timestamp / type
assertions of convertColumnsToTyped and normalizeTimestampColumns).
-/
namespace Arc.C02

variable (F : FloatSem) (san : Bytes → Bytes)

/-- boxing of a scalar wire value (what `goBox` returns on it). -/
def boxS : MV → GoVal
  | .nil => .nil
  | .bool b => .bool b
  | .int w v => .int (ikOfIW w) v
  | .uint w v => .int (ikOfUW w) v
  | .f32 b => .f32 b
  | .f64 b => .f64 b
  | .str _ s => .str s
  | _ => .nil

def scalar : MV → Bool
  | .nil | .bool _ | .int _ _ | .uint _ _ | .f32 _ | .f64 _ | .str _ _ => true
  | _ => false

theorem goBox_scalar {x : MV} (h : scalar x = true) : goBox F x = .ok (boxS x) := by
  cases x <;> simp_all [scalar, goBox, boxS]

theorem goBoxL_scalars : ∀ {xs : List MV}, (∀ x ∈ xs, scalar x = true) →
    goBoxL F xs = .ok (xs.map boxS)
  | [], _ => by simp [goBoxL]
  | x :: xs, h => by
    have hx := goBox_scalar F (h x (by simp))
    have hxs := goBoxL_scalars (xs := xs) (fun y hy => h y (by simp [hy]))
    simp [goBoxL, hx, hxs]

/-! ### elements -/

theorem intElem_agrees (hF : FloatLaws F) {x : MV} {v : Int} (h : typedIntElem F x = some v) :
    scalar x = true ∧ toInt64 F (sanVal san (boxS x)) = some v := by
  cases x with
  | uint w n =>
    cases w <;> simp_all [typedIntElem, scalar, boxS, sanVal, toInt64, ikOfUW]
    omega
  | int w n => cases w <;> simp_all [typedIntElem, scalar, boxS, sanVal, toInt64, ikOfIW]
  | f32 b =>
    simp only [typedIntElem] at h
    simp only [scalar, boxS, sanVal, toInt64, hF.f32gtMax_eq, hF.f32ltMin_eq, hF.f32toI_eq, true_and]
    exact h
  | f64 b => simpa [typedIntElem, scalar, boxS, sanVal, toInt64] using h
  | _ => simp [typedIntElem] at h

theorem floatElem_agrees {x : MV} {v : Nat} (h : typedFloatElem F x = some v) :
    scalar x = true ∧ toFloat64 F (sanVal san (boxS x)) = some v := by
  cases x <;> simp_all [typedFloatElem, scalar, boxS, sanVal, toFloat64]

theorem strElem_agrees {x : MV} {v : Bytes} (h : typedStrElem san x = some v) :
    scalar x = true ∧ gStr (sanVal san (boxS x)) = some v := by
  cases x <;> simp_all [typedStrElem, scalar, boxS, sanVal, gStr]

theorem boolElem_agrees {x : MV} {v : Bool} (h : typedBoolElem x = some v) :
    scalar x = true ∧ gBool (sanVal san (boxS x)) = some v := by
  cases x <;> simp_all [typedBoolElem, scalar, boxS, sanVal, gBool]

theorem timeElem_agrees (hF : FloatLaws F) {x : MV} {t : Int} (h : typedTs F x = some t) :
    scalar x = true ∧ toInt64Ts F (boxS x) = some t := by
  cases x with
  | uint w n => cases w <;> simp_all [typedTs, scalar, boxS, toInt64Ts, ikOfUW]
  | int w n => cases w <;> simp_all [typedTs, scalar, boxS, toInt64Ts, ikOfIW]
  | f32 b => simpa [typedTs, scalar, boxS, toInt64Ts, hF.f32toI_eq] using h
  | f64 b => simpa [typedTs, scalar, boxS, toInt64Ts] using h
  | _ => simp [typedTs] at h

end Arc.C02
