import Arc.Proofs.C02.Column
/-
C02 — map-level glue: from the per-column theorems to `hit_agrees` under the carve-out `Carve`.
-/
namespace Arc.C02
open Arc.Generated.C02

variable (F : FloatSem) (san : Bytes → Bytes)

/-! ## carve-out: exactly finding class F1 -/

def strKey? : MV → Option Bytes
  | .str _ s => some s
  | _ => none

def isArr : MV → Bool
  | .arr _ _ => true
  | _ => false

/-- a value the library always boxes: anything but array / map / ext (nil, bool, every int, uint
and float width, str, bin). -/
def leafOk : MV → Bool
  | .arr _ _ | .map _ _ | .ext _ _ _ => false
  | _ => true

/-- inside a `columns` map: every NON-ARRAY column value (the typed path `Skip()`s it) is a leaf. -/
def colsCarve : List MV → Bool
  | _ :: v :: rest => (isArr v || leafOk v) && colsCarve rest
  | _ => true

/-- top-level map: the value under every IGNORED key (any str key other than m / columns / batch;
the typed path `Skip()`s it) is a leaf, and every map under a `columns` key satisfies `colsCarve`. -/
def topCarve : List MV → Bool
  | k :: v :: rest =>
    (match strKey? k with
     | some key =>
       if key == mName then true
       else if key == batchName then true
       else if key == columnsName then
         (match v with
          | .map _ ckvs => colsCarve ckvs
          | _ => true)
       else leafOk v
     | none => true) && topCarve rest
  | _ => true

/-- **Carve** (decidable, independent of the float semantics): the body does not decode to a map,
or no array / map / ext value sits under an ignored top-level key or as a non-array column value. -/
def Carve (b : Bytes) : Bool :=
  match decode b with
  | some (.map _ kvs, _) => topCarve kvs
  | _ => true

/-! ## boxing of string-keyed maps whose values box -/

def boxT (v : MV) : GoVal :=
  match goBox F v with
  | .ok g => g
  | .error _ => .nil

def strOf : MV → Bytes
  | .str _ s => s
  | _ => []

def boxPairs (kvs : List MV) : List (Bytes × GoVal) :=
  (pairs kvs).map fun p => (strOf p.1, boxT F p.2)

/-- every key is a str code and every value boxes -/
def KVok : List MV → Prop
  | k :: v :: rest => (∃ s, strKey? k = some s) ∧ (∃ g, goBox F v = .ok g) ∧ KVok rest
  | _ => True

theorem boxPairs_cons (k v : MV) (rest : List MV) :
    boxPairs F (k :: v :: rest) = (strOf k, boxT F v) :: boxPairs F rest := rfl

@[simp] theorem strOf_str (w : SW) (s : Bytes) : strOf (.str w s) = s := rfl

theorem strKey_eq {k : MV} {s : Bytes} (h : strKey? k = some s) : ∃ w, k = .str w s := by
  cases k <;> simp_all [strKey?]

theorem goBoxSMap_ok : ∀ (kvs : List MV), KVok F kvs → goBoxSMap F kvs = .ok (boxPairs F kvs)
  | [], _ => by simp [goBoxSMap, boxPairs, pairs]
  | [_], _ => by simp [goBoxSMap, boxPairs, pairs]
  | k :: v :: rest, h => by
    obtain ⟨⟨s, hs⟩, ⟨g, hg⟩, hr⟩ := h
    obtain ⟨w, rfl⟩ := strKey_eq hs
    have ih := goBoxSMap_ok rest hr
    simp [goBoxSMap, keyString, hg, ih, boxPairs, pairs, strOf, boxT]

/-- last value under a str key, on the wire level -/
def lookupLastP (key : Bytes) : List MV → Option MV
  | k :: v :: rest =>
    match lookupLastP key rest with
    | some x => some x
    | none => if strKey? k == some key then some v else none
  | _ => none

theorem lookupLast_boxPairs (key : Bytes) : ∀ (kvs : List MV), KVok F kvs →
    lookupLast key (boxPairs F kvs) = (lookupLastP key kvs).map (boxT F)
  | [], _ => by simp [boxPairs, pairs, lookupLast, lookupLastP]
  | [_], _ => by simp [boxPairs, pairs, lookupLast, lookupLastP]
  | k :: v :: rest, h => by
    obtain ⟨⟨s, hs⟩, _, hr⟩ := h
    obtain ⟨w, rfl⟩ := strKey_eq hs
    have ih := lookupLast_boxPairs key rest hr
    rw [boxPairs_cons, strOf_str]
    simp only [lookupLast, lookupLastP, strKey?, ih]
    cases hl : lookupLastP key rest with
    | some x => simp
    | none =>
      by_cases hk : s = key
      · subst hk; simp
      · simp [hk]

def keyIn (name : Bytes) : List MV → Bool
  | k :: _ :: rest => (strKey? k == some name) || keyIn name rest
  | _ => false

theorem any_boxPairs (name : Bytes) : ∀ (kvs : List MV), KVok F kvs →
    (boxPairs F kvs).any (fun p => p.1 == name) = keyIn name kvs
  | [], _ => by simp [boxPairs, pairs, keyIn]
  | [_], _ => by simp [boxPairs, pairs, keyIn]
  | k :: v :: rest, h => by
    obtain ⟨⟨s, hs⟩, _, hr⟩ := h
    obtain ⟨w, rfl⟩ := strKey_eq hs
    have ih := any_boxPairs name rest hr
    rw [boxPairs_cons, strOf_str]
    simp [keyIn, strKey?, ih]

theorem goBox_leaf {v : MV} (h : leafOk v = true) :
    ∃ g, goBox F v = .ok g ∧ ∀ xs, g ≠ .slice xs := by
  cases v <;> simp_all [leafOk, goBox]

/-! ## the `columns` loop of the typed path -/

/-- what the typed path makes of one array column -/
def typedColOf (p : Bytes × List MV) : Option ColRec :=
  if p.1 == timeName then (typedTime F p.2).map fun ts => ⟨p.1, .i64 ts, none⟩
  else (typedValueCol F san p.2).map fun q => ⟨p.1, q.1, q.2⟩

def convAll : List (Bytes × List MV) → Option (List ColRec)
  | [] => some []
  | p :: r =>
    match typedColOf F san p, convAll r with
    | some c, some cs => some (c :: cs)
    | _, _ => none

/-- the array-valued pairs of a flattened map, in wire order -/
def arrayCols : List MV → List (Bytes × List MV)
  | k :: v :: rest =>
    match strKey? k, v with
    | some name, .arr _ xs => (name, xs) :: arrayCols rest
    | _, _ => arrayCols rest
  | _ => []

theorem typedColOf_name {p : Bytes × List MV} {c : ColRec} (h : typedColOf F san p = some c) :
    c.name = p.1 := by
  unfold typedColOf at h
  split at h <;> simp only [Option.map_eq_some_iff] at h <;> obtain ⟨_, _, rfl⟩ := h <;> rfl

/-- one iteration of `decodeTypedColumns`, inverted -/
theorem typedCols_step (hfix : nonArrayDupFallsBack = true) {k v : MV} {rest : List MV}
    {acc : List ColRec} {e : Option Nat} {R : List ColRec × Option Nat}
    (h : typedCols F san (k :: v :: rest) acc e = some R) :
    ∃ name, strKey? k = some name ∧ hasCol acc name = false ∧
      ((isArr v = false ∧ typedCols F san rest acc e = some R) ∨
       (∃ w xs c, v = .arr w xs ∧ 0 < xs.length ∧ xs.length ≤ maxTypedPreallocElems ∧
          (∀ n0, e = some n0 → n0 = xs.length) ∧ typedColOf F san (name, xs) = some c ∧
          typedCols F san rest (acc ++ [c]) (some xs.length) = some R)) := by
  unfold typedCols at h
  cases k with
  | str kw name =>
    refine ⟨name, rfl, ?_⟩
    cases v with
    | arr w xs =>
      simp only at h
      by_cases hn0 : xs.length = 0
      · simp [hn0] at h
      by_cases hmax : xs.length > maxTypedPreallocElems
      · simp [hmax] at h
      have hpos : 0 < xs.length := by omega
      have hle : xs.length ≤ maxTypedPreallocElems := by omega
      have key : ∀ (he' : ∀ n0, e = some n0 → n0 = xs.length)
          (h' : hasCol acc name = false ∧
            (if name = timeName then
              match typedTime F xs with
              | none => none
              | some ts => typedCols F san rest (acc ++ [⟨name, .i64 ts, none⟩]) (some xs.length)
            else
              match typedValueCol F san xs with
              | none => none
              | some (d, vl) => typedCols F san rest (acc ++ [⟨name, d, vl⟩]) (some xs.length)) = some R),
          hasCol acc name = false ∧
          ((isArr (MV.arr w xs) = false ∧ typedCols F san rest acc e = some R) ∨
           (∃ w' xs' c, MV.arr w xs = .arr w' xs' ∧ 0 < xs'.length ∧ xs'.length ≤ maxTypedPreallocElems ∧
              (∀ n0, e = some n0 → n0 = xs'.length) ∧ typedColOf F san (name, xs') = some c ∧
              typedCols F san rest (acc ++ [c]) (some xs'.length) = some R)) := by
        intro he' h'
        obtain ⟨hc, h'⟩ := h'
        refine ⟨hc, Or.inr ?_⟩
        by_cases ht : name = timeName
        · subst ht
          simp only [if_true] at h'
          cases hts : typedTime F xs with
          | none => simp [hts] at h'
          | some ts =>
            simp only [hts] at h'
            exact ⟨w, xs, ⟨timeName, .i64 ts, none⟩, rfl, hpos, hle, he', by simp [typedColOf, hts], h'⟩
        · simp only [ht, if_false] at h'
          cases hv : typedValueCol F san xs with
          | none => simp [hv] at h'
          | some q =>
            obtain ⟨d, vl⟩ := q
            simp only [hv] at h'
            exact ⟨w, xs, ⟨name, d, vl⟩, rfl, hpos, hle, he', by simp [typedColOf, ht, hv], h'⟩
      cases e with
      | none =>
        simp [hn0, hmax] at h
        exact key (by intro n0 h0; cases h0) h
      | some e0 =>
        simp [hn0, hmax] at h
        exact key (by intro n0 h0; cases h0; exact h.1.symm) h.2
    | _ =>
      simp only [hfix, Bool.true_and] at h
      split at h
      · simp at h
      · rename_i hc
        exact ⟨by simpa using hc, Or.inl ⟨rfl, h⟩⟩
  | _ => simp at h


def allStr : List MV → Bool
  | k :: _ :: rest => (strKey? k).isSome && allStr rest
  | _ => true

/-- no array-valued pair is followed by a later pair with the same key -/
def arrNoLater : List MV → Bool
  | k :: v :: rest =>
    (if isArr v then
      (match strKey? k with
       | some name => !keyIn name rest
       | none => true)
     else true) && arrNoLater rest
  | _ => true

theorem arrayCols_nonarr {k v : MV} {rest : List MV} (h : isArr v = false) :
    arrayCols (k :: v :: rest) = arrayCols rest := by
  cases v <;> simp_all [arrayCols, isArr] <;> (split <;> simp_all)

theorem hasCol_false {acc : List ColRec} {name : Bytes} (h : hasCol acc name = false) :
    ∀ c ∈ acc, c.name ≠ name := by
  intro c hc he
  have : hasCol acc name = true := by
    simp only [hasCol, List.any_eq_true]
    exact ⟨c, hc, by simp [he]⟩
  simp [h] at this

/-- everything the glue needs to know about a successful run of the `columns` loop -/
theorem typedCols_inv (hfix : nonArrayDupFallsBack = true) :
    ∀ (kvs : List MV) (acc : List ColRec) (e : Option Nat) (R : List ColRec × Option Nat),
      typedCols F san kvs acc e = some R →
      ∃ cs, convAll F san (arrayCols kvs) = some cs ∧ R.1 = acc ++ cs ∧
        (∀ p ∈ arrayCols kvs, 0 < p.2.length ∧ R.2 = some p.2.length) ∧
        (∀ n0, e = some n0 → R.2 = some n0) ∧
        (arrayCols kvs = [] → R.2 = e) ∧
        (∀ c ∈ acc, keyIn c.name kvs = false) ∧ arrNoLater kvs = true ∧ allStr kvs = true
  | [], acc, e, R, h => by
    simp [typedCols] at h; subst h
    exact ⟨[], by simp [arrayCols, convAll], by simp, by simp [arrayCols], by simp, by simp,
      by simp [keyIn], by simp [arrNoLater], by simp [allStr]⟩
  | [_], acc, e, R, h => by
    simp [typedCols] at h; subst h
    exact ⟨[], by simp [arrayCols, convAll], by simp, by simp [arrayCols], by simp, by simp,
      by simp [keyIn], by simp [arrNoLater], by simp [allStr]⟩
  | k :: v :: rest, acc, e, R, h => by
    obtain ⟨name, hk, hc, hcase⟩ := typedCols_step F san hfix h
    have hne := hasCol_false hc
    rcases hcase with ⟨hna, hrest⟩ | ⟨w, xs, c, rfl, hpos, hle, he', hconv, hrest⟩
    · obtain ⟨cs, h1, h2, h3, h4, h5, h6, h7, h8⟩ := typedCols_inv hfix rest acc e R hrest
      refine ⟨cs, by rw [arrayCols_nonarr hna]; exact h1, h2, by rw [arrayCols_nonarr hna]; exact h3, h4,
        by rw [arrayCols_nonarr hna]; exact h5, ?_, ?_, ?_⟩
      · intro c hcm
        have := hne c hcm
        simp only [keyIn, hk, h6 c hcm, Bool.or_false]
        simpa using fun hh => this hh.symm
      · simp [arrNoLater, hna, h7]
      · simp [allStr, hk, h8]
    · obtain ⟨cs, h1, h2, h3, h4, h5, h6, h7, h8⟩ :=
        typedCols_inv hfix rest (acc ++ [c]) (some xs.length) R hrest
      have hcn := typedColOf_name F san hconv
      have hac : arrayCols (k :: MV.arr w xs :: rest) = (name, xs) :: arrayCols rest := by
        simp [arrayCols, hk]
      have hR : R.2 = some xs.length := h4 _ rfl
      refine ⟨c :: cs, by rw [hac]; simp [convAll, hconv, h1], by rw [h2]; simp, ?_, ?_, ?_, ?_, ?_, ?_⟩
      · rw [hac]; intro p hp
        simp at hp; rcases hp with rfl | hp
        · exact ⟨hpos, hR⟩
        · exact h3 p hp
      · intro n0 h0; rw [he' n0 h0]; exact hR
      · rw [hac]; simp
      · intro c' hcm
        have := hne c' hcm
        simp only [keyIn, hk, h6 c' (by simp [hcm]), Bool.or_false]
        simpa using fun hh => this hh.symm
      · have hk' : keyIn name rest = false := by
          have := h6 c (by simp); rwa [hcn] at this
        simp [arrNoLater, isArr, hk, hk', h7]
      · simp [allStr, hk, h8]


/-! ## the generic side of the `columns` map -/

def boxCol (p : Bytes × List MV) : Bytes × List GoVal := (p.1, p.2.map boxS)

theorem normAll_length (m : Int) : ∀ (xs gts : List GoVal), normAll F m xs = some gts → gts.length = xs.length
  | [], gts, h => by simp [normAll] at h; subst h; rfl
  | x :: xs, gts, h => by
    unfold normAll at h
    split at h
    · rename_i t r ht hr
      simp at h; subst h
      simp [normAll_length m xs r hr]
    · simp at h

theorem normalizeTime_length {xs gts : List GoVal} (h : normalizeTime F xs = some gts) :
    gts.length = xs.length := by
  cases xs with
  | nil => simp [normalizeTime] at h; subst h; rfl
  | cons x xs =>
    simp only [normalizeTime] at h
    split at h
    · simp at h
    · exact normAll_length F _ _ _ h

/-- per-column agreement in the form the glue consumes -/
theorem typedColOf_agrees (hF : FloatLaws F) {p : Bytes × List MV} {c : ColRec}
    (h : typedColOf F san p = some c) (hne : p.2 ≠ []) :
    (∀ x ∈ p.2, scalar x = true) ∧
    (if p.1 == timeName then
       ∃ gts, normalizeTime F (p.2.map boxS) = some gts ∧
         convertCol F timeName (gts.map (sanVal san)) = some c
     else convertCol F p.1 ((p.2.map boxS).map (sanVal san)) = some c) := by
  obtain ⟨name, xs⟩ := p
  unfold typedColOf at h
  by_cases ht : (name == timeName) = true
  · simp only [ht, if_true, Option.map_eq_some_iff] at h ⊢
    obtain ⟨ts, hts, rfl⟩ := h
    have := timeCol_agrees F san hF xs ts hne hts
    have hn : name = timeName := by simpa using ht
    subst hn
    exact this
  · have ht' : (name == timeName) = false := by simpa using ht
    simp only [ht', Bool.false_eq_true, if_false, Option.map_eq_some_iff] at h ⊢
    obtain ⟨q, hq, rfl⟩ := h
    have := valueCol_agrees F san hF name ht' xs q.1 q.2 hq
    refine ⟨this.1, ?_⟩
    have e : (xs.map boxS).map (sanVal san) = xs.map (bx san) := by
      simp [List.map_map, Function.comp_def, bx]
    rw [e]; exact this.2

theorem boxT_arr {w : AW} {xs : List MV} (h : ∀ x ∈ xs, scalar x = true) :
    goBox F (.arr w xs) = .ok (.slice (xs.map boxS)) := by
  simp [goBox, goBoxL_scalars F h]

/-- the `columns` map boxes (keys are str; arrays hold scalars; the rest are leaves by `colsCarve`) -/
theorem cols_KVok (hF : FloatLaws F) (hfix : nonArrayDupFallsBack = true) :
    ∀ (kvs : List MV) (acc : List ColRec) (e : Option Nat) (R : List ColRec × Option Nat),
      typedCols F san kvs acc e = some R → colsCarve kvs = true → KVok F kvs
  | [], _, _, _, _, _ => by simp [KVok]
  | [_], _, _, _, _, _ => by simp [KVok]
  | k :: v :: rest, acc, e, R, h, hcv => by
    obtain ⟨name, hk, _, hcase⟩ := typedCols_step F san hfix h
    simp only [colsCarve, Bool.and_eq_true, Bool.or_eq_true] at hcv
    rcases hcase with ⟨hna, hrest⟩ | ⟨w, xs, c, rfl, hpos, _, _, hconv, hrest⟩
    · have hl : leafOk v = true := by
        rcases hcv.1 with h1 | h1
        · simp [hna] at h1
        · exact h1
      obtain ⟨g, hg, _⟩ := goBox_leaf F hl
      exact ⟨⟨name, hk⟩, ⟨g, hg⟩, cols_KVok hF hfix rest acc e R hrest hcv.2⟩
    · have hs := (typedColOf_agrees F san hF hconv (by
        intro h0; simp at h0; subst h0; simp at hpos)).1
      exact ⟨⟨name, hk⟩, ⟨_, boxT_arr F hs⟩, cols_KVok hF hfix rest _ _ R hrest hcv.2⟩

def slice? (p : Bytes × GoVal) : Option (Bytes × List GoVal) :=
  match p.2 with
  | .slice xs => some (p.1, xs)
  | _ => none

theorem payloadColumns_eq (kvs : List (Bytes × GoVal)) :
    payloadColumns kvs = (dedupLast kvs).filterMap slice? := by
  unfold payloadColumns slice?; rfl

/-- **last-wins de-duplication**: Go's map over the boxed `columns` pairs, arrays only, is exactly
the list of array-valued pairs in wire order. -/
theorem payload_cols : ∀ (kvs : List MV), KVok F kvs → arrNoLater kvs = true → colsCarve kvs = true →
    (∀ p ∈ arrayCols kvs, ∀ x ∈ p.2, scalar x = true) →
    payloadColumns (boxPairs F kvs) = (arrayCols kvs).map boxCol
  | [], _, _, _, _ => by simp [payloadColumns_eq, boxPairs, pairs, dedupLast, arrayCols]
  | [_], _, _, _, _ => by simp [payloadColumns_eq, boxPairs, pairs, dedupLast, arrayCols]
  | k :: v :: rest, hkv, hnl, hcv, hsc => by
    obtain ⟨⟨name, hk⟩, ⟨g, hg⟩, hr⟩ := hkv
    obtain ⟨kw, rfl⟩ := strKey_eq hk
    simp only [colsCarve, Bool.and_eq_true, Bool.or_eq_true] at hcv
    simp only [arrNoLater, Bool.and_eq_true] at hnl
    have hany := any_boxPairs F name rest hr
    rw [payloadColumns_eq, boxPairs_cons, strOf_str]
    simp only [dedupLast, hany]
    cases hv : isArr v with
    | true =>
      cases v with
      | arr w xs =>
        have hk' : keyIn name rest = false := by
          have := hnl.1; simp [isArr, strKey?] at this; exact this
        have hac : arrayCols (MV.str kw name :: MV.arr w xs :: rest) = (name, xs) :: arrayCols rest := by
          simp [arrayCols, strKey?]
        have hs : ∀ x ∈ xs, scalar x = true := hsc (name, xs) (by rw [hac]; simp)
        have ih := payload_cols rest hr hnl.2 hcv.2 (fun p hp => hsc p (by rw [hac]; simp [hp]))
        rw [payloadColumns_eq] at ih
        simp [hk', boxT, boxT_arr F hs, slice?, ih, hac, boxCol]
      | _ => simp [isArr] at hv
    | false =>
      have hl : leafOk v = true := by
        rcases hcv.1 with h1 | h1
        · simp [hv] at h1
        · exact h1
      obtain ⟨g', hg', hns⟩ := goBox_leaf F hl
      have hac := arrayCols_nonarr (k := MV.str kw name) (rest := rest) hv
      have ih := payload_cols rest hr hnl.2 hcv.2 (fun p hp => hsc p (by rw [hac]; exact hp))
      rw [payloadColumns_eq] at ih
      have hsl : slice? (name, boxT F v) = none := by
        simp only [slice?, boxT, hg']
      rw [hac]
      by_cases hki : keyIn name rest = true
      · simp [hki, ih]
      · simp [hki, hsl, ih]


/-! ## `decodeColumnar` + `convertColumnsToTyped` on the boxed array columns -/

/-- a generated time column (always the last one) is replaced by the marker `genTime = true`. -/
def maskRec (r : TypedRec) : TypedRec :=
  if r.genTime then { r with cols := r.cols.dropLast } else r

def distinctNames : List (Bytes × List MV) → Bool
  | [] => true
  | p :: r => !(r.any fun q => q.1 == p.1) && distinctNames r

theorem convertCols_cons_ne {name : Bytes} {xs : List GoVal} {rest : List (Bytes × List GoVal)}
    (hne : xs ≠ []) :
    convertCols F ((name, xs) :: rest) =
      (match convertCol F name xs, convertCols F rest with
       | some c, some cs => some (c :: cs)
       | _, _ => none) := by
  cases xs with
  | nil => exact absurd rfl hne
  | cons x xs => simp [convertCols] <;> rfl

theorem sanCols_cons (p : Bytes × List GoVal) (rest : List (Bytes × List GoVal)) :
    sanCols san (p :: rest) = (p.1, p.2.map (sanVal san)) :: sanCols san rest := rfl

theorem map_ne_nil {α β : Type} {f : α → β} {xs : List α} (h : xs ≠ []) : xs.map f ≠ [] := by
  cases xs <;> simp_all

/-- no time column among them: every column goes through `valueCol_agrees` -/
theorem conv_noT (hF : FloatLaws F) : ∀ (A : List (Bytes × List MV)) (cs : List ColRec),
    (∀ p ∈ A, (p.1 == timeName) = false) → (∀ p ∈ A, p.2 ≠ []) → convAll F san A = some cs →
    convertCols F (sanCols san (A.map boxCol)) = some cs
  | [], cs, _, _, h => by simp [convAll] at h; subst h; simp [sanCols, convertCols]
  | p :: A, cs, hnt, hne, h => by
    unfold convAll at h
    split at h
    · rename_i c cs' hc hcs
      simp at h; subst h
      have ih := conv_noT hF A cs' (fun q hq => hnt q (by simp [hq])) (fun q hq => hne q (by simp [hq])) hcs
      have hp := (typedColOf_agrees F san hF hc (hne p (by simp))).2
      simp only [hnt p (by simp), Bool.false_eq_true, if_false] at hp
      simp only [List.map_cons, sanCols_cons, boxCol]
      rw [convertCols_cons_ne F (map_ne_nil (map_ne_nil (hne p (by simp))))]
      rw [hp, ih]
    · simp at h

theorem lookupCol_none {A : List (Bytes × List MV)} (h : lookupCol timeName (A.map boxCol) = none) :
    ∀ p ∈ A, (p.1 == timeName) = false := by
  induction A with
  | nil => simp
  | cons p A ih =>
    simp only [List.map_cons, boxCol, lookupCol] at h
    split at h
    · simp at h
    · rename_i hp
      intro q hq; simp at hq; rcases hq with rfl | hq
      · simpa using hp
      · exact ih h q hq

/-- a time column is present (unique by `distinctNames`): it is normalised, the others are untouched -/
theorem conv_hasT (hF : FloatLaws F) : ∀ (A : List (Bytes × List MV)) (cs : List ColRec)
    (tcol gts : List GoVal),
    lookupCol timeName (A.map boxCol) = some tcol → normalizeTime F tcol = some gts →
    distinctNames A = true → (∀ p ∈ A, p.2 ≠ []) → convAll F san A = some cs →
    convertCols F (sanCols san (replaceCol timeName gts (A.map boxCol))) = some cs
  | [], _, _, _, hl, _, _, _, _ => by simp [lookupCol] at hl
  | p :: A, cs, tcol, gts, hl, hn, hd, hne, h => by
    unfold convAll at h
    split at h
    · rename_i c cs' hc hcs
      simp at h; subst h
      simp only [distinctNames, Bool.and_eq_true, Bool.not_eq_true'] at hd
      have hpne := hne p (by simp)
      have hp := (typedColOf_agrees F san hF hc hpne).2
      by_cases ht : (p.1 == timeName) = true
      · simp only [ht, if_true] at hp
        obtain ⟨gts', hn', hcv⟩ := hp
        simp only [List.map_cons, boxCol, lookupCol, ht, if_true, Option.some.injEq] at hl
        subst hl
        rw [hn] at hn'; simp at hn'; subst hn'
        have hlen := normalizeTime_length F hn
        have hgne : gts ≠ [] := by
          intro h0; subst h0
          have : p.2.length = 0 := by simpa using hlen.symm
          exact hpne (List.eq_nil_of_length_eq_zero this)
        have htn : p.1 = timeName := by simpa using ht
        have hnoT : ∀ q ∈ A, (q.1 == timeName) = false := by
          intro q hq
          have := hd.1
          simp only [List.any_eq_false] at this
          have := this q hq
          rw [htn] at this; simpa using this
        have ih := conv_noT F san hF A cs' hnoT (fun q hq => hne q (by simp [hq])) hcs
        simp only [List.map_cons, boxCol, replaceCol, ht, if_true, sanCols_cons]
        rw [convertCols_cons_ne F (map_ne_nil hgne)]
        rw [hcv, ih]
      · have ht' : (p.1 == timeName) = false := by simpa using ht
        simp only [ht', Bool.false_eq_true, if_false] at hp
        simp only [List.map_cons, boxCol, lookupCol, ht', Bool.false_eq_true, if_false] at hl
        have ih := conv_hasT hF A cs' tcol gts hl hn hd.2 (fun q hq => hne q (by simp [hq])) hcs
        simp only [List.map_cons, boxCol, replaceCol, ht', Bool.false_eq_true, if_false, sanCols_cons]
        rw [convertCols_cons_ne F (map_ne_nil (map_ne_nil hpne))]
        rw [hp, ih]
    · simp at h

end Arc.C02
