import Arc.Proofs.C02.Column
/-
C02 — map-level glue: from the per-column theorems to `hit_agrees` under the carve-out `Carve`.
-/
namespace Arc.C02
open Arc.Generated.C02

variable (F : FloatSem) (san : Bytes → Bytes)

/-! ## carve-out: exactly finding class F1 -/

def strKey? : MV → Option Bytes
  | .str _ s => some s
  | _ => none

def isArr : MV → Bool
  | .arr _ _ => true
  | _ => false

/-- a value the library always boxes: anything but array / map / ext (nil, bool, every int, uint
and float width, str, bin). -/
def leafOk : MV → Bool
  | .arr _ _ | .map _ _ | .ext _ _ _ => false
  | _ => true

/-- inside a `columns` map: every NON-ARRAY column value (the typed path `Skip()`s it) is a leaf. -/
def colsCarve : List MV → Bool
  | _ :: v :: rest => (isArr v || leafOk v) && colsCarve rest
  | _ => true

/-- top-level map: the value under every IGNORED key (any str key other than m / columns / batch;
the typed path `Skip()`s it) is a leaf, and every map under a `columns` key satisfies `colsCarve`. -/
def topCarve : List MV → Bool
  | k :: v :: rest =>
    (match strKey? k with
     | some key =>
       if key == mName then true
       else if key == batchName then true
       else if key == columnsName then
         (match v with
          | .map _ ckvs => colsCarve ckvs
          | _ => true)
       else leafOk v
     | none => true) && topCarve rest
  | _ => true

/-- **Carve** (decidable, independent of the float semantics): the body does not decode to a map,
or no array / map / ext value sits under an ignored top-level key or as a non-array column value. -/
def Carve (b : Bytes) : Bool :=
  match decode b with
  | some (.map _ kvs, _) => topCarve kvs
  | _ => true

/-! ## boxing of string-keyed maps whose values box -/

def boxT (v : MV) : GoVal :=
  match goBox F v with
  | .ok g => g
  | .error _ => .nil

def strOf : MV → Bytes
  | .str _ s => s
  | _ => []

def boxPairs (kvs : List MV) : List (Bytes × GoVal) :=
  (pairs kvs).map fun p => (strOf p.1, boxT F p.2)

/-- every key is a str code and every value boxes -/
def KVok : List MV → Prop
  | k :: v :: rest => (∃ s, strKey? k = some s) ∧ (∃ g, goBox F v = .ok g) ∧ KVok rest
  | _ => True

theorem boxPairs_cons (k v : MV) (rest : List MV) :
    boxPairs F (k :: v :: rest) = (strOf k, boxT F v) :: boxPairs F rest := rfl

@[simp] theorem strOf_str (w : SW) (s : Bytes) : strOf (.str w s) = s := rfl

theorem strKey_eq {k : MV} {s : Bytes} (h : strKey? k = some s) : ∃ w, k = .str w s := by
  cases k <;> simp_all [strKey?]

theorem goBoxSMap_ok : ∀ (kvs : List MV), KVok F kvs → goBoxSMap F kvs = .ok (boxPairs F kvs)
  | [], _ => by simp [goBoxSMap, boxPairs, pairs]
  | [_], _ => by simp [goBoxSMap, boxPairs, pairs]
  | k :: v :: rest, h => by
    obtain ⟨⟨s, hs⟩, ⟨g, hg⟩, hr⟩ := h
    obtain ⟨w, rfl⟩ := strKey_eq hs
    have ih := goBoxSMap_ok rest hr
    simp [goBoxSMap, keyString, hg, ih, boxPairs, pairs, strOf, boxT]

/-- last value under a str key, on the wire level -/
def lookupLastP (key : Bytes) : List MV → Option MV
  | k :: v :: rest =>
    match lookupLastP key rest with
    | some x => some x
    | none => if strKey? k == some key then some v else none
  | _ => none

theorem lookupLast_boxPairs (key : Bytes) : ∀ (kvs : List MV), KVok F kvs →
    lookupLast key (boxPairs F kvs) = (lookupLastP key kvs).map (boxT F)
  | [], _ => by simp [boxPairs, pairs, lookupLast, lookupLastP]
  | [_], _ => by simp [boxPairs, pairs, lookupLast, lookupLastP]
  | k :: v :: rest, h => by
    obtain ⟨⟨s, hs⟩, _, hr⟩ := h
    obtain ⟨w, rfl⟩ := strKey_eq hs
    have ih := lookupLast_boxPairs key rest hr
    rw [boxPairs_cons, strOf_str]
    simp only [lookupLast, lookupLastP, strKey?, ih]
    cases hl : lookupLastP key rest with
    | some x => simp
    | none =>
      by_cases hk : s = key
      · subst hk; simp
      · simp [hk]

def keyIn (name : Bytes) : List MV → Bool
  | k :: _ :: rest => (strKey? k == some name) || keyIn name rest
  | _ => false

theorem any_boxPairs (name : Bytes) : ∀ (kvs : List MV), KVok F kvs →
    (boxPairs F kvs).any (fun p => p.1 == name) = keyIn name kvs
  | [], _ => by simp [boxPairs, pairs, keyIn]
  | [_], _ => by simp [boxPairs, pairs, keyIn]
  | k :: v :: rest, h => by
    obtain ⟨⟨s, hs⟩, _, hr⟩ := h
    obtain ⟨w, rfl⟩ := strKey_eq hs
    have ih := any_boxPairs name rest hr
    rw [boxPairs_cons, strOf_str]
    simp [keyIn, strKey?, ih]

theorem goBox_leaf {v : MV} (h : leafOk v = true) :
    ∃ g, goBox F v = .ok g ∧ ∀ xs, g ≠ .slice xs := by
  cases v <;> simp_all [leafOk, goBox]

/-! ## the `columns` loop of the typed path -/

/-- what the typed path makes of one array column -/
def typedColOf (p : Bytes × List MV) : Option ColRec :=
  if p.1 == timeName then (typedTime F p.2).map fun ts => ⟨p.1, .i64 ts, none⟩
  else (typedValueCol F san p.2).map fun q => ⟨p.1, q.1, q.2⟩

def convAll : List (Bytes × List MV) → Option (List ColRec)
  | [] => some []
  | p :: r =>
    match typedColOf F san p, convAll r with
    | some c, some cs => some (c :: cs)
    | _, _ => none

/-- the array-valued pairs of a flattened map, in wire order -/
def arrayCols : List MV → List (Bytes × List MV)
  | k :: v :: rest =>
    match strKey? k, v with
    | some name, .arr _ xs => (name, xs) :: arrayCols rest
    | _, _ => arrayCols rest
  | _ => []

theorem typedColOf_name {p : Bytes × List MV} {c : ColRec} (h : typedColOf F san p = some c) :
    c.name = p.1 := by
  unfold typedColOf at h
  split at h <;> simp only [Option.map_eq_some_iff] at h <;> obtain ⟨_, _, rfl⟩ := h <;> rfl

/-- one iteration of `decodeTypedColumns`, inverted -/
theorem typedCols_step (hfix : nonArrayDupFallsBack = true) {k v : MV} {rest : List MV}
    {acc : List ColRec} {e : Option Nat} {R : List ColRec × Option Nat}
    (h : typedCols F san (k :: v :: rest) acc e = some R) :
    ∃ name, strKey? k = some name ∧ hasCol acc name = false ∧
      ((isArr v = false ∧ typedCols F san rest acc e = some R) ∨
       (∃ w xs c, v = .arr w xs ∧ 0 < xs.length ∧ xs.length ≤ maxTypedPreallocElems ∧
          (∀ n0, e = some n0 → n0 = xs.length) ∧ typedColOf F san (name, xs) = some c ∧
          typedCols F san rest (acc ++ [c]) (some xs.length) = some R)) := by
  unfold typedCols at h
  cases k with
  | str kw name =>
    refine ⟨name, rfl, ?_⟩
    cases v with
    | arr w xs =>
      simp only at h
      by_cases hn0 : xs.length = 0
      · simp [hn0] at h
      by_cases hmax : xs.length > maxTypedPreallocElems
      · simp [hmax] at h
      have hpos : 0 < xs.length := by omega
      have hle : xs.length ≤ maxTypedPreallocElems := by omega
      have key : ∀ (he' : ∀ n0, e = some n0 → n0 = xs.length)
          (h' : hasCol acc name = false ∧
            (if name = timeName then
              match typedTime F xs with
              | none => none
              | some ts => typedCols F san rest (acc ++ [⟨name, .i64 ts, none⟩]) (some xs.length)
            else
              match typedValueCol F san xs with
              | none => none
              | some (d, vl) => typedCols F san rest (acc ++ [⟨name, d, vl⟩]) (some xs.length)) = some R),
          hasCol acc name = false ∧
          ((isArr (MV.arr w xs) = false ∧ typedCols F san rest acc e = some R) ∨
           (∃ w' xs' c, MV.arr w xs = .arr w' xs' ∧ 0 < xs'.length ∧ xs'.length ≤ maxTypedPreallocElems ∧
              (∀ n0, e = some n0 → n0 = xs'.length) ∧ typedColOf F san (name, xs') = some c ∧
              typedCols F san rest (acc ++ [c]) (some xs'.length) = some R)) := by
        intro he' h'
        obtain ⟨hc, h'⟩ := h'
        refine ⟨hc, Or.inr ?_⟩
        by_cases ht : name = timeName
        · subst ht
          simp only [if_true] at h'
          cases hts : typedTime F xs with
          | none => simp [hts] at h'
          | some ts =>
            simp only [hts] at h'
            exact ⟨w, xs, ⟨timeName, .i64 ts, none⟩, rfl, hpos, hle, he', by simp [typedColOf, hts], h'⟩
        · simp only [ht, if_false] at h'
          cases hv : typedValueCol F san xs with
          | none => simp [hv] at h'
          | some q =>
            obtain ⟨d, vl⟩ := q
            simp only [hv] at h'
            exact ⟨w, xs, ⟨name, d, vl⟩, rfl, hpos, hle, he', by simp [typedColOf, ht, hv], h'⟩
      cases e with
      | none =>
        simp [hn0, hmax] at h
        exact key (by intro n0 h0; cases h0) h
      | some e0 =>
        simp [hn0, hmax] at h
        exact key (by intro n0 h0; cases h0; exact h.1.symm) h.2
    | _ =>
      simp only [hfix, Bool.true_and] at h
      split at h
      · simp at h
      · rename_i hc
        exact ⟨by simpa using hc, Or.inl ⟨rfl, h⟩⟩
  | _ => simp at h


def allStr : List MV → Bool
  | k :: _ :: rest => (strKey? k).isSome && allStr rest
  | _ => true

/-- no array-valued pair is followed by a later pair with the same key -/
def arrNoLater : List MV → Bool
  | k :: v :: rest =>
    (if isArr v then
      (match strKey? k with
       | some name => !keyIn name rest
       | none => true)
     else true) && arrNoLater rest
  | _ => true

theorem arrayCols_nonarr {k v : MV} {rest : List MV} (h : isArr v = false) :
    arrayCols (k :: v :: rest) = arrayCols rest := by
  cases v <;> simp_all [arrayCols, isArr] <;> (split <;> simp_all)

theorem hasCol_false {acc : List ColRec} {name : Bytes} (h : hasCol acc name = false) :
    ∀ c ∈ acc, c.name ≠ name := by
  intro c hc he
  have : hasCol acc name = true := by
    simp only [hasCol, List.any_eq_true]
    exact ⟨c, hc, by simp [he]⟩
  simp [h] at this

/-- everything the glue needs to know about a successful run of the `columns` loop -/
theorem typedCols_inv (hfix : nonArrayDupFallsBack = true) :
    ∀ (kvs : List MV) (acc : List ColRec) (e : Option Nat) (R : List ColRec × Option Nat),
      typedCols F san kvs acc e = some R →
      ∃ cs, convAll F san (arrayCols kvs) = some cs ∧ R.1 = acc ++ cs ∧
        (∀ p ∈ arrayCols kvs, 0 < p.2.length ∧ R.2 = some p.2.length) ∧
        (∀ n0, e = some n0 → R.2 = some n0) ∧
        (arrayCols kvs = [] → R.2 = e) ∧
        (∀ c ∈ acc, keyIn c.name kvs = false) ∧ arrNoLater kvs = true ∧ allStr kvs = true
  | [], acc, e, R, h => by
    simp [typedCols] at h; subst h
    exact ⟨[], by simp [arrayCols, convAll], by simp, by simp [arrayCols], by simp, by simp,
      by simp [keyIn], by simp [arrNoLater], by simp [allStr]⟩
  | [_], acc, e, R, h => by
    simp [typedCols] at h; subst h
    exact ⟨[], by simp [arrayCols, convAll], by simp, by simp [arrayCols], by simp, by simp,
      by simp [keyIn], by simp [arrNoLater], by simp [allStr]⟩
  | k :: v :: rest, acc, e, R, h => by
    obtain ⟨name, hk, hc, hcase⟩ := typedCols_step F san hfix h
    have hne := hasCol_false hc
    rcases hcase with ⟨hna, hrest⟩ | ⟨w, xs, c, rfl, hpos, hle, he', hconv, hrest⟩
    · obtain ⟨cs, h1, h2, h3, h4, h5, h6, h7, h8⟩ := typedCols_inv hfix rest acc e R hrest
      refine ⟨cs, by rw [arrayCols_nonarr hna]; exact h1, h2, by rw [arrayCols_nonarr hna]; exact h3, h4,
        by rw [arrayCols_nonarr hna]; exact h5, ?_, ?_, ?_⟩
      · intro c hcm
        have := hne c hcm
        simp only [keyIn, hk, h6 c hcm, Bool.or_false]
        simpa using fun hh => this hh.symm
      · simp [arrNoLater, hna, h7]
      · simp [allStr, hk, h8]
    · obtain ⟨cs, h1, h2, h3, h4, h5, h6, h7, h8⟩ :=
        typedCols_inv hfix rest (acc ++ [c]) (some xs.length) R hrest
      have hcn := typedColOf_name F san hconv
      have hac : arrayCols (k :: MV.arr w xs :: rest) = (name, xs) :: arrayCols rest := by
        simp [arrayCols, hk]
      have hR : R.2 = some xs.length := h4 _ rfl
      refine ⟨c :: cs, by rw [hac]; simp [convAll, hconv, h1], by rw [h2]; simp, ?_, ?_, ?_, ?_, ?_, ?_⟩
      · rw [hac]; intro p hp
        simp at hp; rcases hp with rfl | hp
        · exact ⟨hpos, hR⟩
        · exact h3 p hp
      · intro n0 h0; rw [he' n0 h0]; exact hR
      · rw [hac]; simp
      · intro c' hcm
        have := hne c' hcm
        simp only [keyIn, hk, h6 c' (by simp [hcm]), Bool.or_false]
        simpa using fun hh => this hh.symm
      · have hk' : keyIn name rest = false := by
          have := h6 c (by simp); rwa [hcn] at this
        simp [arrNoLater, isArr, hk, hk', h7]
      · simp [allStr, hk, h8]


/-! ## the generic side of the `columns` map -/

def boxCol (p : Bytes × List MV) : Bytes × List GoVal := (p.1, p.2.map boxS)

theorem normAll_length (m : Int) : ∀ (xs gts : List GoVal), normAll F m xs = some gts → gts.length = xs.length
  | [], gts, h => by simp [normAll] at h; subst h; rfl
  | x :: xs, gts, h => by
    unfold normAll at h
    split at h
    · rename_i t r ht hr
      simp at h; subst h
      simp [normAll_length m xs r hr]
    · simp at h

theorem normalizeTime_length {xs gts : List GoVal} (h : normalizeTime F xs = some gts) :
    gts.length = xs.length := by
  cases xs with
  | nil => simp [normalizeTime] at h; subst h; rfl
  | cons x xs =>
    simp only [normalizeTime] at h
    split at h
    · simp at h
    · exact normAll_length F _ _ _ h

/-- per-column agreement in the form the glue consumes -/
theorem typedColOf_agrees (hF : FloatLaws F) {p : Bytes × List MV} {c : ColRec}
    (h : typedColOf F san p = some c) (hne : p.2 ≠ []) :
    (∀ x ∈ p.2, scalar x = true) ∧
    (if p.1 == timeName then
       ∃ gts, normalizeTime F (p.2.map boxS) = some gts ∧
         convertCol F timeName (gts.map (sanVal san)) = some c
     else convertCol F p.1 ((p.2.map boxS).map (sanVal san)) = some c) := by
  obtain ⟨name, xs⟩ := p
  unfold typedColOf at h
  by_cases ht : (name == timeName) = true
  · simp only [ht, if_true, Option.map_eq_some_iff] at h ⊢
    obtain ⟨ts, hts, rfl⟩ := h
    have := timeCol_agrees F san hF xs ts hne hts
    have hn : name = timeName := by simpa using ht
    subst hn
    exact this
  · have ht' : (name == timeName) = false := by simpa using ht
    simp only [ht', Bool.false_eq_true, if_false, Option.map_eq_some_iff] at h ⊢
    obtain ⟨q, hq, rfl⟩ := h
    have := valueCol_agrees F san hF name ht' xs q.1 q.2 hq
    refine ⟨this.1, ?_⟩
    have e : (xs.map boxS).map (sanVal san) = xs.map (bx san) := by
      simp [List.map_map, Function.comp_def, bx]
    rw [e]; exact this.2

theorem boxT_arr {w : AW} {xs : List MV} (h : ∀ x ∈ xs, scalar x = true) :
    goBox F (.arr w xs) = .ok (.slice (xs.map boxS)) := by
  simp [goBox, goBoxL_scalars F h]

/-- the `columns` map boxes (keys are str; arrays hold scalars; the rest are leaves by `colsCarve`) -/
theorem cols_KVok (hF : FloatLaws F) (hfix : nonArrayDupFallsBack = true) :
    ∀ (kvs : List MV) (acc : List ColRec) (e : Option Nat) (R : List ColRec × Option Nat),
      typedCols F san kvs acc e = some R → colsCarve kvs = true → KVok F kvs
  | [], _, _, _, _, _ => by simp [KVok]
  | [_], _, _, _, _, _ => by simp [KVok]
  | k :: v :: rest, acc, e, R, h, hcv => by
    obtain ⟨name, hk, _, hcase⟩ := typedCols_step F san hfix h
    simp only [colsCarve, Bool.and_eq_true, Bool.or_eq_true] at hcv
    rcases hcase with ⟨hna, hrest⟩ | ⟨w, xs, c, rfl, hpos, _, _, hconv, hrest⟩
    · have hl : leafOk v = true := by
        rcases hcv.1 with h1 | h1
        · simp [hna] at h1
        · exact h1
      obtain ⟨g, hg, _⟩ := goBox_leaf F hl
      exact ⟨⟨name, hk⟩, ⟨g, hg⟩, cols_KVok hF hfix rest acc e R hrest hcv.2⟩
    · have hs := (typedColOf_agrees F san hF hconv (by
        intro h0; simp at h0; subst h0; simp at hpos)).1
      exact ⟨⟨name, hk⟩, ⟨_, boxT_arr F hs⟩, cols_KVok hF hfix rest _ _ R hrest hcv.2⟩

def slice? (p : Bytes × GoVal) : Option (Bytes × List GoVal) :=
  match p.2 with
  | .slice xs => some (p.1, xs)
  | _ => none

theorem payloadColumns_eq (kvs : List (Bytes × GoVal)) :
    payloadColumns kvs = (dedupLast kvs).filterMap slice? := by
  unfold payloadColumns slice?; rfl

/-- **last-wins de-duplication**: Go's map over the boxed `columns` pairs, arrays only, is exactly
the list of array-valued pairs in wire order. -/
theorem payload_cols : ∀ (kvs : List MV), KVok F kvs → arrNoLater kvs = true → colsCarve kvs = true →
    (∀ p ∈ arrayCols kvs, ∀ x ∈ p.2, scalar x = true) →
    payloadColumns (boxPairs F kvs) = (arrayCols kvs).map boxCol
  | [], _, _, _, _ => by simp [payloadColumns_eq, boxPairs, pairs, dedupLast, arrayCols]
  | [_], _, _, _, _ => by simp [payloadColumns_eq, boxPairs, pairs, dedupLast, arrayCols]
  | k :: v :: rest, hkv, hnl, hcv, hsc => by
    obtain ⟨⟨name, hk⟩, ⟨g, hg⟩, hr⟩ := hkv
    obtain ⟨kw, rfl⟩ := strKey_eq hk
    simp only [colsCarve, Bool.and_eq_true, Bool.or_eq_true] at hcv
    simp only [arrNoLater, Bool.and_eq_true] at hnl
    have hany := any_boxPairs F name rest hr
    rw [payloadColumns_eq, boxPairs_cons, strOf_str]
    simp only [dedupLast, hany]
    cases hv : isArr v with
    | true =>
      cases v with
      | arr w xs =>
        have hk' : keyIn name rest = false := by
          have := hnl.1; simp [isArr, strKey?] at this; exact this
        have hac : arrayCols (MV.str kw name :: MV.arr w xs :: rest) = (name, xs) :: arrayCols rest := by
          simp [arrayCols, strKey?]
        have hs : ∀ x ∈ xs, scalar x = true := hsc (name, xs) (by rw [hac]; simp)
        have ih := payload_cols rest hr hnl.2 hcv.2 (fun p hp => hsc p (by rw [hac]; simp [hp]))
        rw [payloadColumns_eq] at ih
        simp [hk', boxT, boxT_arr F hs, slice?, ih, hac, boxCol]
      | _ => simp [isArr] at hv
    | false =>
      have hl : leafOk v = true := by
        rcases hcv.1 with h1 | h1
        · simp [hv] at h1
        · exact h1
      obtain ⟨g', hg', hns⟩ := goBox_leaf F hl
      have hac := arrayCols_nonarr (k := MV.str kw name) (rest := rest) hv
      have ih := payload_cols rest hr hnl.2 hcv.2 (fun p hp => hsc p (by rw [hac]; exact hp))
      rw [payloadColumns_eq] at ih
      have hsl : slice? (name, boxT F v) = none := by
        simp only [slice?, boxT, hg']
      rw [hac]
      by_cases hki : keyIn name rest = true
      · simp [hki, ih]
      · simp [hki, hsl, ih]


/-! ## `decodeColumnar` + `convertColumnsToTyped` on the boxed array columns -/

/-- a generated time column (always the last one) is replaced by the marker `genTime = true`. -/
def maskRec (r : TypedRec) : TypedRec :=
  if r.genTime then { r with cols := r.cols.dropLast } else r

def distinctNames : List (Bytes × List MV) → Bool
  | [] => true
  | p :: r => !(r.any fun q => q.1 == p.1) && distinctNames r

theorem convertCols_cons_ne {name : Bytes} {xs : List GoVal} {rest : List (Bytes × List GoVal)}
    (hne : xs ≠ []) :
    convertCols F ((name, xs) :: rest) =
      (match convertCol F name xs, convertCols F rest with
       | some c, some cs => some (c :: cs)
       | _, _ => none) := by
  cases xs with
  | nil => exact absurd rfl hne
  | cons x xs => simp [convertCols] <;> rfl

theorem sanCols_cons (p : Bytes × List GoVal) (rest : List (Bytes × List GoVal)) :
    sanCols san (p :: rest) = (p.1, p.2.map (sanVal san)) :: sanCols san rest := rfl

theorem map_ne_nil {α β : Type} {f : α → β} {xs : List α} (h : xs ≠ []) : xs.map f ≠ [] := by
  cases xs <;> simp_all

/-- no time column among them: every column goes through `valueCol_agrees` -/
theorem conv_noT (hF : FloatLaws F) : ∀ (A : List (Bytes × List MV)) (cs : List ColRec),
    (∀ p ∈ A, (p.1 == timeName) = false) → (∀ p ∈ A, p.2 ≠ []) → convAll F san A = some cs →
    convertCols F (sanCols san (A.map boxCol)) = some cs
  | [], cs, _, _, h => by simp [convAll] at h; subst h; simp [sanCols, convertCols]
  | p :: A, cs, hnt, hne, h => by
    unfold convAll at h
    split at h
    · rename_i c cs' hc hcs
      simp at h; subst h
      have ih := conv_noT hF A cs' (fun q hq => hnt q (by simp [hq])) (fun q hq => hne q (by simp [hq])) hcs
      have hp := (typedColOf_agrees F san hF hc (hne p (by simp))).2
      simp only [hnt p (by simp), Bool.false_eq_true, if_false] at hp
      simp only [List.map_cons, sanCols_cons, boxCol]
      rw [convertCols_cons_ne F (map_ne_nil (map_ne_nil (hne p (by simp))))]
      rw [hp, ih]
    · simp at h

theorem lookupCol_none {A : List (Bytes × List MV)} (h : lookupCol timeName (A.map boxCol) = none) :
    ∀ p ∈ A, (p.1 == timeName) = false := by
  induction A with
  | nil => simp
  | cons p A ih =>
    simp only [List.map_cons, boxCol, lookupCol] at h
    split at h
    · simp at h
    · rename_i hp
      intro q hq; simp at hq; rcases hq with rfl | hq
      · simpa using hp
      · exact ih h q hq

/-- a time column is present (unique by `distinctNames`): it is normalised, the others are untouched -/
theorem conv_hasT (hF : FloatLaws F) : ∀ (A : List (Bytes × List MV)) (cs : List ColRec)
    (tcol gts : List GoVal),
    lookupCol timeName (A.map boxCol) = some tcol → normalizeTime F tcol = some gts →
    distinctNames A = true → (∀ p ∈ A, p.2 ≠ []) → convAll F san A = some cs →
    convertCols F (sanCols san (replaceCol timeName gts (A.map boxCol))) = some cs
  | [], _, _, _, hl, _, _, _, _ => by simp [lookupCol] at hl
  | p :: A, cs, tcol, gts, hl, hn, hd, hne, h => by
    unfold convAll at h
    split at h
    · rename_i c cs' hc hcs
      simp at h; subst h
      simp only [distinctNames, Bool.and_eq_true, Bool.not_eq_true'] at hd
      have hpne := hne p (by simp)
      have hp := (typedColOf_agrees F san hF hc hpne).2
      by_cases ht : (p.1 == timeName) = true
      · simp only [ht, if_true] at hp
        obtain ⟨gts', hn', hcv⟩ := hp
        simp only [List.map_cons, boxCol, lookupCol, ht, if_true, Option.some.injEq] at hl
        subst hl
        rw [hn] at hn'; simp at hn'; subst hn'
        have hlen := normalizeTime_length F hn
        have hgne : gts ≠ [] := by
          intro h0; subst h0
          have : p.2.length = 0 := by simpa using hlen.symm
          exact hpne (List.eq_nil_of_length_eq_zero this)
        have htn : p.1 = timeName := by simpa using ht
        have hnoT : ∀ q ∈ A, (q.1 == timeName) = false := by
          intro q hq
          have := hd.1
          simp only [List.any_eq_false] at this
          have := this q hq
          rw [htn] at this; simpa using this
        have ih := conv_noT F san hF A cs' hnoT (fun q hq => hne q (by simp [hq])) hcs
        simp only [List.map_cons, boxCol, replaceCol, ht, if_true, sanCols_cons]
        rw [convertCols_cons_ne F (map_ne_nil hgne)]
        rw [hcv, ih]
      · have ht' : (p.1 == timeName) = false := by simpa using ht
        simp only [ht', Bool.false_eq_true, if_false] at hp
        simp only [List.map_cons, boxCol, lookupCol, ht', Bool.false_eq_true, if_false] at hl
        have ih := conv_hasT hF A cs' tcol gts hl hn hd.2 (fun q hq => hne q (by simp [hq])) hcs
        simp only [List.map_cons, boxCol, replaceCol, ht', Bool.false_eq_true, if_false, sanCols_cons]
        rw [convertCols_cons_ne F (map_ne_nil (map_ne_nil hpne))]
        rw [hp, ih]
    · simp at h


theorem lookupCol_append_none {k : Bytes} {v : List GoVal} : ∀ {X : List (Bytes × List GoVal)},
    lookupCol k X = none → lookupCol k (X ++ [(k, v)]) = some v
  | [], _ => by simp [lookupCol]
  | (k', v') :: X, h => by
    simp only [lookupCol] at h
    split at h
    · simp at h
    · rename_i hk
      simp only [List.cons_append, lookupCol, hk]
      exact lookupCol_append_none h

theorem replaceCol_append_none {k : Bytes} {v v' : List GoVal} : ∀ {X : List (Bytes × List GoVal)},
    lookupCol k X = none → replaceCol k v' (X ++ [(k, v)]) = X ++ [(k, v')]
  | [], _ => by simp [replaceCol]
  | (k', w) :: X, h => by
    simp only [lookupCol] at h
    split at h
    · simp at h
    · rename_i hk
      have ih := replaceCol_append_none (k := k) (v := v) (v' := v') h
      simp [replaceCol, hk, ih]

theorem convertCols_snoc {name : Bytes} {ys : List GoVal} {c : ColRec} (hy : ys ≠ [])
    (hc : convertCol F name ys = some c) : ∀ (X : List (Bytes × List GoVal)) (cs : List ColRec),
    convertCols F X = some cs → convertCols F (X ++ [(name, ys)]) = some (cs ++ [c])
  | [], cs, h => by
    simp [convertCols] at h; subst h
    rw [List.nil_append, convertCols_cons_ne F hy, hc]; rfl
  | (n, xs) :: X, cs, h => by
    cases xs with
    | nil =>
      simp only [convertCols, List.isEmpty_nil, if_true] at h
      simp only [List.cons_append, convertCols, List.isEmpty_nil, if_true]
      exact convertCols_snoc hy hc X cs h
    | cons x xs =>
      rw [convertCols_cons_ne F (by simp)] at h
      rw [List.cons_append, convertCols_cons_ne F (by simp)]
      split at h
      · rename_i c1 cs1 h1 h2
        simp at h; subst h
        rw [h1, convertCols_snoc hy hc X cs1 h2]; rfl
      · simp at h

theorem normAll_ints (m : Int) : ∀ (ts : List Int),
    normAll F m (ts.map fun t => GoVal.int IK.i64 t) = some (ts.map fun t => GoVal.int IK.i64 (applyMult m t))
  | [] => rfl
  | t :: ts => by simp [normAll, toInt64Ts, normAll_ints m ts]

theorem convertCol_time_ints (f : Int → Int) (ts : List Int) (hne : ts ≠ []) :
    convertCol F timeName ((ts.map fun t => GoVal.int IK.i64 (f t)).map (sanVal san))
      = some ⟨timeName, .i64 (ts.map f), none⟩ := by
  cases ts with
  | nil => exact absurd rfl hne
  | cons t0 tl =>
    have hg := gTimeAll_ints F san f (t0 :: tl)
    simp only [List.map_cons, sanVal] at hg
    simp only [convertCol, List.map_cons, firstNonNilG, sanVal, gIsNil, Bool.false_eq_true, if_false]
    rw [hg]
    simp [timeName]

theorem numRecordsOf_all {n : Nat} (hn : 0 < n) : ∀ (L : List (Bytes × List GoVal)), L ≠ [] →
    (∀ q ∈ L, q.2.length = n) → numRecordsOf L = n
  | [], h, _ => absurd rfl h
  | (name, xs) :: rest, _, h => by
    have hl := h (name, xs) (by simp)
    cases xs with
    | nil => simp at hl; omega
    | cons x xs => simpa [numRecordsOf] using hl

theorem replaceCol_lens {n : Nat} {k : Bytes} {v : List GoVal} (hv : v.length = n) :
    ∀ (X : List (Bytes × List GoVal)), (∀ q ∈ X, q.2.length = n) → ∀ q ∈ replaceCol k v X, q.2.length = n
  | [], _ => by simp [replaceCol]
  | (k', w) :: X, h => by
    simp only [replaceCol]
    split
    · intro q hq; simp at hq; rcases hq with rfl | hq
      · exact hv
      · exact h q (by simp [hq])
    · intro q hq; simp at hq; rcases hq with rfl | hq
      · exact h _ (by simp)
      · exact replaceCol_lens hv X (fun q hq => h q (by simp [hq])) q hq

theorem replaceCol_ne_nil {k : Bytes} {v : List GoVal} : ∀ {X : List (Bytes × List GoVal)},
    X ≠ [] → replaceCol k v X ≠ []
  | [], h => absurd rfl h
  | (k', w) :: X, _ => by simp only [replaceCol]; split <;> simp

theorem sanCols_lens {n : Nat} (X : List (Bytes × List GoVal)) (h : ∀ q ∈ X, q.2.length = n) :
    ∀ q ∈ sanCols san X, q.2.length = n := by
  intro q hq
  simp only [sanCols, List.mem_map] at hq
  obtain ⟨p, hp, rfl⟩ := hq
  simpa using h p hp

theorem hasCol_convAll (name : Bytes) : ∀ (A : List (Bytes × List MV)) (cs : List ColRec),
    convAll F san A = some cs → hasCol cs name = A.any (fun p => p.1 == name)
  | [], cs, h => by simp [convAll] at h; subst h; simp [hasCol]
  | p :: A, cs, h => by
    unfold convAll at h
    split at h
    · rename_i c cs' hc hcs
      simp at h; subst h
      have ih := hasCol_convAll name A cs' hcs
      simp only [hasCol] at ih
      simp [hasCol, typedColOf_name F san hc, ih]
    · simp at h

theorem lookupCol_some {A : List (Bytes × List MV)} {tcol : List GoVal}
    (h : lookupCol timeName (A.map boxCol) = some tcol) :
    ∃ p ∈ A, (p.1 == timeName) = true ∧ tcol = p.2.map boxS := by
  induction A with
  | nil => simp [lookupCol] at h
  | cons p A ih =>
    simp only [List.map_cons, boxCol, lookupCol] at h
    split at h
    · rename_i hp
      simp at h
      exact ⟨p, by simp, by simpa using hp, h.symm⟩
    · obtain ⟨q, hq, h1, h2⟩ := ih h
      exact ⟨q, by simp [hq], h1, h2⟩

theorem convAll_mem : ∀ (A : List (Bytes × List MV)) (cs : List ColRec), convAll F san A = some cs →
    ∀ p ∈ A, ∃ c, typedColOf F san p = some c
  | [], _, _ => by simp
  | p :: A, cs, h => by
    unfold convAll at h
    split at h
    · rename_i c cs' hc hcs
      intro q hq; simp at hq; rcases hq with rfl | hq
      · exact ⟨c, hc⟩
      · exact convAll_mem A cs' hcs q hq
    · simp at h

/-- what `tryDecodeColumnarTyped` returns from measurement, converted columns and row count -/
def typedRecOf (m : Bytes) (cs : List ColRec) (n : Nat) (now : Int) : TypedRec :=
  if hasCol cs timeName then ⟨m, cs, n, false⟩
  else ⟨m, cs ++ [⟨timeName, .i64 (List.replicate n now), none⟩], n, true⟩

/-- **columnar pipeline**: length check, time column (supplied or generated), normalisation,
sanitisation and the typing chokepoint on the boxed array columns give the typed path's record,
up to the value of a generated time column. -/
theorem columnar_agrees (hF : FloatLaws F) (A : List (Bytes × List MV)) (cs : List ColRec) (n : Nat)
    (m : Bytes) (gm : Option GoVal) (now : Int)
    (hA : A ≠ []) (hlen : ∀ p ∈ A, p.2.length = n) (hn : 0 < n) (hd : distinctNames A = true)
    (hconv : convAll F san A = some cs) (hm : extractMeas gm = some m) :
    ∃ rec r', decodeColumnar F san now gm (A.map boxCol) = some rec ∧ typeItem F rec = .col r' ∧
      maskRec r' = maskRec (typedRecOf m cs n now) := by
  have hne : ∀ p ∈ A, p.2 ≠ [] := by
    intro p hp h0; have := hlen p hp; rw [h0] at this; simp at this; omega
  have hGlen : ∀ q ∈ A.map boxCol, q.2.length = n := by
    intro q hq; simp only [List.mem_map] at hq; obtain ⟨p, hp, rfl⟩ := hq
    simpa [boxCol] using hlen p hp
  have hGne : A.map boxCol ≠ [] := map_ne_nil hA
  obtain ⟨p0, A', rfl⟩ : ∃ p0 A', A = p0 :: A' := by
    cases A with
    | nil => exact absurd rfl hA
    | cons p0 A' => exact ⟨p0, A', rfl⟩
  have hc0 : (p0.2.map boxS).length = n := by simpa using hlen p0 (by simp)
  have hlens : lensOk n ((p0 :: A').map boxCol) = true := by
    simp only [lensOk, List.all_eq_true]
    intro q hq; simpa using hGlen q hq
  have hdec : ∀ cols2 gen, normalizeCols F (ensureTime now n ((p0 :: A').map boxCol)).1 = some cols2 →
      (ensureTime now n ((p0 :: A').map boxCol)).2 = gen →
      decodeColumnar F san now gm ((p0 :: A').map boxCol) = some ⟨m, sanCols san cols2, gen⟩ := by
    intro cols2 gen h1 h2
    simp only [decodeColumnar, hm, List.map_cons, boxCol, List.length_map]
    simp only [List.map_cons, boxCol, List.length_map] at hlens h1 h2
    have hl0 : p0.2.length = n := hlen p0 (by simp)
    rw [hl0]
    simp [hlens, h1, h2]
  cases hl : lookupCol timeName ((p0 :: A').map boxCol) with
  | none =>
    have hnoT := lookupCol_none hl
    obtain ⟨k, rfl⟩ : ∃ k, n = k + 1 := ⟨n - 1, by omega⟩
    let gts : List GoVal := (List.replicate (k + 1) now).map fun t => GoVal.int IK.i64 (applyMult (tsMultG now) t)
    have hens : ensureTime now (k + 1) ((p0 :: A').map boxCol)
        = ((p0 :: A').map boxCol ++ [(timeName, genTimeCol now (k + 1))], true) := by
      simp only [ensureTime, hl]
    have hgen : genTimeCol now (k + 1) = (List.replicate (k + 1) now).map fun t => GoVal.int IK.i64 t := by
      simp [genTimeCol, List.map_replicate]
    have hnt : normalizeTime F (genTimeCol now (k + 1)) = some gts := by
      rw [hgen]
      have := normAll_ints F (tsMultG now) (List.replicate (k + 1) now)
      simp only [List.replicate_succ, List.map_cons, normalizeTime, toInt64Ts] at this ⊢
      exact this
    have hnorm : normalizeCols F (ensureTime now (k + 1) ((p0 :: A').map boxCol)).1
        = some ((p0 :: A').map boxCol ++ [(timeName, gts)]) := by
      rw [hens]
      simp only [normalizeCols, lookupCol_append_none hl, hnt, replaceCol_append_none hl]
    have hD := hdec _ true hnorm (by rw [hens])
    have hcv := conv_noT F san hF (p0 :: A') cs hnoT hne hconv
    have htc := convertCol_time_ints F san (applyMult (tsMultG now)) (List.replicate (k + 1) now) (by simp)
    have hcc : convertCols F (sanCols san ((p0 :: A').map boxCol ++ [(timeName, gts)]))
        = some (cs ++ [⟨timeName, .i64 ((List.replicate (k + 1) now).map (applyMult (tsMultG now))), none⟩]) := by
      have : sanCols san ((p0 :: A').map boxCol ++ [(timeName, gts)])
          = sanCols san ((p0 :: A').map boxCol) ++ [(timeName, gts.map (sanVal san))] := by
        simp [sanCols]
      rw [this]
      exact convertCols_snoc F (by simp [gts]) htc _ cs hcv
    have hnr : numRecordsOf (sanCols san ((p0 :: A').map boxCol ++ [(timeName, gts)])) = k + 1 := by
      apply numRecordsOf_all hn
      · simp [sanCols]
      · apply sanCols_lens
        intro q hq
        simp only [List.mem_append, List.mem_singleton] at hq
        rcases hq with hq | rfl
        · exact hGlen q hq
        · simp [gts]
    refine ⟨_, _, hD, by simp only [typeItem, hcc, hnr]; rfl, ?_⟩
    have hh : hasCol cs timeName = false := by
      rw [hasCol_convAll F san timeName _ cs hconv]
      simp only [List.any_eq_false]
      intro p hp; simpa using hnoT p hp
    simp [maskRec, typedRecOf, hh]
  | some tcol =>
    obtain ⟨p, hp, hpt, rfl⟩ := lookupCol_some hl
    obtain ⟨c, hc⟩ := convAll_mem F san _ cs hconv p hp
    have hag := (typedColOf_agrees F san hF hc (hne p hp)).2
    simp only [hpt, if_true] at hag
    obtain ⟨gts, hnt, _⟩ := hag
    have hgl : gts.length = n := by
      rw [normalizeTime_length F hnt]; simpa using hlen p hp
    have hpl : (p.2.map boxS) ≠ [] := map_ne_nil (hne p hp)
    have hens : ensureTime now n ((p0 :: A').map boxCol) = ((p0 :: A').map boxCol, false) := by
      simp only [ensureTime, hl]
      cases hq : p.2.map boxS with
      | nil => exact absurd hq hpl
      | cons x xs => rfl
    have hnorm : normalizeCols F (ensureTime now n ((p0 :: A').map boxCol)).1
        = some (replaceCol timeName gts ((p0 :: A').map boxCol)) := by
      rw [hens]; simp only [normalizeCols, hl, hnt]
    have hD := hdec _ false hnorm (by rw [hens])
    have hcc := conv_hasT F san hF (p0 :: A') cs _ gts hl hnt hd hne hconv
    have hnr : numRecordsOf (sanCols san (replaceCol timeName gts ((p0 :: A').map boxCol))) = n := by
      apply numRecordsOf_all hn
      · have := replaceCol_ne_nil (k := timeName) (v := gts) hGne
        intro h0; apply this
        simp only [sanCols, List.map_eq_nil_iff] at h0; exact h0
      · exact sanCols_lens san _ (replaceCol_lens hgl _ hGlen)
    refine ⟨_, _, hD, by simp only [typeItem, hcc, hnr]; rfl, ?_⟩
    have hh : hasCol cs timeName = true := by
      rw [hasCol_convAll F san timeName _ cs hconv]
      simp only [List.any_eq_true]
      exact ⟨p, hp, hpt⟩
    simp [maskRec, typedRecOf, hh]


/-! ## the value of the `columns` key -/

theorem keyIn_of_arrayCols (name : Bytes) : ∀ (kvs : List MV),
    (arrayCols kvs).any (fun q => q.1 == name) = true → keyIn name kvs = true
  | [], h => by simp [arrayCols] at h
  | [_], h => by simp [arrayCols] at h
  | k :: v :: rest, h => by
    simp only [arrayCols] at h
    simp only [keyIn, Bool.or_eq_true]
    split at h
    · rename_i nm w xs hk
      simp only [List.any_cons, Bool.or_eq_true] at h
      rcases h with h | h
      · left; simp at h; simp [hk, h]
      · right; exact keyIn_of_arrayCols name rest h
    · right; exact keyIn_of_arrayCols name rest h

theorem arrNoLater_distinct : ∀ (kvs : List MV), arrNoLater kvs = true → distinctNames (arrayCols kvs) = true
  | [], _ => by simp [arrayCols, distinctNames]
  | [_], _ => by simp [arrayCols, distinctNames]
  | k :: v :: rest, h => by
    simp only [arrNoLater, Bool.and_eq_true] at h
    have ih := arrNoLater_distinct rest h.2
    simp only [arrayCols]
    split
    · rename_i nm w xs hk
      have h1 := h.1
      simp only [isArr, if_true, hk, Bool.not_eq_true'] at h1
      simp only [distinctNames, Bool.and_eq_true, Bool.not_eq_true', ih, and_true]
      cases ha : (arrayCols rest).any (fun q => q.1 == nm) with
      | false => rfl
      | true => rw [keyIn_of_arrayCols nm rest ha] at h1; cases h1
    · exact ih

def colsCarveV : MV → Bool
  | .map _ ckvs => colsCarve ckvs
  | _ => true

/-- **the `columns` value**: it boxes to a string-keyed map whose array entries (last wins) are
exactly the array-valued pairs the typed path converted. -/
theorem columnsVal_agrees (hF : FloatLaws F) (hfix : nonArrayDupFallsBack = true) {cv : MV}
    {c : List ColRec × Nat} (h : typedColumnsVal F san cv = some c) (hcv : colsCarveV cv = true) :
    ∃ w ckvs, cv = .map w ckvs ∧ goBox F cv = .ok (.smap (boxPairs F ckvs)) ∧
      payloadColumns (boxPairs F ckvs) = (arrayCols ckvs).map boxCol ∧
      arrayCols ckvs ≠ [] ∧ (∀ p ∈ arrayCols ckvs, p.2.length = c.2) ∧ 0 < c.2 ∧
      distinctNames (arrayCols ckvs) = true ∧ convAll F san (arrayCols ckvs) = some c.1 := by
  cases cv with
  | map w ckvs =>
    simp only [typedColumnsVal] at h
    split at h
    · simp at h
    · rename_i hlen2
      split at h
      · rename_i acc n hT
        split at h
        · simp at h
        · rename_i hne
          simp at h; subst h
          obtain ⟨cs, h1, h2, h3, _, h5, _, h7, h8⟩ := typedCols_inv F san hfix ckvs [] none _ hT
          simp only [List.nil_append] at h2
          subst h2
          have hA : arrayCols ckvs ≠ [] := by
            intro h0; rw [h0] at h1; simp [convAll] at h1; subst h1; simp at hne
          have hkv := cols_KVok F san hF hfix ckvs [] none _ hT hcv
          have hsc : ∀ p ∈ arrayCols ckvs, ∀ x ∈ p.2, scalar x = true := by
            intro p hp
            obtain ⟨c, hc⟩ := convAll_mem F san _ _ h1 p hp
            have hpne : p.2 ≠ [] := by
              intro h0; have := (h3 p hp).1; rw [h0] at this; simp at this
            exact (typedColOf_agrees F san hF hc hpne).1
          have hpay := payload_cols F ckvs hkv h7 hcv hsc
          have hbox : goBox F (.map w ckvs) = .ok (.smap (boxPairs F ckvs)) := by
            cases ckvs with
            | nil => simp at hlen2
            | cons k rest =>
              cases rest with
              | nil => simp at hlen2
              | cons v rest =>
                have hsm := goBoxSMap_ok F _ hkv
                obtain ⟨⟨s, hs⟩, _⟩ := hkv
                obtain ⟨kw, rfl⟩ := strKey_eq hs
                simp [goBox, hsm]
          refine ⟨w, ckvs, rfl, hbox, hpay, hA, ?_, ?_, arrNoLater_distinct ckvs h7, h1⟩
          · intro p hp
            have := (h3 p hp).2
            simp at this; exact this.symm
          · obtain ⟨p, hp⟩ := List.exists_mem_of_ne_nil _ hA
            have := h3 p hp
            simp at this; omega
      · simp at h
  | _ => simp [typedColumnsVal] at h


/-! ## the top-level loop -/

theorem names_ne : (mName == batchName) = false ∧ (columnsName == batchName) = false ∧
    (columnsName == mName) = false ∧ (mName == columnsName) = false ∧
    (batchName == mName) = false ∧ (batchName == columnsName) = false := by decide

/-- one iteration of `tryDecodeColumnarTyped`'s key loop, inverted -/
theorem topLoop_step {k v : MV} {rest : List MV} {st st' : TopSt}
    (h : typedTopLoop F san (k :: v :: rest) st = some st') :
    ∃ key, strKey? k = some key ∧ (key == batchName) = false ∧
      (((key == mName) = true ∧ st.meas = none ∧ ∃ m, typedMeas v = some m ∧
          typedTopLoop F san rest { st with meas := some m } = some st') ∨
       ((key == mName) = false ∧ (key == columnsName) = true ∧ st.cols = none ∧
          ∃ c, typedColumnsVal F san v = some c ∧
            typedTopLoop F san rest { st with cols := some c } = some st') ∨
       ((key == mName) = false ∧ (key == columnsName) = false ∧
          typedTopLoop F san rest st = some st')) := by
  unfold typedTopLoop at h
  cases k with
  | str kw key =>
    refine ⟨key, rfl, ?_⟩
    simp only at h
    cases hb : (key == batchName) with
    | true => simp [hb] at h
    | false =>
      refine ⟨rfl, ?_⟩
      simp only [hb, Bool.false_eq_true, if_false] at h
      cases hm : (key == mName) with
      | true =>
        simp only [hm, if_true] at h
        cases hs : st.meas with
        | some x => simp [hs] at h
        | none =>
          simp only [hs, Option.isSome_none, Bool.false_eq_true, if_false] at h
          cases ht : typedMeas v with
          | none => simp [ht] at h
          | some m =>
            simp only [ht] at h
            exact Or.inl ⟨rfl, rfl, m, rfl, h⟩
      | false =>
        simp only [hm, Bool.false_eq_true, if_false] at h
        cases hc : (key == columnsName) with
        | true =>
          simp only [hc, if_true] at h
          cases hs : st.cols with
          | some x => simp [hs] at h
          | none =>
            simp only [hs, Option.isSome_none, Bool.false_eq_true, if_false] at h
            cases ht : typedColumnsVal F san v with
            | none => simp [ht] at h
            | some c =>
              simp only [ht] at h
              exact Or.inr (Or.inl ⟨rfl, rfl, rfl, c, rfl, h⟩)
        | false =>
          simp only [hc, Bool.false_eq_true, if_false] at h
          exact Or.inr (Or.inr ⟨rfl, rfl, h⟩)
  | _ => simp at h

theorem typedMeas_box {v : MV} {m : Bytes} (h : typedMeas v = some m) :
    goBox F v = .ok (boxS v) ∧ extractMeas (some (boxS v)) = some m := by
  cases v <;> simp_all [typedMeas, goBox, boxS, extractMeas]

/-- everything the glue needs to know about a successful run of the top-level key loop -/
theorem topLoop_inv (hF : FloatLaws F) (hfix : nonArrayDupFallsBack = true) :
    ∀ (kvs : List MV) (st st' : TopSt), typedTopLoop F san kvs st = some st' → topCarve kvs = true →
      KVok F kvs ∧ lookupLastP batchName kvs = none ∧
      ((lookupLastP mName kvs = none ∧ st'.meas = st.meas) ∨
        (∃ mv m, lookupLastP mName kvs = some mv ∧ st.meas = none ∧ typedMeas mv = some m ∧
          st'.meas = some m)) ∧
      ((lookupLastP columnsName kvs = none ∧ st'.cols = st.cols) ∨
        (∃ cv c, lookupLastP columnsName kvs = some cv ∧ st.cols = none ∧
          typedColumnsVal F san cv = some c ∧ colsCarveV cv = true ∧ st'.cols = some c))
  | [], st, st', h, _ => by
    simp [typedTopLoop] at h; subst h; simp [KVok, lookupLastP]
  | [_], st, st', h, _ => by
    simp [typedTopLoop] at h; subst h; simp [KVok, lookupLastP]
  | k :: v :: rest, st, st', h, hcv => by
    obtain ⟨key, hk, hb, hcase⟩ := topLoop_step F san h
    obtain ⟨kw, rfl⟩ := strKey_eq hk
    simp only [topCarve, strKey?, Bool.and_eq_true] at hcv
    obtain ⟨hcv1, hcv2⟩ := hcv
    have hbk : (some key == some batchName) = false := by simpa using hb
    rcases hcase with ⟨hm, hsm, m, htm, hrest⟩ | ⟨hm, hc, hsc, c, htc, hrest⟩ | ⟨hm, hc, hrest⟩
    · -- key = "m"
      obtain ⟨i1, i2, i3, i4⟩ := topLoop_inv hF hfix rest _ st' hrest hcv2
      have hkm : key = mName := by simpa using hm
      subst hkm
      have hbox := typedMeas_box F htm
      refine ⟨⟨⟨_, rfl⟩, ⟨_, hbox.1⟩, i1⟩, ?_, ?_, ?_⟩
      · simp only [lookupLastP, i2, strKey?, hbk, Bool.false_eq_true, if_false]
      · right
        rcases i3 with ⟨j1, j2⟩ | ⟨mv, m', _, j2, _⟩
        · exact ⟨v, m, by simp [lookupLastP, j1, strKey?], hsm, htm, by simpa using j2⟩
        · simp at j2
      · have hne : (some mName == some columnsName) = false := by decide
        rcases i4 with ⟨j1, j2⟩ | ⟨cv, c, j1, j2, j3, j4, j5⟩
        · left; exact ⟨by simp only [lookupLastP, j1, strKey?, hne, Bool.false_eq_true, if_false], by simpa using j2⟩
        · right; exact ⟨cv, c, by simp [lookupLastP, j1], by simpa using j2, j3, j4, j5⟩
    · -- key = "columns"
      obtain ⟨i1, i2, i3, i4⟩ := topLoop_inv hF hfix rest _ st' hrest hcv2
      have hkc : key = columnsName := by simpa using hc
      subst hkc
      have hcvV : colsCarveV v = true := by
        have h1 := hcv1
        simp only [names_ne.2.2.1, names_ne.2.1, Bool.false_eq_true, if_false, if_true, beq_self_eq_true] at h1
        cases v <;> simp_all [colsCarveV]
      obtain ⟨w, ckvs, rfl, hbox, _⟩ := columnsVal_agrees F san hF hfix htc hcvV
      refine ⟨⟨⟨_, rfl⟩, ⟨_, hbox⟩, i1⟩, ?_, ?_, ?_⟩
      · simp only [lookupLastP, i2, strKey?, hbk, Bool.false_eq_true, if_false]
      · have hne : (some columnsName == some mName) = false := by decide
        rcases i3 with ⟨j1, j2⟩ | ⟨mv, m', j1, j2, j3, j4⟩
        · left; exact ⟨by simp only [lookupLastP, j1, strKey?, hne, Bool.false_eq_true, if_false], by simpa using j2⟩
        · right; exact ⟨mv, m', by simp [lookupLastP, j1], by simpa using j2, j3, j4⟩
      · right
        rcases i4 with ⟨j1, j2⟩ | ⟨cv, c', _, j2, _⟩
        · exact ⟨_, c, by simp [lookupLastP, j1, strKey?], hsc, htc, hcvV, by simpa using j2⟩
        · simp at j2
    · -- ignored key: Skip()
      obtain ⟨i1, i2, i3, i4⟩ := topLoop_inv hF hfix rest st st' hrest hcv2
      have hl : leafOk v = true := by
        have h1 := hcv1
        simp only [hm, hb, hc, Bool.false_eq_true, if_false] at h1
        exact h1
      obtain ⟨g, hg, _⟩ := goBox_leaf F hl
      have hkm : (some key == some mName) = false := by simpa using hm
      have hkc : (some key == some columnsName) = false := by simpa using hc
      refine ⟨⟨⟨_, rfl⟩, ⟨g, hg⟩, i1⟩, ?_, ?_, ?_⟩
      · simp only [lookupLastP, i2, strKey?, hbk, Bool.false_eq_true, if_false]
      · rcases i3 with ⟨j1, j2⟩ | ⟨mv, m', j1, j2, j3, j4⟩
        · left; exact ⟨by simp only [lookupLastP, j1, strKey?, hkm, Bool.false_eq_true, if_false], j2⟩
        · right; exact ⟨mv, m', by simp [lookupLastP, j1], j2, j3, j4⟩
      · rcases i4 with ⟨j1, j2⟩ | ⟨cv, c, j1, j2, j3, j4, j5⟩
        · left; exact ⟨by simp only [lookupLastP, j1, strKey?, hkc, Bool.false_eq_true, if_false], j2⟩
        · right; exact ⟨cv, c, by simp [lookupLastP, j1], j2, j3, j4, j5⟩


/-! ## assembly -/

theorem typedOfMV_inv {now : Int} {v : MV} {r : TypedRec} (h : typedOfMV F san now v = some r) :
    ∃ w kvs st m cols n, v = .map w kvs ∧ 2 ≤ kvs.length ∧ typedTopLoop F san kvs {} = some st ∧
      st.meas = some m ∧ st.cols = some (cols, n) ∧ r = typedRecOf m cols n now := by
  cases v with
  | map w kvs =>
    simp only [typedOfMV] at h
    split at h
    · simp at h
    · rename_i hl
      split at h
      · rename_i m cols n hT
        refine ⟨w, kvs, _, m, cols, n, rfl, by omega, hT, rfl, rfl, ?_⟩
        unfold typedRecOf
        split at h <;> rename_i hh <;> simp [hh] at h ⊢ <;> exact h.symm
      · simp at h
  | _ => simp [typedOfMV] at h

/-- **hit_agrees under the carve-out.** -/
theorem hit_agrees (hF : FloatLaws F) (hfix : nonArrayDupFallsBack = true) (now : Int) (b : Bytes)
    (r : TypedRec) (hcarve : Carve b = true) (h : typedPath F san now b = some r) :
    ∃ r', genericPath F san now b = .ok [.col r'] ∧ maskRec r' = maskRec r := by
  unfold typedPath at h
  cases hd : decode b with
  | none => simp [hd] at h
  | some vr =>
    obtain ⟨v, brest⟩ := vr
    simp only [hd] at h
    obtain ⟨w, kvs, st, m, cols, n, rfl, hlen, hT, hsm, hsc, rfl⟩ := typedOfMV_inv F san h
    have hcv : topCarve kvs = true := by simpa [Carve, hd] using hcarve
    obtain ⟨hkv, hbatch, hmeas, hcols⟩ := topLoop_inv F san hF hfix kvs {} st hT hcv
    -- measurement
    obtain ⟨mv, hlm, hmv⟩ : ∃ mv, lookupLastP mName kvs = some mv ∧ typedMeas mv = some m := by
      rcases hmeas with ⟨_, j2⟩ | ⟨mv, m', j1, _, j3, j4⟩
      · rw [hsm] at j2; simp at j2
      · rw [hsm] at j4; simp at j4; subst j4; exact ⟨mv, j1, j3⟩
    -- columns
    obtain ⟨cv, hlc, hcvl, hcvc⟩ : ∃ cv, lookupLastP columnsName kvs = some cv ∧
        typedColumnsVal F san cv = some (cols, n) ∧ colsCarveV cv = true := by
      rcases hcols with ⟨_, j2⟩ | ⟨cv, c, j1, _, j3, j4, j5⟩
      · rw [hsc] at j2; simp at j2
      · rw [hsc] at j5; simp at j5; subst j5; exact ⟨cv, j1, j3, j4⟩
    obtain ⟨cw, ckvs, rfl, hcbox, hpay, hA, hAlen, hn, hdist, hconv⟩ :=
      columnsVal_agrees F san hF hfix hcvl hcvc
    have hmbox := typedMeas_box F hmv
    -- the body boxes to a string-keyed map
    have hbox : goBox F (.map w kvs) = .ok (.smap (boxPairs F kvs)) := by
      have hsmap := goBoxSMap_ok F _ hkv
      cases kvs with
      | nil => simp at hlen
      | cons k rest =>
        cases rest with
        | nil => simp at hlen
        | cons v rest =>
          obtain ⟨⟨s, hs⟩, _⟩ := hkv
          obtain ⟨kw, rfl⟩ := strKey_eq hs
          simp [goBox, hsmap]
    have hLb := lookupLast_boxPairs F batchName kvs hkv
    have hLc := lookupLast_boxPairs F columnsName kvs hkv
    have hLm := lookupLast_boxPairs F mName kvs hkv
    rw [hbatch] at hLb; rw [hlc] at hLc; rw [hlm] at hLm
    simp only [Option.map_none, Option.map_some] at hLb hLc hLm
    have hbc : boxT F (.map cw ckvs) = .smap (boxPairs F ckvs) := by simp [boxT, hcbox]
    have hbm : boxT F mv = boxS mv := by simp [boxT, hmbox.1]
    rw [hbc] at hLc; rw [hbm] at hLm
    obtain ⟨rec, r', hdecC, hty, hmask⟩ :=
      columnar_agrees F san hF (arrayCols ckvs) cols n m (some (boxS mv)) now hA hAlen hn hdist hconv
        hmbox.2
    refine ⟨r', ?_, hmask⟩
    have hfuel : b.length + 2 = (b.length + 1) + 1 := rfl
    simp only [genericPath, unmarshal, hd, hbox, genericOfGo, hfuel, decodeMapPayload, hLb, hLc, hLm,
      hpay, hdecC, hty]

end Arc.C02
