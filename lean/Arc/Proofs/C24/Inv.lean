import Arc.Model.C24
/-! Invariants and helper lemmas for C24 (no `C24_` prefix here). -/
namespace Arc.C24

variable {α : Type} [DecidableEq α]

/-- States reachable from `init` by enabled steps whose events satisfy the side condition `P`
(used to state oracle hypotheses such as `Unforgeable` per step). -/
inductive Reach (cfg : Cfg) (hashFn : Bytes → α) (P : State → Ev α → Prop) : State → Prop
  | init : Reach cfg hashFn P init
  | step {s s' : State} {e : Ev α} : Reach cfg hashFn P s → P s e →
      step cfg hashFn s e = some s' → Reach cfg hashFn P s'

/-- HYPOTHESIS (MAC security): an entry tag verifies only for a (seq, payload) the sender emitted in
this session; a checkpoint HMAC verifies only for a (lastSeq, hash) the sender produced. -/
def Unforgeable (hashFn : Bytes → α) (s : State) : Ev α → Prop
  | .deliverE seq p tagOk _ => tagOk = true → (⟨seq, p⟩ : Entry) ∈ s.sent
  | .deliverC l h _ _ macOk => macOk = true → ∃ c ∈ s.ckpts, c.lastSeq = l ∧ hashFn c.pre = h
  | _ => True

/-- HYPOTHESIS (hash security). -/
def CollisionFree (hashFn : Bytes → α) : Prop := ∀ a b, hashFn a = hashFn b → a = b

/-- ordered-channel carve-out per event (+ payloads are non-empty: the running hash is over the
concatenation of payloads, so an empty payload is invisible to it). -/
def Carve (cfg : Cfg) : Ev α → Prop
  | .assign t p => (cfg.atomic = true ∨ t = 0) ∧ p ≠ []
  | _ => True

/-- no local apply failure on the reader. -/
def Clean : Ev α → Prop
  | .deliverE _ _ _ applyOk => applyOk = true
  | _ => True

/-- decidable carve-out of the healthy-connection theorem. -/
def fromZero : HEv → Bool
  | .assign t _ => t == 0
  | _ => true

def HCarve (cfg : Cfg) (tr : List HEv) : Bool := cfg.atomic || tr.all fromZero

end Arc.C24

namespace Arc.C24
variable {α : Type} [DecidableEq α]

theorem reach_induct {cfg : Cfg} {hashFn : Bytes → α} {P : State → Ev α → Prop} {Inv : State → Prop}
    (h0 : Inv init)
    (hs : ∀ s s' e, Reach cfg hashFn P s → Inv s → P s e → step cfg hashFn s e = some s' → Inv s')
    {s : State} (h : Reach cfg hashFn P s) : Inv s := by
  induction h with
  | init => exact h0
  | step hr hp hst ih => exact hs _ _ _ hr ih hp hst

theorem reach_mono {cfg : Cfg} {hashFn : Bytes → α} {P Q : State → Ev α → Prop}
    (hpq : ∀ s e, P s e → Q s e) {s : State} (h : Reach cfg hashFn P s) : Reach cfg hashFn Q s := by
  induction h with
  | init => exact .init
  | step _ hp hst ih => exact .step ih (hpq _ _ hp) hst

/-- what one step can do to the reader's applied log / lastSeq. -/
theorem step_applied {cfg : Cfg} {hashFn : Bytes → α} {s s' : State} {e : Ev α}
    (h : step cfg hashFn s e = some s') :
    (s'.applied = s.applied ∧ s'.lastSeq = s.lastSeq) ∨
    (∃ seq p tagOk, e = .deliverE seq p tagOk true ∧ tagOk = true ∧ s.conn = true ∧ s.lastSeq < seq ∧
      s'.applied = s.applied ++ [⟨seq, p⟩] ∧ s'.lastSeq = seq) := by
  cases e with
  | assign t p => simp only [step] at h; split at h <;> simp at h; subst h; simp [doAssign]
  | enqueue t =>
    simp only [step] at h; split at h <;> simp at h; subst h
    simp only [doEnqueue]; split <;> simp
  | dist =>
    simp only [step] at h; split at h <;> simp at h; subst h
    simp only [doDist]; split <;> (try split) <;> simp
  | connect => simp [step] at h; subst h; simp [doConnect]
  | detach => simp [step] at h; subst h; simp
  | deliverE seq p tagOk applyOk =>
    simp only [step] at h; split at h <;> simp at h; subst h
    rename_i hc
    simp only [recvEntry]
    by_cases ht : tagOk = true
    · by_cases hq : seq ≤ s.lastSeq
      · simp [ht, hq, dropConn]
      · by_cases ha : applyOk = true
        · right; subst ht; subst ha
          exact ⟨seq, p, true, rfl, rfl, hc, by omega, by simp [hq], by simp [hq]⟩
        · simp [ht, hq, ha]
    · simp [ht, dropConn]
  | deliverC l hv c f m =>
    simp only [step] at h; split at h <;> simp at h; subst h
    simp only [recvCkpt]; repeat' split
    all_goals simp [dropConn]
  | deliverBad => simp only [step] at h; split at h <;> simp at h; subst h; simp [dropConn]
  | close => simp only [step] at h; split at h <;> simp at h; subst h; simp [dropConn]


theorem applied_sorted (cfg : Cfg) (hashFn : Bytes → α) (s : State)
    (h : Reach cfg hashFn (fun _ _ => True) s) :
    s.applied.Pairwise (fun a b => a.seq < b.seq) ∧ ∀ e ∈ s.applied, e.seq ≤ s.lastSeq := by
  refine reach_induct (Inv := fun s => s.applied.Pairwise (fun a b => a.seq < b.seq) ∧
      ∀ e ∈ s.applied, e.seq ≤ s.lastSeq) ?_ ?_ h
  · simp [init]
  · intro s s' e _ ih _ hst
    rcases step_applied hst with ⟨ha, hl⟩ | ⟨seq, p, _, _, _, _, hlt, ha, hl⟩
    · rw [ha, hl]; exact ih
    · rw [ha, hl]
      refine ⟨?_, ?_⟩
      · rw [List.pairwise_append]
        refine ⟨ih.1, by simp, ?_⟩
        intro a ha b hb
        simp at hb; subst hb
        have := ih.2 a ha
        show a.seq < seq
        omega
      · intro e he
        simp at he
        rcases he with he | he
        · have := ih.2 e he; omega
        · subst he; exact Nat.le_refl _

theorem no_replay (cfg : Cfg) (hashFn : Bytes → α) (s : State)
    (h : Reach cfg hashFn (fun _ _ => True) s) (e : Entry) (he : e ∈ s.applied)
    (p : Bytes) (tagOk applyOk : Bool) :
    (recvEntry s e.seq p tagOk applyOk).applied = s.applied ∧
    (s.applied.map (·.seq)).Nodup := by
  have hs := applied_sorted cfg hashFn s h
  refine ⟨?_, ?_⟩
  · have hle := hs.2 e he
    simp only [recvEntry]
    by_cases ht : tagOk = true
    · simp [ht, hle, dropConn]
    · simp [ht, dropConn]
  · have : (s.applied.map (·.seq)).Pairwise (· < ·) := by
      rw [List.pairwise_map]; exact hs.1
    exact this.imp (fun h => Nat.ne_of_lt h)


/-! ### structural invariant of the writer side -/

theorem lookup_none_not_mem {β : Type} (t : Nat) (l : List (Nat × β)) (h : l.lookup t = none) :
    t ∉ l.map (·.1) := by
  induction l with
  | nil => simp
  | cons a rest ih =>
    obtain ⟨a1, a2⟩ := a
    simp only [List.lookup] at h
    split at h
    · simp at h
    · rename_i hne
      simp only [List.map, List.mem_cons, not_or]
      exact ⟨by simpa using hne, ih h⟩

theorem lookup_some_mem {β : Type} (t : Nat) (l : List (Nat × β)) (e : β) (h : l.lookup t = some e) :
    (t, e) ∈ l := by
  induction l with
  | nil => simp at h
  | cons a rest ih =>
    obtain ⟨a1, a2⟩ := a
    simp only [List.lookup] at h
    split at h
    · rename_i heq
      simp at h; subst h
      have : t = a1 := by simpa using heq
      subst this; simp
    · exact List.mem_cons_of_mem _ (ih h)

theorem nodup_keys_unique {β : Type} (l : List (Nat × β)) (hn : (l.map (·.1)).Nodup)
    (x y : Nat × β) (hx : x ∈ l) (hy : y ∈ l) (hk : x.1 = y.1) : x = y := by
  induction l with
  | nil => simp at hx
  | cons a rest ih =>
    simp only [List.map, List.nodup_cons] at hn
    simp only [List.mem_cons] at hx hy
    rcases hx with hx | hx <;> rcases hy with hy | hy
    · rw [hx, hy]
    · exfalso; apply hn.1; subst hx; rw [hk]; exact List.mem_map_of_mem hy
    · exfalso; apply hn.1; subst hy; rw [← hk]; exact List.mem_map_of_mem hx
    · exact ih hn.2 hx hy

structure Struct (s : State) : Prop where
  fifo : s.queued = s.dist ++ s.queue
  seg : ∃ pre post, s.dist = pre ++ s.sent ++ post ∧ (s.active = true → post = [])
  qbound : ∀ e ∈ s.queued, 1 ≤ e.seq ∧ e.seq ≤ s.ctr
  hbound : ∀ x ∈ s.holding, 1 ≤ x.2.seq ∧ x.2.seq ≤ s.ctr
  hkeys : (s.holding.map (·.1)).Nodup
  acct : ∀ n, 1 ≤ n → n ≤ s.ctr →
    n ∈ s.queued.map (·.seq) ∨ n ∈ s.dropped ∨ n ∈ s.holding.map (·.2.seq)

theorem struct_init : Struct init := by
  refine ⟨rfl, ⟨[], [], rfl, fun _ => rfl⟩, ?_, ?_, ?_, ?_⟩ <;> simp [init]
  intro n h1 h2; omega

theorem struct_step {cfg : Cfg} {hashFn : Bytes → α} {s s' : State} {e : Ev α}
    (I : Struct s) (h : step cfg hashFn s e = some s') : Struct s' := by
  obtain ⟨fifo, ⟨pre, post, hseg, hpost⟩, qb, hb, hk, acct⟩ := I
  cases e with
  | assign t p =>
    simp only [step] at h; split at h <;> simp at h; subst h
    rename_i hc
    simp only [canAssign, holds, Bool.and_eq_true, Option.isNone_iff_eq_none] at hc
    refine ⟨fifo, ⟨pre, post, hseg, hpost⟩, ?_, ?_, ?_, ?_⟩
    · intro e he; have := qb e he; simp [doAssign]; omega
    · intro x hx
      simp only [doAssign, List.mem_cons] at hx ⊢
      rcases hx with hx | hx
      · subst hx; simp
      · have := hb x hx; omega
    · simp only [doAssign, List.map, List.nodup_cons]
      exact ⟨lookup_none_not_mem t _ hc.1, hk⟩
    · intro n h1 h2
      simp only [doAssign] at h2 ⊢
      by_cases hn : n = s.ctr + 1
      · right; right; simp [hn]
      · rcases acct n h1 (by omega) with h | h | h
        · exact Or.inl h
        · exact Or.inr (Or.inl h)
        · right; right; simp only [List.map, List.mem_cons]; exact Or.inr h
  | enqueue t =>
    simp only [step] at h; split at h <;> simp at h; subst h
    rename_i e hl
    have hmem := lookup_some_mem t _ e hl
    have hbe := hb _ hmem
    have hsub : ∀ x ∈ unhold s t, x ∈ s.holding := fun x hx => (List.mem_filter.mp hx).1
    have hk' : ((unhold s t).map (·.1)).Nodup :=
      (List.Sublist.map _ List.filter_sublist).nodup hk
    have hacct : ∀ n, n ∈ s.holding.map (·.2.seq) → n = e.seq ∨ n ∈ (unhold s t).map (·.2.seq) := by
      intro n hn
      obtain ⟨x, hx, rfl⟩ := List.mem_map.mp hn
      by_cases hxt : x.1 = t
      · left
        have := nodup_keys_unique _ hk x (t, e) hx hmem hxt
        rw [this]
      · right
        exact List.mem_map_of_mem (List.mem_filter.mpr ⟨hx, by simpa using hxt⟩)
    simp only [doEnqueue]
    split
    · refine ⟨?_, ⟨pre, post, hseg, hpost⟩, ?_, ?_, hk', ?_⟩
      · simp [fifo]
      · intro x hx
        simp only [List.mem_append, List.mem_singleton] at hx
        rcases hx with hx | hx
        · exact qb x hx
        · subst hx; exact hbe
      · intro x hx; exact hb x (hsub x hx)
      · intro n h1 h2
        rcases acct n h1 h2 with h | h | h
        · left; simp only [List.map_append, List.mem_append]; exact Or.inl h
        · exact Or.inr (Or.inl h)
        · rcases hacct n h with h | h
          · left; simp [h]
          · exact Or.inr (Or.inr h)
    · refine ⟨fifo, ⟨pre, post, hseg, hpost⟩, qb, ?_, hk', ?_⟩
      · intro x hx; exact hb x (hsub x hx)
      · intro n h1 h2
        rcases acct n h1 h2 with h | h | h
        · exact Or.inl h
        · right; left; simp only [List.mem_append]; exact Or.inl h
        · rcases hacct n h with h | h
          · right; left; simp [h]
          · exact Or.inr (Or.inr h)
  | dist =>
    simp only [step] at h; split at h <;> simp at h; subst h
    rename_i e rest hq
    have hf : s.queued = (s.dist ++ [e]) ++ rest := by simp [fifo, hq]
    simp only [doDist]
    by_cases ha : s.active = true
    · have hp := hpost ha
      subst hp
      have hseg' : s.dist ++ [e] = pre ++ (s.sent ++ [e]) ++ [] := by simp [hseg]
      simp only [ha, Bool.not_true, Bool.false_eq_true, ↓reduceIte]
      split
      · exact ⟨hf, ⟨pre, [], hseg', fun _ => rfl⟩, qb, hb, hk, acct⟩
      · exact ⟨hf, ⟨pre, [], hseg', fun _ => rfl⟩, qb, hb, hk, acct⟩
    · have ha' : s.active = false := by simpa using ha
      simp only [ha', Bool.not_false, ↓reduceIte]
      refine ⟨hf, ⟨pre, post ++ [e], ?_, ?_⟩, qb, hb, hk, acct⟩
      · simp [hseg]
      · intro h; simp at h
  | connect =>
    simp [step] at h; subst h
    exact ⟨fifo, ⟨s.dist, [], by simp [doConnect], fun _ => rfl⟩, qb, hb, hk, acct⟩
  | detach =>
    simp [step] at h; subst h
    exact ⟨fifo, ⟨pre, post, hseg, by simp⟩, qb, hb, hk, acct⟩
  | deliverE seq p tagOk applyOk =>
    simp only [step] at h; split at h <;> simp at h; subst h
    simp only [recvEntry]
    repeat' split
    all_goals exact ⟨fifo, ⟨pre, post, hseg, hpost⟩, qb, hb, hk, acct⟩
  | deliverC l hv c f m =>
    simp only [step] at h; split at h <;> simp at h; subst h
    simp only [recvCkpt]
    repeat' split
    all_goals exact ⟨fifo, ⟨pre, post, hseg, hpost⟩, qb, hb, hk, acct⟩
  | deliverBad =>
    simp only [step] at h; split at h <;> simp at h; subst h
    exact ⟨fifo, ⟨pre, post, hseg, hpost⟩, qb, hb, hk, acct⟩
  | close =>
    simp only [step] at h; split at h <;> simp at h; subst h
    exact ⟨fifo, ⟨pre, post, hseg, hpost⟩, qb, hb, hk, acct⟩

theorem struct_reach {cfg : Cfg} {hashFn : Bytes → α} {P : State → Ev α → Prop} {s : State}
    (h : Reach cfg hashFn P s) : Struct s :=
  reach_induct struct_init (fun _ _ _ _ ih _ hst => struct_step ih hst) h

theorem drops_reported (cfg : Cfg) (hashFn : Bytes → α) (s : State)
    (h : Reach cfg hashFn (fun _ _ => True) s) :
    (∀ n, 1 ≤ n → n ≤ s.ctr →
      n ∈ s.queued.map (·.seq) ∨ n ∈ s.dropped ∨ n ∈ s.holding.map (·.2.seq)) ∧
    s.queued = s.dist ++ s.queue ∧ (∃ pre post, s.dist = pre ++ s.sent ++ post) := by
  have I := struct_reach h
  obtain ⟨pre, post, hseg, _⟩ := I.seg
  exact ⟨I.acct, I.fifo, pre, post, hseg⟩


theorem step_queued_mono {cfg : Cfg} {hashFn : Bytes → α} {s s' : State} {e : Ev α}
    (h : step cfg hashFn s e = some s') (x : Entry) (hx : x ∈ s.queued) : x ∈ s'.queued := by
  cases e with
  | assign t p => simp only [step] at h; split at h <;> simp at h; subst h; simpa [doAssign] using hx
  | enqueue t =>
    simp only [step] at h; split at h <;> simp at h; subst h
    simp only [doEnqueue]; split
    · simp only [List.mem_append]; exact Or.inl hx
    · exact hx
  | dist =>
    simp only [step] at h; split at h <;> simp at h; subst h
    simp only [doDist]; repeat' split
    all_goals exact hx
  | connect => simp [step] at h; subst h; simpa [doConnect] using hx
  | detach => simp [step] at h; subst h; exact hx
  | deliverE seq p tagOk applyOk =>
    simp only [step] at h; split at h <;> simp at h; subst h
    simp only [recvEntry]; repeat' split
    all_goals exact hx
  | deliverC l hv c f m =>
    simp only [step] at h; split at h <;> simp at h; subst h
    simp only [recvCkpt]; repeat' split
    all_goals exact hx
  | deliverBad => simp only [step] at h; split at h <;> simp at h; subst h; exact hx
  | close => simp only [step] at h; split at h <;> simp at h; subst h; exact hx

theorem sent_sub_queued {s : State} (I : Struct s) (x : Entry) (hx : x ∈ s.sent) : x ∈ s.queued := by
  obtain ⟨pre, post, hseg, _⟩ := I.seg
  rw [I.fifo, hseg]
  simp [hx]

theorem authentic (cfg : Cfg) (hashFn : Bytes → α) (s : State)
    (h : Reach cfg hashFn (Unforgeable hashFn) s) :
    (∀ e ∈ s.applied, e ∈ s.queued) ∧ (∀ e ∈ s.queued, 1 ≤ e.seq ∧ e.seq ≤ s.ctr) := by
  refine ⟨?_, (struct_reach h).qbound⟩
  refine reach_induct (Inv := fun s => ∀ e ∈ s.applied, e ∈ s.queued) ?_ ?_ h
  · simp [init]
  · intro s s' e hr ih hp hst
    have I := struct_reach hr
    rcases step_applied hst with ⟨ha, _⟩ | ⟨seq, p, tagOk, he, ht, _, _, ha, _⟩
    · intro x hx; rw [ha] at hx; exact step_queued_mono hst x (ih x hx)
    · intro x hx
      rw [ha] at hx
      simp only [List.mem_append, List.mem_singleton] at hx
      rcases hx with hx | hx
      · exact step_queued_mono hst x (ih x hx)
      · subst hx; subst he
        have : (⟨seq, p⟩ : Entry) ∈ s.sent := hp ht
        exact step_queued_mono hst _ (sent_sub_queued I _ this)


/-! ### ordered channel (assignment+enqueue atomic, or a single producer) -/

def ltE (a b : Entry) : Prop := a.seq < b.seq

structure Ordered (cfg : Cfg) (s : State) : Prop where
  one : s.holding.length ≤ 1
  zero : cfg.atomic = false → ∀ x ∈ s.holding, x.1 = 0
  sorted : s.queued.Pairwise ltE
  above : ∀ x ∈ s.holding, ∀ e ∈ s.queued, e.seq < x.2.seq

/-- per-event side condition: an `assign` comes from thread 0 unless the critical section is atomic. -/
def OrdOK (cfg : Cfg) : Ev α → Prop
  | .assign t _ => cfg.atomic = true ∨ t = 0
  | _ => True

theorem ordered_init (cfg : Cfg) : Ordered cfg init := by
  refine ⟨?_, ?_, ?_, ?_⟩ <;> simp [init]

theorem assign_holding_nil {cfg : Cfg} {s : State} {t : Nat} (O : Ordered cfg s)
    (hok : cfg.atomic = true ∨ t = 0) (hc : canAssign cfg s t = true) : s.holding = [] := by
  simp only [canAssign, holds, Bool.and_eq_true, Option.isNone_iff_eq_none, Bool.or_eq_true,
    Bool.not_eq_true'] at hc
  rcases hc.2 with ha | he
  · rcases hok with hat | ht
    · rw [hat] at ha; cases ha
    · subst ht
      match hh : s.holding with
      | [] => rfl
      | x :: rest =>
        exfalso
        have hx : x ∈ s.holding := by rw [hh]; simp
        have h0 := O.zero ha x hx
        have := lookup_none_not_mem 0 s.holding hc.1
        apply this
        rw [← h0]; exact List.mem_map_of_mem hx
  · simpa using he

theorem ordered_step {cfg : Cfg} {hashFn : Bytes → α} {s s' : State} {e : Ev α}
    (I : Struct s) (O : Ordered cfg s) (hok : OrdOK cfg e)
    (h : step cfg hashFn s e = some s') : Ordered cfg s' := by
  cases e with
  | assign t p =>
    simp only [step] at h; split at h <;> simp at h; subst h
    rename_i hc
    have hnil := assign_holding_nil O hok hc
    refine ⟨?_, ?_, ?_, ?_⟩
    · simp [doAssign, hnil]
    · intro ha x hx
      simp only [doAssign, hnil, List.mem_singleton] at hx
      subst hx
      rcases hok with h | h
      · rw [h] at ha; cases ha
      · exact h
    · simpa [doAssign] using O.sorted
    · intro x hx e he
      simp only [doAssign, hnil, List.mem_singleton] at hx he
      subst hx
      have := (I.qbound e he).2
      show e.seq < s.ctr + 1
      omega
  | enqueue t =>
    simp only [step] at h; split at h <;> simp at h; subst h
    rename_i e hl
    have hmem := lookup_some_mem t _ e hl
    have hun : unhold s t = [] := by
      have h1 := O.one
      match hh : s.holding, h1, hmem with
      | [x], _, hm =>
        simp only [List.mem_singleton] at hm
        subst hm
        simp [unhold, hh]
      | [], _, hm => simp at hm
      | _ :: _ :: _, h1, _ => simp at h1
    simp only [doEnqueue]
    split
    · refine ⟨by simp [hun], by simp [hun], ?_, by simp [hun]⟩
      show (s.queued ++ [e]).Pairwise ltE
      rw [List.pairwise_append]
      refine ⟨O.sorted, by simp, ?_⟩
      intro a ha b hb
      simp only [List.mem_singleton] at hb; subst hb
      exact O.above _ hmem a ha
    · exact ⟨by simp [hun], by simp [hun], O.sorted, by simp [hun]⟩
  | dist =>
    simp only [step] at h; split at h <;> simp at h; subst h
    simp only [doDist]; repeat' split
    all_goals exact ⟨O.one, O.zero, O.sorted, O.above⟩
  | connect => simp [step] at h; subst h; exact ⟨O.one, O.zero, O.sorted, O.above⟩
  | detach => simp [step] at h; subst h; exact ⟨O.one, O.zero, O.sorted, O.above⟩
  | deliverE seq p tagOk applyOk =>
    simp only [step] at h; split at h <;> simp at h; subst h
    simp only [recvEntry]; repeat' split
    all_goals exact ⟨O.one, O.zero, O.sorted, O.above⟩
  | deliverC l hv c f m =>
    simp only [step] at h; split at h <;> simp at h; subst h
    simp only [recvCkpt]; repeat' split
    all_goals exact ⟨O.one, O.zero, O.sorted, O.above⟩
  | deliverBad => simp only [step] at h; split at h <;> simp at h; subst h; exact ⟨O.one, O.zero, O.sorted, O.above⟩
  | close => simp only [step] at h; split at h <;> simp at h; subst h; exact ⟨O.one, O.zero, O.sorted, O.above⟩

end Arc.C24
