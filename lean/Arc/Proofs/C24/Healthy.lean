import Arc.Proofs.C24.Inv
/-! Healthy-wire invariant for C24 (`hrun`). -/
namespace Arc.C24
variable {α : Type} [DecidableEq α]

structure HInv (cfg : Cfg) (s : State) : Prop where
  st : Struct s
  ord : Ordered cfg s
  nodrop : s.lastDrop = none
  ca : s.conn = s.active
  sync : s.conn = true → s.fed = s.sent ∧ s.appliedS = s.sent
  last : s.lastSeq = 0 ∨ ∃ d ∈ s.dist, d.seq = s.lastSeq

theorem struct_congr {s s' : State}
    (h : s'.queued = s.queued ∧ s'.dist = s.dist ∧ s'.queue = s.queue ∧ s'.sent = s.sent ∧
      s'.active = s.active ∧ s'.ctr = s.ctr ∧ s'.holding = s.holding ∧ s'.dropped = s.dropped)
    (I : Struct s) : Struct s' := by
  obtain ⟨h1, h2, h3, h4, h5, h6, h7, h8⟩ := h
  obtain ⟨fifo, seg, qb, hb, hk, acct⟩ := I
  refine ⟨?_, ?_, ?_, ?_, ?_, ?_⟩
  · rw [h1, h2, h3]; exact fifo
  · rw [h2, h4, h5]; exact seg
  · rw [h1, h6]; exact qb
  · rw [h7, h6]; exact hb
  · rw [h7]; exact hk
  · rw [h1, h6, h7, h8]; exact acct

theorem ordered_congr {cfg : Cfg} {s s' : State}
    (h : s'.queued = s.queued ∧ s'.holding = s.holding) (O : Ordered cfg s) : Ordered cfg s' := by
  obtain ⟨h1, h2⟩ := h
  obtain ⟨a, b, c, d⟩ := O
  refine ⟨?_, ?_, ?_, ?_⟩
  · rw [h2]; exact a
  · rw [h2]; exact b
  · rw [h1]; exact c
  · rw [h1, h2]; exact d

theorem hinv_init (cfg : Cfg) : HInv cfg init :=
  ⟨struct_init, ordered_init cfg, rfl, rfl, by simp [init], Or.inl rfl⟩

/-- producers do not touch the reader / per-reader sender state. -/
theorem producer_frame {cfg : Cfg} {hashFn : Bytes → α} {s s' : State} {e : Ev α}
    (he : (∃ t p, e = .assign t p) ∨ (∃ t, e = .enqueue t))
    (h : step cfg hashFn s e = some s') :
    s'.lastDrop = s.lastDrop ∧ s'.conn = s.conn ∧ s'.active = s.active ∧ s'.fed = s.fed ∧
    s'.sent = s.sent ∧ s'.appliedS = s.appliedS ∧ s'.lastSeq = s.lastSeq ∧ s'.dist = s.dist := by
  rcases he with ⟨t, p, rfl⟩ | ⟨t, rfl⟩
  · simp only [step] at h; split at h <;> simp at h; subst h; simp [doAssign]
  · simp only [step] at h; split at h <;> simp at h; subst h
    simp only [doEnqueue]; split <;> simp

theorem hinv_producer {cfg : Cfg} {hashFn : Bytes → α} {s s' : State} {e : Ev α}
    (H : HInv cfg s) (he : (∃ t p, e = .assign t p) ∨ (∃ t, e = .enqueue t))
    (hok : OrdOK cfg e) (h : step cfg hashFn s e = some s') : HInv cfg s' := by
  obtain ⟨h1, h2, h3, h4, h5, h6, h7, h8⟩ := producer_frame he h
  refine ⟨struct_step H.st h, ordered_step H.st H.ord hok h, ?_, ?_, ?_, ?_⟩
  · rw [h1]; exact H.nodrop
  · rw [h2, h3]; exact H.ca
  · rw [h2, h4, h5, h6]; exact H.sync
  · rw [h7, h8]; exact H.last

theorem hinv_dist {cfg : Cfg} {hashFn : Bytes → α} {s s' : State}
    (H : HInv cfg s) (h : honestDist cfg hashFn s = some s') : HInv cfg s' := by
  unfold honestDist at h
  split at h
  · simp at h
  · rename_i e rest hq
    have hstep : step cfg hashFn s (Ev.dist (α := α)) = some (doDist cfg s e rest) := by
      simp [step, hq]
    have S1 := struct_step H.st hstep
    have O1 := ordered_step H.st H.ord (by trivial) hstep
    -- e is above lastSeq
    have hgt : s.lastSeq < e.seq := by
      have hemem : e ∈ s.queued := by rw [H.st.fifo, hq]; simp
      rcases H.last with h0 | ⟨d, hd, hds⟩
      · have := (H.st.qbound e hemem).1; omega
      · have hs := H.ord.sorted
        rw [H.st.fifo, hq, List.pairwise_append] at hs
        have := hs.2.2 d hd e (by simp)
        rw [← hds]; exact this
    by_cases hac : s.active = true
    · have hcn : s.conn = true := by rw [H.ca]; exact hac
      obtain ⟨hfed, happ⟩ := H.sync hcn
      simp only [hac, hcn, Bool.and_self, Bool.not_true, Bool.false_eq_true, ↓reduceIte] at h
      -- the two shapes of doDist
      by_cases hck : s.since + 1 ≥ cfg.interval
      · have hd : doDist cfg s e rest =
            { s with queue := rest, dist := s.dist ++ [e], sent := s.sent ++ [e], since := 0,
                     ckpts := s.ckpts ++ [⟨e.seq, flat (s.sent ++ [e]), s.session⟩] } := by
          simp [doDist, hac, hck]
        rw [hd] at h S1 O1
        simp only [recvEntry, hgt, Nat.not_le.mpr hgt, hcn, Bool.not_true, Bool.false_eq_true,
          ↓reduceIte, List.length_append, List.length_cons, List.length_nil, gt_iff_lt,
          Nat.lt_add_one, recvCkpt, ne_eq, not_true_eq_false, hfed, Bool.true_eq_false] at h
        simp at h
        subst h
        refine ⟨struct_congr (by simp) S1, ordered_congr (by simp) O1, H.nodrop, by simp [hac], ?_, ?_⟩
        · intro _; simp [happ]
        · right; exact ⟨e, by simp, rfl⟩
      · have hd : doDist cfg s e rest =
            { s with queue := rest, dist := s.dist ++ [e], sent := s.sent ++ [e],
                     since := s.since + 1 } := by
          simp [doDist, hac, hck]
        rw [hd] at h S1 O1
        simp only [recvEntry, hgt, Nat.not_le.mpr hgt, hcn, Bool.not_true, Bool.false_eq_true,
          ↓reduceIte, gt_iff_lt, Nat.lt_irrefl] at h
        simp at h
        subst h
        refine ⟨struct_congr (by simp) S1, ordered_congr (by simp) O1, H.nodrop, by simp [hac], ?_, ?_⟩
        · intro _; simp [hfed, happ]
        · right; exact ⟨e, by simp, rfl⟩
    · have hac' : s.active = false := by simpa using hac
      have hcn : s.conn = false := by rw [H.ca]; exact hac'
      simp only [hac', hcn, Bool.and_self, Bool.not_false, ↓reduceIte] at h
      simp at h
      subst h
      have hd : doDist cfg s e rest = { s with queue := rest, dist := s.dist ++ [e] } := by
        simp [doDist, hac']
      rw [hd] at S1 O1 ⊢
      refine ⟨S1, ⟨O1.one, O1.zero, O1.sorted, O1.above⟩, H.nodrop, H.ca, ?_, ?_⟩
      · intro hc; simp [hcn] at hc
      · rcases H.last with h0 | ⟨d, hd', hds⟩
        · exact Or.inl h0
        · right; exact ⟨d, by simp [hd'], hds⟩

theorem hinv_hstep {cfg : Cfg} {hashFn : Bytes → α} {s s' : State} {e : HEv}
    (H : HInv cfg s)
    (hok : cfg.atomic = true ∨ fromZero e = true)
    (h : hstep cfg hashFn s e = some s') : HInv cfg s' := by
  cases e with
  | assign t p =>
    have h' : step cfg hashFn s (Ev.assign (α := α) t p) = some s' := h
    refine hinv_producer H (Or.inl ⟨t, p, rfl⟩) ?_ h'
    rcases hok with h | h
    · exact Or.inl h
    · right; simpa [fromZero] using h
  | enqueue t =>
    have h' : step cfg hashFn s (Ev.enqueue (α := α) t) = some s' := h
    exact hinv_producer H (Or.inr ⟨t, rfl⟩) (by trivial) h'
  | dist => exact hinv_dist H h
  | connect =>
    simp only [hstep] at h
    split at h <;> simp at h
    subst h
    have hst : step cfg hashFn s (Ev.connect (α := α)) = some (doConnect s) := by simp [step]
    have S1 := struct_step H.st hst
    have O1 := ordered_step H.st H.ord (by trivial) hst
    exact ⟨S1, O1, by simp [doConnect], by simp [doConnect], by simp [doConnect],
      by simpa [doConnect] using H.last⟩

theorem hinv_hrun {cfg : Cfg} {hashFn : Bytes → α} (tr : List HEv) (s s' : State)
    (H : HInv cfg s) (hc : HCarve cfg tr = true) (h : hrun cfg hashFn s tr = some s') :
    HInv cfg s' := by
  induction tr generalizing s with
  | nil => simp [hrun] at h; subst h; exact H
  | cons e es ih =>
    simp only [hrun] at h
    split at h
    · rename_i s1 hs1
      have hc' : HCarve cfg es = true := by
        simp only [HCarve, Bool.or_eq_true, List.all_cons, Bool.and_eq_true] at hc ⊢
        rcases hc with h | h
        · exact Or.inl h
        · exact Or.inr h.2
      have hok : cfg.atomic = true ∨ fromZero e = true := by
        simp only [HCarve, Bool.or_eq_true, List.all_cons, Bool.and_eq_true] at hc
        rcases hc with h | h
        · exact Or.inl h
        · exact Or.inr h.1
      exact ih s1 (hinv_hstep H hok hs1) hc' h
    · simp at h

theorem healthy (cfg : Cfg) (hashFn : Bytes → α) (_hint : 1 ≤ cfg.interval)
    (tr : List HEv) (s : State)
    (hc : HCarve cfg tr = true) (hr : hrun cfg hashFn init tr = some s) :
    s.lastDrop = none ∧ (s.conn = true → s.appliedS = s.sent) := by
  have H := hinv_hrun tr init s (hinv_init cfg) hc hr
  exact ⟨H.nodrop, fun h => (H.sync h).2⟩

end Arc.C24
