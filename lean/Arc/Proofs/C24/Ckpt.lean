import Arc.Proofs.C24.Healthy
/-! Gap-freedom at a verified checkpoint (C24). -/
namespace Arc.C24
variable {α : Type} [DecidableEq α]

/-! ### list lemmas -/

theorem flat_append (a b : List Entry) : flat (a ++ b) = flat a ++ flat b := by
  simp [flat]

theorem flat_len_sublist {l₁ l₂ : List Entry} (h : l₁.Sublist l₂) :
    (flat l₁).length ≤ (flat l₂).length := by
  induction h with
  | slnil => simp
  | cons a _ ih => simp only [flat, List.flatMap_cons, List.length_append] at ih ⊢; omega
  | cons_cons a _ ih => simp only [flat, List.flatMap_cons, List.length_append] at ih ⊢; omega

/-- a sublist with the same concatenated bytes, when no payload is empty, is the whole list. -/
theorem sublist_flat_eq {l₁ l₂ : List Entry} (h : l₁.Sublist l₂)
    (hne : ∀ x ∈ l₂, x.payload ≠ []) (hf : flat l₁ = flat l₂) : l₁ = l₂ := by
  induction h with
  | slnil => rfl
  | @cons l₁ l₂ a hs _ =>
    exfalso
    have h1 := flat_len_sublist hs
    have h2 : (flat l₁).length = a.payload.length + (flat l₂).length := by
      rw [hf]; simp [flat]
    have h3 : a.payload.length ≠ 0 := by
      intro h0; exact hne a (by simp) (List.eq_nil_of_length_eq_zero h0)
    omega
  | @cons_cons l₁ l₂ a hs ih =>
    have : flat l₁ = flat l₂ := by
      simp only [flat, List.flatMap_cons] at hf
      exact List.append_cancel_left hf
    rw [ih (fun x hx => hne x (List.mem_cons_of_mem _ hx)) this]

/-- two lists strictly sorted by sequence number: subset ⇒ sublist. -/
theorem sorted_subset_sublist (l₂ : List Entry) : ∀ (l₁ : List Entry), l₁.Pairwise ltE →
    l₂.Pairwise ltE → (∀ x ∈ l₁, x ∈ l₂) → l₁.Sublist l₂ := by
  induction l₂ with
  | nil =>
    intro l₁ _ _ hs
    cases l₁ with
    | nil => exact .slnil
    | cons a r => exact absurd (hs a (by simp)) (by simp)
  | cons b t ih =>
    intro l₁ h₁ h₂ hs
    cases l₁ with
    | nil => exact List.nil_sublist _
    | cons a r =>
      rw [List.pairwise_cons] at h₁ h₂
      have ha := hs a (by simp)
      simp only [List.mem_cons] at ha
      rcases ha with ha | ha
      · subst ha
        refine .cons_cons _ (ih r h₁.2 h₂.2 ?_)
        intro x hx
        have hx2 := hs x (List.mem_cons_of_mem _ hx)
        simp only [List.mem_cons] at hx2
        rcases hx2 with hx2 | hx2
        · subst hx2
          have := h₁.1 x hx
          exact absurd this (Nat.lt_irrefl _)
        · exact hx2
      · refine .cons _ (ih (a :: r) (List.pairwise_cons.mpr h₁) h₂.2 ?_)
        have hba : b.seq < a.seq := h₂.1 a ha
        intro x hx
        have hx2 := hs x hx
        simp only [List.mem_cons] at hx2 hx
        rcases hx2 with hx2 | hx2
        · subst hx2
          rcases hx with hx | hx
          · subst hx; exact absurd hba (Nat.lt_irrefl _)
          · have : a.seq < x.seq := h₁.1 x hx
            unfold ltE at *
            omega
        · exact hx2

/-! ### sender-side record invariant -/

structure KInv (s : State) : Prop where
  neq : ∀ e ∈ s.queued, e.payload ≠ []
  neh : ∀ x ∈ s.holding, x.2.payload ≠ []
  kpre : ∀ c ∈ s.ckpts, c.pre ≠ []
  ksess : ∀ c ∈ s.ckpts, c.session ≤ s.session
  kcur : ∀ c ∈ s.ckpts, c.session = s.session → ∃ n, 0 < n ∧ n ≤ s.sent.length ∧
    c.pre = flat (s.sent.take n) ∧ ((s.sent.take n).map (·.seq)).getLast? = some c.lastSeq
  kold : ∀ c ∈ s.ckpts, c.session < s.session → ∀ e ∈ s.sent, c.lastSeq < e.seq
  kq : ∀ c ∈ s.ckpts, (∀ e ∈ s.queue, c.lastSeq < e.seq) ∧
    (∀ x ∈ s.holding, c.lastSeq < x.2.seq) ∧ c.lastSeq ≤ s.ctr

structure RInv (s : State) : Prop where
  fa : s.fed = s.appliedS
  asub : ∀ x ∈ s.appliedS, x ∈ s.sent
  asorted : s.appliedS.Pairwise ltE
  ale : ∀ x ∈ s.appliedS, x.seq ≤ s.lastSeq
  alast : s.appliedS = [] ∨ (s.appliedS.map (·.seq)).getLast? = some s.lastSeq

theorem kinv_congr {s s' : State}
    (h : s'.queued = s.queued ∧ s'.holding = s.holding ∧ s'.ckpts = s.ckpts ∧ s'.session = s.session ∧
      s'.sent = s.sent ∧ s'.queue = s.queue ∧ s'.ctr = s.ctr) (K : KInv s) : KInv s' := by
  obtain ⟨h1, h2, h3, h4, h5, h6, h7⟩ := h
  obtain ⟨a, b, c, d, e, f, g⟩ := K
  refine ⟨?_, ?_, ?_, ?_, ?_, ?_, ?_⟩
  · rw [h1]; exact a
  · rw [h2]; exact b
  · rw [h3]; exact c
  · rw [h3, h4]; exact d
  · rw [h3, h4, h5]; exact e
  · rw [h3, h4, h5]; exact f
  · rw [h3, h6, h2, h7]; exact g

theorem rinv_mono {s s' : State}
    (h : s'.fed = s.fed ∧ s'.appliedS = s.appliedS ∧ s'.lastSeq = s.lastSeq ∧ (∀ x ∈ s.sent, x ∈ s'.sent))
    (R : RInv s) : RInv s' := by
  obtain ⟨h1, h2, h3, h4⟩ := h
  obtain ⟨a, b, c, d, e⟩ := R
  refine ⟨?_, ?_, ?_, ?_, ?_⟩
  · rw [h1, h2]; exact a
  · rw [h2]; exact fun x hx => h4 x (b x hx)
  · rw [h2]; exact c
  · rw [h2, h3]; exact d
  · rw [h2, h3]; exact e


theorem kinv_init : KInv init := by
  refine ⟨?_, ?_, ?_, ?_, ?_, ?_, ?_⟩ <;> simp [init]

theorem kinv_step {cfg : Cfg} {hashFn : Bytes → α} {s s' : State} {e : Ev α}
    (I : Struct s) (O : Ordered cfg s) (K : KInv s) (hc : Carve cfg e)
    (h : step cfg hashFn s e = some s') : KInv s' := by
  cases e with
  | assign t p =>
    simp only [step] at h; split at h <;> simp at h; subst h
    obtain ⟨a, b, c, d, e, f, g⟩ := K
    refine ⟨a, ?_, c, d, e, f, ?_⟩
    · intro x hx
      simp only [doAssign, List.mem_cons] at hx
      rcases hx with hx | hx
      · subst hx; exact hc.2
      · exact b x hx
    · intro k hk
      obtain ⟨g1, g2, g3⟩ := g k hk
      refine ⟨g1, ?_, ?_⟩
      · intro x hx
        simp only [doAssign, List.mem_cons] at hx
        rcases hx with hx | hx
        · subst hx; show k.lastSeq < s.ctr + 1; omega
        · exact g2 x hx
      · show k.lastSeq ≤ s.ctr + 1; omega
  | enqueue t =>
    simp only [step] at h; split at h <;> simp at h; subst h
    rename_i e hl
    have hmem := lookup_some_mem t _ e hl
    have hsub : ∀ x ∈ unhold s t, x ∈ s.holding := fun x hx => (List.mem_filter.mp hx).1
    obtain ⟨a, b, c, d, e', f, g⟩ := K
    simp only [doEnqueue]
    split
    · refine ⟨?_, fun x hx => b x (hsub x hx), c, d, e', f, ?_⟩
      · intro x hx
        simp only [List.mem_append, List.mem_singleton] at hx
        rcases hx with hx | hx
        · exact a x hx
        · subst hx; exact b _ hmem
      · intro k hk
        obtain ⟨g1, g2, g3⟩ := g k hk
        refine ⟨?_, fun x hx => g2 x (hsub x hx), g3⟩
        intro x hx
        simp only [List.mem_append, List.mem_singleton] at hx
        rcases hx with hx | hx
        · exact g1 x hx
        · subst hx; exact g2 _ hmem
    · refine ⟨a, fun x hx => b x (hsub x hx), c, d, e', f, ?_⟩
      intro k hk
      obtain ⟨g1, g2, g3⟩ := g k hk
      exact ⟨g1, fun x hx => g2 x (hsub x hx), g3⟩
  | dist =>
    simp only [step] at h; split at h <;> simp at h; subst h
    rename_i e rest hq
    have hemem : e ∈ s.queued := by rw [I.fifo, hq]; simp
    have hrest : ∀ x ∈ rest, x ∈ s.queue := by intro x hx; rw [hq]; exact List.mem_cons_of_mem _ hx
    have hsorted := O.sorted
    rw [I.fifo, hq, List.pairwise_append] at hsorted
    have hrest_gt : ∀ x ∈ rest, e.seq < x.seq := by
      have := hsorted.2.1
      rw [List.pairwise_cons] at this
      exact this.1
    obtain ⟨a, b, c, d, e', f, g⟩ := K
    have gq : ∀ k ∈ s.ckpts, (∀ x ∈ rest, k.lastSeq < x.seq) ∧
        (∀ x ∈ s.holding, k.lastSeq < x.2.seq) ∧ k.lastSeq ≤ s.ctr := by
      intro k hk
      obtain ⟨g1, g2, g3⟩ := g k hk
      exact ⟨fun x hx => g1 x (hrest x hx), g2, g3⟩
    by_cases hac : s.active = true
    · have hcur : ∀ k ∈ s.ckpts, k.session = s.session → ∃ n, 0 < n ∧ n ≤ (s.sent ++ [e]).length ∧
          k.pre = flat ((s.sent ++ [e]).take n) ∧
          (((s.sent ++ [e]).take n).map (·.seq)).getLast? = some k.lastSeq := by
        intro k hk hs
        obtain ⟨n, h0, hn, hp, hl⟩ := e' k hk hs
        refine ⟨n, h0, by simp; omega, ?_, ?_⟩
        · rw [List.take_append_of_le_length hn]; exact hp
        · rw [List.take_append_of_le_length hn]; exact hl
      have hold : ∀ k ∈ s.ckpts, k.session < s.session → ∀ x ∈ s.sent ++ [e], k.lastSeq < x.seq := by
        intro k hk hs x hx
        simp only [List.mem_append, List.mem_singleton] at hx
        rcases hx with hx | hx
        · exact f k hk hs x hx
        · subst hx; exact (g k hk).1 x (by rw [hq]; simp)
      by_cases hck : s.since + 1 ≥ cfg.interval
      · have hd : doDist cfg s e rest =
            { s with queue := rest, dist := s.dist ++ [e], sent := s.sent ++ [e], since := 0,
                     ckpts := s.ckpts ++ [⟨e.seq, flat (s.sent ++ [e]), s.session⟩] } := by
          simp [doDist, hac, hck]
        rw [hd]
        refine ⟨a, b, ?_, ?_, ?_, ?_, ?_⟩
        · intro k hk
          simp only [List.mem_append, List.mem_singleton] at hk
          rcases hk with hk | hk
          · exact c k hk
          · subst hk
            simp only [flat_append]
            intro h0
            have := List.append_eq_nil_iff.mp h0
            have h2 : flat [e] = e.payload := by simp [flat]
            rw [h2] at this
            exact a e hemem this.2
        · intro k hk
          simp only [List.mem_append, List.mem_singleton] at hk
          rcases hk with hk | hk
          · exact d k hk
          · subst hk; exact Nat.le_refl _
        · intro k hk hs
          simp only [List.mem_append, List.mem_singleton] at hk
          rcases hk with hk | hk
          · exact hcur k hk hs
          · subst hk
            have ht : (s.sent ++ [e]).take (s.sent ++ [e]).length = s.sent ++ [e] := List.take_length
            refine ⟨(s.sent ++ [e]).length, by simp, Nat.le_refl _, ?_, ?_⟩
            · show flat (s.sent ++ [e]) = flat ((s.sent ++ [e]).take (s.sent ++ [e]).length)
              rw [ht]
            · show (((s.sent ++ [e]).take (s.sent ++ [e]).length).map (·.seq)).getLast? = some e.seq
              rw [ht]; simp
        · intro k hk hs
          simp only [List.mem_append, List.mem_singleton] at hk
          rcases hk with hk | hk
          · exact hold k hk hs
          · subst hk; exact absurd hs (Nat.lt_irrefl _)
        · intro k hk
          simp only [List.mem_append, List.mem_singleton] at hk
          rcases hk with hk | hk
          · exact gq k hk
          · subst hk
            exact ⟨hrest_gt, fun x hx => O.above x hx e hemem, (I.qbound e hemem).2⟩
      · have hd : doDist cfg s e rest =
            { s with queue := rest, dist := s.dist ++ [e], sent := s.sent ++ [e],
                     since := s.since + 1 } := by
          simp [doDist, hac, hck]
        rw [hd]
        exact ⟨a, b, c, d, hcur, hold, gq⟩
    · have hac' : s.active = false := by simpa using hac
      have hd : doDist cfg s e rest = { s with queue := rest, dist := s.dist ++ [e] } := by
        simp [doDist, hac']
      rw [hd]
      exact ⟨a, b, c, d, e', f, gq⟩
  | connect =>
    simp [step] at h; subst h
    obtain ⟨a, b, c, d, e', f, g⟩ := K
    refine ⟨a, b, c, ?_, ?_, ?_, g⟩
    · intro k hk; have := d k hk; show k.session ≤ s.session + 1; omega
    · intro k hk hs
      have := d k hk
      have hs' : k.session = s.session + 1 := hs
      omega
    · intro k hk _ x hx
      simp [doConnect] at hx
  | detach => simp [step] at h; subst h; exact kinv_congr (by simp) K
  | deliverE seq p tagOk applyOk =>
    simp only [step] at h; split at h <;> simp at h; subst h
    simp only [recvEntry]; repeat' split
    all_goals exact kinv_congr (by simp [dropConn]) K
  | deliverC l hv c f m =>
    simp only [step] at h; split at h <;> simp at h; subst h
    simp only [recvCkpt]; repeat' split
    all_goals exact kinv_congr (by simp [dropConn]) K
  | deliverBad => simp only [step] at h; split at h <;> simp at h; subst h; exact kinv_congr (by simp [dropConn]) K
  | close => simp only [step] at h; split at h <;> simp at h; subst h; exact kinv_congr (by simp [dropConn]) K


theorem rinv_init : RInv init := by
  refine ⟨rfl, ?_, ?_, ?_, Or.inl rfl⟩ <;> simp [init]

theorem rinv_step {cfg : Cfg} {hashFn : Bytes → α} {s s' : State} {e : Ev α}
    (R : RInv s) (hu : Unforgeable hashFn s e) (hcl : Clean e)
    (h : step cfg hashFn s e = some s') : RInv s' := by
  cases e with
  | assign t p =>
    simp only [step] at h; split at h <;> simp at h; subst h
    exact rinv_mono (by simp [doAssign]) R
  | enqueue t =>
    simp only [step] at h; split at h <;> simp at h; subst h
    simp only [doEnqueue]; split <;> exact rinv_mono (by simp) R
  | dist =>
    simp only [step] at h; split at h <;> simp at h; subst h
    simp only [doDist]; repeat' split
    all_goals refine rinv_mono (s := s) ⟨rfl, rfl, rfl, ?_⟩ R
    all_goals intro x hx
    all_goals first | exact hx | (simp only [List.mem_append]; exact Or.inl hx)
  | connect =>
    simp [step] at h; subst h
    refine ⟨rfl, ?_, ?_, ?_, Or.inl rfl⟩ <;> simp [doConnect]
  | detach => simp [step] at h; subst h; exact rinv_mono (by simp) R
  | deliverE seq p tagOk applyOk =>
    simp only [step] at h; split at h <;> simp at h; subst h
    have ha : applyOk = true := hcl
    subst ha
    by_cases ht : tagOk = true
    · subst ht
      by_cases hq : seq ≤ s.lastSeq
      · have hd : recvEntry s seq p true true = dropConn s .seq := by simp [recvEntry, hq]
        rw [hd]
        exact rinv_mono (s := s) (by simp [dropConn]) R
      · have hmem : (⟨seq, p⟩ : Entry) ∈ s.sent := hu rfl
        have hd : recvEntry s seq p true true =
            { s with fed := s.fed ++ [⟨seq, p⟩], appliedS := s.appliedS ++ [⟨seq, p⟩],
                     applied := s.applied ++ [⟨seq, p⟩], lastSeq := seq } := by
          simp [recvEntry, hq]
        rw [hd]
        obtain ⟨a, b, c, d, e⟩ := R
        refine ⟨by simp [a], ?_, ?_, ?_, ?_⟩
        · intro x hx
          simp only [List.mem_append, List.mem_singleton] at hx
          rcases hx with hx | hx
          · exact b x hx
          · subst hx; exact hmem
        · show (s.appliedS ++ [(⟨seq, p⟩ : Entry)]).Pairwise ltE
          rw [List.pairwise_append]
          refine ⟨c, by simp, ?_⟩
          intro x hx y hy
          simp only [List.mem_singleton] at hy; subst hy
          have := d x hx
          show x.seq < seq
          omega
        · intro x hx
          simp only [List.mem_append, List.mem_singleton] at hx
          rcases hx with hx | hx
          · have := d x hx; show x.seq ≤ seq; omega
          · subst hx; exact Nat.le_refl _
        · right; simp
    · have : tagOk = false := by simpa using ht
      subst this
      have hd : recvEntry s seq p false true = dropConn s .tag := by simp [recvEntry]
      rw [hd]
      exact rinv_mono (s := s) (by simp [dropConn]) R
  | deliverC l hv c f m =>
    simp only [step] at h; split at h <;> simp at h; subst h
    simp only [recvCkpt]; repeat' split
    all_goals exact rinv_mono (by simp [dropConn]) R
  | deliverBad => simp only [step] at h; split at h <;> simp at h; subst h; exact rinv_mono (by simp [dropConn]) R
  | close => simp only [step] at h; split at h <;> simp at h; subst h; exact rinv_mono (by simp [dropConn]) R

theorem all_reach {cfg : Cfg} {hashFn : Bytes → α} {s : State}
    (h : Reach cfg hashFn (fun st ev => Unforgeable hashFn st ev ∧ Carve cfg ev ∧ Clean ev) s) :
    Struct s ∧ Ordered cfg s ∧ KInv s ∧ RInv s := by
  refine reach_induct (Inv := fun s => Struct s ∧ Ordered cfg s ∧ KInv s ∧ RInv s)
    ⟨struct_init, ordered_init cfg, kinv_init, rinv_init⟩ ?_ h
  intro s s' e _ ih hp hst
  obtain ⟨I, O, K, R⟩ := ih
  obtain ⟨hu, hc, hcl⟩ := hp
  have hok : OrdOK cfg e := by
    cases e <;> first | trivial | exact hc.1
  exact ⟨struct_step I hst, ordered_step I O hok hst, kinv_step I O K hc hst, rinv_step R hu hcl hst⟩

theorem checkpoint (cfg : Cfg) (hashFn : Bytes → α) (hcf : CollisionFree hashFn) (s s' : State)
    (h : Reach cfg hashFn (fun st ev => Unforgeable hashFn st ev ∧ Carve cfg ev ∧ Clean ev) s)
    (l : Nat) (hv : α) (c f m : Bool)
    (hu : Unforgeable hashFn s (.deliverC l hv c f m))
    (hstep : step cfg hashFn s (.deliverC l hv c f m) = some s') (hok : s'.conn = true) :
    ∃ n, 0 < n ∧ s.appliedS = s.sent.take n ∧ (s.appliedS.map (·.seq)).getLast? = some l := by
  obtain ⟨I, O, K, R⟩ := all_reach h
  -- every check passed
  simp only [step] at hstep
  split at hstep <;> simp at hstep
  subst hstep
  simp only [recvCkpt] at hok
  by_cases h1 : c = true
  case neg => simp [h1, dropConn] at hok
  by_cases h2 : l = s.lastSeq
  case neg => simp [h1, h2, dropConn] at hok
  by_cases h3 : hv = hashFn (flat s.fed)
  case neg => simp [h1, h2, h3, dropConn] at hok
  by_cases h4 : f = true
  case neg => simp [h1, h2, h3, h4, dropConn] at hok
  by_cases h5 : m = true
  case neg => simp [h1, h2, h3, h4, h5, dropConn] at hok
  obtain ⟨k, hk, hkl, hkh⟩ := hu h5
  have hpre : k.pre = flat s.appliedS := by
    rw [← R.fa]; exact hcf _ _ (hkh.trans h3)
  have hlast : k.lastSeq = s.lastSeq := hkl.trans h2
  -- the sender's stream is sorted
  have hsent_sub : s.sent.Sublist s.queued := by
    obtain ⟨pre, post, hseg, _⟩ := I.seg
    rw [I.fifo, hseg]
    exact ((List.sublist_append_right pre s.sent).trans (List.sublist_append_left _ post)).trans
      (List.sublist_append_left _ _)
  have hsorted : s.sent.Pairwise ltE := O.sorted.sublist hsent_sub
  rcases Nat.lt_or_eq_of_le (K.ksess k hk) with hlt | heq
  · exfalso
    rcases R.alast with hnil | hl
    · rw [hnil] at hpre
      exact K.kpre k hk (by simpa [flat] using hpre)
    · have hm := List.mem_of_getLast? hl
      obtain ⟨x, hx, hxs⟩ := List.mem_map.mp hm
      have := K.kold k hk hlt x (R.asub x hx)
      omega
  · obtain ⟨n, h0, hn, hp, hl⟩ := K.kcur k hk heq
    refine ⟨n, h0, ?_, ?_⟩
    · have hT : (s.sent.take n).Pairwise ltE := hsorted.sublist (List.take_sublist n s.sent)
      have hlm := List.mem_of_getLast? hl
      obtain ⟨y, hy, hys⟩ := List.mem_map.mp hlm
      have hsubset : ∀ x ∈ s.appliedS, x ∈ s.sent.take n := by
        intro x hx
        have hxs := R.asub x hx
        rw [← List.take_append_drop n s.sent] at hxs
        simp only [List.mem_append] at hxs
        rcases hxs with hxs | hxs
        · exact hxs
        · exfalso
          have hp2 := hsorted
          rw [← List.take_append_drop n s.sent, List.pairwise_append] at hp2
          have : y.seq < x.seq := hp2.2.2 y hy x hxs
          have := R.ale x hx
          omega
      have hsl := sorted_subset_sublist (s.sent.take n) s.appliedS R.asorted hT hsubset
      apply sublist_flat_eq hsl
      · intro x hx
        exact K.neq x (hsent_sub.subset ((List.take_sublist n s.sent).subset hx))
      · rw [← hpre, hp]
    · rcases R.alast with hnil | hl2
      · exfalso
        rw [hnil] at hpre
        exact K.kpre k hk (by simpa [flat] using hpre)
      · rw [hl2, h2]


/-! ### checked runs (for non-vacuity examples) -/

instance (hashFn : Bytes → α) (s : State) (e : Ev α) : Decidable (Unforgeable hashFn s e) := by
  cases e <;> unfold Unforgeable <;> infer_instance

instance (cfg : Cfg) (e : Ev α) : Decidable (Carve cfg e) := by
  cases e <;> unfold Carve <;> infer_instance

instance (e : Ev α) : Decidable (Clean e) := by
  cases e <;> unfold Clean <;> infer_instance

/-- `run` that also checks the side condition `P` at every step. -/
def runChk (cfg : Cfg) (hashFn : Bytes → α) (P : State → Ev α → Prop) [∀ s e, Decidable (P s e)]
    (s : State) : List (Ev α) → Option State
  | [] => some s
  | e :: es =>
    if P s e then
      match step cfg hashFn s e with
      | some s' => runChk cfg hashFn P s' es
      | none => none
    else none

theorem reach_runChk {cfg : Cfg} {hashFn : Bytes → α} {P : State → Ev α → Prop}
    [∀ s e, Decidable (P s e)] (tr : List (Ev α)) (s₀ s : State) (h₀ : Reach cfg hashFn P s₀)
    (h : runChk cfg hashFn P s₀ tr = some s) : Reach cfg hashFn P s := by
  induction tr generalizing s₀ with
  | nil => simp [runChk] at h; subst h; exact h₀
  | cons e es ih =>
    simp only [runChk] at h
    split at h
    · rename_i hp
      split at h
      · rename_i s1 hs1
        exact ih s1 (.step h₀ hp hs1) h
      · simp at h
    · simp at h

end Arc.C24
