import Arc.Proofs.C04.Basic
/-! C04: the buffer invariant (every buffered batch has columns of one length) is preserved by
every request of the carve-out, and under it no step can panic. -/
namespace Arc.C04
open Arc.Generated.C04

def GoodBuf (l : List Batch) : Prop := ∀ b ∈ l, evenBatch b = true

def Inv (s : St) : Prop := ∀ p ∈ s.bufs, GoodBuf p.2

theorem goodBuf_nil : GoodBuf [] := fun _ h => absurd h List.not_mem_nil

theorem lookup_mem {k : Name} {v : List Batch} : ∀ {l : List (Name × List Batch)}, l.lookup k = some v → (k, v) ∈ l
  | [], h => by simp [List.lookup] at h
  | (k', v') :: rest, h => by
    unfold List.lookup at h
    by_cases hk : k == k'
    · simp only [hk] at h
      have hkk : k = k' := by simpa using hk
      cases h; subst hkk; exact List.mem_cons_self ..
    · simp only [hk] at h
      exact List.mem_cons_of_mem _ (lookup_mem h)

theorem bufGet_good {s : St} (h : Inv s) (k : Name) : GoodBuf (bufGet s k) := by
  unfold bufGet
  cases hl : s.bufs.lookup k with
  | none => exact goodBuf_nil
  | some l => exact h (k, l) (lookup_mem hl)

theorem inv_erase {s : St} (h : Inv s) (k : Name) : Inv (bufErase s k) := by
  intro p hp
  unfold bufErase at hp
  exact h p (List.mem_filter.1 hp).1

theorem inv_set {s : St} (h : Inv s) (k : Name) {l : List Batch} (hl : GoodBuf l) : Inv (bufSet s k l) := by
  intro p hp
  unfold bufSet at hp
  simp only [List.mem_cons] at hp
  rcases hp with rfl | hp
  · exact hl
  · exact h p (List.mem_filter.1 hp).1

theorem inv_applyFlush {s : St} (h : Inv s) (k : Name) (l : List Batch) (r : Option FileOut) :
    Inv (applyFlush s k l r) := by
  cases r <;> exact h

theorem lookup_filter_ne (k : Name) : ∀ (l : List (Name × List Batch)),
    (l.filter (fun p => p.1 != k)).lookup k = none
  | [] => rfl
  | (k', v) :: rest => by
    by_cases hk : k' = k
    · subst hk; simp [List.filter, lookup_filter_ne k' rest]
    · have : (k' != k) = true := by simpa using hk
      have hk2 : (k == k') = false := by simpa using fun h : k = k' => hk h.symm
      simp [List.filter, this, List.lookup, hk2, lookup_filter_ne k rest]

theorem bufGet_erase (s : St) (k : Name) : bufGet (bufErase s k) k = [] := by
  unfold bufGet bufErase
  simp [lookup_filter_ne]

theorem bufGet_applyFlush (s : St) (k k' : Name) (l : List Batch) (r : Option FileOut) :
    bufGet (applyFlush s k' l r) k = bufGet s k := by
  cases r <;> rfl

theorem goodBuf_single {b : Batch} (h : evenBatch b = true) : GoodBuf [b] := by
  intro b' hb'; simp only [List.mem_singleton] at hb'; subst hb'; exact h

theorem goodBuf_snoc {old : List Batch} {b : Batch} (ho : GoodBuf old) (hb : evenBatch b = true) :
    GoodBuf (old ++ [b]) := by
  intro x hx
  rcases List.mem_append.1 hx with h1 | h1
  · exact ho x h1
  · have : x = b := by simpa using h1
    rw [this]; exact hb

theorem syncStage_ok {s : St} (h : Inv s) (k : Name) {b : Batch} (hb : evenBatch b = true) :
    ∃ s1, syncStage s k b = .ok s1 ∧ Inv s1 ∧ GoodBuf (bufGet s1 k ++ [b]) := by
  unfold syncStage
  have hg := bufGet_good h k
  by_cases hc : schemaChanged (bufGet s k) b = true
  · simp only [hc, ↓reduceIte]
    obtain ⟨r, hr⟩ := flushBatches_ok hg
    rw [hr]
    refine ⟨_, rfl, inv_applyFlush (inv_erase h k) _ _ _, ?_⟩
    rw [bufGet_applyFlush, bufGet_erase]
    exact goodBuf_single hb
  · have hc' : schemaChanged (bufGet s k) b = false := by simpa using hc
    simp only [hc', Bool.false_eq_true, ↓reduceIte]
    exact ⟨s, rfl, h, goodBuf_snoc hg hb⟩

theorem appendStage_ok (cfg : Cfg) {s1 : St} (h : Inv s1) (k : Name) {b : Batch}
    (hg : GoodBuf (bufGet s1 k ++ [b])) :
    ∃ s', appendStage cfg s1 k b = .ok (.ok, s') ∧ Inv s' := by
  unfold appendStage
  simp only
  have h2 : Inv ({ s1 with appended := s1.appended + b.nrec } : St) := h
  split
  · obtain ⟨r, hr⟩ := flushBatches_ok hg
    rw [hr]
    exact ⟨_, rfl, inv_applyFlush (inv_erase h2 k) _ _ _⟩
  · exact ⟨_, rfl, inv_set h2 k hg⟩

theorem validDb_len {db : Name} (h : validDb db = true) : db.length ≤ dbNameMaxLen := by
  unfold validDb at h
  cases db with
  | nil => simp at h
  | cons c rest =>
    simp only [Bool.and_eq_true, decide_eq_true_eq] at h
    exact h.1.1

theorem envPanics_false (cfg : Cfg) {db : Name} (h : validDb db = true) : envPanics cfg db = false := by
  have := validDb_len h
  unfold envPanics
  have h2 : ¬ (3 + db.length > envHeaderCap) := by
    unfold dbNameMaxLen at this; unfold envHeaderCap; omega
  simp [h2]

theorem writeBatch_ok (cfg : Cfg) {s : St} (h : Inv s) {db : Name} (hdb : validDb db = true) (meas : Name)
    {b : Batch} (hb : evenBatch b = true) :
    ∃ s', writeBatch cfg s db meas b = .ok (.ok, s') ∧ Inv s' := by
  unfold writeBatch
  simp only [envPanics_false cfg hdb, Bool.false_eq_true, ↓reduceIte]
  obtain ⟨s1, hs1, hi1, hg1⟩ := syncStage_ok h (keyOf db meas) hb
  rw [hs1]
  exact appendStage_ok cfg hi1 _ hg1

/-! ### the carve-out on requests -/

/-- The only thing the no-panic theorem asks of a request: the batches of its TYPED records (typed
msgpack fast path, TLE, CSV, Parquet — built by code outside the model) have columns of one length.
Generic and row records need nothing: `convertColumnsToTyped` itself refuses ragged columns. -/
def CleanRec : Rec → Bool
  | .typed _ b => evenBatch b
  | _ => true

/-- the producer contract of `C04_partial` (decidable; validated by the harness monitor
`ragged-typed-batch`) -/
def CleanReq (r : Req) : Bool := r.recs.all CleanRec

theorem bufferBatch_ok (cfg : Cfg) {s : St} (h : Inv s) {db : Name} (hdb : validDb db = true) (meas : Name)
    {b : Batch} (hb : evenBatch b = true) :
    ∃ o s', bufferBatch cfg s db meas b = .ok (o, s') ∧ Inv s' ∧ (∀ site, o ≠ .reqPanic site) := by
  unfold bufferBatch
  split
  · exact ⟨.reject, s, rfl, h, fun _ hh => by cases hh⟩
  · obtain ⟨s', hw, hi⟩ := writeBatch_ok cfg h hdb meas (b := b) hb
    simp only [hw]
    exact ⟨_, _, rfl, hi, fun _ hh => by cases hh⟩

theorem writeRec_ok (cfg : Cfg) {s : St} (h : Inv s) {db : Name} (hdb : validDb db = true) {r : Rec}
    (hr : CleanRec r = true) :
    ∃ o s', writeRec cfg s db r = .ok (o, s') ∧ Inv s' ∧ (∀ site, o ≠ .reqPanic site) := by
  cases r with
  | nested => exact ⟨.reject, s, rfl, h, fun _ hh => by cases hh⟩
  | typed meas b =>
    simp only [writeRec]
    exact bufferBatch_ok cfg h hdb meas (b := b) hr
  | generic meas cols times nrec =>
    simp only [writeRec]
    cases hc : convert cols times nrec with
    | none => exact ⟨_, _, rfl, h, fun _ hh => by cases hh⟩
    | some b => exact bufferBatch_ok cfg h hdb meas (b := b) (convert_even hc)
  | rows meas rows times nrec =>
    simp only [writeRec]
    cases hc : convert (rowsToColumnar rows) times nrec with
    | none => exact ⟨_, _, rfl, h, fun _ hh => by cases hh⟩
    | some b => exact bufferBatch_ok cfg h hdb meas (b := b) (convert_even hc)

theorem writeRecs_ok (cfg : Cfg) {db : Name} (hdb : validDb db = true) :
    ∀ (recs : List Rec) {s : St} (added : Nat), Inv s → (∀ r ∈ recs, CleanRec r = true) →
    ∃ resp s', writeRecs cfg db s added recs = .ok (resp, s') ∧ Inv s' ∧ resp.panic = none
  | [], s, added, h, _ => ⟨_, _, rfl, h, rfl⟩
  | r :: rest, s, added, h, hr => by
    obtain ⟨o, s', hw, hi, hno⟩ := writeRec_ok cfg h hdb (hr r (List.mem_cons_self ..))
    unfold writeRecs
    rw [hw]
    cases o with
    | ok n => exact writeRecs_ok cfg hdb rest _ hi (fun r' hr' => hr r' (List.mem_cons_of_mem _ hr'))
    | reject => exact ⟨_, _, rfl, hi, rfl⟩
    | reqPanic site => exact absurd rfl (hno site)

theorem flushAll_ok : ∀ (L : List (Name × List Batch)) (s : St) (err : Bool),
    (∀ p ∈ L, GoodBuf p.2) → Inv s → ∃ e s', flushAll L s err = (e, none, s') ∧ Inv s'
  | [], s, err, _, h => ⟨_, _, rfl, h⟩
  | (k, l) :: rest, s, err, hL, h => by
    have hg := hL (k, l) (List.mem_cons_self ..)
    obtain ⟨r, hr⟩ := flushBatches_ok hg
    unfold flushAll
    rw [hr]
    exact flushAll_ok rest _ _ (fun p hp => hL p (List.mem_cons_of_mem _ hp))
      (inv_applyFlush (inv_erase h k) _ _ _)

theorem step_ok (cfg : Cfg) {s : St} (h : Inv s) {r : Req} (hr : CleanReq r = true) :
    ∃ resp s', step cfg s r = .ok (resp, s') ∧ Inv s' ∧ resp.panic = none := by
  unfold step
  cases hp : r.pre with
  | some st => exact ⟨_, _, rfl, h, rfl⟩
  | none =>
    simp only
    by_cases hdb : validDb r.db = true
    · simp only [hdb, Bool.not_true, Bool.false_eq_true, ↓reduceIte]
      split
      · exact ⟨_, _, rfl, h, rfl⟩
      · unfold CleanReq at hr
        simp only [List.all_eq_true] at hr
        obtain ⟨resp, s1, hw, hi, hn⟩ := writeRecs_ok cfg hdb r.recs 0 h hr
        rw [hw]
        simp only
        split
        · exact ⟨_, _, rfl, hi, hn⟩
        · obtain ⟨e, s2, hf, hi2⟩ := flushAll_ok s1.bufs s1 false hi hi
          rw [hf]
          cases e <;> exact ⟨_, _, rfl, hi2, hn⟩
    · have : validDb r.db = false := by simpa using hdb
      simp only [this, Bool.not_false, ↓reduceIte]
      exact ⟨_, _, rfl, h, rfl⟩

theorem pipelineFrom_ok (cfg : Cfg) : ∀ (reqs : List Req) {s : St}, Inv s → (∀ r ∈ reqs, CleanReq r = true) →
    ∃ resps s', pipelineFrom cfg s reqs = .ok (resps, s') ∧ Inv s' ∧ ∀ resp ∈ resps, resp.panic = none
  | [], s, h, _ => ⟨_, _, rfl, h, fun _ hh => by cases hh⟩
  | r :: rest, s, h, hr => by
    obtain ⟨resp, s1, hs, hi, hn⟩ := step_ok cfg h (hr r (List.mem_cons_self ..))
    obtain ⟨resps, s2, hp, hi2, hn2⟩ := pipelineFrom_ok cfg rest hi (fun r' hr' => hr r' (List.mem_cons_of_mem _ hr'))
    unfold pipelineFrom
    rw [hs]; simp only [hp]
    refine ⟨_, _, rfl, hi2, ?_⟩
    intro x hx
    rcases List.mem_cons.1 hx with rfl | hx
    · exact hn
    · exact hn2 x hx

theorem drain_ok : ∀ (L : List (Name × List Batch)) (s : St),
    (∀ p ∈ L, GoodBuf p.2) → ∃ s', drain L s = .ok s'
  | [], s, _ => ⟨_, rfl⟩
  | (k, l) :: rest, s, hL => by
    have hg := hL (k, l) (List.mem_cons_self ..)
    obtain ⟨r, hr⟩ := flushBatches_ok hg
    unfold drain
    rw [hr]
    exact drain_ok rest _ (fun p hp => hL p (List.mem_cons_of_mem _ hp))

end Arc.C04
