import Arc.Model.C04
/-! Helper lemmas for C04: a flush of batches whose columns all have the length of the `time`
column cannot panic (current /repo: empty names are guarded in the schema builders, mergeBatches
returns an error on a type conflict — both read from the regenerated facts). -/
namespace Arc.C04
open Arc.Generated.C04

/-- what `flushMerged` needs of a batch to be panic-free -/
def flushable (m : Batch) : Prop :=
  m.times = [] ∨ ∀ c ∈ m.cols, c.len = m.times.length ∧ (c.vlen = 0 ∨ c.vlen = c.len)

/-- the carve-out on batches: every column, and every validity vector that exists, is exactly as long
as the `time` column. (Every producer except `rowsToColumnar` builds such batches; see
`C04_full_witness_time_field`.) -/
def evenBatch (b : Batch) : Bool :=
  b.times.isEmpty || b.cols.all (fun c => c.len == b.times.length && (c.vlen == 0 || c.vlen == c.len))

theorem even_flushable {b : Batch} (h : evenBatch b = true) : flushable b := by
  unfold evenBatch at h
  simp only [Bool.or_eq_true, List.isEmpty_iff, List.all_eq_true] at h
  rcases h with h | h
  · exact Or.inl h
  · refine Or.inr ?_
    intro c hc
    have := h c hc
    simp only [Bool.and_eq_true, beq_iff_eq, Bool.or_eq_true] at this
    exact this

theorem allLensEq_of {l : List Col} {n : Nat} (h : ∀ c ∈ l, c.len = n) : allLensEq l = true := by
  cases l with
  | nil => rfl
  | cons c rest =>
    unfold allLensEq
    simp only [List.all_eq_true, beq_iff_eq]
    intro d hd
    rw [h d (List.mem_cons_of_mem _ hd), h c (List.mem_cons_self ..)]

theorem writeParquet_ok {cols : List Col} {n rows : Nat}
    (h : ∀ c ∈ cols, c.len = n ∧ (c.vlen = 0 ∨ c.vlen = c.len)) :
    ∃ r, writeParquet cols rows = .ok r := by
  unfold writeParquet
  -- `name[0]` is guarded in the current source
  have hg : schemaGuardsEmpty = true := by decide
  simp only [hg, Bool.not_true, Bool.false_and, Bool.false_eq_true, ↓reduceIte]
  split
  · exact ⟨_, rfl⟩
  · have h2 : (schemaFields cols).any (fun c => c.vlen != 0 && c.vlen != c.len) = false := by
      simp only [List.any_eq_false, Bool.and_eq_true, bne_iff_ne, ne_eq, not_and, Decidable.not_not]
      intro c hc h0
      unfold schemaFields at hc
      rcases (h c (List.mem_filter.1 hc).1).2 with hv | hv
      · exact absurd hv h0
      · exact hv
    have h3 : allLensEq (schemaFields cols) = true := by
      apply allLensEq_of (n := n)
      intro c hc
      unfold schemaFields at hc
      exact (h c (List.mem_filter.1 hc).1).1
    simp only [h2, Bool.false_eq_true, ↓reduceIte, h3, Bool.not_true]
    exact ⟨_, rfl⟩

theorem evened_ok (cols : List Col) (n : Nat) :
    ∀ c ∈ evened cols n, c.len = n ∧ (c.vlen = 0 ∨ c.vlen = c.len) := by
  intro c hc
  unfold evened at hc
  simp only [List.mem_map] at hc
  obtain ⟨d, _, rfl⟩ := hc
  refine ⟨rfl, ?_⟩
  by_cases hv : d.vlen == 0 <;> simp [hv]

theorem flushMerged_ok {m : Batch} (h : flushable m) : ∃ r, flushMerged m = .ok r := by
  unfold flushMerged
  split
  · exact ⟨_, rfl⟩
  · rename_i t0 ts hts
    have h : ∀ c ∈ m.cols, c.len = m.times.length ∧ (c.vlen = 0 ∨ c.vlen = c.len) := by
      rcases h with h | h
      · rw [h] at hts; cases hts
      · exact h
    simp only
    split
    · split
      · exact writeParquet_ok (n := m.times.length) h
      · have h1 : m.cols.any (fun c => decide (c.len < m.times.length)) = false := by
          simp only [List.any_eq_false, decide_eq_true_eq, Nat.not_lt]
          intro c hc; rw [(h c hc).1]; exact Nat.le_refl _
        have h2 : m.cols.any (fun c => c.vlen != 0 && decide (c.vlen < m.times.length)) = false := by
          simp only [List.any_eq_false, Bool.and_eq_true, bne_iff_ne, ne_eq, decide_eq_true_eq, not_and, Nat.not_lt]
          intro c hc h0
          rcases (h c hc).2 with hv | hv
          · exact absurd hv h0
          · rw [hv, (h c hc).1]; exact Nat.le_refl _
        simp only [h1, Bool.and_false, Bool.false_eq_true, ↓reduceIte, h2]
        exact writeParquet_ok (evened_ok _ _)
    · exact writeParquet_ok (evened_ok _ _)

theorem merged_flushable (bs : List Batch) : flushable (mergedBatch bs) := by
  refine Or.inr ?_
  intro c hcm
  unfold mergedBatch at hcm ⊢
  simp only [List.mem_map] at hcm
  obtain ⟨nm, _, rfl⟩ := hcm
  exact ⟨rfl, Or.inl rfl⟩

/-- a flush of even batches cannot panic (a type conflict makes mergeBatches return an error) -/
theorem flushBatches_ok {bs : List Batch} (hc : ∀ b ∈ bs, evenBatch b = true) :
    ∃ r, flushBatches bs = .ok r := by
  unfold flushBatches mergeBatches
  match bs, hc with
  | [], _ => exact ⟨_, rfl⟩
  | [b], hc => exact flushMerged_ok (even_flushable (hc b (List.mem_cons_self ..)))
  | b1 :: b2 :: rest, _ =>
    have hm : mergeUncheckedAsserts = 0 := by decide
    simp only [hm, Nat.lt_irrefl, decide_false, Bool.false_and, Bool.false_eq_true, ↓reduceIte]
    by_cases hcf : conflict (b1 :: b2 :: rest) = true
    · simp only [hcf, ↓reduceIte]; exact ⟨_, rfl⟩
    · simp only [hcf, Bool.false_eq_true, ↓reduceIte]
      exact flushMerged_ok (merged_flushable _)

/-! ### convertColumnsToTyped hands over even batches (fact `convertChecksLengths`) -/

theorem convCol_vlen {nm : Name} {cs : List Cell} {c : Col} (h : convCol nm cs = some c) :
    c.vlen = 0 ∨ c.vlen = c.len := by
  unfold convCol at h
  simp only at h
  repeat' split at h
  all_goals first
    | (cases h; done)
    | (cases h; exact Or.inr rfl)
    | (cases h; exact Or.inl rfl)
    | (cases h; by_cases hn : hasNil cs = true <;> simp [hn])

theorem convCols_vlen : ∀ {cols : List (Name × List Cell)} {out : List Col}, convCols cols = some out →
    ∀ c ∈ out, c.vlen = 0 ∨ c.vlen = c.len
  | [], out, h => by
    simp only [convCols] at h; cases h; intro c hc; cases hc
  | (nm, cs) :: rest, out, h => by
    unfold convCols at h
    split at h
    · exact convCols_vlen h
    · split at h
      · rename_i c r hc hr
        cases h
        intro d hd
        rcases List.mem_cons.1 hd with rfl | hd
        · exact convCol_vlen hc
        · exact convCols_vlen hr d hd
      · cases h

theorem allLensEq_all {l : List Col} (h : allLensEq l = true) : ∀ c ∈ l, ∀ d ∈ l, c.len = d.len := by
  cases l with
  | nil => intro c hc; cases hc
  | cons x rest =>
    unfold allLensEq at h
    simp only [List.all_eq_true, beq_iff_eq] at h
    have hx : ∀ c ∈ x :: rest, c.len = x.len := by
      intro c hc
      rcases List.mem_cons.1 hc with rfl | hc
      · rfl
      · exact h c hc
    intro c hc d hd
    rw [hx c hc, hx d hd]

theorem fitLen_length (n : Nat) (ts : List Int) : (fitLen n ts).length = n := by
  unfold fitLen; simp

theorem convert_even {cols : List (Name × List Cell)} {times : List Int} {nrec : Nat} {b : Batch}
    (h : convert cols times nrec = some b) : evenBatch b = true := by
  unfold convert at h
  cases hc : convCols cols with
  | none => simp [hc] at h
  | some cs =>
    simp only [hc] at h
    have hf : convertChecksLengths = true := by decide
    by_cases hl : allLensEq cs = true
    · simp only [hf, hl, Bool.not_true, Bool.and_false, Bool.false_eq_true, ↓reduceIte, Option.some.injEq] at h
      subst h
      unfold evenBatch
      simp only
      cases hfind : cs.find? (fun c => c.name == timeName) with
      | none =>
        have : (if cs.any (fun c => c.name == timeName) = true then fitLen 0 times else []) = [] := by
          split <;> rfl
        rw [this]; rfl
      | some c0 =>
        have hc0 : c0 ∈ cs := List.mem_of_find?_eq_some hfind
        by_cases ht : cs.any (fun c => c.name == timeName) = true
        · simp only [ht, ↓reduceIte, fitLen_length, Bool.or_eq_true, List.isEmpty_iff, List.all_eq_true,
            Bool.and_eq_true, beq_iff_eq]
          refine Or.inr ?_
          intro c hcm
          refine ⟨allLensEq_all hl c hcm c0 hc0, ?_⟩
          exact convCols_vlen hc c hcm
        · simp [ht]
    · have hl' : allLensEq cs = false := by simpa using hl
      simp [hf, hl'] at h

end Arc.C04
