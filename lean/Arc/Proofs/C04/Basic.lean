import Arc.Model.C04
/-! Helper lemmas for C04: a flush of clean, signature-equal batches cannot panic. -/
namespace Arc.C04
open Arc.Generated.C04

/-- what `flushMerged` needs of a batch to be panic-free -/
def flushable (m : Batch) : Prop :=
  ∀ c ∈ m.cols, c.name ≠ [] ∧ c.len = m.times.length ∧ (c.vlen = 0 ∨ c.vlen = c.len)

/-- one Go type per column name inside a batch (Go map keys are unique) -/
def functional (b : Batch) : Bool :=
  b.cols.all fun c1 => b.cols.all fun c2 => c1.name != c2.name || c1.ty == c2.ty

/-- a batch the carve-out admits: no empty and no `_`-prefixed column name, every column and validity
vector as long as the `time` column, one type per name -/
def cleanBatch (b : Batch) : Bool :=
  b.cols.all (fun c => !c.name.isEmpty && !isUnderscore c.name && c.len == b.times.length &&
    (c.vlen == 0 || c.vlen == c.len)) && functional b

def SigEq (a b : Batch) : Prop := ∀ p, p ∈ sigPairs a ↔ p ∈ sigPairs b

theorem sameSig_iff (a b : Batch) : sameSig a b = true ↔ SigEq a b := by
  unfold sameSig SigEq
  simp only [Bool.and_eq_true, List.all_eq_true, List.contains_iff_mem]
  constructor
  · intro h p; exact ⟨h.1 p, h.2 p⟩
  · intro h; exact ⟨fun p hp => (h p).1 hp, fun p hp => (h p).2 hp⟩

theorem clean_flushable {b : Batch} (h : cleanBatch b = true) : flushable b := by
  unfold cleanBatch at h
  simp only [Bool.and_eq_true, List.all_eq_true] at h
  intro c hc
  have := h.1 c hc
  simp only [Bool.and_eq_true, Bool.not_eq_true', List.isEmpty_eq_false_iff, beq_iff_eq, Bool.or_eq_true] at this
  exact ⟨this.1.1.1, this.1.2, this.2⟩

theorem clean_not_skipped {b : Batch} (h : cleanBatch b = true) {c : Col} (hc : c ∈ b.cols) :
    sigSkips c.name = false := by
  unfold cleanBatch at h
  simp only [Bool.and_eq_true, List.all_eq_true] at h
  have := h.1 c hc
  simp only [Bool.and_eq_true, Bool.not_eq_true'] at this
  unfold sigSkips
  rw [this.1.1.1, this.1.1.2]
  simp

theorem clean_functional {b : Batch} (h : cleanBatch b = true) {c1 c2 : Col}
    (h1 : c1 ∈ b.cols) (h2 : c2 ∈ b.cols) (hn : c1.name = c2.name) : c1.ty = c2.ty := by
  unfold cleanBatch functional at h
  simp only [Bool.and_eq_true, List.all_eq_true] at h
  have := h.2 c1 h1 c2 h2
  simp only [Bool.or_eq_true, bne_iff_ne, ne_eq, beq_iff_eq] at this
  rcases this with h | h
  · exact absurd hn h
  · exact h

theorem mem_sigPairs {b : Batch} {c : Col} (hc : c ∈ b.cols) (hs : sigSkips c.name = false) :
    (c.name, c.ty) ∈ sigPairs b := by
  unfold sigPairs
  simp only [List.mem_map, List.mem_filter]
  exact ⟨c, ⟨hc, by simp [hs]⟩, rfl⟩

theorem of_mem_sigPairs {b : Batch} {p : Name × Ty} (h : p ∈ sigPairs b) :
    ∃ c ∈ b.cols, c.name = p.1 ∧ c.ty = p.2 := by
  unfold sigPairs at h
  simp only [List.mem_map, List.mem_filter] at h
  obtain ⟨c, ⟨hc, _⟩, rfl⟩ := h
  exact ⟨c, hc, rfl, rfl⟩

/-- clean batches with equal signatures never disagree on the type of a column -/
theorem no_conflict {bs : List Batch} (hc : ∀ b ∈ bs, cleanBatch b = true)
    (hs : ∀ b1 ∈ bs, ∀ b2 ∈ bs, SigEq b1 b2) : conflict bs = false := by
  cases hcf : conflict bs with
  | false => rfl
  | true =>
    exfalso
    unfold conflict at hcf
    simp only [List.any_eq_true, Bool.and_eq_true, beq_iff_eq, bne_iff_ne, ne_eq] at hcf
    obtain ⟨b1, hb1, b2, hb2, c1, hc1, c2, hc2, hn, ht⟩ := hcf
    have hp := mem_sigPairs hc1 (clean_not_skipped (hc b1 hb1) hc1)
    have hp2 := (hs b1 hb1 b2 hb2 _).1 hp
    obtain ⟨c2', hc2', hn', ht'⟩ := of_mem_sigPairs hp2
    have := clean_functional (hc b2 hb2) hc2' hc2 (by rw [hn']; exact hn)
    have ht'' : c2'.ty = c1.ty := ht'
    exact ht (by rw [← ht'', this])

theorem allLensEq_of {l : List Col} {n : Nat} (h : ∀ c ∈ l, c.len = n) : allLensEq l = true := by
  cases l with
  | nil => rfl
  | cons c rest =>
    unfold allLensEq
    simp only [List.all_eq_true, beq_iff_eq]
    intro d hd
    rw [h d (List.mem_cons_of_mem _ hd), h c (List.mem_cons_self ..)]

theorem writeParquet_ok {cols : List Col} {n rows : Nat}
    (h : ∀ c ∈ cols, c.name ≠ [] ∧ c.len = n ∧ (c.vlen = 0 ∨ c.vlen = c.len)) :
    ∃ r, writeParquet cols rows = .ok r := by
  unfold writeParquet
  have h1 : cols.any (fun c => c.name.isEmpty) = false := by
    simp only [List.any_eq_false, List.isEmpty_iff]
    intro c hc; exact (h c hc).1
  simp only [h1, Bool.and_false, Bool.false_eq_true, ↓reduceIte]
  split
  · exact ⟨_, rfl⟩
  · have h2 : (schemaFields cols).any (fun c => c.vlen != 0 && c.vlen != c.len) = false := by
      simp only [List.any_eq_false, Bool.and_eq_true, bne_iff_ne, ne_eq, not_and, Decidable.not_not]
      intro c hc h0
      unfold schemaFields at hc
      rcases (h c (List.mem_filter.1 hc).1).2.2 with hv | hv
      · exact absurd hv h0
      · exact hv
    have h3 : allLensEq (schemaFields cols) = true := by
      apply allLensEq_of (n := n)
      intro c hc
      unfold schemaFields at hc
      exact (h c (List.mem_filter.1 hc).1).2.1
    simp only [h2, Bool.false_eq_true, ↓reduceIte, h3, Bool.not_true]
    exact ⟨_, rfl⟩

theorem evened_ok {cols : List Col} {n : Nat} (h : ∀ c ∈ cols, c.name ≠ []) :
    ∀ c ∈ evened cols n, c.name ≠ [] ∧ c.len = n ∧ (c.vlen = 0 ∨ c.vlen = c.len) := by
  intro c hc
  unfold evened at hc
  simp only [List.mem_map] at hc
  obtain ⟨d, hd, rfl⟩ := hc
  refine ⟨h d hd, rfl, ?_⟩
  by_cases hv : d.vlen == 0 <;> simp [hv]

theorem flushMerged_ok {m : Batch} (h : flushable m) : ∃ r, flushMerged m = .ok r := by
  unfold flushMerged
  split
  · exact ⟨_, rfl⟩
  · rename_i t0 ts hts
    have hne : ∀ c ∈ m.cols, c.name ≠ [] := fun c hc => (h c hc).1
    simp only
    split
    · split
      · exact writeParquet_ok (n := m.times.length) h
      · have h1 : m.cols.any (fun c => decide (c.len < m.times.length)) = false := by
          simp only [List.any_eq_false, decide_eq_true_eq, Nat.not_lt]
          intro c hc; rw [(h c hc).2.1]; exact Nat.le_refl _
        have h2 : m.cols.any (fun c => c.vlen != 0 && decide (c.vlen < m.times.length)) = false := by
          simp only [List.any_eq_false, Bool.and_eq_true, bne_iff_ne, ne_eq, decide_eq_true_eq, not_and, Nat.not_lt]
          intro c hc h0
          rcases (h c hc).2.2 with hv | hv
          · exact absurd hv h0
          · rw [hv, (h c hc).2.1]; exact Nat.le_refl _
        simp only [h1, Bool.and_false, Bool.false_eq_true, ↓reduceIte, h2]
        exact writeParquet_ok (evened_ok hne)
    · exact writeParquet_ok (evened_ok hne)

theorem mem_unionNames {bs : List Batch} {nm : Name} (h : nm ∈ unionNames bs) :
    ∃ b ∈ bs, ∃ c ∈ b.cols, c.name = nm := by
  unfold unionNames at h
  have h' := List.mem_eraseDups.1 h
  simp only [List.mem_flatMap, List.mem_map] at h'
  obtain ⟨b, hb, c, hc, rfl⟩ := h'
  exact ⟨b, hb, c, hc, rfl⟩

theorem merged_flushable {bs : List Batch} (hc : ∀ b ∈ bs, cleanBatch b = true) :
    flushable (mergedBatch bs) := by
  intro c hcm
  unfold mergedBatch at hcm ⊢
  simp only [List.mem_map] at hcm
  obtain ⟨nm, hnm, rfl⟩ := hcm
  obtain ⟨b, hb, d, hd, rfl⟩ := mem_unionNames hnm
  exact ⟨(clean_flushable (hc b hb) d hd).1, rfl, Or.inl rfl⟩

/-- a flush of clean batches that share one signature cannot panic -/
theorem flushBatches_ok {bs : List Batch} (hc : ∀ b ∈ bs, cleanBatch b = true)
    (hs : ∀ b1 ∈ bs, ∀ b2 ∈ bs, SigEq b1 b2) : ∃ r, flushBatches bs = .ok r := by
  unfold flushBatches mergeBatches
  match bs, hc, hs with
  | [], _, _ => exact ⟨_, rfl⟩
  | [b], hc, _ => exact flushMerged_ok (clean_flushable (hc b (List.mem_cons_self ..)))
  | b1 :: b2 :: rest, hc, hs =>
    simp only [no_conflict hc hs, Bool.false_eq_true, ↓reduceIte]
    exact flushMerged_ok (merged_flushable hc)

end Arc.C04
