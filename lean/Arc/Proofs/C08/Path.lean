import Arc.Model.C08
/-! Helper lemmas for the confinement theorems of C08 (path model). -/
namespace Arc.C08

/-- a path element as `Clean` leaves it: non-empty, not `.`, not `..`, no separator -/
def GoodSeg (s : Bytes) : Prop := s ≠ [] ∧ s ≠ dot ∧ s ≠ dotdot ∧ (47 : UInt8) ∉ s

/-- `base` is an absolute, cleaned path: `/` followed by good elements joined by `/` -/
def CleanAbs (base : Bytes) (bs : List Bytes) : Prop :=
  base = renderAbs bs ∧ ∀ s ∈ bs, GoodSeg s

/-! ### split / join -/

theorem splitSlash_ne_nil (p : Bytes) : splitSlash p ≠ [] := by
  induction p with
  | nil => simp [splitSlash]
  | cons c r ih =>
    unfold splitSlash
    split
    · simp
    · split <;> simp

theorem splitSlash_noSlash (p : Bytes) : ∀ s ∈ splitSlash p, (47 : UInt8) ∉ s := by
  induction p with
  | nil => simp [splitSlash]
  | cons c r ih =>
    unfold splitSlash
    split
    · intro s hs
      simp at hs
      rcases hs with rfl | hs
      · simp
      · exact ih s hs
    · rename_i hc
      split
      · intro s hs; simp at hs; subst hs; simp; exact fun e => hc e.symm
      · rename_i s0 ss heq
        intro s hs
        simp at hs
        rcases hs with rfl | hs
        · have := ih s0 (by rw [heq]; simp)
          simp; exact ⟨fun e => hc e.symm, this⟩
        · exact ih s (by rw [heq]; simp [hs])

theorem splitSlash_append_slash (s rest : Bytes) (hs : (47 : UInt8) ∉ s) :
    splitSlash (s ++ 47 :: rest) = s :: splitSlash rest := by
  induction s with
  | nil => simp [splitSlash]
  | cons c s' ih =>
    have hc : c ≠ 47 := by intro e; apply hs; simp [e]
    have hs' : (47 : UInt8) ∉ s' := by intro e; apply hs; simp [e]
    simp [splitSlash, hc, ih hs']

theorem splitSlash_noSlash_self (s : Bytes) (hs : (47 : UInt8) ∉ s) : splitSlash s = [s] := by
  induction s with
  | nil => simp [splitSlash]
  | cons c s' ih =>
    have hc : c ≠ 47 := by intro e; apply hs; simp [e]
    have hs' : (47 : UInt8) ∉ s' := by intro e; apply hs; simp [e]
    simp [splitSlash, hc, ih hs']

theorem splitSlash_joinSlash (segs : List Bytes) (hne : segs ≠ [])
    (h : ∀ s ∈ segs, (47 : UInt8) ∉ s) : splitSlash (joinSlash segs) = segs := by
  induction segs with
  | nil => exact absurd rfl hne
  | cons s rest ih =>
    cases rest with
    | nil => simp [joinSlash]; exact splitSlash_noSlash_self s (h s (by simp))
    | cons t ss =>
      simp only [joinSlash]
      rw [splitSlash_append_slash s _ (h s (by simp))]
      rw [ih (by simp) (fun x hx => h x (by simp [hx]))]

/-! ### the stack machine -/

theorem pushSeg_good_eq (r : Bool) (st : List Bytes) (s : Bytes) (h : GoodSeg s) :
    pushSeg r st s = s :: st := by
  simp [pushSeg, h.1, h.2.1, h.2.2.1]

theorem foldl_push_good (r : Bool) (segs acc : List Bytes) (h : ∀ s ∈ segs, GoodSeg s) :
    segs.foldl (pushSeg r) acc = segs.reverse ++ acc := by
  induction segs generalizing acc with
  | nil => simp
  | cons s rest ih =>
    simp only [List.foldl]
    rw [pushSeg_good_eq r acc s (h s (by simp))]
    rw [ih _ (fun x hx => h x (by simp [hx]))]
    simp

theorem pushSeg_rooted_good (st : List Bytes) (seg : Bytes) (hst : ∀ x ∈ st, GoodSeg x)
    (hseg : (47 : UInt8) ∉ seg) : ∀ x ∈ pushSeg true st seg, GoodSeg x := by
  unfold pushSeg
  split
  · exact hst
  · split
    · exact hst
    · split
      · cases st with
        | nil => simp
        | cons top rest =>
          have htop : top ≠ dotdot := (hst top (by simp)).2.2.1
          simp [htop]
          exact fun x hx => hst x (by simp [hx])
      · rename_i h1 h2 h3
        intro x hx
        simp at hx
        rcases hx with rfl | hx
        · exact ⟨h1, h2, h3, hseg⟩
        · exact hst x hx

theorem foldl_rooted_good (segs st : List Bytes) (hst : ∀ x ∈ st, GoodSeg x)
    (hsegs : ∀ s ∈ segs, (47 : UInt8) ∉ s) : ∀ x ∈ segs.foldl (pushSeg true) st, GoodSeg x := by
  induction segs generalizing st with
  | nil => exact hst
  | cons s rest ih =>
    simp only [List.foldl]
    exact ih _ (pushSeg_rooted_good st s hst (hsegs s (by simp))) (fun x hx => hsegs x (by simp [hx]))

theorem cleanStack_rooted_good (p : Bytes) : ∀ x ∈ cleanStack true (splitSlash p), GoodSeg x := by
  unfold cleanStack
  intro x hx
  simp at hx
  exact foldl_rooted_good _ [] (by simp) (splitSlash_noSlash p) x hx

theorem isRooted_renderAbs (st : List Bytes) : isRooted (renderAbs st) = true := by
  simp [renderAbs, isRooted]

theorem cleanStack_renderAbs (st : List Bytes) (h : ∀ s ∈ st, GoodSeg s) :
    cleanStack true (splitSlash (renderAbs st)) = st := by
  unfold renderAbs cleanStack
  cases st with
  | nil => simp [joinSlash, splitSlash, pushSeg]
  | cons a rest =>
    have hsp : splitSlash (47 :: joinSlash (a :: rest)) = [] :: (a :: rest) := by
      have := splitSlash_append_slash [] (joinSlash (a :: rest)) (by simp)
      simp at this
      rw [this, splitSlash_joinSlash (a :: rest) (by simp) (fun s hs => (h s hs).2.2.2)]
    rw [hsp]
    have h0 : ([] :: a :: rest).foldl (pushSeg true) [] = (a :: rest).foldl (pushSeg true) [] := by
      simp [List.foldl, pushSeg]
    rw [h0, foldl_push_good true (a :: rest) [] h]
    simp

/-- `Clean` is the identity on cleaned absolute paths. -/
theorem clean_renderAbs (st : List Bytes) (h : ∀ s ∈ st, GoodSeg s) :
    clean (renderAbs st) = renderAbs st := by
  have hne : renderAbs st ≠ [] := by simp [renderAbs]
  unfold clean
  simp only [hne, if_false, isRooted_renderAbs, if_true]
  rw [cleanStack_renderAbs st h]

theorem clean_rooted (p : Bytes) (h : isRooted p = true) :
    clean p = renderAbs (cleanStack true (splitSlash p)) := by
  have hne : p ≠ [] := by intro e; subst e; simp [isRooted] at h
  unfold clean
  simp [hne, h]

theorem segsOf_renderAbs (st : List Bytes) (h : ∀ s ∈ st, GoodSeg s) :
    segsOf (renderAbs st) = st := by
  unfold segsOf renderAbs
  cases st with
  | nil => simp [joinSlash, splitSlash]
  | cons a rest =>
    have hsp : splitSlash (47 :: joinSlash (a :: rest)) = [] :: (a :: rest) := by
      have := splitSlash_append_slash [] (joinSlash (a :: rest)) (by simp)
      simp at this
      rw [this, splitSlash_joinSlash (a :: rest) (by simp) (fun s hs => (h s hs).2.2.2)]
    rw [hsp]
    simp
    exact ⟨(h a (by simp)).1, fun s hs => (h s (by simp [hs])).1⟩

/-! ### Rel -/

theorem stripCommon_spec (bs ts : List Bytes) :
    ∃ common, bs = common ++ (stripCommon bs ts).1 ∧ ts = common ++ (stripCommon bs ts).2 := by
  induction bs generalizing ts with
  | nil => exact ⟨[], by simp [stripCommon]⟩
  | cons b bs' ih =>
    cases ts with
    | nil => exact ⟨[], by simp [stripCommon]⟩
    | cons t ts' =>
      unfold stripCommon
      by_cases hbt : b = t
      · subst hbt
        obtain ⟨c, h1, h2⟩ := ih ts'
        refine ⟨b :: c, ?_, ?_⟩
        · simp; exact h1
        · simp; exact h2
      · exact ⟨[], by simp [hbt]⟩

theorem hasDotDotPrefix_joinSlash (tl : List Bytes) :
    hasDotDotPrefix (joinSlash (dotdot :: tl)) = true := by
  cases tl with
  | nil => simp [joinSlash, dotdot, hasDotDotPrefix]
  | cons t ss => simp [joinSlash, dotdot, hasDotDotPrefix]

theorem isRooted_joinSlash_dotdot (tl : List Bytes) :
    isRooted (joinSlash (dotdot :: tl)) = false ∧ joinSlash (dotdot :: tl) ≠ [] := by
  cases tl with
  | nil => simp [joinSlash, dotdot, isRooted]
  | cons t ss => simp [joinSlash, dotdot, isRooted]

theorem pushSeg_keeps_bottom (st : List Bytes) (seg : Bytes) (h : ∃ init, st = init ++ [dotdot]) :
    ∃ init, pushSeg false st seg = init ++ [dotdot] := by
  obtain ⟨init, rfl⟩ := h
  unfold pushSeg
  split
  · exact ⟨init, rfl⟩
  · split
    · exact ⟨init, rfl⟩
    · split
      · cases init with
        | nil => exact ⟨[dotdot], by simp⟩
        | cons a init' =>
          by_cases ha : a = dotdot
          · subst ha; exact ⟨dotdot :: dotdot :: init', by simp⟩
          · exact ⟨init', by simp [ha]⟩
      · exact ⟨seg :: init, by simp⟩

theorem foldl_keeps_bottom (segs st : List Bytes) (h : ∃ init, st = init ++ [dotdot]) :
    ∃ init, segs.foldl (pushSeg false) st = init ++ [dotdot] := by
  induction segs generalizing st with
  | nil => exact h
  | cons s rest ih => exact ih _ (pushSeg_keeps_bottom st s h)

/-- going up at least one level makes `Rel`'s answer start with `..` -/
theorem clean_up_has_dotdot_prefix (L : List Bytes) (h : ∀ s ∈ L, (47 : UInt8) ∉ s) :
    hasDotDotPrefix (clean (joinSlash (dotdot :: L))) = true := by
  obtain ⟨hr, hne⟩ := isRooted_joinSlash_dotdot L
  have hsplit : splitSlash (joinSlash (dotdot :: L)) = dotdot :: L :=
    splitSlash_joinSlash (dotdot :: L) (by simp) (by
      intro s hs
      simp at hs
      rcases hs with rfl | hs
      · simp [dotdot]
      · exact h s hs)
  have hfold : ∃ init, (dotdot :: L).foldl (pushSeg false) [] = init ++ [dotdot] := by
    simp only [List.foldl]
    have : pushSeg false [] dotdot = [dotdot] := by simp [pushSeg, dotdot, dot]
    rw [this]
    exact foldl_keeps_bottom L [dotdot] ⟨[], rfl⟩
  obtain ⟨init, hinit⟩ := hfold
  have hstack : cleanStack false (splitSlash (joinSlash (dotdot :: L))) = dotdot :: init.reverse := by
    unfold cleanStack
    rw [hsplit, hinit]
    simp
  unfold clean
  simp only [hne, if_false, hr, hstack]
  simp
  exact hasDotDotPrefix_joinSlash _

end Arc.C08
