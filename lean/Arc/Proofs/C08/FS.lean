import Arc.Model.C08
/-! Helper lemmas for the atomicity theorems of C08 (file-system model). -/
namespace Arc.C08

/-- run to completion; `none` if some call fails -/
def runAll (fs : FS) : List Op → Option FS
  | [] => some fs
  | o :: os => match step fs o with
    | some fs' => runAll fs' os
    | none => none

theorem step_untouched (fs fs' : FS) (o : Op) (f : Bytes) (h : o.touches f = false)
    (hs : step fs o = some fs') : fs' f = fs f := by
  cases o with
  | mkdirAll d => simp [step] at hs; subst hs; rfl
  | createExcl p =>
    simp [Op.touches] at h
    simp [step] at hs
    obtain ⟨_, rfl⟩ := hs
    have : f ≠ p := fun e => h e.symm
    simp [FS.set, this]
  | openTrunc p =>
    simp [Op.touches] at h
    simp [step] at hs
    subst hs
    have : f ≠ p := fun e => h e.symm
    simp [FS.set, this]
  | openAppend p =>
    simp [step] at hs
    obtain ⟨_, rfl⟩ := hs
    rfl
  | write p ch =>
    simp [Op.touches] at h
    have hne : f ≠ p := fun e => h e.symm
    cases hq : fs p with
    | none => simp [step, hq] at hs
    | some c0 => simp [step, hq] at hs; subst hs; simp [FS.set, hne]
  | sync p => simp [step] at hs; subst hs; rfl
  | close p => simp [step] at hs; subst hs; rfl
  | rename s d =>
    simp [Op.touches] at h
    have h1 : f ≠ s := fun e => h.1 e.symm
    have h2 : f ≠ d := fun e => h.2 e.symm
    cases hq : fs s with
    | none => simp [step, hq] at hs
    | some c0 => simp [step, hq] at hs; subst hs; simp [FS.set, FS.del, h1, h2]
  | remove p =>
    simp [Op.touches] at h
    simp [step] at hs
    subst hs
    have : f ≠ p := fun e => h e.symm
    simp [FS.del, this]

theorem run_untouched (ops : List Op) (fs : FS) (f : Bytes)
    (h : ∀ o ∈ ops, o.touches f = false) : run fs ops f = fs f := by
  induction ops generalizing fs with
  | nil => rfl
  | cons o os ih =>
    unfold run
    cases hs : step fs o with
    | none => rfl
    | some fs' =>
      simp only
      rw [ih fs' (fun o' ho' => h o' (by simp [ho']))]
      exact step_untouched fs fs' o f (h o (by simp)) hs

theorem run_append_of_runAll (a b : List Op) (fs fs' : FS) (h : runAll fs a = some fs') :
    run fs (a ++ b) = run fs' b := by
  induction a generalizing fs with
  | nil => simp [runAll] at h; subst h; rfl
  | cons o os ih =>
    unfold runAll at h
    cases hs : step fs o with
    | none => simp [hs] at h
    | some fs1 =>
      simp [hs] at h
      simp [run, hs]
      exact ih fs1 h

theorem runAll_append (a b : List Op) (fs fs' : FS) (h : runAll fs a = some fs') :
    runAll fs (a ++ b) = runAll fs' b := by
  induction a generalizing fs with
  | nil => simp [runAll] at h; subst h; rfl
  | cons o os ih =>
    unfold runAll at h
    cases hs : step fs o with
    | none => simp [hs] at h
    | some fs1 =>
      simp [hs] at h
      simp [runAll, hs]
      exact ih fs1 h

/-- the successive `write(2)` calls append the chunks to the staging file and touch nothing else -/
theorem writes_run (t : Bytes) (chunks : List Bytes) (fs : FS) (c : Bytes) (h : fs t = some c) :
    ∃ fs', runAll fs (chunks.map (fun ch => Op.write t ch)) = some fs' ∧
      fs' t = some (c ++ chunks.flatten) ∧ ∀ q, q ≠ t → fs' q = fs q := by
  induction chunks generalizing fs c with
  | nil => exact ⟨fs, rfl, by simp [h], fun _ _ => rfl⟩
  | cons ch rest ih =>
    have h1 : (fs.set t (c ++ ch)) t = some (c ++ ch) := by simp [FS.set]
    obtain ⟨fs', hr, ht, ho⟩ := ih (fs.set t (c ++ ch)) (c ++ ch) h1
    refine ⟨fs', ?_, ?_, ?_⟩
    · simp [runAll, step, h]; exact hr
    · simp [ht]
    · intro q hq
      rw [ho q hq]
      simp [FS.set, hq]

/-- prefixes of `A ++ [last]` are prefixes of `A`, or everything -/
theorem take_append_singleton {α : Type} (A : List α) (x : α) (k : Nat) :
    (A ++ [x]).take k = A.take k ∨ (A ++ [x]).take k = A ++ [x] := by
  by_cases hk : k ≤ A.length
  · left; exact List.take_append_of_le_length hk
  · right
    apply List.take_of_length_le
    simp; omega

/-- The staging lemma: if everything before the final `rename` leaves the final path alone, then in
every crash prefix the final path is untouched or holds what the complete run leaves there. -/
theorem staged_atomic (fs0 : FS) (A : List Op) (last : Op) (f : Bytes)
    (hA : ∀ o ∈ A, o.touches f = false) (k : Nat) :
    run fs0 ((A ++ [last]).take k) f = fs0 f ∨
    run fs0 ((A ++ [last]).take k) f = run fs0 (A ++ [last]) f := by
  rcases take_append_singleton A last k with h | h
  · left
    rw [h]
    exact run_untouched _ _ _ (fun o ho => hA o (List.mem_of_mem_take ho))
  · right; rw [h]

theorem mem_crashStates (fs0 : FS) (ops : List Op) (st : FS) (h : st ∈ crashStates fs0 ops) :
    ∃ k, st = run fs0 (ops.take k) := by
  unfold crashStates at h
  simp at h
  obtain ⟨k, _, rfl⟩ := h
  exact ⟨k, rfl⟩

end Arc.C08
