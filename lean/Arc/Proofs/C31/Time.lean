import Arc.Model.C31
/-! C31 helper lemmas: int64 wrap, the integer time conversions. -/
namespace Arc.C31

def inI64 (n : Int) : Prop := -9223372036854775808 ≤ n ∧ n ≤ 9223372036854775807

instance (n : Int) : Decidable (inI64 n) := by unfold inI64; exact inferInstance

theorem wrap64_id {x : Int} (h : inI64 x) : wrap64 x = x := by
  unfold inI64 at h; unfold wrap64; omega

theorem wrap64_range (x : Int) : inI64 (wrap64 x) := by
  unfold inI64 wrap64; omega

/-- a wrapped product equals the exact product only when the exact product fits -/
theorem wrap64_eq_iff (x : Int) : wrap64 x = x ↔ inI64 x := by
  constructor
  · intro h; rw [← h]; exact wrap64_range x
  · exact wrap64_id

theorem intTime_s (n : Int) : intTimeToMicros n "epoch_s" = wrap64 (n * 1000000) := by
  simp [intTimeToMicros, lookupOp, Arc.Generated.C31.intTime, List.lookup, applyOp]
theorem intTime_ms (n : Int) : intTimeToMicros n "epoch_ms" = wrap64 (n * 1000) := by
  simp [intTimeToMicros, lookupOp, Arc.Generated.C31.intTime, List.lookup, applyOp]
theorem intTime_us (n : Int) : intTimeToMicros n "epoch_us" = n := by
  simp [intTimeToMicros, lookupOp, Arc.Generated.C31.intTime, List.lookup, applyOp]
theorem intTime_ns (n : Int) : intTimeToMicros n "epoch_ns" = Int.tdiv n 1000 := by
  simp [intTimeToMicros, lookupOp, Arc.Generated.C31.intTime, List.lookup, applyOp]

theorem arrow_s (n : Int) : arrowTimestampToMicros n "Second" = wrap64 (n * 1000000) := by
  simp [arrowTimestampToMicros, lookupOp, Arc.Generated.C31.arrowTs, List.lookup, applyOp]
theorem arrow_ms (n : Int) : arrowTimestampToMicros n "Millisecond" = wrap64 (n * 1000) := by
  simp [arrowTimestampToMicros, lookupOp, Arc.Generated.C31.arrowTs, List.lookup, applyOp]
theorem arrow_us (n : Int) : arrowTimestampToMicros n "Microsecond" = n := by
  simp [arrowTimestampToMicros, lookupOp, Arc.Generated.C31.arrowTs, List.lookup, applyOp]
theorem arrow_ns (n : Int) : arrowTimestampToMicros n "Nanosecond" = Int.tdiv n 1000 := by
  simp [arrowTimestampToMicros, lookupOp, Arc.Generated.C31.arrowTs, List.lookup, applyOp]

/-- Go's truncating division by 1000: the quotient is the exact value rounded toward zero. -/
theorem tdiv1000 (n : Int) : (0 ≤ n → 1000 * Int.tdiv n 1000 ≤ n ∧ n < 1000 * Int.tdiv n 1000 + 1000) ∧
    (n < 0 → n ≤ 1000 * Int.tdiv n 1000 ∧ 1000 * Int.tdiv n 1000 - 1000 < n) := by
  constructor
  · intro h
    have := Int.tdiv_eq_ediv_of_nonneg h (b := 1000)
    omega
  · intro h
    have h1 : Int.tdiv n 1000 = -(Int.tdiv (-n) 1000) := by
      rw [Int.neg_tdiv]; simp
    have := Int.tdiv_eq_ediv_of_nonneg (show (0:Int) ≤ -n by omega) (b := 1000)
    omega

/-- the unit auto-detection, unfolded -/
theorem autoInt_unfold (n : Int) (h : inI64 n) :
    autoIntEpochToMicros n =
      let a := if n < 0 then (if n = -9223372036854775808 then 9223372036854775807 else -n) else n
      if a < 10000000000 then wrap64 (n * 1000000)
      else if a < 10000000000000 then wrap64 (n * 1000)
      else if a < 10000000000000000 then n
      else Int.tdiv n 1000 := by
  unfold inI64 at h
  simp only [autoIntEpochToMicros, Arc.Generated.C31.autoInt, Arc.Generated.C31.autoIntDefault, threshApply, applyOp,
    absClamp, Arc.Generated.C31.autoIntAbsClamp, minI64, maxI64, Bool.true_and, beq_iff_eq]
  by_cases hn : n < 0
  · by_cases hm : n = -9223372036854775808
    · simp [hm]
    · have : wrap64 (-n) = -n := wrap64_id (by unfold inI64; omega)
      simp [hn, hm, this]
  · simp [hn]

end Arc.C31
