import Arc.Proofs.C31.Time
/-! C31 helper lemmas: decimal digit strings ↔ numbers (uses core's `Nat.toDigits` lemmas). -/
namespace Arc.C31

/-- canonical decimal rendering of a stored int64 (what `strconv.FormatInt(n, 10)` prints) -/
def renderInt (n : Int) : Cell :=
  if n < 0 then '-' :: Nat.toDigits 10 n.natAbs else Nat.toDigits 10 n.natAbs

/-- drop leading zeros, keep at least one digit -/
def stripZeros (ds : List Char) : List Char :=
  match ds.dropWhile (· == '0') with
  | [] => ['0']
  | r => r

/-- the DOCUMENTED normal form of an integer cell: no `+`, no leading zeros, no negative zero -/
def canonInt (s : Cell) : Cell :=
  match s with
  | [] => []
  | c :: ds =>
    if c == '-' then (if stripZeros ds == ['0'] then ['0'] else '-' :: stripZeros ds)
    else if c == '+' then stripZeros ds
    else stripZeros (c :: ds)

theorem dropWhile_nil_all {α : Type} (p : α → Bool) : ∀ (l : List α), l.dropWhile p = [] → ∀ x ∈ l, p x = true := by
  intro l
  induction l with
  | nil => intro _ x hx; cases hx
  | cons a as ih =>
    intro h x hx
    by_cases hp : p a = true
    · simp only [List.dropWhile_cons, hp, if_true] at h
      rcases List.mem_cons.mp hx with e | e
      · rw [e]; exact hp
      · exact ih h x e
    · simp [List.dropWhile_cons, hp] at h

theorem digit_bounds {c : Char} (h : c.isDigit = true) : 48 ≤ c.toNat ∧ c.toNat ≤ 57 := by
  simp only [Char.isDigit, Bool.and_eq_true, decide_eq_true_eq] at h
  obtain ⟨h1, h2⟩ := h
  rw [ge_iff_le, UInt32.le_iff_toNat_le] at h1
  rw [UInt32.le_iff_toNat_le] at h2
  exact ⟨h1, h2⟩

theorem digitChar_of_isDigit {c : Char} (h : c.isDigit = true) : Nat.digitChar (c.toNat - 48) = c := by
  have hc : c = Char.ofNat c.toNat := (Char.ofNat_toNat c).symm
  obtain ⟨h1, h2⟩ := digit_bounds h
  have : c.toNat = 48 ∨ c.toNat = 49 ∨ c.toNat = 50 ∨ c.toNat = 51 ∨ c.toNat = 52 ∨ c.toNat = 53 ∨
      c.toNat = 54 ∨ c.toNat = 55 ∨ c.toNat = 56 ∨ c.toNat = 57 := by omega
  rcases this with e | e | e | e | e | e | e | e | e | e <;> (rw [hc, e]; decide)

theorem digit_lt_ten {c : Char} (h : c.isDigit = true) : c.toNat - 48 < 10 := by
  obtain ⟨h1, h2⟩ := digit_bounds h
  omega

/-- with a positive accumulator, re-rendering a digit string appends it -/
theorem toDigits_ofDigitChars_pos (cs : List Char) (hall : ∀ c ∈ cs, c.isDigit = true) :
    ∀ init, 0 < init → Nat.toDigits 10 (Nat.ofDigitChars 10 cs init) = Nat.toDigits 10 init ++ cs := by
  induction cs with
  | nil => intro init _; simp
  | cons c cs ih =>
    intro init hpos
    have hc : c.isDigit = true := hall c (by simp)
    rw [Nat.ofDigitChars_cons]
    rw [ih (fun x hx => hall x (by simp [hx])) _ (by omega)]
    have hd : c.toNat - '0'.toNat < 10 := digit_lt_ten hc
    rw [← Nat.toDigits_append_toDigits (by decide) hpos hd, Nat.toDigits_of_lt_base hd]
    have : Nat.digitChar (c.toNat - '0'.toNat) = c := digitChar_of_isDigit hc
    rw [this]; simp

theorem toDigits_digitsVal (ds : List Char) (hne : ds ≠ []) (hall : ∀ c ∈ ds, c.isDigit = true) :
    Nat.toDigits 10 (digitsVal ds) = stripZeros ds := by
  unfold digitsVal
  induction ds with
  | nil => exact absurd rfl hne
  | cons c cs ih =>
    have hc : c.isDigit = true := hall c (by simp)
    by_cases hz : c = '0'
    · subst hz
      rw [Nat.ofDigitChars_cons]
      by_cases hcs : cs = []
      · subst hcs; simp [stripZeros, Nat.toDigits_zero]
      · have := ih hcs (fun x hx => hall x (by simp [hx]))
        simp only [Nat.mul_zero, Char.reduceToNat, Nat.sub_self, Nat.add_zero] at *
        rw [this]; simp [stripZeros]
    · rw [Nat.ofDigitChars_cons]
      have hd : c.toNat - '0'.toNat < 10 := digit_lt_ten hc
      have hpos : 0 < 10 * 0 + (c.toNat - '0'.toNat) := by
        have hdc : Nat.digitChar (c.toNat - '0'.toNat) = c := digitChar_of_isDigit hc
        rcases Nat.eq_zero_or_pos (c.toNat - '0'.toNat) with h0 | h0
        · rw [h0] at hdc; exact absurd hdc.symm hz
        · omega
      rw [toDigits_ofDigitChars_pos cs (fun x hx => hall x (by simp [hx])) _ hpos]
      simp only [Nat.mul_zero, Nat.zero_add]
      have hdc : Nat.digitChar (c.toNat - '0'.toNat) = c := digitChar_of_isDigit hc
      rw [Nat.toDigits_of_lt_base hd, hdc]
      simp [stripZeros, hz]

theorem parseUDigits_some {ds : List Char} {m : Nat} (h : parseUDigits ds = some m) :
    ds ≠ [] ∧ (∀ c ∈ ds, c.isDigit = true) ∧ m = digitsVal ds := by
  unfold parseUDigits at h
  split at h
  · exact absurd h (by simp)
  · rename_i hc
    simp only [Bool.or_eq_true, List.isEmpty_iff, Bool.not_eq_eq_eq_not, Bool.not_true, not_or,
      Bool.not_eq_false] at hc
    refine ⟨hc.1, ?_, by simpa using h.symm⟩
    intro c hcm
    have := List.all_eq_true.mp hc.2 c hcm
    simpa [isDigit] using this

end Arc.C31
