/-
C18 — helper lemmas: the path loop covers every hour it should, extraction only returns bounds that come from
atoms of the text, list-level lemma for dropping files that hold no qualifying row.
-/
import Arc.Model.C18
namespace Arc.C18
open Arc.Generated.C18

/-! ### the loop -/

theorem loop_mem (n : Nat) (cur e t : Int) (hal : cur % HOUR = 0) (h1 : cur ≤ t)
    (h2 : t / HOUR * HOUR < e) (hf : (e - cur + HOUR - 1) / HOUR ≤ (n : Int)) :
    t / HOUR ∈ loop n cur e := by
  induction n generalizing cur with
  | zero =>
    exfalso
    simp only [HOUR] at *
    omega
  | succ n ih =>
    unfold loop
    have hlt : cur < e := by
      simp only [HOUR] at *
      omega
    simp only [hlt, if_true, List.mem_cons]
    by_cases hh : t / HOUR = hourOf cur
    · exact Or.inl hh
    · right
      apply ih
      · simp only [HOUR] at *; omega
      · simp only [HOUR, hourOf] at *; omega
      · simp only [HOUR] at *; omega

theorem loop_sound (n : Nat) (cur e h : Int) (hal : cur % HOUR = 0) (hm : h ∈ loop n cur e) :
    cur ≤ h * HOUR ∧ h * HOUR < e := by
  induction n generalizing cur with
  | zero => simp [loop] at hm
  | succ n ih =>
    unfold loop at hm
    by_cases hlt : cur < e
    · simp only [hlt, if_true, List.mem_cons] at hm
      rcases hm with hm | hm
      · subst hm
        simp only [HOUR, hourOf] at *
        omega
      · have := ih (cur + HOUR) (by simp only [HOUR] at *; omega) hm
        simp only [HOUR] at *
        omega
    · simp [hlt] at hm

theorem mem_dedupAdj (x : Int) (l : List Int) : x ∈ dedupAdj l ↔ x ∈ l := by
  induction l with
  | nil => simp [dedupAdj]
  | cons a xs ih =>
    cases xs with
    | nil => simp [dedupAdj]
    | cons b ys =>
      unfold dedupAdj
      by_cases h : a = b
      · subst h
        simp only [if_true, ih, List.mem_cons]
        constructor
        · intro h; exact Or.inr h
        · intro h
          rcases h with h | h
          · exact Or.inl h
          · exact h
      · simp only [h, if_false, List.mem_cons, ih]

theorem fuel_ok (cur e : Int) : (e - cur + HOUR - 1) / HOUR ≤ ((fuelFor cur e : Nat) : Int) := by
  unfold fuelFor
  simp only [HOUR]
  omega

theorem startOf_aligned (hmin : minPartitionDateNs % HOUR = 0) (s : Int) : startOf s % HOUR = 0 := by
  unfold startOf truncHour
  simp only []
  split
  · exact hmin
  · simp only [HOUR]; omega

theorem startOf_le (s t : Int) (hs : s ≤ t) (hm : minPartitionDateNs ≤ t) : startOf s ≤ t := by
  unfold startOf truncHour
  simp only []
  split
  · exact hm
  · simp only [HOUR] at *; omega

/-- cover, general form: what matters for the end bound is that the row's HOUR starts before `end`. -/
theorem paths_cover_trunc (hmin : minPartitionDateNs % HOUR = 0) (s e t : Int) (incl : Bool) (ps : Paths)
    (h : generatePaths s e incl = some ps) (hs : s ≤ t) (he : t / HOUR * HOUR < loopEnd e incl)
    (hm : minPartitionDateNs ≤ t) : hourOf t ∈ ps.hours ∧ dayOf t ∈ ps.days := by
  unfold generatePaths at h
  simp only [] at h
  split at h
  · cases h
  · injection h with h
    subst h
    have hmem : t / HOUR ∈ loop (fuelFor (startOf s) (loopEnd e incl)) (startOf s) (loopEnd e incl) :=
      loop_mem _ _ _ _ (startOf_aligned hmin s) (startOf_le s t hs hm) he (fuel_ok _ _)
    refine ⟨hmem, ?_⟩
    simp only [dayOf, mem_dedupAdj, List.mem_map]
    exact ⟨t / HOUR, hmem, rfl⟩

/-! ### extraction: where a bound comes from -/

theorem firstSome_some {l : List (Option Int)} {x : Int} (h : firstSome l = some x) : some x ∈ l := by
  induction l with
  | nil => simp [firstSome] at h
  | cons a as ih =>
    cases a with
    | none => simp only [firstSome] at h; exact List.mem_cons_of_mem _ (ih h)
    | some y =>
      simp only [firstSome, Option.some.injEq] at h
      subst h
      exact List.mem_cons_self

theorem firstSomeP_some {l : List (Option Int × Bool)} {x : Int} {b : Bool}
    (h : firstSomeP l = some (x, b)) : (some x, b) ∈ l := by
  induction l with
  | nil => simp [firstSomeP] at h
  | cons a as ih =>
    obtain ⟨o, c⟩ := a
    cases o with
    | none => simp only [firstSomeP] at h; exact List.mem_cons_of_mem _ (ih h)
    | some y =>
      simp only [firstSomeP, Option.some.injEq, Prod.mk.injEq] at h
      obtain ⟨h1, h2⟩ := h
      subst h1; subst h2
      exact List.mem_cons_self

theorem absPat_some {now : Int} {suffix : Col → Bool} {op : Cmp} {txt : List BAtom} {s : Int}
    (h : absPat now suffix op txt = some s) :
    ∃ c l, BAtom.cmp c op (.lit l) ∈ txt ∧ suffix c = true ∧ l.go = some s := by
  unfold absPat at h
  split at h
  · rename_i c o r hf
    have hm := List.mem_of_find?_eq_some hf
    have hp := List.find?_some hf
    cases r with
    | lit l =>
      simp only [isAbs, Bool.and_eq_true, decide_eq_true_eq] at hp
      obtain ⟨hc, ho⟩ := hp
      subst ho
      exact ⟨c, l, hm, hc, h⟩
    | rel p n u cs => simp [isAbs] at hp
    | num k => simp [isAbs] at hp
  · cases h

theorem relPat_some {now : Int} {start plus : Bool} {txt : List BAtom} {s : Int}
    (h : relPat now start plus txt = some s) :
    ∃ c o n u cs, BAtom.cmp c o (.rel plus n u cs) ∈ txt ∧ c.endsInTime = true ∧
      (if start then o = Cmp.ge ∨ o = Cmp.gt else o = Cmp.lt ∨ o = Cmp.le) ∧
      (Rhs.rel plus n u cs).go now = some s := by
  unfold relPat at h
  split at h
  · rename_i c o r hf
    have hm := List.mem_of_find?_eq_some hf
    have hp := List.find?_some hf
    cases r with
    | lit l => simp [isRel] at hp
    | num k => simp [isRel] at hp
    | rel p n u cs =>
      simp only [isRel, Bool.and_eq_true, decide_eq_true_eq] at hp
      obtain ⟨⟨hc, hpl⟩, ho⟩ := hp
      subst hpl
      refine ⟨c, o, n, u, cs, hm, hc, ?_, h⟩
      cases start <;> simpa using ho
  · cases h

theorem betweenPat_some {now : Int} {txt : List BAtom} {a b : Int}
    (h : betweenPat now txt = some (a, b)) :
    ∃ c l1 l2, BAtom.between c (.lit l1) (.lit l2) ∈ txt ∧ c.endsInTime = true ∧
      l1.go = some a ∧ l2.go = some b := by
  unfold betweenPat at h
  split at h
  · rename_i c lo hi hf
    have hm := List.mem_of_find?_eq_some hf
    have hp := List.find?_some hf
    cases lo with
    | lit l1 =>
      cases hi with
      | lit l2 =>
        simp only [isBetween] at hp
        simp only [Rhs.go] at h
        split at h
        · rename_i x y hx hy
          simp only [Option.some.injEq, Prod.mk.injEq] at h
          obtain ⟨h1, h2⟩ := h
          subst h1; subst h2
          exact ⟨c, l1, l2, hm, hp, hx, hy⟩
        · cases h
      | rel p n u cs => simp [isBetween] at hp
      | num k => simp [isBetween] at hp
    | rel p n u cs => simp [isBetween] at hp
    | num k => simp [isBetween] at hp
  · cases h

/-! ### dropping files without qualifying rows -/

theorem rowsOf_cons (f : File) (ds : Dataset) : rowsOf (f :: ds) = f.rows ++ rowsOf ds := by
  simp [rowsOf]

theorem filter_rows_drop (ds : Dataset) (keep : File → Bool) (P : Row → Bool)
    (h : ∀ f ∈ ds, keep f = false → ∀ r ∈ f.rows, P r = false) :
    (rowsOf (ds.filter keep)).filter P = (rowsOf ds).filter P := by
  induction ds with
  | nil => rfl
  | cons f fs ih =>
    have ih' := ih (fun g hg => h g (List.mem_cons_of_mem _ hg))
    by_cases hk : keep f = true
    · simp only [List.filter_cons, hk, if_true, rowsOf_cons, List.filter_append]
      rw [ih']
    · have hk' : keep f = false := by simpa using hk
      have hnil : f.rows.filter P = [] := by
        rw [List.filter_eq_nil_iff]
        intro r hr
        have := h f List.mem_cons_self hk' r hr
        simp [this]
      simp only [List.filter_cons, hk', rowsOf_cons, List.filter_append, hnil, List.nil_append]
      simpa using ih'

theorem mem_rowsOf {r : Row} {ds : Dataset} : r ∈ rowsOf ds ↔ ∃ f ∈ ds, r ∈ f.rows := by
  simp [rowsOf, List.mem_flatMap]

theorem mem_partsOfPaths_hour (ps : Paths) (h : Int) : Part.hour h ∈ partsOfPaths ps ↔ h ∈ ps.hours := by
  simp [partsOfPaths]

theorem mem_partsOfPaths_day (ps : Paths) (d : Int) : Part.day d ∈ partsOfPaths ps ↔ d ∈ ps.days := by
  simp [partsOfPaths]

end Arc.C18
