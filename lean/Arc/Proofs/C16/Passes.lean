import Arc.Proofs.C16.Subst
/-! C16 — the four reference passes on the annotated grammar: per-site lemmas and the pass lemma. -/
namespace Arc.C16

-- ---------------------------------------------------------------- generic item map and the pass lemma
def gsel (sel : Site → Bool) (hdr : Option Str) : Item → Item
  | .ref s => if sel s then .tok (s.replaced hdr) else .ref s
  | it => it

theorem scan_some' (f) (ys rest out : List Tok) (hne : ys ≠ [])
    (h : f (ys ++ rest) = some (out, ys.length)) : scan f 0 (ys ++ rest) = out ++ scan f 0 rest := by
  cases ys with
  | nil => exact absurd rfl hne
  | cons t xs => exact scan_some f t xs rest out (by simpa using h)

theorem replaced_inert (hdr) (s : Site) : inertTok (s.replaced hdr) = true := by
  unfold Site.replaced; split <;> rfl

theorem nextOK_map (sel hdr) (rest : List Item) : nextOK (rest.map (gsel sel hdr)) = nextOK rest := by
  match rest with
  | [] => rfl
  | .ref s :: _ =>
    simp only [List.map_cons, gsel]
    split
    · unfold Site.replaced; split <;> simp [nextOK]
    · simp [nextOK]
  | .commaRef _ _ _ :: _ => simp [gsel, nextOK]
  | .notRef _ _ _ :: _ => simp [gsel, nextOK]
  | .tok t :: [] => cases t <;> simp [gsel, nextOK]
  | .tok t :: .tok u :: _ => cases t <;> cases u <;> simp [gsel, nextOK]
  | .tok t :: .commaRef _ _ _ :: _ => cases t <;> simp [gsel, nextOK]
  | .tok t :: .notRef _ _ _ :: _ => cases t <;> simp [gsel, nextOK]
  | .tok t :: .ref s :: _ =>
    cases t <;> simp only [List.map_cons, gsel] <;> split <;>
      first | (unfold Site.replaced; split <;> simp [nextOK]) | simp [nextOK]

theorem siteOK_map (sel hdr cte) (s : Site) (rest : List Item) :
    s.ok hdr cte (rest.map (gsel sel hdr)) = s.ok hdr cte rest := by
  simp [Site.ok, nextOK_map]

theorem carveL_map (sel hdr cte) (q : List Item) (h : carveL hdr cte q = true) :
    carveL hdr cte (q.map (gsel sel hdr)) = true := by
  induction q with
  | nil => rfl
  | cons it rest ih =>
    cases it with
    | tok t => simp [carveL, gsel] at h ⊢; exact ⟨h.1, ih h.2⟩
    | ref s =>
      simp only [carveL, Bool.and_eq_true] at h
      simp only [List.map_cons, gsel]
      split
      · simp [carveL, replaced_inert, ih h.2]
      · simp [carveL, siteOK_map, h.1, ih h.2]
    | commaRef _ _ _ => simp [carveL] at h
    | notRef _ _ _ => simp [carveL] at h

theorem pass_lemma (f) (sel allowed : Site → Bool) (hdr : Option Str) (cte : List Key)
    (Hi : ∀ t r, inertTok t = true → f (t :: r) = none)
    (H : ∀ s rest, allowed s = true → s.ok hdr cte rest = true →
      scan f 0 (s.toks ++ flat rest) = (if sel s then [s.replaced hdr] else s.toks) ++ scan f 0 (flat rest)) :
    ∀ q, carveL hdr cte q = true → (∀ s, Item.ref s ∈ q → allowed s = true) →
      scan f 0 (flat q) = flat (q.map (gsel sel hdr)) := by
  intro q
  induction q with
  | nil => intros; rfl
  | cons it rest ih =>
    intro hc ha
    have ha' : ∀ s, Item.ref s ∈ rest → allowed s = true := fun s hs => ha s (by simp [hs])
    cases it with
    | tok t =>
      simp only [carveL, Bool.and_eq_true] at hc
      simp only [flat, Item.toks, List.map_cons, gsel, List.cons_append, List.nil_append]
      rw [scan_none f t _ (Hi t _ hc.1), ih hc.2 ha']
    | ref s =>
      simp only [carveL, Bool.and_eq_true] at hc
      have := H s rest (ha s (by simp)) hc.1
      simp only [flat, Item.toks, List.map_cons, gsel]
      rw [this, ih hc.2 ha']
      split <;> simp [flat, Item.toks]
    | commaRef _ _ _ => simp [carveL] at hc
    | notRef _ _ _ => simp [carveL] at hc

theorem refs_map (sel hdr) (q : List Item) (s : Site) (h : Item.ref s ∈ q.map (gsel sel hdr)) :
    Item.ref s ∈ q ∧ sel s = false := by
  induction q with
  | nil => simp at h
  | cons it rest ih =>
    simp only [List.map_cons, List.mem_cons] at h
    rcases h with h | h
    · cases it with
      | ref s' =>
        simp only [gsel] at h
        split at h
        · cases h
        · next hs => cases h; exact ⟨by simp, by simpa using hs⟩
      | tok _ => simp [gsel] at h
      | commaRef _ _ _ => simp [gsel] at h
      | notRef _ _ _ => simp [gsel] at h
    · have := ih h; exact ⟨by simp [this.1], this.2⟩

-- ---------------------------------------------------------------- inertness of tokens and site tokens
theorem inert_notFrom (t : Tok) (h : inertTok t = true) : notFrom t = true := by
  cases t <;> simp_all [inertTok, notFrom, startWord]

theorem inert_notJoin (t : Tok) (h : inertTok t = true) : notJoinStart t = true := by
  cases t <;> simp_all [inertTok, notJoinStart, startWord]

theorem name_inert (n : NameTok) (h : n.ok = true) : inertTok n.tok = true := by
  cases n <;> simp_all [NameTok.ok, NameTok.tok, inertTok]

theorem resolve_ok (n : NameTok) (h : n.ok = true) : resolve n.tok = n.name := by
  cases n <;> simp_all [NameTok.ok, NameTok.tok, NameTok.name, resolve, Tok.text]

theorem name_wordLike (n : NameTok) : wordLike n.tok = true ∧ simpleName n.tok = true := by
  cases n <;> simp [NameTok.tok, wordLike, simpleName]

theorem site_head (s : Site) : ∃ w tl, s.toks = Tok.w w :: tl := by
  unfold Site.toks
  cases hm : s.mods with
  | cons mg ms => obtain ⟨m, g⟩ := mg; exact ⟨m, _, rfl⟩
  | nil =>
    cases hl : s.lat with
    | some lg => obtain ⟨l, g⟩ := lg; exact ⟨l, _, rfl⟩
    | none => exact ⟨s.kw, _, rfl⟩

theorem nextOK_dotOrCall (rest : List Item) (h : nextOK rest = true) : dotOrCall (flat rest) = false := by
  match rest with
  | [] => rfl
  | .ref s :: _ => obtain ⟨w, tl, hw⟩ := site_head s; simp [flat, Item.toks, hw, dotOrCall, headDotParen]
  | .commaRef _ _ _ :: _ => simp [flat, Item.toks, dotOrCall, headDotParen]
  | .notRef _ _ _ :: _ => simp [flat, Item.toks, dotOrCall, headDotParen]
  | .tok t :: [] => cases t <;> simp_all [flat, Item.toks, dotOrCall, headDotParen, nextOK]
  | .tok t :: .tok u :: _ =>
    cases t <;> cases u <;> simp_all [flat, Item.toks, dotOrCall, headDotParen, nextOK] <;>
      try (intro hd; cases h with | inl h => exact absurd hd h | inr h => exact h)
  | .tok t :: .commaRef _ _ _ :: _ => cases t <;> simp_all [flat, Item.toks, dotOrCall, headDotParen, nextOK]
  | .tok t :: .notRef _ _ _ :: _ => cases t <;> simp_all [flat, Item.toks, dotOrCall, headDotParen, nextOK]
  | .tok t :: .ref s :: _ =>
    obtain ⟨w, tl, hw⟩ := site_head s
    cases t <;> simp_all [flat, Item.toks, dotOrCall, headDotParen, nextOK]

/-- after a bare name the stream does not continue with `.` -/
theorem nextOK_noDot (rest : List Item) (h : nextOK rest = true) (b : Tok) (tl : List Tok) :
    flat rest ≠ Tok.p '.' :: b :: tl := by
  intro hc
  have := nextOK_dotOrCall rest h
  simp [hc, dotOrCall, headDotParen] at this

end Arc.C16
