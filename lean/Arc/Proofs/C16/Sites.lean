import Arc.Proofs.C16.Passes
/-! C16 — what each of the four reference passes does to one table position, and the composition. -/
namespace Arc.C16

def sel1 (s : Site) : Bool := !s.isJoin && s.db.isSome
def sel2 (s : Site) : Bool := s.isJoin && s.db.isSome
def sel3 (s : Site) : Bool := !s.isJoin && s.db.isNone && !s.cte
def sel4 (s : Site) : Bool := s.isJoin && s.db.isNone && !s.cte

theorem mem_preToks (ms : List (Str × Str)) (t : Tok) (h : t ∈ preToks ms) :
    (∃ m g, (m, g) ∈ ms ∧ t = Tok.w m) ∨ ∃ g, t = Tok.s g := by
  induction ms with
  | nil => simp [preToks] at h
  | cons mg ms ih =>
    obtain ⟨m, g⟩ := mg
    simp only [preToks, List.mem_cons] at h
    rcases h with h | h | h
    · exact Or.inl ⟨m, g, by simp, h⟩
    · exact Or.inr ⟨g, h⟩
    · rcases ih h with ⟨m', g', hm, ht⟩ | hs
      · exact Or.inl ⟨m', g', by simp [hm], ht⟩
      · exact Or.inr hs

/-- every token of a join position is not the word FROM -/
theorem join_site_notFrom (ms lat kw gap db tbl)
    (hm : ∀ m ∈ ms, isMod m.1 = true) (hk : lower kw = ['j', 'o', 'i', 'n']) (hl : latOK lat)
    (ht : NameTok.ok tbl = true) (hd : ∀ d, db = some d → NameTok.ok d = true) :
    ∀ t ∈ preToks ms ++ (latToks lat ++ (Tok.w kw :: Tok.s gap :: nameToks db tbl)), notFrom t = true := by
  intro t h
  simp only [List.mem_append, List.mem_cons] at h
  rcases h with h | h | h | h | h
  · rcases mem_preToks ms t h with ⟨m, g, hmg, rfl⟩ | ⟨g, rfl⟩
    · have := (isMod_not_kw m (hm (m, g) hmg)).1
      simp [notFrom, this]
    · rfl
  · cases lat with
    | none => simp [latToks] at h
    | some lg =>
      obtain ⟨l, g⟩ := lg
      have hl' : lower l = ['l', 'a', 't', 'e', 'r', 'a', 'l'] := hl
      simp only [latToks, List.mem_cons, List.mem_nil_iff, or_false] at h
      rcases h with rfl | rfl
      · simp [notFrom, hl']
      · rfl
  · subst h; simp [notFrom, hk]
  · subst h; rfl
  · cases db with
    | none =>
      simp only [nameToks, List.mem_cons, List.mem_nil_iff, or_false] at h
      subst h; exact inert_notFrom _ (name_inert _ ht)
    | some d =>
      simp only [nameToks, List.mem_cons, List.mem_nil_iff, or_false] at h
      rcases h with rfl | rfl | rfl
      · exact inert_notFrom _ (name_inert _ (hd d rfl))
      · rfl
      · exact inert_notFrom _ (name_inert _ ht)

-- ---------------------------------------------------------------- join tails
theorem bare_not_lateral (tbl : NameTok) (ht : tbl.ok = true) (l : Str) (h : tbl.tok = Tok.w l) :
    ¬ lower l = ['l', 'a', 't', 'e', 'r', 'a', 'l'] := by
  cases tbl with
  | bare s =>
    simp only [NameTok.tok, Tok.w.injEq] at h
    subst h
    simp only [NameTok.ok, startWord, Bool.not_eq_true', Bool.or_eq_false_iff] at ht
    intro hc
    simp [hc] at ht
  | quoted s => simp [NameTok.tok] at h

theorem joinDbTail_none (words n) (tbl : NameTok) (R : List Tok) (ht : tbl.ok = true)
    (hR : ∀ b tl, R ≠ Tok.p '.' :: b :: tl) : joinDbTail words n (tbl.tok :: R) = none := by
  unfold joinDbTail
  have hplain : (match tbl.tok :: R with
      | a :: Tok.p '.' :: b :: _ => if wordLike a && wordLike b then some ([Tok.rpJ words (resolve a) (resolve b)], n + 3) else none
      | _ => none) = none := by
    split
    · next heq =>
      simp only [List.cons.injEq] at heq
      exact absurd heq.2 (hR _ _)
    · rfl
  simp only
  split
  · next heq =>
    simp only [List.cons.injEq] at heq
    have := bare_not_lateral tbl ht _ heq.1
    rw [if_neg (by simp [this])]
    exact hplain
  · exact hplain

theorem joinDb_simple (ms : List (Str × Str)) (lat kw gap) (tbl : NameTok) (R : List Tok)
    (hm : ∀ m ∈ ms, isMod m.1 = true) (hk : lower kw = ['j', 'o', 'i', 'n']) (hl : latOK lat)
    (ht : tbl.ok = true) (hR : ∀ b tl, R ≠ Tok.p '.' :: b :: tl) :
    scan joinDbAt 0 (preToks ms ++ (latToks lat ++ (Tok.w kw :: Tok.s gap :: tbl.tok :: R))) =
      preToks ms ++ (latToks lat ++ (Tok.w kw :: Tok.s gap :: tbl.tok :: scan joinDbAt 0 R)) := by
  have atHead : ∀ ms' lat', (∀ m ∈ ms', isMod m.1 = true) → latOK lat' →
      joinDbAt (preToks ms' ++ (latToks lat' ++ (Tok.w kw :: Tok.s gap :: tbl.tok :: R))) = none := by
    intro ms' lat' h1 h2
    simp [joinDbAt, modsThenJoin_prefix ms' lat' kw gap _ h1 hk h2, joinDbTail_none _ _ tbl R ht hR]
  have base : scan joinDbAt 0 (Tok.w kw :: Tok.s gap :: tbl.tok :: R) =
      Tok.w kw :: Tok.s gap :: tbl.tok :: scan joinDbAt 0 R := by
    have h0 := atHead [] none (by simp) trivial
    simp only [preToks, latToks, List.nil_append] at h0
    rw [scan_none _ _ _ h0, scan_none _ _ _ (joinDbAt_none _ _ rfl),
      scan_none _ _ _ (joinDbAt_none _ _ (inert_notJoin _ (name_inert _ ht)))]
  induction ms with
  | nil =>
    cases lat with
    | none => simpa [preToks, latToks] using base
    | some lg =>
      obtain ⟨l, g⟩ := lg
      have h0 := atHead [] (some (l, g)) (by simp) hl
      simp only [preToks, latToks, List.nil_append, List.cons_append] at h0 ⊢
      rw [scan_none _ _ _ h0, scan_none _ _ _ (joinDbAt_none _ _ rfl), base]
  | cons mg ms ih =>
    obtain ⟨m, g⟩ := mg
    have h0 := atHead ((m, g) :: ms) lat hm hl
    simp only [preToks, List.cons_append] at h0 ⊢
    rw [scan_none _ _ _ h0, scan_none _ _ _ (joinDbAt_none _ _ rfl), ih (fun x hx => hm x (by simp [hx]))]

theorem joinSimpleTail_some (cte db ts words n) (tbl : NameTok) (R : List Tok) (ht : tbl.ok = true) :
    joinSimpleTail cte db ts words n (tbl.tok :: R) =
      some (if replaceOK cte tbl.tok R then [Tok.rpJ words db (resolve tbl.tok)] else ts.take (n + 1), n + 1) := by
  unfold joinSimpleTail
  have hplain : (match tbl.tok :: R with
      | nm :: rest =>
        if simpleName nm then some (if replaceOK cte nm rest then [Tok.rpJ words db (resolve nm)] else ts.take (n + 1), n + 1) else none
      | [] => none) =
      some (if replaceOK cte tbl.tok R then [Tok.rpJ words db (resolve tbl.tok)] else ts.take (n + 1), n + 1) := by
    simp [(name_wordLike tbl).2]
  simp only
  split
  · next heq =>
    simp only [List.cons.injEq] at heq
    have := bare_not_lateral tbl ht _ heq.1
    rw [if_neg (by simp [this])]
    exact hplain
  · exact hplain

-- ---------------------------------------------------------------- Site.ok unpacked
theorem replaceOK_eq (hdr cte) (mods lat kw isJoin gap tbl c) (rest : List Item)
    (hok : Site.ok hdr cte ⟨mods, lat, kw, isJoin, gap, none, tbl, c⟩ rest = true) :
    replaceOK cte tbl.tok (flat rest) = !c ∧ resolve tbl.tok = tbl.name := by
  simp only [Site.ok, Site.wf, Bool.and_eq_true, Option.isNone_none, Bool.true_or, and_true] at hok
  obtain ⟨⟨ht, _⟩, ⟨hcte, hskip⟩, hnext⟩ := hok
  have hres := resolve_ok tbl ht
  refine ⟨?_, hres⟩
  have hdot := nextOK_dotOrCall rest hnext
  simp only [replaceOK, hdot, hres]
  cases c with
  | true =>
    have : modelCte cte tbl.tok = true := by simpa using hcte.symm
    simp only [modelCte, hres, Bool.or_eq_true] at this
    rcases this with h | h <;> simp [h]
  | false =>
    have : modelCte cte tbl.tok = false := by simpa using hcte.symm
    simp only [modelCte, hres, Bool.or_eq_false_iff] at this
    have hs : shouldSkip (lower tbl.name) = false := by simpa using hskip
    simp [this.1, this.2, hs]

theorem ok_from (hdr cte mods lat kw gap db tbl c) (rest : List Item)
    (h : Site.ok hdr cte ⟨mods, lat, kw, false, gap, db, tbl, c⟩ rest = true) :
    mods = [] ∧ lat = none ∧ lower kw = ['f', 'r', 'o', 'm'] ∧ tbl.ok = true ∧
      (∀ d, db = some d → d.ok = true ∧ hdr = none ∧ c = false) ∧ (db = none → nextOK rest = true) := by
  cases db with
  | none =>
    simp only [Site.ok, Site.wf, Bool.and_eq_true, Option.isNone_none, Bool.true_or, and_true] at h
    obtain ⟨⟨ht, hw⟩, _, hnext⟩ := h
    simp only [Bool.false_eq_true, if_false, Bool.and_eq_true, List.isEmpty_iff, Option.isNone_iff_eq_none, beq_iff_eq] at hw
    exact ⟨hw.1.1, hw.1.2, by simpa using hw.2, ht, by simp, fun _ => hnext⟩
  | some d =>
    simp only [Site.ok, Site.wf, Bool.and_eq_true, Option.isNone_some, Bool.false_or] at h
    obtain ⟨⟨⟨⟨ht, hd⟩, hw⟩, hh⟩, hc⟩ := h
    simp only [Bool.false_eq_true, if_false, Bool.and_eq_true, List.isEmpty_iff, Option.isNone_iff_eq_none, beq_iff_eq] at hw
    refine ⟨hw.1.1, hw.1.2, by simpa using hw.2, ht, ?_, by simp⟩
    intro d' hd'
    cases hd'
    exact ⟨hd, by simpa using hh, by simpa using hc⟩

theorem ok_join (hdr cte mods lat kw gap db tbl c) (rest : List Item)
    (h : Site.ok hdr cte ⟨mods, lat, kw, true, gap, db, tbl, c⟩ rest = true) :
    (∀ m ∈ mods, isMod m.1 = true) ∧ latOK lat ∧ lower kw = ['j', 'o', 'i', 'n'] ∧ tbl.ok = true ∧
      (∀ d, db = some d → d.ok = true ∧ hdr = none ∧ c = false) ∧ (db = none → nextOK rest = true) := by
  have hwf : (∀ m ∈ mods, isMod m.1 = true) ∧ latOK lat ∧ lower kw = ['j', 'o', 'i', 'n'] := by
    have : Site.wf ⟨mods, lat, kw, true, gap, db, tbl, c⟩ = true := by
      simp only [Site.ok, Bool.and_eq_true] at h; exact h.1.1
    simp only [Site.wf, Bool.and_eq_true, if_true, List.all_eq_true, beq_iff_eq] at this
    obtain ⟨_, ⟨hm, hk⟩, hl⟩ := this
    refine ⟨fun m hm' => hm m hm', ?_, by simpa using hk⟩
    cases lat with
    | none => trivial
    | some lg => obtain ⟨l, g⟩ := lg; simpa [latOK] using hl
  cases db with
  | none =>
    simp only [Site.ok, Site.wf, Bool.and_eq_true, Option.isNone_none, Bool.true_or, and_true] at h
    obtain ⟨⟨ht, _⟩, _, hnext⟩ := h
    exact ⟨hwf.1, hwf.2.1, hwf.2.2, ht, by simp, fun _ => hnext⟩
  | some d =>
    simp only [Site.ok, Site.wf, Bool.and_eq_true, Option.isNone_some, Bool.false_or] at h
    obtain ⟨⟨⟨⟨ht, hd⟩, _⟩, hh⟩, hc⟩ := h
    refine ⟨hwf.1, hwf.2.1, hwf.2.2, ht, ?_, by simp⟩
    intro d' hd'
    cases hd'
    exact ⟨hd, by simpa using hh, by simpa using hc⟩

end Arc.C16
