import Arc.Model.C16
/-!
C16 — SPEC (annotated token grammar of prepared statements) and the substitution proof.

`Item` is the grammar of a statement AFTER the preparation phases of the rewrite (string literals and
quoted identifiers are single tokens, FROM keywords inside EXTRACT/SUBSTRING/TRIM/OVERLAY bodies are
`Tok.m`, comments are gone, whitespace runs are merged).  Every token of the statement is an `Item`;
the annotation says what the token sequence MEANS to DuckDB's binder:

  * `ref s`      a table position introduced by FROM or by a join operator, `s.cte` = the binder resolves
                 the name to a CTE in scope (otherwise it is a base table = a stored measurement);
  * `commaRef`   a table position continuing a FROM list after a comma;
  * `notRef`     the FROM keyword of `IS [NOT] DISTINCT FROM <operand>`: not a table position;
  * `tok t`      anything else (select lists, predicates, parentheses of sub-queries and CTE bodies,
                 function calls, column qualifiers `a.b`, masked function-body FROMs, …).

`flat` forgets the annotation (that is the text Arc sees), `baseTableRefs` reads it, `mapRefs` replaces
every base-table reference by its read_parquet call and NOTHING else.
-/
namespace Arc.C16

inductive NameTok where
  | bare (s : Str)
  | quoted (s : Str)      -- text with the quotes
  deriving DecidableEq, Repr

def NameTok.tok : NameTok → Tok
  | .bare s => .w s
  | .quoted s => .q s

/-- the measurement / database name the binder sees -/
def NameTok.name : NameTok → Str
  | .bare s => s
  | .quoted s => unquote s

structure Site where
  mods : List (Str × Str)        -- join modifiers as written, each with the whitespace after it
  lat : Option (Str × Str)       -- `LATERAL` + whitespace in front of JOIN
  kw : Str                       -- the FROM / JOIN word as written
  isJoin : Bool
  gap : Str                      -- whitespace before the name
  db : Option NameTok
  tbl : NameTok
  cte : Bool
  deriving DecidableEq, Repr

inductive Item where
  | tok (t : Tok)
  | ref (s : Site)
  | commaRef (gap : Str) (tbl : NameTok) (cte : Bool)
  | notRef (kw gap : Str) (operand : Tok)
  deriving DecidableEq, Repr

def preToks : List (Str × Str) → List Tok
  | [] => []
  | (m, g) :: rest => .w m :: .s g :: preToks rest

def latToks : Option (Str × Str) → List Tok
  | none => []
  | some (l, g) => [.w l, .s g]

def nameToks (db : Option NameTok) (tbl : NameTok) : List Tok :=
  match db with
  | none => [tbl.tok]
  | some d => [d.tok, .p '.', tbl.tok]

def Site.toks (s : Site) : List Tok :=
  preToks s.mods ++ (latToks s.lat ++ (.w s.kw :: .s s.gap :: nameToks s.db s.tbl))

def Item.toks : Item → List Tok
  | .tok t => [t]
  | .ref s => s.toks
  | .commaRef g t _ => [.p ',', .s g, t.tok]
  | .notRef k g o => [.w k, .s g, o]

def flat : List Item → List Tok
  | [] => []
  | it :: rest => it.toks ++ flat rest

/-- what DuckDB's binder resolves as base tables -/
def baseTableRefs : List Item → List (Option NameTok × NameTok)
  | [] => []
  | .ref s :: rest => (if s.cte then [] else [(s.db, s.tbl)]) ++ baseTableRefs rest
  | .commaRef _ t c :: rest => (if c then [] else [(none, t)]) ++ baseTableRefs rest
  | _ :: rest => baseTableRefs rest

def Site.words (s : Site) : List Str :=
  s.mods.map Prod.fst ++ ((match s.lat with | none => [] | some (l, _) => [l]) ++ [s.kw])

def dbOf (hdr : Option Str) (db : Option NameTok) : Str :=
  match db with
  | some d => d.name
  | none => hdr.getD "default".toList

/-- readParquetOf: the replacement of one base-table reference -/
def Site.replaced (hdr : Option Str) (s : Site) : Tok :=
  if s.isJoin then .rpJ s.words (dbOf hdr s.db) s.tbl.name else .rpF (dbOf hdr s.db) s.tbl.name

def mapItem (hdr : Option Str) : Item → Item
  | .ref s => if s.cte then .ref s else .tok (s.replaced hdr)
  | it => it

/-- `q.mapRefs readParquetOf` for the positions the FROM/JOIN grammar introduces -/
def mapRefs (hdr : Option Str) (q : List Item) : List Item := q.map (mapItem hdr)

-- ---------------------------------------------------------------- the carve-out (decidable)
def startWord (s : Str) : Bool :=
  lower s == "from".toList || lower s == "join".toList || lower s == "lateral".toList || isMod s

/-- a token that cannot start a match of any reference pattern -/
def inertTok : Tok → Bool
  | .w s => !startWord s
  | _ => true

def NameTok.ok : NameTok → Bool
  | .bare s => !startWord s
  | .quoted s => validIdent (unquote s)

def Site.wf (s : Site) : Bool :=
  s.tbl.ok && (match s.db with | none => true | some d => d.ok) &&
  (if s.isJoin then
    s.mods.all (fun m => isMod m.1) && lower s.kw == "join".toList &&
      (match s.lat with | none => true | some (l, _) => lower l == "lateral".toList)
   else s.mods.isEmpty && s.lat.isNone && lower s.kw == "from".toList)

/-- the model's view: is this name in the CTE registry? -/
def modelCte (cte : List Key) (nm : Tok) : Bool :=
  cteHas cte (keyOf nm) || cteHas cte (.w (lower (resolve nm)))

/-- what follows a bare name: not (blanks then) `.` or `(` -/
def nextOK : List Item → Bool
  | .tok (.p c) :: _ => !(c == '.' || c == '(')
  | .tok (.s sp) :: .tok (.p c) :: _ => !((sp.dropWhile blank4).isEmpty && (c == '.' || c == '('))
  | .tok (.s _) :: .tok (.s _) :: _ => false   -- runs are merged
  | _ => true

def Site.ok (hdr : Option Str) (cte : List Key) (s : Site) (rest : List Item) : Bool :=
  s.wf &&
  (match s.db with
    | some _ => hdr.isNone            -- with the header, db.table statements are rejected (not accepted queries)
    | none => s.cte == modelCte cte s.tbl.tok && (s.cte || !shouldSkip (lower s.tbl.name)) && nextOK rest) &&
  (s.db.isNone || !s.cte)

def carveL (hdr : Option Str) (cte : List Key) : List Item → Bool
  | [] => true
  | .tok t :: rest => inertTok t && carveL hdr cte rest
  | .ref s :: rest => s.ok hdr cte rest && carveL hdr cte rest
  | .commaRef _ _ _ :: _ => false
  | .notRef _ _ _ :: _ => false

/-- the CTE registry the code builds for this statement -/
def cteOf (_hdr : Option Str) (s : List Tok) : List Key := cteReg s

def Carve (hdr : Option Str) (q : List Item) : Bool := carveL hdr (cteOf hdr (flat q)) q

-- ---------------------------------------------------------------- scan lemmas
theorem scan_skip (f) (xs rest : List Tok) : scan f xs.length (xs ++ rest) = scan f 0 rest := by
  induction xs with
  | nil => rfl
  | cons x xs ih => simpa [scan] using ih

theorem scan_none (f) (t : Tok) (rest : List Tok) (h : f (t :: rest) = none) :
    scan f 0 (t :: rest) = t :: scan f 0 rest := by
  simp [scan, h]

theorem scan_some (f) (t : Tok) (xs rest out : List Tok) (h : f (t :: (xs ++ rest)) = some (out, xs.length + 1)) :
    scan f 0 (t :: (xs ++ rest)) = out ++ scan f 0 rest := by
  simp [scan, h, scan_skip]

/-- a block of tokens none of which starts a match is copied -/
theorem scan_inert (f) (xs rest : List Tok) (h : ∀ t ∈ xs, ∀ r, f (t :: r) = none) :
    scan f 0 (xs ++ rest) = xs ++ scan f 0 rest := by
  induction xs with
  | nil => rfl
  | cons x xs ih =>
    have hx := h x (by simp) (xs ++ rest)
    simp only [List.cons_append]
    rw [scan_none f x _ hx, ih (fun t ht r => h t (by simp [ht]) r)]

-- ---------------------------------------------------------------- which tokens cannot start a match
def notFrom : Tok → Bool
  | .w s => !(lower s == "from".toList)
  | _ => true

def notJoinStart : Tok → Bool
  | .w s => !(lower s == "join".toList || lower s == "lateral".toList || isMod s)
  | _ => true

theorem fromDbAt_none (t : Tok) (r : List Tok) (h : notFrom t = true) : fromDbAt (t :: r) = none := by
  cases t with
  | w s =>
    have hs : ¬ lower s = ['f', 'r', 'o', 'm'] := by simpa [notFrom] using h
    unfold fromDbAt
    split
    · next heq =>
      simp only [List.cons.injEq, Tok.w.injEq] at heq
      obtain ⟨h1, _⟩ := heq
      subst h1
      simp [hs]
    · rfl
  | _ => simp [fromDbAt]

theorem fromSimpleAt_none (cte db) (t : Tok) (r : List Tok) (h : notFrom t = true) :
    fromSimpleAt cte db (t :: r) = none := by
  cases t with
  | w s =>
    have hs : ¬ lower s = ['f', 'r', 'o', 'm'] := by simpa [notFrom] using h
    unfold fromSimpleAt
    split
    · next heq =>
      simp only [List.cons.injEq, Tok.w.injEq] at heq
      obtain ⟨h1, _⟩ := heq
      subst h1
      simp [hs]
    · rfl
  | _ => simp [fromSimpleAt]

theorem modsThenJoin_none (t : Tok) (r : List Tok) (h : notJoinStart t = true) : modsThenJoin (t :: r) = none := by
  cases t with
  | w s =>
    have h' : (¬ lower s = ['j', 'o', 'i', 'n'] ∧ ¬ lower s = ['l', 'a', 't', 'e', 'r', 'a', 'l']) ∧ isMod s = false := by
      simpa [notJoinStart] using h
    obtain ⟨⟨hj, hl⟩, hm⟩ := h'
    unfold modsThenJoin
    split
    · next heq =>
      simp only [List.cons.injEq, Tok.w.injEq] at heq
      obtain ⟨h1, _⟩ := heq
      subst h1
      simp [hj, hl, hm]
    · rfl
  | _ => simp [modsThenJoin]

theorem joinDbAt_none (t : Tok) (r : List Tok) (h : notJoinStart t = true) : joinDbAt (t :: r) = none := by
  simp [joinDbAt, modsThenJoin_none t r h]

theorem joinSimpleAt_none (cte db) (t : Tok) (r : List Tok) (h : notJoinStart t = true) :
    joinSimpleAt cte db (t :: r) = none := by
  simp [joinSimpleAt, modsThenJoin_none t r h]

-- ---------------------------------------------------------------- keyword facts
theorem isMod_not_kw (s : Str) (h : isMod s = true) :
    ¬ lower s = ['f', 'r', 'o', 'm'] ∧ ¬ lower s = ['j', 'o', 'i', 'n'] ∧ ¬ lower s = ['l', 'a', 't', 'e', 'r', 'a', 'l'] := by
  refine ⟨?_, ?_, ?_⟩ <;> intro hc <;> simp [isMod, joinMods, hc] at h

theorem join_not_mod (s : Str) (h : lower s = ['j', 'o', 'i', 'n']) : isMod s = false := by
  simp [isMod, joinMods, h]

theorem lateral_not_mod (s : Str) (h : lower s = ['l', 'a', 't', 'e', 'r', 'a', 'l']) : isMod s = false := by
  simp [isMod, joinMods, h]

-- ---------------------------------------------------------------- the join prefix
def latWords : Option (Str × Str) → List Str
  | none => []
  | some (l, _) => [l]

def latOK : Option (Str × Str) → Prop
  | none => True
  | some (l, _) => lower l = ['l', 'a', 't', 'e', 'r', 'a', 'l']

theorem modsThenJoin_prefix (ms : List (Str × Str)) (lat : Option (Str × Str)) (kw gap : Str) (r : List Tok)
    (hm : ∀ m ∈ ms, isMod m.1 = true) (hk : lower kw = ['j', 'o', 'i', 'n']) (hl : latOK lat) :
    modsThenJoin (preToks ms ++ (latToks lat ++ (.w kw :: .s gap :: r))) =
      some (ms.map Prod.fst ++ (latWords lat ++ [kw]), (preToks ms).length + ((latToks lat).length + 2), r) := by
  induction ms with
  | nil =>
    cases lat with
    | none => simp [preToks, latToks, latWords, modsThenJoin, hk, join_not_mod kw hk]
    | some lg =>
      obtain ⟨l, g⟩ := lg
      have hl' : lower l = ['l', 'a', 't', 'e', 'r', 'a', 'l'] := hl
      simp [preToks, latToks, latWords, modsThenJoin, hk, hl', lateral_not_mod l hl']
  | cons mg ms ih =>
    obtain ⟨m, g⟩ := mg
    have hmm : isMod m = true := hm (m, g) (by simp)
    have ih' := ih (fun x hx => hm x (by simp [hx]))
    simp only [preToks, List.cons_append, modsThenJoin, hmm, if_true, ih', Option.map_some, List.map_cons, List.length_cons]
    simp only [Option.some.injEq, Prod.mk.injEq, true_and, and_true]
    omega

end Arc.C16
