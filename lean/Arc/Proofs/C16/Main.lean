import Arc.Proofs.C16.Sites
/-! C16 — the four passes on one table position (H1–H4), their composition, the substitution theorem. -/
namespace Arc.C16

theorem site_toks_from (kw gap db tbl c) :
    Site.toks ⟨[], none, kw, false, gap, db, tbl, c⟩ = Tok.w kw :: Tok.s gap :: nameToks db tbl := by
  simp [Site.toks, preToks, latToks]

theorem words_eq (mods lat kw j gap db tbl c) :
    Site.words ⟨mods, lat, kw, j, gap, db, tbl, c⟩ = mods.map Prod.fst ++ (latWords lat ++ [kw]) := by
  cases lat with
  | none => simp [Site.words, latWords]
  | some lg => obtain ⟨l, g⟩ := lg; simp [Site.words, latWords]

theorem from_site_notJoin (kw gap tbl) (hk : lower kw = ['f', 'r', 'o', 'm']) (ht : NameTok.ok tbl = true) :
    ∀ t ∈ [Tok.w kw, Tok.s gap, tbl.tok], ∀ r, modsThenJoin (t :: r) = none := by
  intro t h r
  simp only [List.mem_cons, List.mem_nil_iff, or_false] at h
  rcases h with rfl | rfl | rfl
  · exact modsThenJoin_none _ _ (by simp [notJoinStart, hk, isMod, joinMods])
  · exact modsThenJoin_none _ _ rfl
  · exact modsThenJoin_none _ _ (inert_notJoin _ (name_inert _ ht))

/-- pass 1: `FROM db.table` -/
theorem H1 (hdr cte) (s : Site) (rest : List Item) (hok : s.ok hdr cte rest = true) :
    scan fromDbAt 0 (s.toks ++ flat rest) =
      (if sel1 s then [s.replaced hdr] else s.toks) ++ scan fromDbAt 0 (flat rest) := by
  obtain ⟨mods, lat, kw, isJoin, gap, db, tbl, c⟩ := s
  cases isJoin with
  | false =>
    obtain ⟨rfl, rfl, hk, ht, hd, hn⟩ := ok_from hdr cte mods lat kw gap db tbl c rest hok
    rw [site_toks_from]
    cases db with
    | none =>
      have h0 : fromDbAt (Tok.w kw :: Tok.s gap :: tbl.tok :: flat rest) = none := by
        unfold fromDbAt
        split
        · next heq =>
          simp only [List.cons.injEq] at heq
          exact absurd heq.2.2.2 (nextOK_noDot rest (hn rfl) _ _)
        · rfl
      simp only [nameToks, sel1, Bool.not_false, Option.isSome_none, Bool.and_false, Bool.false_eq_true, if_false,
        List.cons_append, List.nil_append]
      rw [scan_none _ _ _ h0, scan_none _ _ _ (fromDbAt_none _ _ rfl),
        scan_none _ _ _ (fromDbAt_none _ _ (inert_notFrom _ (name_inert _ ht)))]
    | some d =>
      obtain ⟨hdo, rfl, rfl⟩ := hd d rfl
      have h0 : fromDbAt (Tok.w kw :: ([Tok.s gap, d.tok, Tok.p '.', tbl.tok] ++ flat rest)) =
          some ([Tok.rpF (resolve d.tok) (resolve tbl.tok)], [Tok.s gap, d.tok, Tok.p '.', tbl.tok].length + 1) := by
        simp [fromDbAt, hk, (name_wordLike d).1, (name_wordLike tbl).1]
      have := scan_some _ _ _ _ _ h0
      simp only [nameToks, sel1, Bool.not_false, Option.isSome_some, Bool.and_true, if_true, List.cons_append,
        List.nil_append] at this ⊢
      rw [this]
      simp [Site.replaced, dbOf, resolve_ok d hdo, resolve_ok tbl ht]
  | true =>
    obtain ⟨hm, hl, hk, ht, hd, _⟩ := ok_join hdr cte mods lat kw gap db tbl c rest hok
    have hin := join_site_notFrom mods lat kw gap db tbl hm hk hl ht (fun d h => (hd d h).1)
    simp only [sel1, Bool.not_true, Bool.false_and, Bool.false_eq_true, if_false, Site.toks]
    exact scan_inert _ _ _ (fun t h r => fromDbAt_none t r (hin t h))

/-- pass 2: `<join> db.table` -/
theorem H2 (hdr cte) (s : Site) (rest : List Item) (ha : sel1 s = false) (hok : s.ok hdr cte rest = true) :
    scan joinDbAt 0 (s.toks ++ flat rest) =
      (if sel2 s then [s.replaced hdr] else s.toks) ++ scan joinDbAt 0 (flat rest) := by
  obtain ⟨mods, lat, kw, isJoin, gap, db, tbl, c⟩ := s
  cases isJoin with
  | false =>
    obtain ⟨rfl, rfl, hk, ht, _, _⟩ := ok_from hdr cte mods lat kw gap db tbl c rest hok
    cases db with
    | some d => simp [sel1] at ha
    | none =>
      rw [site_toks_from]
      simp only [nameToks, sel2, Bool.false_and, Bool.false_eq_true, if_false]
      exact scan_inert _ _ _ (fun t h r => by simp [joinDbAt, from_site_notJoin kw gap tbl hk ht t h r])
  | true =>
    obtain ⟨hm, hl, hk, ht, hd, hn⟩ := ok_join hdr cte mods lat kw gap db tbl c rest hok
    cases db with
    | none =>
      simp only [sel2, Option.isSome_none, Bool.and_false, Bool.false_eq_true, if_false, Site.toks, nameToks,
        List.append_assoc, List.cons_append, List.nil_append]
      exact joinDb_simple mods lat kw gap tbl (flat rest) hm hk hl ht (nextOK_noDot rest (hn rfl))
    | some d =>
      obtain ⟨hdo, rfl, rfl⟩ := hd d rfl
      have hne : Site.toks ⟨mods, lat, kw, true, gap, some d, tbl, false⟩ ≠ [] := by
        obtain ⟨w, tl, h⟩ := site_head ⟨mods, lat, kw, true, gap, some d, tbl, false⟩
        simp [h]
      have hlen : (Site.toks ⟨mods, lat, kw, true, gap, some d, tbl, false⟩).length =
          (preToks mods).length + ((latToks lat).length + 2) + 3 := by
        simp [Site.toks, nameToks]; omega
      have h0 : joinDbAt (Site.toks ⟨mods, lat, kw, true, gap, some d, tbl, false⟩ ++ flat rest) =
          some ([Tok.rpJ (mods.map Prod.fst ++ (latWords lat ++ [kw])) (resolve d.tok) (resolve tbl.tok)],
            (Site.toks ⟨mods, lat, kw, true, gap, some d, tbl, false⟩).length) := by
        rw [hlen]
        simp only [Site.toks, nameToks, List.append_assoc, List.cons_append, List.nil_append, joinDbAt,
          modsThenJoin_prefix mods lat kw gap _ hm hk hl]
        cases d <;> simp [joinDbTail, NameTok.tok, wordLike] <;> (cases tbl <;> rfl)
      rw [scan_some' _ _ _ _ hne h0]
      simp [sel2, Site.replaced, dbOf, words_eq, resolve_ok d hdo, resolve_ok tbl ht]

/-- pass 3: `FROM table` -/
theorem H3 (hdr cte) (s : Site) (rest : List Item) (ha : s.db.isNone = true) (hok : s.ok hdr cte rest = true) :
    scan (fromSimpleAt cte (hdr.getD "default".toList)) 0 (s.toks ++ flat rest) =
      (if sel3 s then [s.replaced hdr] else s.toks) ++ scan (fromSimpleAt cte (hdr.getD "default".toList)) 0 (flat rest) := by
  obtain ⟨mods, lat, kw, isJoin, gap, db, tbl, c⟩ := s
  cases db with
  | some d => simp at ha
  | none =>
  cases isJoin with
  | false =>
    obtain ⟨rfl, rfl, hk, ht, _, _⟩ := ok_from hdr cte mods lat kw gap none tbl c rest hok
    obtain ⟨hr, hres⟩ := replaceOK_eq hdr cte [] none kw false gap tbl c rest hok
    rw [site_toks_from]
    have h0 : fromSimpleAt cte (hdr.getD "default".toList) (Tok.w kw :: ([Tok.s gap, tbl.tok] ++ flat rest)) =
        some (if replaceOK cte tbl.tok (flat rest) then [Tok.rpF (hdr.getD "default".toList) (resolve tbl.tok)]
          else [Tok.w kw, Tok.s gap, tbl.tok], [Tok.s gap, tbl.tok].length + 1) := by
      simp [fromSimpleAt, hk, (name_wordLike tbl).2]
    have := scan_some _ _ _ _ _ h0
    simp only [nameToks, List.cons_append, List.nil_append] at this ⊢
    rw [this, hr, hres]
    cases c <;> simp [sel3, Site.replaced, dbOf]
  | true =>
    obtain ⟨hm, hl, hk, ht, hd, _⟩ := ok_join hdr cte mods lat kw gap none tbl c rest hok
    have hin := join_site_notFrom mods lat kw gap none tbl hm hk hl ht (fun d h => (hd d h).1)
    simp only [sel3, Bool.not_true, Bool.false_and, Bool.false_eq_true, if_false, Site.toks]
    exact scan_inert _ _ _ (fun t h r => fromSimpleAt_none _ _ t r (hin t h))

/-- pass 4: `<join> table` -/
theorem H4 (hdr cte) (s : Site) (rest : List Item) (ha : s.db.isNone = true) (hok : s.ok hdr cte rest = true) :
    scan (joinSimpleAt cte (hdr.getD "default".toList)) 0 (s.toks ++ flat rest) =
      (if sel4 s then [s.replaced hdr] else s.toks) ++ scan (joinSimpleAt cte (hdr.getD "default".toList)) 0 (flat rest) := by
  obtain ⟨mods, lat, kw, isJoin, gap, db, tbl, c⟩ := s
  cases db with
  | some d => simp at ha
  | none =>
  cases isJoin with
  | false =>
    obtain ⟨rfl, rfl, hk, ht, _, _⟩ := ok_from hdr cte mods lat kw gap none tbl c rest hok
    rw [site_toks_from]
    simp only [nameToks, sel4, Bool.false_and, Bool.false_eq_true, if_false]
    exact scan_inert _ _ _ (fun t h r => by simp [joinSimpleAt, from_site_notJoin kw gap tbl hk ht t h r])
  | true =>
    obtain ⟨hm, hl, hk, ht, _, _⟩ := ok_join hdr cte mods lat kw gap none tbl c rest hok
    obtain ⟨hr, hres⟩ := replaceOK_eq hdr cte mods lat kw true gap tbl c rest hok
    have hne : Site.toks ⟨mods, lat, kw, true, gap, none, tbl, c⟩ ≠ [] := by
      obtain ⟨w, tl, h⟩ := site_head ⟨mods, lat, kw, true, gap, none, tbl, c⟩
      simp [h]
    have hlen : (Site.toks ⟨mods, lat, kw, true, gap, none, tbl, c⟩).length =
        (preToks mods).length + ((latToks lat).length + 2) + 1 := by
      simp [Site.toks, nameToks]; omega
    have h0 : joinSimpleAt cte (hdr.getD "default".toList) (Site.toks ⟨mods, lat, kw, true, gap, none, tbl, c⟩ ++ flat rest) =
        some (if replaceOK cte tbl.tok (flat rest) then
            [Tok.rpJ (mods.map Prod.fst ++ (latWords lat ++ [kw])) (hdr.getD "default".toList) (resolve tbl.tok)]
          else Site.toks ⟨mods, lat, kw, true, gap, none, tbl, c⟩,
          (Site.toks ⟨mods, lat, kw, true, gap, none, tbl, c⟩).length) := by
      have htake : (Site.toks ⟨mods, lat, kw, true, gap, none, tbl, c⟩ ++ flat rest).take
          ((preToks mods).length + ((latToks lat).length + 2) + 1) = Site.toks ⟨mods, lat, kw, true, gap, none, tbl, c⟩ := by
        rw [← hlen]; exact List.take_left'  rfl
      have hm' := modsThenJoin_prefix mods lat kw gap (tbl.tok :: flat rest) hm hk hl
      have hassoc : Site.toks ⟨mods, lat, kw, true, gap, none, tbl, c⟩ ++ flat rest =
          preToks mods ++ (latToks lat ++ (Tok.w kw :: Tok.s gap :: tbl.tok :: flat rest)) := by
        simp [Site.toks, nameToks]
      unfold joinSimpleAt
      rw [hlen]
      conv => lhs; rw [hassoc, hm']
      simp only
      rw [joinSimpleTail_some _ _ _ _ _ tbl (flat rest) ht, ← hassoc, htake]
    rw [scan_some' _ _ _ _ hne h0, hr, hres]
    cases c <;> simp [sel4, Site.replaced, dbOf, words_eq]

-- ---------------------------------------------------------------- composition
theorem compose_none (cte) (q : List Item) (hc : carveL none cte q = true) :
    (((q.map (gsel sel1 none)).map (gsel sel2 none)).map (gsel sel3 none)).map (gsel sel4 none) = mapRefs none q := by
  induction q with
  | nil => rfl
  | cons it rest ih =>
    cases it with
    | tok t =>
      simp only [carveL, Bool.and_eq_true] at hc
      simp only [List.map_cons, gsel, mapRefs, mapItem, List.cons.injEq, true_and]
      exact ih hc.2
    | ref s =>
      simp only [carveL, Bool.and_eq_true] at hc
      have hrest := ih hc.2
      have hok := hc.1
      obtain ⟨mods, lat, kw, isJoin, gap, db, tbl, c⟩ := s
      simp only [mapRefs] at hrest ⊢
      cases isJoin <;> cases db <;> cases c <;>
        simp_all [gsel, sel1, sel2, sel3, sel4, mapItem, Site.ok]
    | commaRef _ _ _ => simp [carveL] at hc
    | notRef _ _ _ => simp [carveL] at hc

theorem compose_some (h : Str) (cte) (q : List Item) (hc : carveL (some h) cte q = true) :
    (q.map (gsel sel3 (some h))).map (gsel sel4 (some h)) = mapRefs (some h) q ∧
      ∀ s, Item.ref s ∈ q → s.db.isNone = true := by
  induction q with
  | nil => exact ⟨rfl, by simp⟩
  | cons it rest ih =>
    cases it with
    | tok t =>
      simp only [carveL, Bool.and_eq_true] at hc
      obtain ⟨h1, h2⟩ := ih hc.2
      refine ⟨?_, fun s hs => h2 s (by simpa using hs)⟩
      simp only [List.map_cons, gsel, mapRefs, mapItem, List.cons.injEq, true_and]
      exact h1
    | ref s =>
      simp only [carveL, Bool.and_eq_true] at hc
      obtain ⟨h1, h2⟩ := ih hc.2
      have hok := hc.1
      obtain ⟨mods, lat, kw, isJoin, gap, db, tbl, c⟩ := s
      have hdb : db = none := by
        cases db with
        | none => rfl
        | some d => simp [Site.ok] at hok
      subst hdb
      refine ⟨?_, ?_⟩
      · simp only [mapRefs] at h1 ⊢
        cases isJoin <;> cases c <;> simp_all [gsel, sel3, sel4, mapItem]
      · intro s hs
        simp only [List.mem_cons, Item.ref.injEq] at hs
        rcases hs with rfl | hs
        · rfl
        · exact h2 s hs
    | commaRef _ _ _ => simp [carveL] at hc
    | notRef _ _ _ => simp [carveL] at hc

theorem passes_none (cte) (q : List Item) (hc : carveL none cte q = true) :
    passes none cte (flat q) = flat (mapRefs none q) := by
  have e1 := pass_lemma fromDbAt sel1 (fun _ => true) none cte
    (fun t r h => fromDbAt_none t r (inert_notFrom t h)) (fun s rest _ hok => H1 none cte s rest hok) q hc (fun _ _ => rfl)
  have c1 := carveL_map sel1 none cte q hc
  have a1 : ∀ s, Item.ref s ∈ q.map (gsel sel1 none) → (fun s => !sel1 s) s = true := fun s hs => by
    simp [(refs_map sel1 none q s hs).2]
  have e2 := pass_lemma joinDbAt sel2 (fun s => !sel1 s) none cte
    (fun t r h => joinDbAt_none t r (inert_notJoin t h))
    (fun s rest ha hok => H2 none cte s rest (by simpa using ha) hok) _ c1 a1
  have c2 := carveL_map sel2 none cte _ c1
  have a2 : ∀ s, Item.ref s ∈ (q.map (gsel sel1 none)).map (gsel sel2 none) → s.db.isNone = true := fun s hs => by
    have h2 := refs_map sel2 none _ s hs
    have h1 := refs_map sel1 none q s h2.1
    have := h1.2; have := h2.2
    obtain ⟨mods, lat, kw, isJoin, gap, db, tbl, c⟩ := s
    cases isJoin <;> cases db <;> simp_all [sel1, sel2]
  have e3 := pass_lemma (fromSimpleAt cte "default".toList) sel3 (fun s => s.db.isNone) none cte
    (fun t r h => fromSimpleAt_none _ _ t r (inert_notFrom t h))
    (fun s rest ha hok => H3 none cte s rest ha hok) _ c2 a2
  have c3 := carveL_map sel3 none cte _ c2
  have a3 : ∀ s, Item.ref s ∈ ((q.map (gsel sel1 none)).map (gsel sel2 none)).map (gsel sel3 none) →
      s.db.isNone = true := fun s hs => a2 s (refs_map sel3 none _ s hs).1
  have e4 := pass_lemma (joinSimpleAt cte "default".toList) sel4 (fun s => s.db.isNone) none cte
    (fun t r h => joinSimpleAt_none _ _ t r (inert_notJoin t h))
    (fun s rest ha hok => H4 none cte s rest ha hok) _ c3 a3
  simp only [passes]
  rw [e1, e2, e3, e4, compose_none cte q hc]

theorem passes_some (h : Str) (cte) (q : List Item) (hc : carveL (some h) cte q = true) :
    passes (some h) cte (flat q) = flat (mapRefs (some h) q) := by
  obtain ⟨hcomp, hdb⟩ := compose_some h cte q hc
  have e3 := pass_lemma (fromSimpleAt cte h) sel3 (fun s => s.db.isNone) (some h) cte
    (fun t r hh => fromSimpleAt_none _ _ t r (inert_notFrom t hh))
    (fun s rest ha hok => H3 (some h) cte s rest ha hok) q hc hdb
  have c3 := carveL_map sel3 (some h) cte q hc
  have a3 : ∀ s, Item.ref s ∈ q.map (gsel sel3 (some h)) → s.db.isNone = true :=
    fun s hs => hdb s (refs_map sel3 (some h) q s hs).1
  have e4 := pass_lemma (joinSimpleAt cte h) sel4 (fun s => s.db.isNone) (some h) cte
    (fun t r hh => joinSimpleAt_none _ _ t r (inert_notJoin t hh))
    (fun s rest ha hok => H4 (some h) cte s rest ha hok) _ c3 a3
  simp only [passes]
  rw [e3, e4, hcomp]

/-- the substitution theorem on the slow path -/
theorem subst_core (hdr : Option Str) (ts : List Tok) (q : List Item)
    (hsc : shortCircuit ts = false) (hslow : hdr.isSome = true → fastEligible ts = false)
    (hprep : prep ts = flat q) (hc : Carve hdr q = true) :
    rewrite hdr ts = unmask (flat (mapRefs hdr q)) := by
  unfold Carve cteOf at hc
  cases hdr with
  | none =>
    simp only [rewrite, hsc, Bool.false_eq_true, if_false, convert, slow, hprep]
    rw [passes_none _ q hc]
  | some h =>
    have hf := hslow rfl
    simp only [rewrite, hsc, Bool.false_eq_true, if_false, convert, hf, slow, hprep]
    rw [passes_some h _ q hc]

end Arc.C16
