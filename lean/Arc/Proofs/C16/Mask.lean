import Arc.Model.C16
/-! C16 — the frame stack of MaskFromKeywordsInFunctionBodies: the FROM keyword at the level of an
EXTRACT/SUBSTRING/TRIM/OVERLAY body is masked whatever is nested in the operand before it. -/
namespace Arc.C16

/-- walk over the first operand of a body; `k` = parenthesis depth relative to the body. Allowed: any
tokens, nested calls and parentheses to any depth, FROM words inside nested parentheses (sub-queries);
not allowed: another trigger word, a FROM word at the body's own level, a `)` that closes the body. -/
def walk : Nat → List Tok → Option Nat
  | k, [] => some k
  | k, .p c :: rest =>
    if c = '(' then walk (k + 1) rest
    else if c = ')' then (match k with | 0 => none | k' + 1 => walk k' rest)
    else walk k rest
  | k, .w s :: rest =>
    if isTrigger s then none else if lower s = "from".toList ∧ k = 0 then none else walk k rest
  | k, _ :: rest => walk k rest

theorem maskFns_walk (xs rest : List Tok) : ∀ (k : Nat) (T : Int) (tl : List Int) (k' : Nat),
    walk k xs = some k' →
    maskFns ⟨T + k, T :: tl, false⟩ (xs ++ rest) = xs ++ maskFns ⟨T + k', T :: tl, false⟩ rest := by
  induction xs with
  | nil => intro k T tl k' h; simp [walk] at h; subst h; rfl
  | cons t xs ih =>
    intro k T tl k' h
    cases t with
    | p c =>
      by_cases h1 : c = '('
      · subst h1
        simp only [walk, if_true] at h
        have := ih (k + 1) T tl k' h
        simp only [List.cons_append, maskFns, Bool.false_eq_true, if_false]
        rw [show T + (k : Int) + 1 = T + ((k + 1 : Nat) : Int) by push_cast; omega]
        rw [this]
      · by_cases h2 : c = ')'
        · subst h2
          cases k with
          | zero => simp [walk] at h
          | succ k0 =>
            simp only [walk, h1, if_false, if_true] at h
            have := ih k0 T tl k' h
            simp only [List.cons_append, maskFns]
            have hd : T + ((k0 + 1 : Nat) : Int) - 1 = T + (k0 : Int) := by push_cast; omega
            have hnot : ¬ T > T + (k0 : Int) := by omega
            simp only [hd, hnot, if_false]
            rw [this]
        · simp only [walk, h1, h2, if_false] at h
          have := ih k T tl k' h
          simp [maskFns, h1, h2, this]
    | w s =>
      simp only [walk] at h
      by_cases ht : isTrigger s = true
      · simp [ht] at h
      · have ht' : isTrigger s = false := by simpa using ht
        simp only [ht', Bool.false_eq_true, if_false] at h
        by_cases hf : lower s = "from".toList ∧ k = 0
        · simp [hf] at h
        · simp only [hf, if_false] at h
          have := ih k T tl k' h
          have hcond : (lower s == "from".toList && topIs ⟨T + k, T :: tl, false⟩) = false := by
            by_cases hl : lower s = "from".toList
            · have hk : k ≠ 0 := fun hk => hf ⟨hl, hk⟩
              have : ¬ (T + (k : Int) = T) := by omega
              simp [topIs, this]
            · have hl' : ¬ lower s = ['f', 'r', 'o', 'm'] := hl
              simp [hl']
          simp only [List.cons_append, maskFns, hcond, Bool.false_eq_true, if_false, ht']
          rw [this]
    | s x => simp only [walk] at h; simp [maskFns, ih k T tl k' h]
    | b x => simp only [walk] at h; simp [maskFns, ih k T tl k' h]
    | c x => simp only [walk] at h; simp [maskFns, ih k T tl k' h]
    | n x => simp only [walk] at h; simp [maskFns, ih k T tl k' h]
    | l x => simp only [walk] at h; simp [maskFns, ih k T tl k' h]
    | q x => simp only [walk] at h; simp [maskFns, ih k T tl k' h]
    | m x => simp only [walk] at h; simp [maskFns, ih k T tl k' h]
    | rpF a b => simp only [walk] at h; simp [maskFns, ih k T tl k' h]
    | rpJ a b c => simp only [walk] at h; simp [maskFns, ih k T tl k' h]
    | rpT a b => simp only [walk] at h; simp [maskFns, ih k T tl k' h]

theorem trigger_not_from (t : Str) (h : isTrigger t = true) : ¬ lower t = "from".toList := by
  intro hc
  simp [isTrigger, hc] at h

/-- the body's FROM is masked after an arbitrarily nested first operand -/
theorem mask_body (st : MS) (t f : Str) (pre rest : List Tok) (ht : isTrigger t = true)
    (hf : lower f = "from".toList) (hw : walk 0 pre = some 0) :
    maskFns st (.w t :: .p '(' :: (pre ++ .w f :: rest)) =
      .w t :: .p '(' :: (pre ++ .m f :: maskFns ⟨st.depth + 1, (st.depth + 1) :: st.stack, false⟩ rest) := by
  have hnf : ¬ lower t = ['f', 'r', 'o', 'm'] := trigger_not_from t ht
  have hnf' : (lower t == "from".toList && topIs st) = false := by simp [hnf]
  have h0 := maskFns_walk pre (.w f :: rest) 0 (st.depth + 1) st.stack 0 hw
  simp only [Int.natCast_zero, Int.add_zero] at h0
  have hcond : (lower f == "from".toList && topIs ⟨st.depth + 1, (st.depth + 1) :: st.stack, false⟩) = true := by
    simp [hf, topIs]
  simp only [maskFns, hnf', Bool.false_eq_true, if_false, ht, if_true, h0, hcond]

end Arc.C16
