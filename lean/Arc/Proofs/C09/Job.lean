import Arc.Proofs.C09.Inv
/-!
C09 — state-level invariant; every prefix of a job's mutation program preserves it; so does recovery.
-/
namespace Arc.C09
open Arc.Generated.C09

structure WF (rel : RowRel) (s : St) : Prop where
  nodup : (keysOf s.files).Nodup
  fresh : ∀ p ∈ keysOf s.files, p < outBase + s.njobs
  ok : ∀ x ∈ s.files, rel.okLevel x.2.level

/-- the invariant: no manifest pending and all files live, or one manifest pending in state A/B -/
def Inv (rel : RowRel) (R0 : List Row) (s : St) : Prop :=
  WF rel s ∧ ((s.mans = [] ∧ Inv0 rel R0 s.files) ∨ ∃ m, s.mans = [m] ∧ InvM rel R0 s.files m)

def canonSteps : List JobStep := [.writeManifest, .upload, .deleteInputs, .deleteManifest]

/-- what is assumed about the compaction query (DuckDB), relative to `rel` -/
def CompactOk (rel : RowRel) (cfg : Cfg) : Prop :=
  ∀ fs : List File, (∀ f ∈ fs, rel.okLevel f.level) → rel.R (compactRows cfg fs) (fs.flatMap (fun f => f.rows))

theorem applyMuts_delInputs (ps : List Path) : ∀ (s : St),
    applyMuts s (ps.map .delInput) = { s with files := delKeys s.files ps } := by
  induction ps with
  | nil => intro s; rfl
  | cons p ps ih =>
    intro s
    simp only [List.map_cons, applyMuts, List.foldl] at ih ⊢
    rw [ih]; rfl

theorem applyMuts_append (s : St) (a b : List Mut) : applyMuts s (a ++ b) = applyMuts (applyMuts s a) b := by
  simp [applyMuts, List.foldl_append]

theorem take_cases {α : Type} (a b : α) (ds : List α) (d : α) (k : Nat) :
    (a :: b :: (ds ++ [d])).take k = [] ∨ (a :: b :: (ds ++ [d])).take k = [a] ∨
    (∃ j, (a :: b :: (ds ++ [d])).take k = a :: b :: ds.take j) ∨
    (a :: b :: (ds ++ [d])).take k = a :: b :: (ds ++ [d]) := by
  match k with
  | 0 => exact Or.inl rfl
  | 1 => exact Or.inr (Or.inl rfl)
  | k + 2 =>
    simp only [List.take_succ_cons]
    by_cases h : k ≤ ds.length
    · exact Or.inr (Or.inr (Or.inl ⟨k, by rw [List.take_append_of_le_length h]⟩))
    · refine Or.inr (Or.inr (Or.inr ?_))
      rw [List.take_of_length_le]
      simp; omega

section job
variable {rel : RowRel} {R0 : List Row} {cfg : Cfg}

theorem wf_bump {s : St} (h : WF rel s) : WF rel { s with njobs := s.njobs + 1 } :=
  ⟨h.nodup, fun p hp => Nat.lt_succ_of_lt (h.fresh p hp), h.ok⟩

theorem get_of_mem {s : St} (h : WF rel s) {x : Path × File} (hx : x ∈ s.files) : s.get x.1 = some x.2 :=
  lookup_of_mem h.nodup (by cases x; exact hx)

theorem mem_validInputs {s : St} {ins : List Path} {p : Path} (hp : p ∈ validInputs s ins) :
    p ∈ ins ∧ ∃ f, s.get p = some f ∧ f.complete = true := by
  simp only [validInputs, List.mem_filter] at hp
  refine ⟨hp.1, ?_⟩
  cases hg : s.get p with
  | none => simp [hg] at hp
  | some f => simp [hg] at hp; exact ⟨f, rfl, hp.2⟩

theorem out_fresh {s : St} (h : WF rel s) : outBase + s.njobs ∉ keysOf s.files :=
  fun hm => Nat.lt_irrefl _ (h.fresh _ hm)

theorem inputs_not_out {s : St} (h : WF rel s) (ins : List Path) :
    (jobManifest s ins).inputs.contains (jobManifest s ins).out = false := by
  simp only [jobManifest]
  apply Bool.eq_false_iff.mpr
  intro hc
  have hc' : outBase + s.njobs ∈ validInputs s ins := by simpa using hc
  obtain ⟨_, f, hf, _⟩ := mem_validInputs hc'
  exact out_fresh h (mem_keysOf.mpr ⟨f, mem_of_lookup hf⟩)

theorem inputFiles_eq {s : St} (h : WF rel s) (ins : List Path) :
    inputFiles s ins = s.files.filter (fun x => (jobManifest s ins).inputs.contains x.1) := by
  simp only [inputFiles, jobManifest]
  apply List.filter_congr
  intro x hx
  have hg := get_of_mem h hx
  by_cases hin : x.1 ∈ ins
  · cases hc : x.2.complete <;> simp [validInputs, hin, hg, hc]
  · simp [validInputs, hin]

theorem outFile_R (hC : CompactOk rel cfg) {s : St} (h : WF rel s) (ins : List Path) :
    rel.R (jobOutFile cfg s ins).rows
      (rowsOf (s.files.filter (fun x => (jobManifest s ins).inputs.contains x.1))) := by
  rw [← inputFiles_eq h ins]
  have := hC ((inputFiles s ins).map (fun x => x.2)) (by
    intro f hf
    obtain ⟨x, hx, rfl⟩ := List.mem_map.mp hf
    exact h.ok x (List.mem_filter.mp hx).1)
  simpa [jobOutFile, rowsOf, List.flatMap_map] using this

/-- everything a (possibly interrupted) job can leave behind, started with no manifest pending -/
structure JobState (rel : RowRel) (R0 : List Row) (s : St) (ins : List Path) (t : St) : Prop where
  inv : Inv rel R0 t
  njobs : t.njobs = s.njobs + 1
  mans : t.mans = [] ∨ t.mans = [jobManifest s ins]

theorem inv0_start (s : St) (hs : Inv rel R0 s) (h0 : s.mans = []) : Inv0 rel R0 s.files := by
  rcases hs.2 with h | ⟨m, hm, _⟩
  · exact h.2
  · rw [h0] at hm; cases hm

/-- state 0: nothing done yet -/
theorem js_start (s : St) (hs : Inv rel R0 s) (h0 : s.mans = []) (ins : List Path) :
    JobState rel R0 s ins { s with njobs := s.njobs + 1 } :=
  ⟨⟨wf_bump hs.1, Or.inl ⟨h0, inv0_start s hs h0⟩⟩, rfl, Or.inl h0⟩

/-- state A: manifest written -/
theorem js_manifest (s : St) (hs : Inv rel R0 s) (h0 : s.mans = []) (ins : List Path) :
    JobState rel R0 s ins { files := s.files, mans := [jobManifest s ins], njobs := s.njobs + 1 } := by
  refine ⟨⟨⟨hs.1.nodup, fun p hp => Nat.lt_succ_of_lt (hs.1.fresh p hp), hs.1.ok⟩,
    Or.inr ⟨jobManifest s ins, rfl, ?_⟩⟩, rfl, Or.inr rfl⟩
  exact invM_of_inv0 rel R0 (inv0_start s hs h0) (out_fresh hs.1) (inputs_not_out hs.1 ins)

def upFiles (s : St) (g : File) : Files := s.files ++ [(outBase + s.njobs, g)]

theorem wf_up (s : St) (hs : Inv rel R0 s) (g : File) (hg : rel.okLevel g.level) (mans : List Manifest) :
    WF rel { files := upFiles s g, mans := mans, njobs := s.njobs + 1 } := by
  refine ⟨?_, ?_, ?_⟩
  · simp only [upFiles, keysOf, List.map_append, List.map_cons, List.map_nil]
    apply List.nodup_append.mpr
    refine ⟨hs.1.nodup, by simp, ?_⟩
    intro a ha b hb
    simp at hb; subst hb
    intro e; subst e
    exact out_fresh hs.1 ha
  · intro p hp
    simp only [upFiles, keysOf, List.map_append, List.mem_append, List.map_cons, List.map_nil, List.mem_singleton] at hp
    rcases hp with hp | hp
    · exact Nat.lt_succ_of_lt (hs.1.fresh p hp)
    · subst hp; exact Nat.lt_succ_self _
  · intro x hx
    rcases List.mem_append.mp hx with hx | hx
    · exact hs.1.ok x hx
    · simp at hx; subst hx; exact hg

theorem wm_state (s : St) (h0 : s.mans = []) (ins : List Path) :
    applyMut { s with njobs := s.njobs + 1 } (.writeManifest (jobManifest s ins)) =
    { files := s.files, mans := [jobManifest s ins], njobs := s.njobs + 1 } := by
  simp [applyMut, h0]

theorem up_state (s : St) (hs : Inv rel R0 s) (ins : List Path) (g : File) :
    applyMut { files := s.files, mans := [jobManifest s ins], njobs := s.njobs + 1 }
      (.upload (jobManifest s ins).out g) =
    { files := upFiles s g, mans := [jobManifest s ins], njobs := s.njobs + 1 } := by
  have : delKey s.files (outBase + s.njobs) = s.files := delKey_eq_self (out_fresh hs.1)
  simp [applyMut, jobManifest, upFiles, this]

/-- state B after deleting any list of inputs -/
theorem js_deleted (hC : CompactOk rel cfg) (s : St) (hs : Inv rel R0 s) (h0 : s.mans = []) (ins : List Path)
    (ps : List Path) (hps : ∀ p ∈ ps, (jobManifest s ins).inputs.contains p = true) :
    JobState rel R0 s ins
      { files := delKeys (upFiles s (jobOutFile cfg s ins)) ps, mans := [jobManifest s ins], njobs := s.njobs + 1 } ∧
    CaseB rel R0 (delKeys (upFiles s (jobOutFile cfg s ins)) ps) (jobManifest s ins) := by
  have hin := inputs_not_out hs.1 ins
  have hup := invM_upload rel R0 (m := jobManifest s ins) (g := jobOutFile cfg s ins) (inv0_start s hs h0)
    (out_fresh hs.1) hin rfl (outFile_R hC hs.1 ins)
  have hB := caseB_delKeys rel R0 hin ps _ hps hup.2
  have hwf : WF rel { files := upFiles s (jobOutFile cfg s ins), mans := [jobManifest s ins], njobs := s.njobs + 1 } :=
    wf_up s hs _ rel.okZero _
  refine ⟨⟨⟨⟨nodup_delKeys hwf.nodup, ?_, ?_⟩, Or.inr ⟨_, rfl, ?_⟩⟩, rfl, Or.inr rfl⟩, hB⟩
  · intro p hp
    obtain ⟨f, hf⟩ := mem_keysOf.mp hp
    exact hwf.fresh p (mem_keysOf.mpr ⟨f, (mem_delKeys.mp hf).1⟩)
  · intro x hx; exact hwf.ok x (mem_delKeys.mp hx).1
  · exact invM_sub rel R0 (fun x hx => (mem_delKeys.mp hx).1) hup.1 hB

/-- final state: all inputs deleted, manifest deleted -/
theorem js_done (hC : CompactOk rel cfg) (s : St) (hs : Inv rel R0 s) (h0 : s.mans = []) (ins : List Path) :
    JobState rel R0 s ins
      { files := delKeys (upFiles s (jobOutFile cfg s ins)) (jobManifest s ins).inputs, mans := [], njobs := s.njobs + 1 } := by
  have h := js_deleted hC s hs h0 ins (jobManifest s ins).inputs (fun p hp => by simpa using hp)
  obtain ⟨⟨⟨hwf, hinv⟩, _, _⟩, hB⟩ := h
  rcases hinv with ⟨hm, _⟩ | ⟨m, hm, hM⟩
  · cases hm
  · have : m = jobManifest s ins := by simpa using hm.symm
    subst this
    refine ⟨⟨⟨hwf.nodup, hwf.fresh, hwf.ok⟩, Or.inl ⟨rfl, ?_⟩⟩, rfl, Or.inl rfl⟩
    apply inv0_of_caseB_done rel R0 hwf.nodup hM hB
    intro x hx
    have := (mem_delKeys.mp hx).2
    simpa using this

/-- torn upload: partial output under the manifest -/
theorem js_torn (s : St) (hs : Inv rel R0 s) (h0 : s.mans = []) (ins : List Path) (g : File) (hg : g.level = 0) :
    JobState rel R0 s ins
      { files := upFiles s { g with complete := false }, mans := [jobManifest s ins], njobs := s.njobs + 1 } := by
  refine ⟨⟨wf_up s hs _ (by simpa [hg] using rel.okZero) _, Or.inr ⟨_, rfl, ?_⟩⟩, rfl, Or.inr rfl⟩
  exact invM_torn rel R0 (m := jobManifest s ins) (inv0_start s hs h0) (out_fresh hs.1) (inputs_not_out hs.1 ins) rfl

end job
end Arc.C09
