import Arc.Proofs.C09.Job
/-!
C09 — the invariant through `runJob` (any fault), manifest recovery, the adaptive retry, the cycle,
and histories of cycles.
-/
namespace Arc.C09
open Arc.Generated.C09

variable {rel : RowRel} {R0 : List Row} {cfg : Cfg}

def bump (s : St) : St := { s with njobs := s.njobs + 1 }

theorem jobProgram_canon (hsteps : cfg.steps = canonSteps) (s : St) (ins : List Path) :
    jobProgram cfg s ins = if (validInputs s ins).isEmpty then [] else
      .writeManifest (jobManifest s ins) :: .upload (jobManifest s ins).out (jobOutFile cfg s ins) ::
        (((jobManifest s ins).inputs.map .delInput) ++ [.delManifest (jobManifest s ins).mid]) := by
  simp [jobProgram, jobMuts, hsteps, canonSteps, stepMuts]

theorem applyMuts_nil (s : St) : applyMuts s [] = s := rfl
theorem applyMuts_cons (s : St) (m : Mut) (ms : List Mut) : applyMuts s (m :: ms) = applyMuts (applyMut s m) ms := rfl

section
variable (hC : CompactOk rel cfg) (hsteps : cfg.steps = canonSteps)
  (s : St) (hs : Inv rel R0 s) (h0 : s.mans = []) (ins : List Path)
include hC hsteps hs h0

theorem after_two (X : List Mut) :
    applyMuts (bump s) (.writeManifest (jobManifest s ins) :: .upload (jobManifest s ins).out (jobOutFile cfg s ins) :: X)
    = applyMuts { files := upFiles s (jobOutFile cfg s ins), mans := [jobManifest s ins], njobs := s.njobs + 1 } X := by
  rw [applyMuts_cons, applyMuts_cons]
  have h1 := wm_state s h0 ins
  simp only [bump]
  rw [h1, up_state s hs ins]

theorem js_prefix (k : Nat) : JobState rel R0 s ins (applyMuts (bump s) ((jobProgram cfg s ins).take k)) := by
  rw [jobProgram_canon hsteps]
  by_cases he : (validInputs s ins).isEmpty = true
  · simp only [he, if_true, List.take_nil, applyMuts_nil]; exact js_start s hs h0 ins
  · simp only [he]
    rcases take_cases (Mut.writeManifest (jobManifest s ins)) (Mut.upload (jobManifest s ins).out (jobOutFile cfg s ins))
      ((jobManifest s ins).inputs.map Mut.delInput) (Mut.delManifest (jobManifest s ins).mid) k with h | h | ⟨j, h⟩ | h
    · simp only [Bool.false_eq_true, if_false, h, applyMuts_nil]; exact js_start s hs h0 ins
    · simp only [Bool.false_eq_true, if_false, h, applyMuts_cons, applyMuts_nil]
      have := wm_state s h0 ins
      simp only [bump]; rw [this]; exact js_manifest s hs h0 ins
    · simp only [Bool.false_eq_true, if_false, h]
      rw [after_two hC hsteps s hs h0 ins, ← List.map_take, applyMuts_delInputs]
      exact (js_deleted hC s hs h0 ins _ (fun p hp => by simpa using List.mem_of_mem_take hp)).1
    · simp only [Bool.false_eq_true, if_false, h]
      rw [after_two hC hsteps s hs h0 ins, applyMuts_append, applyMuts_delInputs]
      simp only [applyMuts_cons, applyMuts_nil, applyMut]
      have : ([jobManifest s ins].filter (fun x => x.mid != (jobManifest s ins).mid)) = [] := by simp
      rw [this]; exact js_done hC s hs h0 ins

theorem js_full : JobState rel R0 s ins (applyMuts (bump s) (jobProgram cfg s ins)) ∧
    (applyMuts (bump s) (jobProgram cfg s ins)).mans = [] := by
  rw [jobProgram_canon hsteps]
  by_cases he : (validInputs s ins).isEmpty = true
  · simp only [he, if_true, applyMuts_nil]; exact ⟨js_start s hs h0 ins, h0⟩
  · simp only [he, Bool.false_eq_true, if_false]
    rw [after_two hC hsteps s hs h0 ins, applyMuts_append, applyMuts_delInputs]
    simp only [applyMuts_cons, applyMuts_nil, applyMut]
    have : ([jobManifest s ins].filter (fun x => x.mid != (jobManifest s ins).mid)) = [] := by simp
    rw [this]; exact ⟨js_done hC s hs h0 ins, rfl⟩

theorem js_torn_prefix (k : Nat) :
    JobState rel R0 s ins (applyMuts (bump s) ((jobProgram cfg s ins).take k ++ partialOf (jobProgram cfg s ins) k)) := by
  by_cases he : (validInputs s ins).isEmpty = true
  · have : jobProgram cfg s ins = [] := by rw [jobProgram_canon hsteps]; simp [he]
    simp only [this, List.take_nil, partialOf, List.getElem?_nil, List.append_nil, applyMuts_nil]
    exact js_start s hs h0 ins
  · match k with
    | 0 =>
      have : partialOf (jobProgram cfg s ins) 0 = [] := by
        rw [jobProgram_canon hsteps]; simp [he, partialOf]
      rw [this, List.append_nil]; exact js_prefix hC hsteps s hs h0 ins 0
    | 1 =>
      have h1 : (jobProgram cfg s ins).take 1 = [.writeManifest (jobManifest s ins)] := by
        rw [jobProgram_canon hsteps]; simp [he]
      have h2 : partialOf (jobProgram cfg s ins) 1 =
          [.upload (jobManifest s ins).out { jobOutFile cfg s ins with complete := false }] := by
        rw [jobProgram_canon hsteps]; simp [he, partialOf]
      rw [h1, h2]
      simp only [List.cons_append, List.nil_append, applyMuts_cons, applyMuts_nil]
      have := wm_state s h0 ins
      simp only [bump]; rw [this, up_state s hs ins]
      exact js_torn s hs h0 ins _ rfl
    | k + 2 =>
      have : partialOf (jobProgram cfg s ins) (k + 2) = [] := by
        rw [jobProgram_canon hsteps]
        simp only [he, Bool.false_eq_true, if_false, partialOf, List.getElem?_cons_succ]
        cases hg : ((jobManifest s ins).inputs.map Mut.delInput ++ [Mut.delManifest (jobManifest s ins).mid])[k]? with
        | none => rfl
        | some x =>
          have hm := List.mem_of_getElem? hg
          rcases List.mem_append.mp hm with hm | hm
          · obtain ⟨p, _, rfl⟩ := List.mem_map.mp hm; rfl
          · simp at hm; subst hm; rfl
      rw [this, List.append_nil]; exact js_prefix hC hsteps s hs h0 ins (k + 2)

/-- any (possibly faulted) run of a job keeps the invariant; a clean end leaves no manifest -/
theorem runJob_js (flt : Option Fault) :
    JobState rel R0 s ins (runJob cfg s ins flt).1 ∧
    ((runJob cfg s ins flt).2.1 = .ok → (runJob cfg s ins flt).1.mans = []) ∧
    (∀ f, flt = some f → (f.kind = .kill → (f.pos = 0 ∨ 1000 ≤ f.pos)) →
      (runJob cfg s ins flt).2.1 = .killed → (runJob cfg s ins flt).1.mans = []) := by
  have hfull := js_full hC hsteps s hs h0 ins
  cases flt with
  | none => simp only [runJob]; exact ⟨hfull.1, fun _ => hfull.2, fun f hf => by cases hf⟩
  | some f =>
    simp only [runJob]
    by_cases hcan : (f.kind == FKind.cancel) = true
    · simp only [hcan, if_true]
      by_cases h100 : (f.pos = 100 ∨ f.pos = 101) ∧ (validInputs s ins).isEmpty = false
      · simp only [h100, and_self, if_true]
        exact ⟨js_start s hs h0 ins, fun h => by simp at h, fun _ _ _ _ => h0⟩
      · simp only [h100, if_false]; exact ⟨hfull.1, fun _ => hfull.2, fun _ _ _ _ => hfull.2⟩
    · simp only [hcan, Bool.false_eq_true, if_false]
      by_cases h1000 : f.pos ≥ 1000
      · simp only [h1000, if_true]; exact ⟨hfull.1, fun _ => hfull.2, fun _ _ _ _ => hfull.2⟩
      · simp only [h1000, if_false]
        by_cases hlt : f.pos < (jobProgram cfg s ins).length
        · simp only [hlt, if_true]
          have hstate : JobState rel R0 s ins (applyMuts (bump s)
              (List.take f.pos (jobProgram cfg s ins) ++ if (f.kind == FKind.torn) = true then partialOf (jobProgram cfg s ins) f.pos else [])) := by
            by_cases ht : (f.kind == FKind.torn) = true
            · simp only [ht, if_true]; exact js_torn_prefix hC hsteps s hs h0 ins f.pos
            · simp only [ht, Bool.false_eq_true, if_false, List.append_nil]; exact js_prefix hC hsteps s hs h0 ins f.pos
          refine ⟨hstate, ?_, ?_⟩
          · intro hok
            cases hk : f.kind <;> simp_all [outcomeOf]
          · intro f' hf' hsafe hkilled
            cases hf'
            have hk : f.kind = .kill := by
              cases hk' : f.kind <;> simp_all [outcomeOf]
            rcases hsafe hk with hp | hp
            · have hp0 : partialOf (jobProgram cfg s ins) 0 = [] := by
                rw [jobProgram_canon hsteps]
                by_cases he : (validInputs s ins).isEmpty = true <;> simp [he, partialOf]
              simp only [hp, List.take_zero, List.nil_append, hp0]
              by_cases ht : (f.kind == FKind.torn) = true <;> simp [ht, applyMuts_nil, h0]
            · exact absurd hp h1000
        · simp only [hlt, if_false]; exact ⟨hfull.1, fun _ => hfull.2, fun _ _ _ _ => hfull.2⟩

end

/-! ### manifest recovery (deletes succeed) -/

structure RecCanon (cfg : Cfg) : Prop where
  missing : cfg.recMissing = [.deleteManifest]
  mismatch : cfg.recMismatch = [.deleteOutput, .deleteManifest]
  valid : cfg.recValid = [.deleteInputs, .deleteManifest]

theorem wf_sub {s : St} (h : WF rel s) {fs : Files} (hn : (keysOf fs).Nodup) (hsub : ∀ x ∈ fs, x ∈ s.files)
    (mans : List Manifest) : WF rel { files := fs, mans := mans, njobs := s.njobs } := by
  refine ⟨hn, ?_, fun x hx => h.ok x (hsub x hx)⟩
  intro p hp
  obtain ⟨f, hf⟩ := mem_keysOf.mp hp
  exact h.fresh p (mem_keysOf.mpr ⟨f, hsub _ hf⟩)

theorem recMuts_nofail (hrec : RecCanon cfg) (s : St) (m : Manifest) :
    recMuts cfg s m [] =
      match s.get m.out with
      | none => [.delManifest m.mid]
      | some f => if f.complete then m.inputs.map .delInput ++ [.delManifest m.mid]
                  else [.delOutput m.out, .delManifest m.mid] := by
  simp only [recMuts, recBranch]
  cases hg : s.get m.out with
  | none => simp [hrec.missing, recGo]
  | some f =>
    by_cases hc : f.complete = true
    · have hft : m.inputs.filter (fun _ => true) = m.inputs := List.filter_eq_self.mpr (fun _ _ => rfl)
      simp [hc, hrec.valid, recGo, hft]
    · have hc' : f.complete = false := by simpa using hc
      simp [hc', hrec.mismatch, recGo]

theorem recoverOne_inv (hrec : RecCanon cfg) (s : St) (m : Manifest) (hs : Inv rel R0 s) (hm : s.mans = [m]) :
    Inv rel R0 (recoverOne cfg s m []) ∧ (recoverOne cfg s m []).mans = [] ∧
    (recoverOne cfg s m []).njobs = s.njobs := by
  have hM : InvM rel R0 s.files m := by
    rcases hs.2 with ⟨h, _⟩ | ⟨m', hm', hM⟩
    · rw [hm] at h; cases h
    · rw [hm] at hm'; cases hm'; exact hM
  have hfil : ([m].filter (fun x => x.mid != m.mid)) = [] := by simp
  simp only [recoverOne, recMuts_nofail hrec]
  cases hg : s.get m.out with
  | none =>
    simp only [applyMuts_cons, applyMuts_nil, applyMut, hm, hfil]
    exact ⟨⟨wf_sub hs.1 hs.1.nodup (fun _ h => h) _, Or.inl ⟨rfl, inv0_of_missing rel R0 hM hg⟩⟩,
      by first | rfl | trivial, by first | rfl | trivial⟩
  | some f =>
    by_cases hc : f.complete = true
    · simp only [hc, if_true, applyMuts_append, applyMuts_delInputs, applyMuts_cons, applyMuts_nil, applyMut, hm, hfil]
      have hB := caseB_of_complete rel R0 hM hg hc
      have hB' := caseB_delKeys rel R0 hM.1 m.inputs s.files (fun p hp => by simpa using hp) hB
      have hn := nodup_delKeys (ps := m.inputs) hs.1.nodup
      have hsub : ∀ x ∈ delKeys s.files m.inputs, x ∈ s.files := fun x hx => (mem_delKeys.mp hx).1
      refine ⟨⟨wf_sub hs.1 hn hsub _, Or.inl ⟨rfl, ?_⟩⟩, by first | rfl | trivial, by first | rfl | trivial⟩
      apply inv0_of_caseB_done rel R0 hn (invM_sub rel R0 hsub hM hB') hB'
      intro x hx
      have := (mem_delKeys.mp hx).2
      simpa using this
    · have hc' : f.complete = false := by simpa using hc
      simp only [hc', Bool.false_eq_true, if_false, applyMuts_cons, applyMuts_nil, applyMut, hm, hfil]
      refine ⟨⟨wf_sub hs.1 (nodup_delKey _ hs.1.nodup) (fun x hx => (mem_delKey.mp hx).1) _,
        Or.inl ⟨rfl, inv0_of_mismatch rel R0 hM hg hc'⟩⟩, by first | rfl | trivial, by first | rfl | trivial⟩

theorem inv_mans_cases {s : St} (hs : Inv rel R0 s) : s.mans = [] ∨ ∃ m, s.mans = [m] := by
  rcases hs.2 with ⟨h, _⟩ | ⟨m, hm, _⟩
  · exact Or.inl h
  · exact Or.inr ⟨m, hm⟩

theorem recoverAll_inv (hrec : RecCanon cfg) (s : St) (hs : Inv rel R0 s) :
    Inv rel R0 (recoverAll cfg s []) ∧ (recoverAll cfg s []).mans = [] := by
  rcases inv_mans_cases hs with h | ⟨m, hm⟩
  · have : recoverAll cfg s [] = s := by simp [recoverAll, h]
    rw [this]; exact ⟨hs, h⟩
  · have : recoverAll cfg s [] = recoverOne cfg s m [] := by simp [recoverAll, hm]
    rw [this]
    have := recoverOne_inv hrec s m hs hm
    exact ⟨this.1, this.2.1⟩

/-! ### retry, batches, cycle -/

/-- carve-out: no job is killed between its first and its last storage mutation -/
def PlanSafe (plan : List Fault) : Prop := ∀ f ∈ plan, f.kind = .kill → (f.pos = 0 ∨ 1000 ≤ f.pos)

def Good (rel : RowRel) (R0 : List Row) (r : Run) : Prop := Inv rel R0 r.st ∧ (r.dead = false → r.st.mans = [])

theorem runJob_killed {s : St} {ins : List Path} {flt : Option Fault}
    (h : (runJob cfg s ins flt).2.1 = .killed) : ∃ f, flt = some f := by
  cases flt with
  | none => simp [runJob] at h
  | some f => exact ⟨f, rfl⟩

theorem attempt_st (plan : List Fault) (batch : Nat) (r : Run) (files : List Path) :
    (attempt cfg plan batch r files).1.st =
      if ((runJob cfg r.st files (findFault plan r.cj)).2.1 == .killed && cfg.retryRecovers) = true then
        (match ownManifest (runJob cfg r.st files (findFault plan r.cj)).1 r.st.njobs with
          | some m => recoverOne cfg (runJob cfg r.st files (findFault plan r.cj)).1 m []
          | none => (runJob cfg r.st files (findFault plan r.cj)).1)
      else (runJob cfg r.st files (findFault plan r.cj)).1 := rfl

theorem attempt_dead (plan : List Fault) (batch : Nat) (r : Run) (files : List Path) :
    (attempt cfg plan batch r files).1.dead = (r.dead || (runJob cfg r.st files (findFault plan r.cj)).2.1 == .crashed) := rfl

theorem attempt_oc (plan : List Fault) (batch : Nat) (r : Run) (files : List Path) :
    (attempt cfg plan batch r files).2 = (runJob cfg r.st files (findFault plan r.cj)).2.1 := rfl

section
variable (hC : CompactOk rel cfg) (hsteps : cfg.steps = canonSteps) (hrec : RecCanon cfg)
  (plan : List Fault) (hsafe : cfg.retryRecovers = true ∨ PlanSafe plan)
include hC hsteps hrec hsafe

theorem attempt_good (batch : Nat) (r : Run) (files : List Path) (hg : Good rel R0 r) (hd : r.dead = false) :
    Good rel R0 (attempt cfg plan batch r files).1 := by
  have h0 := hg.2 hd
  have hj := runJob_js hC hsteps r.st hg.1 h0 files (findFault plan r.cj)
  unfold Good
  rw [attempt_st, attempt_dead]
  cases hoc : (runJob cfg r.st files (findFault plan r.cj)).2.1 with
  | ok =>
    have e : (Outcome.ok == Outcome.killed) = false := by decide
    simp only [e, Bool.false_and, Bool.false_eq_true, if_false]
    exact ⟨hj.1.inv, fun _ => hj.2.1 hoc⟩
  | crashed =>
    have e : (Outcome.crashed == Outcome.killed) = false := by decide
    simp only [e, Bool.false_and, Bool.false_eq_true, if_false]
    refine ⟨hj.1.inv, fun hdead => ?_⟩
    simp at hdead
  | killed =>
    obtain ⟨f, hf⟩ := runJob_killed hoc
    by_cases hrr : cfg.retryRecovers = true
    · simp only [hrr, beq_self_eq_true, Bool.and_self, if_true]
      rcases hj.1.mans with hm | hm
      · have : ownManifest (runJob cfg r.st files (findFault plan r.cj)).1 r.st.njobs = none := by
          simp [ownManifest, hm]
        rw [this]
        exact ⟨hj.1.inv, fun _ => hm⟩
      · have : ownManifest (runJob cfg r.st files (findFault plan r.cj)).1 r.st.njobs = some (jobManifest r.st files) := by
          simp [ownManifest, hm, jobManifest]
        rw [this]
        have hr := recoverOne_inv hrec _ _ hj.1.inv hm
        exact ⟨hr.1, fun _ => hr.2.1⟩
    · have hrr' : cfg.retryRecovers = false := by simpa using hrr
      simp only [hrr', Bool.and_false, Bool.false_eq_true, if_false]
      rcases hsafe with h | h
      · rw [hrr'] at h; cases h
      · have hmem : f ∈ plan := by
          simp only [findFault] at hf
          exact List.mem_of_find?_eq_some hf
        exact ⟨hj.1.inv, fun _ => hj.2.2 f hf (h f hmem) hoc⟩

theorem adaptive_good (batch : Nat) : ∀ (fuel : Nat) (r : Run) (files : List Path), Good rel R0 r →
    Good rel R0 (adaptive cfg plan batch fuel r files).1
  | 0, r, _, hg => by simpa [adaptive] using hg
  | fuel + 1, r, files, hg => by
    simp only [adaptive]
    by_cases hd : r.dead = true
    · simp only [hd, if_true]; exact hg
    · have hd' : r.dead = false := by simpa using hd
      simp only [hd', Bool.false_eq_true, if_false]
      by_cases hl : files.length < cfg.minBatch
      · simp only [hl, if_true]; exact hg
      · simp only [hl, if_false]
        have ha := attempt_good hC hsteps hrec plan hsafe batch r files hg hd'
        cases hoc : (attempt cfg plan batch r files).2 with
        | ok => simp only [hoc]; exact ha
        | crashed => simp only [hoc]; exact ha
        | killed =>
          simp only [hoc]
          by_cases hle : files.length ≤ cfg.minBatch
          · simp only [hle, if_true]; exact ha
          · simp only [hle, if_false]
            have h1 := adaptive_good batch fuel _ (files.take (files.length / 2)) ha
            by_cases hok : (adaptive cfg plan batch fuel (attempt cfg plan batch r files).1 (files.take (files.length / 2))).2 = true
            · simp only [hok, if_true]
              exact adaptive_good batch fuel _ _ h1
            · simp only [hok, Bool.false_eq_true, if_false]; exact h1

theorem runBatches_good : ∀ (bs : List (List Path)) (b : Nat) (r : Run), Good rel R0 r →
    Good rel R0 (runBatches cfg plan b r bs)
  | [], _, _, hg => by simpa [runBatches] using hg
  | fs :: rest, b, r, hg => by
    simp only [runBatches]
    exact runBatches_good rest (b + 1) _ (adaptive_good hC hsteps hrec plan hsafe b _ r fs hg)

theorem cycle_good (hfirst : cfg.recoverFirst = true) (s : St) (hs : Inv rel R0 s) :
    Good rel R0 (cycle cfg plan [] s) := by
  have hr := recoverAll_inv hrec s hs
  have hg0 : Good rel R0 { st := recoverAll cfg s [], cj := 0, dead := false, log := [] } := ⟨hr.1, fun _ => hr.2⟩
  simp only [cycle, hfirst, if_true]
  split
  · exact hg0
  · split
    · exact hg0
    · exact runBatches_good hC hsteps hrec plan hsafe _ _ _ hg0

end

/-! ### fault-free runs never die -/

theorem runJob_nofault_ok (s : St) (ins : List Path) : (runJob cfg s ins none).2.1 = .ok := rfl

theorem attempt_nofault (batch : Nat) (r : Run) (files : List Path) (hd : r.dead = false) :
    (attempt cfg [] batch r files).1.dead = false ∧ (attempt cfg [] batch r files).2 = .ok := by
  simp [attempt, findFault, runJob, hd]

theorem adaptive_nofault (batch : Nat) : ∀ (fuel : Nat) (r : Run) (files : List Path), r.dead = false →
    (adaptive cfg [] batch fuel r files).1.dead = false
  | 0, r, _, hd => by simpa [adaptive] using hd
  | fuel + 1, r, files, hd => by
    simp only [adaptive, hd, Bool.false_eq_true, if_false]
    by_cases hl : files.length < cfg.minBatch
    · simp only [hl, if_true]; exact hd
    · simp only [hl, if_false]
      have ha := attempt_nofault (cfg := cfg) batch r files hd
      simp only [ha.2]; exact ha.1

theorem runBatches_nofault : ∀ (bs : List (List Path)) (b : Nat) (r : Run), r.dead = false →
    (runBatches cfg [] b r bs).dead = false
  | [], _, _, hd => by simpa [runBatches] using hd
  | fs :: rest, b, r, hd => by
    simp only [runBatches]
    exact runBatches_nofault rest (b + 1) _ (adaptive_nofault b _ r fs hd)

theorem cycle_nofault_alive (s : St) : (cycle cfg [] [] s).dead = false := by
  simp only [cycle]
  generalize (if cfg.recoverFirst = true then recoverAll cfg s [] else s) = s1
  by_cases h1 : (!shouldCompact cfg s1) = true
  · simp [h1]
  · simp only [h1, Bool.false_eq_true, if_false]
    by_cases h2 : (candidates cfg s1).isEmpty = true
    · simp [h2]
    · simp only [h2, Bool.false_eq_true, if_false]
      exact runBatches_nofault _ _ { st := s1, cj := 0, dead := false, log := [] } rfl

/-! ### histories -/

theorem runCycles_inv (hC : CompactOk rel cfg) (hsteps : cfg.steps = canonSteps) (hrec : RecCanon cfg)
    (hfirst : cfg.recoverFirst = true) :
    ∀ (plans : List (List Fault)), (cfg.retryRecovers = true ∨ ∀ p ∈ plans, PlanSafe p) →
      ∀ (s : St), Inv rel R0 s → Inv rel R0 (runCycles cfg plans s)
  | [], _, s, hs => by simpa [runCycles] using hs
  | p :: ps, hsafe, s, hs => by
    simp only [runCycles]
    have hp : cfg.retryRecovers = true ∨ PlanSafe p := hsafe.elim Or.inl (fun h => Or.inr (h p List.mem_cons_self))
    have hps : cfg.retryRecovers = true ∨ ∀ q ∈ ps, PlanSafe q :=
      hsafe.elim Or.inl (fun h => Or.inr (fun q hq => h q (List.mem_cons_of_mem _ hq)))
    exact runCycles_inv hC hsteps hrec hfirst ps hps _ (cycle_good hC hsteps hrec p hp hfirst s hs).1

/-- after any history, one fault-free cycle leaves no manifest and only live, complete files -/
theorem quiesce_inv0 (hC : CompactOk rel cfg) (hsteps : cfg.steps = canonSteps) (hrec : RecCanon cfg)
    (hfirst : cfg.recoverFirst = true) (plans : List (List Fault))
    (hsafe : cfg.retryRecovers = true ∨ ∀ p ∈ plans, PlanSafe p) (s : St) (hs : Inv rel R0 s) :
    (cycle cfg [] [] (runCycles cfg plans s)).st.mans = [] ∧
    rel.R (visible (cycle cfg [] [] (runCycles cfg plans s)).st) R0 := by
  have h1 := runCycles_inv hC hsteps hrec hfirst plans hsafe s hs
  have h2 := cycle_good hC hsteps hrec [] (Or.inr (fun f hf => by cases hf)) hfirst _ h1
  have hm := h2.2 (cycle_nofault_alive _)
  refine ⟨hm, ?_⟩
  have h0 := inv0_start _ h2.1 hm
  have : (cycle cfg [] [] (runCycles cfg plans s)).st.files.filter (fun x => x.2.complete) =
      (cycle cfg [] [] (runCycles cfg plans s)).st.files := filter_eq_self_of _ _ h0.1
  simp only [visible, this]; exact h0.2

end Arc.C09
