import Arc.Proofs.C09.Basic
/-!
C09 — the invariant and its preservation by every storage mutation of a job / of manifest recovery.

Scope of the invariant: at most one manifest is pending (true whenever recovery deletes succeed and
no retry starts while the manifest of a killed job is still pending — see `Props/C09.lean`).
-/
namespace Arc.C09

variable (rel : RowRel) (R0 : List Row)

/-- files that are neither inputs of `m` nor its output -/
def restOf (fs : Files) (m : Manifest) : Files :=
  fs.filter (fun x => !(m.inputs.contains x.1) && x.1 != m.out)

/-- output absent or partial: every file except the output is live -/
def CaseA (fs : Files) (m : Manifest) : Prop :=
  (∀ f, fs.lookup m.out = some f → f.complete = false) ∧
  rel.R (rowsOf (fs.filter (fun x => x.1 != m.out))) R0

/-- output complete: it stands for all the manifest's inputs, present or not -/
def CaseB (fs : Files) (m : Manifest) : Prop :=
  ∃ f, fs.lookup m.out = some f ∧ f.complete = true ∧ rel.R (rowsOf (restOf fs m) ++ f.rows) R0 ∧
    ∀ x ∈ fs, m.inputs.contains x.1 = true → Covers rel.lvl f.rows x.2.rows

def InvM (fs : Files) (m : Manifest) : Prop :=
  m.inputs.contains m.out = false ∧ (∀ x ∈ fs, x.1 ≠ m.out → x.2.complete = true) ∧
  (CaseA rel R0 fs m ∨ CaseB rel R0 fs m)

def Inv0 (fs : Files) : Prop := (∀ x ∈ fs, x.2.complete = true) ∧ rel.R (rowsOf fs) R0

/-! ### files-level lemmas -/

theorem delKey_eq_self {fs : Files} {p : Path} (h : p ∉ keysOf fs) : delKey fs p = fs := by
  apply filter_eq_self_of
  intro x hx
  have : x.1 ≠ p := fun e => h (by rw [← e]; exact List.mem_map.mpr ⟨x, hx, rfl⟩)
  simpa using this

theorem not_mem_keys_of_lookup_none {fs : Files} {p : Path} (h : fs.lookup p = none) : p ∉ keysOf fs := by
  intro hm
  obtain ⟨f, hf⟩ := mem_keysOf.mp hm
  induction fs with
  | nil => cases hf
  | cons x fs ih =>
    obtain ⟨k, g⟩ := x
    by_cases hk : p = k
    · subst hk; simp [List.lookup] at h
    · have hb : (p == k) = false := by simpa using hk
      simp only [List.lookup, hb] at h
      rcases List.mem_cons.mp hf with e | e
      · cases e; exact hk rfl
      · exact ih h (mem_keysOf.mpr ⟨f, e⟩) e

theorem mem_rowsOf {fs : Files} {x : Path × File} (hx : x ∈ fs) {r : Row} (hr : r ∈ x.2.rows) : r ∈ rowsOf fs := by
  simp only [rowsOf, List.mem_flatMap]; exact ⟨x, hx, hr⟩

theorem filter_key_of_lookup {fs : Files} (hn : (keysOf fs).Nodup) {p : Path} {f : File}
    (h : fs.lookup p = some f) : fs.filter (fun x => x.1 == p) = [(p, f)] := by
  induction fs with
  | nil => simp [List.lookup] at h
  | cons x fs ih =>
    obtain ⟨k, g⟩ := x
    simp only [keysOf, List.map_cons, List.nodup_cons] at hn
    by_cases hk : p = k
    · subst hk
      simp [List.lookup] at h; subst h
      have : fs.filter (fun x => x.1 == p) = [] := by
        apply List.filter_eq_nil_iff.mpr
        intro y hy hy'
        have : y.1 = p := by simpa using hy'
        exact hn.1 (List.mem_map.mpr ⟨y, hy, this⟩)
      simp [List.filter, this]
    · have hb : (p == k) = false := by simpa using hk
      have hb' : (k == p) = false := by simpa using (fun e : k = p => hk e.symm)
      simp only [List.lookup, hb] at h
      simp [List.filter, hb']; exact ih hn.2 h

/-- manifest just written, output not there -/
theorem invM_of_inv0 {fs : Files} {m : Manifest} (h0 : Inv0 rel R0 fs) (hout : m.out ∉ keysOf fs)
    (hin : m.inputs.contains m.out = false) : InvM rel R0 fs m := by
  refine ⟨hin, fun x hx _ => h0.1 x hx, Or.inl ⟨?_, ?_⟩⟩
  · intro f hf; exact absurd (mem_keysOf.mpr ⟨f, mem_of_lookup hf⟩) hout
  · have : fs.filter (fun x => x.1 != m.out) = fs := delKey_eq_self hout
    rw [this]; exact h0.2

theorem restOf_append_out {fs : Files} {m : Manifest} (hout : m.out ∉ keysOf fs) (g : File) :
    restOf (fs ++ [(m.out, g)]) m = fs.filter (fun x => !(m.inputs.contains x.1)) := by
  simp only [restOf, List.filter_append]
  have h1 : fs.filter (fun x => !(m.inputs.contains x.1) && x.1 != m.out) = fs.filter (fun x => !(m.inputs.contains x.1)) := by
    apply List.filter_congr
    intro x hx
    have : x.1 ≠ m.out := fun e => hout (by rw [← e]; exact List.mem_map.mpr ⟨x, hx, rfl⟩)
    have : (x.1 != m.out) = true := by simpa using this
    simp [this]
  have h2 : [(m.out, g)].filter (fun x => !(m.inputs.contains x.1) && x.1 != m.out) = [] := by
    simp [List.filter]
  rw [h1, h2, List.append_nil]

/-- complete output uploaded next to its (still present) inputs -/
theorem invM_upload {fs : Files} {m : Manifest} {g : File} (h0 : Inv0 rel R0 fs) (hout : m.out ∉ keysOf fs)
    (hin : m.inputs.contains m.out = false) (hg : g.complete = true)
    (hR : rel.R g.rows (rowsOf (fs.filter (fun x => m.inputs.contains x.1)))) :
    InvM rel R0 (fs ++ [(m.out, g)]) m ∧ CaseB rel R0 (fs ++ [(m.out, g)]) m := by
  have hlk : (fs ++ [(m.out, g)]).lookup m.out = some g := by
    rw [lookup_append_of_none (lookup_none_of_not_mem hout)]; simp [List.lookup]
  have hB : CaseB rel R0 (fs ++ [(m.out, g)]) m := by
    refine ⟨g, hlk, hg, ?_, ?_⟩
    · rw [restOf_append_out hout]
      have h1 := rel.app (rowsOf (fs.filter (fun x => !(m.inputs.contains x.1)))) hR
      have h2 : MEq (rowsOf (fs.filter (fun x => !(m.inputs.contains x.1))) ++ rowsOf (fs.filter (fun x => m.inputs.contains x.1))) (rowsOf fs) :=
        ((rowsOf_split (fun x => m.inputs.contains x.1) fs).trans (MEq.append_comm _ _)).symm
      exact rel.trans (rel.congr (MEq.refl _) h2 h1) h0.2
    · intro x hx hc
      rcases List.mem_append.mp hx with hx | hx
      · intro r hr
        have : r ∈ rowsOf (fs.filter (fun x => m.inputs.contains x.1)) :=
          mem_rowsOf (List.mem_filter.mpr ⟨hx, hc⟩) hr
        exact rel.cov hR r this
      · have hx' : x = (m.out, g) := by simpa using hx
        subst hx'
        have : m.inputs.contains m.out = true := hc
        rw [hin] at this; cases this
  refine ⟨⟨hin, ?_, Or.inr hB⟩, hB⟩
  intro x hx hne
  rcases List.mem_append.mp hx with hx | hx
  · exact h0.1 x hx
  · simp at hx; subst hx; exact absurd rfl hne

/-- the node died while writing the output to its final key -/
theorem invM_torn {fs : Files} {m : Manifest} {g : File} (h0 : Inv0 rel R0 fs) (hout : m.out ∉ keysOf fs)
    (hin : m.inputs.contains m.out = false) (hg : g.complete = false) :
    InvM rel R0 (fs ++ [(m.out, g)]) m := by
  have hlk : (fs ++ [(m.out, g)]).lookup m.out = some g := by
    rw [lookup_append_of_none (lookup_none_of_not_mem hout)]; simp [List.lookup]
  refine ⟨hin, ?_, Or.inl ⟨?_, ?_⟩⟩
  · intro x hx hne
    rcases List.mem_append.mp hx with hx | hx
    · exact h0.1 x hx
    · simp at hx; subst hx; exact absurd rfl hne
  · intro f hf; rw [hlk] at hf; cases hf; exact hg
  · have : (fs ++ [(m.out, g)]).filter (fun x => x.1 != m.out) = fs := by
      rw [List.filter_append]
      have h1 : fs.filter (fun x => x.1 != m.out) = fs := delKey_eq_self hout
      have h2 : [(m.out, g)].filter (fun x => x.1 != m.out) = [] := by simp [List.filter]
      rw [h1, h2, List.append_nil]
    rw [this]; exact h0.2

theorem restOf_delKey_input {fs : Files} {m : Manifest} {p : Path} (hp : m.inputs.contains p = true) :
    restOf (delKey fs p) m = restOf fs m := by
  simp only [restOf, delKey, List.filter_filter]
  apply List.filter_congr
  intro x _
  by_cases h : x.1 = p
  · subst h
    have hp' : x.1 ∈ m.inputs := by simpa using hp
    simp [hp']
  · have : (x.1 != p) = true := by simpa using h
    simp [this]

/-- deleting an input of a manifest whose complete output is there changes nothing that is live -/
theorem caseB_delKey {fs : Files} {m : Manifest} {p : Path} (hin : m.inputs.contains m.out = false)
    (hp : m.inputs.contains p = true) (hB : CaseB rel R0 fs m) : CaseB rel R0 (delKey fs p) m := by
  obtain ⟨f, hlk, hc, hR, hcov⟩ := hB
  have hne : m.out ≠ p := by
    intro e; rw [← e] at hp; rw [hin] at hp; cases hp
  refine ⟨f, ?_, hc, ?_, ?_⟩
  · rw [lookup_delKey_ne hne]; exact hlk
  · rw [restOf_delKey_input hp]; exact hR
  · intro x hx hcx; exact hcov x (mem_delKey.mp hx).1 hcx

def delKeys (fs : Files) (ps : List Path) : Files := ps.foldl delKey fs

theorem caseB_delKeys {m : Manifest} (hin : m.inputs.contains m.out = false) :
    ∀ (ps : List Path) (fs : Files), (∀ p ∈ ps, m.inputs.contains p = true) → CaseB rel R0 fs m →
      CaseB rel R0 (delKeys fs ps) m
  | [], _, _, hB => hB
  | p :: ps, fs, hps, hB => by
    simp only [delKeys, List.foldl]
    exact caseB_delKeys hin ps (delKey fs p) (fun q hq => hps q (List.mem_cons_of_mem _ hq))
      (caseB_delKey rel R0 hin (hps p List.mem_cons_self) hB)

theorem mem_delKeys {ps : List Path} : ∀ {fs : Files} {x : Path × File}, x ∈ delKeys fs ps ↔ x ∈ fs ∧ x.1 ∉ ps := by
  induction ps with
  | nil => intro fs x; simp [delKeys]
  | cons p ps ih =>
    intro fs x
    simp only [delKeys, List.foldl] at ih ⊢
    rw [ih, mem_delKey]; simp only [List.mem_cons, not_or]
    constructor
    · rintro ⟨⟨a, b⟩, c⟩; exact ⟨a, b, c⟩
    · rintro ⟨a, b, c⟩; exact ⟨⟨a, b⟩, c⟩

theorem nodup_delKeys {ps : List Path} : ∀ {fs : Files}, (keysOf fs).Nodup → (keysOf (delKeys fs ps)).Nodup := by
  induction ps with
  | nil => intro fs h; exact h
  | cons p ps ih => intro fs h; simp only [delKeys, List.foldl] at ih ⊢; exact ih (nodup_delKey p h)

theorem invM_sub {fs fs' : Files} {m : Manifest} (hsub : ∀ x ∈ fs', x ∈ fs) (h : InvM rel R0 fs m)
    (hB : CaseB rel R0 fs' m) : InvM rel R0 fs' m :=
  ⟨h.1, fun x hx hne => h.2.1 x (hsub x hx) hne, Or.inr hB⟩

/-- all inputs gone, complete output there: the manifest can go -/
theorem inv0_of_caseB_done {fs : Files} {m : Manifest} (hn : (keysOf fs).Nodup)
    (hM : InvM rel R0 fs m) (hB : CaseB rel R0 fs m)
    (hgone : ∀ x ∈ fs, m.inputs.contains x.1 = false) : Inv0 rel R0 fs := by
  obtain ⟨f, hlk, hc, hR, _⟩ := hB
  refine ⟨?_, ?_⟩
  · intro x hx
    by_cases hne : x.1 = m.out
    · have : fs.lookup x.1 = some x.2 := lookup_of_mem hn (by cases x; exact hx)
      rw [hne, hlk] at this; cases this; exact hc
    · exact hM.2.1 x hx hne
  · have h1 : restOf fs m = fs.filter (fun x => x.1 != m.out) := by
      apply List.filter_congr
      intro x hx
      have h' : x.1 ∉ m.inputs := by simpa using hgone x hx
      simp [h']
    have h2 : fs.filter (fun x => !(x.1 != m.out)) = [(m.out, f)] := by
      have := filter_key_of_lookup hn hlk
      rw [← this]; apply List.filter_congr; intro x _; simp [bne]
    have h3 := rowsOf_split (fun x => x.1 != m.out) fs
    rw [h2, ← h1] at h3
    have h4 : rowsOf [(m.out, f)] = f.rows := by simp [rowsOf]
    rw [h4] at h3
    exact rel.congr h3.symm (MEq.refl _) hR

/-- recovery, output missing -/
theorem inv0_of_missing {fs : Files} {m : Manifest} (hM : InvM rel R0 fs m) (hlk : fs.lookup m.out = none) :
    Inv0 rel R0 fs := by
  have hout := not_mem_keys_of_lookup_none hlk
  have hne : ∀ x ∈ fs, x.1 ≠ m.out := fun x hx e => hout (by rw [← e]; exact List.mem_map.mpr ⟨x, hx, rfl⟩)
  refine ⟨fun x hx => hM.2.1 x hx (hne x hx), ?_⟩
  rcases hM.2.2 with hA | hB
  · have : fs.filter (fun x => x.1 != m.out) = fs := delKey_eq_self hout
    rw [← this]; exact hA.2
  · obtain ⟨f, hf, _⟩ := hB; rw [hlk] at hf; cases hf

/-- recovery, output partial: delete it -/
theorem inv0_of_mismatch {fs : Files} {m : Manifest} {f : File} (hM : InvM rel R0 fs m)
    (hlk : fs.lookup m.out = some f) (hc : f.complete = false) : Inv0 rel R0 (delKey fs m.out) := by
  refine ⟨fun x hx => hM.2.1 x (mem_delKey.mp hx).1 (mem_delKey.mp hx).2, ?_⟩
  rcases hM.2.2 with hA | hB
  · exact hA.2
  · obtain ⟨g, hg, hgc, _⟩ := hB; rw [hlk] at hg; cases hg; rw [hc] at hgc; cases hgc

theorem caseB_of_complete {fs : Files} {m : Manifest} {f : File} (hM : InvM rel R0 fs m)
    (hlk : fs.lookup m.out = some f) (hc : f.complete = true) : CaseB rel R0 fs m := by
  rcases hM.2.2 with hA | hB
  · have := hA.1 f hlk; rw [hc] at this; cases this
  · exact hB

end Arc.C09
