import Arc.Model.C09
/-!
C09 — helper lemmas: count-based multiset relations on rows, assoc-list (storage) lemmas.
-/
namespace Arc.C09

/-! ## multisets of rows as lists up to counting -/

def MEq (a b : List Row) : Prop := ∀ r, a.count r = b.count r
def MLe (a b : List Row) : Prop := ∀ r, a.count r ≤ b.count r
/-- every row of `b` has a row with the same (tags,time) key (at dedup level `L`) in `a` -/
def Covers (L : Nat) (a b : List Row) : Prop := ∀ r ∈ b, ∃ r' ∈ a, keyAt L r' = keyAt L r
/-- `a` is a collapse of `b`: nothing new, nothing more often, every key still there -/
def Coll (L : Nat) (a b : List Row) : Prop := MLe a b ∧ Covers L a b

theorem MEq.refl (a : List Row) : MEq a a := fun _ => rfl
theorem MEq.symm {a b : List Row} (h : MEq a b) : MEq b a := fun r => (h r).symm
theorem MEq.trans {a b c : List Row} (h1 : MEq a b) (h2 : MEq b c) : MEq a c :=
  fun r => (h1 r).trans (h2 r)

theorem MEq.mem_iff {a b : List Row} (h : MEq a b) (r : Row) : r ∈ a ↔ r ∈ b := by
  rw [← List.count_pos_iff, ← List.count_pos_iff, h r]

theorem MEq.append {a a' b b' : List Row} (h1 : MEq a a') (h2 : MEq b b') : MEq (a ++ b) (a' ++ b') := by
  intro r; simp [List.count_append, h1 r, h2 r]

theorem MEq.append_comm (a b : List Row) : MEq (a ++ b) (b ++ a) := by
  intro r; simp [List.count_append, Nat.add_comm]

theorem MEq.perm {a b : List Row} (h : MEq a b) : a.Perm b := List.perm_iff_count.mpr h

theorem Coll.of_meq {L : Nat} {a b : List Row} (h : MEq a b) : Coll L a b :=
  ⟨fun r => Nat.le_of_eq (h r), fun r hr => ⟨r, (h.mem_iff r).mpr hr, rfl⟩⟩

theorem Coll.congr {L : Nat} {a a' b b' : List Row} (ha : MEq a a') (hb : MEq b b') (h : Coll L a b) : Coll L a' b' := by
  refine ⟨fun r => ?_, fun r hr => ?_⟩
  · rw [← ha r, ← hb r]; exact h.1 r
  · obtain ⟨r', h1, h2⟩ := h.2 r ((hb.mem_iff r).mpr hr)
    exact ⟨r', (ha.mem_iff r').mp h1, h2⟩

theorem Coll.trans {L : Nat} {a b c : List Row} (h1 : Coll L a b) (h2 : Coll L b c) : Coll L a c := by
  refine ⟨fun r => Nat.le_trans (h1.1 r) (h2.1 r), fun r hr => ?_⟩
  obtain ⟨r', h3, h4⟩ := h2.2 r hr
  obtain ⟨r'', h5, h6⟩ := h1.2 r' h3
  exact ⟨r'', h5, h6.trans h4⟩

theorem Coll.append_left {L : Nat} (x : List Row) {a b : List Row} (h : Coll L a b) : Coll L (x ++ a) (x ++ b) := by
  refine ⟨fun r => ?_, fun r hr => ?_⟩
  · simp only [List.count_append]; exact Nat.add_le_add_left (h.1 r) _
  · rcases List.mem_append.mp hr with hx | hb
    · exact ⟨r, List.mem_append_left _ hx, rfl⟩
    · obtain ⟨r', h1, h2⟩ := h.2 r hb
      exact ⟨r', List.mem_append_right _ h1, h2⟩

/-- the relation the invariant is stated for (instantiated with `Coll` and with `MEq`) -/
structure RowRel where
  lvl : Nat
  R : List Row → List Row → Prop
  okLevel : Nat → Prop
  okZero : okLevel 0
  congr : ∀ {a a' b b'}, MEq a a' → MEq b b' → R a b → R a' b'
  refl : ∀ a, R a a
  trans : ∀ {a b c}, R a b → R b c → R a c
  app : ∀ (x) {a b}, R a b → R (x ++ a) (x ++ b)
  cov : ∀ {a b}, R a b → Covers lvl a b

/-- partitions whose metadata-carrying files all declare level `L` -/
def collRel (L : Nat) : RowRel where
  lvl := L
  R := Coll L
  okLevel := fun l => l = 0 ∨ l = L
  okZero := Or.inl rfl
  congr := Coll.congr
  refl := fun a => Coll.of_meq (MEq.refl a)
  trans := Coll.trans
  app := fun x _ _ h => Coll.append_left x h
  cov := fun h => h.2

/-- partitions without any dedup metadata -/
def meqRel : RowRel where
  lvl := 0
  R := MEq
  okLevel := fun l => l = 0
  okZero := rfl
  congr := fun ha hb h => (ha.symm.trans h).trans hb
  refl := MEq.refl
  trans := MEq.trans
  app := fun x _ _ h => MEq.append (MEq.refl x) h
  cov := fun h => (Coll.of_meq (L := 0) h).2

/-! ## storage lemmas -/

abbrev Files := List (Path × File)

def keysOf (fs : Files) : List Path := fs.map (fun x => x.1)

theorem rowsOf_nil : rowsOf [] = [] := rfl
theorem rowsOf_cons (x : Path × File) (fs : Files) : rowsOf (x :: fs) = x.2.rows ++ rowsOf fs := by
  simp [rowsOf]
theorem rowsOf_append (a b : Files) : rowsOf (a ++ b) = rowsOf a ++ rowsOf b := by
  simp [rowsOf]

theorem rowsOf_split (P : Path × File → Bool) (fs : Files) :
    MEq (rowsOf fs) (rowsOf (fs.filter P) ++ rowsOf (fs.filter (fun x => !P x))) := by
  intro r
  induction fs with
  | nil => simp [rowsOf]
  | cons x fs ih =>
    by_cases h : P x = true
    · simp [List.filter, h, rowsOf_cons, List.count_append] at ih ⊢; omega
    · have h' : P x = false := by simpa using h
      simp [List.filter, h', rowsOf_cons, List.count_append] at ih ⊢; omega

theorem filter_eq_self_of {α} (P : α → Bool) (l : List α) (h : ∀ x ∈ l, P x = true) : l.filter P = l :=
  List.filter_eq_self.mpr h

theorem mem_keysOf {fs : Files} {p : Path} : p ∈ keysOf fs ↔ ∃ f, (p, f) ∈ fs := by
  simp [keysOf]

theorem lookup_none_of_not_mem {fs : Files} {p : Path} (h : p ∉ keysOf fs) : fs.lookup p = none := by
  induction fs with
  | nil => rfl
  | cons x fs ih =>
    obtain ⟨k, f⟩ := x
    have hk : p ≠ k := fun e => h (by simp [keysOf, e])
    have hb : (p == k) = false := by simpa using hk
    have : p ∉ keysOf fs := fun e => h (by simp [keysOf] at e ⊢; exact Or.inr e)
    simp [List.lookup, hb, ih this]

theorem lookup_of_mem {fs : Files} (hn : (keysOf fs).Nodup) {p : Path} {f : File} (h : (p, f) ∈ fs) :
    fs.lookup p = some f := by
  induction fs with
  | nil => cases h
  | cons x fs ih =>
    obtain ⟨k, g⟩ := x
    simp only [keysOf, List.map_cons, List.nodup_cons] at hn
    rcases List.mem_cons.mp h with e | e
    · cases e; simp [List.lookup]
    · have hk : p ≠ k := by
        intro e'; subst e'
        exact hn.1 (List.mem_map.mpr ⟨(p, f), e, rfl⟩)
      have hb : (p == k) = false := by simpa using hk
      simp [List.lookup, hb]; exact ih hn.2 e

theorem mem_of_lookup {fs : Files} {p : Path} {f : File} (h : fs.lookup p = some f) : (p, f) ∈ fs := by
  induction fs with
  | nil => simp [List.lookup] at h
  | cons x fs ih =>
    obtain ⟨k, g⟩ := x
    by_cases hk : p = k
    · subst hk; simp [List.lookup] at h; subst h; exact List.mem_cons_self
    · have hb : (p == k) = false := by simpa using hk
      simp [List.lookup, hb] at h
      exact List.mem_cons_of_mem _ (ih h)

theorem keysOf_delKey (fs : Files) (p : Path) : keysOf (delKey fs p) = (keysOf fs).filter (fun k => k != p) := by
  induction fs with
  | nil => rfl
  | cons x fs ih =>
    by_cases h : x.1 = p
    · have : (x.1 != p) = false := by simp [h]
      simp only [delKey, keysOf] at ih ⊢
      simp [List.filter, this, ih]
    · have : (x.1 != p) = true := by simpa using h
      simp only [delKey, keysOf] at ih ⊢
      simp [List.filter, this, ih]

theorem nodup_delKey {fs : Files} (p : Path) (h : (keysOf fs).Nodup) : (keysOf (delKey fs p)).Nodup := by
  rw [keysOf_delKey]; exact h.filter _

theorem mem_delKey {fs : Files} {p : Path} {x : Path × File} : x ∈ delKey fs p ↔ x ∈ fs ∧ x.1 ≠ p := by
  simp [delKey]

theorem lookup_delKey_ne {fs : Files} {p q : Path} (h : p ≠ q) : (delKey fs q).lookup p = fs.lookup p := by
  induction fs with
  | nil => rfl
  | cons x fs ih =>
    obtain ⟨k, g⟩ := x
    by_cases hk : k = q
    · have hb : (p == k) = false := by simpa [hk] using h
      have hd : (k != q) = false := by simp [hk]
      simp only [delKey] at ih
      simp [delKey, List.filter, hd, List.lookup, hb, ih]
    · have hd : (k != q) = true := by simpa using hk
      simp only [delKey] at ih
      simp only [delKey, List.filter, hd, List.lookup]
      split <;> simp_all

theorem lookup_delKey_self (fs : Files) (q : Path) : (delKey fs q).lookup q = none := by
  apply lookup_none_of_not_mem
  rw [keysOf_delKey]; simp

theorem lookup_append_of_none {a b : Files} {p : Path} (h : a.lookup p = none) : (a ++ b).lookup p = b.lookup p := by
  induction a with
  | nil => rfl
  | cons x a ih =>
    obtain ⟨k, g⟩ := x
    by_cases hk : p = k
    · subst hk; simp [List.lookup] at h
    · have hb : (p == k) = false := by simpa using hk
      simp only [List.lookup, hb, List.cons_append] at h ⊢; exact ih h

theorem lookup_append_of_some {a b : Files} {p : Path} {f : File} (h : a.lookup p = some f) :
    (a ++ b).lookup p = some f := by
  induction a with
  | nil => simp [List.lookup] at h
  | cons x a ih =>
    obtain ⟨k, g⟩ := x
    by_cases hk : p = k
    · subst hk; simp [List.lookup] at h ⊢; exact h
    · have hb : (p == k) = false := by simpa using hk
      simp [List.lookup, hb] at h ⊢; exact ih h

end Arc.C09
