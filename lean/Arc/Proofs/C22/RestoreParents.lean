import Arc.Proofs.C22.Parents
/-! `Restore` re-establishes `PInv` for ANY snapshot (its own orphan/duplicate quarantine + index
rebuild), so restore steps can appear anywhere in a history. Helper lemmas for C23. -/
set_option linter.unusedSimpArgs false
set_option linter.unusedVariables false
namespace Arc.C22
open SMap Arc.C23

/-! ### rebuilt set-valued indexes list every entry -/

theorem foldl_ins2_unit_mono {E : Type} (f : Int × E → Int) (l : List (Int × E))
    (acc : SMap Int (SSet Int)) (o i : Int) (h : get2? acc o i = some ()) :
    get2? (l.foldl (fun acc p => acc.ins2 (f p) p.1 ()) acc) o i = some () := by
  induction l generalizing acc with
  | nil => exact h
  | cons q t ih =>
    simp only [List.foldl_cons]
    apply ih
    rw [get2?_ins2]
    split
    · rfl
    · exact h

theorem foldl_ins2_unit_mem {E : Type} (f : Int × E → Int) (l : List (Int × E))
    (acc : SMap Int (SSet Int)) (p : Int × E) (hp : p ∈ l) :
    get2? (l.foldl (fun acc p => acc.ins2 (f p) p.1 ()) acc) (f p) p.1 = some () := by
  induction l generalizing acc with
  | nil => simp at hp
  | cons q t ih =>
    simp only [List.foldl_cons]
    rcases List.mem_cons.mp hp with hp | hp
    · subst hp
      apply foldl_ins2_unit_mono
      rw [get2?_ins2]; simp
    · exact ih _ hp

/-! ### teamsByOrg: needs the (org, name) de-duplication that Restore performs -/

def teamStep (acc : SMap Int (SMap String Int)) (p : Int × TeamEntry) : SMap Int (SMap String Int) :=
  acc.ins2 p.2.org p.2.name p.1

theorem foldl_teamStep_keep (l : List (Int × TeamEntry)) (acc : SMap Int (SMap String Int))
    (o : Int) (n : String) (v : Int) (h : get2? acc o n = some v)
    (hno : ∀ p ∈ l, ¬ (p.2.org = o ∧ p.2.name = n)) :
    get2? (l.foldl teamStep acc) o n = some v := by
  induction l generalizing acc with
  | nil => exact h
  | cons q t ih =>
    simp only [List.foldl_cons]
    apply ih
    · unfold teamStep
      rw [get2?_ins2]
      have := hno q List.mem_cons_self
      rw [if_neg (fun hh => this ⟨hh.1.symm, hh.2.symm⟩)]
      exact h
    · intro p hp; exact hno p (List.mem_cons_of_mem _ hp)

theorem foldl_teamStep_mem (l : List (Int × TeamEntry)) (acc : SMap Int (SMap String Int))
    (hd : l.Pairwise (fun p q => ¬ (q.2.org = p.2.org ∧ q.2.name = p.2.name)))
    (p : Int × TeamEntry) (hp : p ∈ l) :
    get2? (l.foldl teamStep acc) p.2.org p.2.name = some p.1 := by
  induction l generalizing acc with
  | nil => simp at hp
  | cons q t ih =>
    have ⟨hq, ht⟩ := List.pairwise_cons.mp hd
    simp only [List.foldl_cons]
    rcases List.mem_cons.mp hp with hp | hp
    · subst hp
      apply foldl_teamStep_keep
      · unfold teamStep; rw [get2?_ins2]; simp
      · intro x hx; exact hq x hx
    · exact ih _ ht hp

theorem restoreTeamsAux_spec (orgs : SMap Int OrgEntry) (l : SMap Int TeamEntry) (seen : List (Int × String)) :
    (∀ p ∈ restoreTeamsAux orgs l seen, p ∈ l ∧ orgs.has p.2.org = true ∧ (p.2.org, p.2.name) ∉ seen) ∧
    (restoreTeamsAux orgs l seen).Pairwise (fun p q => ¬ (q.2.org = p.2.org ∧ q.2.name = p.2.name)) := by
  induction l generalizing seen with
  | nil => exact ⟨fun p hp => by simp [restoreTeamsAux] at hp, by simp [restoreTeamsAux]⟩
  | cons q t ih =>
    obtain ⟨id, e⟩ := q
    unfold restoreTeamsAux
    by_cases hc : (validTeam e && orgs.has e.org && !seen.contains (e.org, e.name)) = true
    · rw [if_pos hc]
      simp only [Bool.and_eq_true, Bool.not_eq_true', ] at hc
      have hns : (e.org, e.name) ∉ seen := by
        intro hh
        have := hc.2
        simp [List.contains_iff_mem, hh] at this
      have ⟨i1, i2⟩ := ih ((e.org, e.name) :: seen)
      refine ⟨?_, ?_⟩
      · intro p hp
        rcases List.mem_cons.mp hp with hp | hp
        · subst hp; exact ⟨List.mem_cons_self, hc.1.2, hns⟩
        · have := i1 p hp
          exact ⟨List.mem_cons_of_mem _ this.1, this.2.1, fun hh => this.2.2 (List.mem_cons_of_mem _ hh)⟩
      · refine List.pairwise_cons.mpr ⟨?_, i2⟩
        intro x hx hh
        have := (i1 x hx).2.2
        apply this
        rw [hh.1, hh.2]; exact List.mem_cons_self
    · rw [if_neg hc]
      have ⟨i1, i2⟩ := ih seen
      exact ⟨fun p hp => ⟨List.mem_cons_of_mem _ (i1 p hp).1, (i1 p hp).2⟩, i2⟩

theorem restoreMembersAux_spec (tokens : SMap Int TokenEntry) (teams : SMap Int TeamEntry)
    (l : SMap Int MemberEntry) (seen : List (Int × Int)) :
    ∀ p ∈ restoreMembersAux tokens teams l seen,
      tokens.has p.2.token = true ∧ teams.has p.2.team = true := by
  induction l generalizing seen with
  | nil => intro p hp; simp [restoreMembersAux] at hp
  | cons q t ih =>
    obtain ⟨id, e⟩ := q
    unfold restoreMembersAux
    by_cases hc : (validMember e && tokens.has e.token && teams.has e.team && !seen.contains (e.token, e.team)) = true
    · rw [if_pos hc]
      simp only [Bool.and_eq_true] at hc
      intro p hp
      rcases List.mem_cons.mp hp with hp | hp
      · subst hp; exact ⟨hc.1.1.2, hc.1.2⟩
      · exact ih _ p hp
    · rw [if_neg hc]; exact ih seen

/-- **Restore re-establishes the parent invariant for any snapshot.** -/
theorem pinv_restoreAu (sn : Snapshot) : PInv (restoreAu sn) := by
  unfold restoreAu
  simp only
  refine ⟨?_, ?_, ?_, ?_, ?_, ?_, ?_, ?_⟩
  · intro k e hk
    have hm := get?_some_mem hk
    exact ((restoreTeamsAux_spec _ _ _).1 _ hm).2.1
  · intro k e hk
    have hm := get?_some_mem hk
    unfold restoreRoles at hm
    have := (List.mem_filter.mp hm).2
    simp only [Bool.and_eq_true] at this
    exact this.2
  · intro k e hk
    have hm := get?_some_mem hk
    unfold restoreMPerms at hm
    have := (List.mem_filter.mp hm).2
    simp only [Bool.and_eq_true] at this
    exact this.2
  · intro k e hk
    have hm := get?_some_mem hk
    exact restoreMembersAux_spec _ _ _ _ _ hm
  · intro k e hk
    have hm := get?_some_mem hk
    exact foldl_teamStep_mem _ [] (restoreTeamsAux_spec _ _ _).2 (k, e) hm
  · intro k e hk
    have hm := get?_some_mem hk
    exact foldl_ins2_unit_mem (fun (p : Int × RoleEntry) => p.2.team) _ [] (k, e) hm
  · intro k e hk
    have hm := get?_some_mem hk
    exact foldl_ins2_unit_mem (fun (p : Int × MPermEntry) => p.2.role) _ [] (k, e) hm
  · intro k e hk
    have hm := get?_some_mem hk
    refine ⟨?_, ?_⟩
    · show get2? (rebuildMemByToken _) e.token k = some ()
      exact foldl_ins2_unit_mem (fun (p : Int × MemberEntry) => p.2.token) _ [] (k, e) hm
    · show get2? (rebuildMemByTeam _) e.team k = some ()
      exact foldl_ins2_unit_mem (fun (p : Int × MemberEntry) => p.2.team) _ [] (k, e) hm

theorem pinv_runEv (s : State) (evs : List Ev) (h : PInv s.au) : PInv (runEv s evs).au := by
  induction evs generalizing s with
  | nil => exact h
  | cons e es ih =>
    cases e with
    | cmd i c =>
      simp only [runEv, stepEv]
      apply ih
      rw [apply_au]; exact pinv_step h i c
    | restore =>
      simp only [runEv, stepEv]
      apply ih
      exact pinv_restoreAu _

end Arc.C22
