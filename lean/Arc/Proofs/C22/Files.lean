import Arc.Model.C22
import Arc.Proofs.C22.Nested
/-! File-manifest part of the FSM: invariant (`FileInv`), its preservation by every manifest command, batch all-or-nothing, and `restoreFs` = identity. Helper lemmas for C22. -/
set_option linter.unusedSimpArgs false
namespace Arc.C22
open SMap

/-- what `filesByDB[db]` must say about path `p`, given the primary record of `p` -/
def fdbSpec (o : Option FileEntry) (db : String) : Option Unit :=
  match o with
  | some e => if e.db = db then some () else none
  | none => none

structure FileInv (f : FileSt) : Prop where
  sortedFiles : Sorted f.files
  nested : NestedOk f.filesByDB
  keyOk : ∀ p e, f.files.get? p = some e → e.path = p ∧ validPath p = true
  agree : ∀ db p, get2? f.filesByDB db p = fdbSpec (f.files.get? p) db

theorem fileInv_empty : FileInv ({} : FileSt) :=
  ⟨sorted_nil, nestedOk_nil, fun p e h => by simp at h, fun db p => rfl⟩

theorem get2?_dropOldIdx {s : FileSt} (h : FileInv s) (e : FileEntry) (db p : String) :
    get2? (dropOldIdx s e) db p =
      if p = e.path ∧ db ≠ e.db then none else get2? s.filesByDB db p := by
  unfold dropOldIdx
  cases hg : s.files.get? e.path with
  | none =>
    simp only
    by_cases hc : p = e.path ∧ db ≠ e.db
    · rw [if_pos hc, h.agree, hc.1, hg]; rfl
    · rw [if_neg hc]
  | some old =>
    simp only
    have hop : old.path = e.path := (h.keyOk _ _ hg).1
    by_cases hdb : old.db ≠ e.db
    · rw [if_pos hdb, get2?_del2, hop]
      by_cases hp : p = e.path
      · subst hp
        by_cases hd : db = old.db
        · subst hd; simp [hdb]
        · have : ¬ (db = old.db ∧ e.path = e.path) := fun hh => hd hh.1
          rw [if_neg this, h.agree, hg]
          by_cases hde : db = e.db
          · subst hde; simp [fdbSpec, hdb]
          · simp [hde, fdbSpec, Ne.symm hd]
      · have h1 : ¬ (db = old.db ∧ p = e.path) := fun hh => hp hh.2
        have h2 : ¬ (p = e.path ∧ db ≠ e.db) := fun hh => hp hh.1
        rw [if_neg h1, if_neg h2]
    · rw [if_neg hdb]
      have hdb' : old.db = e.db := Decidable.of_not_not hdb
      by_cases hc : p = e.path ∧ db ≠ e.db
      · rw [if_pos hc, h.agree, hc.1, hg]
        simp only [fdbSpec, hdb']
        rw [if_neg (fun hh => hc.2 hh.symm)]
      · rw [if_neg hc]

theorem nestedOk_dropOldIdx {s : FileSt} (h : FileInv s) (e : FileEntry) : NestedOk (dropOldIdx s e) := by
  unfold dropOldIdx
  cases hg : s.files.get? e.path with
  | none => exact h.nested
  | some old =>
    simp only
    by_cases hdb : old.db ≠ e.db
    · rw [if_pos hdb]; exact nestedOk_del2 h.nested _ _
    · rw [if_neg hdb]; exact h.nested

/-- register, and update with a non-empty database: insert + index -/
theorem fileInv_put {s : FileSt} (h : FileInv s) (e : FileEntry) (hv : validPath e.path = true) :
    FileInv { s with files := s.files.ins e.path e,
                     filesByDB := (dropOldIdx s e).ins2 e.db e.path () } := by
  refine ⟨sorted_ins h.sortedFiles, nestedOk_ins2 (nestedOk_dropOldIdx h e) _ _ _, ?_, ?_⟩
  · intro p x hx
    simp only [get?_ins] at hx
    by_cases hp : p = e.path
    · simp only [hp, if_true, Option.some.injEq] at hx
      subst hx; subst hp; exact ⟨rfl, hv⟩
    · simp only [hp, if_false] at hx; exact h.keyOk p x hx
  · intro db p
    simp only [get2?_ins2, get?_ins, get2?_dropOldIdx h]
    by_cases hp : p = e.path
    · subst hp
      by_cases hd : db = e.db
      · subst hd; simp [fdbSpec]
      · simp [hd, fdbSpec, Ne.symm hd]
    · simp [hp, h.agree]

theorem fileInv_register {s : FileSt} (h : FileInv s) (i : Nat) (f : FileEntry) :
    FileInv (applyRegister s i f).1 := by
  unfold applyRegister
  by_cases hok : fileOk f = true
  · simp only [hok, Bool.not_true, Bool.false_eq_true, if_false]
    apply fileInv_put h { f with lsn := i }
    unfold fileOk at hok
    simp only [Bool.and_eq_true] at hok
    exact hok.1
  · simp only [hok, Bool.not_false, if_true]
    exact h

theorem fileInv_update {s : FileSt} (h : FileInv s) (i : Nat) (f : FileEntry) :
    FileInv (applyUpdateFile s i f).1 := by
  unfold applyUpdateFile
  by_cases hok : fileOk f = true
  · simp only [hok, Bool.not_true, Bool.false_eq_true, if_false]
    apply fileInv_put h { f with lsn := i }
    unfold fileOk at hok
    simp only [Bool.and_eq_true] at hok
    exact hok.1
  · simp only [hok, Bool.not_false, if_true]
    exact h

theorem fileInv_delete {s : FileSt} (h : FileInv s) (path : String) :
    FileInv (applyDeleteFile s path).1 := by
  unfold applyDeleteFile
  by_cases hp : path = ""
  · simp only [hp, if_true]; exact h
  · simp only [hp, if_false]
    cases hg : s.files.get? path with
    | none => exact h
    | some ex =>
      simp only
      refine ⟨sorted_del h.sortedFiles, nestedOk_del2 h.nested _ _, ?_, ?_⟩
      · intro p x hx
        simp only [get?_del] at hx
        by_cases hpp : p = path
        · simp [hpp] at hx
        · simp only [hpp, if_false] at hx; exact h.keyOk p x hx
      · intro db p
        simp only [get2?_del2, get?_del]
        by_cases hpp : p = path
        · subst hpp
          by_cases hd : db = ex.db
          · simp [hd, fdbSpec]
          · simp only [hd, false_and, if_false, if_true, h.agree, hg, fdbSpec]
            rw [if_neg (fun hh => hd hh.symm)]
        · simp [hpp, h.agree]

/-! ### every manifest command keeps the invariant -/

theorem fileInv_batchOp {s : FileSt} (h : FileInv s) (i : Nat) (op : BatchOp) :
    FileInv (applyBatchOp s i op).1 := by
  cases op with
  | register f => exact fileInv_register h i f
  | delete p => exact fileInv_delete h p
  | update f => exact fileInv_update h i f
  | malformed => exact h
  | unsupported => exact h

theorem fileInv_applyOps {s : FileSt} (h : FileInv s) (i : Nat) (ops : List BatchOp) :
    FileInv (applyOps s i ops).1 := by
  induction ops generalizing s with
  | nil => exact h
  | cons op rest ih =>
    unfold applyOps
    by_cases hr : (applyBatchOp s i op).2 = .ok
    · rw [if_pos hr]; exact ih (fileInv_batchOp h i op)
    · rw [if_neg hr]; exact fileInv_batchOp h i op

theorem fileInv_batch {s : FileSt} (h : FileInv s) (i : Nat) (ops : List BatchOp) :
    FileInv (applyBatch s i ops).1 := by
  unfold applyBatch
  by_cases hp : prevalidate ops = .ok
  · rw [if_pos hp]; exact fileInv_applyOps h i ops
  · rw [if_neg hp]; exact h

/-- effect of any command on the manifest part -/
def fsStep (s : FileSt) (i : Nat) : Cmd → FileSt
  | .registerFile f => (applyRegister s i f).1
  | .deleteFile p => (applyDeleteFile s p).1
  | .batch ops => (applyBatch s i ops).1
  | .updateFile f => (applyUpdateFile s i f).1
  | _ => s

theorem apply_fs (s : State) (i : Nat) (c : Cmd) : (apply s i c).1.fs = fsStep s.fs i c := by
  cases c <;> rfl

theorem fileInv_step {s : FileSt} (h : FileInv s) (i : Nat) (c : Cmd) : FileInv (fsStep s i c) := by
  cases c <;> try exact h
  · exact fileInv_register h i _
  · exact fileInv_delete h _
  · exact fileInv_batch h i _
  · exact fileInv_update h i _

/-! ### batch all-or-nothing -/

/-- single command corresponding to a batch op -/
def opCmd : BatchOp → Cmd
  | .register f => .registerFile f
  | .update f => .updateFile f
  | .delete p => .deleteFile p
  | .malformed => .malformed
  | .unsupported => .unknown

theorem batchOp_ok_of_pre (s : FileSt) (i : Nat) (op : BatchOp) (rest : List BatchOp)
    (h : prevalidate (op :: rest) = .ok) :
    (applyBatchOp s i op).2 = .ok ∧ prevalidate rest = .ok := by
  cases op with
  | register f =>
    simp only [prevalidate] at h
    by_cases hok : fileOk f = true
    · simp only [hok, if_true] at h
      refine ⟨?_, h⟩
      simp [applyBatchOp, applyRegister, hok]
    · simp [hok] at h
  | update f =>
    simp only [prevalidate] at h
    by_cases hok : fileOk f = true
    · simp only [hok, if_true] at h
      refine ⟨?_, h⟩
      simp [applyBatchOp, applyUpdateFile, hok]
    · simp [hok] at h
  | delete p =>
    simp only [prevalidate] at h
    by_cases hp : p = ""
    · simp [hp] at h
    · simp only [hp, if_false] at h
      refine ⟨?_, h⟩
      simp only [applyBatchOp, applyDeleteFile, hp, if_false]
      cases s.files.get? p <;> rfl
  | malformed => simp [prevalidate] at h
  | unsupported => simp [prevalidate] at h

/-- when the pre-validation pass accepts, the apply loop cannot fail midway and equals the
left-to-right application of the individual ops -/
theorem applyOps_of_pre (s : FileSt) (i : Nat) (ops : List BatchOp) (h : prevalidate ops = .ok) :
    applyOps s i ops = (ops.foldl (fun st op => (applyBatchOp st i op).1) s, .ok) := by
  induction ops generalizing s with
  | nil => rfl
  | cons op rest ih =>
    have ⟨h1, h2⟩ := batchOp_ok_of_pre s i op rest h
    unfold applyOps
    rw [if_pos h1, ih _ h2]
    rfl

theorem batchOp_eq_cmd (s : State) (i : Nat) (op : BatchOp) :
    (apply s i (opCmd op)).1 = { s with fs := (applyBatchOp s.fs i op).1 } := by
  cases op <;> rfl

theorem foldl_batch_eq_cmds (s : State) (i : Nat) (ops : List BatchOp) :
    (ops.map opCmd).foldl (fun st c => (apply st i c).1) s =
      { s with fs := ops.foldl (fun st op => (applyBatchOp st i op).1) s.fs } := by
  induction ops generalizing s with
  | nil => rfl
  | cons op rest ih =>
    simp only [List.map_cons, List.foldl_cons]
    rw [batchOp_eq_cmd, ih]

/-! ### restore of the manifest part -/

theorem filter_eq_self {α : Type} (l : List α) (f : α → Bool) (h : ∀ x ∈ l, f x = true) :
    l.filter f = l := List.filter_eq_self.mpr h

theorem restoreFiles_id {s : FileSt} (h : FileInv s) : restoreFiles s.files = s.files := by
  unfold restoreFiles
  apply filter_eq_self
  intro x hx
  obtain ⟨p, e⟩ := x
  exact (h.keyOk p e (mem_get?_of_sorted h.sortedFiles hx)).2

def fdbStep (acc : SMap String (SSet String)) (p : String × FileEntry) : SMap String (SSet String) :=
  acc.ins2 p.2.db p.1 ()

theorem rebuild_get2? (l : SMap String FileEntry) (acc : SMap String (SSet String)) (db p : String) :
    get2? (l.foldl fdbStep acc) db p =
      if l.any (fun q => decide (q.1 = p) && decide (q.2.db = db)) then some () else get2? acc db p := by
  induction l generalizing acc with
  | nil => simp
  | cons q t ih =>
    simp only [List.foldl_cons, List.any_cons]
    rw [ih]
    unfold fdbStep
    rw [get2?_ins2]
    by_cases ht : t.any (fun q => decide (q.1 = p) && decide (q.2.db = db)) = true
    · simp [ht]
    · simp only [ht, Bool.or_false, Bool.false_eq_true, if_false]
      by_cases hq : q.1 = p ∧ q.2.db = db
      · simp [hq.1, hq.2]
      · have : ¬ (db = q.2.db ∧ p = q.1) := fun hh => hq ⟨hh.2.symm, hh.1.symm⟩
        rw [if_neg this]
        have : (decide (q.1 = p) && decide (q.2.db = db)) = false := by
          by_cases a : q.1 = p <;> by_cases b : q.2.db = db <;> simp [a, b] <;> exact hq ⟨a, b⟩
        simp [this]

theorem any_spec {l : SMap String FileEntry} (hs : Sorted l) (db p : String) :
    (if l.any (fun q => decide (q.1 = p) && decide (q.2.db = db)) then some () else none) =
      fdbSpec (get? l p) db := by
  induction l with
  | nil => rfl
  | cons q t ih =>
    obtain ⟨a, b⟩ := q
    have ⟨hall, ht⟩ := sorted_cons.mp hs
    simp only [List.any_cons, get?_cons]
    by_cases hp : p = a
    · subst hp
      have hnone : get? t p = none := get?_none_of_lt hall (Or.inr rfl)
      have := ih ht
      rw [hnone] at this
      simp only [if_true, decide_true, Bool.true_and]
      by_cases hb : b.db = db
      · simp [hb, fdbSpec]
      · simp only [hb, decide_false, Bool.false_or, fdbSpec, if_false]
        exact this
    · have : (decide (a = p) && decide (b.db = db)) = false := by
        have : ¬ a = p := fun e => hp e.symm
        simp [this]
      simp only [this, Bool.false_or, hp, if_false]
      exact ih ht

theorem nestedOk_rebuild (l : SMap String FileEntry) (acc : SMap String (SSet String))
    (h : NestedOk acc) : NestedOk (l.foldl fdbStep acc) := by
  induction l generalizing acc with
  | nil => exact h
  | cons q t ih => exact ih _ (nestedOk_ins2 h _ _ _)

theorem rebuildFilesByDB_id {s : FileSt} (h : FileInv s) : rebuildFilesByDB s.files = s.filesByDB := by
  apply ext2 (nestedOk_rebuild _ _ nestedOk_nil) h.nested
  intro db p
  show get2? (s.files.foldl fdbStep []) db p = _
  rw [rebuild_get2?, h.agree, ← any_spec h.sortedFiles]
  rfl

theorem restoreFs_id {s : FileSt} (h : FileInv s) : restoreFs s.files = s := by
  unfold restoreFs
  simp only [restoreFiles_id h, rebuildFilesByDB_id h]

end Arc.C22
