import Arc.Proofs.C22.SMapLemmas
/-! Lemmas about nested maps `K1 → K2 → V` with the "drop the outer key when the inner map becomes
empty" discipline (`ins2` / `del2`). Helper lemmas for C22/C23; core Lean only. -/
set_option linter.unusedSectionVars false
set_option linter.unusedSimpArgs false
namespace Arc.C22
namespace SMap
variable {K1 K2 V : Type} [DecidableEq K1] [LOrd K1] [DecidableEq K2] [LOrd K2]

/-- outer map sorted, every inner map sorted and non-empty -/
def NestedOk (m : SMap K1 (SMap K2 V)) : Prop :=
  Sorted m ∧ ∀ o inner, get? m o = some inner → Sorted inner ∧ inner ≠ []

theorem nestedOk_nil : NestedOk ([] : SMap K1 (SMap K2 V)) :=
  ⟨sorted_nil, fun o inner h => by simp at h⟩

theorem get2?_def (m : SMap K1 (SMap K2 V)) (o : K1) (i : K2) :
    get2? m o i = (inner m o).get? i := by
  unfold get2? inner
  cases get? m o <;> simp

theorem inner_ins (m : SMap K1 (SMap K2 V)) (o o' : K1) (x : SMap K2 V) :
    inner (m.ins o x) o' = if o' = o then x else inner m o' := by
  unfold inner; rw [get?_ins]; by_cases h : o' = o <;> simp [h]

theorem inner_del (m : SMap K1 (SMap K2 V)) (o o' : K1) :
    inner (m.del o) o' = if o' = o then [] else inner m o' := by
  unfold inner; rw [get?_del]; by_cases h : o' = o <;> simp [h]

theorem get2?_ins2 (m : SMap K1 (SMap K2 V)) (o o' : K1) (i i' : K2) (v : V) :
    get2? (ins2 o i v m) o' i' = if o' = o ∧ i' = i then some v else get2? m o' i' := by
  simp only [get2?_def]
  unfold ins2
  rw [inner_ins]
  by_cases ho : o' = o
  · subst ho
    simp only [if_true, true_and, get?_ins]
  · simp [ho]

theorem ne_nil_of_get? {m : SMap K2 V} {k : K2} {v : V} (h : get? m k = some v) : m ≠ [] := by
  intro e; subst e; simp at h

theorem get2?_del2 (m : SMap K1 (SMap K2 V)) (o o' : K1) (i i' : K2) :
    get2? (del2 o i m) o' i' = if o' = o ∧ i' = i then none else get2? m o' i' := by
  unfold del2
  cases hg : get? m o with
  | none =>
    simp only
    by_cases hc : o' = o ∧ i' = i
    · rw [if_pos hc]; unfold get2?; rw [hc.1, hg]
    · rw [if_neg hc]
  | some inn =>
    simp only
    by_cases hem : (inn.del i).isEmpty = true
    · rw [if_pos hem]
      simp only [get2?_def, inner_del]
      by_cases ho : o' = o
      · subst ho
        simp only [if_true, true_and]
        have hinn : inner m o' = inn := by unfold inner; rw [hg]; rfl
        rw [hinn]
        by_cases hi : i' = i
        · simp [hi]
        · simp only [hi, if_false]
          have := (isEmpty_iff.mp hem) i'
          rw [get?_del_ne _ _ _ hi] at this
          rw [this]; rfl
      · simp [ho]
    · rw [if_neg hem]
      simp only [get2?_def, inner_ins]
      by_cases ho : o' = o
      · subst ho
        have hinn : inner m o' = inn := by unfold inner; rw [hg]; rfl
        simp only [if_true, true_and, get?_del, hinn]
      · simp [ho]

theorem nestedOk_ins2 {m : SMap K1 (SMap K2 V)} (h : NestedOk m) (o : K1) (i : K2) (v : V) :
    NestedOk (ins2 o i v m) := by
  unfold ins2
  refine ⟨sorted_ins h.1, ?_⟩
  intro o' x hx
  rw [get?_ins] at hx
  by_cases ho : o' = o
  · simp only [ho, if_true, Option.some.injEq] at hx
    subst hx
    refine ⟨?_, ne_nil_of_get? (get?_ins_self i v _)⟩
    apply sorted_ins
    unfold inner
    cases hg : get? m o with
    | none => exact sorted_nil
    | some y => exact (h.2 o y hg).1
  · simp only [ho, if_false] at hx
    exact h.2 o' x hx

theorem nestedOk_del {m : SMap K1 (SMap K2 V)} (h : NestedOk m) (o : K1) : NestedOk (m.del o) := by
  refine ⟨sorted_del h.1, ?_⟩
  intro o' x hx
  rw [get?_del] at hx
  by_cases ho : o' = o
  · simp [ho] at hx
  · simp only [ho, if_false] at hx; exact h.2 o' x hx

theorem nestedOk_del2 {m : SMap K1 (SMap K2 V)} (h : NestedOk m) (o : K1) (i : K2) :
    NestedOk (del2 o i m) := by
  unfold del2
  cases hg : get? m o with
  | none => exact h
  | some inn =>
    simp only
    by_cases hem : (inn.del i).isEmpty = true
    · rw [if_pos hem]; exact nestedOk_del h o
    · rw [if_neg hem]
      refine ⟨sorted_ins h.1, ?_⟩
      intro o' x hx
      rw [get?_ins] at hx
      by_cases ho : o' = o
      · simp only [ho, if_true, Option.some.injEq] at hx
        subst hx
        refine ⟨sorted_del (h.2 o inn hg).1, ?_⟩
        intro e; rw [e] at hem; simp at hem
      · simp only [ho, if_false] at hx; exact h.2 o' x hx

/-- canonical form for nested maps: same `get2?` everywhere ⇒ equal -/
theorem ext2 {m1 m2 : SMap K1 (SMap K2 V)} (h1 : NestedOk m1) (h2 : NestedOk m2)
    (h : ∀ o i, get2? m1 o i = get2? m2 o i) : m1 = m2 := by
  apply ext h1.1 h2.1
  intro o
  cases hg1 : get? m1 o with
  | none =>
    cases hg2 : get? m2 o with
    | none => rfl
    | some y =>
      exfalso
      have ⟨_, hne⟩ := h2.2 o y hg2
      cases y with
      | nil => exact hne rfl
      | cons q t =>
        have := h o q.1
        unfold get2? at this
        rw [hg1, hg2] at this
        obtain ⟨qa, qb⟩ := q
        simp [get?_cons] at this
  | some x =>
    cases hg2 : get? m2 o with
    | none =>
      exfalso
      have ⟨_, hne⟩ := h1.2 o x hg1
      cases x with
      | nil => exact hne rfl
      | cons q t =>
        have := h o q.1
        unfold get2? at this
        rw [hg1, hg2] at this
        obtain ⟨qa, qb⟩ := q
        simp [get?_cons] at this
    | some y =>
      have e : x = y := by
        apply ext (h1.2 o x hg1).1 (h2.2 o y hg2).1
        intro i
        have := h o i
        unfold get2? at this
        rw [hg1, hg2] at this
        exact this
      rw [e]

end SMap
end Arc.C22
