import Arc.Model.C22
import Arc.Proofs.C22.Tokens
/-! Soundness of the three membership indexes (`tokenMembershipsByPair`, `…ByToken`, `…ByTeam`):
every index entry points at a membership record that exists and carries that token / team
(index ⊆ primaries). Together with `PInv.c4` (primaries ⊆ traversal indexes) this is index agreement
for `…ByToken` / `…ByTeam`. Preserved by every command at a fresh log index, through the team,
organization and token cascades, and re-established by `Restore`. Helper lemmas for C22/C23. -/
set_option linter.unusedSimpArgs false
set_option linter.unusedVariables false
namespace Arc.C22
open SMap

structure MemInv (a : AuthSt) (n : Int) : Prop where
  sm : Sorted a.members
  kb : ∀ k e, a.members.get? k = some e → k < n
  s1 : ∀ tok tm id, get2? a.memByPair tok tm = some id →
        ∃ e, a.members.get? id = some e ∧ e.token = tok ∧ e.team = tm
  s2 : ∀ tok id, get2? a.memByToken tok id = some () → ∃ e, a.members.get? id = some e ∧ e.token = tok
  s3 : ∀ tm id, get2? a.memByTeam tm id = some () → ∃ e, a.members.get? id = some e ∧ e.team = tm
  /-- completeness of the pair index: every membership record is found under its (token, team) -/
  c1 : ∀ id e, a.members.get? id = some e → get2? a.memByPair e.token e.team = some id

theorem memInv_empty (n : Int) : MemInv ({} : AuthSt) n :=
  ⟨sorted_nil, fun k e h => by simp at h, fun _ _ _ h => by simp [get2?] at h,
   fun _ _ h => by simp [get2?] at h, fun _ _ h => by simp [get2?] at h, fun _ _ h => by simp at h⟩

theorem MemInv.mono {a : AuthSt} {n m : Int} (h : MemInv a n) (hnm : n ≤ m) : MemInv a m :=
  { h with kb := fun k e hk => by have := h.kb k e hk; omega }

theorem MemInv.congr {a b : AuthSt} {n : Int} (h : MemInv a n) (h0 : b.members = a.members)
    (h1 : b.memByPair = a.memByPair) (h2 : b.memByToken = a.memByToken) (h3 : b.memByTeam = a.memByTeam) :
    MemInv b n := by
  refine ⟨?_, ?_, ?_, ?_, ?_, ?_⟩
  · rw [h0]; exact h.sm
  · rw [h0]; exact h.kb
  · rw [h0, h1]; exact h.s1
  · rw [h0, h2]; exact h.s2
  · rw [h0, h3]; exact h.s3
  · rw [h0, h1]; exact h.c1

/-! ### AddTokenToTeam / RemoveTokenFromTeam -/

theorem memInv_addMember {a : AuthSt} {n : Int} (h : MemInv a n) (i : Nat) (hi : n ≤ (i : Int)) (e : MemberEntry) :
    MemInv (applyAddMember a i e).1 ((i : Int) + 1) := by
  have hm := h.mono (show n ≤ (i : Int) + 1 by omega)
  unfold applyAddMember
  split
  · exact hm
  · split
    · exact hm
    · split
      · exact hm
      · split
        · exact hm
        · split
          · exact hm
          · rename_i hfree
            have hnone : get2? a.memByPair e.token e.team = none := by
              cases hh : get2? a.memByPair e.token e.team with
              | none => rfl
              | some v => simp [hh] at hfree
            have old : ∀ id x, a.members.get? id = some x →
                (a.members.ins (i : Int) { e with id := i, lsn := i }).get? id = some x := by
              intro id x hx
              have : id ≠ (i : Int) := by have := h.kb id x hx; omega
              rw [get?_ins, if_neg this]; exact hx
            refine ⟨sorted_ins h.sm, ?_, ?_, ?_, ?_, ?_⟩
            rotate_left 4
            · intro id x hx
              simp only [get?_ins] at hx
              simp only [get2?_ins2]
              by_cases hid : id = (i : Int)
              · simp only [hid, if_true, Option.some.injEq] at hx
                subst hx; simp [hid]
              · simp only [hid, if_false] at hx
                have c := h.c1 id x hx
                have hne : ¬ (x.token = e.token ∧ x.team = e.team) := by
                  intro hh; rw [hh.1, hh.2, hnone] at c; exact absurd c (by simp)
                rw [if_neg hne]; exact c
            · intro k x hk
              simp only [get?_ins] at hk
              by_cases hki : k = (i : Int)
              · omega
              · simp only [hki, if_false] at hk; have := h.kb k x hk; omega
            · intro tok tm id hg
              simp only [get2?_ins2] at hg
              by_cases hc : tok = e.token ∧ tm = e.team
              · rw [if_pos hc, Option.some.injEq] at hg
                exact ⟨{ e with id := i, lsn := i }, by rw [← hg]; exact get?_ins_self _ _ _, hc.1.symm, hc.2.symm⟩
              · rw [if_neg hc] at hg
                obtain ⟨x, hx, h1, h2⟩ := h.s1 tok tm id hg
                exact ⟨x, old id x hx, h1, h2⟩
            · intro tok id hg
              simp only [get2?_ins2] at hg
              by_cases hc : tok = e.token ∧ id = (i : Int)
              · exact ⟨{ e with id := i, lsn := i }, by rw [hc.2]; exact get?_ins_self _ _ _, hc.1.symm⟩
              · rw [if_neg hc] at hg
                obtain ⟨x, hx, h1⟩ := h.s2 tok id hg
                exact ⟨x, old id x hx, h1⟩
            · intro tm id hg
              simp only [get2?_ins2] at hg
              by_cases hc : tm = e.team ∧ id = (i : Int)
              · exact ⟨{ e with id := i, lsn := i }, by rw [hc.2]; exact get?_ins_self _ _ _, hc.1.symm⟩
              · rw [if_neg hc] at hg
                obtain ⟨x, hx, h1⟩ := h.s3 tm id hg
                exact ⟨x, old id x hx, h1⟩

/-- dropping membership `mid` (record `mem`) from the primary map and from the pair / by-token index
keeps those two soundness clauses; the by-team clause survives for every entry that is not `mid`'s -/
theorem drop_s1 {a : AuthSt} {n : Int} (s1 : ∀ tok tm id, get2? a.memByPair tok tm = some id →
      ∃ e, a.members.get? id = some e ∧ e.token = tok ∧ e.team = tm)
    (mid : Int) (mem : MemberEntry) (hg : a.members.get? mid = some mem) :
    ∀ tok tm id, get2? (a.memByPair.del2 mem.token mem.team) tok tm = some id →
      ∃ e, (a.members.del mid).get? id = some e ∧ e.token = tok ∧ e.team = tm := by
  intro tok tm id hq
  rw [get2?_del2] at hq
  by_cases hc : tok = mem.token ∧ tm = mem.team
  · rw [if_pos hc] at hq; exact absurd hq (by simp)
  · rw [if_neg hc] at hq
    obtain ⟨x, hx, h1, h2⟩ := s1 tok tm id hq
    have hne : id ≠ mid := by
      intro e2; rw [e2, hg] at hx; cases hx; exact hc ⟨h1.symm, h2.symm⟩
    exact ⟨x, by rw [get?_del, if_neg hne]; exact hx, h1, h2⟩

theorem drop_s2 {a : AuthSt} (s2 : ∀ tok id, get2? a.memByToken tok id = some () →
      ∃ e, a.members.get? id = some e ∧ e.token = tok)
    (mid : Int) (mem : MemberEntry) (hg : a.members.get? mid = some mem) :
    ∀ tok id, get2? (a.memByToken.del2 mem.token mid) tok id = some () →
      ∃ e, (a.members.del mid).get? id = some e ∧ e.token = tok := by
  intro tok id hq
  rw [get2?_del2] at hq
  by_cases hc : tok = mem.token ∧ id = mid
  · rw [if_pos hc] at hq; exact absurd hq (by simp)
  · rw [if_neg hc] at hq
    obtain ⟨x, hx, h1⟩ := s2 tok id hq
    have hne : id ≠ mid := by
      intro e2; rw [e2, hg] at hx; cases hx; exact hc ⟨h1.symm, e2⟩
    exact ⟨x, by rw [get?_del, if_neg hne]; exact hx, h1⟩

theorem drop_s3 {a : AuthSt} (s3 : ∀ tm id, get2? a.memByTeam tm id = some () →
      ∃ e, a.members.get? id = some e ∧ e.team = tm)
    (mid : Int) (mem : MemberEntry) (hg : a.members.get? mid = some mem) :
    ∀ tm id, get2? (a.memByTeam.del2 mem.team mid) tm id = some () →
      ∃ e, (a.members.del mid).get? id = some e ∧ e.team = tm := by
  intro tm id hq
  rw [get2?_del2] at hq
  by_cases hc : tm = mem.team ∧ id = mid
  · rw [if_pos hc] at hq; exact absurd hq (by simp)
  · rw [if_neg hc] at hq
    obtain ⟨x, hx, h1⟩ := s3 tm id hq
    have hne : id ≠ mid := by
      intro e2; rw [e2, hg] at hx; cases hx; exact hc ⟨h1.symm, e2⟩
    exact ⟨x, by rw [get?_del, if_neg hne]; exact hx, h1⟩

theorem drop_c1 {a : AuthSt} (c1 : ∀ id e, a.members.get? id = some e → get2? a.memByPair e.token e.team = some id)
    (mid : Int) (mem : MemberEntry) (hg : a.members.get? mid = some mem) :
    ∀ id e, (a.members.del mid).get? id = some e →
      get2? (a.memByPair.del2 mem.token mem.team) e.token e.team = some id := by
  intro id e he
  rw [get?_del] at he
  by_cases hid : id = mid
  · simp [hid] at he
  · simp only [hid, if_false] at he
    have c := c1 id e he
    rw [get2?_del2]
    have hne : ¬ (e.token = mem.token ∧ e.team = mem.team) := by
      intro hh
      have c2 := c1 mid mem hg
      rw [hh.1, hh.2, c2] at c
      exact hid (Option.some.inj c).symm
    rw [if_neg hne]; exact c

theorem kb_del {a : AuthSt} {n : Int} (kb : ∀ k e, a.members.get? k = some e → k < n) (mid : Int) :
    ∀ k e, (a.members.del mid).get? k = some e → k < n := by
  intro k e hk
  rw [get?_del] at hk
  by_cases h : k = mid
  · simp [h] at hk
  · simp only [h, if_false] at hk; exact kb k e hk

theorem memInv_removeMember {a : AuthSt} {n : Int} (h : MemInv a n) (token team : Int) :
    MemInv (applyRemoveMember a token team).1 n := by
  unfold applyRemoveMember
  split
  · exact h
  · cases hg : a.memByPair.get2? token team with
    | none => exact h
    | some mid =>
      simp only
      obtain ⟨mem, hmem, ht, htm⟩ := h.s1 token team mid hg
      refine ⟨sorted_del h.sm, kb_del h.kb mid, ?_, ?_, ?_, ?_⟩
      · have := drop_s1 (n := n) h.s1 mid mem hmem; rw [ht, htm] at this; exact this
      · have := drop_s2 h.s2 mid mem hmem; rw [ht] at this; exact this
      · have := drop_s3 h.s3 mid mem hmem; rw [htm] at this; exact this
      · have := drop_c1 h.c1 mid mem hmem; rw [ht, htm] at this; exact this

/-! ### the team cascade: during the loop the by-team clause is suspended for the team being deleted -/

structure MemInvT (a : AuthSt) (n : Int) (T : Int) : Prop where
  sm : Sorted a.members
  kb : ∀ k e, a.members.get? k = some e → k < n
  s1 : ∀ tok tm id, get2? a.memByPair tok tm = some id →
        ∃ e, a.members.get? id = some e ∧ e.token = tok ∧ e.team = tm
  s2 : ∀ tok id, get2? a.memByToken tok id = some () → ∃ e, a.members.get? id = some e ∧ e.token = tok
  s3 : ∀ tm id, tm ≠ T → get2? a.memByTeam tm id = some () → ∃ e, a.members.get? id = some e ∧ e.team = tm
  c1 : ∀ id e, a.members.get? id = some e → get2? a.memByPair e.token e.team = some id

theorem memInvT_step {a : AuthSt} {n T : Int} (h : MemInvT a n T) (mid : Int)
    (hT : ∀ mem, a.members.get? mid = some mem → mem.team = T) : MemInvT (memCascadeByTeam a mid) n T := by
  unfold memCascadeByTeam
  cases hg : a.members.get? mid with
  | none => exact h
  | some mem =>
    simp only
    refine ⟨sorted_del h.sm, kb_del h.kb mid, drop_s1 (n := n) h.s1 mid mem hg, drop_s2 h.s2 mid mem hg, ?_,
      drop_c1 h.c1 mid mem hg⟩
    intro tm id hne hq
    obtain ⟨x, hx, h1⟩ := h.s3 tm id hne hq
    have : id ≠ mid := by
      intro e2; rw [e2, hg] at hx; cases hx; exact hne (h1.symm.trans (hT mem hg))
    exact ⟨x, by rw [get?_del, if_neg this]; exact hx, h1⟩

theorem memCascadeByTeam_shrink (a : AuthSt) (mid k : Int) (e : MemberEntry)
    (h : (memCascadeByTeam a mid).members.get? k = some e) : a.members.get? k = some e := by
  rw [memCascadeByTeam_get?] at h
  by_cases hk : k = mid
  · simp [hk] at h
  · simp only [hk, if_false] at h; exact h

theorem memInvT_fold (ms : List Int) {a : AuthSt} {n T : Int} (h : MemInvT a n T)
    (hT : ∀ mid ∈ ms, ∀ mem, a.members.get? mid = some mem → mem.team = T) :
    MemInvT (ms.foldl memCascadeByTeam a) n T := by
  induction ms generalizing a with
  | nil => exact h
  | cons m t ih =>
    simp only [List.foldl_cons]
    apply ih (memInvT_step h m (hT m List.mem_cons_self))
    intro mid hmid mem hmem
    exact hT mid (List.mem_cons_of_mem _ hmid) mem (memCascadeByTeam_shrink a m mid mem hmem)

theorem get?_of_mem_keys {K V : Type} [DecidableEq K] [LOrd K] {m : SMap K V} {k : K} (h : k ∈ keys m) :
    ∃ v, get? m k = some v := by
  induction m with
  | nil => simp [keys] at h
  | cons q t ih =>
    obtain ⟨a, b⟩ := q
    rw [get?_cons]
    by_cases hk : k = a
    · exact ⟨b, by simp [hk]⟩
    · simp only [hk, if_false]
      apply ih
      unfold keys at h ⊢
      simp only [List.map_cons, List.mem_cons] at h
      rcases h with h | h
      · exact absurd h hk
      · exact h

theorem fold_roles_mem (rs : List Int) (a : AuthSt) :
    (rs.foldl cascadeRoleAndDelete a).members = a.members ∧
    (rs.foldl cascadeRoleAndDelete a).memByPair = a.memByPair ∧
    (rs.foldl cascadeRoleAndDelete a).memByToken = a.memByToken ∧
    (rs.foldl cascadeRoleAndDelete a).memByTeam = a.memByTeam := by
  induction rs generalizing a with
  | nil => exact ⟨rfl, rfl, rfl, rfl⟩
  | cons r t ih =>
    simp only [List.foldl_cons]
    have := ih (cascadeRoleAndDelete a r)
    exact ⟨this.1, this.2.1, this.2.2.1, this.2.2.2⟩

theorem memInv_cascadeTeam {a : AuthSt} {n : Int} (h : MemInv a n) (T : Int) : MemInv (cascadeTeam a T) n := by
  unfold cascadeTeam
  simp only
  have fr := fold_roles_mem (keys (a.rolesByTeam.inner T)) a
  generalize (keys (a.rolesByTeam.inner T)).foldl cascadeRoleAndDelete a = b1 at fr
  obtain ⟨f0, f1, f2, f3⟩ := fr
  let b2 : AuthSt := { b1 with rolesByTeam := b1.rolesByTeam.del T }
  have hb2 : MemInv b2 n := h.congr f0 f1 f2 f3
  have hT : MemInvT b2 n T := ⟨hb2.sm, hb2.kb, hb2.s1, hb2.s2, fun tm id _ hq => hb2.s3 tm id hq, hb2.c1⟩
  have hlist : ∀ mid ∈ keys (b2.memByTeam.inner T), ∀ mem, b2.members.get? mid = some mem → mem.team = T := by
    intro mid hmid mem hmem
    obtain ⟨v, hv⟩ := get?_of_mem_keys hmid
    have hq : get2? b2.memByTeam T mid = some () := by rw [get2?_def]; exact hv
    obtain ⟨x, hx, h1⟩ := hb2.s3 T mid hq
    rw [hmem] at hx; cases hx; exact h1
  have fin := memInvT_fold (keys (b2.memByTeam.inner T)) hT hlist
  generalize (keys (b2.memByTeam.inner T)).foldl memCascadeByTeam b2 = b3 at fin
  refine ⟨fin.sm, fin.kb, fin.s1, fin.s2, ?_, fin.c1⟩
  intro tm id hq
  have hq' : get2? (b3.memByTeam.del T) tm id = some () := hq
  rw [get2?_def, inner_del] at hq'
  by_cases hne : tm = T
  · simp [hne] at hq'
  · rw [if_neg hne, ← get2?_def] at hq'
    exact fin.s3 tm id hne hq'

theorem memInv_cascadeTeamAndDelete {a : AuthSt} {n : Int} (h : MemInv a n) (T : Int) :
    MemInv (cascadeTeamAndDelete a T) n :=
  (memInv_cascadeTeam h T).congr rfl rfl rfl rfl

theorem memInv_cascadeOrg {a : AuthSt} {n : Int} (h : MemInv a n) (o : Int) : MemInv (cascadeOrg a o) n := by
  unfold cascadeOrg
  generalize (a.teamsByOrg.inner o).map (·.2) = ts
  induction ts generalizing a with
  | nil => exact h
  | cons t rest ih => simp only [List.foldl_cons]; exact ih (memInv_cascadeTeamAndDelete h t)

/-! ### the token cascade: the by-token clause is suspended for the token being deleted -/

structure MemInvK (a : AuthSt) (n : Int) (K : Int) : Prop where
  sm : Sorted a.members
  kb : ∀ k e, a.members.get? k = some e → k < n
  s1 : ∀ tok tm id, get2? a.memByPair tok tm = some id →
        ∃ e, a.members.get? id = some e ∧ e.token = tok ∧ e.team = tm
  s2 : ∀ tok id, tok ≠ K → get2? a.memByToken tok id = some () → ∃ e, a.members.get? id = some e ∧ e.token = tok
  s3 : ∀ tm id, get2? a.memByTeam tm id = some () → ∃ e, a.members.get? id = some e ∧ e.team = tm
  c1 : ∀ id e, a.members.get? id = some e → get2? a.memByPair e.token e.team = some id

theorem memInvK_step {a : AuthSt} {n K : Int} (h : MemInvK a n K) (mid : Int)
    (hK : ∀ mem, a.members.get? mid = some mem → mem.token = K) : MemInvK (memCascadeByToken a mid) n K := by
  unfold memCascadeByToken
  cases hg : a.members.get? mid with
  | none => exact h
  | some mem =>
    simp only
    refine ⟨sorted_del h.sm, kb_del h.kb mid, drop_s1 (n := n) h.s1 mid mem hg, ?_, drop_s3 h.s3 mid mem hg,
      drop_c1 h.c1 mid mem hg⟩
    intro tok id hne hq
    obtain ⟨x, hx, h1⟩ := h.s2 tok id hne hq
    have : id ≠ mid := by
      intro e2; rw [e2, hg] at hx; cases hx; exact hne (h1.symm.trans (hK mem hg))
    exact ⟨x, by rw [get?_del, if_neg this]; exact hx, h1⟩

theorem memCascadeByToken_shrink (a : AuthSt) (mid k : Int) (e : MemberEntry)
    (h : (memCascadeByToken a mid).members.get? k = some e) : a.members.get? k = some e := by
  rw [memCascadeByToken_get?] at h
  by_cases hk : k = mid
  · simp [hk] at h
  · simp only [hk, if_false] at h; exact h

theorem memInvK_fold (ms : List Int) {a : AuthSt} {n K : Int} (h : MemInvK a n K)
    (hK : ∀ mid ∈ ms, ∀ mem, a.members.get? mid = some mem → mem.token = K) :
    MemInvK (ms.foldl memCascadeByToken a) n K := by
  induction ms generalizing a with
  | nil => exact h
  | cons m t ih =>
    simp only [List.foldl_cons]
    apply ih (memInvK_step h m (hK m List.mem_cons_self))
    intro mid hmid mem hmem
    exact hK mid (List.mem_cons_of_mem _ hmid) mem (memCascadeByToken_shrink a m mid mem hmem)

theorem memInv_deleteToken {a : AuthSt} {n : Int} (h : MemInv a n) (id : Int) :
    MemInv (applyDeleteToken a id).1 n := by
  unfold applyDeleteToken
  split
  · exact h
  · cases hg : a.tokens.get? id with
    | none => exact h
    | some e =>
      simp only
      let s1 : AuthSt := { a with tokens := a.tokens.del id, byPrefix := prefixDel a.byPrefix e.pfx id,
                                   byName := a.byName.del e.name }
      have hs1 : MemInv s1 n := h.congr rfl rfl rfl rfl
      cases hm : a.memByToken.get? id with
      | none => exact hs1
      | some set =>
        simp only
        have hK : MemInvK s1 n id := ⟨hs1.sm, hs1.kb, hs1.s1, fun tok i _ hq => hs1.s2 tok i hq, hs1.s3, hs1.c1⟩
        have hlist : ∀ mid ∈ keys set, ∀ mem, s1.members.get? mid = some mem → mem.token = id := by
          intro mid hmid mem hmem
          obtain ⟨v, hv⟩ := get?_of_mem_keys hmid
          have hq : get2? a.memByToken id mid = some () := by unfold get2?; rw [hm]; exact hv
          obtain ⟨x, hx, h1⟩ := h.s2 id mid hq
          have hmem' : a.members.get? mid = some mem := hmem
          rw [hmem'] at hx; cases hx; exact h1
        have fin := memInvK_fold (keys set) hK hlist
        generalize (keys set).foldl memCascadeByToken s1 = b at fin
        refine ⟨fin.sm, fin.kb, fin.s1, ?_, fin.s3, fin.c1⟩
        intro tok i hq
        have hq' : get2? (b.memByToken.del id) tok i = some () := hq
        rw [get2?_def, inner_del] at hq'
        by_cases hne : tok = id
        · simp [hne] at hq'
        · rw [if_neg hne, ← get2?_def] at hq'
          exact fin.s2 tok i hne hq'

/-! ### every command -/

theorem memInv_step {a : AuthSt} {n : Int} (h : MemInv a n) (i : Nat) (hi : n ≤ (i : Int)) (c : Cmd) :
    MemInv (auStep a i c) ((i : Int) + 1) := by
  have hm : MemInv a ((i : Int) + 1) := h.mono (by omega)
  cases c <;> try exact hm
  · apply hm.congr <;> (simp only [auStep]; unfold applyCreateToken; repeat' split) <;> rfl
  · rename_i id nm d p ex ch
    simp only [auStep]
    unfold applyUpdateToken
    split
    · exact hm
    · split
      · exact hm
      · split
        · exact hm
        · cases a.tokens.get? id with
          | none => exact hm
          | some e =>
            simp only
            split
            · exact hm
            · exact hm.congr rfl rfl rfl rfl
  · rename_i id
    simp only [auStep]
    unfold applyRevokeToken
    split
    · exact hm
    · cases a.tokens.get? id with
      | none => exact hm
      | some e => exact hm.congr rfl rfl rfl rfl
  · exact (memInv_deleteToken h _).mono (by omega)
  · rename_i id hash pfx
    simp only [auStep]
    unfold applyRotateToken
    split
    · exact hm
    · split
      · exact hm
      · cases a.tokens.get? id with
        | none => exact hm
        | some e => exact hm.congr rfl rfl rfl rfl
  · apply hm.congr <;> (simp only [auStep]; unfold applyCreateOrg; repeat' split) <;> rfl
  · apply hm.congr <;> (simp only [auStep]; unfold applyUpdateOrg; repeat' split) <;> rfl
  · rename_i id
    simp only [auStep]
    unfold applyDeleteOrg
    split
    · exact hm
    · cases a.orgs.get? id with
      | none => exact hm
      | some ex => exact ((memInv_cascadeOrg h id).mono (by omega)).congr rfl rfl rfl rfl
  · apply hm.congr <;> (simp only [auStep]; unfold applyCreateTeam; repeat' split) <;> rfl
  · apply hm.congr <;> (simp only [auStep]; unfold applyUpdateTeam; repeat' split) <;> rfl
  · rename_i id
    simp only [auStep]
    unfold applyDeleteTeam
    split
    · exact hm
    · cases a.teams.get? id with
      | none => exact hm
      | some ex => exact ((memInv_cascadeTeam h id).mono (by omega)).congr rfl rfl rfl rfl
  · apply hm.congr <;> (simp only [auStep]; unfold applyCreateRole; repeat' split) <;> rfl
  · apply hm.congr <;> (simp only [auStep]; unfold applyUpdateRole; repeat' split) <;> rfl
  · rename_i id
    simp only [auStep]
    unfold applyDeleteRole
    split
    · exact hm
    · cases a.roles.get? id with
      | none => exact hm
      | some ex => exact hm.congr rfl rfl rfl rfl
  · apply hm.congr <;> (simp only [auStep]; unfold applyCreateMPerm; repeat' split) <;> rfl
  · apply hm.congr <;> (simp only [auStep]; unfold applyDeleteMPerm; repeat' split) <;> rfl
  · exact memInv_addMember h i hi _
  · exact (memInv_removeMember h _ _).mono (by omega)

/-! ### Restore re-establishes soundness -/

theorem restoreMembersAux_sub (tokens : SMap Int TokenEntry) (teams : SMap Int TeamEntry)
    (l : SMap Int MemberEntry) (seen : List (Int × Int)) :
    List.Sublist (restoreMembersAux tokens teams l seen) l := by
  induction l generalizing seen with
  | nil => simp [restoreMembersAux]
  | cons q t ih =>
    obtain ⟨id, e⟩ := q
    unfold restoreMembersAux
    split
    · exact List.Sublist.cons_cons _ (ih _)
    · exact List.Sublist.cons _ (ih _)

theorem foldl_ins2_sound {E V : Type} [DecidableEq V] (f g : Int × E → Int) (v : Int × E → V)
    (l : List (Int × E)) (acc : SMap Int (SMap Int V)) (o i : Int) (x : V)
    (h : get2? (l.foldl (fun acc p => acc.ins2 (f p) (g p) (v p)) acc) o i = some x) :
    get2? acc o i = some x ∨ ∃ p ∈ l, f p = o ∧ g p = i ∧ v p = x := by
  induction l generalizing acc with
  | nil => exact Or.inl h
  | cons q t ih =>
    simp only [List.foldl_cons] at h
    rcases ih _ h with h1 | ⟨p, hp, h2⟩
    · rw [get2?_ins2] at h1
      by_cases hc : o = f q ∧ i = g q
      · rw [if_pos hc, Option.some.injEq] at h1
        exact Or.inr ⟨q, List.mem_cons_self, hc.1.symm, hc.2.symm, h1⟩
      · rw [if_neg hc] at h1; exact Or.inl h1
    · exact Or.inr ⟨p, List.mem_cons_of_mem _ hp, h2⟩

def pairStep (acc : SMap Int (SMap Int Int)) (p : Int × MemberEntry) : SMap Int (SMap Int Int) :=
  acc.ins2 p.2.token p.2.team p.1

theorem foldl_pairStep_keep (l : List (Int × MemberEntry)) (acc : SMap Int (SMap Int Int))
    (o i v : Int) (h : get2? acc o i = some v) (hno : ∀ p ∈ l, ¬ (p.2.token = o ∧ p.2.team = i)) :
    get2? (l.foldl pairStep acc) o i = some v := by
  induction l generalizing acc with
  | nil => exact h
  | cons q t ih =>
    simp only [List.foldl_cons]
    apply ih
    · unfold pairStep
      rw [get2?_ins2]
      have := hno q List.mem_cons_self
      rw [if_neg (fun hh => this ⟨hh.1.symm, hh.2.symm⟩)]
      exact h
    · intro p hp; exact hno p (List.mem_cons_of_mem _ hp)

theorem foldl_pairStep_mem (l : List (Int × MemberEntry)) (acc : SMap Int (SMap Int Int))
    (hd : l.Pairwise (fun p q => ¬ (q.2.token = p.2.token ∧ q.2.team = p.2.team)))
    (p : Int × MemberEntry) (hp : p ∈ l) :
    get2? (l.foldl pairStep acc) p.2.token p.2.team = some p.1 := by
  induction l generalizing acc with
  | nil => simp at hp
  | cons q t ih =>
    have ⟨hq, ht⟩ := List.pairwise_cons.mp hd
    simp only [List.foldl_cons]
    rcases List.mem_cons.mp hp with hp | hp
    · subst hp
      apply foldl_pairStep_keep
      · unfold pairStep; rw [get2?_ins2]; simp
      · intro x hx; exact hq x hx
    · exact ih _ ht hp

theorem restoreMembersAux_distinct (tokens : SMap Int TokenEntry) (teams : SMap Int TeamEntry)
    (l : SMap Int MemberEntry) (seen : List (Int × Int)) :
    (∀ p ∈ restoreMembersAux tokens teams l seen, (p.2.token, p.2.team) ∉ seen) ∧
    (restoreMembersAux tokens teams l seen).Pairwise
      (fun p q => ¬ (q.2.token = p.2.token ∧ q.2.team = p.2.team)) := by
  induction l generalizing seen with
  | nil => exact ⟨fun p hp => by simp [restoreMembersAux] at hp, by simp [restoreMembersAux]⟩
  | cons q t ih =>
    obtain ⟨id, e⟩ := q
    unfold restoreMembersAux
    by_cases hc : (validMember e && tokens.has e.token && teams.has e.team && !seen.contains (e.token, e.team)) = true
    · rw [if_pos hc]
      simp only [Bool.and_eq_true, Bool.not_eq_true'] at hc
      have hns : (e.token, e.team) ∉ seen := by
        intro hh
        have := hc.2
        simp [List.contains_iff_mem, hh] at this
      have ⟨i1, i2⟩ := ih ((e.token, e.team) :: seen)
      refine ⟨?_, ?_⟩
      · intro p hp
        rcases List.mem_cons.mp hp with hp | hp
        · subst hp; exact hns
        · exact fun hh => i1 p hp (List.mem_cons_of_mem _ hh)
      · refine List.pairwise_cons.mpr ⟨?_, i2⟩
        intro x hx hh
        apply i1 x hx
        rw [hh.1, hh.2]; exact List.mem_cons_self
    · rw [if_neg hc]; exact ih seen

theorem memInv_restoreAu {s : State} {n : Int} (h : MemInv s.au n) : MemInv (restoreAu (snapshot s)) n := by
  have hsub := restoreMembersAux_sub (restoreTokens (snapshot s).tokens)
    (restoreTeams (restoreOrgs (snapshot s).orgs) (snapshot s).teams) s.au.members []
  have hsorted : Sorted (restoreMembers (restoreTokens (snapshot s).tokens)
      (restoreTeams (restoreOrgs (snapshot s).orgs) (snapshot s).teams) (snapshot s).members) :=
    List.Pairwise.sublist hsub h.sm
  have hget : ∀ p, p ∈ restoreMembers (restoreTokens (snapshot s).tokens)
      (restoreTeams (restoreOrgs (snapshot s).orgs) (snapshot s).teams) (snapshot s).members →
      (restoreMembers (restoreTokens (snapshot s).tokens)
        (restoreTeams (restoreOrgs (snapshot s).orgs) (snapshot s).teams) (snapshot s).members).get? p.1 = some p.2 :=
    fun p hp => mem_get?_of_sorted hsorted hp
  refine ⟨hsorted, ?_, ?_, ?_, ?_, ?_⟩
  rotate_left 4
  · intro id e he
    have hm := get?_some_mem he
    exact foldl_pairStep_mem _ [] (restoreMembersAux_distinct _ _ _ _).2 (id, e) hm
  · intro k e hk
    have hm := get?_some_mem hk
    exact h.kb k e (mem_get?_of_sorted h.sm (hsub.subset hm))
  · intro tok tm id hq
    have hq' : get2? (rebuildMemByPair (restoreMembers (restoreTokens (snapshot s).tokens)
      (restoreTeams (restoreOrgs (snapshot s).orgs) (snapshot s).teams) (snapshot s).members)) tok tm = some id := hq
    unfold rebuildMemByPair at hq'
    rcases foldl_ins2_sound (fun (p : Int × MemberEntry) => p.2.token) (fun p => p.2.team) (fun p => p.1) _ [] tok tm id hq' with h1 | ⟨p, hp, h1, h2, h3⟩
    · simp [get2?] at h1
    · exact ⟨p.2, by rw [← h3]; exact hget p hp, h1, h2⟩
  · intro tok id hq
    have hq' : get2? (rebuildMemByToken (restoreMembers (restoreTokens (snapshot s).tokens)
      (restoreTeams (restoreOrgs (snapshot s).orgs) (snapshot s).teams) (snapshot s).members)) tok id = some () := hq
    unfold rebuildMemByToken at hq'
    rcases foldl_ins2_sound (fun (p : Int × MemberEntry) => p.2.token) (fun p => p.1) (fun _ => ()) _ [] tok id () hq' with h1 | ⟨p, hp, h1, h2, _⟩
    · simp [get2?] at h1
    · exact ⟨p.2, by rw [← h2]; exact hget p hp, h1⟩
  · intro tm id hq
    have hq' : get2? (rebuildMemByTeam (restoreMembers (restoreTokens (snapshot s).tokens)
      (restoreTeams (restoreOrgs (snapshot s).orgs) (snapshot s).teams) (snapshot s).members)) tm id = some () := hq
    unfold rebuildMemByTeam at hq'
    rcases foldl_ins2_sound (fun (p : Int × MemberEntry) => p.2.team) (fun p => p.1) (fun _ => ()) _ [] tm id () hq' with h1 | ⟨p, hp, h1, h2, _⟩
    · simp [get2?] at h1
    · exact ⟨p.2, by rw [← h2]; exact hget p hp, h1⟩

theorem memInv_runEv (s : State) (lo : Nat) (evs : List Ev) (h : MemInv s.au (lo : Int))
    (hinc : idxIncreasing lo evs = true) : MemInv (runEv s evs).au (nextIdx lo evs : Nat) := by
  induction evs generalizing s lo with
  | nil => exact h
  | cons e es ih =>
    cases e with
    | cmd i c =>
      simp only [idxIncreasing, Bool.and_eq_true, decide_eq_true_eq] at hinc
      simp only [runEv, stepEv, nextIdx]
      apply ih _ _ _ hinc.2
      rw [apply_au]
      have := memInv_step h i (by omega) c
      simpa using this
    | restore =>
      simp only [idxIncreasing] at hinc
      simp only [runEv, stepEv, nextIdx]
      apply ih _ _ _ hinc
      exact memInv_restoreAu h

end Arc.C22
