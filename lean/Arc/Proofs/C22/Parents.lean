import Arc.Model.C23
import Arc.Proofs.C22.Nested
/-! RBAC parent existence: the inductive invariant `PInv` (parents exist + every child is listed in
the traversal index its parent's cascade walks) and its preservation by every command, including the
three nested cascades. Needs neither sortedness nor fresh ids. Helper lemmas for C23/C22. -/
set_option linter.unusedSimpArgs false
set_option linter.unusedVariables false
namespace Arc.C22
open SMap Arc.C23

/-! ### small generic facts -/

theorem mem_keys_of_get? {K V : Type} [DecidableEq K] [LOrd K] {m : SMap K V} {k : K} {v : V}
    (h : get? m k = some v) : k ∈ keys m := by
  unfold keys
  exact List.mem_map.mpr ⟨(k, v), get?_some_mem h, rfl⟩

theorem mem_keys_of_get2? {K1 K2 V : Type} [DecidableEq K1] [LOrd K1] [DecidableEq K2] [LOrd K2]
    {m : SMap K1 (SMap K2 V)} {o : K1} {i : K2} {v : V} (h : get2? m o i = some v) :
    i ∈ keys (inner m o) := by
  rw [get2?_def] at h; exact mem_keys_of_get? h

theorem mem_vals_of_get2? {K1 K2 V : Type} [DecidableEq K1] [LOrd K1] [DecidableEq K2] [LOrd K2]
    {m : SMap K1 (SMap K2 V)} {o : K1} {i : K2} {v : V} (h : get2? m o i = some v) :
    v ∈ (inner m o).map (·.2) := by
  rw [get2?_def] at h
  exact List.mem_map.mpr ⟨(i, v), get?_some_mem h, rfl⟩

theorem get?_foldl_del {K V : Type} [DecidableEq K] [LOrd K] (ks : List K) (m : SMap K V) (x : K) :
    (ks.foldl (fun m k => m.del k) m).get? x = if x ∈ ks then none else m.get? x := by
  induction ks generalizing m with
  | nil => simp
  | cons k t ih =>
    simp only [List.foldl_cons, ih, get?_del, List.mem_cons]
    by_cases h1 : x ∈ t
    · simp [h1]
    · by_cases h2 : x = k <;> simp [h1, h2]

theorem has_eq_true_iff {K V : Type} [DecidableEq K] [LOrd K] {m : SMap K V} {k : K} :
    has m k = true ↔ ∃ v, get? m k = some v := by
  unfold has
  cases get? m k <;> simp

theorem has_of_get? {K V : Type} [DecidableEq K] [LOrd K] {m : SMap K V} {k : K} {v : V}
    (h : get? m k = some v) : has m k = true := has_eq_true_iff.mpr ⟨v, h⟩

theorem has_ins_of_has {K V : Type} [DecidableEq K] [LOrd K] {m : SMap K V} {k k' : K} {v : V}
    (h : has m k' = true) : has (m.ins k v) k' = true := by
  rw [has_ins]; simp [h]

theorem has_del_of_ne {K V : Type} [DecidableEq K] [LOrd K] {m : SMap K V} {k k' : K}
    (h : has m k' = true) (hne : k' ≠ k) : has (m.del k) k' = true := by
  rw [has_del]; simp [h, hne]

/-! ### the invariant -/

structure PInv (a : AuthSt) : Prop where
  p1 : ∀ k e, a.teams.get? k = some e → a.orgs.has e.org = true
  p2 : ∀ k e, a.roles.get? k = some e → a.teams.has e.team = true
  p3 : ∀ k e, a.mperms.get? k = some e → a.roles.has e.role = true
  p4 : ∀ k e, a.members.get? k = some e → a.tokens.has e.token = true ∧ a.teams.has e.team = true
  /-- every team is listed under (its org, its name) — what `cascadeDeleteOrgLocked` walks -/
  c1 : ∀ k e, a.teams.get? k = some e → get2? a.teamsByOrg e.org e.name = some k
  c2 : ∀ k e, a.roles.get? k = some e → get2? a.rolesByTeam e.team k = some ()
  c3 : ∀ k e, a.mperms.get? k = some e → get2? a.mpermsByRole e.role k = some ()
  c4 : ∀ k e, a.members.get? k = some e →
        get2? a.memByToken e.token k = some () ∧ get2? a.memByTeam e.team k = some ()

theorem pinv_empty : PInv ({} : AuthSt) :=
  ⟨fun k e h => by simp at h, fun k e h => by simp at h, fun k e h => by simp at h,
   fun k e h => by simp at h, fun k e h => by simp at h, fun k e h => by simp at h,
   fun k e h => by simp at h, fun k e h => by simp at h⟩

theorem PInv.parents {a : AuthSt} (h : PInv a) : ParentsExist a := ⟨h.p1, h.p2, h.p3, h.p4⟩

/-! ### cascades -/

theorem pinv_cascadeRoleAndDelete {a : AuthSt} (h : PInv a) (r : Int) :
    PInv (cascadeRoleAndDelete a r) := by
  have hm : ∀ k e, (cascadeRoleAndDelete a r).mperms.get? k = some e →
      a.mperms.get? k = some e ∧ e.role ≠ r := by
    intro k e hk
    have hk' : ((keys (a.mpermsByRole.inner r)).foldl (fun m k => m.del k) a.mperms).get? k = some e := hk
    rw [get?_foldl_del] at hk'
    by_cases hin : k ∈ keys (a.mpermsByRole.inner r)
    · simp [hin] at hk'
    · simp only [hin, if_false] at hk'
      refine ⟨hk', fun he => hin ?_⟩
      have := h.c3 k e hk'
      rw [he] at this
      exact mem_keys_of_get2? this
  refine ⟨h.p1, ?_, ?_, h.p4, h.c1, ?_, ?_, h.c4⟩
  · intro k e hk
    have hk' : (a.roles.del r).get? k = some e := hk
    rw [get?_del] at hk'
    by_cases hkr : k = r
    · simp [hkr] at hk'
    · simp only [hkr, if_false] at hk'; exact h.p2 k e hk'
  · intro k e hk
    have ⟨h1, h2⟩ := hm k e hk
    show (a.roles.del r).has e.role = true
    exact has_del_of_ne (h.p3 k e h1) h2
  · intro k e hk
    have hk' : (a.roles.del r).get? k = some e := hk
    rw [get?_del] at hk'
    by_cases hkr : k = r
    · simp [hkr] at hk'
    · simp only [hkr, if_false] at hk'; exact h.c2 k e hk'
  · intro k e hk
    have ⟨h1, h2⟩ := hm k e hk
    show get2? (a.mpermsByRole.del r) e.role k = some ()
    have := h.c3 k e h1
    rw [get2?_def] at this ⊢
    rw [inner_del, if_neg h2]; exact this

/-- folding the role cascade: invariant kept, listed roles gone, nothing added, rest untouched -/
theorem fold_roles (rs : List Int) (a : AuthSt) (h : PInv a) :
    let b := rs.foldl cascadeRoleAndDelete a
    PInv b ∧ (∀ r ∈ rs, b.roles.get? r = none) ∧
    (∀ k e, b.roles.get? k = some e → a.roles.get? k = some e) ∧
    b.tokens = a.tokens ∧ b.orgs = a.orgs ∧ b.teams = a.teams ∧ b.members = a.members ∧
    b.teamsByOrg = a.teamsByOrg ∧ b.rolesByTeam = a.rolesByTeam ∧
    b.memByPair = a.memByPair ∧ b.memByToken = a.memByToken ∧ b.memByTeam = a.memByTeam ∧
    b.byName = a.byName ∧ b.byPrefix = a.byPrefix ∧ b.orgsByName = a.orgsByName := by
  induction rs generalizing a with
  | nil => exact ⟨h, fun r hr => by simp at hr, fun k e hk => hk, rfl, rfl, rfl, rfl, rfl, rfl, rfl, rfl, rfl, rfl, rfl, rfl⟩
  | cons r t ih =>
    have ih' := ih (cascadeRoleAndDelete a r) (pinv_cascadeRoleAndDelete h r)
    simp only [List.foldl_cons]
    obtain ⟨i1, i2, i3, i4, i5, i6, i7, i8, i9, i10, i11, i12, i13, i14, i15⟩ := ih'
    have hsub : ∀ k e, (cascadeRoleAndDelete a r).roles.get? k = some e → a.roles.get? k = some e ∧ k ≠ r := by
      intro k e hk
      have hk' : (a.roles.del r).get? k = some e := hk
      rw [get?_del] at hk'
      by_cases hkr : k = r
      · simp [hkr] at hk'
      · simp only [hkr, if_false] at hk'; exact ⟨hk', hkr⟩
    refine ⟨i1, ?_, fun k e hk => (hsub k e (i3 k e hk)).1, i4, i5, i6, i7, i8, i9, i10, i11, i12, i13, i14, i15⟩
    intro x hx
    rcases List.mem_cons.mp hx with hx | hx
    · subst hx
      cases hg : (t.foldl cascadeRoleAndDelete (cascadeRoleAndDelete a x)).roles.get? x with
      | none => rfl
      | some e => exact absurd rfl (hsub x e (i3 x e hg)).2
    · exact i2 x hx

theorem pinv_memCascadeByTeam {a : AuthSt} (h : PInv a) (mid : Int) : PInv (memCascadeByTeam a mid) := by
  unfold memCascadeByTeam
  cases hg : a.members.get? mid with
  | none => exact h
  | some mem =>
    simp only
    have hsub : ∀ k e, (a.members.del mid).get? k = some e → a.members.get? k = some e ∧ k ≠ mid := by
      intro k e hk
      rw [get?_del] at hk
      by_cases hkm : k = mid
      · simp [hkm] at hk
      · simp only [hkm, if_false] at hk; exact ⟨hk, hkm⟩
    refine ⟨h.p1, h.p2, h.p3, ?_, h.c1, h.c2, h.c3, ?_⟩
    · intro k e hk; exact h.p4 k e (hsub k e hk).1
    · intro k e hk
      have ⟨h1, h2⟩ := hsub k e hk
      refine ⟨?_, (h.c4 k e h1).2⟩
      show get2? (a.memByToken.del2 mem.token mid) e.token k = some ()
      rw [get2?_del2, if_neg (fun hh => h2 hh.2)]
      exact (h.c4 k e h1).1

theorem memCascadeByTeam_members (a : AuthSt) (mid : Int) :
    (memCascadeByTeam a mid).members = a.members.del mid ∨
    ((memCascadeByTeam a mid).members = a.members ∧ a.members.get? mid = none) := by
  unfold memCascadeByTeam
  cases hg : a.members.get? mid with
  | none => exact Or.inr ⟨rfl, rfl⟩
  | some mem => exact Or.inl rfl

theorem memCascadeByTeam_get? (a : AuthSt) (mid k : Int) :
    (memCascadeByTeam a mid).members.get? k = if k = mid then none else a.members.get? k := by
  rcases memCascadeByTeam_members a mid with h | ⟨h, hn⟩
  · rw [h, get?_del]
  · rw [h]; by_cases hk : k = mid
    · subst hk; simp [hn]
    · simp [hk]

theorem memCascadeByTeam_frame (a : AuthSt) (mid : Int) :
    let b := memCascadeByTeam a mid
    b.tokens = a.tokens ∧ b.orgs = a.orgs ∧ b.teams = a.teams ∧ b.roles = a.roles ∧ b.mperms = a.mperms ∧
    b.teamsByOrg = a.teamsByOrg ∧ b.rolesByTeam = a.rolesByTeam ∧ b.mpermsByRole = a.mpermsByRole ∧
    b.memByTeam = a.memByTeam ∧ b.byName = a.byName ∧ b.byPrefix = a.byPrefix ∧ b.orgsByName = a.orgsByName := by
  unfold memCascadeByTeam
  cases a.members.get? mid <;> exact ⟨rfl, rfl, rfl, rfl, rfl, rfl, rfl, rfl, rfl, rfl, rfl, rfl⟩

theorem fold_memByTeam (ms : List Int) (a : AuthSt) (h : PInv a) :
    let b := ms.foldl memCascadeByTeam a
    PInv b ∧ (∀ k, b.members.get? k = if k ∈ ms then none else a.members.get? k) ∧
    b.tokens = a.tokens ∧ b.orgs = a.orgs ∧ b.teams = a.teams ∧ b.roles = a.roles ∧ b.mperms = a.mperms ∧
    b.teamsByOrg = a.teamsByOrg ∧ b.rolesByTeam = a.rolesByTeam ∧ b.mpermsByRole = a.mpermsByRole ∧
    b.memByTeam = a.memByTeam ∧ b.byName = a.byName ∧ b.byPrefix = a.byPrefix ∧ b.orgsByName = a.orgsByName := by
  induction ms generalizing a with
  | nil => exact ⟨h, fun k => by simp, rfl, rfl, rfl, rfl, rfl, rfl, rfl, rfl, rfl, rfl, rfl, rfl⟩
  | cons m t ih =>
    have ih' := ih (memCascadeByTeam a m) (pinv_memCascadeByTeam h m)
    simp only [List.foldl_cons]
    obtain ⟨i1, i2, i3, i4, i5, i6, i7, i8, i9, i10, i11, i12, i13, i14⟩ := ih'
    obtain ⟨f1, f2, f3, f4, f5, f6, f7, f8, f9, f10, f11, f12⟩ := memCascadeByTeam_frame a m
    refine ⟨i1, ?_, i3.trans f1, i4.trans f2, i5.trans f3, i6.trans f4, i7.trans f5, i8.trans f6,
      i9.trans f7, i10.trans f8, i11.trans f9, i12.trans f10, i13.trans f11, i14.trans f12⟩
    intro k
    rw [i2 k, memCascadeByTeam_get?]
    by_cases h1 : k ∈ t
    · simp [h1]
    · by_cases h2 : k = m <;> simp [h1, h2]

/-- `cascadeDeleteTeamLocked` followed by `delete(f.teams, teamID)` -/
theorem pinv_cascadeTeamAndDelete {a : AuthSt} (h : PInv a) (t : Int) :
    PInv (cascadeTeamAndDelete a t) ∧
    (∀ k, (cascadeTeamAndDelete a t).teams.get? k = if k = t then none else a.teams.get? k) ∧
    (cascadeTeamAndDelete a t).orgs = a.orgs ∧ (cascadeTeamAndDelete a t).teamsByOrg = a.teamsByOrg ∧
    (cascadeTeamAndDelete a t).tokens = a.tokens ∧ (cascadeTeamAndDelete a t).byName = a.byName ∧
    (cascadeTeamAndDelete a t).byPrefix = a.byPrefix ∧ (cascadeTeamAndDelete a t).orgsByName = a.orgsByName := by
  -- stage 1: roles of the team
  have s1 := fold_roles (keys (a.rolesByTeam.inner t)) a h
  generalize hb1 : (keys (a.rolesByTeam.inner t)).foldl cascadeRoleAndDelete a = b1 at s1
  obtain ⟨q1, q2, q3, q4, q5, q6, q7, q8, q9, q10, q11, q12, q13, q14, q15⟩ := s1
  -- no role of team t is left in b1
  have noRole : ∀ k e, b1.roles.get? k = some e → e.team ≠ t := by
    intro k e hk het
    have := h.c2 k e (q3 k e hk)
    rw [het] at this
    have := q2 k (mem_keys_of_get2? this)
    rw [this] at hk; exact absurd hk (by simp)
  -- stage 2: drop rolesByTeam[t]
  let b2 : AuthSt := { b1 with rolesByTeam := b1.rolesByTeam.del t }
  have pb2 : PInv b2 := by
    refine ⟨q1.p1, q1.p2, q1.p3, q1.p4, q1.c1, ?_, q1.c3, q1.c4⟩
    intro k e hk
    have := q1.c2 k e hk
    show get2? (b1.rolesByTeam.del t) e.team k = some ()
    rw [get2?_def] at this ⊢
    rw [inner_del, if_neg (noRole k e hk)]; exact this
  -- stage 3: memberships of the team
  have s3 := fold_memByTeam (keys (b2.memByTeam.inner t)) b2 pb2
  generalize hb3 : (keys (b2.memByTeam.inner t)).foldl memCascadeByTeam b2 = b3 at s3
  obtain ⟨r1, r2, r3, r4, r5, r6, r7, r8, r9, r10, r11, r12, r13, r14⟩ := s3
  have noMem : ∀ k e, b3.members.get? k = some e → e.team ≠ t := by
    intro k e hk het
    rw [r2 k] at hk
    by_cases hin : k ∈ keys (b2.memByTeam.inner t)
    · simp [hin] at hk
    · simp only [hin, if_false] at hk
      have := (pb2.c4 k e hk).2
      rw [het] at this
      exact hin (mem_keys_of_get2? this)
  have hdef : cascadeTeamAndDelete a t =
      { b3 with memByTeam := b3.memByTeam.del t, teams := b3.teams.del t } := by
    unfold cascadeTeamAndDelete cascadeTeam
    simp only [hb1]
    show _ = _
    have : (keys (b2.memByTeam.inner t)).foldl memCascadeByTeam b2 = b3 := hb3
    simp only [b2] at this
    simp only [this]
  rw [hdef]
  have hteams : b3.teams = a.teams := r5.trans q6
  refine ⟨⟨?_, ?_, r1.p3, ?_, ?_, r1.c2, r1.c3, ?_⟩, ?_, r4.trans q5, r8.trans q8, r3.trans q4,
    r12.trans q13, r13.trans q14, r14.trans q15⟩
  · intro k e hk
    have hk' : (b3.teams.del t).get? k = some e := hk
    rw [get?_del] at hk'
    by_cases hkt : k = t
    · simp [hkt] at hk'
    · simp only [hkt, if_false] at hk'; exact r1.p1 k e hk'
  · intro k e hk
    have hk' : b3.roles.get? k = some e := hk
    show (b3.teams.del t).has e.team = true
    have hne : e.team ≠ t := by
      apply noRole k e
      have : b3.roles = b1.roles := r6
      rw [← this]; exact hk'
    exact has_del_of_ne (r1.p2 k e hk') hne
  · intro k e hk
    have hk' : b3.members.get? k = some e := hk
    have := r1.p4 k e hk'
    exact ⟨this.1, has_del_of_ne this.2 (noMem k e hk')⟩
  · intro k e hk
    have hk' : (b3.teams.del t).get? k = some e := hk
    rw [get?_del] at hk'
    by_cases hkt : k = t
    · simp [hkt] at hk'
    · simp only [hkt, if_false] at hk'; exact r1.c1 k e hk'
  · intro k e hk
    have hk' : b3.members.get? k = some e := hk
    have := r1.c4 k e hk'
    refine ⟨this.1, ?_⟩
    show get2? (b3.memByTeam.del t) e.team k = some ()
    have h2 := this.2
    rw [get2?_def] at h2 ⊢
    rw [inner_del, if_neg (noMem k e hk')]; exact h2
  · intro k
    show (b3.teams.del t).get? k = _
    rw [get?_del, hteams]

theorem fold_teams (ts : List Int) (a : AuthSt) (h : PInv a) :
    let b := ts.foldl cascadeTeamAndDelete a
    PInv b ∧ (∀ k, b.teams.get? k = if k ∈ ts then none else a.teams.get? k) ∧
    b.orgs = a.orgs ∧ b.teamsByOrg = a.teamsByOrg ∧ b.tokens = a.tokens ∧
    b.byName = a.byName ∧ b.byPrefix = a.byPrefix ∧ b.orgsByName = a.orgsByName := by
  induction ts generalizing a with
  | nil => exact ⟨h, fun k => by simp, rfl, rfl, rfl, rfl, rfl, rfl⟩
  | cons t rest ih =>
    obtain ⟨g1, g2, g3, g4, g5, g6, g7, g8⟩ := pinv_cascadeTeamAndDelete h t
    have ih' := ih (cascadeTeamAndDelete a t) g1
    simp only [List.foldl_cons]
    obtain ⟨i1, i2, i3, i4, i5, i6, i7, i8⟩ := ih'
    refine ⟨i1, ?_, i3.trans g3, i4.trans g4, i5.trans g5, i6.trans g6, i7.trans g7, i8.trans g8⟩
    intro k
    rw [i2 k, g2 k]
    by_cases h1 : k ∈ rest
    · simp [h1]
    · by_cases h2 : k = t <;> simp [h1, h2]

/-! ### the delete commands -/

theorem pinv_deleteOrg {a : AuthSt} (h : PInv a) (id : Int) : PInv (applyDeleteOrg a id).1 := by
  unfold applyDeleteOrg
  by_cases h0 : id = 0
  · simp only [h0, if_true]; exact h
  · simp only [h0, if_false]
    cases hg : a.orgs.get? id with
    | none => exact h
    | some ex =>
      simp only
      unfold cascadeOrg
      have f := fold_teams ((a.teamsByOrg.inner id).map (·.2)) a h
      generalize ((a.teamsByOrg.inner id).map (·.2)).foldl cascadeTeamAndDelete a = b at f
      obtain ⟨i1, i2, i3, i4, i5, i6, i7, i8⟩ := f
      have noTeam : ∀ k e, b.teams.get? k = some e → e.org ≠ id := by
        intro k e hk he
        rw [i2 k] at hk
        by_cases hin : k ∈ (a.teamsByOrg.inner id).map (·.2)
        · simp [hin] at hk
        · simp only [hin, if_false] at hk
          have := h.c1 k e hk
          rw [he] at this
          exact hin (mem_vals_of_get2? this)
      refine ⟨?_, i1.p2, i1.p3, i1.p4, ?_, i1.c2, i1.c3, i1.c4⟩
      · intro k e hk
        have hk' : b.teams.get? k = some e := hk
        show (b.orgs.del id).has e.org = true
        exact has_del_of_ne (i1.p1 k e hk') (noTeam k e hk')
      · intro k e hk
        have hk' : b.teams.get? k = some e := hk
        show get2? (b.teamsByOrg.del id) e.org e.name = some k
        have := i1.c1 k e hk'
        rw [get2?_def] at this ⊢
        rw [inner_del, if_neg (noTeam k e hk')]; exact this

theorem pinv_deleteTeam {a : AuthSt} (h : PInv a) (id : Int) : PInv (applyDeleteTeam a id).1 := by
  unfold applyDeleteTeam
  by_cases h0 : id = 0
  · simp only [h0, if_true]; exact h
  · simp only [h0, if_false]
    cases hg : a.teams.get? id with
    | none => exact h
    | some ex =>
      simp only
      obtain ⟨g1, g2, g3, g4, g5, g6, g7, g8⟩ := pinv_cascadeTeamAndDelete h id
      -- cascadeTeam followed by teams.del is cascadeTeamAndDelete; only teamsByOrg differs
      have hteams : ∀ k e, ((cascadeTeam a id).teams.del id).get? k = some e →
          (cascadeTeamAndDelete a id).teams.get? k = some e := fun k e hk => hk
      refine ⟨g1.p1, g1.p2, g1.p3, g1.p4, ?_, g1.c2, g1.c3, g1.c4⟩
      intro k e hk
      have hk' : (cascadeTeamAndDelete a id).teams.get? k = some e := hk
      have hc := g1.c1 k e hk'
      have hk2 := hk'
      rw [g2 k] at hk2
      by_cases hkid : k = id
      · simp [hkid] at hk2
      · simp only [hkid, if_false] at hk2
        show get2? ((cascadeTeam a id).teamsByOrg.del2 ex.org ex.name) e.org e.name = some k
        rw [get2?_del2]
        have hne : ¬ (e.org = ex.org ∧ e.name = ex.name) := by
          intro hh
          have c1 := h.c1 k e hk2
          have c2 := h.c1 id ex hg
          rw [hh.1, hh.2, c2] at c1
          exact hkid (Option.some.inj c1).symm
        rw [if_neg hne]
        exact hc

theorem pinv_deleteRole {a : AuthSt} (h : PInv a) (id : Int) : PInv (applyDeleteRole a id).1 := by
  unfold applyDeleteRole
  by_cases h0 : id = 0
  · simp only [h0, if_true]; exact h
  · simp only [h0, if_false]
    cases hg : a.roles.get? id with
    | none => exact h
    | some ex =>
      simp only
      have g := pinv_cascadeRoleAndDelete h id
      refine ⟨g.p1, g.p2, g.p3, g.p4, g.c1, ?_, g.c3, g.c4⟩
      intro k e hk
      have hk' : (a.roles.del id).get? k = some e := hk
      have hc := g.c2 k e hk
      rw [get?_del] at hk'
      by_cases hkid : k = id
      · simp [hkid] at hk'
      · show get2? ((cascadeRole a id).rolesByTeam.del2 ex.team id) e.team k = some ()
        rw [get2?_del2, if_neg (fun hh => hkid hh.2)]
        exact hc

theorem pinv_deleteMPerm {a : AuthSt} (h : PInv a) (id : Int) : PInv (applyDeleteMPerm a id).1 := by
  unfold applyDeleteMPerm
  by_cases h0 : id = 0
  · simp only [h0, if_true]; exact h
  · simp only [h0, if_false]
    cases hg : a.mperms.get? id with
    | none => exact h
    | some ex =>
      simp only
      have hsub : ∀ k e, (a.mperms.del id).get? k = some e → a.mperms.get? k = some e ∧ k ≠ id := by
        intro k e hk
        rw [get?_del] at hk
        by_cases hkm : k = id
        · simp [hkm] at hk
        · simp only [hkm, if_false] at hk; exact ⟨hk, hkm⟩
      refine ⟨h.p1, h.p2, ?_, h.p4, h.c1, h.c2, ?_, h.c4⟩
      · intro k e hk; exact h.p3 k e (hsub k e hk).1
      · intro k e hk
        have ⟨h1, h2⟩ := hsub k e hk
        show get2? (a.mpermsByRole.del2 ex.role id) e.role k = some ()
        rw [get2?_del2, if_neg (fun hh => h2 hh.2)]
        exact h.c3 k e h1

theorem pinv_memCascadeByToken {a : AuthSt} (h : PInv a) (mid : Int) : PInv (memCascadeByToken a mid) := by
  unfold memCascadeByToken
  cases hg : a.members.get? mid with
  | none => exact h
  | some mem =>
    simp only
    have hsub : ∀ k e, (a.members.del mid).get? k = some e → a.members.get? k = some e ∧ k ≠ mid := by
      intro k e hk
      rw [get?_del] at hk
      by_cases hkm : k = mid
      · simp [hkm] at hk
      · simp only [hkm, if_false] at hk; exact ⟨hk, hkm⟩
    refine ⟨h.p1, h.p2, h.p3, ?_, h.c1, h.c2, h.c3, ?_⟩
    · intro k e hk; exact h.p4 k e (hsub k e hk).1
    · intro k e hk
      have ⟨h1, h2⟩ := hsub k e hk
      refine ⟨(h.c4 k e h1).1, ?_⟩
      show get2? (a.memByTeam.del2 mem.team mid) e.team k = some ()
      rw [get2?_del2, if_neg (fun hh => h2 hh.2)]
      exact (h.c4 k e h1).2

theorem memCascadeByToken_get? (a : AuthSt) (mid k : Int) :
    (memCascadeByToken a mid).members.get? k = if k = mid then none else a.members.get? k := by
  unfold memCascadeByToken
  cases hg : a.members.get? mid with
  | none =>
    simp only
    by_cases hk : k = mid
    · subst hk; simp [hg]
    · simp [hk]
  | some mem => simp only [get?_del]

theorem memCascadeByToken_frame (a : AuthSt) (mid : Int) :
    let b := memCascadeByToken a mid
    b.tokens = a.tokens ∧ b.teams = a.teams ∧ b.memByToken = a.memByToken := by
  unfold memCascadeByToken
  cases a.members.get? mid <;> exact ⟨rfl, rfl, rfl⟩

theorem fold_memByToken (ms : List Int) (a : AuthSt) (h : PInv a) :
    let b := ms.foldl memCascadeByToken a
    PInv b ∧ (∀ k, b.members.get? k = if k ∈ ms then none else a.members.get? k) ∧
    b.tokens = a.tokens ∧ b.teams = a.teams ∧ b.memByToken = a.memByToken := by
  induction ms generalizing a with
  | nil => exact ⟨h, fun k => by simp, rfl, rfl, rfl⟩
  | cons m t ih =>
    have ih' := ih (memCascadeByToken a m) (pinv_memCascadeByToken h m)
    simp only [List.foldl_cons]
    obtain ⟨i1, i2, i3, i4, i5⟩ := ih'
    obtain ⟨f1, f2, f3⟩ := memCascadeByToken_frame a m
    refine ⟨i1, ?_, i3.trans f1, i4.trans f2, i5.trans f3⟩
    intro k
    rw [i2 k, memCascadeByToken_get?]
    by_cases h1 : k ∈ t
    · simp [h1]
    · by_cases h2 : k = m <;> simp [h1, h2]

theorem pinv_deleteToken {a : AuthSt} (h : PInv a) (id : Int) : PInv (applyDeleteToken a id).1 := by
  unfold applyDeleteToken
  by_cases h0 : id = 0
  · simp only [h0, if_true]; exact h
  · simp only [h0, if_false]
    cases hg : a.tokens.get? id with
    | none => exact h
    | some ex =>
      simp only
      -- s1 keeps every PInv field except p4 (token `id` is gone); memberships of `id` are removed next
      cases hm : a.memByToken.get? id with
      | none =>
        simp only
        refine ⟨h.p1, h.p2, h.p3, ?_, h.c1, h.c2, h.c3, h.c4⟩
        intro k e hk
        have hk' : a.members.get? k = some e := hk
        have := h.p4 k e hk'
        refine ⟨?_, this.2⟩
        show (a.tokens.del id).has e.token = true
        apply has_del_of_ne this.1
        intro he
        have c := (h.c4 k e hk').1
        rw [he] at c
        unfold get2? at c
        rw [hm] at c
        exact absurd c (by simp)
      | some set =>
        simp only
        -- run the fold on `a` first (tokens/byName/byPrefix are not read by the loop)
        have f := fold_memByToken (keys set) a h
        let s1 : AuthSt := { a with tokens := a.tokens.del id, byPrefix := prefixDel a.byPrefix ex.pfx id,
                                     byName := a.byName.del ex.name }
        have comm : ∀ (ms : List Int) (x : AuthSt),
            ms.foldl memCascadeByToken { x with tokens := x.tokens.del id, byPrefix := prefixDel x.byPrefix ex.pfx id,
                                                byName := x.byName.del ex.name } =
            { ms.foldl memCascadeByToken x with
                tokens := (ms.foldl memCascadeByToken x).tokens.del id,
                byPrefix := prefixDel (ms.foldl memCascadeByToken x).byPrefix ex.pfx id,
                byName := (ms.foldl memCascadeByToken x).byName.del ex.name } := by
          intro ms
          induction ms with
          | nil => intro x; rfl
          | cons m t ih =>
            intro x
            simp only [List.foldl_cons]
            have step : memCascadeByToken { x with tokens := x.tokens.del id, byPrefix := prefixDel x.byPrefix ex.pfx id,
                                                   byName := x.byName.del ex.name } m =
                { memCascadeByToken x m with
                    tokens := (memCascadeByToken x m).tokens.del id,
                    byPrefix := prefixDel (memCascadeByToken x m).byPrefix ex.pfx id,
                    byName := (memCascadeByToken x m).byName.del ex.name } := by
              unfold memCascadeByToken
              cases x.members.get? m <;> rfl
            rw [step, ih]
        rw [comm (keys set) a]
        generalize (keys set).foldl memCascadeByToken a = b at f
        obtain ⟨i1, i2, i3, i4, i5⟩ := f
        have noMem : ∀ k e, b.members.get? k = some e → e.token ≠ id := by
          intro k e hk he
          rw [i2 k] at hk
          by_cases hin : k ∈ keys set
          · simp [hin] at hk
          · simp only [hin, if_false] at hk
            have c := (h.c4 k e hk).1
            rw [he] at c
            have : SMap.inner a.memByToken id = set := by unfold SMap.inner; rw [hm]; rfl
            have hk2 := mem_keys_of_get2? c
            rw [this] at hk2
            exact hin hk2
        refine ⟨i1.p1, i1.p2, i1.p3, ?_, i1.c1, i1.c2, i1.c3, ?_⟩
        · intro k e hk
          have hk' : b.members.get? k = some e := hk
          have := i1.p4 k e hk'
          exact ⟨has_del_of_ne this.1 (noMem k e hk'), this.2⟩
        · intro k e hk
          have hk' : b.members.get? k = some e := hk
          have := i1.c4 k e hk'
          refine ⟨?_, this.2⟩
          show get2? (b.memByToken.del id) e.token k = some ()
          have h1 := this.1
          rw [get2?_def] at h1 ⊢
          rw [inner_del, if_neg (noMem k e hk')]; exact h1

theorem pinv_removeMember {a : AuthSt} (h : PInv a) (token team : Int) :
    PInv (applyRemoveMember a token team).1 := by
  unfold applyRemoveMember
  by_cases h0 : token = 0 ∨ team = 0
  · simp only [h0, if_true]; exact h
  · simp only [h0, if_false]
    cases hg : a.memByPair.get2? token team with
    | none => exact h
    | some mid =>
      simp only
      have hsub : ∀ k e, (a.members.del mid).get? k = some e → a.members.get? k = some e ∧ k ≠ mid := by
        intro k e hk
        rw [get?_del] at hk
        by_cases hkm : k = mid
        · simp [hkm] at hk
        · simp only [hkm, if_false] at hk; exact ⟨hk, hkm⟩
      refine ⟨h.p1, h.p2, h.p3, ?_, h.c1, h.c2, h.c3, ?_⟩
      · intro k e hk; exact h.p4 k e (hsub k e hk).1
      · intro k e hk
        have ⟨h1, h2⟩ := hsub k e hk
        refine ⟨?_, ?_⟩
        · show get2? (a.memByToken.del2 token mid) e.token k = some ()
          rw [get2?_del2, if_neg (fun hh => h2 hh.2)]; exact (h.c4 k e h1).1
        · show get2? (a.memByTeam.del2 team mid) e.team k = some ()
          rw [get2?_del2, if_neg (fun hh => h2 hh.2)]; exact (h.c4 k e h1).2

/-! ### create / update commands -/

theorem pinv_createToken {a : AuthSt} (h : PInv a) (i : Nat) (t : TokenEntry) :
    PInv (applyCreateToken a i t).1 := by
  unfold applyCreateToken
  split
  · exact h
  · split
    · exact h
    · split
      · exact h
      · refine ⟨h.p1, h.p2, h.p3, ?_, h.c1, h.c2, h.c3, h.c4⟩
        intro k e hk
        have := h.p4 k e hk
        exact ⟨has_ins_of_has this.1, this.2⟩

theorem pinv_tokens_ins {a : AuthSt} (h : PInv a) (id : Int) (e : TokenEntry) (bn : SMap String Int)
    (bp : SMap String (List Int)) :
    PInv { a with tokens := a.tokens.ins id e, byName := bn, byPrefix := bp } := by
  refine ⟨h.p1, h.p2, h.p3, ?_, h.c1, h.c2, h.c3, h.c4⟩
  intro k x hk
  have := h.p4 k x hk
  exact ⟨has_ins_of_has this.1, this.2⟩

theorem pinv_updateToken {a : AuthSt} (h : PInv a) (i : Nat) (id : Int) (name desc perms : String)
    (expires : Int) (changed : List String) :
    PInv (applyUpdateToken a i id name desc perms expires changed).1 := by
  unfold applyUpdateToken
  split
  · exact h
  · split
    · exact h
    · split
      · exact h
      · cases hg : a.tokens.get? id with
        | none => exact h
        | some e =>
          simp only
          by_cases hrej : (changed.contains "name" && nameTaken a.byName name id) = true
          · rw [if_pos hrej]; exact h
          · rw [if_neg hrej]; exact pinv_tokens_ins h id _ _ _

theorem pinv_revokeToken {a : AuthSt} (h : PInv a) (i : Nat) (id : Int) :
    PInv (applyRevokeToken a i id).1 := by
  unfold applyRevokeToken
  split
  · exact h
  · cases hg : a.tokens.get? id with
    | none => exact h
    | some e => exact pinv_tokens_ins h id _ a.byName a.byPrefix

theorem pinv_rotateToken {a : AuthSt} (h : PInv a) (i : Nat) (id : Int) (hash pfx : String) :
    PInv (applyRotateToken a i id hash pfx).1 := by
  unfold applyRotateToken
  split
  · exact h
  · split
    · exact h
    · cases hg : a.tokens.get? id with
      | none => exact h
      | some e => exact pinv_tokens_ins h id _ a.byName _

theorem pinv_orgs_ins {a : AuthSt} (h : PInv a) (id : Int) (e : OrgEntry) (bn : SMap String Int) :
    PInv { a with orgs := a.orgs.ins id e, orgsByName := bn } := by
  refine ⟨?_, h.p2, h.p3, h.p4, h.c1, h.c2, h.c3, h.c4⟩
  intro k x hk
  exact has_ins_of_has (h.p1 k x hk)

theorem pinv_createOrg {a : AuthSt} (h : PInv a) (i : Nat) (e : OrgEntry) :
    PInv (applyCreateOrg a i e).1 := by
  unfold applyCreateOrg
  split
  · exact h
  · split
    · exact h
    · split
      · exact h
      · exact pinv_orgs_ins h _ _ _

theorem pinv_updateOrg {a : AuthSt} (h : PInv a) (i : Nat) (id : Int) (name desc : String)
    (enabled : Bool) (updated : Int) (changed : List String) :
    PInv (applyUpdateOrg a i id name desc enabled updated changed).1 := by
  unfold applyUpdateOrg
  split
  · exact h
  · split
    · exact h
    · split
      · exact h
      · cases hg : a.orgs.get? id with
        | none => exact h
        | some ex =>
          simp only
          split
          · exact h
          · exact pinv_orgs_ins h _ _ _

theorem pinv_createTeam {a : AuthSt} (h : PInv a) (i : Nat) (e : TeamEntry) :
    PInv (applyCreateTeam a i e).1 := by
  unfold applyCreateTeam
  split
  · exact h
  · split
    · exact h
    · by_cases ho : a.orgs.has e.org = true
      · simp only [ho, Bool.not_true, Bool.false_eq_true, if_false]
        by_cases hex : (a.teamsByOrg.get2? e.org e.name).isSome = true
        · simp only [hex, if_true]; exact h
        · simp only [hex, Bool.false_eq_true, if_false]
          have hnone : a.teamsByOrg.get2? e.org e.name = none := by
            cases hh : a.teamsByOrg.get2? e.org e.name with
            | none => rfl
            | some v => simp [hh] at hex
          refine ⟨?_, ?_, h.p3, ?_, ?_, h.c2, h.c3, h.c4⟩
          · intro k x hk
            simp only [get?_ins] at hk
            by_cases hki : k = (i : Int)
            · simp only [hki, if_true, Option.some.injEq] at hk
              subst hk; exact ho
            · simp only [hki, if_false] at hk; exact h.p1 k x hk
          · intro k x hk; exact has_ins_of_has (h.p2 k x hk)
          · intro k x hk
            have := h.p4 k x hk
            exact ⟨this.1, has_ins_of_has this.2⟩
          · intro k x hk
            simp only [get?_ins] at hk
            simp only [get2?_ins2]
            by_cases hki : k = (i : Int)
            · simp only [hki, if_true, Option.some.injEq] at hk
              subst hk; simp [hki]
            · simp only [hki, if_false] at hk
              have c := h.c1 k x hk
              have hne : ¬ (x.org = e.org ∧ x.name = e.name) := by
                intro hh
                rw [hh.1, hh.2, hnone] at c
                exact absurd c (by simp)
              rw [if_neg hne]; exact c
      · simp only [ho, Bool.not_false, if_true]; exact h

theorem get2?_ins_outer {K1 K2 V : Type} [DecidableEq K1] [LOrd K1] [DecidableEq K2] [LOrd K2]
    (m : SMap K1 (SMap K2 V)) (o o' : K1) (x : SMap K2 V) (i : K2) :
    get2? (m.ins o x) o' i = if o' = o then x.get? i else get2? m o' i := by
  simp only [get2?_def, inner_ins]
  by_cases h : o' = o <;> simp [h]

theorem pinv_updateTeam {a : AuthSt} (h : PInv a) (i : Nat) (id : Int) (name desc : String)
    (enabled : Bool) (updated : Int) (changed : List String) :
    PInv (applyUpdateTeam a i id name desc enabled updated changed).1 := by
  unfold applyUpdateTeam
  split
  · exact h
  · split
    · exact h
    · split
      · exact h
      · cases hg : a.teams.get? id with
        | none => exact h
        | some ex =>
          simp only
          by_cases hrej : (changed.contains "name" && name != ex.name && (a.teamsByOrg.get2? ex.org name).isSome) = true
          · simp only [hrej, if_true]; exact h
          · simp only [hrej, Bool.false_eq_true, if_false]
            refine ⟨?_, ?_, h.p3, ?_, ?_, h.c2, h.c3, h.c4⟩
            · intro k x hk
              simp only [get?_ins] at hk
              by_cases hki : k = id
              · simp only [hki, if_true, Option.some.injEq] at hk
                subst hk; exact h.p1 id ex hg
              · simp only [hki, if_false] at hk; exact h.p1 k x hk
            · intro k x hk; exact has_ins_of_has (h.p2 k x hk)
            · intro k x hk
              have := h.p4 k x hk
              exact ⟨this.1, has_ins_of_has this.2⟩
            · intro k x hk
              simp only [get?_ins] at hk
              by_cases hch : (changed.contains "name" && name != ex.name) = true
              · -- the index moves (ex.org, ex.name) ↦ (ex.org, name)
                simp only [hch, if_true]
                have hcn : changed.contains "name" = true := by
                  simp only [Bool.and_eq_true] at hch; exact hch.1
                have hnn : name ≠ ex.name := by
                  simp only [Bool.and_eq_true, bne_iff_ne, ne_eq] at hch; exact hch.2
                have hfree : a.teamsByOrg.get2? ex.org name = none := by
                  cases hh : a.teamsByOrg.get2? ex.org name with
                  | none => rfl
                  | some v =>
                    exfalso; apply hrej
                    rw [hch, hh]; rfl
                rw [get2?_ins_outer]
                by_cases hki : k = id
                · simp only [hki, if_true, Option.some.injEq] at hk
                  subst hk
                  simp only [hcn, if_true]
                  rw [get?_ins_self]; rw [hki]
                · simp only [hki, if_false] at hk
                  have c := h.c1 k x hk
                  by_cases hxo : x.org = ex.org
                  · rw [if_pos hxo, get?_ins, get?_del]
                    have h1 : x.name ≠ name := by
                      intro hh; rw [hxo, hh, hfree] at c; exact absurd c (by simp)
                    have h2 : x.name ≠ ex.name := by
                      intro hh
                      have c2 := h.c1 id ex hg
                      rw [hxo, hh, c2] at c
                      exact hki (Option.some.inj c).symm
                    rw [if_neg h1, if_neg h2]
                    rw [hxo, get2?_def] at c; exact c
                  · rw [if_neg hxo]; exact c
              · simp only [hch, Bool.false_eq_true, if_false]
                by_cases hki : k = id
                · simp only [hki, if_true, Option.some.injEq] at hk
                  subst hk
                  have c := h.c1 id ex hg
                  have hname : (if changed.contains "name" = true then name else ex.name) = ex.name := by
                    by_cases hcn : changed.contains "name" = true
                    · simp only [hcn, if_true]
                      by_cases hnn : name = ex.name
                      · exact hnn
                      · exfalso; apply hch
                        simp only [Bool.and_eq_true, bne_iff_ne, ne_eq]
                        exact ⟨hcn, hnn⟩
                    · rw [if_neg hcn]
                  simp only [hname]; rw [hki]; exact c
                · simp only [hki, if_false] at hk; exact h.c1 k x hk

theorem pinv_createRole {a : AuthSt} (h : PInv a) (i : Nat) (e : RoleEntry) :
    PInv (applyCreateRole a i e).1 := by
  unfold applyCreateRole
  split
  · exact h
  · split
    · exact h
    · by_cases ht : a.teams.has e.team = true
      · simp only [ht, Bool.not_true, Bool.false_eq_true, if_false]
        refine ⟨h.p1, ?_, ?_, h.p4, h.c1, ?_, h.c3, h.c4⟩
        · intro k x hk
          simp only [get?_ins] at hk
          by_cases hki : k = (i : Int)
          · simp only [hki, if_true, Option.some.injEq] at hk
            subst hk; exact ht
          · simp only [hki, if_false] at hk; exact h.p2 k x hk
        · intro k x hk; exact has_ins_of_has (h.p3 k x hk)
        · intro k x hk
          simp only [get?_ins] at hk
          simp only [get2?_ins2]
          by_cases hki : k = (i : Int)
          · simp only [hki, if_true, Option.some.injEq] at hk
            subst hk; simp [hki]
          · simp only [hki, if_false] at hk
            have c := h.c2 k x hk
            split
            · rfl
            · exact c
      · simp only [ht, Bool.not_false, if_true]; exact h

theorem pinv_updateRole {a : AuthSt} (h : PInv a) (i : Nat) (id : Int) (pattern perms : String)
    (changed : List String) : PInv (applyUpdateRole a i id pattern perms changed).1 := by
  unfold applyUpdateRole
  split
  · exact h
  · split
    · exact h
    · split
      · exact h
      · cases hg : a.roles.get? id with
        | none => exact h
        | some ex =>
          simp only
          refine ⟨h.p1, ?_, ?_, h.p4, h.c1, ?_, h.c3, h.c4⟩
          · intro k x hk
            simp only [get?_ins] at hk
            by_cases hki : k = id
            · simp only [hki, if_true, Option.some.injEq] at hk
              subst hk; exact h.p2 id ex hg
            · simp only [hki, if_false] at hk; exact h.p2 k x hk
          · intro k x hk; exact has_ins_of_has (h.p3 k x hk)
          · intro k x hk
            simp only [get?_ins] at hk
            by_cases hki : k = id
            · simp only [hki, if_true, Option.some.injEq] at hk
              subst hk; rw [hki]; exact h.c2 id ex hg
            · simp only [hki, if_false] at hk; exact h.c2 k x hk

theorem pinv_createMPerm {a : AuthSt} (h : PInv a) (i : Nat) (e : MPermEntry) :
    PInv (applyCreateMPerm a i e).1 := by
  unfold applyCreateMPerm
  split
  · exact h
  · split
    · exact h
    · by_cases ht : a.roles.has e.role = true
      · simp only [ht, Bool.not_true, Bool.false_eq_true, if_false]
        refine ⟨h.p1, h.p2, ?_, h.p4, h.c1, h.c2, ?_, h.c4⟩
        · intro k x hk
          simp only [get?_ins] at hk
          by_cases hki : k = (i : Int)
          · simp only [hki, if_true, Option.some.injEq] at hk
            subst hk; exact ht
          · simp only [hki, if_false] at hk; exact h.p3 k x hk
        · intro k x hk
          simp only [get?_ins] at hk
          simp only [get2?_ins2]
          by_cases hki : k = (i : Int)
          · simp only [hki, if_true, Option.some.injEq] at hk
            subst hk; simp [hki]
          · simp only [hki, if_false] at hk
            have c := h.c3 k x hk
            split
            · rfl
            · exact c
      · simp only [ht, Bool.not_false, if_true]; exact h

theorem pinv_addMember {a : AuthSt} (h : PInv a) (i : Nat) (e : MemberEntry) :
    PInv (applyAddMember a i e).1 := by
  unfold applyAddMember
  split
  · exact h
  · split
    · exact h
    · by_cases htk : a.tokens.has e.token = true
      · simp only [htk, Bool.not_true, Bool.false_eq_true, if_false]
        by_cases htm : a.teams.has e.team = true
        · simp only [htm, Bool.not_true, Bool.false_eq_true, if_false]
          split
          · exact h
          · refine ⟨h.p1, h.p2, h.p3, ?_, h.c1, h.c2, h.c3, ?_⟩
            · intro k x hk
              simp only [get?_ins] at hk
              by_cases hki : k = (i : Int)
              · simp only [hki, if_true, Option.some.injEq] at hk
                subst hk; exact ⟨htk, htm⟩
              · simp only [hki, if_false] at hk; exact h.p4 k x hk
            · intro k x hk
              simp only [get?_ins] at hk
              simp only [get2?_ins2]
              by_cases hki : k = (i : Int)
              · simp only [hki, if_true, Option.some.injEq] at hk
                subst hk; simp [hki]
              · simp only [hki, if_false] at hk
                have c := h.c4 k x hk
                refine ⟨?_, ?_⟩
                · split
                  · rfl
                  · exact c.1
                · split
                  · rfl
                  · exact c.2
        · simp only [htm, Bool.not_false, if_true]; exact h
      · simp only [htk, Bool.not_false, if_true]; exact h

/-! ### all commands -/

/-- effect of any command on the token/RBAC part -/
def auStep (a : AuthSt) (i : Nat) : Cmd → AuthSt
  | .createToken t => (applyCreateToken a i t).1
  | .updateToken id n d p e ch => (applyUpdateToken a i id n d p e ch).1
  | .revokeToken id => (applyRevokeToken a i id).1
  | .deleteToken id => (applyDeleteToken a id).1
  | .rotateToken id h p => (applyRotateToken a i id h p).1
  | .createOrg e => (applyCreateOrg a i e).1
  | .updateOrg id n d en u ch => (applyUpdateOrg a i id n d en u ch).1
  | .deleteOrg id => (applyDeleteOrg a id).1
  | .createTeam e => (applyCreateTeam a i e).1
  | .updateTeam id n d en u ch => (applyUpdateTeam a i id n d en u ch).1
  | .deleteTeam id => (applyDeleteTeam a id).1
  | .createRole e => (applyCreateRole a i e).1
  | .updateRole id pt pm ch => (applyUpdateRole a i id pt pm ch).1
  | .deleteRole id => (applyDeleteRole a id).1
  | .createMPerm e => (applyCreateMPerm a i e).1
  | .deleteMPerm id => (applyDeleteMPerm a id).1
  | .addMember e => (applyAddMember a i e).1
  | .removeMember t tm => (applyRemoveMember a t tm).1
  | _ => a

theorem apply_au (s : State) (i : Nat) (c : Cmd) : (apply s i c).1.au = auStep s.au i c := by
  cases c <;> rfl

theorem pinv_step {a : AuthSt} (h : PInv a) (i : Nat) (c : Cmd) : PInv (auStep a i c) := by
  cases c <;> try exact h
  · exact pinv_createToken h i _
  · exact pinv_updateToken h i _ _ _ _ _ _
  · exact pinv_revokeToken h i _
  · exact pinv_deleteToken h _
  · exact pinv_rotateToken h i _ _ _
  · exact pinv_createOrg h i _
  · exact pinv_updateOrg h i _ _ _ _ _ _
  · exact pinv_deleteOrg h _
  · exact pinv_createTeam h i _
  · exact pinv_updateTeam h i _ _ _ _ _ _
  · exact pinv_deleteTeam h _
  · exact pinv_createRole h i _
  · exact pinv_updateRole h i _ _ _ _
  · exact pinv_deleteRole h _
  · exact pinv_createMPerm h i _
  · exact pinv_deleteMPerm h _
  · exact pinv_addMember h i _
  · exact pinv_removeMember h _ _

theorem pinv_runIdx (s : State) (l : List (Nat × Cmd)) (h : PInv s.au) : PInv (runIdx s l).au := by
  induction l generalizing s with
  | nil => exact h
  | cons p t ih =>
    obtain ⟨i, c⟩ := p
    simp only [runIdx]
    apply ih
    rw [apply_au]; exact pinv_step h i c

end Arc.C22
