import Arc.Model.C22
import Arc.Proofs.C22.Parents
/-! Token part of the FSM (`tokens`, `tokensByName`, `tokensByPrefix`): invariant `TokInv`, its
preservation by every command at a fresh log index, and `restore` = identity on the token part.
Helper lemmas for C22. -/
set_option linter.unusedSimpArgs false
set_option linter.unusedVariables false
namespace Arc.C22
open SMap

/-! ### sorted id lists (the model of the `tokensByPrefix` slices) -/

def SSorted (l : List Int) : Prop := l.Pairwise (· < ·)

theorem mem_msIns (a x : Int) (l : List Int) : x ∈ msIns a l ↔ x = a ∨ x ∈ l := by
  induction l with
  | nil => simp [msIns]
  | cons y t ih =>
    unfold msIns
    by_cases h : a ≤ y
    · simp [h]
    · simp only [h, if_false, List.mem_cons, ih]
      constructor
      · rintro (h1 | h1 | h1)
        · exact Or.inr (Or.inl h1)
        · exact Or.inl h1
        · exact Or.inr (Or.inr h1)
      · rintro (h1 | h1 | h1)
        · exact Or.inr (Or.inl h1)
        · exact Or.inl h1
        · exact Or.inr (Or.inr h1)

theorem ssorted_msIns {a : Int} {l : List Int} (h : SSorted l) (hn : a ∉ l) : SSorted (msIns a l) := by
  induction l with
  | nil => simp [msIns, SSorted]
  | cons y t ih =>
    have ⟨hy, ht⟩ := List.pairwise_cons.mp h
    unfold msIns
    by_cases hle : a ≤ y
    · simp only [hle, if_true]
      have hne : a ≠ y := fun e => hn (by rw [e]; exact List.mem_cons_self)
      have hlt : a < y := by omega
      refine List.pairwise_cons.mpr ⟨?_, h⟩
      intro x hx
      rcases List.mem_cons.mp hx with hx | hx
      · rw [hx]; exact hlt
      · have := hy x hx; omega
    · simp only [hle, if_false]
      refine List.pairwise_cons.mpr ⟨?_, ih ht (fun hh => hn (List.mem_cons_of_mem _ hh))⟩
      intro x hx
      rcases (mem_msIns a x t).mp hx with hx | hx
      · rw [hx]; omega
      · exact hy x hx

theorem ssorted_filter {l : List Int} (f : Int → Bool) (h : SSorted l) : SSorted (l.filter f) :=
  List.Pairwise.filter f h

/-- strictly sorted lists with the same members are equal -/
theorem ssorted_ext {l1 l2 : List Int} (h1 : SSorted l1) (h2 : SSorted l2)
    (h : ∀ x, x ∈ l1 ↔ x ∈ l2) : l1 = l2 := by
  induction l1 generalizing l2 with
  | nil =>
    cases l2 with
    | nil => rfl
    | cons y t => exact absurd ((h y).mpr List.mem_cons_self) (by simp)
  | cons a t ih =>
    cases l2 with
    | nil => exact absurd ((h a).mp List.mem_cons_self) (by simp)
    | cons b u =>
      have ⟨ha, ht⟩ := List.pairwise_cons.mp h1
      have ⟨hb, hu⟩ := List.pairwise_cons.mp h2
      have hab : a = b := by
        have m1 := (h a).mp List.mem_cons_self
        have m2 := (h b).mpr List.mem_cons_self
        rcases List.mem_cons.mp m1 with e | e
        · exact e
        · rcases List.mem_cons.mp m2 with e2 | e2
          · exact e2.symm
          · have := hb a e; have := ha b e2; omega
      subst hab
      have : t = u := by
        apply ih ht hu
        intro x
        constructor
        · intro hx
          have := (h x).mp (List.mem_cons_of_mem _ hx)
          rcases List.mem_cons.mp this with e | e
          · have := ha x hx; omega
          · exact e
        · intro hx
          have := (h x).mpr (List.mem_cons_of_mem _ hx)
          rcases List.mem_cons.mp this with e | e
          · have := hb x hx; omega
          · exact e
      rw [this]

/-! ### `tokensByPrefix` operations -/

/-- the id list stored under a prefix (empty when the key is absent) -/
def pl (m : SMap String (List Int)) (p : String) : List Int := (m.get? p).getD []

theorem pl_prefixAdd (m : SMap String (List Int)) (p q : String) (id : Int) :
    pl (prefixAdd m p id) q = if q = p then msIns id (pl m p) else pl m q := by
  unfold pl prefixAdd
  rw [get?_ins]
  by_cases h : q = p <;> simp [h]

theorem pl_prefixDel (m : SMap String (List Int)) (p q : String) (id : Int) :
    pl (prefixDel m p id) q = if q = p then (pl m p).filter (fun x => x != id) else pl m q := by
  unfold prefixDel
  cases hg : m.get? p with
  | none =>
    simp only
    by_cases h : q = p
    · subst h; simp [pl, hg]
    · simp [h]
  | some ids =>
    simp only
    have hpl : pl m p = ids := by simp [pl, hg]
    by_cases hem : (ids.filter (fun x => x != id)).isEmpty = true
    · rw [if_pos hem]
      unfold pl
      rw [get?_del]
      by_cases h : q = p
      · simp only [h, if_true, Option.getD_none]
        have : ids.filter (fun x => x != id) = [] := List.isEmpty_iff.mp hem
        rw [show (m.get? p).getD [] = ids from by rw [hg]; rfl, this]
      · simp [h]
    · rw [if_neg hem]
      unfold pl
      rw [get?_ins]
      by_cases h : q = p
      · simp only [h, if_true, Option.getD_some]
        rw [show (m.get? p).getD [] = ids from by rw [hg]; rfl]
      · simp [h]

/-- stored slices are never empty (a key whose slice empties is deleted) -/
def NoEmptySlice (m : SMap String (List Int)) : Prop := ∀ p l, m.get? p = some l → l ≠ []

theorem msIns_ne_nil (a : Int) (l : List Int) : msIns a l ≠ [] := by
  cases l with
  | nil => simp [msIns]
  | cons y t => unfold msIns; split <;> simp

theorem noEmpty_prefixAdd {m : SMap String (List Int)} (h : NoEmptySlice m) (p : String) (id : Int) :
    NoEmptySlice (prefixAdd m p id) := by
  intro q l hq
  unfold prefixAdd at hq
  rw [get?_ins] at hq
  by_cases hqp : q = p
  · simp only [hqp, if_true, Option.some.injEq] at hq
    rw [← hq]; exact msIns_ne_nil _ _
  · simp only [hqp, if_false] at hq; exact h q l hq

theorem noEmpty_prefixDel {m : SMap String (List Int)} (h : NoEmptySlice m) (p : String) (id : Int) :
    NoEmptySlice (prefixDel m p id) := by
  intro q l hq
  unfold prefixDel at hq
  cases hg : m.get? p with
  | none => rw [hg] at hq; exact h q l hq
  | some ids =>
    rw [hg] at hq
    simp only at hq
    by_cases hem : (ids.filter (fun x => x != id)).isEmpty = true
    · rw [if_pos hem, get?_del] at hq
      by_cases hqp : q = p
      · simp [hqp] at hq
      · simp only [hqp, if_false] at hq; exact h q l hq
    · rw [if_neg hem, get?_ins] at hq
      by_cases hqp : q = p
      · simp only [hqp, if_true, Option.some.injEq] at hq
        rw [← hq]; intro e; rw [e] at hem; simp at hem
      · simp only [hqp, if_false] at hq; exact h q l hq

theorem sorted_prefixAdd {m : SMap String (List Int)} (h : Sorted m) (p : String) (id : Int) :
    Sorted (prefixAdd m p id) := sorted_ins h

theorem sorted_prefixDel {m : SMap String (List Int)} (h : Sorted m) (p : String) (id : Int) :
    Sorted (prefixDel m p id) := by
  unfold prefixDel
  cases m.get? p with
  | none => exact h
  | some ids =>
    simp only
    split
    · exact sorted_del h
    · exact sorted_ins h

/-- canonical form: sorted maps of non-empty strictly sorted slices with the same members are equal -/
theorem byPrefix_ext {m1 m2 : SMap String (List Int)} (s1 : Sorted m1) (s2 : Sorted m2)
    (n1 : NoEmptySlice m1) (n2 : NoEmptySlice m2)
    (o1 : ∀ p, SSorted (pl m1 p)) (o2 : ∀ p, SSorted (pl m2 p))
    (h : ∀ p x, x ∈ pl m1 p ↔ x ∈ pl m2 p) : m1 = m2 := by
  apply ext s1 s2
  intro p
  have hl : pl m1 p = pl m2 p := ssorted_ext (o1 p) (o2 p) (h p)
  cases h1 : m1.get? p with
  | none =>
    cases h2 : m2.get? p with
    | none => rfl
    | some l2 =>
      exfalso
      have : pl m1 p = [] := by simp [pl, h1]
      have e2 : pl m2 p = l2 := by simp [pl, h2]
      rw [this, e2] at hl
      exact n2 p l2 h2 hl.symm
  | some l1 =>
    cases h2 : m2.get? p with
    | none =>
      exfalso
      have : pl m2 p = [] := by simp [pl, h2]
      have e1 : pl m1 p = l1 := by simp [pl, h1]
      rw [this, e1] at hl
      exact n1 p l1 h1 hl
    | some l2 =>
      have e1 : pl m1 p = l1 := by simp [pl, h1]
      have e2 : pl m2 p = l2 := by simp [pl, h2]
      rw [e1, e2] at hl
      rw [hl]

/-! ### the invariant -/

structure TokInv (a : AuthSt) (n : Int) : Prop where
  st : Sorted a.tokens
  sn : Sorted a.byName
  sp : Sorted a.byPrefix
  key : ∀ k e, a.tokens.get? k = some e → e.id = k ∧ k < n
  valid : ∀ k e, a.tokens.get? k = some e → validToken e = true
  n1 : ∀ nm id, a.byName.get? nm = some id → ∃ e, a.tokens.get? id = some e ∧ e.name = nm
  n2 : ∀ id e, a.tokens.get? id = some e → a.byName.get? e.name = some id
  pne : NoEmptySlice a.byPrefix
  pso : ∀ p, SSorted (pl a.byPrefix p)
  pm : ∀ p id, id ∈ pl a.byPrefix p ↔ ∃ e, a.tokens.get? id = some e ∧ e.pfx = p

theorem tokInv_empty (n : Int) : TokInv ({} : AuthSt) n :=
  ⟨sorted_nil, sorted_nil, sorted_nil, fun k e h => by simp at h, fun k e h => by simp at h,
   fun nm id h => by simp at h, fun id e h => by simp at h, fun p l h => by simp at h,
   fun p => by simp [pl, SSorted], fun p id => by simp [pl]⟩

theorem TokInv.mono {a : AuthSt} {n m : Int} (h : TokInv a n) (hnm : n ≤ m) : TokInv a m :=
  { h with key := fun k e hk => ⟨(h.key k e hk).1, by have := (h.key k e hk).2; omega⟩ }

/-- the invariant only reads three fields -/
theorem TokInv.congr {a b : AuthSt} {n : Int} (h : TokInv a n) (h1 : b.tokens = a.tokens)
    (h2 : b.byName = a.byName) (h3 : b.byPrefix = a.byPrefix) : TokInv b n := by
  refine ⟨?_, ?_, ?_, ?_, ?_, ?_, ?_, ?_, ?_, ?_⟩
  · rw [h1]; exact h.st
  · rw [h2]; exact h.sn
  · rw [h3]; exact h.sp
  · rw [h1]; exact h.key
  · rw [h1]; exact h.valid
  · rw [h1, h2]; exact h.n1
  · rw [h1, h2]; exact h.n2
  · rw [h3]; exact h.pne
  · rw [h3]; exact h.pso
  · rw [h1, h3]; exact h.pm

theorem validToken_iff (e : TokenEntry) :
    validToken e = true ↔ validTokenName e.name = true ∧ validHashPfx e.hash e.pfx = true ∧ validPerms e.perms = true := by
  unfold validToken
  simp only [Bool.and_eq_true]
  constructor
  · rintro ⟨⟨a, b⟩, c⟩; exact ⟨a, b, c⟩
  · rintro ⟨a, b, c⟩; exact ⟨⟨a, b⟩, c⟩

/-! ### token commands -/

/-- the record `applyUpdateToken` writes, for a given resulting name -/
def updTok (e : TokenEntry) (nm desc perms : String) (expires : Int) (changed : List String) (i : Nat) :
    TokenEntry :=
  { e with name := nm,
           desc := if changed.contains "description" then desc else e.desc,
           perms := if changed.contains "permissions" then perms else e.perms,
           expires := if changed.contains "expires_at" then expires else e.expires,
           lsn := i }

theorem tokInv_create {a : AuthSt} {n : Int} (h : TokInv a n) (i : Nat) (hi : n ≤ (i : Int)) (t : TokenEntry) :
    TokInv (applyCreateToken a i t).1 ((i : Int) + 1) := by
  unfold applyCreateToken
  by_cases hv : validToken t = true
  · simp only [hv, Bool.not_true, Bool.false_eq_true, if_false]
    by_cases hc : t.created = 0
    · simp only [hc, if_true]; exact h.mono (by omega)
    · simp only [hc, if_false]
      by_cases hex : a.byName.has t.name = true
      · simp only [hex, if_true]; exact h.mono (by omega)
      · simp only [hex, Bool.false_eq_true, if_false]
        have hnone : a.byName.get? t.name = none := by
          cases hh : a.byName.get? t.name with
          | none => rfl
          | some v => simp [has, hh] at hex
        have hfresh : a.tokens.get? (i : Int) = none := by
          cases hh : a.tokens.get? (i : Int) with
          | none => rfl
          | some v => have := (h.key _ _ hh).2; omega
        refine ⟨sorted_ins h.st, sorted_ins h.sn, sorted_prefixAdd h.sp _ _, ?_, ?_, ?_, ?_,
          noEmpty_prefixAdd h.pne _ _, ?_, ?_⟩
        · intro k e hk
          simp only [get?_ins] at hk
          by_cases hki : k = (i : Int)
          · simp only [hki, if_true, Option.some.injEq] at hk
            subst hk; exact ⟨hki.symm, by omega⟩
          · simp only [hki, if_false] at hk
            have := h.key k e hk; exact ⟨this.1, by omega⟩
        · intro k e hk
          simp only [get?_ins] at hk
          by_cases hki : k = (i : Int)
          · simp only [hki, if_true, Option.some.injEq] at hk
            subst hk
            rw [validToken_iff] at hv ⊢; exact hv
          · simp only [hki, if_false] at hk; exact h.valid k e hk
        · intro nm id hnm
          simp only [get?_ins] at hnm ⊢
          by_cases hn : nm = t.name
          · simp only [hn, if_true, Option.some.injEq] at hnm
            subst hnm; simp [hn]
          · simp only [hn, if_false] at hnm
            obtain ⟨e, he, hen⟩ := h.n1 nm id hnm
            have : id ≠ (i : Int) := by have := (h.key _ _ he).2; omega
            simp only [this, if_false]; exact ⟨e, he, hen⟩
        · intro id e he
          simp only [get?_ins] at he ⊢
          by_cases hid : id = (i : Int)
          · simp only [hid, if_true, Option.some.injEq] at he
            subst he; simp [hid]
          · simp only [hid, if_false] at he
            have := h.n2 id e he
            have hne : e.name ≠ t.name := by intro e2; rw [e2, hnone] at this; exact absurd this (by simp)
            simp only [hne, if_false]; exact this
        · intro p
          rw [pl_prefixAdd]
          by_cases hp : p = t.pfx
          · simp only [hp, if_true]
            apply ssorted_msIns (h.pso _)
            intro hm
            obtain ⟨e, he, _⟩ := (h.pm _ _).mp hm
            rw [hfresh] at he; exact absurd he (by simp)
          · simp only [hp, if_false]; exact h.pso p
        · intro p id
          rw [pl_prefixAdd]
          simp only [get?_ins]
          by_cases hp : p = t.pfx
          · simp only [hp, if_true, mem_msIns]
            constructor
            · rintro (hid | hm)
              · exact ⟨{ t with id := i, lsn := i, enabled := true }, by simp [hid], rfl⟩
              · obtain ⟨e, he, hep⟩ := (h.pm _ _).mp hm
                have : id ≠ (i : Int) := by have := (h.key _ _ he).2; omega
                exact ⟨e, by simp [this, he], hep⟩
            · rintro ⟨e, he, hep⟩
              by_cases hid : id = (i : Int)
              · exact Or.inl hid
              · simp only [hid, if_false] at he
                exact Or.inr ((h.pm _ _).mpr ⟨e, he, hep⟩)
          · simp only [hp, if_false]
            constructor
            · intro hm
              obtain ⟨e, he, hep⟩ := (h.pm _ _).mp hm
              have : id ≠ (i : Int) := by have := (h.key _ _ he).2; omega
              exact ⟨e, by simp [this, he], hep⟩
            · rintro ⟨e, he, hep⟩
              by_cases hid : id = (i : Int)
              · simp only [hid, if_true, Option.some.injEq] at he
                subst he; exact absurd hep.symm hp
              · simp only [hid, if_false] at he
                exact (h.pm _ _).mpr ⟨e, he, hep⟩
  · simp only [hv, Bool.not_false, if_true]; exact h.mono (by omega)

/-- replacing the record of an existing token by one with the same id, name and prefix -/
theorem tokInv_modify {a : AuthSt} {n : Int} (h : TokInv a n) (id : Int) (e e' : TokenEntry)
    (hg : a.tokens.get? id = some e) (hid : e'.id = e.id) (hname : e'.name = e.name)
    (hpfx : e'.pfx = e.pfx) (hv : validToken e' = true) :
    TokInv { a with tokens := a.tokens.ins id e' } n := by
  refine ⟨sorted_ins h.st, h.sn, h.sp, ?_, ?_, ?_, ?_, h.pne, h.pso, ?_⟩
  · intro k x hk
    simp only [get?_ins] at hk
    by_cases hki : k = id
    · simp only [hki, if_true, Option.some.injEq] at hk
      subst hk; rw [hki, hid]; exact h.key id e hg
    · simp only [hki, if_false] at hk; exact h.key k x hk
  · intro k x hk
    simp only [get?_ins] at hk
    by_cases hki : k = id
    · simp only [hki, if_true, Option.some.injEq] at hk
      subst hk; exact hv
    · simp only [hki, if_false] at hk; exact h.valid k x hk
  · intro nm k hnm
    obtain ⟨x, hx, hxn⟩ := h.n1 nm k hnm
    simp only [get?_ins]
    by_cases hki : k = id
    · subst hki
      rw [hg] at hx; cases hx
      exact ⟨e', by simp, by rw [hname]; exact hxn⟩
    · exact ⟨x, by simp [hki, hx], hxn⟩
  · intro k x hk
    simp only [get?_ins] at hk
    by_cases hki : k = id
    · simp only [hki, if_true, Option.some.injEq] at hk
      subst hk; rw [hki, hname]; exact h.n2 id e hg
    · simp only [hki, if_false] at hk; exact h.n2 k x hk
  · intro p k
    rw [h.pm]
    simp only [get?_ins]
    by_cases hki : k = id
    · subst hki
      simp only [if_true, hg, Option.some.injEq]
      constructor
      · rintro ⟨x, hx, hxp⟩; subst hx; exact ⟨e', rfl, by rw [hpfx]; exact hxp⟩
      · rintro ⟨x, hx, hxp⟩; subst hx; exact ⟨e, rfl, by rw [← hpfx]; exact hxp⟩
    · simp [hki]

/-- renaming: the record at `id` is replaced by one with the same id and prefix and a new name that
no OTHER token holds; the name index moves the binding -/
theorem tokInv_rename {a : AuthSt} {n : Int} (h : TokInv a n) (id : Int) (e e' : TokenEntry)
    (hg : a.tokens.get? id = some e) (hid : e'.id = e.id) (hpfx : e'.pfx = e.pfx)
    (hv : validToken e' = true) (hfree : ∀ k, a.byName.get? e'.name = some k → k = id) :
    TokInv { a with tokens := a.tokens.ins id e', byName := (a.byName.del e.name).ins e'.name e.id } n := by
  have hkey := h.key id e hg
  refine ⟨sorted_ins h.st, sorted_ins (sorted_del h.sn), h.sp, ?_, ?_, ?_, ?_, h.pne, h.pso, ?_⟩
  · intro k x hk
    simp only [get?_ins] at hk
    by_cases hki : k = id
    · simp only [hki, if_true, Option.some.injEq] at hk
      subst hk; rw [hki, hid]; exact hkey
    · simp only [hki, if_false] at hk; exact h.key k x hk
  · intro k x hk
    simp only [get?_ins] at hk
    by_cases hki : k = id
    · simp only [hki, if_true, Option.some.injEq] at hk
      subst hk; exact hv
    · simp only [hki, if_false] at hk; exact h.valid k x hk
  · intro nm k hnm
    simp only [get?_ins, get?_del] at hnm
    simp only [get?_ins]
    by_cases hn : nm = e'.name
    · simp only [hn, if_true, Option.some.injEq] at hnm
      rw [← hnm, hkey.1]
      exact ⟨e', by simp, hn.symm⟩
    · simp only [hn, if_false] at hnm
      by_cases hn2 : nm = e.name
      · simp [hn2] at hnm
      · simp only [hn2, if_false] at hnm
        obtain ⟨x, hx, hxn⟩ := h.n1 nm k hnm
        have hki : k ≠ id := by
          intro e2; rw [e2, hg] at hx; cases hx; exact hn2 hxn.symm
        exact ⟨x, by simp [hki, hx], hxn⟩
  · intro k x hk
    simp only [get?_ins] at hk
    simp only [get?_ins, get?_del]
    by_cases hki : k = id
    · simp only [hki, if_true, Option.some.injEq] at hk
      subst hk
      simp [hkey.1, hki]
    · simp only [hki, if_false] at hk
      have hx := h.n2 k x hk
      have h1 : x.name ≠ e'.name := by
        intro e2; rw [e2] at hx; exact hki (hfree k hx)
      have h2 : x.name ≠ e.name := by
        intro e2
        have := h.n2 id e hg
        rw [e2, this] at hx
        exact hki (Option.some.inj hx).symm
      simp only [h1, h2, if_false]; exact hx
  · intro p k
    rw [h.pm]
    simp only [get?_ins]
    by_cases hki : k = id
    · subst hki
      simp only [if_true, hg, Option.some.injEq]
      constructor
      · rintro ⟨x, hx, hxp⟩; subst hx; exact ⟨e', rfl, by rw [hpfx]; exact hxp⟩
      · rintro ⟨x, hx, hxp⟩; subst hx; exact ⟨e, rfl, by rw [← hpfx]; exact hxp⟩
    · simp [hki]

theorem tokInv_update {a : AuthSt} {n : Int} (h : TokInv a n) (i : Nat) (id : Int)
    (name desc perms : String) (expires : Int) (changed : List String) :
    TokInv (applyUpdateToken a i id name desc perms expires changed).1 n := by
  unfold applyUpdateToken
  split
  · exact h
  · rename_i hid0
    by_cases hnv : (changed.contains "name" && !validTokenName name) = true
    · rw [if_pos hnv]; exact h
    · rw [if_neg hnv]
      by_cases hpv : (changed.contains "permissions" && !validPerms perms) = true
      · rw [if_pos hpv]; exact h
      · rw [if_neg hpv]
        cases hg : a.tokens.get? id with
        | none => exact h
        | some e =>
          simp only
          by_cases hrej : (changed.contains "name" && nameTaken a.byName name id) = true
          · rw [if_pos hrej]; exact h
          · rw [if_neg hrej]
            have hkey := h.key id e hg
            have hve := (validToken_iff e).mp (h.valid id e hg)
            -- validity of the new record
            have hv' : ∀ (nm : String), (nm = if changed.contains "name" = true then name else e.name) →
                validToken (updTok e nm desc perms expires changed i) = true := by
              intro nm hnm
              rw [validToken_iff]
              refine ⟨?_, hve.2.1, ?_⟩
              · show validTokenName nm = true
                rw [hnm]
                by_cases hc : changed.contains "name" = true
                · simp only [hc, if_true]
                  cases hh : validTokenName name with
                  | true => rfl
                  | false => exfalso; apply hnv; rw [hc, hh]; rfl
                · simp only [hc, if_false]; exact hve.1
              · show validPerms (if changed.contains "permissions" = true then perms else e.perms) = true
                by_cases hc : changed.contains "permissions" = true
                · simp only [hc, if_true]
                  cases hh : validPerms perms with
                  | true => rfl
                  | false => exfalso; apply hpv; rw [hc, hh]; rfl
                · simp only [hc, if_false]; exact hve.2.2
            by_cases hcn : changed.contains "name" = true
            · -- the name index moves e.name ↦ name
              simp only [hcn, if_true]
              have hfree : ∀ k, a.byName.get? name = some k → k = id := by
                intro k hk
                cases hh : decide (k = id) with
                | true => exact of_decide_eq_true hh
                | false =>
                  exfalso; apply hrej
                  have : k ≠ id := of_decide_eq_false hh
                  rw [hcn]
                  unfold nameTaken
                  rw [hk]
                  simp [this]
              have := tokInv_rename h id e (updTok e name desc perms expires changed i) hg rfl rfl
                (hv' name (by rw [if_pos hcn])) hfree
              exact this
            · simp only [hcn, Bool.false_eq_true, if_false]
              have := tokInv_modify h id e (updTok e e.name desc perms expires changed i) hg rfl rfl rfl
                (hv' e.name (by rw [if_neg hcn]))
              exact this

theorem tokInv_revoke {a : AuthSt} {n : Int} (h : TokInv a n) (i : Nat) (id : Int) :
    TokInv (applyRevokeToken a i id).1 n := by
  unfold applyRevokeToken
  split
  · exact h
  · cases hg : a.tokens.get? id with
    | none => exact h
    | some e =>
      apply tokInv_modify h id e { e with enabled := false, lsn := i } hg rfl rfl rfl
      have := h.valid id e hg
      rw [validToken_iff] at this ⊢; exact this

theorem tokInv_rotate {a : AuthSt} {n : Int} (h : TokInv a n) (i : Nat) (id : Int) (hash pfx : String) :
    TokInv (applyRotateToken a i id hash pfx).1 n := by
  unfold applyRotateToken
  split
  · exact h
  · by_cases hvp : validHashPfx hash pfx = true
    · simp only [hvp, Bool.not_true, Bool.false_eq_true, if_false]
      cases hg : a.tokens.get? id with
      | none => exact h
      | some e =>
        simp only
        have hve := (validToken_iff e).mp (h.valid id e hg)
        have hv' : validToken { e with hash := hash, pfx := pfx, lsn := i } = true := by
          rw [validToken_iff]; exact ⟨hve.1, hvp, hve.2.2⟩
        by_cases hsame : e.pfx = pfx
        · simp only [hsame, ne_eq, not_true_eq_false, if_false]
          exact tokInv_modify h id e _ hg rfl rfl hsame.symm hv'
        · simp only [hsame, ne_eq, not_false_eq_true, if_true]
          have hkey := h.key id e hg
          refine ⟨sorted_ins h.st, h.sn, sorted_prefixAdd (sorted_prefixDel h.sp _ _) _ _, ?_, ?_, ?_, ?_,
            noEmpty_prefixAdd (noEmpty_prefixDel h.pne _ _) _ _, ?_, ?_⟩
          · intro k x hk
            simp only [get?_ins] at hk
            by_cases hki : k = id
            · simp only [hki, if_true, Option.some.injEq] at hk
              subst hk; rw [hki]; exact hkey
            · simp only [hki, if_false] at hk; exact h.key k x hk
          · intro k x hk
            simp only [get?_ins] at hk
            by_cases hki : k = id
            · simp only [hki, if_true, Option.some.injEq] at hk
              subst hk; exact hv'
            · simp only [hki, if_false] at hk; exact h.valid k x hk
          · intro nm k hnm
            obtain ⟨x, hx, hxn⟩ := h.n1 nm k hnm
            simp only [get?_ins]
            by_cases hki : k = id
            · subst hki
              rw [hg] at hx; cases hx
              exact ⟨{ e with hash := hash, pfx := pfx, lsn := i }, by simp, hxn⟩
            · exact ⟨x, by simp [hki, hx], hxn⟩
          · intro k x hk
            simp only [get?_ins] at hk
            by_cases hki : k = id
            · simp only [hki, if_true, Option.some.injEq] at hk
              subst hk; rw [hki]; exact h.n2 id e hg
            · simp only [hki, if_false] at hk; exact h.n2 k x hk
          · intro p
            rw [pl_prefixAdd]
            by_cases hp : p = pfx
            · simp only [hp, if_true]
              apply ssorted_msIns
              · rw [pl_prefixDel]; split
                · exact ssorted_filter _ (h.pso _)
                · exact h.pso _
              · rw [pl_prefixDel, if_neg (fun e2 => hsame e2.symm)]
                intro hm
                obtain ⟨x, hx, hxp⟩ := (h.pm _ _).mp hm
                rw [hg] at hx; cases hx; exact hsame hxp
            · simp only [hp, if_false]
              rw [pl_prefixDel]; split
              · exact ssorted_filter _ (h.pso _)
              · exact h.pso _
          · intro p k
            rw [pl_prefixAdd]
            simp only [get?_ins]
            by_cases hp : p = pfx
            · simp only [hp, if_true, mem_msIns]
              rw [pl_prefixDel, if_neg (fun e2 => hsame e2.symm)]
              constructor
              · rintro (hk | hm)
                · exact ⟨{ e with hash := hash, pfx := pfx, lsn := i }, by simp [hk], rfl⟩
                · obtain ⟨x, hx, hxp⟩ := (h.pm _ _).mp hm
                  have hki : k ≠ id := by
                    intro e2; rw [e2, hg] at hx; cases hx; exact hsame hxp
                  exact ⟨x, by simp [hki, hx], hxp⟩
              · rintro ⟨x, hx, hxp⟩
                by_cases hki : k = id
                · exact Or.inl hki
                · simp only [hki, if_false] at hx
                  exact Or.inr ((h.pm _ _).mpr ⟨x, hx, hxp⟩)
            · simp only [hp, if_false]
              rw [pl_prefixDel]
              by_cases hp2 : p = e.pfx
              · simp only [hp2, if_true, List.mem_filter, bne_iff_ne, ne_eq]
                constructor
                · rintro ⟨hm, hki⟩
                  obtain ⟨x, hx, hxp⟩ := (h.pm _ _).mp hm
                  exact ⟨x, by simp [hki, hx], hxp⟩
                · rintro ⟨x, hx, hxp⟩
                  by_cases hki : k = id
                  · simp only [hki, if_true, Option.some.injEq] at hx
                    subst hx
                    exact absurd (hxp.trans hp2.symm ▸ rfl : pfx = p) (fun e2 => hp e2.symm)
                  · simp only [hki, if_false] at hx
                    exact ⟨(h.pm _ _).mpr ⟨x, hx, hxp⟩, hki⟩
              · simp only [hp2, if_false]
                constructor
                · intro hm
                  obtain ⟨x, hx, hxp⟩ := (h.pm _ _).mp hm
                  have hki : k ≠ id := by
                    intro e2; rw [e2, hg] at hx; cases hx; exact hp2 hxp.symm
                  exact ⟨x, by simp [hki, hx], hxp⟩
                · rintro ⟨x, hx, hxp⟩
                  by_cases hki : k = id
                  · simp only [hki, if_true, Option.some.injEq] at hx
                    subst hx; exact absurd hxp.symm hp
                  · simp only [hki, if_false] at hx
                    exact (h.pm _ _).mpr ⟨x, hx, hxp⟩
    · simp only [hvp, Bool.not_false, if_true]; exact h

/-! ### DeleteToken -/

theorem memCascadeByToken_tok (x : AuthSt) (m : Int) :
    (memCascadeByToken x m).tokens = x.tokens ∧ (memCascadeByToken x m).byName = x.byName ∧
    (memCascadeByToken x m).byPrefix = x.byPrefix := by
  unfold memCascadeByToken
  cases x.members.get? m <;> exact ⟨rfl, rfl, rfl⟩

theorem fold_memCascadeByToken_tok (ms : List Int) (x : AuthSt) :
    (ms.foldl memCascadeByToken x).tokens = x.tokens ∧ (ms.foldl memCascadeByToken x).byName = x.byName ∧
    (ms.foldl memCascadeByToken x).byPrefix = x.byPrefix := by
  induction ms generalizing x with
  | nil => exact ⟨rfl, rfl, rfl⟩
  | cons m t ih =>
    simp only [List.foldl_cons]
    have a := ih (memCascadeByToken x m)
    have b := memCascadeByToken_tok x m
    exact ⟨a.1.trans b.1, a.2.1.trans b.2.1, a.2.2.trans b.2.2⟩

theorem tokInv_deleteCore {a : AuthSt} {n : Int} (h : TokInv a n) (id : Int) (e : TokenEntry)
    (hg : a.tokens.get? id = some e) :
    TokInv { a with tokens := a.tokens.del id, byPrefix := prefixDel a.byPrefix e.pfx id,
                    byName := a.byName.del e.name } n := by
  have hsub : ∀ k x, (a.tokens.del id).get? k = some x → a.tokens.get? k = some x ∧ k ≠ id := by
    intro k x hk
    rw [get?_del] at hk
    by_cases hki : k = id
    · simp [hki] at hk
    · simp only [hki, if_false] at hk; exact ⟨hk, hki⟩
  refine ⟨sorted_del h.st, sorted_del h.sn, sorted_prefixDel h.sp _ _, ?_, ?_, ?_, ?_,
    noEmpty_prefixDel h.pne _ _, ?_, ?_⟩
  · intro k x hk; exact h.key k x (hsub k x hk).1
  · intro k x hk; exact h.valid k x (hsub k x hk).1
  · intro nm k hnm
    simp only [get?_del] at hnm
    by_cases hn : nm = e.name
    · simp [hn] at hnm
    · simp only [hn, if_false] at hnm
      obtain ⟨x, hx, hxn⟩ := h.n1 nm k hnm
      have hki : k ≠ id := by
        intro e2; rw [e2, hg] at hx; cases hx; exact hn hxn.symm
      exact ⟨x, by simp [get?_del, hki, hx], hxn⟩
  · intro k x hk
    have ⟨h1, h2⟩ := hsub k x hk
    have hx := h.n2 k x h1
    have hne : x.name ≠ e.name := by
      intro e2
      have := h.n2 id e hg
      rw [e2, this] at hx
      exact h2 (Option.some.inj hx).symm
    simp only [get?_del, hne, if_false]; exact hx
  · intro p
    rw [pl_prefixDel]; split
    · exact ssorted_filter _ (h.pso _)
    · exact h.pso _
  · intro p k
    rw [pl_prefixDel]
    simp only [get?_del]
    by_cases hp : p = e.pfx
    · simp only [hp, if_true, List.mem_filter, bne_iff_ne, ne_eq]
      constructor
      · rintro ⟨hm, hki⟩
        obtain ⟨x, hx, hxp⟩ := (h.pm _ _).mp hm
        exact ⟨x, by simp [hki, hx], hxp⟩
      · rintro ⟨x, hx, hxp⟩
        by_cases hki : k = id
        · simp [hki] at hx
        · simp only [hki, if_false] at hx
          exact ⟨(h.pm _ _).mpr ⟨x, hx, hxp⟩, hki⟩
    · simp only [hp, if_false]
      constructor
      · intro hm
        obtain ⟨x, hx, hxp⟩ := (h.pm _ _).mp hm
        have hki : k ≠ id := by
          intro e2; rw [e2, hg] at hx; cases hx; exact hp hxp.symm
        exact ⟨x, by simp [hki, hx], hxp⟩
      · rintro ⟨x, hx, hxp⟩
        by_cases hki : k = id
        · simp [hki] at hx
        · simp only [hki, if_false] at hx
          exact (h.pm _ _).mpr ⟨x, hx, hxp⟩

theorem tokInv_delete {a : AuthSt} {n : Int} (h : TokInv a n) (id : Int) :
    TokInv (applyDeleteToken a id).1 n := by
  unfold applyDeleteToken
  split
  · exact h
  · cases hg : a.tokens.get? id with
    | none => exact h
    | some e =>
      simp only
      have core := tokInv_deleteCore h id e hg
      cases hm : a.memByToken.get? id with
      | none => exact core
      | some set =>
        simp only
        have f := fold_memCascadeByToken_tok (keys set)
          { a with tokens := a.tokens.del id, byPrefix := prefixDel a.byPrefix e.pfx id,
                   byName := a.byName.del e.name }
        exact core.congr f.1 f.2.1 f.2.2

/-! ### commands that do not touch the token part -/

theorem cascadeRoleAndDelete_tok (x : AuthSt) (r : Int) :
    (cascadeRoleAndDelete x r).tokens = x.tokens ∧ (cascadeRoleAndDelete x r).byName = x.byName ∧
    (cascadeRoleAndDelete x r).byPrefix = x.byPrefix := ⟨rfl, rfl, rfl⟩

theorem fold_tok {α : Type} (f : AuthSt → α → AuthSt)
    (hf : ∀ x r, (f x r).tokens = x.tokens ∧ (f x r).byName = x.byName ∧ (f x r).byPrefix = x.byPrefix)
    (l : List α) (x : AuthSt) :
    (l.foldl f x).tokens = x.tokens ∧ (l.foldl f x).byName = x.byName ∧ (l.foldl f x).byPrefix = x.byPrefix := by
  induction l generalizing x with
  | nil => exact ⟨rfl, rfl, rfl⟩
  | cons m t ih =>
    simp only [List.foldl_cons]
    have a := ih (f x m)
    have b := hf x m
    exact ⟨a.1.trans b.1, a.2.1.trans b.2.1, a.2.2.trans b.2.2⟩

theorem memCascadeByTeam_tok (x : AuthSt) (m : Int) :
    (memCascadeByTeam x m).tokens = x.tokens ∧ (memCascadeByTeam x m).byName = x.byName ∧
    (memCascadeByTeam x m).byPrefix = x.byPrefix := by
  unfold memCascadeByTeam
  cases x.members.get? m <;> exact ⟨rfl, rfl, rfl⟩

theorem cascadeTeam_tok (x : AuthSt) (t : Int) :
    (cascadeTeam x t).tokens = x.tokens ∧ (cascadeTeam x t).byName = x.byName ∧
    (cascadeTeam x t).byPrefix = x.byPrefix := by
  unfold cascadeTeam
  simp only
  have a := fold_tok cascadeRoleAndDelete cascadeRoleAndDelete_tok (keys (x.rolesByTeam.inner t)) x
  generalize (keys (x.rolesByTeam.inner t)).foldl cascadeRoleAndDelete x = b1 at a
  have b := fold_tok memCascadeByTeam memCascadeByTeam_tok
    (keys (({ b1 with rolesByTeam := b1.rolesByTeam.del t } : AuthSt).memByTeam.inner t))
    { b1 with rolesByTeam := b1.rolesByTeam.del t }
  exact ⟨b.1.trans a.1, b.2.1.trans a.2.1, b.2.2.trans a.2.2⟩

theorem cascadeTeamAndDelete_tok (x : AuthSt) (t : Int) :
    (cascadeTeamAndDelete x t).tokens = x.tokens ∧ (cascadeTeamAndDelete x t).byName = x.byName ∧
    (cascadeTeamAndDelete x t).byPrefix = x.byPrefix := cascadeTeam_tok x t

theorem cascadeOrg_tok (x : AuthSt) (o : Int) :
    (cascadeOrg x o).tokens = x.tokens ∧ (cascadeOrg x o).byName = x.byName ∧
    (cascadeOrg x o).byPrefix = x.byPrefix :=
  fold_tok cascadeTeamAndDelete cascadeTeamAndDelete_tok _ x

/-- every command keeps the token invariant when applied at a log index ≥ the bound -/
theorem tokInv_step {a : AuthSt} {n : Int} (h : TokInv a n) (i : Nat) (hi : n ≤ (i : Int)) (c : Cmd) :
    TokInv (auStep a i c) ((i : Int) + 1) := by
  have hm : TokInv a ((i : Int) + 1) := h.mono (by omega)
  cases c <;> try exact hm
  · exact tokInv_create h i hi _
  · exact (tokInv_update h i _ _ _ _ _ _).mono (by omega)
  · exact (tokInv_revoke h i _).mono (by omega)
  · exact (tokInv_delete h _).mono (by omega)
  · exact (tokInv_rotate h i _ _ _).mono (by omega)
  · -- createOrg
    apply hm.congr <;> (simp only [auStep]; unfold applyCreateOrg; repeat' split) <;> rfl
  · apply hm.congr <;> (simp only [auStep]; unfold applyUpdateOrg; repeat' split) <;> rfl
  · -- deleteOrg
    rename_i id
    simp only [auStep]
    unfold applyDeleteOrg
    split
    · exact hm
    · cases a.orgs.get? id with
      | none => exact hm
      | some ex =>
        have f := cascadeOrg_tok a id
        exact hm.congr f.1 f.2.1 f.2.2
  · apply hm.congr <;> (simp only [auStep]; unfold applyCreateTeam; repeat' split) <;> rfl
  · apply hm.congr <;> (simp only [auStep]; unfold applyUpdateTeam; repeat' split) <;> rfl
  · rename_i id
    simp only [auStep]
    unfold applyDeleteTeam
    split
    · exact hm
    · cases a.teams.get? id with
      | none => exact hm
      | some ex =>
        have f := cascadeTeam_tok a id
        exact hm.congr f.1 f.2.1 f.2.2
  · apply hm.congr <;> (simp only [auStep]; unfold applyCreateRole; repeat' split) <;> rfl
  · apply hm.congr <;> (simp only [auStep]; unfold applyUpdateRole; repeat' split) <;> rfl
  · rename_i id
    simp only [auStep]
    unfold applyDeleteRole
    split
    · exact hm
    · cases a.roles.get? id with
      | none => exact hm
      | some ex => exact hm.congr rfl rfl rfl
  · apply hm.congr <;> (simp only [auStep]; unfold applyCreateMPerm; repeat' split) <;> rfl
  · apply hm.congr <;> (simp only [auStep]; unfold applyDeleteMPerm; repeat' split) <;> rfl
  · apply hm.congr <;> (simp only [auStep]; unfold applyAddMember; repeat' split) <;> rfl
  · apply hm.congr <;> (simp only [auStep]; unfold applyRemoveMember; repeat' split) <;> rfl

/-! ### restore is the identity on the token part -/

theorem restoreTokens_id {a : AuthSt} {n : Int} (h : TokInv a n) : restoreTokens a.tokens = a.tokens := by
  unfold restoreTokens
  apply List.filter_eq_self.mpr
  intro x hx
  obtain ⟨k, e⟩ := x
  exact h.valid k e (mem_get?_of_sorted h.st hx)

/-- keys of a sorted list are pairwise distinct -/
theorem sorted_keys_distinct {V : Type} {l : SMap Int V} (h : Sorted l) :
    l.Pairwise (fun p q => p.1 ≠ q.1) := by
  apply List.Pairwise.imp _ h
  intro p q hlt he
  rw [he, LOrd.irrefl] at hlt
  exact absurd hlt (by simp)

def nameStep (acc : SMap String Int) (p : Int × TokenEntry) : SMap String Int := acc.ins p.2.name p.1

theorem foldl_nameStep_keep (l : List (Int × TokenEntry)) (acc : SMap String Int) (nm : String)
    (hno : ∀ p ∈ l, p.2.name ≠ nm) : (l.foldl nameStep acc).get? nm = acc.get? nm := by
  induction l generalizing acc with
  | nil => rfl
  | cons q t ih =>
    simp only [List.foldl_cons]
    rw [ih _ (fun p hp => hno p (List.mem_cons_of_mem _ hp))]
    unfold nameStep
    rw [get?_ins, if_neg (fun e => hno q List.mem_cons_self e.symm)]

theorem foldl_nameStep_mem (l : List (Int × TokenEntry)) (acc : SMap String Int)
    (hd : l.Pairwise (fun p q => q.2.name ≠ p.2.name)) (p : Int × TokenEntry) (hp : p ∈ l) :
    (l.foldl nameStep acc).get? p.2.name = some p.1 := by
  induction l generalizing acc with
  | nil => simp at hp
  | cons q t ih =>
    have ⟨hq, ht⟩ := List.pairwise_cons.mp hd
    simp only [List.foldl_cons]
    rcases List.mem_cons.mp hp with hp | hp
    · subst hp
      rw [foldl_nameStep_keep _ _ _ (fun x hx => hq x hx)]
      unfold nameStep; rw [get?_ins_self]
    · exact ih _ ht hp

theorem sorted_foldl_nameStep (l : List (Int × TokenEntry)) (acc : SMap String Int) (h : Sorted acc) :
    Sorted (l.foldl nameStep acc) := by
  induction l generalizing acc with
  | nil => exact h
  | cons q t ih => exact ih _ (sorted_ins h)

theorem names_distinct {a : AuthSt} {n : Int} (h : TokInv a n) :
    a.tokens.Pairwise (fun p q => q.2.name ≠ p.2.name) := by
  have hk := sorted_keys_distinct h.st
  have : ∀ p ∈ a.tokens, ∀ q ∈ a.tokens, p.1 ≠ q.1 → q.2.name ≠ p.2.name := by
    intro p hp q hq hne he
    have h1 := h.n2 p.1 p.2 (mem_get?_of_sorted h.st hp)
    have h2 := h.n2 q.1 q.2 (mem_get?_of_sorted h.st hq)
    rw [he, h1] at h2
    exact hne (Option.some.inj h2)
  exact List.Pairwise.imp_of_mem (fun hp hq hne => this _ hp _ hq hne) hk

theorem rebuildByName_id {a : AuthSt} {n : Int} (h : TokInv a n) : rebuildByName a.tokens = a.byName := by
  apply ext (sorted_foldl_nameStep _ _ sorted_nil) h.sn
  intro nm
  show (a.tokens.foldl nameStep []).get? nm = _
  cases hb : a.byName.get? nm with
  | some id =>
    obtain ⟨e, he, hen⟩ := h.n1 nm id hb
    have := foldl_nameStep_mem a.tokens [] (names_distinct h) (id, e) (get?_some_mem he)
    simp only at this
    rw [hen] at this; exact this
  | none =>
    rw [foldl_nameStep_keep]
    · rfl
    · intro p hp he
      have := h.n2 p.1 p.2 (mem_get?_of_sorted h.st hp)
      rw [he, hb] at this; exact absurd this (by simp)

def pfxStep (acc : SMap String (List Int)) (p : Int × TokenEntry) : SMap String (List Int) :=
  prefixAdd acc p.2.pfx p.1

theorem foldl_pfxStep_spec (l : List (Int × TokenEntry)) (acc : SMap String (List Int))
    (hs : Sorted acc) (hne : NoEmptySlice acc) (hso : ∀ p, SSorted (pl acc p))
    (hd : l.Pairwise (fun p q => p.1 ≠ q.1))
    (hfresh : ∀ p x, x ∈ pl acc p → ∀ q ∈ l, q.1 ≠ x) :
    Sorted (l.foldl pfxStep acc) ∧ NoEmptySlice (l.foldl pfxStep acc) ∧
    (∀ p, SSorted (pl (l.foldl pfxStep acc) p)) ∧
    (∀ p x, x ∈ pl (l.foldl pfxStep acc) p ↔ (x ∈ pl acc p ∨ ∃ e, (x, e) ∈ l ∧ e.pfx = p)) := by
  induction l generalizing acc with
  | nil => exact ⟨hs, hne, hso, fun p x => by simp⟩
  | cons q t ih =>
    have ⟨hq, ht⟩ := List.pairwise_cons.mp hd
    simp only [List.foldl_cons]
    have hmem : ∀ p x, x ∈ pl (pfxStep acc q) p ↔ (x ∈ pl acc p ∨ (x = q.1 ∧ p = q.2.pfx)) := by
      intro p x
      unfold pfxStep
      rw [pl_prefixAdd]
      by_cases hp : p = q.2.pfx
      · rw [if_pos hp, mem_msIns, hp]
        constructor
        · rintro (h1 | h1)
          · exact Or.inr ⟨h1, rfl⟩
          · exact Or.inl h1
        · rintro (h1 | ⟨h1, _⟩)
          · exact Or.inr h1
          · exact Or.inl h1
      · rw [if_neg hp]
        constructor
        · intro h1; exact Or.inl h1
        · rintro (h1 | ⟨_, h1⟩)
          · exact h1
          · exact absurd h1 hp
    have step := ih (pfxStep acc q) (sorted_prefixAdd hs _ _) (noEmpty_prefixAdd hne _ _)
      (by
        intro p
        unfold pfxStep
        rw [pl_prefixAdd]
        by_cases hp : p = q.2.pfx
        · simp only [hp, if_true]
          apply ssorted_msIns (hso _)
          intro hm
          exact hfresh _ _ hm q List.mem_cons_self rfl
        · simp only [hp, if_false]; exact hso p)
      ht
      (by
        intro p x hx r hr
        rcases (hmem p x).mp hx with h1 | ⟨h1, _⟩
        · exact hfresh p x h1 r (List.mem_cons_of_mem _ hr)
        · rw [h1]; exact fun e => hq r hr e.symm)
    obtain ⟨s1, s2, s3, s4⟩ := step
    refine ⟨s1, s2, s3, ?_⟩
    intro p x
    rw [s4 p x, hmem p x]
    constructor
    · rintro ((h1 | ⟨h1, h2⟩) | ⟨e, he, hep⟩)
      · exact Or.inl h1
      · exact Or.inr ⟨q.2, by rw [h1]; exact List.mem_cons_self, h2.symm⟩
      · exact Or.inr ⟨e, List.mem_cons_of_mem _ he, hep⟩
    · rintro (h1 | ⟨e, he, hep⟩)
      · exact Or.inl (Or.inl h1)
      · rcases List.mem_cons.mp he with he | he
        · left; right
          rw [← he]; exact ⟨rfl, hep.symm⟩
        · exact Or.inr ⟨e, he, hep⟩

theorem rebuildByPrefix_id {a : AuthSt} {n : Int} (h : TokInv a n) :
    rebuildByPrefix a.tokens = a.byPrefix := by
  have sp := foldl_pfxStep_spec a.tokens [] sorted_nil (fun p l hl => by simp at hl)
    (fun p => by simp [pl, SSorted]) (sorted_keys_distinct h.st) (fun p x hx => by simp [pl] at hx)
  obtain ⟨s1, s2, s3, s4⟩ := sp
  apply byPrefix_ext s1 h.sp s2 h.pne s3 h.pso
  intro p x
  show x ∈ pl (a.tokens.foldl pfxStep []) p ↔ _
  rw [s4 p x, h.pm p x]
  constructor
  · rintro (h1 | ⟨e, he, hep⟩)
    · simp [pl] at h1
    · exact ⟨e, mem_get?_of_sorted h.st he, hep⟩
  · rintro ⟨e, he, hep⟩
    exact Or.inr ⟨e, get?_some_mem he, hep⟩

/-- `Restore` reproduces the token part of a state that satisfies the invariant -/
theorem restoreAu_tok {s : State} {n : Int} (h : TokInv s.au n) :
    (restoreAu (snapshot s)).tokens = s.au.tokens ∧ (restoreAu (snapshot s)).byName = s.au.byName ∧
    (restoreAu (snapshot s)).byPrefix = s.au.byPrefix := by
  have e : restoreTokens (snapshot s).tokens = s.au.tokens := restoreTokens_id h
  refine ⟨e, ?_, ?_⟩
  · show rebuildByName (restoreTokens (snapshot s).tokens) = _
    rw [e]; exact rebuildByName_id h
  · show rebuildByPrefix (restoreTokens (snapshot s).tokens) = _
    rw [e]; exact rebuildByPrefix_id h

/-- the bound after a history: one more than the last command index (or the initial bound) -/
def nextIdx (lo : Nat) : List Ev → Nat
  | [] => lo
  | .cmd i _ :: es => nextIdx (i + 1) es
  | .restore :: es => nextIdx lo es

theorem tokInv_runEv (s : State) (lo : Nat) (evs : List Ev) (h : TokInv s.au (lo : Int))
    (hinc : idxIncreasing lo evs = true) : TokInv (runEv s evs).au (nextIdx lo evs : Nat) := by
  induction evs generalizing s lo with
  | nil => exact h
  | cons e es ih =>
    cases e with
    | cmd i c =>
      simp only [idxIncreasing, Bool.and_eq_true, decide_eq_true_eq] at hinc
      simp only [runEv, stepEv, nextIdx]
      apply ih _ _ _ hinc.2
      rw [apply_au]
      have := tokInv_step h i (by omega) c
      simpa using this
    | restore =>
      simp only [idxIncreasing] at hinc
      simp only [runEv, stepEv, nextIdx]
      apply ih _ _ _ hinc
      have f := restoreAu_tok h
      exact h.congr f.1 f.2.1 f.2.2

end Arc.C22
