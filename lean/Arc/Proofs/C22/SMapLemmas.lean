import Arc.Model.C22.SMap
/-! Generic lemmas about sorted association lists (helper lemmas for C22/C23; core Lean only). -/
set_option linter.unusedSectionVars false
set_option linter.unusedSimpArgs false
namespace Arc.C22
namespace SMap
variable {K V : Type} [DecidableEq K] [LOrd K]

@[simp] theorem get?_nil (k : K) : get? ([] : SMap K V) k = none := rfl

theorem get?_cons (a : K) (b : V) (t : SMap K V) (k : K) :
    get? ((a, b) :: t) k = if k = a then some b else get? t k := rfl

theorem get?_ins_self (k : K) (v : V) (m : SMap K V) : get? (ins k v m) k = some v := by
  induction m with
  | nil => simp [ins, get?]
  | cons p t ih =>
    obtain ⟨a, b⟩ := p
    unfold ins
    by_cases h1 : LOrd.lt k a = true
    · simp [h1, get?]
    · by_cases h2 : k = a
      · subst h2; simp [LOrd.irrefl, get?]
      · simp [h1, h2, get?, ih]

theorem get?_ins_ne (k k' : K) (v : V) (m : SMap K V) (h : k' ≠ k) :
    get? (ins k v m) k' = get? m k' := by
  induction m with
  | nil => simp [ins, get?, h]
  | cons p t ih =>
    obtain ⟨a, b⟩ := p
    unfold ins
    by_cases h1 : LOrd.lt k a = true
    · simp [h1, get?, h]
    · by_cases h2 : k = a
      · subst h2; simp [h1, get?, h]
      · simp only [h1, h2, if_false, Bool.false_eq_true]
        simp only [get?]
        by_cases h3 : k' = a
        · simp [h3]
        · simp [h3, ih]

theorem get?_ins (k k' : K) (v : V) (m : SMap K V) :
    get? (ins k v m) k' = if k' = k then some v else get? m k' := by
  by_cases h : k' = k
  · subst h; simp [get?_ins_self]
  · simp [h, get?_ins_ne _ _ _ _ h]

theorem get?_del_self (k : K) (m : SMap K V) : get? (del k m) k = none := by
  induction m with
  | nil => rfl
  | cons p t ih =>
    obtain ⟨a, b⟩ := p
    unfold del
    by_cases h : k = a
    · simp [h]; subst h; exact ih
    · simp [h, get?, ih]

theorem get?_del_ne (k k' : K) (m : SMap K V) (h : k' ≠ k) : get? (del k m) k' = get? m k' := by
  induction m with
  | nil => rfl
  | cons p t ih =>
    obtain ⟨a, b⟩ := p
    unfold del
    by_cases h1 : k = a
    · subst h1; simp [get?, h, ih]
    · simp only [h1, if_false, get?]
      by_cases h2 : k' = a
      · simp [h2]
      · simp [h2, ih]

theorem get?_del (k k' : K) (m : SMap K V) :
    get? (del k m) k' = if k' = k then none else get? m k' := by
  by_cases h : k' = k
  · subst h; simp [get?_del_self]
  · simp [h, get?_del_ne _ _ _ h]

theorem has_ins (k k' : K) (v : V) (m : SMap K V) :
    has (ins k v m) k' = (decide (k' = k) || has m k') := by
  unfold has; rw [get?_ins]; by_cases h : k' = k <;> simp [h]

theorem has_del (k k' : K) (m : SMap K V) :
    has (del k m) k' = (!decide (k' = k) && has m k') := by
  unfold has; rw [get?_del]; by_cases h : k' = k <;> simp [h]

/-! ### membership -/

theorem mem_ins {k : K} {v : V} {m : SMap K V} {p : K × V} (h : p ∈ ins k v m) :
    p = (k, v) ∨ p ∈ m := by
  induction m with
  | nil => simp [ins] at h; exact Or.inl h
  | cons q t ih =>
    obtain ⟨a, b⟩ := q
    unfold ins at h
    by_cases h1 : LOrd.lt k a = true
    · simp only [h1, if_true] at h
      rcases List.mem_cons.mp h with h | h
      · exact Or.inl h
      · exact Or.inr h
    · by_cases h2 : k = a
      · subst h2
        simp only [LOrd.irrefl, if_true, if_false, Bool.false_eq_true] at h
        rcases List.mem_cons.mp h with h | h
        · exact Or.inl h
        · exact Or.inr (List.mem_cons_of_mem _ h)
      · simp only [h1, h2, if_false, Bool.false_eq_true] at h
        rcases List.mem_cons.mp h with h | h
        · exact Or.inr (by rw [h]; exact List.mem_cons_self)
        · rcases ih h with h | h
          · exact Or.inl h
          · exact Or.inr (List.mem_cons_of_mem _ h)

theorem mem_del {k : K} {m : SMap K V} {p : K × V} (h : p ∈ del k m) : p ∈ m ∧ p.1 ≠ k := by
  induction m with
  | nil => simp [del] at h
  | cons q t ih =>
    obtain ⟨a, b⟩ := q
    unfold del at h
    by_cases h1 : k = a
    · simp only [h1, if_true] at h
      have := ih (by rw [h1]; exact h)
      exact ⟨List.mem_cons_of_mem _ this.1, this.2⟩
    · simp only [h1, if_false] at h
      rcases List.mem_cons.mp h with h | h
      · rw [h]; exact ⟨List.mem_cons_self, fun hh => h1 hh.symm⟩
      · have := ih h
        exact ⟨List.mem_cons_of_mem _ this.1, this.2⟩

theorem get?_some_mem {m : SMap K V} {k : K} {v : V} (h : get? m k = some v) : (k, v) ∈ m := by
  induction m with
  | nil => simp at h
  | cons q t ih =>
    obtain ⟨a, b⟩ := q
    rw [get?_cons] at h
    by_cases h1 : k = a
    · simp [h1] at h; subst h1; subst h; exact List.mem_cons_self
    · simp [h1] at h; exact List.mem_cons_of_mem _ (ih h)

/-! ### sortedness -/

theorem sorted_nil : Sorted ([] : SMap K V) := List.Pairwise.nil

theorem sorted_cons {a : K} {b : V} {t : SMap K V} :
    Sorted ((a, b) :: t) ↔ (∀ p ∈ t, LOrd.lt a p.1 = true) ∧ Sorted t := by
  unfold Sorted; exact List.pairwise_cons

theorem get?_none_of_lt {t : SMap K V} {a k : K} (hall : ∀ p ∈ t, LOrd.lt a p.1 = true)
    (hk : LOrd.lt k a = true ∨ k = a) : get? t k = none := by
  induction t with
  | nil => rfl
  | cons q t ih =>
    obtain ⟨c, d⟩ := q
    rw [get?_cons]
    have hac : LOrd.lt a c = true := hall (c, d) List.mem_cons_self
    have hne : k ≠ c := by
      intro h; subst h
      rcases hk with hk | hk
      · have := LOrd.trans _ _ _ hk hac
        rw [LOrd.irrefl] at this; exact absurd this (by simp)
      · subst hk; rw [LOrd.irrefl] at hac; exact absurd hac (by simp)
    simp only [hne, if_false]
    exact ih (fun p hp => hall p (List.mem_cons_of_mem _ hp))

theorem sorted_ins {k : K} {v : V} {m : SMap K V} (h : Sorted m) : Sorted (ins k v m) := by
  induction m with
  | nil => unfold ins Sorted; simp
  | cons q t ih =>
    obtain ⟨a, b⟩ := q
    have ⟨hall, ht⟩ := sorted_cons.mp h
    unfold ins
    by_cases h1 : LOrd.lt k a = true
    · simp only [h1, if_true]
      refine sorted_cons.mpr ⟨?_, h⟩
      intro p hp
      rcases List.mem_cons.mp hp with hp | hp
      · rw [hp]; exact h1
      · exact LOrd.trans _ _ _ h1 (hall p hp)
    · by_cases h2 : k = a
      · subst h2
        simp only [LOrd.irrefl, if_true, if_false, Bool.false_eq_true]
        exact sorted_cons.mpr ⟨hall, ht⟩
      · simp only [h1, h2, if_false, Bool.false_eq_true]
        refine sorted_cons.mpr ⟨?_, ih ht⟩
        intro p hp
        rcases mem_ins hp with hp | hp
        · rw [hp]
          rcases LOrd.tri k a with h3 | h3 | h3
          · exact absurd h3 h1
          · exact absurd h3 h2
          · exact h3
        · exact hall p hp

theorem sorted_del {k : K} {m : SMap K V} (h : Sorted m) : Sorted (del k m) := by
  induction m with
  | nil => exact sorted_nil
  | cons q t ih =>
    obtain ⟨a, b⟩ := q
    have ⟨hall, ht⟩ := sorted_cons.mp h
    unfold del
    by_cases h1 : k = a
    · simp only [h1, if_true]; rw [← h1]; exact ih ht
    · simp only [h1, if_false]
      exact sorted_cons.mpr ⟨fun p hp => hall p (mem_del hp).1, ih ht⟩

theorem sorted_filter {m : SMap K V} (f : K × V → Bool) (h : Sorted m) : Sorted (m.filter f) :=
  List.Pairwise.filter f h

/-- in a sorted map, membership is lookup -/
theorem mem_get?_of_sorted {m : SMap K V} (h : Sorted m) {k : K} {v : V} (hm : (k, v) ∈ m) :
    get? m k = some v := by
  induction m with
  | nil => simp at hm
  | cons q t ih =>
    obtain ⟨a, b⟩ := q
    have ⟨hall, ht⟩ := sorted_cons.mp h
    rw [get?_cons]
    rcases List.mem_cons.mp hm with hm | hm
    · simp only [Prod.mk.injEq] at hm; simp [hm.1, hm.2]
    · have hlt := hall _ hm
      have hne : k ≠ a := by
        intro hh; subst hh; simp at hlt; rw [LOrd.irrefl] at hlt; exact absurd hlt (by simp)
      simp only [hne, if_false]; exact ih ht hm

/-- canonical form: sorted maps with the same lookups are equal -/
theorem ext {m1 m2 : SMap K V} (h1 : Sorted m1) (h2 : Sorted m2)
    (h : ∀ k, get? m1 k = get? m2 k) : m1 = m2 := by
  induction m1 generalizing m2 with
  | nil =>
    cases m2 with
    | nil => rfl
    | cons q t =>
      obtain ⟨a, b⟩ := q
      have := h a
      simp [get?_cons] at this
  | cons q1 t1 ih =>
    obtain ⟨a1, b1⟩ := q1
    cases m2 with
    | nil =>
      have := h a1
      simp [get?_cons] at this
    | cons q2 t2 =>
      obtain ⟨a2, b2⟩ := q2
      have ⟨hall1, ht1⟩ := sorted_cons.mp h1
      have ⟨hall2, ht2⟩ := sorted_cons.mp h2
      have ha : a1 = a2 := by
        rcases LOrd.tri a1 a2 with hlt | heq | hgt
        · have e := h a1
          rw [get?_cons, get?_cons] at e
          have hne : a1 ≠ a2 := by
            intro hh; subst hh; rw [LOrd.irrefl] at hlt; exact absurd hlt (by simp)
          simp only [if_true, hne, if_false] at e
          rw [get?_none_of_lt hall2 (Or.inl hlt)] at e
          exact absurd e (by simp)
        · exact heq
        · have e := h a2
          rw [get?_cons, get?_cons] at e
          have hne : a2 ≠ a1 := by
            intro hh; subst hh; rw [LOrd.irrefl] at hgt; exact absurd hgt (by simp)
          simp only [if_true, hne, if_false] at e
          rw [get?_none_of_lt hall1 (Or.inl hgt)] at e
          exact absurd e.symm (by simp)
      subst ha
      have hb : b1 = b2 := by
        have e := h a1
        simp [get?_cons] at e
        exact e
      subst hb
      have htl : t1 = t2 := by
        apply ih ht1 ht2
        intro k
        by_cases hk : k = a1
        · subst hk
          rw [get?_none_of_lt hall1 (Or.inr rfl), get?_none_of_lt hall2 (Or.inr rfl)]
        · have e := h k
          simp only [get?_cons, hk, if_false] at e
          exact e
      rw [htl]

theorem isEmpty_iff {m : SMap K V} : m.isEmpty = true ↔ ∀ k, get? m k = none := by
  cases m with
  | nil => simp
  | cons q t =>
    obtain ⟨a, b⟩ := q
    simp only [List.isEmpty_cons, Bool.false_eq_true, false_iff]
    intro h
    have := h a
    simp [get?_cons] at this

end SMap
end Arc.C22
