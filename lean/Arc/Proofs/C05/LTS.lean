import Arc.Model.C05
/-!
C05 crash part: per-row invariant of the crash/recovery LTS and its preservation by every event that the
decidable carve-out `evSafe` admits.
-/
namespace Arc.C05

/-- copies of the row that exist anywhere (stored or buffered) -/
def tot (r : RowSt) : Nat := r.s + r.sr + r.b + r.br

/-- a crash is *safe* for a row when (1) an unflushed copy is still backed by its WAL entry (queued or in a
file) and (2) a flushed copy's WAL entry is gone (purged) -/
def crashSafeRow (r : RowSt) : Bool :=
  (r.b + r.br == 0 || r.q || r.w.isSome) && (r.s + r.sr == 0 || r.w.isNone)

/-- the carve-out, one event at a time: crashes only in safe states; no WAL entry is skipped by the reader -/
def evSafe (st : St) : Ev → Bool
  | .crash => st.rows.all crashSafeRow
  | .skip _ => false
  | _ => true

def runSafe (orderOk flushFirst : Bool) : St → List Ev → Option St
  | st, [] => some st
  | st, e :: es =>
    if evSafe st e then
      match step orderOk flushFirst st e with
      | some st' => runSafe orderOk flushFirst st' es
      | none => none
    else none

structure RInv (active boot : Nat) (up : Bool) (r : RowSt) : Prop where
  wle : ∀ f, r.w = some f → f ≤ active
  qinv : r.q = true → tot r = 1 ∧ r.pers = false ∧ r.w = none ∧ up = true
  wpers : ∀ f, r.w = some f → r.pers = true
  pinv : r.pers = true → tot r = 1 ∨ (tot r = 0 ∧ ∃ f, r.w = some f ∧ (up = false ∨ (f < boot ∧ r.rp = false)))
  oinv : ∀ f, r.w = some f → f < boot → r.rp = false → tot r = 0
  dinv : up = false → r.b + r.br = 0 ∧ r.q = false ∧ ∀ f, r.w = some f → r.s + r.sr = 0

def Inv (st : St) : Prop :=
  st.boot ≤ st.active ∧ ∀ r ∈ st.rows, RInv st.active st.boot st.up r

theorem inv_init : Inv {} := by
  refine ⟨Nat.le_refl _, ?_⟩
  intro r hr
  simp at hr

/-- the generic shape of most events: the rows are mapped through `g`, the globals change -/
theorem inv_map {st : St} {a b : Nat} {u : Bool} (g : RowSt → RowSt) (hb : b ≤ a)
    (h : ∀ r ∈ st.rows, RInv st.active st.boot st.up r → RInv a b u (g r)) (hi : Inv st) :
    Inv { rows := st.rows.map g, active := a, boot := b, up := u } := by
  refine ⟨hb, ?_⟩
  intro r hr
  simp only [List.mem_map] at hr
  obtain ⟨r0, hr0, rfl⟩ := hr
  exact h r0 hr0 (hi.2 r0 hr0)

theorem old_iff (st : St) (r : RowSt) : old st r = true ↔ ∃ f, r.w = some f ∧ f < st.boot := by
  unfold old
  cases h : r.w <;> simp

theorem step_inv (ff : Bool) (st st' : St) (e : Ev) (hi : Inv st) (hs : evSafe st e = true)
    (h : step true ff st e = some st') : Inv st' := by
  obtain ⟨hba, hrows⟩ := hi
  cases e with
  | ack en rids =>
    simp only [step] at h
    split at h
    · rename_i hg
      injection h with h; subst h
      simp only [Bool.and_eq_true] at hg
      refine ⟨hba, ?_⟩
      intro r hr
      simp only [List.mem_append, List.mem_map] at hr
      rcases hr with hr | ⟨i, _, rfl⟩
      · exact hrows r hr
      · refine ⟨?_, ?_, ?_, ?_, ?_, ?_⟩ <;> simp [tot, hg.1]
    · cases h
  | persist en =>
    simp only [step] at h
    split at h
    · rename_i hg
      injection h with h; subst h
      simp only [Bool.and_eq_true] at hg
      refine inv_map _ hba ?_ ⟨hba, hrows⟩
      intro r _ hr
      by_cases hc : (r.entry == en && r.q) = true
      · simp only [hc, if_true]
        simp only [Bool.and_eq_true] at hc
        have hq := hr.qinv hc.2
        refine ⟨?_, ?_, ?_, ?_, ?_, ?_⟩
        · intro f hf; simp at hf; omega
        · intro h'; simp at h'
        · intro f _; rfl
        · intro _; left; simpa [tot] using hq.1
        · intro f hf hlt; simp at hf; omega
        · intro h'; simp [hg.1] at h'
      · simp only [hc]; exact hr
    · cases h
  | rotate =>
    simp only [step] at h
    split at h
    · injection h with h; subst h
      refine ⟨Nat.le_succ_of_le hba, ?_⟩
      intro r hr
      have := hrows r hr
      exact ⟨fun f hf => Nat.le_succ_of_le (this.wle f hf), this.qinv, this.wpers, this.pinv, this.oinv, this.dinv⟩
    · cases h
  | flush rids =>
    simp only [step] at h
    split at h
    · rename_i hg
      injection h with h; subst h
      simp only [Bool.and_eq_true] at hg
      refine inv_map _ hba ?_ ⟨hba, hrows⟩
      intro r _ hr
      by_cases hc : rids.contains r.rid = true
      · simp only [hc, if_true]
        have ht : tot { r with s := r.s + r.b, sr := r.sr + r.br, b := 0, br := 0 } = tot r := by
          simp [tot]; omega
        refine ⟨hr.wle, ?_, hr.wpers, ?_, ?_, ?_⟩
        · intro h'; rw [ht]; exact hr.qinv h'
        · intro h'; rw [ht]; exact hr.pinv h'
        · intro f hf hlt hrp; rw [ht]; exact hr.oinv f hf hlt hrp
        · intro h'; simp [hg.1] at h'
      · simp only [hc]; exact hr
    · cases h
  | purge f =>
    simp only [step] at h
    split at h
    · rename_i hg
      injection h with h; subst h
      simp only [Bool.and_eq_true, List.all_eq_true] at hg
      refine inv_map _ hba ?_ ⟨hba, hrows⟩
      intro r hmem hr
      by_cases hc : (r.w == some f) = true
      · simp only [hc, if_true]
        have hw : r.w = some f := by simpa using hc
        have hp := hg.2 r hmem
        simp [hw] at hp
        refine ⟨?_, ?_, ?_, ?_, ?_, ?_⟩
        · intro f' hf'; simp at hf'
        · intro h'
          have := (hr.qinv h').2.2.1
          simp [hw] at this
        · intro f' hf'; simp at hf'
        · intro h'
          rcases hr.pinv h' with h1 | ⟨h0, _⟩
          · left; simpa [tot] using h1
          · simp [tot] at h0; omega
        · intro f' hf'; simp at hf'
        · intro h'; simp [hg.1.1] at h'
      · simp only [hc]; exact hr
    · cases h
  | crash =>
    simp only [step] at h
    split at h
    · rename_i hg
      injection h with h; subst h
      simp only [evSafe, List.all_eq_true] at hs
      refine inv_map _ hba ?_ ⟨hba, hrows⟩
      intro r hmem hr
      have hsafe := hs r hmem
      simp only [crashSafeRow, Bool.and_eq_true, Bool.or_eq_true, beq_iff_eq, Option.isSome_iff_exists,
        Option.isNone_iff_eq_none] at hsafe
      refine ⟨hr.wle, ?_, hr.wpers, ?_, ?_, ?_⟩
      · intro h'; simp at h'
      · intro hp
        have hp' : r.pers = true := hp
        have hnq : r.q = false := by
          cases hq : r.q with
          | false => rfl
          | true => have := (hr.qinv hq).2.1; simp [hp'] at this
        rcases hr.pinv hp' with h1 | ⟨h0, f, hf, _⟩
        · by_cases hb : r.b + r.br = 0
          · left; simp [tot] at h1 ⊢; omega
          · right
            rcases hsafe.1 with (hz | hq) | ⟨f, hf⟩
            · omega
            · simp [hnq] at hq
            · rcases hsafe.2 with hz | hn
              · refine ⟨?_, f, hf, Or.inl rfl⟩
                simp [tot]; omega
              · simp [hf] at hn
        · right
          refine ⟨?_, f, hf, Or.inl rfl⟩
          simp [tot] at h0 ⊢; omega
      · intro f hf hlt hrp
        have := hr.oinv f hf hlt hrp
        simp [tot] at this ⊢; omega
      · intro _
        refine ⟨by simp, rfl, ?_⟩
        intro f hf
        rcases hsafe.2 with hz | hn
        · exact hz
        · simp at hf; simp [hf] at hn
    · cases h
  | restart =>
    simp only [step] at h
    split at h
    · rename_i hg
      injection h with h; subst h
      have hup : st.up = false := by simpa using hg
      refine inv_map _ (Nat.le_refl _) ?_ ⟨hba, hrows⟩
      intro r _ hr
      have hd := hr.dinv hup
      refine ⟨?_, ?_, hr.wpers, ?_, ?_, ?_⟩
      · intro f hf; exact Nat.le_succ_of_le (hr.wle f hf)
      · intro h'; simp [hd.2.1] at h'
      · intro hp
        rcases hr.pinv hp with h1 | ⟨h0, f, hf, _⟩
        · left; simpa [tot] using h1
        · right
          refine ⟨by simpa [tot] using h0, f, hf, Or.inr ⟨?_, rfl⟩⟩
          exact Nat.lt_succ_of_le (hr.wle f hf)
      · intro f hf _ _
        have := hd.2.2 f hf
        simp [tot]; omega
      · intro h'; simp at h'
    · cases h
  | replay en =>
    simp only [step] at h
    split at h
    · rename_i hg
      injection h with h; subst h
      simp only [Bool.and_eq_true, List.all_eq_true] at hg
      refine inv_map _ hba ?_ ⟨hba, hrows⟩
      intro r hmem hr
      by_cases hc : (r.entry == en) = true
      · simp only [hc, if_true]
        have hgr := hg.2 r hmem
        have hne : (r.entry != en) = false := by simp [bne, hc]
        simp only [hne, Bool.false_or, Bool.and_eq_true, Bool.not_eq_true'] at hgr
        obtain ⟨f, hf, hlt⟩ := (old_iff st r).1 hgr.1
        have h0 := hr.oinv f hf hlt hgr.2
        have hp := hr.wpers f hf
        refine ⟨hr.wle, ?_, hr.wpers, ?_, ?_, ?_⟩
        · intro h'
          have := (hr.qinv h').2.2.1
          simp [hf] at this
        · intro _; left; simp [tot] at h0 ⊢; omega
        · intro f' _ _ hrp; simp at hrp
        · intro h'; simp [hg.1.1] at h'
      · simp only [hc]; exact hr
    · cases h
  | skip en => simp [evSafe] at hs
  | fail en =>
    simp only [step] at h
    split at h
    · injection h with h; subst h; exact ⟨hba, hrows⟩
    · cases h
  | delete f =>
    simp only [step] at h
    split at h
    · rename_i hg
      injection h with h; subst h
      simp only [deleteGuard, Bool.and_eq_true, List.all_eq_true] at hg
      refine inv_map _ hba ?_ ⟨hba, hrows⟩
      intro r hmem hr
      by_cases hc : (r.w == some f) = true
      · simp only [hc, if_true]
        have hw : r.w = some f := by simpa using hc
        have hgr := hg.2 r hmem
        simp [hw] at hgr
        have hflt : f < st.boot := by simpa using hg.1.2
        refine ⟨?_, ?_, ?_, ?_, ?_, ?_⟩
        · intro f' hf'; simp at hf'
        · intro h'
          have := (hr.qinv h').2.2.1
          simp [hw] at this
        · intro f' hf'; simp at hf'
        · intro hp
          rcases hr.pinv hp with h1 | ⟨_, f', hf', hcase⟩
          · left; simpa [tot] using h1
          · rcases hcase with hu | ⟨_, hrp⟩
            · simp [hg.1.1] at hu
            · simp [hgr.1] at hrp
        · intro f' hf'; simp at hf'
        · intro h'; simp [hg.1.1] at h'
      · simp only [hc]; exact hr
    · cases h

theorem runSafe_inv (ff : Bool) : ∀ (evs : List Ev) (st st' : St), Inv st →
    runSafe true ff st evs = some st' → Inv st'
  | [], st, st', hi, h => by
    simp [runSafe] at h; subst h; exact hi
  | e :: es, st, st', hi, h => by
    simp only [runSafe] at h
    split at h
    · rename_i hs
      split at h
      · rename_i st1 hst
        exact runSafe_inv ff es st1 st' (step_inv ff st st1 e hi hs hst) h
      · cases h
    · cases h

/-- recovery finished and everything flushed: the process is up, nothing is buffered or queued, and no WAL
file from before this incarnation is left -/
def quiescent (st : St) : Bool :=
  st.up && st.rows.all fun r => r.b + r.br == 0 && !r.q && !old st r

theorem quiescent_once (st : St) (hi : Inv st) (hq : quiescent st = true) :
    ∀ r ∈ st.rows, r.pers = true → r.s + r.sr = 1 := by
  intro r hr hp
  simp only [quiescent, Bool.and_eq_true, List.all_eq_true] at hq
  have hrow := hq.2 r hr
  simp only [beq_iff_eq, Bool.not_eq_true'] at hrow
  have hinv := hi.2 r hr
  rcases hinv.pinv hp with h1 | ⟨_, f, hf, hcase⟩
  · simp [tot] at h1; omega
  · rcases hcase with hu | ⟨hlt, _⟩
    · simp [hq.1] at hu
    · have : old st r = true := (old_iff st r).2 ⟨f, hf, hlt⟩
      simp [this] at hrow

end Arc.C05
