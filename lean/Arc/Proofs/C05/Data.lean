import Arc.Model.C05
/-!
C05 data part: replaying the WAL entry of a unit gives the rows the live path stored, inside the decidable
carve-outs `carveRaw` / `carveRows`.
-/
namespace Arc.C05
open Arc.Generated.C05

/-! ## facts about the regenerated key lists (closed; re-checked whenever the source changes) -/

theorem measKeys_head : measKeys = walMeasKey :: measKeys.tail := by decide
theorem dbKeys_head : dbKeys = walDbKey :: dbKeys.tail := by decide
theorem walKeys_removed : removedKeys.contains walDbKey = true ∧ removedKeys.contains walMeasKey = true := by decide
theorem walKeys_ne : (walMeasKey == walDbKey) = false := by decide

/-! ## the carve-outs -/

/-- a microsecond timestamp on which `normalizeTimestampColumns` is the identity -/
def usStable (t : Int) : Bool :=
  multOf t == 1 && decide (-9223372036854775808 ≤ t) && decide (t < 9223372036854775808)

def stableVal : Val → Bool
  | .int t => usStable t
  | _ => false

def nodupKeys : List Str → Bool
  | [] => true
  | k :: ks => !ks.contains k && nodupKeys ks

/-- row-format WAL entries (line protocol, MessagePack rows, nested columnar) -/
def carveRows (san : Str → Str) (db meas : Str) (cols : Cols) : Bool :=
  db != [] && meas != [] &&
  nodupKeys (cols.map (·.1)) &&
  cols.all (fun p => !removedKeys.contains p.1) &&
  cols.all (fun p => p.2.length == numRows cols) &&
  (match cols.lookup kTime with
   | some tc => tc.all stableVal
   | none => false) &&
  cols.all (fun p => p.2.all fun v => sanVal san v == v)

/-- raw WAL entries (top-level MessagePack columnar) -/
def carveRaw (db : Str) (m : MVal) (cols : Cols) : Bool :=
  db != [] && (match m with | .str _ => true | _ => false) && hasKey kTime cols

def carve (san : Str → Str) : Req → Bool
  | .raw db m cols => carveRaw db m cols
  | .pcol db meas cols => carveRows san db meas cols
  | .rgrp db meas pts => carveRows san db meas (rowsToColumnar pts)

/-! ## raw entries -/

theorem ingestCols_now_irrel (san : Str → Str) (n1 n2 : Int) (db meas : Str) (cols : Cols)
    (h : hasKey kTime cols = true) : ingestCols san n1 db meas cols = ingestCols san n2 db meas cols := by
  unfold ingestCols
  cases cols with
  | nil => rfl
  | cons p rest => simp only [h, if_true]

/-! ## row entries -/

theorem nodupKeys_cons {k : Str} {ks : List Str} (h : nodupKeys (k :: ks) = true) :
    ks.contains k = false ∧ nodupKeys ks = true := by
  simpa [nodupKeys] using h

theorem recSet_fresh (r : Rec) (k : Str) (v : Val) (h : ∀ q ∈ r, q.1 ≠ k) : recSet r k v = r ++ [(k, v)] := by
  unfold recSet
  have : r.any (fun p => p.1 == k) = false := by
    simp only [List.any_eq_false]
    intro q hq
    simpa using h q hq
  simp [this]

theorem setAll_fresh : ∀ (kvs : List (Str × Val)) (r : Rec), nodupKeys (kvs.map (·.1)) = true →
    (∀ p ∈ kvs, ∀ q ∈ r, q.1 ≠ p.1) → setAll r kvs = r ++ kvs
  | [], r, _, _ => by simp [setAll]
  | p :: ps, r, hnd, hdis => by
    have hnd' := nodupKeys_cons (by simpa using hnd)
    have h1 : recSet r p.1 p.2 = r ++ [(p.1, p.2)] :=
      recSet_fresh r p.1 p.2 (fun q hq => hdis p (List.mem_cons_self ..) q hq)
    have ih := setAll_fresh ps (r ++ [(p.1, p.2)]) hnd'.2 (by
      intro p' hp' q hq
      simp only [List.mem_append, List.mem_singleton] at hq
      rcases hq with hq | hq
      · exact hdis p' (List.mem_cons_of_mem _ hp') q hq
      · subst hq
        intro heq
        have hc : ((ps.map (·.1)).contains p.1) = true := by
          simp only [List.contains_eq_mem, List.mem_map, decide_eq_true_eq]
          exact ⟨p', hp', heq.symm⟩
        rw [hnd'.1] at hc
        cases hc)
    have hstep : setAll r (p :: ps) = setAll (recSet r p.1 p.2) ps := rfl
    rw [hstep, h1, ih]
    simp

theorem lookup_map_snd {β γ : Type} (g : Str → β → γ) (k : Str) :
    ∀ (l : List (Str × β)), (l.map fun p => (p.1, g p.1 p.2)).lookup k = (l.lookup k).map (g k)
  | [] => rfl
  | (a, b) :: l => by
    simp only [List.map_cons, List.lookup_cons]
    cases h : (k == a)
    · simpa using lookup_map_snd g k l
    · have : k = a := by simpa using h
      subst this; simp

theorem lookup_mem : ∀ (l : List (Str × List Val)) (k : Str) (v : List Val), l.lookup k = some v → (k, v) ∈ l
  | [], _, _, h => by simp at h
  | (a, b) :: l, k, v, h => by
    simp only [List.lookup_cons] at h
    cases hk : (k == a)
    · simp only [hk] at h
      exact List.mem_cons_of_mem _ (lookup_mem l k v h)
    · simp only [hk] at h
      have : k = a := by simpa using hk
      subst this
      simp at h; subst h
      exact List.mem_cons_self ..

theorem lookup_unique : ∀ (l : List (Str × List Val)) (k : Str) (v v' : List Val),
    nodupKeys (l.map (·.1)) = true → l.lookup k = some v → (k, v') ∈ l → v' = v
  | [], _, _, _, _, h, _ => by simp at h
  | (a, b) :: l, k, v, v', hnd, h, hm => by
    have hnd' := nodupKeys_cons (by simpa using hnd)
    simp only [List.lookup_cons] at h
    cases hk : (k == a)
    · simp only [hk] at h
      rcases List.mem_cons.1 hm with heq | hm'
      · have : k = a := by injection heq
        simp [this] at hk
      · exact lookup_unique l k v v' hnd'.2 h hm'
    · simp only [hk] at h
      have hka : k = a := by simpa using hk
      subst hka
      simp at h; subst h
      rcases List.mem_cons.1 hm with heq | hm'
      · injection heq with _ h2
      · exfalso
        have hc : ((l.map (·.1)).contains k) = true := by
          simp only [List.contains_eq_mem, List.mem_map, decide_eq_true_eq]
          exact ⟨(k, v'), hm', rfl⟩
        rw [hnd'.1] at hc
        cases hc

theorem setCol_same (cols : Cols) (k : Str) (vs : List Val) (hnd : nodupKeys (cols.map (·.1)) = true)
    (h : cols.lookup k = some vs) : setCol k vs cols = cols := by
  unfold setCol
  conv => rhs; rw [← List.map_id cols]
  apply List.map_congr_left
  intro p hp
  by_cases hk : p.1 = k
  · simp only [hk, if_true, id]
    have : p.2 = vs := lookup_unique cols k vs p.2 hnd h (by rw [← hk]; exact hp)
    rw [← this, ← hk]
  · simp [hk]

theorem seqRows_map_ok {α : Type} (f : α → R) (g : α → Row) :
    ∀ (l : List α), (∀ x ∈ l, f x = .ok [g x]) → seqRows (l.map f) = .ok (l.map g)
  | [], _ => rfl
  | x :: xs, h => by
    have h1 := h x (List.mem_cons_self ..)
    have ih := seqRows_map_ok f g xs (fun y hy => h y (List.mem_cons_of_mem _ hy))
    simp only [List.map_cons, seqRows, h1, ih]
    rfl

theorem getD_mem (l : List Val) (i : Nat) (hi : i < l.length) : l.getD i .null ∈ l := by
  simp only [List.getD, List.getElem?_eq_getElem hi, Option.getD_some]
  exact List.getElem_mem hi

theorem getD_oob (l : List Val) (i : Nat) (hi : ¬ i < l.length) : l.getD i .null = .null := by
  simp only [List.getD, List.getElem?_eq_none (Nat.le_of_not_lt hi), Option.getD_none]

theorem valueColOk_getD (vs : List Val) (i : Nat) (h : valueColOk vs = true) :
    valueColOk [vs.getD i .null] = true := by
  by_cases hi : i < vs.length
  · have hmem : vs.getD i .null ∈ vs := getD_mem vs i hi
    generalize vs.getD i .null = v at hmem
    unfold valueColOk at h
    cases hf : firstNonNull vs with
    | none =>
      -- all null
      have hall : ∀ (l : List Val), firstNonNull l = none → ∀ x ∈ l, x = .null := by
        intro l
        induction l with
        | nil => intro _ x hx; simp at hx
        | cons a t ih =>
          intro hfn x hx
          cases a <;> simp [firstNonNull] at hfn
          rcases List.mem_cons.1 hx with rfl | hx'
          · rfl
          · exact ih hfn x hx'
      have := hall vs hf v hmem
      subst this
      simp [valueColOk, firstNonNull]
    | some v0 =>
      simp only [hf] at h
      cases hk : kindOf v0 with
      | none => simp [hk] at h
      | some k =>
        simp only [hk, List.all_eq_true] at h
        have hv := h v hmem
        cases v <;> simp [valueColOk, firstNonNull, kindOf] at hv ⊢
  · rw [getD_oob vs i hi]
    simp [valueColOk, firstNonNull]

theorem mem_of_all_stable (tc : List Val) (i : Nat) (hi : i < tc.length) (h : tc.all stableVal = true) :
    ∃ t, tc.getD i .null = .int t ∧ usStable t = true := by
  have hmem : tc.getD i .null ∈ tc := getD_mem tc i hi
  have := (List.all_eq_true.1 h) _ hmem
  generalize tc.getD i .null = v at this
  cases v <;> simp [stableVal] at this
  exact ⟨_, rfl, this⟩

theorem normOne_stable (t : Int) (h : usStable t = true) : normOne (multOf t) t = t := by
  simp only [usStable, Bool.and_eq_true, beq_iff_eq, decide_eq_true_eq] at h
  obtain ⟨⟨hm, h1⟩, h2⟩ := h
  simp only [normOne, hm, wrap64]
  omega


theorem hasKey_of_lookup (cols : Cols) (k : Str) (v : List Val) (h : cols.lookup k = some v) :
    hasKey k cols = true := by
  unfold hasKey
  simp only [List.any_eq_true]
  exact ⟨(k, v), lookup_mem cols k v h, by simp⟩

theorem mkRec_eq (db meas : Str) (cols : Cols) (i : Nat)
    (hnd : nodupKeys (cols.map (·.1)) = true)
    (hres : ∀ p ∈ cols, removedKeys.contains p.1 = false) :
    mkRec db meas cols i =
      [(walDbKey, .str db), (walMeasKey, .str meas)] ++ cols.map (fun p => (p.1, p.2.getD i .null)) := by
  unfold mkRec
  apply setAll_fresh
  · have : (cols.map fun p => (p.1, p.2.getD i Val.null)).map (·.1) = cols.map (·.1) := by
      simp [List.map_map]
    rw [this]; exact hnd
  · intro p' hp' q hq
    simp only [List.mem_map] at hp'
    obtain ⟨p, hp, rfl⟩ := hp'
    have hr := hres p hp
    simp only [List.mem_cons, List.mem_nil_iff, or_false] at hq
    rcases hq with rfl | rfl
    · intro heq
      simp only at heq
      rw [← heq, walKeys_removed.1] at hr
      cases hr
    · intro heq
      simp only at heq
      rw [← heq, walKeys_removed.2] at hr
      cases hr

theorem firstNonEmpty_head (r : Rec) (k : Str) (ks t : List Str) (hk : ks = k :: t) (h : lookupStr r k ≠ []) :
    firstNonEmpty r ks = lookupStr r k := by
  subst hk
  simp [firstNonEmpty, h]

theorem rowCb_eq (san : Str → Str) (now : Int) (db meas : Str) (kvs : List (Str × Val))
    (hdb : db ≠ []) (hm : meas ≠ [])
    (hres : ∀ p ∈ kvs, removedKeys.contains p.1 = false) :
    rowCb san now ([(walDbKey, .str db), (walMeasKey, .str meas)] ++ kvs) =
      ingestCols san now db meas (kvs.map fun p => (p.1, [p.2])) := by
  have hlm : lookupStr ([(walDbKey, Val.str db), (walMeasKey, Val.str meas)] ++ kvs) walMeasKey = meas := by
    simp [lookupStr, List.lookup_cons, walKeys_ne]
  have hld : lookupStr ([(walDbKey, Val.str db), (walMeasKey, Val.str meas)] ++ kvs) walDbKey = db := by
    simp [lookupStr]
  have h1 : firstNonEmpty ([(walDbKey, Val.str db), (walMeasKey, Val.str meas)] ++ kvs) measKeys = meas := by
    rw [firstNonEmpty_head _ walMeasKey measKeys measKeys.tail measKeys_head (by rw [hlm]; exact hm), hlm]
  have h2 : firstNonEmpty ([(walDbKey, Val.str db), (walMeasKey, Val.str meas)] ++ kvs) dbKeys = db := by
    rw [firstNonEmpty_head _ walDbKey dbKeys dbKeys.tail dbKeys_head (by rw [hld]; exact hdb), hld]
  have h3 : recCols ([(walDbKey, Val.str db), (walMeasKey, Val.str meas)] ++ kvs) = kvs.map fun p => (p.1, [p.2]) := by
    unfold recCols
    have hf : (kvs.filter fun p => !(removedKeys.contains p.1)) = kvs := by
      apply List.filter_eq_self.2
      intro p hp
      have := hres p hp
      simp only [List.contains_eq_mem, decide_eq_false_iff_not] at this
      simpa using this
    simp only [List.filter_append, List.filter_cons, walKeys_removed.1, walKeys_removed.2, Bool.not_true,
      List.filter_nil, hf]
    simp
  unfold rowCb
  simp only [h1, h2, h3, hm, hdb, if_false]

theorem cellsAt_single (cols : Cols) (i : Nat) :
    cellsAt (cols.map fun p => (p.1, [p.2.getD i .null])) 0 = cellsAt cols i := by
  unfold cellsAt
  induction cols with
  | nil => rfl
  | cons p ps ih =>
    simp only [List.map_cons, List.filter_cons]
    by_cases hv : visible p.1 = true
    · simp only [hv, if_true, List.filterMap_cons]
      rw [ih]
      simp
    · simp only [hv]
      exact ih

theorem ingest_single (san : Str → Str) (now : Int) (db meas : Str) (cols : Cols) (tc : List Val) (i : Nat)
    (hnd : nodupKeys (cols.map (·.1)) = true)
    (hok : cols.all colOk = true)
    (htc : cols.lookup kTime = some tc) (hi : i < tc.length)
    (hst : tc.all stableVal = true)
    (hsan : ∀ p ∈ cols, ∀ v ∈ p.2, sanVal san v = v) :
    ingestCols san now db meas (cols.map fun p => (p.1, [p.2.getD i .null])) = .ok [rowAt db meas cols tc i] := by
  obtain ⟨t, ht, hts⟩ := mem_of_all_stable tc i hi hst
  -- facts about the one-row columns
  have hkeys : (cols.map fun p => (p.1, [p.2.getD i Val.null])).map (·.1) = cols.map (·.1) := by
    simp [List.map_map]
  have hlk : (cols.map fun p => (p.1, [p.2.getD i Val.null])).lookup kTime = some [Val.int t] := by
    have := lookup_map_snd (fun _ (vs : List Val) => [vs.getD i Val.null]) kTime cols
    rw [this, htc]
    show some [tc.getD i Val.null] = _
    rw [ht]
  have hnorm : normalize (cols.map fun p => (p.1, [p.2.getD i Val.null])) =
      .ok (cols.map fun p => (p.1, [p.2.getD i Val.null])) := by
    unfold normalize
    rw [hlk]
    simp only [tsOf, normVals, normOne_stable t hts]
    rw [setCol_same _ kTime [Val.int t] (by rw [hkeys]; exact hnd) hlk]
  have hsanc : sanCols san (cols.map fun p => (p.1, [p.2.getD i Val.null])) =
      cols.map fun p => (p.1, [p.2.getD i Val.null]) := by
    unfold sanCols
    rw [List.map_map]
    apply List.map_congr_left
    intro p hp
    simp only [Function.comp, List.map_cons, List.map_nil]
    by_cases hip : i < p.2.length
    · rw [hsan p hp _ (getD_mem p.2 i hip)]
    · rw [getD_oob p.2 i hip]; rfl
  have hrows : toRows db meas (cols.map fun p => (p.1, [p.2.getD i Val.null])) = .ok [rowAt db meas cols tc i] := by
    unfold toRows
    have hall : (cols.map fun p => (p.1, [p.2.getD i Val.null])).all colOk = true := by
      simp only [List.all_map, List.all_eq_true]
      intro p hp
      have hp_ok := (List.all_eq_true.1 hok) p hp
      simp only [Function.comp, colOk] at hp_ok ⊢
      by_cases hk : p.1 = kTime
      · simp only [hk, if_true] at hp_ok ⊢
        have : p.2 = tc := lookup_unique cols kTime tc p.2 hnd htc (by rw [← hk]; exact hp)
        rw [this, ht]
        simp [timeColOk, tsOf]
      · simp only [hk, if_false] at hp_ok ⊢
        exact valueColOk_getD p.2 i hp_ok
    simp only [hall, Bool.not_true, Bool.false_eq_true, if_false, hlk]
    simp only [List.length_singleton, List.range_one, List.map_cons, List.map_nil]
    congr 2
    simp only [rowAt, cellsAt_single, timeAt, ht, tsOf]
    simp [List.getD]
  -- assemble
  cases cols with
  | nil => simp at htc
  | cons p0 rest =>
    have hk : hasKey kTime (List.map (fun p => (p.1, [p.2.getD i Val.null])) (p0 :: rest)) = true :=
      hasKey_of_lookup _ kTime _ hlk
    unfold ingestCols
    simp only [List.map_cons] at hk hnorm hsanc hrows ⊢
    have hany : (List.map (fun p => (p.1, [p.2.getD i Val.null])) rest).any
        (fun p => p.2.length != [p0.2.getD i Val.null].length) = false := by
      simp [List.any_map]
    simp only [hany, hk, if_true, hnorm, hsanc, hrows]
    simp

theorem toRows_shape (db meas : Str) (cols : Cols) (rows : List Row) (h : toRows db meas cols = .ok rows) :
    cols.all colOk = true ∧ ∃ tc, cols.lookup kTime = some tc ∧
      rows = (List.range tc.length).map (rowAt db meas cols tc) := by
  unfold toRows at h
  by_cases hall : cols.all colOk = true
  · simp only [hall, Bool.not_true, Bool.false_eq_true, if_false] at h
    cases hl : cols.lookup kTime with
    | none => simp [hl] at h
    | some tc =>
      simp only [hl] at h
      injection h with h
      exact ⟨hall, tc, rfl, h.symm⟩
  · simp [hall] at h

/-- row-format entries: replay = live inside the carve-out -/
theorem rows_replay_eq_live (san : Str → Str) (now : Int) (db meas : Str) (cols : Cols) (rows : List Row)
    (hc : carveRows san db meas cols = true) (h : toRows db meas cols = .ok rows) :
    replayRows san now (.rows (toWalRecords db meas cols)) = .ok rows := by
  obtain ⟨hok, tc, htc, hrows⟩ := toRows_shape db meas cols rows h
  simp only [carveRows, Bool.and_eq_true, htc] at hc
  obtain ⟨⟨⟨⟨⟨⟨hdb, hmeas⟩, hnd⟩, hres⟩, hlen⟩, hst⟩, hsan⟩ := hc
  have hdb' : db ≠ [] := by simpa using hdb
  have hmeas' : meas ≠ [] := by simpa using hmeas
  have hres' : ∀ p ∈ cols, removedKeys.contains p.1 = false := by
    intro p hp
    have := (List.all_eq_true.1 hres) p hp
    simpa using this
  have hsan' : ∀ p ∈ cols, ∀ v ∈ p.2, sanVal san v = v := by
    intro p hp v hv
    have := (List.all_eq_true.1 ((List.all_eq_true.1 hsan) p hp)) v hv
    simpa using this
  have hn : numRows cols = tc.length := by
    have h' : (tc.length == numRows cols) = true :=
      (List.all_eq_true.1 hlen) (kTime, tc) (lookup_mem cols kTime tc htc)
    exact (beq_iff_eq.1 h').symm
  subst hrows
  show seqRows (List.map (rowCb san now) (toWalRecords db meas cols)) = _
  unfold toWalRecords
  rw [List.map_map, hn]
  apply seqRows_map_ok
  intro i hi
  have hi' : i < tc.length := by simpa using hi
  simp only [Function.comp]
  rw [mkRec_eq db meas cols i hnd hres']
  rw [rowCb_eq san now db meas _ hdb' hmeas' (by
    intro p' hp'
    simp only [List.mem_map] at hp'
    obtain ⟨p, hp, rfl⟩ := hp'
    exact hres' p hp)]
  rw [List.map_map]
  exact ingest_single san now db meas cols tc i hnd hok htc hi' hst hsan'

theorem toRows_db_meas (db meas : Str) (cols : Cols) (rows : List Row) (h : toRows db meas cols = .ok rows) :
    ∀ r ∈ rows, r.db = db ∧ r.meas = meas := by
  obtain ⟨_, tc, _, hrows⟩ := toRows_shape db meas cols rows h
  subst hrows
  intro r hr
  simp only [List.mem_map] at hr
  obtain ⟨i, _, rfl⟩ := hr
  exact ⟨rfl, rfl⟩

end Arc.C05
