import Arc.Model.C05
/-!
C05 data part: replaying the WAL entry of a unit gives the rows the live path stored, inside the decidable
carve-outs `carveRaw` / `carveRows`.
-/
namespace Arc.C05
open Arc.Generated.C05

/-! ## facts about the regenerated key lists (closed; re-checked whenever the source changes) -/

theorem measKeys_head : measKeys = walMeasKey :: measKeys.tail := by decide
theorem dbKeys_head : dbKeys = walDbKey :: dbKeys.tail := by decide
theorem walKeys_removed : removedKeys.contains walDbKey = true ∧ removedKeys.contains walMeasKey = true := by decide
theorem walKeys_ne : (walMeasKey == walDbKey) = false := by decide
theorem walKeys_last : walKeysLast = true := by decide
theorem replay_int : replayAcceptsIntMeas = true := by decide
/-- every key the row callback removes is one the live path does not store either ('_' prefix) and is not "time" -/
theorem removed_invisible : removedKeys.all (fun k => !visible k && k != kTime) = true := by decide

/-! ## the carve-outs -/

/-- a microsecond timestamp on which `normalizeTimestampColumns` is the identity -/
def usStable (t : Int) : Bool :=
  multOf t == 1 && decide (-9223372036854775808 ≤ t) && decide (t < 9223372036854775808)

def stableVal : Val → Bool
  | .int t => usStable t
  | _ => false

def nodupKeys : List Str → Bool
  | [] => true
  | k :: ks => !ks.contains k && nodupKeys ks

/-- row-format WAL entries (line protocol, MessagePack rows, nested columnar) -/
def carveRows (san : Str → Str) (db meas : Str) (cols : Cols) : Bool :=
  db != [] && meas != [] &&
  nodupKeys (cols.map (·.1)) &&
  cols.all (fun p => p.2.length == numRows cols) &&
  (match cols.lookup kTime with
   | some tc => tc.all stableVal
   | none => false) &&
  cols.all (fun p => p.2.all fun v => sanVal san v == v)

/-- raw WAL entries (top-level MessagePack columnar) -/
def carveRaw (db : Str) (_m : MVal) (cols : Cols) : Bool :=
  db != [] && hasKey kTime cols

def carve (san : Str → Str) : Req → Bool
  | .raw db m cols => carveRaw db m cols
  | .pcol db meas cols => carveRows san db meas cols
  | .rgrp db meas pts => carveRows san db meas (rowsToColumnar pts)

/-! ## raw entries -/

theorem ingestCols_now_irrel (san : Str → Str) (n1 n2 : Int) (db meas : Str) (cols : Cols)
    (h : hasKey kTime cols = true) : ingestCols san n1 db meas cols = ingestCols san n2 db meas cols := by
  unfold ingestCols
  cases cols with
  | nil => rfl
  | cons p rest => simp only [h, if_true]

/-! ## row entries -/

theorem nodupKeys_cons {k : Str} {ks : List Str} (h : nodupKeys (k :: ks) = true) :
    ks.contains k = false ∧ nodupKeys ks = true := by
  simpa [nodupKeys] using h

theorem recSet_fresh : ∀ (r : Rec) (k : Str) (v : Val), (∀ q ∈ r, q.1 ≠ k) → recSet r k v = r ++ [(k, v)]
  | [], _, _, _ => rfl
  | (a, b) :: r, k, v, h => by
    have hp : (a == k) = false := by simpa using h (a, b) (List.mem_cons_self ..)
    simp only [recSet, hp, Bool.false_eq_true, if_false, List.cons_append]
    rw [recSet_fresh r k v (fun q hq => h q (List.mem_cons_of_mem _ hq))]

theorem lookup_recSet_same : ∀ (r : Rec) (k : Str) (v : Val), (recSet r k v).lookup k = some v
  | [], k, v => by simp [recSet, List.lookup_cons]
  | (a, b) :: r, k, v => by
    by_cases hp : (a == k) = true
    · simp [recSet, hp, List.lookup_cons]
    · have hp' : (a == k) = false := by simpa using hp
      have hk : (k == a) = false := by
        have : a ≠ k := by simpa using hp'
        simpa using fun h => this h.symm
      simp only [recSet, hp', Bool.false_eq_true, if_false, List.lookup_cons, hk]
      exact lookup_recSet_same r k v

theorem lookup_recSet_other : ∀ (r : Rec) (k k' : Str) (v : Val), (k' == k) = false →
    (recSet r k v).lookup k' = r.lookup k'
  | [], k, k', v, h => by simp [recSet, List.lookup_cons, h]
  | (a, b) :: r, k, k', v, h => by
    by_cases hp : (a == k) = true
    · have hpk : a = k := by simpa using hp
      subst hpk
      simp only [recSet, hp, if_true, List.lookup_cons, h]
    · have hp' : (a == k) = false := by simpa using hp
      simp only [recSet, hp', Bool.false_eq_true, if_false, List.lookup_cons]
      rw [lookup_recSet_other r k k' v h]

theorem filter_recSet_removed (keep : Str → Bool) : ∀ (r : Rec) (k : Str) (v : Val), keep k = false →
    (recSet r k v).filter (fun q => keep q.1) = r.filter (fun q => keep q.1)
  | [], k, v, h => by simp [recSet, h]
  | (a, b) :: r, k, v, h => by
    by_cases hp : (a == k) = true
    · have hpk : a = k := by simpa using hp
      subst hpk
      simp [recSet, List.filter_cons, h]
    · have hp' : (a == k) = false := by simpa using hp
      simp only [recSet, hp', Bool.false_eq_true, if_false, List.filter_cons]
      rw [filter_recSet_removed keep r k v h]

theorem setAll_fresh : ∀ (kvs : List (Str × Val)) (r : Rec), nodupKeys (kvs.map (·.1)) = true →
    (∀ p ∈ kvs, ∀ q ∈ r, q.1 ≠ p.1) → setAll r kvs = r ++ kvs
  | [], r, _, _ => by simp [setAll]
  | p :: ps, r, hnd, hdis => by
    have hnd' := nodupKeys_cons (by simpa using hnd)
    have h1 : recSet r p.1 p.2 = r ++ [(p.1, p.2)] :=
      recSet_fresh r p.1 p.2 (fun q hq => hdis p (List.mem_cons_self ..) q hq)
    have ih := setAll_fresh ps (r ++ [(p.1, p.2)]) hnd'.2 (by
      intro p' hp' q hq
      simp only [List.mem_append, List.mem_singleton] at hq
      rcases hq with hq | hq
      · exact hdis p' (List.mem_cons_of_mem _ hp') q hq
      · subst hq
        intro heq
        have hc : ((ps.map (·.1)).contains p.1) = true := by
          simp only [List.contains_eq_mem, List.mem_map, decide_eq_true_eq]
          exact ⟨p', hp', heq.symm⟩
        rw [hnd'.1] at hc
        cases hc)
    have hstep : setAll r (p :: ps) = setAll (recSet r p.1 p.2) ps := rfl
    rw [hstep, h1, ih]
    simp

theorem lookup_map_snd {β γ : Type} (g : Str → β → γ) (k : Str) :
    ∀ (l : List (Str × β)), (l.map fun p => (p.1, g p.1 p.2)).lookup k = (l.lookup k).map (g k)
  | [] => rfl
  | (a, b) :: l => by
    simp only [List.map_cons, List.lookup_cons]
    cases h : (k == a)
    · simpa using lookup_map_snd g k l
    · have : k = a := by simpa using h
      subst this; simp

theorem lookup_mem : ∀ (l : List (Str × List Val)) (k : Str) (v : List Val), l.lookup k = some v → (k, v) ∈ l
  | [], _, _, h => by simp at h
  | (a, b) :: l, k, v, h => by
    simp only [List.lookup_cons] at h
    cases hk : (k == a)
    · simp only [hk] at h
      exact List.mem_cons_of_mem _ (lookup_mem l k v h)
    · simp only [hk] at h
      have : k = a := by simpa using hk
      subst this
      simp at h; subst h
      exact List.mem_cons_self ..

theorem lookup_unique : ∀ (l : List (Str × List Val)) (k : Str) (v v' : List Val),
    nodupKeys (l.map (·.1)) = true → l.lookup k = some v → (k, v') ∈ l → v' = v
  | [], _, _, _, _, h, _ => by simp at h
  | (a, b) :: l, k, v, v', hnd, h, hm => by
    have hnd' := nodupKeys_cons (by simpa using hnd)
    simp only [List.lookup_cons] at h
    cases hk : (k == a)
    · simp only [hk] at h
      rcases List.mem_cons.1 hm with heq | hm'
      · have : k = a := by injection heq
        simp [this] at hk
      · exact lookup_unique l k v v' hnd'.2 h hm'
    · simp only [hk] at h
      have hka : k = a := by simpa using hk
      subst hka
      simp at h; subst h
      rcases List.mem_cons.1 hm with heq | hm'
      · injection heq with _ h2
      · exfalso
        have hc : ((l.map (·.1)).contains k) = true := by
          simp only [List.contains_eq_mem, List.mem_map, decide_eq_true_eq]
          exact ⟨(k, v'), hm', rfl⟩
        rw [hnd'.1] at hc
        cases hc

theorem setCol_same (cols : Cols) (k : Str) (vs : List Val) (hnd : nodupKeys (cols.map (·.1)) = true)
    (h : cols.lookup k = some vs) : setCol k vs cols = cols := by
  unfold setCol
  conv => rhs; rw [← List.map_id cols]
  apply List.map_congr_left
  intro p hp
  by_cases hk : p.1 = k
  · simp only [hk, if_true, id]
    have : p.2 = vs := lookup_unique cols k vs p.2 hnd h (by rw [← hk]; exact hp)
    rw [← this, ← hk]
  · simp [hk]

theorem seqRows_map_ok {α : Type} (f : α → R) (g : α → Row) :
    ∀ (l : List α), (∀ x ∈ l, f x = .ok [g x]) → seqRows (l.map f) = .ok (l.map g)
  | [], _ => rfl
  | x :: xs, h => by
    have h1 := h x (List.mem_cons_self ..)
    have ih := seqRows_map_ok f g xs (fun y hy => h y (List.mem_cons_of_mem _ hy))
    simp only [List.map_cons, seqRows, h1, ih]
    rfl

theorem getD_mem (l : List Val) (i : Nat) (hi : i < l.length) : l.getD i .null ∈ l := by
  simp only [List.getD, List.getElem?_eq_getElem hi, Option.getD_some]
  exact List.getElem_mem hi

theorem getD_oob (l : List Val) (i : Nat) (hi : ¬ i < l.length) : l.getD i .null = .null := by
  simp only [List.getD, List.getElem?_eq_none (Nat.le_of_not_lt hi), Option.getD_none]

theorem valueColOk_getD (vs : List Val) (i : Nat) (h : valueColOk vs = true) :
    valueColOk [vs.getD i .null] = true := by
  by_cases hi : i < vs.length
  · have hmem : vs.getD i .null ∈ vs := getD_mem vs i hi
    generalize vs.getD i .null = v at hmem
    unfold valueColOk at h
    cases hf : firstNonNull vs with
    | none =>
      -- all null
      have hall : ∀ (l : List Val), firstNonNull l = none → ∀ x ∈ l, x = .null := by
        intro l
        induction l with
        | nil => intro _ x hx; simp at hx
        | cons a t ih =>
          intro hfn x hx
          cases a <;> simp [firstNonNull] at hfn
          rcases List.mem_cons.1 hx with rfl | hx'
          · rfl
          · exact ih hfn x hx'
      have := hall vs hf v hmem
      subst this
      simp [valueColOk, firstNonNull]
    | some v0 =>
      simp only [hf] at h
      cases hk : kindOf v0 with
      | none => simp [hk] at h
      | some k =>
        simp only [hk, List.all_eq_true] at h
        have hv := h v hmem
        cases v <;> simp [valueColOk, firstNonNull, kindOf] at hv ⊢
  · rw [getD_oob vs i hi]
    simp [valueColOk, firstNonNull]

theorem mem_of_all_stable (tc : List Val) (i : Nat) (hi : i < tc.length) (h : tc.all stableVal = true) :
    ∃ t, tc.getD i .null = .int t ∧ usStable t = true := by
  have hmem : tc.getD i .null ∈ tc := getD_mem tc i hi
  have := (List.all_eq_true.1 h) _ hmem
  generalize tc.getD i .null = v at this
  cases v <;> simp [stableVal] at this
  exact ⟨_, rfl, this⟩

theorem normOne_stable (t : Int) (h : usStable t = true) : normOne (multOf t) t = t := by
  simp only [usStable, Bool.and_eq_true, beq_iff_eq, decide_eq_true_eq] at h
  obtain ⟨⟨hm, h1⟩, h2⟩ := h
  simp only [normOne, hm, wrap64]
  omega


theorem hasKey_of_lookup (cols : Cols) (k : Str) (v : List Val) (h : cols.lookup k = some v) :
    hasKey k cols = true := by
  unfold hasKey
  simp only [List.any_eq_true]
  exact ⟨(k, v), lookup_mem cols k v h, by simp⟩

theorem firstNonEmpty_head (r : Rec) (k : Str) (ks t : List Str) (hk : ks = k :: t) (h : lookupStr r k ≠ []) :
    firstNonEmpty r ks = lookupStr r k := by
  subst hk
  simp [firstNonEmpty, h]

def keepCol (p : Str × List Val) : Bool := !removedKeys.contains p.1

/-- the WAL record of row i (routing keys written last) and what the row callback makes of it: the measurement
and database of the request, and the one-row columns of every column the callback does not remove -/
theorem rowCb_mkRec (san : Str → Str) (now : Int) (db meas : Str) (cols : Cols) (i : Nat)
    (hdb : db ≠ []) (hm : meas ≠ []) (hnd : nodupKeys (cols.map (·.1)) = true) :
    rowCb san now (mkRec db meas cols i) =
      ingestCols san now db meas ((cols.filter keepCol).map fun p => (p.1, [p.2.getD i .null])) := by
  have hkvs : setAll [] (cols.map fun p => (p.1, p.2.getD i Val.null)) = cols.map fun p => (p.1, p.2.getD i Val.null) := by
    have := setAll_fresh (cols.map fun p => (p.1, p.2.getD i Val.null)) [] (by
      have : (cols.map fun p => (p.1, p.2.getD i Val.null)).map (·.1) = cols.map (·.1) := by simp [List.map_map]
      rw [this]; exact hnd) (by intro _ _ q hq; simp at hq)
    simpa using this
  have hrec : mkRec db meas cols i =
      recSet (recSet (cols.map fun p => (p.1, p.2.getD i Val.null)) walDbKey (.str db)) walMeasKey (.str meas) := by
    unfold mkRec mkRecG
    simp only [walKeys_last, if_true, hkvs]
  rw [hrec]
  generalize hK : (cols.map fun p => (p.1, p.2.getD i Val.null)) = kvs
  have hlm : lookupStr (recSet (recSet kvs walDbKey (.str db)) walMeasKey (.str meas)) walMeasKey = meas := by
    simp [lookupStr, lookup_recSet_same]
  have hne : (walDbKey == walMeasKey) = false := by decide
  have hld : lookupStr (recSet (recSet kvs walDbKey (.str db)) walMeasKey (.str meas)) walDbKey = db := by
    simp [lookupStr, lookup_recSet_other _ _ _ _ hne, lookup_recSet_same]
  have h1 : firstNonEmpty (recSet (recSet kvs walDbKey (.str db)) walMeasKey (.str meas)) measKeys = meas := by
    rw [firstNonEmpty_head _ walMeasKey measKeys measKeys.tail measKeys_head (by rw [hlm]; exact hm), hlm]
  have h2 : firstNonEmpty (recSet (recSet kvs walDbKey (.str db)) walMeasKey (.str meas)) dbKeys = db := by
    rw [firstNonEmpty_head _ walDbKey dbKeys dbKeys.tail dbKeys_head (by rw [hld]; exact hdb), hld]
  have h3 : recCols (recSet (recSet kvs walDbKey (.str db)) walMeasKey (.str meas)) =
      (cols.filter keepCol).map fun p => (p.1, [p.2.getD i .null]) := by
    unfold recCols
    rw [filter_recSet_removed (fun k => !removedKeys.contains k) _ walMeasKey _ (by rw [walKeys_removed.2]; rfl),
      filter_recSet_removed (fun k => !removedKeys.contains k) _ walDbKey _ (by rw [walKeys_removed.1]; rfl), ← hK]
    rw [List.filter_map, List.map_map]
    rfl
  unfold rowCb
  simp only [h1, h2, h3, hm, hdb, if_false]

theorem nodupKeys_filter (f : Str × List Val → Bool) : ∀ (l : Cols), nodupKeys (l.map (·.1)) = true →
    nodupKeys ((l.filter f).map (·.1)) = true
  | [], _ => rfl
  | p :: l, h => by
    have h' := nodupKeys_cons (by simpa using h)
    have ih := nodupKeys_filter f l h'.2
    by_cases hf : f p = true
    · simp only [List.filter_cons, hf, if_true, List.map_cons, nodupKeys, Bool.and_eq_true, Bool.not_eq_true']
      refine ⟨?_, ih⟩
      have hnot : ¬ p.1 ∈ l.map (·.1) := by
        have := h'.1
        simpa using this
      simp only [List.contains_eq_mem, decide_eq_false_iff_not, List.mem_map, not_exists, not_and]
      intro q hq heq
      exact hnot (List.mem_map.2 ⟨q, (List.mem_filter.1 hq).1, heq⟩)
    · simp only [List.filter_cons, hf]
      exact ih

theorem lookup_filter (f : Str × List Val → Bool) (k : Str) : ∀ (l : Cols),
    (∀ p ∈ l, p.1 = k → f p = true) → (l.filter f).lookup k = l.lookup k
  | [], _ => rfl
  | (a, b) :: l, h => by
    have ih := lookup_filter f k l (fun p hp => h p (List.mem_cons_of_mem _ hp))
    by_cases hf : f (a, b) = true
    · simp only [List.filter_cons, hf, if_true, List.lookup_cons, ih]
    · simp only [List.filter_cons, hf, List.lookup_cons]
      have : (k == a) = false := by
        have : ¬ a = k := fun e => hf (h (a, b) (List.mem_cons_self ..) e)
        simpa using fun e => this e.symm
      simp [this, ih]

theorem keep_of_visible (p : Str × List Val) (h : visible p.1 = true ∨ p.1 = kTime) : keepCol p = true := by
  unfold keepCol
  cases hc : removedKeys.contains p.1 with
  | false => rfl
  | true =>
    have hall := List.all_eq_true.1 removed_invisible p.1 (by simpa using hc)
    simp only [Bool.and_eq_true, Bool.not_eq_true', bne_iff_ne, ne_eq] at hall
    rcases h with h | h
    · rw [hall.1] at h; cases h
    · exact absurd h hall.2

theorem cellsAt_filter_keep (cols : Cols) (i : Nat) : cellsAt (cols.filter keepCol) i = cellsAt cols i := by
  unfold cellsAt
  rw [List.filter_filter]
  congr 1
  apply List.filter_congr
  intro p _
  by_cases hv : visible p.1 = true
  · simp [hv, keep_of_visible p (Or.inl hv)]
  · simp [hv]

theorem cellsAt_single (cols : Cols) (i : Nat) :
    cellsAt (cols.map fun p => (p.1, [p.2.getD i .null])) 0 = cellsAt cols i := by
  unfold cellsAt
  induction cols with
  | nil => rfl
  | cons p ps ih =>
    simp only [List.map_cons, List.filter_cons]
    by_cases hv : visible p.1 = true
    · simp only [hv, if_true, List.filterMap_cons]
      rw [ih]
      simp
    · simp only [hv]
      exact ih

theorem ingest_single (san : Str → Str) (now : Int) (db meas : Str) (cols : Cols) (tc : List Val) (i : Nat)
    (hnd : nodupKeys (cols.map (·.1)) = true)
    (hok : cols.all colOk = true)
    (htc : cols.lookup kTime = some tc) (hi : i < tc.length)
    (hst : tc.all stableVal = true)
    (hsan : ∀ p ∈ cols, ∀ v ∈ p.2, sanVal san v = v) :
    ingestCols san now db meas (cols.map fun p => (p.1, [p.2.getD i .null])) = .ok [rowAt db meas cols tc i] := by
  obtain ⟨t, ht, hts⟩ := mem_of_all_stable tc i hi hst
  -- facts about the one-row columns
  have hkeys : (cols.map fun p => (p.1, [p.2.getD i Val.null])).map (·.1) = cols.map (·.1) := by
    simp [List.map_map]
  have hlk : (cols.map fun p => (p.1, [p.2.getD i Val.null])).lookup kTime = some [Val.int t] := by
    have := lookup_map_snd (fun _ (vs : List Val) => [vs.getD i Val.null]) kTime cols
    rw [this, htc]
    show some [tc.getD i Val.null] = _
    rw [ht]
  have hnorm : normalize (cols.map fun p => (p.1, [p.2.getD i Val.null])) =
      .ok (cols.map fun p => (p.1, [p.2.getD i Val.null])) := by
    unfold normalize
    rw [hlk]
    simp only [tsOf, normVals, normOne_stable t hts]
    rw [setCol_same _ kTime [Val.int t] (by rw [hkeys]; exact hnd) hlk]
  have hsanc : sanCols san (cols.map fun p => (p.1, [p.2.getD i Val.null])) =
      cols.map fun p => (p.1, [p.2.getD i Val.null]) := by
    unfold sanCols
    rw [List.map_map]
    apply List.map_congr_left
    intro p hp
    simp only [Function.comp, List.map_cons, List.map_nil]
    by_cases hip : i < p.2.length
    · rw [hsan p hp _ (getD_mem p.2 i hip)]
    · rw [getD_oob p.2 i hip]; rfl
  have hrows : toRows db meas (cols.map fun p => (p.1, [p.2.getD i Val.null])) = .ok [rowAt db meas cols tc i] := by
    unfold toRows
    have hall : (cols.map fun p => (p.1, [p.2.getD i Val.null])).all colOk = true := by
      simp only [List.all_map, List.all_eq_true]
      intro p hp
      have hp_ok := (List.all_eq_true.1 hok) p hp
      simp only [Function.comp, colOk] at hp_ok ⊢
      by_cases hk : p.1 = kTime
      · simp only [hk, if_true] at hp_ok ⊢
        have : p.2 = tc := lookup_unique cols kTime tc p.2 hnd htc (by rw [← hk]; exact hp)
        rw [this, ht]
        simp [timeColOk, tsOf]
      · simp only [hk, if_false] at hp_ok ⊢
        exact valueColOk_getD p.2 i hp_ok
    simp only [hall, Bool.not_true, Bool.false_eq_true, if_false, hlk]
    simp only [List.length_singleton, List.range_one, List.map_cons, List.map_nil]
    congr 2
    simp only [rowAt, cellsAt_single, timeAt, ht, tsOf]
    simp [List.getD]
  -- assemble
  cases cols with
  | nil => simp at htc
  | cons p0 rest =>
    have hk : hasKey kTime (List.map (fun p => (p.1, [p.2.getD i Val.null])) (p0 :: rest)) = true :=
      hasKey_of_lookup _ kTime _ hlk
    unfold ingestCols
    simp only [List.map_cons] at hk hnorm hsanc hrows ⊢
    have hany : (List.map (fun p => (p.1, [p.2.getD i Val.null])) rest).any
        (fun p => p.2.length != [p0.2.getD i Val.null].length) = false := by
      simp [List.any_map]
    simp only [hany, hk, if_true, hnorm, hsanc, hrows]
    simp

theorem toRows_shape (db meas : Str) (cols : Cols) (rows : List Row) (h : toRows db meas cols = .ok rows) :
    cols.all colOk = true ∧ ∃ tc, cols.lookup kTime = some tc ∧
      rows = (List.range tc.length).map (rowAt db meas cols tc) := by
  unfold toRows at h
  by_cases hall : cols.all colOk = true
  · simp only [hall, Bool.not_true, Bool.false_eq_true, if_false] at h
    cases hl : cols.lookup kTime with
    | none => simp [hl] at h
    | some tc =>
      simp only [hl] at h
      injection h with h
      exact ⟨hall, tc, rfl, h.symm⟩
  · simp [hall] at h

/-- row-format entries: replay = live inside the carve-out -/
theorem rows_replay_eq_live (san : Str → Str) (now : Int) (db meas : Str) (cols : Cols) (rows : List Row)
    (hc : carveRows san db meas cols = true) (h : toRows db meas cols = .ok rows) :
    replayRows san now (.rows (toWalRecords db meas cols)) = .ok rows := by
  obtain ⟨hok, tc, htc, hrows⟩ := toRows_shape db meas cols rows h
  simp only [carveRows, Bool.and_eq_true, htc] at hc
  obtain ⟨⟨⟨⟨⟨hdb, hmeas⟩, hnd⟩, hlen⟩, hst⟩, hsan⟩ := hc
  have hdb' : db ≠ [] := by simpa using hdb
  have hmeas' : meas ≠ [] := by simpa using hmeas
  have hsan' : ∀ p ∈ cols, ∀ v ∈ p.2, sanVal san v = v := by
    intro p hp v hv
    have := (List.all_eq_true.1 ((List.all_eq_true.1 hsan) p hp)) v hv
    simpa using this
  have hn : numRows cols = tc.length := by
    have h' : (tc.length == numRows cols) = true :=
      (List.all_eq_true.1 hlen) (kTime, tc) (lookup_mem cols kTime tc htc)
    exact (beq_iff_eq.1 h').symm
  -- the columns the callback keeps
  have hnd0 := nodupKeys_filter keepCol cols hnd
  have hok0 : (cols.filter keepCol).all colOk = true := by
    simp only [List.all_eq_true]
    intro p hp
    exact (List.all_eq_true.1 hok) p (List.mem_filter.1 hp).1
  have htc0 : (cols.filter keepCol).lookup kTime = some tc := by
    rw [lookup_filter keepCol kTime cols (fun p _ hk => keep_of_visible p (Or.inr hk))]
    exact htc
  have hsan0 : ∀ p ∈ cols.filter keepCol, ∀ v ∈ p.2, sanVal san v = v :=
    fun p hp => hsan' p (List.mem_filter.1 hp).1
  subst hrows
  show seqRows (List.map (rowCb san now) (toWalRecords db meas cols)) = _
  unfold toWalRecords
  rw [List.map_map, hn]
  apply seqRows_map_ok
  intro i hi
  have hi' : i < tc.length := by simpa using hi
  simp only [Function.comp]
  rw [rowCb_mkRec san now db meas cols i hdb' hmeas' hnd]
  rw [ingest_single san now db meas (cols.filter keepCol) tc i hnd0 hok0 htc0 hi' hst hsan0]
  simp only [rowAt, cellsAt_filter_keep]

theorem toRows_db_meas (db meas : Str) (cols : Cols) (rows : List Row) (h : toRows db meas cols = .ok rows) :
    ∀ r ∈ rows, r.db = db ∧ r.meas = meas := by
  obtain ⟨_, tc, _, hrows⟩ := toRows_shape db meas cols rows h
  subst hrows
  intro r hr
  simp only [List.mem_map] at hr
  obtain ⟨i, _, rfl⟩ := hr
  exact ⟨rfl, rfl⟩

end Arc.C05
