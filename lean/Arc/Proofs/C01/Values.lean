import Arc.Proofs.C01.Split
import Arc.Proofs.C01.Trim
/-! C01 helper lemmas: `parseFieldValue` on every rendered field value; integers; timestamps. -/
namespace Arc.C01

theorem isDigit_cases (c : UInt8) (h : isDigit c = true) :
    c ∈ ([48,49,50,51,52,53,54,55,56,57] : List UInt8) := by
  simp [isDigit] at h
  obtain ⟨h1, h2⟩ := h
  have a := UInt8.le_iff_toNat_le.mp h1
  have b := UInt8.le_iff_toNat_le.mp h2
  simp at a b
  have hc : c = UInt8.ofNat c.toNat := by simp
  have : c.toNat = 48 ∨ c.toNat = 49 ∨ c.toNat = 50 ∨ c.toNat = 51 ∨ c.toNat = 52 ∨ c.toNat = 53 ∨
      c.toNat = 54 ∨ c.toNat = 55 ∨ c.toNat = 56 ∨ c.toNat = 57 := by omega
  rcases this with h|h|h|h|h|h|h|h|h|h <;> (rw [hc, h]; decide)

theorem floatChar_cases (c : UInt8) (h : floatChar c = true) :
    c ∈ ([48,49,50,51,52,53,54,55,56,57,43,45,46,101,69] : List UInt8) := by
  simp only [floatChar, Bool.or_eq_true, beq_iff_eq] at h
  rcases h with ((((h|h)|h)|h)|h)|h
  · have := isDigit_cases c h
    simp only [List.mem_cons, List.mem_nil_iff, or_false] at this ⊢
    rcases this with h|h|h|h|h|h|h|h|h|h <;> simp [h]
  all_goals (subst h; decide)

/-- what the parser needs to know about a byte of a number literal (digits, sign, `.`, `e`, `E`) -/
def numByte (c : UInt8) : Prop :=
  c < 0x80 ∧ isAsciiSpace c = false ∧ c ≠ 116 ∧ c ≠ 84 ∧ c ≠ 102 ∧ c ≠ 70 ∧ c ≠ cDQ ∧ c ≠ 105 ∧ c ≠ 117 ∧
    c ≠ cBS ∧ c ≠ cCM ∧ c ≠ cSP ∧ c ≠ cEQ

theorem numByte_of_floatChar (c : UInt8) (h : floatChar c = true) : numByte c := by
  have := floatChar_cases c h
  simp only [List.mem_cons, List.mem_nil_iff, or_false] at this
  rcases this with h|h|h|h|h|h|h|h|h|h|h|h|h|h|h <;> subst h <;> (unfold numByte; decide)

theorem numByte_of_digit (c : UInt8) (h : isDigit c = true) : numByte c :=
  numByte_of_floatChar c (by simp [floatChar, h])

/-! ### booleans -/

theorem lowerAZ_116 (c : UInt8) (h : lowerAZ c = 116) : c = 116 ∨ c = 84 := by
  unfold lowerAZ at h
  split at h
  · rename_i hc
    simp at hc
    have h1 := UInt8.le_iff_toNat_le.mp hc.1
    have h2 := UInt8.le_iff_toNat_le.mp hc.2
    have h3 := congrArg UInt8.toNat h
    simp [UInt8.toNat_add] at h3 h1 h2
    right
    apply UInt8.toNat_inj.mp
    simp; omega
  · left; exact h

theorem lowerAZ_102 (c : UInt8) (h : lowerAZ c = 102) : c = 102 ∨ c = 70 := by
  unfold lowerAZ at h
  split at h
  · rename_i hc
    simp at hc
    have h1 := UInt8.le_iff_toNat_le.mp hc.1
    have h2 := UInt8.le_iff_toNat_le.mp hc.2
    have h3 := congrArg UInt8.toNat h
    simp [UInt8.toNat_add] at h3 h1 h2
    right
    apply UInt8.toNat_inj.mp
    simp; omega
  · left; exact h

theorem boolOf_none (c : UInt8) (t : Bytes)
    (h1 : c ≠ 116) (h2 : c ≠ 84) (h3 : c ≠ 102) (h4 : c ≠ 70) : boolOf (c :: t) = none := by
  have e1 : (lowerAZ c == 116) = false := by
    cases hh : lowerAZ c == 116 with
    | false => rfl
    | true => rcases lowerAZ_116 c (by simpa using hh) with h | h <;> contradiction
  have e2 : (lowerAZ c == 102) = false := by
    cases hh : lowerAZ c == 102 with
    | false => rfl
    | true => rcases lowerAZ_102 c (by simpa using hh) with h | h <;> contradiction
  cases t with
  | nil => simp [boolOf, h1, h2, h3, h4]
  | cons d t' => simp [boolOf, eqFold, wTrue, wFalse, e1, e2]

theorem boolOf_boolText : ∀ (v : Bool) (k : Fin 5), boolOf (boolText v k) = some v := by decide

/-! ### trimSpace on a value that starts and ends in ASCII non-blanks -/

theorem trimSpace_ascii_ends (c : UInt8) (t : Bytes) (hc : c < 0x80) (hcs : isAsciiSpace c = false)
    (init : Bytes) (z : UInt8) (he : c :: t = init ++ [z]) (hz : z < 0x80) (hzs : isAsciiSpace z = false) :
    trimSpace (c :: t) = c :: t := by
  rw [he]
  apply trimSpace_id init z _ hz hzs
  rw [← he]; exact spacePrefixLen_ascii c t hc hcs

/-! ### integers -/

theorem digitsVal_all (ds : Bytes) (acc : Nat) (h : ds.all isDigit = true) :
    digitsVal acc ds = some (ds.foldl (fun a b => a * 10 + (b.toNat - 48)) acc) := by
  induction ds generalizing acc with
  | nil => simp [digitsVal]
  | cons b r ih =>
    simp only [List.all_cons, Bool.and_eq_true] at h
    simp [digitsVal, h.1, ih _ h.2]

theorem parseUint64_digits (ds : Bytes) (h : allDigits ds = true) (hr : digitsNat ds < 18446744073709551616) :
    parseUint64 ds = some (digitsNat ds) := by
  simp only [allDigits, Bool.and_eq_true, Bool.not_eq_true'] at h
  have := digitsVal_all ds 0 h.2
  simp only [parseUint64, h.1]
  simp [this, digitsNat] at hr ⊢
  exact hr

theorem parseInt64_signed (neg : Bool) (ds : Bytes) (h : allDigits ds = true)
    (hr : if neg then digitsNat ds ≤ 9223372036854775808 else digitsNat ds < 9223372036854775808) :
    parseInt64 (signText neg ++ ds) = some (signed neg (digitsNat ds)) := by
  have hu : parseUint64 ds = some (digitsNat ds) :=
    parseUint64_digits ds h (by split at hr <;> omega)
  cases neg with
  | true =>
    simp only [signText, if_true, List.cons_append, List.nil_append, parseInt64]
    simp only [if_true] at hr
    simp [hu, signed, hr]
  | false =>
    simp only [signText, List.nil_append]
    simp only [Bool.false_eq_true, if_false] at hr
    cases ds with
    | nil => simp [allDigits] at h
    | cons c r =>
      simp only [allDigits, List.all_cons, Bool.and_eq_true] at h
      obtain ⟨_, _, _, _, _, _, _, _, _, _, _, _, _⟩ := numByte_of_digit c h.2.1
      have c43 : c ≠ 43 := by
        intro hh; subst hh; exact absurd h.2.1 (by decide)
      have c45 : c ≠ 45 := by
        intro hh; subst hh; exact absurd h.2.1 (by decide)
      simp only [parseInt64]
      simp [c43, c45, hu, signed, hr]

/-! ### parseFieldValue on rendered values -/

theorem getLast?_concat (init : Bytes) (z : UInt8) : (init ++ [z]).getLast? = some z := by simp

theorem sanitizeUTF8_valid (s : Bytes) (h : validUTF8 s = true) : sanitizeUTF8 s = s := by
  simp [sanitizeUTF8, h]

theorem san_valid (valid : Bool) (s : Bytes) (h : validUTF8 s = true) : san valid s = s := by
  unfold san; split
  · rfl
  · exact sanitizeUTF8_valid s h

theorem strSet_isEsc (b : UInt8) (h : strSet b = true) : isEsc b = true := by
  simp [strSet] at h; rcases h with h | h <;> subst h <;> decide

theorem tagSet_isEsc (b : UInt8) (h : tagSet b = true) : isEsc b = true := by
  simp [tagSet] at h; rcases h with (h | h) | h <;> subst h <;> decide

theorem measSet_isEsc (b : UInt8) (h : measSet b = true) : isEsc b = true := by
  simp [measSet] at h; rcases h with h | h <;> subst h <;> decide

theorem strSet_isEscStr (b : UInt8) (h : strSet b = true) : isEscStr b = true := by
  simp [strSet] at h; rcases h with h | h <;> subst h <;> decide

theorem unescape_str (s : Bytes) : unescapeStr (escName strSet s) = s :=
  unescapeBy_escName isEscStr strSet s strSet_isEscStr (fun b _ hb => by subst hb; decide)

/-- `parseFieldValue` on a bare (unquoted, non-boolean) token with known first and last byte -/
theorem parseFieldValue_bare (pf : Bytes → Option UInt64) (valid : Bool) (c : UInt8) (t init : Bytes) (z : UInt8)
    (he : c :: t = init ++ [z]) (hc : numByte c) (hz1 : z < 0x80) (hz2 : isAsciiSpace z = false) :
    parseFieldValue pf valid (c :: t) =
      if z = 105 then (parseInt64 init).map GoVal.i64
      else if z = 117 then (parseUint64 init).map GoVal.u64
      else some (floatOrStr pf valid (c :: t)) := by
  obtain ⟨c1, c2, c3, c4, c5, c6, c7, _, _, _, _, _, _⟩ := hc
  have htrim := trimSpace_ascii_ends c t c1 c2 init z he hz1 hz2
  have hl : (c :: t).getLast? = some z := by rw [he]; simp
  have hd : (c :: t).dropLast = init := by rw [he]; simp
  simp only [parseFieldValue, htrim, boolOf_none c t c3 c4 c5 c6, hl, hd]
  simp [c7]

theorem parseFieldValue_render (pf : Bytes → Option UInt64) (valid : Bool) (v : FieldVal)
    (h : WFVal pf v = true) : parseFieldValue pf valid (renderVal v) = some (denoteVal pf v) := by
  cases v with
  | float lit =>
    simp only [WFVal, Bool.and_eq_true, Bool.not_eq_true', Option.isSome_iff_exists] at h
    obtain ⟨⟨hne, hall⟩, bits, hpf⟩ := h
    cases lit with
    | nil => simp at hne
    | cons c t =>
      have hc := numByte_of_floatChar c (by simp only [List.all_cons, Bool.and_eq_true] at hall; exact hall.1)
      obtain ⟨init, z, he⟩ : ∃ init z, c :: t = init ++ [z] :=
        ⟨(c :: t).dropLast, (c :: t).getLast (by simp), (List.dropLast_concat_getLast (by simp)).symm⟩
      have hzmem : z ∈ c :: t := by rw [he]; simp
      have hz := numByte_of_floatChar z (List.all_eq_true.mp hall z hzmem)
      obtain ⟨z1, z2, _, _, _, _, _, z8, z9, _, _, _, _⟩ := hz
      simp only [renderVal]
      rw [parseFieldValue_bare pf valid c t init z he hc z1 z2]
      simp [z8, z9, hpf, denoteVal, floatOrStr]
  | int neg ds =>
    simp only [WFVal, Bool.and_eq_true] at h
    obtain ⟨hd, hr⟩ := h
    have hr' : if neg then digitsNat ds ≤ 9223372036854775808 else digitsNat ds < 9223372036854775808 := by
      cases neg <;> simpa using hr
    have hp := parseInt64_signed neg ds hd hr'
    obtain ⟨c, t, hct, hcn⟩ : ∃ c t, signText neg ++ ds ++ [105] = c :: t ∧ numByte c := by
      cases neg with
      | true => exact ⟨45, ds ++ [105], by simp [signText], by unfold numByte; decide⟩
      | false =>
        cases ds with
        | nil => simp [allDigits] at hd
        | cons c r =>
          simp only [allDigits, List.all_cons, Bool.and_eq_true] at hd
          exact ⟨c, r ++ [105], by simp [signText], numByte_of_digit c hd.2.1⟩
    simp only [renderVal, hct]
    rw [parseFieldValue_bare pf valid c t (signText neg ++ ds) 105 hct.symm hcn (by decide) (by decide)]
    simp [hp, denoteVal]
  | uint ds =>
    simp only [WFVal, Bool.and_eq_true, decide_eq_true_eq] at h
    obtain ⟨hd, hr⟩ := h
    have hp := parseUint64_digits ds hd hr
    cases ds with
    | nil => simp [allDigits] at hd
    | cons c r =>
      have hcn : numByte c := by
        simp only [allDigits, List.all_cons, Bool.and_eq_true] at hd
        exact numByte_of_digit c hd.2.1
      simp only [renderVal, List.cons_append]
      rw [parseFieldValue_bare pf valid c (r ++ [117]) (c :: r) 117 (by simp) hcn (by decide) (by decide)]
      simp [hp, denoteVal]
  | str s =>
    simp only [WFVal, Bool.and_eq_true] at h
    have htrim := trimSpace_ascii_ends cDQ (escName strSet s ++ [cDQ]) (by decide) (by decide)
      (cDQ :: escName strSet s) cDQ (by simp) (by decide) (by decide)
    have hl : (cDQ :: (escName strSet s ++ [cDQ])).getLast? = some cDQ :=
      getLast?_concat (cDQ :: escName strSet s) cDQ
    have hd : ((cDQ :: (escName strSet s ++ [cDQ])).drop 1).dropLast = escName strSet s := by simp
    simp only [renderVal, parseFieldValue, htrim,
      boolOf_none cDQ _ (by decide) (by decide) (by decide) (by decide), hl, hd]
    simp [unescape_str, san_valid valid s h.2, denoteVal]
  | bool v k =>
    have hb := boolOf_boolText v k
    have htrim : ∀ (v : Bool) (k : Fin 5), ∃ c t init z, boolText v k = c :: t ∧ c :: t = init ++ [z] ∧
        c < 0x80 ∧ isAsciiSpace c = false ∧ z < 0x80 ∧ isAsciiSpace z = false := by
      intro v k
      cases v <;> (rcases k with ⟨k, hk⟩; have : k = 0 ∨ k = 1 ∨ k = 2 ∨ k = 3 ∨ k = 4 := by omega
                   rcases this with h|h|h|h|h <;> subst h <;> simp only [boolText])
      · exact ⟨102, [], [], 102, rfl, rfl, by decide, by decide, by decide, by decide⟩
      · exact ⟨70, [], [], 70, rfl, rfl, by decide, by decide, by decide, by decide⟩
      · exact ⟨102, [97, 108, 115, 101], [102, 97, 108, 115], 101, rfl, rfl, by decide, by decide, by decide, by decide⟩
      · exact ⟨70, [97, 108, 115, 101], [70, 97, 108, 115], 101, rfl, rfl, by decide, by decide, by decide, by decide⟩
      · exact ⟨70, [65, 76, 83, 69], [70, 65, 76, 83], 69, rfl, rfl, by decide, by decide, by decide, by decide⟩
      · exact ⟨116, [], [], 116, rfl, rfl, by decide, by decide, by decide, by decide⟩
      · exact ⟨84, [], [], 84, rfl, rfl, by decide, by decide, by decide, by decide⟩
      · exact ⟨116, [114, 117, 101], [116, 114, 117], 101, rfl, rfl, by decide, by decide, by decide, by decide⟩
      · exact ⟨84, [114, 117, 101], [84, 114, 117], 101, rfl, rfl, by decide, by decide, by decide, by decide⟩
      · exact ⟨84, [82, 85, 69], [84, 82, 85], 69, rfl, rfl, by decide, by decide, by decide, by decide⟩
    obtain ⟨c, t, init, z, hbt, he, c1, c2, z1, z2⟩ := htrim v k
    have ht := trimSpace_ascii_ends c t c1 c2 init z he z1 z2
    simp only [renderVal, hbt] at hb ⊢
    simp [parseFieldValue, ht, hb, denoteVal]

end Arc.C01
