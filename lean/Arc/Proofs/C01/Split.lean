import Arc.Spec.C01
/-! C01 helper lemmas: `splitRaw` / `splitOn` on rendered text, `unescape ∘ escName`, `cutAt`. -/
namespace Arc.C01

/-! ### consHead -/

theorem consHead_append (a b : Bytes) (X : List Bytes) :
    consHead a (consHead b X) = consHead (a ++ b) X := by
  cases X <;> simp [consHead]

theorem consHead_nil (X : List Bytes) (h : X ≠ []) : consHead [] X = X := by
  cases X with
  | nil => exact absurd rfl h
  | cons s ss => simp [consHead]

theorem consHead_ne_nil (a : Bytes) (X : List Bytes) : consHead a X ≠ [] := by
  cases X <;> simp [consHead]

theorem dq_ne_bs : cDQ ≠ cBS := by decide
theorem bs_ne_dq : cBS ≠ cDQ := by decide

theorem splitRaw_ne_nil (d : UInt8) (q : Bool) (s : Bytes) : splitRaw d q s ≠ [] := by
  match s with
  | [] => simp [splitRaw]
  | [b] => simp only [splitRaw]; split <;> (try split) <;> simp
  | b :: c :: r =>
    simp only [splitRaw]
    split
    · exact consHead_ne_nil _ _
    · split
      · exact consHead_ne_nil _ _
      · split
        · simp
        · exact consHead_ne_nil _ _

/-! ### one-step equations of `splitRaw` (uniform in the shape of the rest) -/

theorem splitRaw_plain (d : UInt8) (q : Bool) (b : UInt8) (rest : Bytes)
    (h1 : b ≠ cBS) (h2 : b ≠ cDQ) (h3 : ¬(b = d ∧ q = false)) :
    splitRaw d q (b :: rest) = consHead [b] (splitRaw d q rest) := by
  cases rest with
  | nil => simp [splitRaw, h2, h3, consHead]
  | cons c r => simp [splitRaw, h1, h2, h3]

theorem splitRaw_quote (d : UInt8) (q : Bool) (rest : Bytes) :
    splitRaw d q (cDQ :: rest) = consHead [cDQ] (splitRaw d (!q) rest) := by
  cases rest with
  | nil => simp [splitRaw, consHead]
  | cons c r => simp [splitRaw, dq_ne_bs]

theorem splitRaw_esc (d : UInt8) (q : Bool) (c : UInt8) (r : Bytes) :
    splitRaw d q (cBS :: c :: r) = consHead [cBS, c] (splitRaw d q r) := by
  simp [splitRaw]

theorem splitRaw_delim (d : UInt8) (rest : Bytes) (h1 : d ≠ cBS) (h2 : d ≠ cDQ) :
    splitRaw d false (d :: rest) = [] :: splitRaw d false rest := by
  cases rest with
  | nil => simp [splitRaw, h2]
  | cons c r => simp [splitRaw, h1, h2]

/-! ### scanning a chunk that contains no live delimiter -/

/-- final quote state after scanning `s` from state `q`, `none` if an unquoted, unescaped delimiter
is met or the chunk ends in a dangling backslash -/
def scan (d : UInt8) : Bool → Bytes → Option Bool
  | q, [] => some q
  | q, [b] => if b = cBS then none else if b = cDQ then some (!q) else if b = d ∧ q = false then none else some q
  | q, b :: c :: r =>
    if b = cBS then scan d q r
    else if b = cDQ then scan d (!q) (c :: r)
    else if b = d ∧ q = false then none
    else scan d q (c :: r)

theorem scan_plain (d : UInt8) (q : Bool) (b : UInt8) (rest : Bytes)
    (h1 : b ≠ cBS) (h2 : b ≠ cDQ) (h3 : ¬(b = d ∧ q = false)) :
    scan d q (b :: rest) = scan d q rest := by
  cases rest with
  | nil => simp [scan, h1, h2, h3]
  | cons c r => simp [scan, h1, h2, h3]

theorem scan_quote (d : UInt8) (q : Bool) (rest : Bytes) :
    scan d q (cDQ :: rest) = scan d (!q) rest := by
  cases rest with
  | nil => simp [scan, dq_ne_bs]
  | cons c r => simp [scan, dq_ne_bs]

theorem scan_esc (d : UInt8) (q : Bool) (c : UInt8) (r : Bytes) :
    scan d q (cBS :: c :: r) = scan d q r := by
  simp [scan]

theorem splitRaw_chunk_aux (d : UInt8) (n : Nat) : ∀ (C : Bytes), C.length ≤ n → ∀ (q q' : Bool) (R : Bytes),
    scan d q C = some q' → splitRaw d q (C ++ R) = consHead C (splitRaw d q' R) := by
  induction n with
  | zero =>
    intro C hC q q' R h
    have : C = [] := List.length_eq_zero_iff.mp (by omega)
    subst this
    simp [scan] at h; subst h
    simp [consHead_nil _ (splitRaw_ne_nil d q R)]
  | succ n ihn => ?_
  intro C hC q q' R h
  have ih : ∀ (C' : Bytes), C'.length < C.length → ∀ (q q' : Bool) (R : Bytes),
      scan d q C' = some q' → splitRaw d q (C' ++ R) = consHead C' (splitRaw d q' R) :=
    fun C' hlt => ihn C' (by omega)
  match C, ih with
  | [], _ =>
    simp [scan] at h; subst h
    simp [consHead_nil _ (splitRaw_ne_nil d q R)]
  | [b], _ =>
    by_cases hb : b = cBS
    · simp [scan, hb] at h
    · by_cases hq : b = cDQ
      · subst hq
        rw [scan_quote] at h; simp [scan] at h; subst h
        simp [splitRaw_quote]
      · by_cases hd : b = d ∧ q = false
        · obtain ⟨hbd, hq0⟩ := hd; subst hbd; subst hq0; simp [scan, hb, hq] at h
        · simp [scan, hb, hq, hd] at h; subst h
          simp [splitRaw_plain d q b R hb hq hd]
  | b :: c :: r, ih =>
    by_cases hb : b = cBS
    · subst hb
      rw [scan_esc] at h
      have := ih r (by simp; omega) q q' R h
      simp only [List.cons_append]
      rw [splitRaw_esc, this, consHead_append]; rfl
    · by_cases hq : b = cDQ
      · subst hq
        rw [scan_quote] at h
        have := ih (c :: r) (by simp) (!q) q' R h
        simp only [List.cons_append] at this ⊢
        rw [splitRaw_quote, this, consHead_append]; rfl
      · by_cases hd : b = d ∧ q = false
        · obtain ⟨hbd, hq0⟩ := hd; subst hbd; subst hq0; simp [scan, hb, hq] at h
        · rw [scan_plain d q b (c :: r) hb hq hd] at h
          have := ih (c :: r) (by simp) q q' R h
          simp only [List.cons_append] at this ⊢
          rw [splitRaw_plain d q b _ hb hq hd, this, consHead_append]; rfl

/-- a scanned chunk stays in one segment -/
theorem splitRaw_chunk (d : UInt8) (C : Bytes) (q q' : Bool) (R : Bytes)
    (h : scan d q C = some q') : splitRaw d q (C ++ R) = consHead C (splitRaw d q' R) :=
  splitRaw_chunk_aux d C.length C (Nat.le_refl _) q q' R h

theorem scan_append_aux (d : UInt8) (n : Nat) : ∀ (A : Bytes), A.length ≤ n → ∀ (q q' : Bool) (B : Bytes),
    scan d q A = some q' → scan d q (A ++ B) = scan d q' B := by
  induction n with
  | zero =>
    intro A hA q q' B h
    have : A = [] := List.length_eq_zero_iff.mp (by omega)
    subst this
    simp [scan] at h; subst h; rfl
  | succ n ihn => ?_
  intro A hA q q' B h
  have ih : ∀ (A' : Bytes), A'.length < A.length → ∀ (q q' : Bool) (B : Bytes),
      scan d q A' = some q' → scan d q (A' ++ B) = scan d q' B :=
    fun A' hlt => ihn A' (by omega)
  match A, ih with
  | [], _ => simp [scan] at h; subst h; rfl
  | [b], _ =>
    by_cases hb : b = cBS
    · simp [scan, hb] at h
    · by_cases hq : b = cDQ
      · subst hq; rw [scan_quote] at h; simp [scan] at h; subst h; simp [scan_quote]
      · by_cases hd : b = d ∧ q = false
        · obtain ⟨hbd, hq0⟩ := hd; subst hbd; subst hq0; simp [scan, hb, hq] at h
        · simp [scan, hb, hq, hd] at h; subst h
          simp [scan_plain d q b B hb hq hd]
  | b :: c :: r, ih =>
    by_cases hb : b = cBS
    · subst hb
      rw [scan_esc] at h
      simp only [List.cons_append]
      rw [scan_esc]; exact ih r (by simp; omega) q q' B h
    · by_cases hq : b = cDQ
      · subst hq
        rw [scan_quote] at h
        simp only [List.cons_append]
        rw [scan_quote]; exact ih (c :: r) (by simp) (!q) q' B h
      · by_cases hd : b = d ∧ q = false
        · obtain ⟨hbd, hq0⟩ := hd; subst hbd; subst hq0; simp [scan, hb, hq] at h
        · rw [scan_plain d q b (c :: r) hb hq hd] at h
          simp only [List.cons_append]
          rw [scan_plain d q b _ hb hq hd]; exact ih (c :: r) (by simp) q q' B h

theorem scan_append (d : UInt8) (A : Bytes) (q q' : Bool) (B : Bytes)
    (h : scan d q A = some q') : scan d q (A ++ B) = scan d q' B :=
  scan_append_aux d A.length A (Nat.le_refl _) q q' B h

/-! ### escaped names are inert chunks -/

/-- every byte left unescaped is neither a backslash, nor a quote, nor (outside quotes) the delimiter -/
def inertFor (set : UInt8 → Bool) (d : UInt8) (q : Bool) (s : Bytes) : Prop :=
  ∀ b ∈ s, set b = false → b ≠ cBS ∧ b ≠ cDQ ∧ (q = false → b ≠ d)

theorem scan_escName (set : UInt8 → Bool) (d : UInt8) (q : Bool) (s : Bytes)
    (h : inertFor set d q s) : scan d q (escName set s) = some q := by
  induction s with
  | nil => simp [escName, scan]
  | cons b r ih =>
    have ihr := ih (fun x hx => h x (by simp [hx]))
    by_cases hs : set b = true
    · simp only [escName, hs, if_true]
      rw [scan_esc]; exact ihr
    · have hs' : set b = false := by simpa using hs
      obtain ⟨h1, h2, h3⟩ := h b (by simp) hs'
      simp only [escName, hs']
      rw [show (if false = true then cBS :: b :: escName set r else b :: escName set r) = b :: escName set r from rfl]
      rw [scan_plain d q b _ h1 h2 (by intro ⟨hbd, hq⟩; exact h3 hq hbd)]
      exact ihr

/-! ### unescape ∘ escName -/

theorem unescapeBy_escName (esc set : UInt8 → Bool) (s : Bytes)
    (hset : ∀ b, set b = true → esc b = true)
    (hbs : ∀ b ∈ s, b = cBS → set b = true) :
    unescapeBy esc (escName set s) = s := by
  induction s with
  | nil => simp [escName, unescapeBy]
  | cons b r ih =>
    have ihr := ih (fun x hx => hbs x (by simp [hx]))
    by_cases hs : set b = true
    · simp only [escName, hs, if_true]
      simp [unescapeBy, hset b hs, ihr]
    · have hs' : set b = false := by simpa using hs
      have hb : b ≠ cBS := fun hb => by have := hbs b (by simp) hb; simp [this] at hs
      simp only [escName, hs']
      rw [show (if false = true then cBS :: b :: escName set r else b :: escName set r) = b :: escName set r from rfl]
      cases hr : escName set r with
      | nil => rw [hr] at ihr; simp [unescapeBy] at ihr; simp [unescapeBy, ← ihr]
      | cons c t => rw [hr] at ihr; simp [unescapeBy, hb, ihr]

theorem unescape_escName (set : UInt8 → Bool) (s : Bytes)
    (hset : ∀ b, set b = true → isEsc b = true)
    (hbs : ∀ b ∈ s, b = cBS → set b = true) :
    unescape (escName set s) = s :=
  unescapeBy_escName isEsc set s hset hbs

/-! ### cutAt -/

theorem cutAt_append (d : UInt8) (A B : Bytes) (h : ∀ b ∈ A, b ≠ d) :
    cutAt d (A ++ d :: B) = some (A, B) := by
  induction A with
  | nil => simp [cutAt]
  | cons a r ih =>
    have ha : a ≠ d := h a (by simp)
    have := ih (fun x hx => h x (by simp [hx]))
    simp [cutAt, ha, this]

/-- the escape-aware cut finds the separator after an escaped name, also when the name itself
contains (escaped) separators -/
theorem cutAtEsc_escName (set : UInt8 → Bool) (d : UInt8) (k rest : Bytes) (hd : set d = true) (hd2 : d ≠ cBS)
    (hbs : ∀ b ∈ k, b ≠ cBS) :
    cutAtEsc d (escName set k ++ d :: rest) = some (escName set k, rest) := by
  induction k with
  | nil =>
    cases rest with
    | nil => simp [escName, cutAtEsc]
    | cons c r => simp [escName, cutAtEsc, hd2]
  | cons b r ih =>
    have ihr := ih (fun x hx => hbs x (by simp [hx]))
    by_cases hs : set b = true
    · simp only [escName, hs, if_true, List.cons_append]
      simp [cutAtEsc, ihr]
    · have hs' : set b = false := by simpa using hs
      have hb : b ≠ cBS := hbs b (by simp)
      have hbd : b ≠ d := by intro h; subst h; rw [hd] at hs'; exact absurd hs' (by simp)
      simp only [escName, hs']
      rw [show (if false = true then cBS :: b :: escName set r else b :: escName set r) = b :: escName set r from rfl]
      rw [List.cons_append]
      cases htl : escName set r ++ d :: rest with
      | nil => simp at htl
      | cons c t =>
        rw [htl] at ihr
        simp [cutAtEsc, hb, hbd, ihr]

theorem mem_escName (set : UInt8 → Bool) (s : Bytes) (x : UInt8) (hx : x ∈ escName set s) :
    x = cBS ∨ x ∈ s := by
  induction s with
  | nil => simp [escName] at hx
  | cons b r ih =>
    by_cases hs : set b = true
    · simp only [escName, hs, if_true, List.mem_cons] at hx
      rcases hx with hx | hx | hx
      · exact Or.inl hx
      · exact Or.inr (by simp [hx])
      · rcases ih hx with h | h
        · exact Or.inl h
        · exact Or.inr (by simp [h])
    · have hs' : set b = false := by simpa using hs
      simp only [escName, hs'] at hx
      rw [show (if false = true then cBS :: b :: escName set r else b :: escName set r) = b :: escName set r from rfl] at hx
      simp only [List.mem_cons] at hx
      rcases hx with hx | hx
      · exact Or.inr (by simp [hx])
      · rcases ih hx with h | h
        · exact Or.inl h
        · exact Or.inr (by simp [h])

theorem escName_ne_nil (set : UInt8 → Bool) (s : Bytes) (h : s ≠ []) : escName set s ≠ [] := by
  cases s with
  | nil => exact absurd rfl h
  | cons b r => simp only [escName]; split <;> simp

end Arc.C01
