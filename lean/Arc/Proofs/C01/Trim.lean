import Arc.Spec.C01
/-! C01 helper lemmas: `trimSpace` around a rendered core. -/
namespace Arc.C01

theorem blank_isAsciiSpace (b : UInt8) (h : blank b = true) : isAsciiSpace b = true := by
  simp [blank] at h
  rcases h with (((h | h) | h) | h) | h <;> subst h <;> decide

theorem spacePrefixLen_space (b : UInt8) (rest : Bytes) (h : isAsciiSpace b = true) :
    spacePrefixLen (b :: rest) = 1 := by
  match rest with
  | [] => simp [spacePrefixLen, h]
  | [c] => simp [spacePrefixLen, h]
  | c :: e :: t => simp [spacePrefixLen, h]

theorem spaceSuffixLenR_space (b : UInt8) (rest : Bytes) (h : isAsciiSpace b = true) :
    spaceSuffixLenR (b :: rest) = 1 := by
  match rest with
  | [] => simp [spaceSuffixLenR, h]
  | [c] => simp [spaceSuffixLenR, h]
  | c :: e :: t => simp [spaceSuffixLenR, h]

theorem uniSpace2_lt (a b : UInt8) (ha : a < 0x80) : uniSpace2 a b = false := by
  have : a ≠ 0xC2 := by intro h; subst h; exact absurd ha (by decide)
  simp [uniSpace2, this]

theorem uniSpace3_lt (a b c : UInt8) (ha : a < 0x80) : uniSpace3 a b c = false := by
  have h1 : a ≠ 0xE1 := by intro h; subst h; exact absurd ha (by decide)
  have h2 : a ≠ 0xE2 := by intro h; subst h; exact absurd ha (by decide)
  have h3 : a ≠ 0xE3 := by intro h; subst h; exact absurd ha (by decide)
  simp [uniSpace3, h1, h2, h3]

/-- a byte < 0x80 that is not an ASCII space starts no strippable rune, whatever follows -/
theorem spacePrefixLen_ascii (z : UInt8) (r : Bytes) (hz : z < 0x80) (hs : isAsciiSpace z = false) :
    spacePrefixLen (z :: r) = 0 := by
  match r with
  | [] => simp [spacePrefixLen, hs]
  | [c] => simp [spacePrefixLen, hs, uniSpace2_lt z c hz]
  | c :: e :: t => simp [spacePrefixLen, hs, uniSpace2_lt z c hz, uniSpace3_lt z c e hz]

/-- the last byte decides in the reversed view: the candidate sequences END in a byte ≥ 0x80 -/
theorem spaceSuffixLenR_ascii (z : UInt8) (r : Bytes) (hz : z < 0x80) (hs : isAsciiSpace z = false) :
    spaceSuffixLenR (z :: r) = 0 := by
  have h85 : z ≠ 0x85 := by intro h; subst h; exact absurd hz (by decide)
  have hA0 : z ≠ 0xA0 := by intro h; subst h; exact absurd hz (by decide)
  have h80 : ¬ (0x80 ≤ z) := by
    intro h; exact absurd hz (by simpa [UInt8.not_lt] using h)
  have hne : ∀ k : UInt8, 0x80 ≤ k → z ≠ k := by
    intro k hk h; subst h; exact h80 hk
  match r with
  | [] => simp [spaceSuffixLenR, hs]
  | [c] => simp [spaceSuffixLenR, hs, uniSpace2, h85, hA0]
  | c :: e :: t =>
    have : uniSpace3 e c z = false := by
      simp [uniSpace3, h80, hne 0x80 (by decide), hne 0xA8 (by decide), hne 0xA9 (by decide),
        hne 0xAF (by decide), hne 0x9F (by decide)]
    simp [spaceSuffixLenR, hs, uniSpace2, h85, hA0, this]

theorem trimLeftN_of_zero (n : Nat) (s : Bytes) (h : spacePrefixLen s = 0) : trimLeftN n s = s := by
  cases n <;> simp [trimLeftN, h]

theorem trimRightRN_of_zero (n : Nat) (s : Bytes) (h : spaceSuffixLenR s = 0) : trimRightRN n s = s := by
  cases n <;> simp [trimRightRN, h]

theorem trimLeft_of_zero (s : Bytes) (h : spacePrefixLen s = 0) : trimLeft s = s :=
  trimLeftN_of_zero _ s h

theorem trimRightR_of_zero (s : Bytes) (h : spaceSuffixLenR s = 0) : trimRightR s = s :=
  trimRightRN_of_zero _ s h

theorem trimLeftN_blanks (lead core : Bytes) (hl : lead.all blank = true) (hc : spacePrefixLen core = 0) :
    ∀ n, lead.length ≤ n → trimLeftN n (lead ++ core) = core := by
  induction lead with
  | nil => intro n _; simpa using trimLeftN_of_zero n core hc
  | cons b r ih =>
    intro n hn
    simp only [List.all_cons, Bool.and_eq_true] at hl
    have h1 := spacePrefixLen_space b (r ++ core) (blank_isAsciiSpace b hl.1)
    cases n with
    | zero => simp at hn
    | succ m =>
      rw [List.cons_append, trimLeftN]
      simp only [h1, Nat.succ_ne_zero, if_false, List.drop_succ_cons, List.drop_zero]
      exact ih hl.2 m (by simp at hn; omega)

theorem trimRightRN_blanks (trailR coreR : Bytes) (ht : trailR.all blank = true)
    (hc : spaceSuffixLenR coreR = 0) : ∀ n, trailR.length ≤ n → trimRightRN n (trailR ++ coreR) = coreR := by
  induction trailR with
  | nil => intro n _; simpa using trimRightRN_of_zero n coreR hc
  | cons b r ih =>
    intro n hn
    simp only [List.all_cons, Bool.and_eq_true] at ht
    have h1 := spaceSuffixLenR_space b (r ++ coreR) (blank_isAsciiSpace b ht.1)
    cases n with
    | zero => simp at hn
    | succ m =>
      rw [List.cons_append, trimRightRN]
      simp only [h1, Nat.succ_ne_zero, if_false, List.drop_succ_cons, List.drop_zero]
      exact ih ht.2 m (by simp at hn; omega)

theorem trimLeft_blanks (lead core : Bytes) (hl : lead.all blank = true) (hc : spacePrefixLen core = 0) :
    trimLeft (lead ++ core) = core :=
  trimLeftN_blanks lead core hl hc _ (by simp)

theorem trimRightR_blanks (trailR coreR : Bytes) (ht : trailR.all blank = true)
    (hc : spaceSuffixLenR coreR = 0) : trimRightR (trailR ++ coreR) = coreR :=
  trimRightRN_blanks trailR coreR ht hc _ (by simp)

/-- MAIN: a core that does not start with a strippable rune (whatever is appended) and ends in an
ASCII non-space byte is exactly what TrimSpace returns when blanks are put around it. -/
theorem trimSpace_around (lead init trail : Bytes) (z : UInt8)
    (hl : lead.all blank = true) (ht : trail.all blank = true)
    (h0 : spacePrefixLen ((init ++ [z]) ++ trail) = 0)
    (hz : z < 0x80) (hs : isAsciiSpace z = false) :
    trimSpace (lead ++ ((init ++ [z]) ++ trail)) = init ++ [z] := by
  unfold trimSpace
  rw [trimLeft_blanks lead _ hl h0]
  have hrev : ((init ++ [z]) ++ trail).reverse = trail.reverse ++ (z :: init.reverse) := by simp
  rw [hrev, trimRightR_blanks _ _ (by simpa using ht) (spaceSuffixLenR_ascii z _ hz hs)]
  simp

theorem trimSpace_id (init : Bytes) (z : UInt8)
    (h0 : spacePrefixLen (init ++ [z]) = 0) (hz : z < 0x80) (hs : isAsciiSpace z = false) :
    trimSpace (init ++ [z]) = init ++ [z] := by
  unfold trimSpace
  rw [trimLeft_of_zero _ h0]
  have hrev : (init ++ [z]).reverse = z :: init.reverse := by simp
  rw [hrev, trimRightR_of_zero _ (spaceSuffixLenR_ascii z _ hz hs)]
  simp

theorem spacePrefixLen_cons_ascii_append (c : UInt8) (s r : Bytes) (hc : c < 0x80)
    (hs : isAsciiSpace c = false) : spacePrefixLen ((c :: s) ++ r) = 0 := by
  rw [List.cons_append]; exact spacePrefixLen_ascii c _ hc hs

/-- `spacePrefixLen` looks at no more than three bytes: a zero on a string of ≥ 3 bytes, or a zero
that is stable under one and two appended bytes, is stable under appending anything. -/
theorem spacePrefixLen_append_of_three (a b c : UInt8) (t r : Bytes)
    (h : spacePrefixLen (a :: b :: c :: t) = 0) : spacePrefixLen ((a :: b :: c :: t) ++ r) = 0 := by
  simpa [spacePrefixLen] using h

theorem ne_of_lt80 (x k : UInt8) (hx : x < 0x80) (hk : 0x80 ≤ k) : x ≠ k := by
  intro h; subst h
  exact absurd hx (by simpa [UInt8.not_lt] using hk)

theorem uniSpace2_snd_lt (a x : UInt8) (hx : x < 0x80) : uniSpace2 a x = false := by
  simp [uniSpace2, ne_of_lt80 x 0x85 hx (by decide), ne_of_lt80 x 0xA0 hx (by decide)]

theorem uniSpace3_mid_lt (a x y : UInt8) (hx : x < 0x80) : uniSpace3 a x y = false := by
  simp [uniSpace3, ne_of_lt80 x 0x9A hx (by decide), ne_of_lt80 x 0x80 hx (by decide),
    ne_of_lt80 x 0x81 hx (by decide)]

theorem uniSpace3_last_lt (a b x : UInt8) (hx : x < 0x80) : uniSpace3 a b x = false := by
  have h80 : ¬ (0x80 ≤ x) := by
    intro h; exact absurd hx (by simpa [UInt8.not_lt] using h)
  simp [uniSpace3, h80, ne_of_lt80 x 0x80 hx (by decide), ne_of_lt80 x 0xA8 hx (by decide),
    ne_of_lt80 x 0xA9 hx (by decide), ne_of_lt80 x 0xAF hx (by decide), ne_of_lt80 x 0x9F hx (by decide)]

/-- a non-empty string that starts with no strippable rune still starts with none when something
beginning with an ASCII byte is appended -/
theorem spacePrefixLen_append_ascii (s : Bytes) (x : UInt8) (r : Bytes) (hs : s ≠ [])
    (h : spacePrefixLen s = 0) (hx : x < 0x80) : spacePrefixLen (s ++ x :: r) = 0 := by
  match s, hs, h with
  | [a], _, h =>
    have ha : isAsciiSpace a = false := by
      cases hsp : isAsciiSpace a with
      | false => rfl
      | true => simp [spacePrefixLen, hsp] at h
    match r with
    | [] => simp [spacePrefixLen, ha, uniSpace2_snd_lt a x hx]
    | y :: t => simp [spacePrefixLen, ha, uniSpace2_snd_lt a x hx, uniSpace3_mid_lt a x y hx]
  | [a, b], _, h =>
    have ha : isAsciiSpace a = false := by
      cases hsp : isAsciiSpace a with
      | false => rfl
      | true => simp [spacePrefixLen, hsp] at h
    have h2 : uniSpace2 a b = false := by
      cases hu : uniSpace2 a b with
      | false => rfl
      | true => simp [spacePrefixLen, ha, hu] at h
    simp [spacePrefixLen, ha, h2, uniSpace3_last_lt a b x hx]
  | a :: b :: c :: t, _, h => simpa [spacePrefixLen] using h

end Arc.C01
