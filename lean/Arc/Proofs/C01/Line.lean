import Arc.Proofs.C01.Values
/-! C01 helper lemmas: the whole rendered line through `parseLine`. -/
namespace Arc.C01

/-! ### plain chunks -/

theorem scan_plainAll (d : UInt8) (q : Bool) (s : Bytes)
    (h : ∀ b ∈ s, b ≠ cBS ∧ b ≠ cDQ ∧ b ≠ d) : scan d q s = some q := by
  induction s with
  | nil => simp [scan]
  | cons b r ih =>
    obtain ⟨h1, h2, h3⟩ := h b (by simp)
    rw [scan_plain d q b r h1 h2 (fun hh => h3 hh.1)]
    exact ih (fun x hx => h x (by simp [hx]))

theorem not_contains (s : Bytes) (x : UInt8) (h : s.contains x = false) : ∀ b ∈ s, b ≠ x := by
  intro b hb hbx
  subst hbx
  have : s.contains b = true := by simpa using hb
  rw [this] at h; exact absurd h (by simp)

structure NameFacts (s : Bytes) : Prop where
  ne : s ≠ []
  noDQ : ∀ b ∈ s, b ≠ cDQ
  noBS : ∀ b ∈ s, b ≠ cBS
  noNL : ∀ b ∈ s, b ≠ cNL

theorem nameFacts (s : Bytes) (h : nameOK s = true) : NameFacts s := by
  simp only [nameOK, noNL, Bool.and_eq_true, Bool.not_eq_true'] at h
  obtain ⟨⟨⟨h1, h2⟩, h3⟩, h4⟩ := h
  exact ⟨by intro hs; subst hs; simp at h1, not_contains s cDQ h3, not_contains s cBS h4,
    not_contains s cNL h2⟩

/-- `d` is a delimiter that both escape sets cover -/
def isDelim (d : UInt8) : Prop := d = cSP ∨ d = cCM

theorem scan_name (set : UInt8 → Bool) (d : UInt8) (q : Bool) (s : Bytes) (hs : NameFacts s)
    (hd : set d = true) : scan d q (escName set s) = some q := by
  apply scan_escName
  intro b hb hset
  refine ⟨hs.noBS b hb, hs.noDQ b hb, fun _ hbd => ?_⟩
  subst hbd; rw [hd] at hset; exact absurd hset (by simp)

theorem tagSet_delim (d : UInt8) (h : isDelim d) : tagSet d = true := by
  rcases h with h | h <;> subst h <;> decide

theorem measSet_delim (d : UInt8) (h : isDelim d) : measSet d = true := by
  rcases h with h | h <;> subst h <;> decide

theorem delim_ne (d : UInt8) (h : isDelim d) : d ≠ cBS ∧ d ≠ cDQ ∧ d ≠ cEQ := by
  rcases h with h | h <;> subst h <;> decide

theorem numByte_plain (d : UInt8) (hd : isDelim d) (b : UInt8) (h : numByte b) :
    b ≠ cBS ∧ b ≠ cDQ ∧ b ≠ d := by
  obtain ⟨_, _, _, _, _, _, h7, _, _, h10, h11, h12, _⟩ := h
  refine ⟨h10, h7, ?_⟩
  rcases hd with hd | hd <;> subst hd <;> assumption

theorem lit_plain (d : UInt8) (hd : isDelim d) (b : UInt8) (hb : b = 45 ∨ b = 105 ∨ b = 117) :
    b ≠ cBS ∧ b ≠ cDQ ∧ b ≠ d := by
  rcases hd with hd | hd <;> subst hd <;> rcases hb with hb | hb | hb <;> subst hb <;> decide

theorem boolText_plain : ∀ (v : Bool) (k : Fin 5),
    (boolText v k).all (fun b => b != cBS && b != cDQ && b != cSP && b != cCM) = true := by decide

theorem digits_numByte (ds : Bytes) (h : ds.all isDigit = true) : ∀ b ∈ ds, numByte b :=
  fun b hb => numByte_of_digit b (List.all_eq_true.mp h b hb)

theorem scan_renderVal (pf : Bytes → Option UInt64) (d : UInt8) (hd : isDelim d) (v : FieldVal)
    (h : WFVal pf v = true) : scan d false (renderVal v) = some false := by
  cases v with
  | float lit =>
    simp only [WFVal, Bool.and_eq_true] at h
    exact scan_plainAll d false lit
      (fun b hb => numByte_plain d hd b (numByte_of_floatChar b (List.all_eq_true.mp h.1.2 b hb)))
  | int neg ds =>
    simp only [WFVal, Bool.and_eq_true, allDigits] at h
    apply scan_plainAll
    intro b hb
    simp only [renderVal, signText, List.mem_append, List.mem_singleton] at hb
    rcases hb with (hb | hb) | hb
    · cases neg <;> simp at hb; exact lit_plain d hd b (Or.inl hb)
    · exact numByte_plain d hd b (digits_numByte ds h.1.2 b hb)
    · exact lit_plain d hd b (Or.inr (Or.inl hb))
  | uint ds =>
    simp only [WFVal, Bool.and_eq_true, allDigits] at h
    apply scan_plainAll
    intro b hb
    simp only [renderVal, List.mem_append, List.mem_singleton] at hb
    rcases hb with hb | hb
    · exact numByte_plain d hd b (digits_numByte ds h.1.2 b hb)
    · exact lit_plain d hd b (Or.inr (Or.inr hb))
  | str s =>
    simp only [renderVal]
    rw [scan_quote]
    have h1 : scan d (!false) (escName strSet s) = some true := by
      apply scan_escName
      intro b _ hset
      simp only [strSet, Bool.or_eq_false_iff, beq_eq_false_iff_ne] at hset
      exact ⟨hset.2, hset.1, fun hq => by simp at hq⟩
    rw [scan_append d _ _ _ _ h1, scan_quote]
    simp [scan]
  | bool v k =>
    apply scan_plainAll
    intro b hb
    have := List.all_eq_true.mp (boolText_plain v k) b hb
    simp only [Bool.and_eq_true, bne_iff_ne] at this
    refine ⟨this.1.1.1, this.1.1.2, ?_⟩
    rcases hd with hd | hd <;> subst hd
    · exact this.1.2
    · exact this.2

theorem scan_kv (d : UInt8) (hd : isDelim d) (k rest : Bytes) (hk : NameFacts k)
    (hr : scan d false rest = some false) :
    scan d false (escName tagSet k ++ cEQ :: rest) = some false := by
  rw [scan_append d _ _ _ _ (scan_name tagSet d false k hk (tagSet_delim d hd))]
  rw [scan_plain d false cEQ rest (by decide) (by decide) (fun hh => (delim_ne d hd).2.2 hh.1.symm)]
  exact hr

/-! ### joining chunks with commas and splitting them again -/

def joinC : List Bytes → Bytes
  | [] => []
  | c :: cs => cCM :: (c ++ joinC cs)

theorem splitRaw_joinC (cs : List Bytes) (h : ∀ c ∈ cs, scan cCM false c = some false) (X : Bytes) :
    (consHead X (splitRaw cCM false (joinC cs))).filter (fun s => !s.isEmpty) =
      (X :: cs).filter (fun s => !s.isEmpty) := by
  induction cs generalizing X with
  | nil => simp [joinC, splitRaw, consHead]
  | cons c r ih =>
    simp only [joinC]
    rw [splitRaw_delim cCM _ (by decide) (by decide)]
    rw [splitRaw_chunk cCM c false false _ (h c (by simp))]
    rw [show consHead X ([] :: consHead c (splitRaw cCM false (joinC r))) =
          (X ++ []) :: consHead c (splitRaw cCM false (joinC r)) from rfl, List.append_nil]
    rw [List.filter_cons, ih (fun x hx => h x (by simp [hx])) c]
    simp [List.filter_cons]

theorem splitOn_joinC (X : Bytes) (cs : List Bytes) (hX : scan cCM false X = some false) (hXne : X ≠ [])
    (h : ∀ c ∈ cs, scan cCM false c = some false ∧ c ≠ []) :
    splitOn cCM (X ++ joinC cs) = X :: cs := by
  unfold splitOn
  rw [splitRaw_chunk cCM X false false _ hX, splitRaw_joinC cs (fun c hc => (h c hc).1) X]
  rw [List.filter_eq_self.mpr]
  intro s hs
  simp only [List.mem_cons] at hs
  rcases hs with hs | hs
  · subst hs; cases s <;> simp_all
  · have := (h s hs).2; cases s <;> simp_all

theorem renderTags_joinC (ts : List (Bytes × Bytes)) : renderTags ts = joinC (ts.map renderTag) := by
  induction ts with
  | nil => rfl
  | cons t r ih => simp [renderTags, joinC, ih]

theorem renderMore_joinC (fs : List (Bytes × FieldVal)) : renderMore fs = joinC (fs.map renderField) := by
  induction fs with
  | nil => rfl
  | cons t r ih => simp [renderMore, joinC, ih]

/-! ### folding key/value components into the association list -/

theorem set_fresh {V : Type} (m : AMap V) (k : Bytes) (v : V) (h : ∀ p ∈ m, p.1 ≠ k) :
    m.set k v = m ++ [(k, v)] := by
  unfold AMap.set
  rw [List.filter_eq_self.mpr]
  intro p hp
  simpa using h p hp

theorem foldl_set_nodup {α V : Type} (f : α → Bytes × V) (step : AMap V → α → AMap V)
    (xs : List α) (hstep : ∀ m, ∀ a ∈ xs, step m a = m.set (f a).1 (f a).2) (acc : AMap V)
    (hnd : (xs.map (fun a => (f a).1)).Nodup)
    (hdis : ∀ p ∈ acc, ∀ a ∈ xs, p.1 ≠ (f a).1) :
    xs.foldl step acc = acc ++ xs.map f := by
  induction xs generalizing acc with
  | nil => simp
  | cons a r ih =>
    simp only [List.map_cons, List.nodup_cons] at hnd
    simp only [List.foldl_cons, hstep _ a (by simp)]
    rw [set_fresh acc _ _ (fun p hp => hdis p hp a (by simp))]
    rw [ih (fun m b hb => hstep m b (by simp [hb])) _ hnd.2]
    · simp
    · intro p hp b hb
      simp only [List.mem_append, List.mem_singleton] at hp
      rcases hp with hp | hp
      · exact hdis p hp b (by simp [hb])
      · subst hp
        intro heq
        exact hnd.1 (by simp only [List.mem_map]; exact ⟨b, hb, heq.symm⟩)

structure KeyFacts (k : Bytes) : Prop extends NameFacts k where
  noEQ : Arc.Generated.C01.kvCutEscapeAware = false → ∀ b ∈ k, b ≠ cEQ

theorem keyFacts (k : Bytes) (h : keyOK k = true) : KeyFacts k := by
  simp only [keyOK, Bool.and_eq_true, Bool.or_eq_true, Bool.not_eq_true'] at h
  refine { toNameFacts := nameFacts k h.1, noEQ := fun hf => ?_ }
  rcases h.2 with h2 | h2
  · rw [hf] at h2; exact absurd h2 (by simp)
  · exact not_contains k cEQ h2

/-- whichever way the current source locates the separator, it finds the one `render` wrote -/
theorem cut_kv (k rest : Bytes) (hk : KeyFacts k) :
    cutKV (escName tagSet k ++ cEQ :: rest) = some (escName tagSet k, rest) := by
  unfold cutKV
  split
  · exact cutAtEsc_escName tagSet cEQ k rest (by decide) (by decide) hk.noBS
  · rename_i hf
    apply cutAt_append
    intro b hb
    rcases mem_escName tagSet k b hb with h | h
    · subst h; decide
    · exact hk.noEQ (by simpa using hf) b h

theorem unescape_name (set : UInt8 → Bool) (hset : ∀ b, set b = true → isEsc b = true) (s : Bytes)
    (hs : NameFacts s) : unescape (escName set s) = s :=
  unescape_escName set s hset (fun b hb hbs => absurd hbs (hs.noBS b hb))

theorem addTag_render (m : AMap Bytes) (t : Bytes × Bytes) (hk : KeyFacts t.1) (hv : NameFacts t.2) :
    addTag m (renderTag t) = m.set t.1 t.2 := by
  unfold addTag renderTag
  rw [cut_kv t.1 _ hk]
  have hne : (escName tagSet t.1).isEmpty = false := by
    have := escName_ne_nil tagSet t.1 hk.ne
    cases h : escName tagSet t.1 <;> simp_all
  simp only [hne, Bool.false_eq_true, if_false]
  rw [unescape_name tagSet tagSet_isEsc t.1 hk.toNameFacts, unescape_name tagSet tagSet_isEsc t.2 hv]

theorem addField_render (pf : Bytes → Option UInt64) (valid : Bool) (m : AMap GoVal) (f : Bytes × FieldVal)
    (hk : KeyFacts f.1) (hv : WFVal pf f.2 = true) :
    addField pf valid m (renderField f) = m.set f.1 (denoteVal pf f.2) := by
  unfold addField renderField
  rw [cut_kv f.1 _ hk]
  have hne : (escName tagSet f.1).isEmpty = false := by
    have := escName_ne_nil tagSet f.1 hk.ne
    cases h : escName tagSet f.1 <;> simp_all
  simp only [hne, Bool.false_eq_true, if_false]
  rw [parseFieldValue_render pf valid f.2 hv, unescape_name tagSet tagSet_isEsc f.1 hk.toNameFacts]


/-! ### facts extracted from `WF` -/

structure WFFacts (pf : Bytes → Option UInt64) (p : Point) : Prop where
  meas : NameFacts p.meas
  head : measHeadOK p.meas = true
  tags : ∀ t ∈ p.tags, KeyFacts t.1 ∧ NameFacts t.2
  fields : ∀ f ∈ p.fields, KeyFacts f.1 ∧ WFVal pf f.2 = true
  fne : p.fields ≠ []
  tnd : (p.tags.map (·.1)).Nodup
  fnd : (p.fields.map (·.1)).Nodup
  ts : WFTs p.ts = true

theorem wfFacts (pf : Bytes → Option UInt64) (p : Point) (h : WF pf p = true) : WFFacts pf p := by
  simp only [WF, Bool.and_eq_true, List.all_eq_true, Bool.not_eq_true', decide_eq_true_eq] at h
  obtain ⟨⟨⟨⟨⟨⟨⟨⟨h1, h2⟩, h3⟩, h4⟩, h5⟩, h6⟩, h7⟩, _⟩, h9⟩ := h
  refine ⟨nameFacts _ h1, h2, fun t ht => ?_, fun f hf => ?_, ?_, h6, h7, h9⟩
  · have := h3 t ht
    exact ⟨keyFacts _ this.1.1, nameFacts _ this.1.2⟩
  · have := h4 f hf
    exact ⟨keyFacts _ this.1.1, this.1.2⟩
  · intro hh; rw [hh] at h5; simp at h5

/-! ### measurement + tags -/

theorem scan_renderTag (d : UInt8) (hd : isDelim d) (t : Bytes × Bytes) (hk : NameFacts t.1)
    (hv : NameFacts t.2) : scan d false (renderTag t) = some false :=
  scan_kv d hd t.1 _ hk (scan_name tagSet d false t.2 hv (tagSet_delim d hd))

theorem scan_renderField (pf : Bytes → Option UInt64) (d : UInt8) (hd : isDelim d) (f : Bytes × FieldVal)
    (hk : NameFacts f.1) (hv : WFVal pf f.2 = true) : scan d false (renderField f) = some false :=
  scan_kv d hd f.1 _ hk (scan_renderVal pf d hd f.2 hv)

theorem renderTag_ne (t : Bytes × Bytes) : renderTag t ≠ [] := by simp [renderTag]
theorem renderField_ne (f : Bytes × FieldVal) : renderField f ≠ [] := by simp [renderField]

theorem parseMT_render (pf : Bytes → Option UInt64) (p : Point) (w : WFFacts pf p) :
    parseMeasurementTags (renderMT p) = (p.meas, p.tags) := by
  unfold parseMeasurementTags renderMT
  rw [renderTags_joinC]
  rw [splitOn_joinC _ _ (scan_name measSet cCM false p.meas w.meas (by decide))
      (escName_ne_nil _ _ w.meas.ne)]
  · simp only
    rw [unescape_name measSet measSet_isEsc p.meas w.meas, List.foldl_map]
    have := foldl_set_nodup (fun t : Bytes × Bytes => t) (fun m t => addTag m (renderTag t)) p.tags
      (fun m t ht => addTag_render m t (w.tags t ht).1 (w.tags t ht).2) [] w.tnd (by simp)
    simpa using this
  · intro c hc
    simp only [List.mem_map] at hc
    obtain ⟨t, ht, rfl⟩ := hc
    exact ⟨scan_renderTag cCM (Or.inr rfl) t (w.tags t ht).1.toNameFacts (w.tags t ht).2, renderTag_ne t⟩

/-! ### fields -/

theorem parseFields_render (pf : Bytes → Option UInt64) (valid : Bool) (p : Point) (w : WFFacts pf p) :
    parseFields pf valid (renderFields p.fields) = p.fields.map (fun f => (f.1, denoteVal pf f.2)) := by
  unfold parseFields
  cases hfs : p.fields with
  | nil => exact absurd hfs w.fne
  | cons f rest =>
    have hmem : ∀ g ∈ f :: rest, g ∈ p.fields := by intro g hg; rw [hfs]; exact hg
    simp only [renderFields]
    rw [renderMore_joinC]
    rw [splitOn_joinC _ _
      (scan_renderField pf cCM (Or.inr rfl) f (w.fields f (hmem f (by simp))).1.toNameFacts
        (w.fields f (hmem f (by simp))).2) (renderField_ne f)]
    · rw [← List.map_cons (f := renderField), List.foldl_map]
      have hnd : ((f :: rest).map (fun g : Bytes × FieldVal => ((fun g => (g.1, denoteVal pf g.2)) g).1)).Nodup := by
        have := w.fnd; rw [hfs] at this; simpa using this
      have := foldl_set_nodup (fun g : Bytes × FieldVal => (g.1, denoteVal pf g.2))
        (fun m g => addField pf valid m (renderField g)) (f :: rest)
        (fun m g hg => addField_render pf valid m g (w.fields g (hmem g hg)).1 (w.fields g (hmem g hg)).2)
        [] hnd (by simp)
      simpa using this
    · intro c hc
      simp only [List.mem_map] at hc
      obtain ⟨g, hg, rfl⟩ := hc
      exact ⟨scan_renderField pf cCM (Or.inr rfl) g (w.fields g (hmem g (by simp [hg]))).1.toNameFacts
        (w.fields g (hmem g (by simp [hg]))).2, renderField_ne g⟩

/-! ### the three space-separated sections -/

theorem scan_joinC_sp (cs : List Bytes) (h : ∀ c ∈ cs, scan cSP false c = some false) :
    scan cSP false (joinC cs) = some false := by
  induction cs with
  | nil => simp [joinC, scan]
  | cons c r ih =>
    simp only [joinC]
    rw [scan_plain cSP false cCM _ (by decide) (by decide) (by decide)]
    rw [scan_append cSP c false false _ (h c (by simp))]
    exact ih (fun x hx => h x (by simp [hx]))

theorem scan_renderMT (pf : Bytes → Option UInt64) (p : Point) (w : WFFacts pf p) :
    scan cSP false (renderMT p) = some false := by
  unfold renderMT
  rw [scan_append cSP _ false false _ (scan_name measSet cSP false p.meas w.meas (by decide))]
  rw [renderTags_joinC]
  apply scan_joinC_sp
  intro c hc
  simp only [List.mem_map] at hc
  obtain ⟨t, ht, rfl⟩ := hc
  exact scan_renderTag cSP (Or.inl rfl) t (w.tags t ht).1.toNameFacts (w.tags t ht).2

theorem scan_renderFields (pf : Bytes → Option UInt64) (p : Point) (w : WFFacts pf p) :
    scan cSP false (renderFields p.fields) = some false := by
  cases hfs : p.fields with
  | nil => simp [renderFields, scan]
  | cons f rest =>
    have hmem : ∀ g ∈ f :: rest, g ∈ p.fields := by intro g hg; rw [hfs]; exact hg
    simp only [renderFields]
    rw [scan_append cSP _ false false _
      (scan_renderField pf cSP (Or.inl rfl) f (w.fields f (hmem f (by simp))).1.toNameFacts
        (w.fields f (hmem f (by simp))).2)]
    rw [renderMore_joinC]
    apply scan_joinC_sp
    intro c hc
    simp only [List.mem_map] at hc
    obtain ⟨g, hg, rfl⟩ := hc
    exact scan_renderField pf cSP (Or.inl rfl) g (w.fields g (hmem g (by simp [hg]))).1.toNameFacts
      (w.fields g (hmem g (by simp [hg]))).2

theorem splitRaw_spaces (k : Nat) (X : Bytes) :
    splitRaw cSP false (List.replicate k cSP ++ X) = List.replicate k [] ++ splitRaw cSP false X := by
  induction k with
  | zero => simp
  | succ n ih =>
    rw [List.replicate_succ, List.cons_append, splitRaw_delim cSP _ (by decide) (by decide), ih]
    simp [List.replicate_succ]

theorem filter_replicate_nil (k : Nat) (Z : List Bytes) :
    (List.replicate k ([] : Bytes) ++ Z).filter (fun s => !s.isEmpty) = Z.filter (fun s => !s.isEmpty) := by
  induction k with
  | zero => simp
  | succ n ih => simp [List.replicate_succ, ih]

/-- facts about the timestamp literal -/
theorem tsText_facts (t : TsLit) (h : WFTs (some t) = true) :
    (∀ b ∈ tsText t, numByte b) ∧ tsText t ≠ [] ∧
    parseInt64 (tsText t) = some (signed t.neg (digitsNat t.digits)) := by
  simp only [WFTs, Bool.and_eq_true] at h
  obtain ⟨hd, hr⟩ := h
  have hr' : if t.neg then digitsNat t.digits ≤ 9223372036854775808
      else digitsNat t.digits < 9223372036854775808 := by
    cases hn : t.neg <;> simp [hn] at hr ⊢ <;> exact hr
  have hdig := hd
  simp only [allDigits, Bool.and_eq_true, Bool.not_eq_true'] at hdig
  refine ⟨?_, ?_, parseInt64_signed t.neg t.digits hd hr'⟩
  · intro b hb
    simp only [tsText, signText, List.mem_append] at hb
    rcases hb with hb | hb
    · cases hn : t.neg <;> simp [hn] at hb
      subst hb; unfold numByte; decide
    · exact digits_numByte t.digits hdig.2 b hb
  · intro hh
    simp only [tsText, List.append_eq_nil_iff] at hh
    rw [hh.2] at hdig; simp at hdig

def tsParts : Option TsLit → List Bytes
  | none => []
  | some t => [tsText t]

theorem splitOn_core (pf : Bytes → Option UInt64) (sp : Spacing) (p : Point) (w : WFFacts pf p) :
    splitOn cSP (renderCore sp p) = renderMT p :: renderFields p.fields :: tsParts p.ts := by
  have hMTne : renderMT p ≠ [] := by
    unfold renderMT
    intro hh
    exact escName_ne_nil measSet _ w.meas.ne (List.append_eq_nil_iff.mp hh).1
  have hFne : renderFields p.fields ≠ [] := by
    cases hfs : p.fields with
    | nil => exact absurd hfs w.fne
    | cons f rest =>
      simp only [renderFields]
      intro hh
      exact renderField_ne f (List.append_eq_nil_iff.mp hh).1
  unfold splitOn renderCore spaces
  rw [splitRaw_chunk cSP _ false false _ (scan_renderMT pf p w), splitRaw_spaces,
    splitRaw_chunk cSP _ false false _ (scan_renderFields pf p w)]
  rw [List.replicate_succ, List.cons_append,
    show consHead (renderMT p) ([] :: (List.replicate sp.sp1 [] ++
        consHead (renderFields p.fields) (splitRaw cSP false (renderTs sp p.ts)))) =
      (renderMT p ++ []) :: (List.replicate sp.sp1 [] ++
        consHead (renderFields p.fields) (splitRaw cSP false (renderTs sp p.ts))) from rfl,
    List.append_nil, List.filter_cons, filter_replicate_nil]
  have h1 : (!(renderMT p).isEmpty) = true := by cases h : renderMT p <;> simp_all
  have h2 : (!(renderFields p.fields).isEmpty) = true := by cases h : renderFields p.fields <;> simp_all
  simp only [h1, if_true]
  congr 1
  cases hts : p.ts with
  | none =>
    simp [renderTs, splitRaw, consHead, tsParts, h2]
  | some t =>
    obtain ⟨hplain, htne, _⟩ := tsText_facts t (by have := w.ts; rw [hts] at this; exact this)
    have hscan : scan cSP false (tsText t) = some false :=
      scan_plainAll cSP false _ (fun b hb => numByte_plain cSP (Or.inl rfl) b (hplain b hb))
    have hT : splitRaw cSP false (tsText t) = [tsText t] := by
      have := splitRaw_chunk cSP (tsText t) false false [] hscan
      simpa [splitRaw, consHead] using this
    simp only [renderTs, spaces, tsParts]
    rw [splitRaw_spaces, hT, List.replicate_succ, List.cons_append,
      show consHead (renderFields p.fields) ([] :: (List.replicate sp.sp2 [] ++ [tsText t])) =
        (renderFields p.fields ++ []) :: (List.replicate sp.sp2 [] ++ [tsText t]) from rfl,
      List.append_nil, List.filter_cons, filter_replicate_nil]
    have h3 : (!(tsText t).isEmpty) = true := by cases h : tsText t <;> simp_all
    simp [h2, h3]

end Arc.C01
