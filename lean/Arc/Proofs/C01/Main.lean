import Arc.Proofs.C01.Line
/-! C01 helper lemmas: trimming the rendered line, the line theorem, batches. -/
namespace Arc.C01

/-! ### the last byte of a rendered core -/

def lastOKb (s : Bytes) : Bool :=
  match s.getLast? with
  | some z => decide (z < 0x80) && !isAsciiSpace z
  | none => false

theorem lastOKb_append (a s : Bytes) (h : lastOKb s = true) : lastOKb (a ++ s) = true := by
  unfold lastOKb at h ⊢
  cases hs : s.getLast? with
  | none => rw [hs] at h; simp at h
  | some z => rw [hs] at h; simp [List.getLast?_append, hs]; simpa using h

theorem lastOKb_split (s : Bytes) (h : lastOKb s = true) :
    ∃ init z, s = init ++ [z] ∧ z < 0x80 ∧ isAsciiSpace z = false := by
  unfold lastOKb at h
  cases hs : s.getLast? with
  | none => rw [hs] at h; simp at h
  | some z =>
    rw [hs] at h
    simp only [Bool.and_eq_true, decide_eq_true_eq, Bool.not_eq_true'] at h
    have hne : s ≠ [] := by intro hh; subst hh; simp at hs
    have hz : s.getLast hne = z := by
      have := List.getLast?_eq_some_getLast hne; rw [hs] at this; exact (Option.some.inj this).symm
    exact ⟨s.dropLast, z, by rw [← hz]; exact (List.dropLast_concat_getLast hne).symm, h.1, h.2⟩

theorem lastOKb_numBytes (s : Bytes) (hne : s ≠ []) (h : ∀ b ∈ s, numByte b) : lastOKb s = true := by
  unfold lastOKb
  have hl := List.getLast?_eq_some_getLast hne
  rw [hl]
  obtain ⟨h1, h2, _⟩ := h _ (List.getLast_mem hne)
  simp [h1, h2]

theorem boolText_last : ∀ (v : Bool) (k : Fin 5), lastOKb (boolText v k) = true := by decide

theorem renderVal_last (pf : Bytes → Option UInt64) (v : FieldVal) (h : WFVal pf v = true) :
    lastOKb (renderVal v) = true := by
  cases v with
  | float lit =>
    simp only [WFVal, Bool.and_eq_true, Bool.not_eq_true'] at h
    exact lastOKb_numBytes lit (by intro hh; subst hh; simp at h)
      (fun b hb => numByte_of_floatChar b (List.all_eq_true.mp h.1.2 b hb))
  | int neg ds =>
    simp only [renderVal]
    exact lastOKb_append _ [105] (by decide)
  | uint ds =>
    simp only [renderVal]
    exact lastOKb_append _ [117] (by decide)
  | str s =>
    simp only [renderVal]
    rw [show cDQ :: (escName strSet s ++ [cDQ]) = (cDQ :: escName strSet s) ++ [cDQ] from rfl]
    exact lastOKb_append _ [cDQ] (by decide)
  | bool v k => exact boolText_last v k

theorem renderField_last (pf : Bytes → Option UInt64) (f : Bytes × FieldVal) (h : WFVal pf f.2 = true) :
    lastOKb (renderField f) = true := by
  unfold renderField
  rw [show escName tagSet f.1 ++ cEQ :: renderVal f.2 = (escName tagSet f.1 ++ [cEQ]) ++ renderVal f.2 by simp]
  exact lastOKb_append _ _ (renderVal_last pf f.2 h)

theorem renderMore_last (pf : Bytes → Option UInt64) (fs : List (Bytes × FieldVal)) (hne : fs ≠ [])
    (h : ∀ f ∈ fs, WFVal pf f.2 = true) : lastOKb (renderMore fs) = true := by
  induction fs with
  | nil => exact absurd rfl hne
  | cons g gs ih =>
    simp only [renderMore]
    cases gs with
    | nil =>
      simp only [renderMore, List.append_nil]
      rw [show cCM :: renderField g = [cCM] ++ renderField g from rfl]
      exact lastOKb_append _ _ (renderField_last pf g (h g (by simp)))
    | cons g' gs' =>
      rw [show cCM :: (renderField g ++ renderMore (g' :: gs')) =
        (cCM :: renderField g) ++ renderMore (g' :: gs') from rfl]
      exact lastOKb_append _ _ (ih (by simp) (fun f hf => h f (by simp [hf])))

theorem renderFields_last (pf : Bytes → Option UInt64) (fs : List (Bytes × FieldVal)) (hne : fs ≠ [])
    (h : ∀ f ∈ fs, WFVal pf f.2 = true) : lastOKb (renderFields fs) = true := by
  cases fs with
  | nil => exact absurd rfl hne
  | cons f rest =>
    simp only [renderFields]
    cases rest with
    | nil => simp only [renderMore, List.append_nil]; exact renderField_last pf f (h f (by simp))
    | cons g gs => exact lastOKb_append _ _ (renderMore_last pf (g :: gs) (by simp) (fun x hx => h x (by simp [hx])))

theorem renderCore_last (pf : Bytes → Option UInt64) (sp : Spacing) (p : Point) (w : WFFacts pf p) :
    lastOKb (renderCore sp p) = true := by
  unfold renderCore
  apply lastOKb_append
  apply lastOKb_append
  cases hts : p.ts with
  | none =>
    simp only [renderTs, List.append_nil]
    exact renderFields_last pf _ w.fne (fun f hf => (w.fields f hf).2)
  | some t =>
    obtain ⟨hplain, htne, _⟩ := tsText_facts t (by have := w.ts; rw [hts] at this; exact this)
    simp only [renderTs]
    apply lastOKb_append
    apply lastOKb_append
    exact lastOKb_numBytes _ htne hplain

/-! ### the first byte of a rendered core -/

theorem renderCore_head (pf : Bytes → Option UInt64) (sp : Spacing) (p : Point) (w : WFFacts pf p)
    (trail : Bytes) :
    spacePrefixLen (renderCore sp p ++ trail) = 0 ∧ (renderCore sp p).head? ≠ some cHash ∧
      renderCore sp p ≠ [] := by
  have hm := w.head
  unfold measHeadOK at hm
  cases hmm : p.meas with
  | nil => exact absurd hmm w.meas.ne
  | cons c r =>
    rw [hmm] at hm
    simp only [Bool.and_eq_true, bne_iff_ne, ne_eq, beq_iff_eq] at hm
    have hEne : escName measSet (c :: r) ≠ [] := escName_ne_nil _ _ (by simp)
    -- what follows the escaped measurement starts with ',' or ' '
    obtain ⟨x, rest, hx, hrest⟩ : ∃ x rest, x < 0x80 ∧
        renderTags p.tags ++ (spaces sp.sp1 ++ (renderFields p.fields ++ renderTs sp p.ts)) = x :: rest := by
      cases p.tags with
      | nil => exact ⟨cSP, _, by decide, rfl⟩
      | cons t ts => exact ⟨cCM, _, by decide, rfl⟩
    have hcore : renderCore sp p = escName measSet (c :: r) ++ x :: rest := by
      unfold renderCore renderMT; rw [hmm, List.append_assoc, hrest]
    refine ⟨?_, ?_, ?_⟩
    · rw [hcore, List.append_assoc, List.cons_append]
      exact spacePrefixLen_append_ascii _ x _ hEne hm.2 hx
    · rw [hcore]
      simp only [escName]
      split
      · simp; decide
      · simp; exact hm.1
    · rw [hcore]; simp

theorem trimSpace_render (pf : Bytes → Option UInt64) (sp : Spacing) (p : Point) (w : WFFacts pf p)
    (hs : WFSpacing sp = true) : trimSpace (render sp p) = renderCore sp p := by
  simp only [WFSpacing, Bool.and_eq_true] at hs
  obtain ⟨init, z, he, hz1, hz2⟩ := lastOKb_split _ (renderCore_last pf sp p w)
  unfold render
  have h0 := (renderCore_head pf sp p w sp.trail).1
  rw [he] at h0 ⊢
  exact trimSpace_around sp.lead init sp.trail z hs.1 hs.2 h0 hz1 hz2

/-! ### timestamp -/

theorem trimSpace_numBytes (s : Bytes) (hne : s ≠ []) (h : ∀ b ∈ s, numByte b) : trimSpace s = s := by
  obtain ⟨init, z, he, hz1, hz2⟩ := lastOKb_split s (lastOKb_numBytes s hne h)
  cases s with
  | nil => exact absurd rfl hne
  | cons c t =>
    obtain ⟨c1, c2, _⟩ := h c (by simp)
    exact trimSpace_ascii_ends c t c1 c2 init z he hz1 hz2

theorem timestampOf_render (now : Int) (pr : Prec) (a b : Bytes) (ts : Option TsLit) (h : WFTs ts = true) :
    timestampOf now pr (a :: b :: tsParts ts) = denoteTs now pr ts := by
  cases ts with
  | none => simp [tsParts, timestampOf, denoteTs]
  | some t =>
    obtain ⟨hplain, htne, hparse⟩ := tsText_facts t h
    simp [tsParts, timestampOf, denoteTs, trimSpace_numBytes _ htne hplain, hparse]

/-! ### the line theorem -/

theorem parseLine_render (pf : Bytes → Option UInt64) (now : Int) (pr : Prec) (valid : Bool)
    (sp : Spacing) (p : Point) (hw : WF pf p = true) (hs : WFSpacing sp = true) :
    parseLine pf now pr valid (render sp p) = some (denote pf now pr p) := by
  have w := wfFacts pf p hw
  obtain ⟨_, hhash, hne⟩ := renderCore_head pf sp p w []
  unfold parseLine
  simp only [trimSpace_render pf sp p w hs]
  have h1 : (renderCore sp p).isEmpty = false := by cases h : renderCore sp p <;> simp_all
  simp only [h1, Bool.false_eq_true, if_false, hhash, splitOn_core pf sp p w]
  unfold parseParts
  simp only [parseMT_render pf p w, parseFields_render pf valid p w, timestampOf_render _ _ _ _ _ w.ts]
  have h2 : p.meas.isEmpty = false := by cases h : p.meas <;> simp_all [w.meas.ne]
  have h3 : (p.fields.map (fun f => (f.1, denoteVal pf f.2))).isEmpty = false := by
    cases h : p.fields <;> simp_all [w.fne]
  simp [h2, h3, denote]

/-! ### batches: lines joined by '\n' -/

def joinNL : List Bytes → Bytes
  | [] => []
  | [l] => l
  | l :: l' :: ls => l ++ cNL :: joinNL (l' :: ls)

theorem splitNL_noNL (l : Bytes) (h : ∀ b ∈ l, b ≠ cNL) : splitNL l = [l] := by
  induction l with
  | nil => simp [splitNL]
  | cons b r ih =>
    have hb : b ≠ cNL := h b (by simp)
    simp [splitNL, hb, ih (fun x hx => h x (by simp [hx])), consHead]

theorem splitNL_append (l rest : Bytes) (h : ∀ b ∈ l, b ≠ cNL) :
    splitNL (l ++ cNL :: rest) = l :: splitNL rest := by
  induction l with
  | nil => simp [splitNL]
  | cons b r ih =>
    have hb : b ≠ cNL := h b (by simp)
    simp [splitNL, hb, ih (fun x hx => h x (by simp [hx])), consHead]

theorem splitNL_joinNL (ls : List Bytes) (hne : ls ≠ []) (h : ∀ l ∈ ls, ∀ b ∈ l, b ≠ cNL) :
    splitNL (joinNL ls) = ls := by
  induction ls with
  | nil => exact absurd rfl hne
  | cons l r ih =>
    cases r with
    | nil => simp only [joinNL]; exact splitNL_noNL l (h l (by simp))
    | cons l' ls' =>
      simp only [joinNL]
      rw [splitNL_append l _ (h l (by simp)), ih (by simp) (fun x hx => h x (by simp [hx]))]

/-! no newline inside a rendered point -/

def NoNL (s : Bytes) : Prop := ∀ b ∈ s, b ≠ cNL

theorem NoNL_append {a b : Bytes} (ha : NoNL a) (hb : NoNL b) : NoNL (a ++ b) := by
  intro x hx; rcases List.mem_append.mp hx with h | h
  · exact ha x h
  · exact hb x h

theorem NoNL_cons {c : UInt8} {s : Bytes} (hc : c ≠ cNL) (hs : NoNL s) : NoNL (c :: s) := by
  intro x hx; rcases List.mem_cons.mp hx with h | h
  · subst h; exact hc
  · exact hs x h

theorem NoNL_nil : NoNL [] := by intro x hx; simp at hx

theorem NoNL_escName (set : UInt8 → Bool) (s : Bytes) (h : NoNL s) : NoNL (escName set s) := by
  intro x hx
  rcases mem_escName set s x hx with hh | hh
  · subst hh; decide
  · exact h x hh

theorem NoNL_numBytes (s : Bytes) (h : ∀ b ∈ s, numByte b) : NoNL s := by
  intro x hx hh
  subst hh
  exact absurd (h _ hx).2.1 (by decide)

theorem NoNL_blank (s : Bytes) (h : s.all blank = true) : NoNL s := by
  intro x hx hh
  subst hh
  exact absurd (List.all_eq_true.mp h _ hx) (by decide)

theorem NoNL_replicate (k : Nat) : NoNL (List.replicate k cSP) := by
  intro x hx
  rw [(List.mem_replicate.mp hx).2]; decide

theorem boolText_noNL : ∀ (v : Bool) (k : Fin 5), (boolText v k).all (fun b => b != cNL) = true := by decide

theorem NoNL_renderVal (pf : Bytes → Option UInt64) (v : FieldVal) (h : WFVal pf v = true) :
    NoNL (renderVal v) := by
  cases v with
  | float lit =>
    simp only [WFVal, Bool.and_eq_true] at h
    exact NoNL_numBytes lit (fun b hb => numByte_of_floatChar b (List.all_eq_true.mp h.1.2 b hb))
  | int neg ds =>
    simp only [WFVal, Bool.and_eq_true, allDigits] at h
    simp only [renderVal]
    refine NoNL_append (NoNL_append ?_ (NoNL_numBytes ds (digits_numByte ds h.1.2))) (NoNL_cons (by decide) NoNL_nil)
    cases neg <;> simp only [signText]
    · exact NoNL_nil
    · exact NoNL_cons (by decide) NoNL_nil
  | uint ds =>
    simp only [WFVal, Bool.and_eq_true, allDigits] at h
    exact NoNL_append (NoNL_numBytes ds (digits_numByte ds h.1.2)) (NoNL_cons (by decide) NoNL_nil)
  | str s =>
    simp only [WFVal, Bool.and_eq_true, noNL, Bool.not_eq_true'] at h
    exact NoNL_cons (by decide)
      (NoNL_append (NoNL_escName _ _ (not_contains s cNL h.1)) (NoNL_cons (by decide) NoNL_nil))
  | bool v k =>
    intro x hx
    have := List.all_eq_true.mp (boolText_noNL v k) x hx
    simpa using this

theorem NoNL_joinC (cs : List Bytes) (h : ∀ c ∈ cs, NoNL c) : NoNL (joinC cs) := by
  induction cs with
  | nil => exact NoNL_nil
  | cons c r ih =>
    exact NoNL_cons (by decide) (NoNL_append (h c (by simp)) (ih (fun x hx => h x (by simp [hx]))))

theorem mem_render_noNL (pf : Bytes → Option UInt64) (sp : Spacing) (p : Point) (hw : WF pf p = true)
    (hs : WFSpacing sp = true) : NoNL (render sp p) := by
  have w := wfFacts pf p hw
  simp only [WFSpacing, Bool.and_eq_true] at hs
  have hTag : ∀ t ∈ p.tags, NoNL (renderTag t) := fun t ht =>
    NoNL_append (NoNL_escName _ _ (w.tags t ht).1.noNL)
      (NoNL_cons (by decide) (NoNL_escName _ _ (w.tags t ht).2.noNL))
  have hField : ∀ f ∈ p.fields, NoNL (renderField f) := fun f hf =>
    NoNL_append (NoNL_escName _ _ (w.fields f hf).1.noNL)
      (NoNL_cons (by decide) (NoNL_renderVal pf f.2 (w.fields f hf).2))
  have hMT : NoNL (renderMT p) := by
    unfold renderMT
    rw [renderTags_joinC]
    refine NoNL_append (NoNL_escName _ _ w.meas.noNL) (NoNL_joinC _ ?_)
    intro c hc
    simp only [List.mem_map] at hc
    obtain ⟨t, ht, rfl⟩ := hc
    exact hTag t ht
  have hF : NoNL (renderFields p.fields) := by
    cases hfs : p.fields with
    | nil => exact NoNL_nil
    | cons f rest =>
      simp only [renderFields]
      rw [renderMore_joinC]
      refine NoNL_append (hField f (by rw [hfs]; simp)) (NoNL_joinC _ ?_)
      intro c hc
      simp only [List.mem_map] at hc
      obtain ⟨g, hg, rfl⟩ := hc
      exact hField g (by rw [hfs]; simp [hg])
  have hT : NoNL (renderTs sp p.ts) := by
    cases hts : p.ts with
    | none => exact NoNL_nil
    | some t =>
      obtain ⟨hplain, _, _⟩ := tsText_facts t (by have := w.ts; rw [hts] at this; exact this)
      exact NoNL_append (NoNL_replicate _) (NoNL_numBytes _ hplain)
  unfold render renderCore spaces
  exact NoNL_append (NoNL_blank _ hs.1)
    (NoNL_append (NoNL_append hMT (NoNL_append (NoNL_replicate _) (NoNL_append hF hT))) (NoNL_blank _ hs.2))

end Arc.C01
