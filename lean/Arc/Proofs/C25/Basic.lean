import Arc.Model.C25
/-!
# C25 — helper lemmas (core Lean only)

Structure: `fetch` facts → a closed form of `pullOnce` on a replica whose final file is absent
(`pullOnce_eq`) → a generic induction principle (`StepOK`) through `peersLoop`, `attemptStep`,
`runProc`, `runHist`, instantiated three times in `Arc/Props/C25.lean`.
-/
set_option linter.unusedSectionVars false
namespace Arc.C25

section
variable {D : Type} [DecidableEq D] (H : Bytes → D)

/-- what the final path may hold: bytes with the manifest's digest and size -/
def GoodFinal (content : Bytes) (r : Rep) : Prop :=
  ∀ b, r.final = some b → H b = H content ∧ b.length = content.length

/-- the file is complete at its final path -/
def Complete (content : Bytes) (r : Rep) : Prop :=
  ∃ b, r.final = some b ∧ H b = H content ∧ b.length = content.length

/-- the presence check answers "already present" although the final file is absent -/
def Phantom (f : Facts) (content : Bytes) (r : Rep) : Prop :=
  r.final = none ∧ present f content.length r = true

theorem Complete.good {content : Bytes} {r : Rep} (h : Complete H content r) : GoodFinal H content r := by
  obtain ⟨b, hb, h1, h2⟩ := h
  intro b' hb'
  rw [hb] at hb'
  cases hb'
  exact ⟨h1, h2⟩

theorem goodFinal_of_none {content : Bytes} {r : Rep} (h : r.final = none) : GoodFinal H content r := by
  intro b hb; rw [h] at hb; cases hb

/-! ## bytes on the wire -/

theorem flipAt_length (c : Bytes) (i : Nat) : (flipAt c i).length = c.length := by
  unfold flipAt; split <;> simp

theorem bodyOf_length {content : Bytes} {o : Outcome} {full : Bytes}
    (h : bodyOf content o = some full) : full.length ≤ content.length := by
  cases o <;> simp [bodyOf] at h <;> subst h
  · rw [List.length_take]; omega
  · rw [flipAt_length]; omega
  · omega

theorem preErr_ne_ok (o : Outcome) : preErr o ≠ .ok := by
  cases o <;> simp [preErr]

/-- `Fetch` returns nil only after the digest over prefix+tail matched and the whole tail arrived. -/
theorem fetch_ok {content pre : Bytes} {o : Outcome}
    (h : (fetch H content pre false o).err = .ok) :
    H (pre ++ (fetch H content pre false o).sent) = H content ∧
    (fetch H content pre false o).sent.length = content.length - pre.length := by
  unfold fetch at h ⊢
  by_cases hoff : reachesOffsetCheck o = true ∧ 0 < pre.length ∧ content.length ≤ pre.length
  · rw [if_pos hoff] at h; cases h
  rw [if_neg hoff] at h ⊢
  cases hb : bodyOf content o with
  | none => rw [hb] at h; exact absurd h (preErr_ne_ok o)
  | some full =>
    have hl := bodyOf_length hb
    rw [hb] at h
    simp only [Bool.false_eq_true, if_false] at h ⊢
    by_cases hs : (List.drop pre.length full).length < content.length - pre.length
    · rw [if_pos hs] at h; cases h
    · rw [if_neg hs] at h ⊢
      by_cases hh : H (pre ++ List.drop pre.length full) = H content
      · rw [if_pos hh]
        refine ⟨hh, ?_⟩
        show (List.drop pre.length full).length = _
        rw [List.length_drop] at hs ⊢; omega
      · rw [if_neg hh] at h; cases h

/-- a transport-class failure leaves fewer than the missing bytes (or none at all) -/
theorem fetch_transport {content pre : Bytes} {o : Outcome}
    (h : (fetch H content pre false o).err = .transport) :
    (fetch H content pre false o).sent = [] ∨
    (fetch H content pre false o).sent.length < content.length - pre.length := by
  unfold fetch at h ⊢
  by_cases hoff : reachesOffsetCheck o = true ∧ 0 < pre.length ∧ content.length ≤ pre.length
  · rw [if_pos hoff] at h; cases h
  rw [if_neg hoff] at h ⊢
  cases hb : bodyOf content o with
  | none => left; rfl
  | some full =>
    rw [hb] at h
    simp only [Bool.false_eq_true, if_false] at h ⊢
    by_cases hs : (List.drop pre.length full).length < content.length - pre.length
    · rw [if_pos hs]; right; exact hs
    · rw [if_neg hs] at h
      by_cases hh : H (pre ++ List.drop pre.length full) = H content
      · rw [if_pos hh] at h; cases h
      · rw [if_neg hh] at h; cases h

/-! ## the replica-side procedure when the final file is absent -/

theorem resume_cases (f : Facts) (hrb : f.resumeFullPart = false) (size : Nat) {r : Rep} (hr : r.final = none) :
    resumePrefix f size r = [] ∨
    (r.part = some (resumePrefix f size r) ∧ (resumePrefix f size r).length < size ∧
      resumePrefix f size r ≠ []) := by
  unfold resumePrefix statFile readAt
  rw [hr]
  cases f.statPartFallback
  · left; rfl
  · cases hp : r.part with
    | none => left; rfl
    | some p =>
      simp only [if_true, Option.map_some, hrb, Bool.false_eq_true, if_false]
      by_cases h0 : p.length = 0 ∨ size ≤ p.length
      · left; rw [if_pos h0]
      · right
        rw [if_neg h0]
        refine ⟨rfl, by simp at h0 ⊢; omega, ?_⟩
        intro hnil
        simp at hnil; subst hnil; simp at h0

/-- state after one `pullOnce` on a replica without final file: local prefix `pre`, received tail
`sent`, fetch result class `e`. -/
def pullSpec (f : Facts) (pre sent : Bytes) (e : FErr) : Rep :=
  if e = .ok then ⟨some (pre ++ sent), none⟩
  else if e = .checksum ∨ e = .badOffset then delete f ⟨none, some (pre ++ sent)⟩
  else ⟨none, some (pre ++ sent)⟩

/-- replica files when the write goroutine of that `pullOnce` has finished (before cleanup) -/
def midSpec (pre sent : Bytes) (e : FErr) : Rep :=
  if e = .ok then ⟨some (pre ++ sent), none⟩ else ⟨none, some (pre ++ sent)⟩

theorem pullOnce_eq (f : Facts) (hord : f.orderOK = true) (content : Bytes) (resume : Bool)
    {r : Rep} (o : Outcome) (hr : r.final = none) :
    ∃ pre : Bytes,
      (pre = [] ∨ (r.part = some pre ∧ pre.length < content.length ∧ pre ≠ [])) ∧
      (resume = false → pre = []) ∧
      pullOnce H f content resume r o =
        ⟨pullSpec f pre (fetch H content pre false o).sent (fetch H content pre false o).err,
         (fetch H content pre false o).err, pre.length,
         midSpec pre (fetch H content pre false o).sent (fetch H content pre false o).err⟩ := by
  have hpo : f.promoteAfterVerdict = true := by
    unfold Facts.orderOK at hord; simp at hord; exact hord.1
  have hrb : f.resumeFullPart = false := by
    unfold Facts.orderOK at hord; simp at hord; exact hord.2
  refine ⟨if resume then resumePrefix f content.length r else [], ?_, ?_, ?_⟩
  · cases resume
    · simp
    · simpa using resume_cases f hrb content.length hr
  · intro h; simp [h]
  · have hc : (if resume then resumePrefix f content.length r else []) = [] ∨
        (r.part = some (if resume then resumePrefix f content.length r else []) ∧
          (if resume then resumePrefix f content.length r else []) ≠ []) := by
      cases resume
      · simp
      · rcases resume_cases f hrb content.length hr with h | ⟨h1, _, h3⟩
        · left; simpa using h
        · right; exact ⟨by simpa using h1, by simpa using h3⟩
    unfold pullOnce
    generalize (if resume then resumePrefix f content.length r else []) = pre at hc ⊢
    rcases hc with hnil | ⟨hp, hne⟩
    · subst hnil
      simp only [List.length_nil, ne_eq, not_true_eq_false, decide_false, Bool.false_and]
      unfold afterWrite pullSpec midSpec
      simp only [List.length_nil, if_true, List.nil_append, hr, hpo, Bool.true_eq_false, false_and,
        if_false]
      by_cases hok : (fetch H content [] false o).err = .ok
      · simp [hok]
      · simp only [hok, if_false]
    · have hlen : pre.length ≠ 0 := by
        intro h0; exact hne (List.eq_nil_of_length_eq_zero h0)
      have hb : (decide (pre.length ≠ 0) && r.part.isNone) = false := by simp [hp]
      simp only [hb]
      unfold afterWrite pullSpec midSpec
      simp only [hlen, if_false, hp, hr]
      by_cases hok : (fetch H content pre false o).err = .ok
      · simp [hok]
      · simp only [hok, if_false]

/-! ## generic induction through the retry machinery -/

/-- `Q` is a property of replicas without final file that every failed `pullOnce` (with outcomes in
`A`) re-establishes, and every successful one yields a complete file. -/
structure StepOK (f : Facts) (content : Bytes) (Q : Rep → Prop) (A : Outcome → Prop) : Prop where
  step : ∀ (r : Rep) (o : Outcome) (resume : Bool), A o → r.final = none → Q r →
    ((pullOnce H f content resume r o).err = .ok → Complete H content (pullOnce H f content resume r o).rep) ∧
    ((pullOnce H f content resume r o).err ≠ .ok →
      (pullOnce H f content resume r o).rep.final = none ∧ Q (pullOnce H f content resume r o).rep)

/-- invariant carried along a history -/
def Inv (content : Bytes) (Q : Rep → Prop) (r : Rep) : Prop :=
  GoodFinal H content r ∧ (r.final = none → Q r)

theorem peersLoop_ok {f : Facts} {content : Bytes} {Q : Rep → Prop} {A : Outcome → Prop}
    (hs : StepOK H f content Q A) (resume : Bool) :
    ∀ (os : List Outcome) (r : Rep) (c : Counters), (∀ o ∈ os, A o) → r.final = none → Q r →
      ((peersLoop H f content resume r c os).2.2.1 = .pulled →
        Complete H content (peersLoop H f content resume r c os).1) ∧
      ((peersLoop H f content resume r c os).2.2.1 ≠ .pulled →
        (peersLoop H f content resume r c os).1.final = none ∧ Q (peersLoop H f content resume r c os).1) := by
  intro os
  induction os with
  | nil => intro r c _ hr hq; simp [peersLoop, hr, hq]
  | cons o os ih =>
    intro r c hA hr hq
    have hstep := hs.step r o resume (hA o (by simp)) hr hq
    unfold peersLoop
    simp only
    by_cases hok : (pullOnce H f content resume r o).err = .ok
    · rw [if_pos hok]
      exact ⟨fun _ => hstep.1 hok, fun h => by simp at h⟩
    · rw [if_neg hok]
      have h2 := hstep.2 hok
      by_cases hck : (pullOnce H f content resume r o).err = .checksum
      · rw [if_pos hck]
        exact ⟨fun h => by simp at h, fun _ => h2⟩
      · rw [if_neg hck]
        exact ih _ _ (fun o' ho' => hA o' (by simp [ho'])) h2.1 h2.2

/-- under `GoodFinal`, a replica that fails the presence check has no final file -/
theorem final_none_of_not_present {f : Facts} {content : Bytes} {r : Rep}
    (hg : GoodFinal H content r) (hp : present f content.length r = false) : r.final = none := by
  cases hf : r.final with
  | none => rfl
  | some b =>
    have := (hg b hf).2
    simp [present, statFile, hf, this] at hp

theorem afterLoop_rep (maxA : Nat) (s : PState) (l : Rep × Counters × LoopRes × List Nat) :
    (afterLoop maxA s l).rep = l.1 := by
  unfold afterLoop; split
  · rfl
  · split <;> rfl

theorem afterLoop_st (maxA : Nat) (s : PState) (l : Rep × Counters × LoopRes × List Nat)
    (hrun : s.st = .running) :
    ((afterLoop maxA s l).st = .pulled ↔ l.2.2.1 = .pulled) ∧ (afterLoop maxA s l).st ≠ .skipped := by
  unfold afterLoop; split
  · next h => simp [h]
  · next h => split <;> simp [h, hrun]

theorem attemptStep_inv {f : Facts} {content : Bytes} {Q : Rep → Prop} {A : Outcome → Prop}
    (hs : StepOK H f content Q A) (maxA : Nat) (s : PState) (peers : List Outcome)
    (hA : ∀ o ∈ peers, A o) (hi : Inv H content Q s.rep) :
    Inv H content Q (attemptStep H f content maxA s peers).rep := by
  unfold attemptStep
  split
  · exact hi
  · split
    · exact hi
    · next h2 =>
      split
      · exact hi
      · have hnone := final_none_of_not_present H hi.1 (by simpa using h2)
        have hl := peersLoop_ok H hs (decide (s.attempt > 1)) peers s.rep s.cnt hA hnone (hi.2 hnone)
        rw [afterLoop_rep]
        by_cases hp : (peersLoop H f content (decide (s.attempt > 1)) s.rep s.cnt peers).2.2.1 = .pulled
        · have hc := hl.1 hp
          refine ⟨hc.good, fun hn => ?_⟩
          obtain ⟨b, hb, _⟩ := hc
          rw [hb] at hn; cases hn
        · have h := hl.2 hp
          exact ⟨goodFinal_of_none H h.1, fun _ => h.2⟩

/-- a counted attempt (skipped-local or pulled) ends with a complete file, unless the presence
check saw a phantom. -/
theorem attemptStep_counted {f : Facts} {content : Bytes} {Q : Rep → Prop} {A : Outcome → Prop}
    (hs : StepOK H f content Q A) (maxA : Nat) (s : PState) (peers : List Outcome)
    (hA : ∀ o ∈ peers, A o) (hi : Inv H content Q s.rep) (hrun : s.st = .running)
    (hnp : ¬ Phantom f content s.rep)
    (hc : (attemptStep H f content maxA s peers).st = .skipped ∨
          (attemptStep H f content maxA s peers).st = .pulled) :
    Complete H content (attemptStep H f content maxA s peers).rep := by
  unfold attemptStep at hc ⊢
  split at hc
  · next h1 => exact absurd hrun h1
  · next h1 =>
    rw [if_neg h1]
    split at hc
    · next h2 =>
      rw [if_pos h2]
      cases hf : s.rep.final with
      | none => exact absurd ⟨hf, h2⟩ hnp
      | some b => exact ⟨b, hf, hi.1 b hf⟩
    · next h2 =>
      rw [if_neg h2]
      split at hc
      · split at hc <;> simp at hc
      · next h3 =>
        rw [if_neg h3]
        have hnone := final_none_of_not_present H hi.1 (by simpa using h2)
        have hl := peersLoop_ok H hs (decide (s.attempt > 1)) peers s.rep s.cnt hA hnone (hi.2 hnone)
        have hst := afterLoop_st maxA s (peersLoop H f content (decide (s.attempt > 1)) s.rep s.cnt peers) hrun
        rw [afterLoop_rep]
        rcases hc with hc | hc
        · exact absurd hc hst.2
        · exact hl.1 (hst.1.1 hc)

theorem attemptStep_of_not_running (f : Facts) (content : Bytes) (maxA : Nat) (s : PState)
    (peers : List Outcome) (h : s.st ≠ .running) : attemptStep H f content maxA s peers = s := by
  unfold attemptStep; simp [h]

theorem runProc_of_not_running (f : Facts) (content : Bytes) (maxA : Nat) :
    ∀ (script : List (List Outcome)) (s : PState), s.st ≠ .running →
      runProc H f content maxA s script = s := by
  intro script
  induction script with
  | nil => intro s _; rfl
  | cons a as ih =>
    intro s h
    simp only [runProc]
    rw [attemptStep_of_not_running H f content maxA s a h]
    exact ih s h

def ScriptIn (A : Outcome → Prop) (script : List (List Outcome)) : Prop :=
  ∀ a ∈ script, ∀ o ∈ a, A o

theorem runProc_inv {f : Facts} {content : Bytes} {Q : Rep → Prop} {A : Outcome → Prop}
    (hs : StepOK H f content Q A) (maxA : Nat) :
    ∀ (script : List (List Outcome)) (s : PState), ScriptIn A script → Inv H content Q s.rep →
      Inv H content Q (runProc H f content maxA s script).rep := by
  intro script
  induction script with
  | nil => intro s _ hi; exact hi
  | cons a as ih =>
    intro s hA hi
    simp only [runProc]
    apply ih
    · intro a' ha'; exact hA a' (by simp [ha'])
    · exact attemptStep_inv H hs maxA s a (hA a (by simp)) hi

/-- whenever a `processEntry` call ends counted, the file is complete — given that no presence
check along the way can see a phantom (`hnp`, a consequence of `Q`). -/
theorem runProc_counted {f : Facts} {content : Bytes} {Q : Rep → Prop} {A : Outcome → Prop}
    (hs : StepOK H f content Q A) (maxA : Nat)
    (hnp : ∀ r, Inv H content Q r → ¬ Phantom f content r) :
    ∀ (script : List (List Outcome)) (s : PState), ScriptIn A script → Inv H content Q s.rep →
      s.st = .running →
      ((runProc H f content maxA s script).st = .skipped ∨ (runProc H f content maxA s script).st = .pulled) →
      Complete H content (runProc H f content maxA s script).rep := by
  intro script
  induction script with
  | nil => intro s _ _ hrun hc; simp [runProc, hrun] at hc
  | cons a as ih =>
    intro s hA hi hrun hc
    simp only [runProc] at hc ⊢
    have hA' : ScriptIn A as := fun a' ha' => hA a' (by simp [ha'])
    have hi' := attemptStep_inv H hs maxA s a (hA a (by simp)) hi
    by_cases hr : (attemptStep H f content maxA s a).st = .running
    · exact ih _ hA' hi' hr hc
    · rw [runProc_of_not_running H f content maxA as _ hr] at hc ⊢
      exact attemptStep_counted H hs maxA s a (hA a (by simp)) hi hrun (hnp _ hi) hc

theorem runHist_inv {f : Facts} {content : Bytes} {Q : Rep → Prop} {A : Outcome → Prop}
    (hs : StepOK H f content Q A) (maxA : Nat) :
    ∀ (hist : List (List (List Outcome))) (rc : Rep × Counters),
      (∀ p ∈ hist, ScriptIn A p) → Inv H content Q rc.1 →
      Inv H content Q (runHist H f content maxA rc hist).1 := by
  intro hist
  induction hist with
  | nil => intro rc _ hi; exact hi
  | cons p ps ih =>
    intro rc hA hi
    simp only [runHist]
    apply ih
    · intro p' hp'; exact hA p' (by simp [hp'])
    · exact runProc_inv H hs maxA p (PState.start rc.1 rc.2) (hA p (by simp)) hi

/-! ## once the faults stop -/

theorem fetch_ok_from_zero (content : Bytes) :
    fetch H content [] false .ok = ⟨content, .ok⟩ := by
  simp [fetch, bodyOf]

/-- first attempt of a fresh `processEntry` call whose first candidate peer is healthy -/
theorem attemptStep_fresh_ok {f : Facts} (hpo : f.orderOK = true) {content : Bytes}
    (maxA : Nat) (r : Rep) (c : Counters)
    (rest : List Outcome) (hg : GoodFinal H content r) (hnp : ¬ Phantom f content r) :
    let s' := attemptStep H f content maxA (PState.start r c) (.ok :: rest)
    (s'.st = .skipped ∧ s'.rep = r ∧ Complete H content r) ∨
    (s'.st = .pulled ∧ s'.rep = ⟨some content, none⟩) := by
  simp only
  unfold attemptStep PState.start
  simp only [ne_eq, not_true_eq_false, if_false]
  by_cases h2 : present f content.length r = true
  · left
    simp only [h2, if_true, true_and]
    cases hf : r.final with
    | none => exact absurd ⟨hf, h2⟩ hnp
    | some b => exact ⟨b, hf, hg b hf⟩
  · right
    have hnone := final_none_of_not_present H hg (by simpa using h2)
    obtain ⟨pre, _, hpre, heq⟩ := pullOnce_eq H f hpo content false .ok hnone
    have hpre := hpre rfl
    subst hpre
    rw [fetch_ok_from_zero] at heq
    simp only [h2, List.isEmpty_cons, Bool.false_eq_true, if_false]
    have hd : decide ((1 : Nat) > 1) = false := by decide
    simp only [hd]
    unfold peersLoop
    simp only [heq, pullSpec, if_true, List.nil_append]
    simp [afterLoop]
end

end Arc.C25
