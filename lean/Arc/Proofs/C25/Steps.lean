import Arc.Proofs.C25.Basic
/-!
# C25 — the three instances of `StepOK`

* `stepOK_any`     : every code-fact combination, `Q = True`            (safety: what reaches the final path)
* `stepOK_delete`  : `Delete` removes `.part`, non-empty file, `Q = ` "the staging file is shorter than the file"
* `stepOK_prefix`  : every code-fact combination, no `corrupt` outcome, non-empty file,
                     `Q = ` "the staging file is a proper prefix of the file"
-/
set_option linter.unusedSectionVars false
namespace Arc.C25

section
variable {D : Type} [DecidableEq D] (H : Bytes → D)

theorem pullSpec_fail (f : Facts) (pre sent : Bytes) (e : FErr) (h : e ≠ .ok) :
    (pullSpec f pre sent e).final = none ∧
    ((pullSpec f pre sent e).part = none ∨ (pullSpec f pre sent e).part = some (pre ++ sent)) ∧
    (f.deleteRemovesPart = true → e ≠ .transport → (pullSpec f pre sent e).part = none) := by
  unfold pullSpec delete
  rw [if_neg h]
  by_cases hd : e = .checksum ∨ e = .badOffset
  · rw [if_pos hd]
    cases f.deleteRemovesPart <;> simp
  · rw [if_neg hd]
    refine ⟨rfl, Or.inr rfl, fun _ ht => ?_⟩
    cases e <;> simp at h hd ht

/-- success of `pullOnce` on a replica without final file puts a complete file at the final path -/
theorem pullOnce_ok_complete (f : Facts) (hpo : f.orderOK = true) (content : Bytes) (resume : Bool) {r : Rep} (o : Outcome)
    (hr : r.final = none) (hok : (pullOnce H f content resume r o).err = .ok) :
    Complete H content (pullOnce H f content resume r o).rep := by
  obtain ⟨pre, hpre, _, heq⟩ := pullOnce_eq H f hpo content resume o hr
  rw [heq] at hok ⊢
  simp only at hok ⊢
  have hf := fetch_ok H hok
  rw [hok]
  refine ⟨pre ++ (fetch H content pre false o).sent, by simp [pullSpec], hf.1, ?_⟩
  rw [List.length_append, hf.2]
  rcases hpre with h | ⟨_, h, _⟩
  · subst h; simp
  · omega

/-- step order: while a `pullOnce` is running — at the point where its write goroutine has finished
and before any cleanup — the final path is empty or already holds the verified file -/
theorem pullOnce_mid_good (f : Facts) (hpo : f.orderOK = true) (content : Bytes)
    (resume : Bool) {r : Rep} (o : Outcome) (hr : r.final = none) :
    GoodFinal H content (pullOnce H f content resume r o).mid := by
  by_cases hok : (pullOnce H f content resume r o).err = .ok
  · have hc := pullOnce_ok_complete H f hpo content resume o hr hok
    obtain ⟨pre, _, _, heq⟩ := pullOnce_eq H f hpo content resume o hr
    rw [heq] at hok hc ⊢
    simp only at hok hc ⊢
    rw [hok] at hc ⊢
    have : midSpec pre (fetch H content pre false o).sent FErr.ok =
        pullSpec f pre (fetch H content pre false o).sent FErr.ok := by simp [midSpec, pullSpec]
    rw [this]; exact hc.good
  · obtain ⟨pre, _, _, heq⟩ := pullOnce_eq H f hpo content resume o hr
    rw [heq] at hok ⊢
    simp only at hok ⊢
    apply goodFinal_of_none
    simp [midSpec, hok]

theorem stepOK_any (f : Facts) (hpo : f.orderOK = true) (content : Bytes) :
    StepOK H f content (fun _ => True) (fun _ => True) where
  step := by
    intro r o resume _ hr _
    refine ⟨pullOnce_ok_complete H f hpo content resume o hr, fun hne => ⟨?_, trivial⟩⟩
    obtain ⟨pre, _, _, heq⟩ := pullOnce_eq H f hpo content resume o hr
    rw [heq] at hne ⊢
    exact (pullSpec_fail f pre _ _ hne).1

/-- staging file shorter than the manifest file -/
def PartShort (content : Bytes) (r : Rep) : Prop :=
  ∀ p, r.part = some p → p.length < content.length

theorem stepOK_delete (f : Facts) (hpo : f.orderOK = true) (content : Bytes) (hdel : f.deleteRemovesPart = true)
    (hne0 : content ≠ []) :
    StepOK H f content (PartShort content) (fun _ => True) where
  step := by
    intro r o resume _ hr hq
    refine ⟨pullOnce_ok_complete H f hpo content resume o hr, fun hne => ?_⟩
    obtain ⟨pre, hpre, _, heq⟩ := pullOnce_eq H f hpo content resume o hr
    rw [heq] at hne ⊢
    simp only at hne ⊢
    have hs := pullSpec_fail f pre (fetch H content pre false o).sent _ hne
    refine ⟨hs.1, ?_⟩
    intro p hp
    by_cases ht : (fetch H content pre false o).err = .transport
    · rcases hs.2.1 with h | h
      · rw [h] at hp; cases hp
      · rw [h] at hp
        cases hp
        have hpl : pre.length < content.length := by
          rcases hpre with h | ⟨_, h, _⟩
          · subst h
            cases content with
            | nil => exact absurd rfl hne0
            | cons a t => simp
          · exact h
        rw [List.length_append]
        rcases fetch_transport H ht with h0 | h0
        · rw [h0]; simpa using hpl
        · omega
    · rw [hs.2.2 hdel ht] at hp; cases hp

/-- staging file is a proper prefix of the manifest file -/
def PartPrefix (content : Bytes) (r : Rep) : Prop :=
  ∀ p, r.part = some p → p <+: content ∧ p.length < content.length

def NotCorrupt (o : Outcome) : Prop := ∀ i, o ≠ .corrupt i

theorem take_append_drop_take (c : Bytes) (m k : Nat) :
    c.take k ++ (c.take m).drop k = c.take (max m k) := by
  by_cases h : k ≤ m
  · have : c.take k = (c.take m).take k := by rw [List.take_take]; congr 1; omega
    rw [this, List.take_append_drop]; congr 1; omega
  · have h2 : (c.take m).drop k = [] := by
      apply List.drop_of_length_le; rw [List.length_take]; omega
    rw [h2]; simp; congr 1; omega

/-- with an intact body and a correct local prefix, a failed fetch leaves a correct, shorter prefix -/
theorem fetch_take_prefix {content pre : Bytes} {o : Outcome} (m : Nat)
    (hpre : pre <+: content) (hlt : pre.length < content.length)
    (hb : bodyOf content o = some (content.take m))
    (hne : (fetch H content pre false o).err ≠ .ok) :
    (pre ++ (fetch H content pre false o).sent) <+: content ∧
    pre.length + (fetch H content pre false o).sent.length < content.length := by
  have hk : pre = content.take pre.length := List.prefix_iff_eq_take.mp hpre
  have hkl : pre.length ≤ content.length := hpre.length_le
  unfold fetch at hne ⊢
  have hoff : ¬ (reachesOffsetCheck o = true ∧ 0 < pre.length ∧ content.length ≤ pre.length) := by
    intro h; omega
  rw [if_neg hoff] at hne ⊢
  rw [hb] at hne ⊢
  simp only [Bool.false_eq_true, if_false] at hne ⊢
  have hcat : pre ++ List.drop pre.length (content.take m) = content.take (max m pre.length) := by
    conv => lhs; arg 1; rw [hk]
    exact take_append_drop_take content m pre.length
  by_cases hs : (List.drop pre.length (content.take m)).length < content.length - pre.length
  · rw [if_pos hs]
    refine ⟨?_, ?_⟩
    · show (pre ++ List.drop pre.length (content.take m)) <+: content
      rw [hcat]; exact List.take_prefix _ _
    · show pre.length + (List.drop pre.length (content.take m)).length < content.length
      omega
  · rw [if_neg hs] at hne
    exfalso
    have hlen : (pre ++ List.drop pre.length (content.take m)).length ≥ content.length := by
      rw [List.length_append]; omega
    rw [hcat, List.length_take] at hlen
    have hfull : content.take (max m pre.length) = content := List.take_of_length_le (by omega)
    rw [hcat, hfull] at hne
    simp at hne

theorem stepOK_prefix (f : Facts) (hpo : f.orderOK = true) (content : Bytes) (hne0 : content ≠ []) :
    StepOK H f content (PartPrefix content) NotCorrupt where
  step := by
    intro r o resume hA hr hq
    refine ⟨pullOnce_ok_complete H f hpo content resume o hr, fun hne => ?_⟩
    obtain ⟨pre, hpre, _, heq⟩ := pullOnce_eq H f hpo content resume o hr
    rw [heq] at hne ⊢
    simp only at hne ⊢
    have hs := pullSpec_fail f pre (fetch H content pre false o).sent _ hne
    refine ⟨hs.1, ?_⟩
    have h0 : 0 < content.length := by
      cases content with
      | nil => exact absurd rfl hne0
      | cons a t => simp
    have hpp : pre <+: content ∧ pre.length < content.length := by
      rcases hpre with h | ⟨h, _, _⟩
      · subst h; exact ⟨List.nil_prefix, h0⟩
      · exact hq pre h
    intro p hp
    rcases hs.2.1 with h | h
    · rw [h] at hp; cases hp
    · rw [h] at hp
      cases hp
      -- which outcome
      cases hb : bodyOf content o with
      | none =>
        have : (fetch H content pre false o).sent = [] := by
          unfold fetch; split
          · rfl
          · rw [hb]
        rw [this]; simpa using hpp
      | some full =>
        have hm : ∃ m, full = content.take m := by
          cases o <;> simp [bodyOf] at hb
          · exact ⟨_, hb.symm⟩
          · exact absurd rfl (hA _)
          · exact ⟨content.length, by rw [List.take_length]; exact hb.symm⟩
        obtain ⟨m, hm⟩ := hm
        rw [hm] at hb
        have := fetch_take_prefix H m hpp.1 hpp.2 hb hne
        rw [List.length_append]
        exact this

/-! ## counters -/

theorem bump_cnt (c : Counters) (e : FErr) :
    (c.bump e).skippedLocal = c.skippedLocal ∧
    (c.bump e).pulled = c.pulled + (if e = .ok then 1 else 0) := by
  cases e <;> simp [Counters.bump]

theorem peersLoop_cnt (f : Facts) (content : Bytes) (resume : Bool) :
    ∀ (os : List Outcome) (r : Rep) (c : Counters),
      (peersLoop H f content resume r c os).2.1.skippedLocal = c.skippedLocal ∧
      (peersLoop H f content resume r c os).2.1.pulled =
        c.pulled + (if (peersLoop H f content resume r c os).2.2.1 = .pulled then 1 else 0) := by
  intro os
  induction os with
  | nil => intro r c; simp [peersLoop]
  | cons o os ih =>
    intro r c
    unfold peersLoop
    simp only
    have hb := bump_cnt c (pullOnce H f content resume r o).err
    by_cases hok : (pullOnce H f content resume r o).err = .ok
    · rw [if_pos hok]; simpa [hok] using hb
    · rw [if_neg hok]
      by_cases hck : (pullOnce H f content resume r o).err = .checksum
      · rw [if_pos hck]; simpa [hok] using hb
      · rw [if_neg hck]
        have := ih (pullOnce H f content resume r o).rep (c.bump (pullOnce H f content resume r o).err)
        simp only [this.1, this.2, hb.1, hb.2, hok, if_false, Nat.add_zero]
        exact ⟨trivial, trivial⟩

/-- the two "file is here" counters move exactly when the attempt ends skipped / pulled -/
theorem attemptStep_cnt (f : Facts) (content : Bytes) (maxA : Nat) (s : PState) (peers : List Outcome)
    (hrun : s.st = .running) :
    (attemptStep H f content maxA s peers).cnt.skippedLocal =
      s.cnt.skippedLocal + (if (attemptStep H f content maxA s peers).st = .skipped then 1 else 0) ∧
    (attemptStep H f content maxA s peers).cnt.pulled =
      s.cnt.pulled + (if (attemptStep H f content maxA s peers).st = .pulled then 1 else 0) := by
  unfold attemptStep
  split
  · next h => exact absurd hrun h
  · split
    · simp
    · split
      · split <;> simp
      · have hl := peersLoop_cnt H f content (decide (s.attempt > 1)) peers s.rep s.cnt
        unfold afterLoop
        split
        · next hp => simp [hl.1, hl.2, hp]
        · next hp => split <;> simp [hl.1, hl.2, hp, hrun]
end

end Arc.C25
