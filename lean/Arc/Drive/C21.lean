import Arc.Base.Proto
import Arc.Model.C21
import Arc.Model.C21Current
import Arc.Model.C21Replay
/-! Model driver for C21: replays a forced schedule observed on the real AuthManager through the
LTS (configured from the regenerated facts) and prints, per step, where the model says the thread
stops / what it returns — the harness prints what the real goroutine did. -/
open Arc.Proto Arc.C21

structure DS where
  cfg : Cfg := currentCfg 0 0
  s : State := { sh := { db := none, cache := [], gen := 0, now := 0, conn := none }, vs := [],
                 m := { kind := .revoke, cluster := false, inval := false, pc := .done } }
  /-- persistent row of the log-replay histories -/
  rdb : Option Row := none

def b01 (s : String) : Bool := s == "1"

def vArrive (v : VThread) : String :=
  match v.pc with
  | .start => "start" | .hit => "v.hit" | .miss => "v.miss" | .row => "v.row" | .preins => "v.preins"
  | .ins => "v.ins" | .norow => "v.norow"
  | .done => if v.res == some true then "done:ok" else "done:nil"

def lenStr (s : State) : String := s!" len={s.sh.cache.length}"

/-- run verifier `i` to completion (sequential call). -/
def runToEnd (cfg : Cfg) (s : State) (i : Nat) : Nat → Option State
  | 0 => none
  | fuel + 1 =>
    match s.vs[i]? with
    | none => none
    | some v =>
      if v.pc == .done then some s else
      match step cfg s (.v i) with
      | none => none
      | some s' => runToEnd cfg s' i fuel

def stepC21 (d : DS) (fs : List String) : DS × String :=
  match fs with
  | ["new", ttl, mx] =>
    match nat? ttl, nat? mx with
    | some ttl, some mx => ({ cfg := currentCfg ttl mx }, "ok")
    | _, _ => (d, "bad-op")
  | ["row", val, legacy, enabled, exp] =>
    match nat? val with
    | some val =>
      let e : Option (Option Nat) := if exp == "-" then some none else (nat? exp).map some
      match e with
      | some e =>
        ({ d with s := { d.s with sh := { d.s.sh with db := some { hashOf := val, legacy := b01 legacy, enabled := b01 enabled, expiry := e } } } }, "ok")
      | none => (d, "bad-op")
    | none => (d, "bad-op")
  | ["vspawn", val] =>
    match nat? val with
    | some val => ({ d with s := { d.s with vs := d.s.vs ++ [{ val := val }] } }, s!"v{d.s.vs.length}")
    | none => (d, "bad-op")
  | "mspawn" :: kind :: cluster :: rest =>
    let k : Option MKind :=
      match kind, rest with
      | "revoke", [] => some .revoke
      | "delete", [] => some .delete
      | "rotate", [nv] => (nat? nv).map .rotate
      | "setexp", ["-"] => some (.setexp none)
      | "setexp", [e] => (nat? e).map (fun t => .setexp (some t))
      | _, _ => none
    match k with
    | some k =>
      let fk := if kind == "setexp" then "update" else kind
      ({ d with s := { d.s with m := { kind := k, cluster := b01 cluster, inval := invalOf (b01 cluster) fk } } }, "ok")
    | none => (d, "bad-op")
  | ["tick", dt] =>
    match nat? dt with
    | some dt =>
      match step d.cfg d.s (.tick dt) with
      | some s' => ({ d with s := s' }, s!"now={s'.sh.now}")
      | none => (d, "disabled")
    | none => (d, "bad-op")
  | ["v", i] =>
    match nat? i with
    | some i =>
      match step d.cfg d.s (.v i) with
      | some s' =>
        match s'.vs[i]? with
        | some v => ({ d with s := s' }, vArrive v ++ lenStr s')
        | none => (d, "bad-op")
      | none => (d, "blocked")
    | none => (d, "bad-op")
  | ["vblock", i] =>
    match nat? i with
    | some i =>
      match d.s.vs[i]? with
      | some v =>
        if v.pc != .done && (step d.cfg d.s (.v i)).isNone then (d, "blocked") else (d, "enabled")
      | none => (d, "bad-op")
    | none => (d, "bad-op")
  | ["m"] =>
    match step d.cfg d.s .m with
    | some s' =>
      let o := match s'.m.pc with
        | .start => "start" | .upd => "m.upd"
        | .done => if mResultOk s'.m then "done:ok" else "done:err"
      ({ d with s := s' }, o ++ lenStr s')
    | none => (d, "blocked")
  | ["mblock"] =>
    if d.s.m.pc != .done && (step d.cfg d.s .m).isNone then (d, "blocked") else (d, "enabled")
  | ["janitor"] =>
    match step d.cfg d.s .janitor with
    | some s' => ({ d with s := s' }, (lenStr s').trimAsciiStart.toString)
    | none => (d, "disabled")
  | ["seq", val] =>
    match nat? val with
    | some val =>
      let i := d.s.vs.length
      let s1 := { d.s with vs := d.s.vs ++ [{ val := val }] }
      match runToEnd d.cfg s1 i 8 with
      | some s' =>
        match s'.vs[i]? with
        | some v =>
          -- the sequential caller is not a controlled thread: drop it again, keep the shared state
          ({ d with s := { s' with vs := s'.vs.take i } }, (if v.res == some true then "ok" else "nil") ++ lenStr s')
        | none => (d, "bad-op")
      | none => (d, "blocked")
    | none => (d, "bad-op")
  | ["has", val] =>
    match nat? val with
    | some val => (d, if (d.s.sh.cache.lookup val).isSome then "1" else "0")
    | none => (d, "bad-op")
  | ["rnew"] => ({ d with rdb := none }, "ok")
  | ["rcreate", val, legacy, exp] =>
    match nat? val, (if exp == "-" then some none else (nat? exp).map some) with
    | some val, some e =>
      let x := LogEntry.create { hashOf := val, legacy := b01 legacy, enabled := true, expiry := e }
      ({ d with rdb := applyEntry Arc.Generated.C21.createReplayNoop d.rdb x },
        if applyOk d.rdb x then "ok" else "err")
    | _, _ => (d, "bad-op")
  | "rmut" :: kind :: rest =>
    let k : Option MKind :=
      match kind, rest with
      | "revoke", [] => some .revoke
      | "delete", [] => some .delete
      | "rotate", [nv] => (nat? nv).map .rotate
      | "setexp", ["-"] => some (.setexp none)
      | "setexp", [e] => (nat? e).map (fun t => .setexp (some t))
      | _, _ => none
    match k with
    | some k =>
      let x := LogEntry.mutate k
      ({ d with rdb := applyEntry Arc.Generated.C21.createReplayNoop d.rdb x },
        if applyOk d.rdb x then "ok" else "err")
    | none => (d, "bad-op")
  | ["rprobe", val, now] =>
    match nat? val, nat? now with
    | some val, some now => (d, if accepts d.rdb val now then "ok" else "nil")
    | _, _ => (d, "bad-op")
  | _ => (d, "bad-op")

def main : IO Unit := Arc.Proto.run stepC21 {}
