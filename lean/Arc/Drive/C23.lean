import Arc.Base.Proto
import Arc.Model.C22.Wire
/-! Model driver for C23 — same FSM model and line protocol as C22. -/
def main : IO Unit := Arc.Proto.run Arc.C22.Wire.step Arc.C22.Wire.DS.init
