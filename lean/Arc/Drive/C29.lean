import Arc.Base.Proto
import Arc.Model.C29
/-! Model driver for C29 (reads the harness's op lines on stdin, prints one line per op). -/
open Arc.Proto Arc.C29

def fault? : String → Option Fault
  | "none" => some .none | "agg" => some .agg | "ins" => some .recIns | "upd" => some .recUpd
  | "wr" => some .wr | _ => none

def qkind? : String → Option QKind
  | "plain" => some .plain | "grouped" => some .grouped | "broken" => some .broken
  | "badtime" => some .badtime | _ => none

/-- "-" absent | "e" empty | "bad" malformed | "<ns>:<offsetMinutes>" (the offset only affects the text) -/
def timeArg? (s : String) : Option TimeArg :=
  if s == "-" then some .absent
  else if s == "e" then some .empty
  else if s == "bad" then some .bad
  else match s.splitOn ":" with
    | [ns, off] => match int? ns, int? off with
      | some ns, some _ => some (.at ns)
      | _, _ => none
    | _ => none

def bool? : String → Option Bool
  | "1" => some true | "0" => some false | _ => none

def optStr : Option Int → String
  | some v => toString v | none => "nil"

def hostStr : Nat → String
  | 0 => "*" | 1 => "a" | _ => "b"

def rowsStr (rs : List (Nat × Nat)) : String :=
  if rs.isEmpty then "-" else ",".intercalate (rs.map fun p => s!"{hostStr p.1}:{p.2}")

def statusStr (k : Kind) : Status → String
  | .completed => "completed" | .recfailed => "recfailed" | .dryRun => "dry_run"
  | .aggfailed => if k == .manual then "500/aggfailed" else "aggfailed"
  | .rejected => if k == .manual then "400/rejected" else "rejected"
  | .inactive => if k == .manual then "400/inactive" else "inactive"
  | .badstart => "400/badstart" | .badend => "400/badend" | .nojob => "nojob" | .other => "other"

def b01 (b : Bool) : String := if b then "1" else "0"

def execLine (st : State) (ev : Event) : String :=
  let w := match ev.win with | some (s, e) => s!"{s},{e}" | none => "-"
  let l := match ev.label with | some l => toString l | none => "-"
  let rw := if ev.reportedOk then toString ev.rows.length else "-"
  s!"{statusStr ev.kind ev.status} w={w} rows={rowsStr ev.rows} rw={rw} label={l} lp={optStr st.lp} rec={st.nCompleted}/{st.nFailed}"

def cfgLine (pre : String) (st : State) : String :=
  s!"{pre} lp={optStr st.lp} active={b01 st.active} job={b01 st.running}"

/-- `none` = no continuous query yet (ops before `new` are rejected) -/
abbrev DS := Option State

def stepC29 (ds : DS) (fs : List String) : DS × String :=
  match fs with
  | ["new", no, now, ivl, q] =>
    match nat? no, int? now, int? ivl, qkind? q with
    | some _, some _, some ivl, some q =>
      let ok := decide (0 < ivl)
      let st : State := { q := q, intervalOk := ok, running := ok }
      (some st, cfgLine "ok" st)
    | _, _, _, _ => (ds, "bad-op")
  | _ =>
  match ds with
  | none => (ds, "bad-op")
  | some st =>
    match fs with
    | ["src", t, h] =>
      match int? t, (if h == "a" then some false else if h == "b" then some true else none) with
      | some t, some h => (some (step st (.src t h)).1, "ok")
      | _, _ => (ds, "bad-op")
    | ["sched", now, f] =>
      match int? now, fault? f with
      | some now, some f =>
        let r := step st (.sched now f)
        (some r.1, execLine r.1 r.2)
      | _, _ => (ds, "bad-op")
    | ["man", now, s, e, dry, f] =>
      match int? now, timeArg? s, timeArg? e, bool? dry, fault? f with
      | some now, some s, some e, some dry, some f =>
        let r := step st (.manual now s e dry f)
        (some r.1, execLine r.1 r.2)
      | _, _, _, _, _ => (ds, "bad-op")
    | ["upd", now, a, ivl, q] =>
      match int? now, bool? a, int? ivl, qkind? q with
      | some now, some a, some ivl, some q =>
        let r := step st (.update now a (decide (0 < ivl)) q)
        (some r.1, cfgLine "200" r.1)
      | _, _, _, _ => (ds, "bad-op")
    | ["restart", now] =>
      match int? now with
      | some now =>
        let r := step st (.restart now)
        (some r.1, cfgLine "ok" r.1)
      | none => (ds, "bad-op")
    | _ => (ds, "bad-op")

def main : IO Unit := Arc.Proto.run stepC29 none
