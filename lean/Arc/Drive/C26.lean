import Arc.Base.Proto
import Arc.Model.C26
/-! Model driver for C26 (reads ops on stdin, prints one line per op). -/
open Arc.Proto Arc.C26

structure DS where
  cfg : Cfg := { tolSec := 0, ttlNs := 0 }
  c : Cache := { entries := [], lastEvict := 0 }

def verdictStr : Verdict → String
  | .accepted => "accepted" | .expired => "expired" | .badmac => "badmac" | .replay => "replay"

def stepC26 (s : DS) (fs : List String) : DS × String :=
  match fs with
  | ["new", _kind, ttl, tol, base] =>
    match int? ttl, int? tol, int? base with
    | some ttl, some tol, some base =>
      ({ cfg := { tolSec := tol, ttlNs := ttl }, c := { entries := [], lastEvict := base } }, "ok")
    | _, _, _ => (s, "bad-op")
  | ["msg", _kind, now, sender, nonce, ts, mac] =>
    match int? now, int? ts with
    | some now, some ts =>
      let e : Ev := { now := now, msg := { key := sender ++ "\x00" ++ nonce, ts := ts, macOk := mac == "1" || mac == "2" } }
      let (c', v) := handle s.cfg s.c e
      ({ s with c := c' }, s!"{verdictStr v} len={c'.entries.length}")
    | _, _ => (s, "bad-op")
  | ["hmsg", _kind, now, sender, nonce, ts, mac] =>
    -- handler level: the wire collapses every rejection reason
    match int? now, int? ts with
    | some now, some ts =>
      let e : Ev := { now := now, msg := { key := sender ++ "\x00" ++ nonce, ts := ts, macOk := mac == "1" || mac == "2" } }
      let (c', v) := handle s.cfg s.c e
      let w := if v == .accepted then "accepted" else "rejected"
      ({ s with c := c' }, s!"{w} len={c'.entries.length}")
    | _, _ => (s, "bad-op")
  | ["lmsg", _kind, now, sender, nonce, ts, mac] =>
    -- real lifecycle: only the verdict is observable
    match int? now, int? ts with
    | some now, some ts =>
      let e : Ev := { now := now, msg := { key := sender ++ "\x00" ++ nonce, ts := ts, macOk := mac == "1" || mac == "2" } }
      let (c', v) := handle s.cfg s.c e
      ({ s with c := c' }, if v == .accepted then "accepted" else "rejected")
    | _, _ => (s, "bad-op")
  | _ => (s, "bad-op")

def main : IO Unit := Arc.Proto.run stepC26 {}
