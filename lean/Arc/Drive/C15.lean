import Arc.Base.Proto
import Arc.Model.C15
/-! Model driver for C15 (reads ops on stdin, prints one line per op).

`n <hex>`  → `m=<masked> k=<masks> u=<unmask(mask)> sm=<strip(masked)> sr=<strip(raw)> p=<unmask(strip(masked))>
              ms=<masker segs> lx=<SqlLex segs> ss=<strip segs of masked> K=<kM>/<kS of masked>/<kP>`
`u <hex text> <masks>` → `u=<unmask>`  (unmask of an arbitrary text with arbitrary masks)
-/
open Arc.Proto Arc.C15

def segCode : Seg → Char × Nat
  | .raw _ => ('r', 1)
  | .str o => ('s', o.length)
  | .ident o => ('i', o.length)
  | .lcom o => ('l', o.length)
  | .bcom o => ('b', o.length)

/-- run-length coded kinds: `r12.s5.i3.l4.b9` -/
def segsStrAux : List Seg → Nat → List String → List String
  | [], run, acc => (if run > 0 then s!"r{run}" :: acc else acc).reverse
  | .raw _ :: r, run, acc => segsStrAux r (run + 1) acc
  | x :: r, run, acc =>
    let acc := if run > 0 then s!"r{run}" :: acc else acc
    let (k, n) := segCode x
    segsStrAux r 0 (s!"{k}{n}" :: acc)

def segsStr (l : List Seg) : String :=
  let xs := segsStrAux l 0 []
  if xs.isEmpty then "-" else ".".intercalate xs

def bytesToAscii (b : Bytes) : String := String.ofList (b.map (fun c => Char.ofNat c.toNat))

def masksStr (ms : List Mask) : String :=
  if ms.isEmpty then "-" else
  ",".intercalate (ms.map fun m => s!"{bytesToAscii m.ph}:{if m.isIdent then "I" else "S"}:{hex m.orig}")

def parseMasks (s : String) : Option (List Mask) :=
  if s == "-" then some [] else
  (s.splitOn ",").mapM fun item =>
    match item.splitOn ":" with
    | [ph, k, o] => (unhex o).map fun ob => ⟨ph.toList.map (fun c => c.toNat.toUInt8), ob, k == "I"⟩
    | _ => none

def stepC15 (_ : Unit) (fs : List String) : Unit × String :=
  match fs with
  | ["n", h] =>
    match unhex h with
    | some s =>
      let hq := hasQuotes s
      let hc := hasComments s
      let m := mask s hq
      let u := unmask m.1 m.2
      let sm := strip m.1 hc
      let sr := strip s true
      let p := unmask sm m.2
      ((), s!"m={hex m.1} k={masksStr m.2} u={hex u} sm={hex sm} sr={hex sr} p={hex p} ms={segsStr (mSegs s)} lx={segsStr (lSegs s)} ss={segsStr (sSegs m.1)} K={kClassM s}/{kClassS m.1}/{kClassP s}")
    | none => ((), "bad-op")
  | ["u", h, ms] =>
    match unhex h, parseMasks ms with
    | some t, some masks => ((), s!"u={hex (unmask t masks)}")
    | _, _ => ((), "bad-op")
  | _ => ((), "bad-op")

def main : IO Unit := Arc.Proto.run stepC15 ()
