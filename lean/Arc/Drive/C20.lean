import Arc.Base.Proto
import Arc.Model.C20
/-! Model driver for C20 (reads ops on stdin, prints one line per op).
String fields: "~" = empty string, "=" = absent (optional field not supplied). -/
open Arc.Proto Arc.C20

def str? (s : String) : Str := if s == "~" then [] else s.toList
def optStr? (s : String) : Option Str := if s == "=" then none else some (str? s)
def csv? (s : String) : List Str := if s == "~" || s == "=" then [] else (s.splitOn ",").map String.toList
def optBool? (s : String) : Option (Option Bool) :=
  if s == "=" then some none else if s == "1" then some (some true) else if s == "0" then some (some false) else none

def resStr : Res → String
  | .ok => "ok" | .notfound => "notfound" | .conflict => "conflict" | .invalid => "invalid"
  | .error => "error" | .badid => "bad-id"

def srcStr : Src → String
  | .rbac => "rbac" | .token => "token" | .denied => "denied" | .unauth => "unauth"

def decStr (d : Dec) (hit : Bool) : String :=
  (if d.allowed then "allow:" else "deny:") ++ srcStr d.src ++ (if hit then ":hit" else ":miss")

def outStr : Out → String
  | .badOracle => "bad-oracle"
  | .sizes p t => s!"ok p={p} t={t}"
  | .res r => resStr r
  | .dec d h => decStr d h
  | .decs ds =>
    let items := ds.map fun p => (if p.1.allowed then "allow:" else "deny:") ++ srcStr p.1.src
    let live := ds.filter fun p => p.1.src != .unauth
    let h := (live.filter fun p => p.2).length
    s!"{",".intercalate items} h={h} m={live.length - h}"

def keys? : List String → Option (List Key)
  | [] => some []
  | t :: db :: m :: p :: rest =>
    match nat? t, keys? rest with
    | some t, some ks => some (⟨t, str? db, str? m, str? p⟩ :: ks)
    | _, _ => none
  | _ => none

def victim? (f : String) : Option Victim :=
  match f.splitOn ":" with
  | ["T", t] => (nat? t).map .tok
  | ["P", t, db, m, p] => (nat? t).map fun t => .perm ⟨t, str? db, str? m, str? p⟩
  | _ => none

def victims? : List String → Option (List Victim)
  | [] => some []
  | f :: rest => do let v ← victim? f; let vs ← victims? rest; pure (v :: vs)

/-- split the fields at the "/" separator (requests / eviction oracle) -/
def splitOracle (fs : List String) : List String × List String :=
  (fs.takeWhile (· != "/"), (fs.dropWhile (· != "/")).drop 1)

def parseOp (fs : List String) : Option Op :=
  match fs with
  | ["clean"] => some .cleanup
  | ["adv", dt] => (nat? dt).map .advance
  | ["corg", name, id] => (nat? id).map (.createOrg (str? name))
  | ["uorg", id, name, en] => do let i ← nat? id; let e ← optBool? en; pure (.updateOrg i (optStr? name) e)
  | ["dorg", id] => (nat? id).map .deleteOrg
  | ["cteam", org, name, id] => do let o ← nat? org; let i ← nat? id; pure (.createTeam o (str? name) i)
  | ["uteam", id, name, en] => do let i ← nat? id; let e ← optBool? en; pure (.updateTeam i (optStr? name) e)
  | ["dteam", id] => (nat? id).map .deleteTeam
  | ["crole", team, pat, perms, id] => do let t ← nat? team; let i ← nat? id; pure (.createRole t (str? pat) (csv? perms) i)
  | ["urole", id, pat, perms] => do let i ← nat? id; pure (.updateRole i (optStr? pat) (csv? perms))
  | ["drole", id] => (nat? id).map .deleteRole
  | ["cmp", role, pat, perms, id] => do let r ← nat? role; let i ← nat? id; pure (.createMP r (str? pat) (csv? perms) i)
  | ["dmp", id] => (nat? id).map .deleteMP
  | ["amem", tok, team, id] => do let a ← nat? tok; let b ← nat? team; let i ← nat? id; pure (.addMem a b i)
  | ["rmem", tok, team] => do let a ← nat? tok; let b ← nat? team; pure (.removeMem a b)
  | ["ctok", name, perms, id] => (nat? id).map (.createToken (str? name) (csv? perms))
  | ["utok", id, perms] => (nat? id).map (fun i => .updateToken i (csv? perms))
  | ["rvtok", id] => (nat? id).map .revokeToken
  | ["dtok", id] => (nat? id).map .deleteToken
  | ["rottok", id] => (nat? id).map .rotateToken
  | "chk" :: t :: db :: m :: p :: rest =>
    (match rest with
     | [] => (nat? t).map fun t => .check ⟨t, str? db, str? m, str? p⟩ []
     | "/" :: vs => do let t ← nat? t; let o ← victims? vs; pure (.check ⟨t, str? db, str? m, str? p⟩ o)
     | _ => none)
  | "bat" :: rest => do
    let ks ← keys? (splitOracle rest).1
    let o ← victims? (splitOracle rest).2
    pure (.batch ks o)
  | _ => none

/-- `seed id₁ id₂ …`: the node joins a cluster and `SeedRBACFromLocalSQLite` proposes a Create for
every local organization in id order; the FSM stamps the given ids; each lands in
`ApplyCreateOrganization`. -/
def seedOps (st : State) (ids : List Nat) : Option (List Op) :=
  let orgs := st.tb.orgs.mergeSort (fun a b => a.id ≤ b.id)
  if orgs.length == ids.length then
    some (.toCluster :: (orgs.zip ids).map fun p => .applyCreateOrg p.1.name p.2)
  else none

def runSeed (st : State) : List Op → State × Bool
  | [] => (st, true)
  | op :: ops =>
    let r := step st op
    let ok := match r.2 with | .res .ok => true | _ => false
    let rest := runSeed r.1 ops
    (rest.1, ok && rest.2)

def nats? : List String → Option (List Nat)
  | [] => some []
  | f :: rest => do let v ← nat? f; let vs ← nats? rest; pure (v :: vs)

def stepC20 (s : Option State) (fs : List String) : Option State × String :=
  match fs with
  | ["new", mode, ttl, now, cap] =>
    match int? ttl, int? now, nat? cap with
    | some ttl, some now, some cap =>
      if mode == "direct" then (some (init .direct ttl now cap), "ok")
      else if mode == "cluster" then (some (init .cluster ttl now cap), "ok")
      else (s, "bad-op")
    | _, _, _ => (s, "bad-op")
  | "seed" :: ids =>
    match s, nats? ids with
    | some st, some ids =>
      (match st.mode, seedOps st ids with
       | .direct, some ops => let r := runSeed st ops; (some r.1, if r.2 then "ok" else "error")
       | _, _ => (s, "bad-op"))
    | _, _ => (s, "bad-op")
  | _ =>
    match s, parseOp fs with
    | some st, some op => let r := step st op; (some r.1, outStr r.2)
    | _, _ => (s, "bad-op")

def main : IO Unit := Arc.Proto.run stepC20 none
