import Arc.Base.Proto
import Arc.Model.C20
/-! Model driver for C20 (reads ops on stdin, prints one line per op).
String fields: "~" = empty string, "=" = absent (optional field not supplied). -/
open Arc.Proto Arc.C20

def str? (s : String) : Str := if s == "~" then [] else s.toList
def optStr? (s : String) : Option Str := if s == "=" then none else some (str? s)
def csv? (s : String) : List Str := if s == "~" || s == "=" then [] else (s.splitOn ",").map String.toList
def optBool? (s : String) : Option (Option Bool) :=
  if s == "=" then some none else if s == "1" then some (some true) else if s == "0" then some (some false) else none

def resStr : Res → String
  | .ok => "ok" | .notfound => "notfound" | .conflict => "conflict" | .invalid => "invalid"
  | .error => "error" | .badid => "bad-id"

def srcStr : Src → String
  | .rbac => "rbac" | .token => "token" | .denied => "denied" | .unauth => "unauth"

def decStr (d : Dec) (hit : Bool) : String :=
  (if d.allowed then "allow:" else "deny:") ++ srcStr d.src ++ (if hit then ":hit" else ":miss")

def outStr : Out → String
  | .res r => resStr r
  | .dec d h => decStr d h
  | .decs ds =>
    let items := ds.map fun p => (if p.1.allowed then "allow:" else "deny:") ++ srcStr p.1.src
    let live := ds.filter fun p => p.1.src != .unauth
    let h := (live.filter fun p => p.2).length
    s!"{",".intercalate items} h={h} m={live.length - h}"

def keys? : List String → Option (List Key)
  | [] => some []
  | t :: db :: m :: p :: rest =>
    match nat? t, keys? rest with
    | some t, some ks => some (⟨t, str? db, str? m, str? p⟩ :: ks)
    | _, _ => none
  | _ => none

def parseOp (fs : List String) : Option Op :=
  match fs with
  | ["adv", dt] => (nat? dt).map .advance
  | ["corg", name, id] => (nat? id).map (.createOrg (str? name))
  | ["uorg", id, name, en] => do let i ← nat? id; let e ← optBool? en; pure (.updateOrg i (optStr? name) e)
  | ["dorg", id] => (nat? id).map .deleteOrg
  | ["cteam", org, name, id] => do let o ← nat? org; let i ← nat? id; pure (.createTeam o (str? name) i)
  | ["uteam", id, name, en] => do let i ← nat? id; let e ← optBool? en; pure (.updateTeam i (optStr? name) e)
  | ["dteam", id] => (nat? id).map .deleteTeam
  | ["crole", team, pat, perms, id] => do let t ← nat? team; let i ← nat? id; pure (.createRole t (str? pat) (csv? perms) i)
  | ["urole", id, pat, perms] => do let i ← nat? id; pure (.updateRole i (optStr? pat) (csv? perms))
  | ["drole", id] => (nat? id).map .deleteRole
  | ["cmp", role, pat, perms, id] => do let r ← nat? role; let i ← nat? id; pure (.createMP r (str? pat) (csv? perms) i)
  | ["dmp", id] => (nat? id).map .deleteMP
  | ["amem", tok, team, id] => do let a ← nat? tok; let b ← nat? team; let i ← nat? id; pure (.addMem a b i)
  | ["rmem", tok, team] => do let a ← nat? tok; let b ← nat? team; pure (.removeMem a b)
  | ["ctok", name, perms, id] => (nat? id).map (.createToken (str? name) (csv? perms))
  | ["utok", id, perms] => (nat? id).map (fun i => .updateToken i (csv? perms))
  | ["rvtok", id] => (nat? id).map .revokeToken
  | ["dtok", id] => (nat? id).map .deleteToken
  | ["rottok", id] => (nat? id).map .rotateToken
  | ["chk", t, db, m, p] => (nat? t).map fun t => .check ⟨t, str? db, str? m, str? p⟩
  | "bat" :: rest => (keys? rest).map .batch
  | _ => none

def stepC20 (s : Option State) (fs : List String) : Option State × String :=
  match fs with
  | ["new", mode, ttl, now] =>
    match int? ttl, int? now with
    | some ttl, some now =>
      if mode == "direct" then (some (init .direct ttl now), "ok")
      else if mode == "cluster" then (some (init .cluster ttl now), "ok")
      else (s, "bad-op")
    | _, _ => (s, "bad-op")
  | _ =>
    match s, parseOp fs with
    | some st, some op => let r := step st op; (some r.1, outStr r.2)
    | _, _ => (s, "bad-op")

def main : IO Unit := Arc.Proto.run stepC20 none
